//! C07 - the browser-interoperability setters of url::quirks behave as the attribute setters of the
//! WHATWG URL Standard.
//!   corr   : (a) model <-> implementation on single quirks assignments and histories (full record and
//!            status after every step), (b) the specification model on all WPT setter vectors,
//!            (c) FIXED-seed differential implementation <-> specification model on single
//!            assignments (`set`) and histories (`setseq`): a divergence outside Known_C07 is a mismatch;
//!            the Coq and the Rust version of Known_C07 are compared on every case.
//!   search : the same streams; every (start, setter, value) / history on which the implementation
//!            leaves the Standard outside Known_C07 is reported as a failing case
//!            `set07 <href> <setter>=<value>,...`.
//!   known  : replays the recorded findings F-C07-*.
//!   replay : re-runs a stored `set07` case and prints implementation, model and Standard.
use std::collections::HashMap;
use url::Url;
use verif_harness::specapi::*;
use verif_harness::urlops::*;
use verif_harness::urlrec::*;
use verif_harness::*;

// ------------------------------------------------------------------------------- Known_C01 (href)
// the href setter is the URL parser without a base: it inherits Known_C01 (same text as in c01.rs;
// the Coq version is Model/KnownC01.v, compared through the request `known07 … href …`)
use verif_harness::known01::{has_drive_segment, is_special_scheme};
/// Known_C01 without a base: 0 = not known, 1..4 = class (harness/src/known01.rs)
fn known_c01_nobase(input: &str) -> u32 {
    verif_harness::known01::known_c01(None, input)
}

// ------------------------------------------------------------------------------- Known_C07
fn is_tnl(c: char) -> bool {
    matches!(c, '\t' | '\n' | '\r')
}
/// the value as the state machines see it: tab / LF / CR removed (nothing trimmed)
fn no_tnl(v: &str) -> Vec<char> {
    v.chars().filter(|c| !is_tnl(*c)).collect()
}
/// a ':' outside square brackets before the end of the host (first of / ? # and, for special
/// schemes, \)
fn host_colon(t: &[char], special: bool) -> bool {
    let mut inside = false;
    for &c in t {
        match c {
            '[' => inside = true,
            ']' => inside = false,
            ':' if !inside => return true,
            '/' | '?' | '#' => return false,
            '\\' if special => return false,
            _ => {}
        }
    }
    false
}
fn contains_double_slash(t: &[char]) -> bool {
    t.windows(2).any(|w| w == ['/', '/'])
}
/// "." or "%2e" / "%2E" at the start: the rest
fn dot_prefix(t: &[char]) -> Option<&[char]> {
    match t {
        ['.', r @ ..] => Some(r),
        ['%', '2', 'e' | 'E', r @ ..] => Some(r),
        _ => None,
    }
}
/// two dots (each "." or "%2e") next to each other somewhere
fn has_dotdot(t: &[char]) -> bool {
    (0..t.len()).any(|i| dot_prefix(&t[i..]).and_then(dot_prefix).is_some())
}
/// one dot somewhere
fn has_dot(t: &[char]) -> bool {
    (0..t.len()).any(|i| dot_prefix(&t[i..]).is_some())
}

/// Known_C07: classes of (URL, setter, value) on which the pinned code is known to leave the
/// Standard (DESIGN.md section 9, F-C07-1..11); by mechanism.  0 = not known.
/// The Coq version is Model/KnownC07.v `known_c07`; the two are compared on every differential case.
fn known_c07(u: &Url, setter: &str, v: &str) -> u32 {
    // 0xff = the accessors panic on this record (only reachable when a setter has corrupted it)
    std::panic::catch_unwind(std::panic::AssertUnwindSafe(|| known_c07_inner(u, setter, v))).unwrap_or(0xff)
}
fn known_c07_inner(u: &Url, setter: &str, v: &str) -> u32 {
    let scheme = u.scheme();
    let file = scheme == "file";
    let special = is_special_scheme(scheme);
    let cbb = u.cannot_be_a_base();
    let t = no_tnl(v);
    let hostish = setter == "host" || setter == "hostname";
    match setter {
        "href" => {
            let k = known_c01_nobase(v);
            if k != 0 {
                return 10 + k;
            }
            0
        }
        "protocol" => {
            // K6 (F-C07-7): the new scheme is `file`, the old one is special and not `file`
            let name: String = t.iter().take_while(|c| **c != ':').map(|c| c.to_ascii_lowercase()).collect();
            if name == "file" && special && !file {
                return 6;
            }
            0
        }
        "port" => {
            // K8 (F-C07-9): a non-empty value of tab / newline only, when there is a port to lose
            if !v.is_empty() && t.is_empty() && u.port().is_some() {
                return 8;
            }
            0
        }
        "host" | "hostname" | "pathname" if cbb => 0,
        "host" | "hostname" | "pathname" => {
            // K4 (F-C07-3, F-C07-10): the file scheme (drive letters, host states of file URLs)
            if file {
                return 4;
            }
            // K3 (F-C07-2): the '/.' marker of an authority-less URL whose path starts with "//"
            if !u.has_host() && (u.path().starts_with("//") || (setter == "pathname" && (t.starts_with(&['/', '/']) || contains_double_slash(&t) && has_dot(&t)))) {
                return 3;
            }
            if hostish {
                // K2 (F-C07-1, F-C07-6): ':' ends the host; hostname must ignore the assignment, host
                // must when nothing precedes it
                if setter == "hostname" && host_colon(&t, special) {
                    return 2;
                }
                if setter == "host" && !special && t.first() == Some(&':') {
                    return 2;
                }
                // K7 (F-C07-8): only the username is looked at before an empty host is accepted
                let empty_host_part = matches!(t.first(), None | Some('/') | Some('?') | Some('#'));
                if setter == "host" && !special && empty_host_part && u.username().is_empty() && u.password().map_or(false, |p| !p.is_empty()) {
                    return 7;
                }
                return 0;
            }
            // pathname
            // K1 (F-C07-12 = F-C01-9 through the setter): a drive-letter-shaped segment is never popped
            if has_drive_segment(&t) && has_dotdot(&t) {
                return 1;
            }
            // K5 (F-C07-5): "is the value empty" is asked of the raw value and of has_host(): an
            // authority with an empty host, or a value of tab / newline only, gets the path "/"
            if !special && u.has_authority() && t.is_empty() && (!v.is_empty() || !u.has_host()) {
                return 5;
            }
            // K9 (F-C07-11): the "starts with a slash" test runs on the raw value
            if v.chars().next().map_or(false, is_tnl) && (t.first() == Some(&'/') || special && t.first() == Some(&'\\')) {
                return 9;
            }
            0
        }
        _ => 0,
    }
}

// ------------------------------------------------------------------------------- context
struct Ctx {
    drv: Driver,
    rep: Report,
    dbg: &'static str,
    search: bool,
    spec: Option<Driver>,
    start_ok: HashMap<String, bool>,
    calib: std::collections::BTreeMap<String, (u64, String)>,
}

fn new_ctx(args: &Args, search: bool) -> Ctx {
    let dbg = if cfg!(debug_assertions) { "1" } else { "0" };
    Ctx {
        drv: Driver::spawn(&args.driver),
        rep: Report::new(),
        dbg,
        search,
        spec: if args.driver2.is_empty() { None } else { Some(Driver::spawn(&args.driver2)) },
        start_ok: HashMap::new(),
        calib: Default::default(),
    }
}

fn case07(href: &str, ops: &[(&str, String)]) -> String {
    format!("set07 {} {}", hexs(href), ops.iter().map(|(n, v)| format!("{}={}", n, hexs(v))).collect::<Vec<_>>().join(","))
}
fn parse_case07(req: &str) -> Option<(String, Vec<(&'static str, String)>)> {
    let w: Vec<&str> = req.split(' ').collect();
    if w.len() != 3 || w[0] != "set07" {
        return None;
    }
    let mut ops = Vec::new();
    for o in w[2].split(',') {
        let (n, v) = o.split_once('=')?;
        let name = KEYS.iter().find(|k| **k == n)?;
        ops.push((*name, unhexs(v)));
    }
    Some((unhexs(w[1]), ops))
}

fn shape(u: &Url) -> String {
    // a record corrupted by a (mutated) setter can make the accessors panic
    std::panic::catch_unwind(std::panic::AssertUnwindSafe(|| shape_inner(u))).unwrap_or_else(|_| "broken".into())
}
fn shape_inner(u: &Url) -> String {
    format!(
        "{}{}{}{}",
        if u.cannot_be_a_base() { "o" } else if u.scheme() == "file" { "f" } else if is_special_scheme(u.scheme()) { "s" } else { "n" },
        if u.has_host() { if u.host_str() == Some("") { "E" } else { "H" } } else { "-" },
        if !u.username().is_empty() || u.password().is_some() { "C" } else { "-" },
        if u.port().is_some() { "P" } else { "-" },
    )
}

/// implementation: the ten API strings after one assignment (None = panic)
fn impl_step(u: &Url, name: &str, v: &str) -> Option<(Url, Vec<String>)> {
    let mut c = u.clone();
    let r = std::panic::catch_unwind(std::panic::AssertUnwindSafe(|| {
        impl_set(&mut c, name, v);
        impl_api(&c)
    }));
    match r {
        Ok(a) => Some((c, a)),
        Err(_) => None,
    }
}

impl Ctx {
    // ---------------------------------------------------------------- (a) model <-> implementation
    /// one quirks assignment on the model and on the crate; returns the crate's new URL
    fn model_step(&mut self, stream: &str, u: &Url, name: &'static str, v: &str) -> (Option<Url>, bool) {
        if name == "href" {
            let req = format!("parse {} 0 ~ {}", self.dbg, hexs(v));
            let model = self.drv.ask_with(&req, url_oracle);
            let r = std::panic::catch_unwind(|| Url::parse(v));
            let (imp, nu) = match r {
                Ok(r) => (parse_result_token(&r), Some(r.unwrap_or_else(|_| u.clone()))),
                Err(_) => ("panic".to_string(), None),
            };
            let sig = format!("q_href:{}", if imp.starts_with("ok") { "ok" } else { "err" });
            self.rep.case(stream, &req, &model, &imp, true, &sig);
            return (nu, model != imp);
        }
        let op = Op::Quirk(name, v.to_string());
        let req = format!("op {} {} {}", self.dbg, url_token(u), op.token());
        let model = self.drv.ask_with(&req, url_oracle);
        let (imp, nu) = impl_op_result(&op, u);
        let status = imp.rsplit(' ').next().unwrap_or("").to_string();
        let sig = format!("q_{}:{}:{}", name, status, shape(u));
        self.rep.case(stream, &req, &model, &imp, true, &sig);
        (nu, model != imp)
    }

    // ---------------------------------------------------------------- (c) implementation <-> Standard
    /// the ten API strings the specification model gives for `href` after the assignments
    fn spec_after(&mut self, href: &str, ops: &[(&str, String)]) -> Result<Vec<String>, String> {
        let drv2 = self.spec.as_mut().expect("spec driver");
        let req = if ops.is_empty() {
            format!("parse ~ {}", hexs(href))
        } else if ops.len() == 1 {
            format!("set {} {} {}", hexs(href), ops[0].0, hexs(&ops[0].1))
        } else {
            format!("setseq {} {}", hexs(href), ops.iter().map(|(n, v)| format!("{}={}", n, hexs(v))).collect::<Vec<_>>().join(","))
        };
        decode_answer(&drv2.ask_with(&req, spec_oracle))
    }

    /// do rust-url and the Standard agree on the start URL itself (the ten API strings)?
    fn start_agrees(&mut self, href: &str, u: &Url) -> bool {
        if let Some(b) = self.start_ok.get(href) {
            return *b;
        }
        let ok = match self.spec_after(href, &[]) {
            Ok(v) => v == impl_api(u),
            Err(_) => false,
        };
        if self.start_ok.len() > 200_000 {
            self.start_ok.clear();
        }
        self.start_ok.insert(href.to_string(), ok);
        ok
    }

    /// the Coq and the Rust version of Known_C07 must agree; returns the class (0 = not known)
    fn known_both(&mut self, u: &Url, name: &str, v: &str) -> u32 {
        let k = known_c07(u, name, v);
        let kreq = format!("known07 {} {} {}", url_token(u), name, hexs(v));
        let km = self.drv.ask_with(&kreq, url_oracle);
        let ki = format!("{:x}", k);
        if km != ki {
            self.rep.case("known-predicate", &kreq, &km, &ki, true, "known07");
        }
        k
    }

    /// a history of assignments from the URL string `href`, compared after every step.
    /// Returns Some(description) when the implementation leaves the Standard outside Known_C07.
    fn standard_history(&mut self, stream: &str, href: &str, ops: &[(&'static str, String)], record: bool) -> Option<String> {
        if self.spec.is_none() {
            return None;
        }
        let mut u = match Url::parse(href) {
            Ok(u) => u,
            Err(_) => return None,
        };
        if !self.start_agrees(href, &u) {
            if record {
                self.rep.bump("start-url-in-a-parse-divergence:skipped");
            }
            return None;
        }
        for k in 0..ops.len() {
            let (name, v) = (ops[k].0, ops[k].1.as_str());
            let class = self.known_both(&u, name, v);
            let before = std::panic::catch_unwind(std::panic::AssertUnwindSafe(|| impl_api(&u))).unwrap_or_default();
            let step = impl_step(&u, name, v);
            let spec = self.spec_after(href, &ops[..=k]);
            let human = format!("{}   [{:?} {}]", case07(href, &ops[..=k]), href, ops[..=k].iter().map(|(n, v)| format!(".{} = {:?}", n, v)).collect::<Vec<_>>().join(" "));
            let (imp_s, next) = match step {
                Some((nu, a)) => (a.join(" | "), Some((nu, a))),
                None => ("panic".to_string(), None),
            };
            let spec_s = match &spec {
                Ok(v) => v.join(" | "),
                Err(k) => k.clone(),
            };
            if spec_s == imp_s {
                if record && class != 0 {
                    self.rep.bump(&format!("known-but-agrees:K{}", class));
                }
                if record {
                    let changed = next.as_ref().map_or(false, |(_, a)| *a != before);
                    let sig = format!("std:{}:{}:{}:{}", name, if changed { "changes" } else { "ignored" }, shape(&u), if class != 0 { "in-known" } else { "" });
                    self.rep.case(stream, &human, &spec_s, &imp_s, true, &sig);
                }
            } else if class != 0 && imp_s != "panic" {
                if record {
                    self.rep.evaluations += 1;
                    self.rep.bump(&format!("known-divergence:K{}", class));
                }
                return None; // the two sides are in different states from here on
            } else {
                let how = match (&spec, &next) {
                    (Ok(sv), Some((_, a))) => {
                        let h = if *a == before { "impl-unchanged" } else if *sv == before { "spec-unchanged" } else { "both-change" };
                        let fields: Vec<&str> = KEYS.iter().enumerate().filter(|(i, _)| sv[*i] != a[*i]).map(|(_, k)| *k).collect();
                        format!("{}[{}]", h, fields.join("+"))
                    }
                    _ => "panic-or-spec-error".to_string(),
                };
                let cls = format!("{}:{}:{}:{}", name, how, shape(&u), if no_tnl(v).len() != v.chars().count() { "tnl" } else { "" });
                let e = self.calib.entry(cls).or_insert((0, human.clone()));
                e.0 += 1;
                if human.len() < e.1.len() {
                    e.1 = format!("{}  spec=<{}> impl=<{}>", human, spec_s, imp_s);
                }
                if record {
                    self.rep.case(stream, &human, &spec_s, &imp_s, true, "std:DIVERGES");
                }
                return Some(format!(
                    "after {} the Standard gives <{}>, the implementation gives <{}>",
                    ops[..=k].iter().map(|(n, v)| format!(".{} = {:?}", n, v)).collect::<Vec<_>>().join(" "),
                    spec_s,
                    imp_s
                ));
            }
            u = next.unwrap().0;
        }
        None
    }

    fn standard_case(&mut self, stream: &str, href: &str, ops: &[(&'static str, String)]) {
        if let Some(w) = self.standard_history(stream, href, ops, true) {
            if self.search && self.rep.failures.len() < 20 {
                self.rep.failures.push((case07(href, ops), w));
            }
        }
    }

    /// after a model/implementation difference on a step (search mode): is the Standard violated there?
    fn judge_step(&mut self, href_of_u: &str, name: &'static str, v: &str) {
        if !self.search || self.rep.failures.len() >= 20 {
            return;
        }
        let ops = [(name, v.to_string())];
        if let Some(w) = self.standard_history("judge", href_of_u, &ops, false) {
            self.rep.failures.push((case07(href_of_u, &ops), w));
        }
    }
}

// ------------------------------------------------------------------------------- generators
fn value_pool() -> Vec<&'static str> {
    let mut v = arg_pool();
    for s in setter_values() {
        if !v.contains(&s) {
            v.push(s);
        }
    }
    v
}

fn extra_starts() -> Vec<&'static str> {
    vec![
        "file:///c:/x", "non-spec:/.//p", "foo:///some/path", "file://monkey/", "http://example.net:8080/path", "a:/x", "web+demo://:p@x.y",
        "sc:opaque ", "data:space    ?q#f", "http://u@h:21/p?q#f", "file:///", "sc://x/", "sc:///", "https://:@h:444/", "ftp://h:21/", "wss://h:80/",
        "non-spec:/..//p", "http://h/?'", "ssh://me@example.net", "view-source+http://example.net/path", "gopher://h:70/",
    ]
}

fn random_value(rng: &mut Rng, values: &[&'static str]) -> String {
    if rng.chance(1, 4) {
        let t = random_url_string(rng);
        if rng.chance(1, 2) { t } else { mutate_string(rng, &t) }
    } else if rng.chance(1, 5) {
        let v0 = rng.pick(values).to_string();
        mutate_string(rng, &v0)
    } else if rng.chance(1, 10) {
        format!("{}{}", rng.pick(values), rng.pick(values))
    } else {
        rng.pick(values).to_string()
    }
}

/// the components of the URL itself, as they are and in another case (the setters have
/// "same value" shortcuts; re-assigning what is there is the common use)
fn own_values(u: &Url) -> Vec<String> {
    let parts: Vec<String> = std::panic::catch_unwind(std::panic::AssertUnwindSafe(|| {
        vec![
            u.scheme().to_string(),
            u.username().to_string(),
            u.password().unwrap_or("").to_string(),
            u.host_str().unwrap_or("").to_string(),
            u.port().map(|p| p.to_string()).unwrap_or_default(),
            u.port_or_known_default().map(|p| p.to_string()).unwrap_or_default(),
            u.path().to_string(),
            u.query().unwrap_or("").to_string(),
            u.fragment().unwrap_or("").to_string(),
            url::quirks::host(u).to_string(),
        ]
    }))
    .unwrap_or_default();
    let mut v: Vec<String> = Vec::new();
    for p in parts.into_iter().filter(|p| !p.is_empty()) {
        for q in [p.clone(), p.to_ascii_uppercase(), p.to_ascii_lowercase()] {
            if !v.contains(&q) {
                v.push(q);
            }
        }
    }
    v
}
fn value_for(rng: &mut Rng, values: &[&'static str], u: &Url) -> String {
    if rng.chance(1, 10) {
        let own = own_values(u);
        if !own.is_empty() {
            let o = rng.pick(&own).clone();
            return if rng.chance(1, 4) { mutate_string(rng, &o) } else { o };
        }
    }
    random_value(rng, values)
}

fn random_start(rng: &mut Rng, starts: &[String]) -> (String, Url) {
    if rng.chance(1, 2) {
        let s = random_url_string(rng);
        if let Ok(u) = Url::parse(&s) {
            return (s, u);
        }
    }
    let s = rng.pick(starts).clone();
    let u = Url::parse(&s).expect("start");
    (s, u)
}

fn all_starts() -> Vec<String> {
    let mut starts: Vec<String> = start_pool().iter().map(|u| u.as_str().to_string()).collect();
    for s in extra_starts() {
        if Url::parse(s).is_ok() && !starts.iter().any(|x| x == s) {
            starts.push(s.to_string());
        }
    }
    starts
}

const ALL_SETTERS: [&str; 10] = KEYS;

// ------------------------------------------------------------------------------- streams
fn run_model_streams(cx: &mut Ctx, args: &Args) {
    let thorough = args.tier == "thorough" || cx.search;
    let mut rng = Rng::new(args.seed ^ 0xC07);
    let values = value_pool();
    let starts = all_starts();

    // corpus: stored cases
    if let Ok(txt) = std::fs::read_to_string(format!("{}/C07/cases.txt", args.file)) {
        for l in txt.lines().filter(|l| l.starts_with("set07 ")) {
            if let Some((href, ops)) = parse_case07(l) {
                if let Ok(mut u) = Url::parse(&href) {
                    for (n, v) in &ops {
                        let cur = u.as_str().to_string();
                        let (nu, differs) = cx.model_step("corpus", &u, n, v);
                        if differs {
                            cx.judge_step(&cur, n, v);
                        }
                        match nu {
                            Some(nu) => u = nu,
                            None => break,
                        }
                    }
                }
            }
        }
    }
    // after a break: the differing requests of the quick run first
    if cx.search {
        if let Ok(txt) = std::fs::read_to_string(&args.file) {
            for l in txt.lines() {
                let w: Vec<&str> = l.split(' ').collect();
                if w.len() == 5 && w[0] == "op" && w[3].starts_with("q_set_") {
                    let ser = w[2].split(',').next().map(|h| String::from_utf8_lossy(&unhexb(h)).to_string()).unwrap_or_default();
                    if let Some(name) = KEYS.iter().find(|k| **k == &w[3][6..]) {
                        cx.judge_step(&ser, name, &unhexs(w[4]));
                    }
                } else if w.len() == 5 && w[0] == "parse" {
                    cx.judge_step("http://h/", "href", &unhexs(w[4]));
                } else if w[0] == "set07" {
                    if let Some((href, ops)) = parse_case07(w[..3.min(w.len())].join(" ").as_str()) {
                        cx.standard_case("differing", &href, &ops);
                    }
                }
            }
        }
    }

    // exhaustive: every start x every setter x every pool value
    for s in &starts {
        let u = Url::parse(s).expect("start");
        for name in ALL_SETTERS {
            for v in &values {
                let (_, differs) = cx.model_step("exh-start-x-setter-x-value", &u, name, v);
                if differs {
                    cx.judge_step(s, name, v);
                }
            }
            for v in &own_values(&u) {
                let (_, differs) = cx.model_step("exh-start-x-setter-x-own-component", &u, name, v);
                if differs {
                    cx.judge_step(s, name, v);
                }
            }
        }
    }
    cx.rep.exhaustive.push(format!("{} start URLs x 10 setters x {} values (model <-> implementation)", starts.len(), values.len()));

    // histories of 1-6 assignments
    let n = if thorough { 100_000 } else { 8_000 };
    for _ in 0..n {
        if cx.search && cx.rep.failures.len() >= 20 {
            break;
        }
        let (_, mut u) = random_start(&mut rng, &starts);
        let len = 1 + rng.below(6);
        for _ in 0..len {
            let name = if rng.chance(1, 25) { "href" } else { QUIRK_SETTERS[rng.below(9)] };
            let v = value_for(&mut rng, &values, &u);
            let cur = u.as_str().to_string();
            let (nu, differs) = cx.model_step("history", &u, name, &v);
            if differs {
                cx.judge_step(&cur, name, &v);
            }
            match nu {
                Some(nu) => u = nu,
                None => break,
            }
        }
    }
}

/// the Standard side: WPT validation of the specification model and the fixed-seed differential run
fn run_standard(cx: &mut Ctx, args: &Args) {
    match cx.spec.take() {
        None => return,
        Some(mut d) => {
            wpt_validation(&mut d, &mut cx.rep, "setters");
            cx.spec = Some(d);
        }
    }
    let thorough = args.tier == "thorough";
    let values = value_pool();
    let starts = all_starts();

    // stored cases
    if let Ok(txt) = std::fs::read_to_string(format!("{}/C07/cases.txt", args.file)) {
        for l in txt.lines().filter(|l| l.starts_with("set07 ")) {
            if let Some((href, ops)) = parse_case07(l) {
                cx.standard_case("std-corpus", &href, &ops);
            }
        }
    }
    // the WPT setter vectors: implementation vs specification model
    if let Ok(txt) = std::fs::read_to_string("/repo/url/tests/setters_tests.json") {
        if let Ok(serde_json::Value::Object(o)) = serde_json::from_str::<serde_json::Value>(&txt) {
            for (name, cases) in o.iter() {
                let name = match KEYS.iter().find(|k| **k == name.as_str()) {
                    Some(n) => *n,
                    None => continue,
                };
                for c in cases.as_array().map(|a| a.as_slice()).unwrap_or(&[]).iter().filter(|c| c.is_object()) {
                    let href = c["href"].as_str().unwrap_or("");
                    let nv = c["new_value"].as_str().unwrap_or("");
                    cx.standard_case("std-wpt", href, &[(name, nv.to_string())]);
                }
            }
        }
    }
    // exhaustive pool: pool starts x setters x pool values (quick: every 4th value per start, rotating)
    for (i, s) in starts.iter().enumerate() {
        for (j, name) in ALL_SETTERS.iter().enumerate() {
            for (k, v) in values.iter().enumerate() {
                if thorough || (i + j + k) % 4 == 0 {
                    cx.standard_case("std-exh-pool", s, &[(*name, v.to_string())]);
                }
            }
            if let Ok(u) = Url::parse(s) {
                for v in own_values(&u) {
                    cx.standard_case("std-exh-own-component", s, &[(*name, v)]);
                }
            }
        }
    }
    // fixed seed: the verdict on an unchanged tree must not depend on VERIF_SEED
    let mut rng = Rng::new(0xC07);
    let n = if thorough { 600_000 } else { 60_000 };
    for _ in 0..n {
        let (href, u) = random_start(&mut rng, &starts);
        let name = *rng.pick(&ALL_SETTERS);
        let v = value_for(&mut rng, &values, &u);
        cx.standard_case("std-differential", &href, &[(name, v)]);
    }
    let n = if thorough { 100_000 } else { 10_000 };
    for _ in 0..n {
        let (href, u) = random_start(&mut rng, &starts);
        let len = 1 + rng.below(6);
        let ops: Vec<(&'static str, String)> = (0..len)
            .map(|_| {
                let name = if rng.chance(1, 25) { "href" } else { QUIRK_SETTERS[rng.below(9)] };
                (name, value_for(&mut rng, &values, &u))
            })
            .collect();
        cx.standard_case("std-histories", &href, &ops);
    }
}

fn run_corr(args: &Args, search: bool) -> Report {
    let mut cx = new_ctx(args, search);
    run_model_streams(&mut cx, args);
    run_standard(&mut cx, args);
    cx.rep.failures.sort_by_key(|(c, _)| c.len());
    cx.rep
}

// ------------------------------------------------------------------------------- known findings
fn run_known(_args: &Args) -> Report {
    let mut rep = Report::new();
    // (id, start, setter, value, href the pinned code produces; the entry reproduces when it still does).
    // F-C07-4 of DESIGN.md (href := http://0300.168.0xF0 on a file URL) is not a defect of url::quirks:
    // set_href gives the Standard's http://192.168.0.240/; the vector is listed in expected_failures.txt
    // because url/tests/wpt.rs has no "href" case in run_setter_test.
    let table: [(&str, &str, &str, &str, &str); 13] = [
        ("F-C07-1", "http://example.net/path", "hostname", "example.com:8080", "http://example.com/path"),
        ("F-C07-2", "non-spec:/.//p", "hostname", "h", "non-spec://h/.//p"),
        ("F-C07-2b", "non-spec:/", "pathname", "//p", "non-spec://p"),
        ("F-C07-3", "file:///unicorn", "pathname", "//\\/", "file:///"),
        ("F-C07-5", "foo:///some/path", "pathname", "", "foo:///"),
        ("F-C07-6", "a:/x", "host", "::1", "a:///x"),
        ("F-C07-7", "https://h", "protocol", "file", "https://h/"),
        ("F-C07-8", "web+demo://:p@x.y", "host", "//", "web+demo://:p@"),
        ("F-C07-9", "http://[::1]:81/p", "port", "\n", "http://[::1]/p"),
        ("F-C07-10", "file://monkey/", "hostname", "?", "file://monkey/"),
        ("F-C07-11", "ws://u@h/", "pathname", "\t/", "ws://u@h//"),
        ("F-C07-12", "http://h/a", "pathname", "/C|/..", "http://h/C|/"),
        ("F-C03-5", "non-spec:/.//double", "host", "", "non-spec:///.//double"),
    ];
    for (id, start, name, v, old) in table.iter().filter(|t| !t.0.is_empty()) {
        let got = match Url::parse(start).ok().and_then(|u| impl_step(&u, name, v)) {
            Some((_, a)) => a[0].clone(),
            None => "PANIC".into(),
        };
        rep.known.push((id.to_string(), got == *old, format!("{:?} .{} = {:?} -> {}", start, name, v, got)));
    }
    rep
}

// ------------------------------------------------------------------------------- replay
fn run_replay(args: &Args) -> Report {
    let mut cx = new_ctx(args, true);
    let txt = std::fs::read_to_string(&args.file).unwrap_or_default();
    let req = serde_json::from_str::<serde_json::Value>(&txt).ok().and_then(|v| v.get("request").and_then(|r| r.as_str().map(|s| s.to_string()))).unwrap_or_default();
    let (href, ops) = match parse_case07(&req) {
        Some(x) => x,
        None => {
            cx.rep.notes.push("replay file has no set07 request (no-failing-input-found replay): nothing to re-run".into());
            return cx.rep;
        }
    };
    cx.rep.notes.push(format!("start {:?}", href));
    if let Ok(mut u) = Url::parse(&href) {
        for (i, (n, v)) in ops.iter().enumerate() {
            let k = known_c07(&u, n, v);
            let mreq = if *n == "href" { format!("parse {} 0 ~ {}", cx.dbg, hexs(v)) } else { format!("op {} {} q_set_{} {}", cx.dbg, url_token(&u), n, hexs(v)) };
            let model = cx.drv.ask_with(&mreq, url_oracle);
            let model_href = model.split(|c| c == ' ' || c == ',').find(|w| w.contains('.') || w.len() > 4).map(|h| String::from_utf8_lossy(&unhexb(h)).to_string()).unwrap_or_default();
            let step = impl_step(&u, n, v);
            let spec = if cx.spec.is_some() { cx.spec_after(&href, &ops[..=i]) } else { Err("no spec driver".into()) };
            cx.rep.notes.push(format!(
                "step {} .{} = {:?} (Known_C07 class {}): implementation <{}> | model of the unchanged code <{}> [{}] | Standard <{}>",
                i + 1,
                n,
                v,
                k,
                step.as_ref().map(|s| s.1.join(" | ")).unwrap_or_else(|| "panic".into()),
                model_href,
                model.rsplit(' ').next().unwrap_or(""),
                spec.map(|s| s.join(" | ")).unwrap_or_else(|e| e)
            ));
            match step {
                Some((nu, _)) => u = nu,
                None => break,
            }
        }
    }
    cx.rep.evaluations = 1;
    if let Some(w) = cx.standard_history("replay", &href, &ops, false) {
        cx.rep.failures.push((req.clone(), w));
    }
    cx.rep
}

fn main() {
    quiet_panics();
    let args = parse_args();
    let rep = match args.mode.as_str() {
        "corr" => run_corr(&args, false),
        "search" => run_corr(&args, true),
        "std" | "calib" => {
            let mut cx = new_ctx(&args, false);
            run_standard(&mut cx, &args);
            for (c, (k, w)) in &cx.calib {
                cx.rep.notes.push(format!("CLASS {} x{} :: {}", c, k, w));
            }
            cx.rep
        }
        "known" => run_known(&args),
        "replay" => run_replay(&args),
        m => panic!("unknown mode {}", m),
    };
    finish(&args, &rep);
}
