//! C18 - forgiving base64: correspondence model <-> data_url crate, property search, replay.
//!
//! Requests (fields: dot-separated hex lists, `-` empty list, `~` absent):
//!   dec <bytes>                      forgiving_base64::decode_to_vec
//!   run <k|~> <chunk>*               Decoder::new(sink failing at call k); feed each chunk (stop at Err); finish
//!   cuts <n:2|3> <bytes>             batch: every way of cutting <bytes> into n consecutive chunks x every k
//!   body <b64:0|1> <k|~> <body>      DataUrl::process("data:[;base64],<body>").decode(sink failing at call k)
//!   bodyk <b64:0|1> <body>           batch: fault-free run, then every k in 1..=calls+1
//!   spec <code points>               (validation of the oracles) Coq Infra model vs the Rust Infra reference below
//! Results: `<delivered calls, | separated, ~ if none> <number of sink invocations> <verdict>`.
use data_url::forgiving_base64::{self, DecodeError, Decoder, InvalidBase64};
use data_url::DataUrl;
use std::cell::RefCell;
use verif_harness::*;

// ---------------------------------------------------------------- the sink of the property text
struct Sink {
    k: Option<usize>,
    attempts: usize,
    calls: Vec<Vec<u8>>,
}
impl Sink {
    fn new(k: Option<usize>) -> RefCell<Sink> {
        RefCell::new(Sink { k, attempts: 0, calls: vec![] })
    }
    fn write(cell: &RefCell<Sink>, bytes: &[u8]) -> Result<(), ()> {
        let mut s = cell.borrow_mut();
        s.attempts += 1;
        if s.k == Some(s.attempts) {
            Err(())
        } else {
            s.calls.push(bytes.to_vec());
            Ok(())
        }
    }
    fn show(cell: &RefCell<Sink>) -> String {
        let s = cell.borrow();
        let calls = if s.calls.is_empty() { "~".to_string() } else { s.calls.iter().map(|c| hexb(c)).collect::<Vec<_>>().join("|") };
        format!("{} {}", calls, s.attempts)
    }
}

fn show_invalid(e: &InvalidBase64) -> String {
    let t = e.to_string();
    if let Some(r) = t.strip_prefix("symbol with codepoint ") {
        if let Some(n) = r.strip_suffix(" not expected") {
            if let Ok(v) = n.parse::<u32>() {
                return format!("sym:{:x}", v);
            }
        }
    }
    match t.as_str() {
        "alphabet symbol present after padding" => "after-pad".into(),
        "lone alphabet symbol present" => "lone".into(),
        "incorrect padding" => "pad".into(),
        _ => format!("?{}", t.replace(' ', "_")),
    }
}
fn show_derr(e: &DecodeError<()>) -> String {
    match e {
        DecodeError::InvalidBase64(i) => show_invalid(i),
        DecodeError::WriteError(()) => "werr".into(),
    }
}

/// FragmentIdentifier exposes only to_percent_encoded(); the model returns the raw bytes after '#'.
/// Both sides are compared after this map (data-url/src/lib.rs, FragmentIdentifier::to_percent_encoded).
fn frag_canon(raw: &[u8]) -> String {
    let mut s = String::new();
    for &b in raw {
        match b {
            b'\t' | b'\n' | b'\r' => {}
            0..=b' ' | b'"' | b'<' | b'>' | b'`' | 0x7F..=0xFF => s.push_str(&format!("%{:02X}", b)),
            _ => s.push(b as char),
        }
    }
    s
}

// ---------------------------------------------------------------- implementation side
fn parse_k(s: &str) -> Option<usize> {
    if s == "~" { None } else { Some(usize::from_str_radix(s, 16).expect("k")) }
}
fn show_k(k: Option<usize>) -> String {
    match k { None => "~".into(), Some(k) => format!("{:x}", k) }
}

fn impl_dec(bs: &[u8]) -> String {
    let bs = bs.to_vec();
    guarded(move || match forgiving_base64::decode_to_vec(&bs) {
        Ok(v) => format!("ok:{}", hexb(&v)),
        Err(e) => format!("err:{}", show_invalid(&e)),
    })
}

fn impl_run(k: Option<usize>, chunks: &[Vec<u8>]) -> String {
    let chunks = chunks.to_vec();
    guarded(move || {
        let sink = Sink::new(k);
        let verdict = (|| -> Result<(), DecodeError<()>> {
            let mut d = Decoder::new(|b: &[u8]| Sink::write(&sink, b));
            for c in &chunks {
                d.feed(c)?;
            }
            d.finish()
        })();
        format!("{} {}", Sink::show(&sink), match verdict { Ok(()) => "ok".to_string(), Err(e) => show_derr(&e) })
    })
}

/// all ways of cutting bs into n consecutive (possibly empty) chunks
fn cuttings(bs: &[u8], n: usize) -> Vec<Vec<Vec<u8>>> {
    let l = bs.len();
    let mut out = vec![];
    if n == 2 {
        for i in 0..=l {
            out.push(vec![bs[..i].to_vec(), bs[i..].to_vec()]);
        }
    } else {
        for i in 0..=l {
            for j in i..=l {
                out.push(vec![bs[..i].to_vec(), bs[i..j].to_vec(), bs[j..].to_vec()]);
            }
        }
    }
    out
}
const CUTS_KS: [Option<usize>; 4] = [None, Some(1), Some(2), Some(3)];

fn impl_cuts(n: usize, bs: &[u8]) -> String {
    let mut parts = vec![];
    for cs in cuttings(bs, n) {
        for k in CUTS_KS {
            parts.push(impl_run(k, &cs));
        }
    }
    parts.join(";")
}

/// None when the body cannot be handed to DataUrl::process unchanged
fn body_url(b64: bool, body: &[u8]) -> Option<String> {
    let s = std::str::from_utf8(body).ok()?;
    if s.chars().last().map_or(false, |c| c <= ' ') {
        return None; // process() trims trailing C0-or-space
    }
    Some(format!("data:{},{}", if b64 { ";base64" } else { "" }, s))
}

fn impl_body(b64: bool, k: Option<usize>, body: &[u8]) -> String {
    let url = match body_url(b64, body) {
        Some(u) => u,
        None => return "!unrepresentable-body".into(),
    };
    guarded(move || {
        let du = match DataUrl::process(&url) {
            Ok(d) => d,
            Err(e) => return format!("!process:{:?}", e),
        };
        let sink = Sink::new(k);
        let r = du.decode(|b: &[u8]| Sink::write(&sink, b));
        let verdict = match r {
            Ok(None) => "ok:~".to_string(),
            Ok(Some(f)) => format!("ok:{}", f.to_percent_encoded()),
            Err(e) => show_derr(&e),
        };
        format!("{} {}", Sink::show(&sink), verdict)
    })
}

fn attempts_of(result: &str) -> usize {
    result.split(' ').nth(1).and_then(|a| a.parse().ok()).unwrap_or(0)
}

fn impl_bodyk(b64: bool, body: &[u8]) -> String {
    let free = impl_body(b64, None, body);
    let n = attempts_of(&free);
    let mut parts = vec![free];
    for k in 1..=n + 1 {
        parts.push(impl_body(b64, Some(k), body));
    }
    parts.join(";")
}

fn impl_request(req: &str) -> String {
    let w: Vec<&str> = req.split(' ').collect();
    match w[0] {
        "dec" => impl_dec(&unhexb(w[1])),
        "run" => impl_run(parse_k(w[1]), &w[2..].iter().map(|c| unhexb(c)).collect::<Vec<_>>()),
        "cuts" => impl_cuts(w[1].parse().unwrap_or(2), &unhexb(w[2])),
        "body" => impl_body(w[1] == "1", parse_k(w[2]), &unhexb(w[3])),
        "bodyk" => impl_bodyk(w[1] == "1", &unhexb(w[2])),
        "spec" => match infra_ref(&unhexl(w[1])) {
            Some(v) => format!("ok:{}", hexb(&v)),
            None => "fail".into(),
        },
        _ => "?".into(),
    }
}

// ---------------------------------------------------------------- model side (batches are unrolled here)
fn canon_body_result(r: &str) -> String {
    // model: "<calls> <n> ok:<raw fragment hex>"  ->  "<calls> <n> ok:<to_percent_encoded>"
    let mut it = r.rsplitn(2, ' ');
    let verdict = it.next().unwrap_or("");
    let head = it.next().unwrap_or("");
    if let Some(f) = verdict.strip_prefix("ok:") {
        if f != "~" {
            return format!("{} ok:{}", head, frag_canon(&unhexb(f)));
        }
    }
    r.to_string()
}

fn model_request(drv: &mut Driver, req: &str) -> String {
    let r = drv.ask(req);
    if req.starts_with("body") {
        r.split(';').map(canon_body_result).collect::<Vec<_>>().join(";")
    } else {
        r
    }
}

fn signature(req: &str, out: &str) -> (bool, String) {
    let w: Vec<&str> = req.split(' ').collect();
    let verdict_class = |v: &str| -> String {
        if v.starts_with("ok") { "ok".into() } else if v.starts_with("sym") || v.starts_with("err:sym") { "sym".into() } else { v.trim_start_matches("err:").to_string() }
    };
    match w[0] {
        "dec" => {
            let n = if let Some(v) = out.strip_prefix("ok:") { unhexb(v).len().min(7) } else { 0 };
            (w[1] != "-", format!("dec:{}:{}", verdict_class(out), n))
        }
        "run" => {
            let o: Vec<&str> = out.split(' ').collect();
            let nchunks = (w.len() - 2).min(4);
            (w.len() > 2, format!("run:c{}:k{}:a{}:{}", nchunks, if w[1] == "~" { "n" } else { "y" }, o.get(1).map_or(0, |a| a.parse::<usize>().unwrap_or(0).min(5)), verdict_class(o.last().copied().unwrap_or(""))))
        }
        "cuts" => {
            let mut classes: Vec<String> = out.split(';').map(|r| verdict_class(r.rsplit(' ').next().unwrap_or(""))).collect();
            classes.sort();
            classes.dedup();
            (w[2] != "-", format!("cuts{}:{}", w[1], classes.join(",")))
        }
        "body" | "bodyk" => {
            let first = out.split(';').next().unwrap_or("");
            let o: Vec<&str> = first.split(' ').collect();
            let v = o.last().copied().unwrap_or("");
            let frag = if v.starts_with("ok:") && v != "ok:~" { "frag" } else { "nofrag" };
            (w.last().copied() != Some("-"), format!("{}:b{}:a{}:{}:{}", w[0], w[1], o.get(1).map_or(0, |a| a.parse::<usize>().unwrap_or(0).min(6)), verdict_class(v), frag))
        }
        "spec" => (w[1] != "-", format!("spec:{}", if out.starts_with("ok") { "ok" } else { "fail" })),
        other => (true, other.to_string()),
    }
}

fn compare(drv: &mut Driver, rep: &mut Report, stream: &str, req: &str) {
    let model = model_request(drv, req);
    let imp = impl_request(req);
    let (nt, sig) = signature(req, &imp);
    rep.case(stream, req, &model, &imp, nt, &sig);
}

// ---------------------------------------------------------------- independent oracles (search mode, spec validation)
/// Infra "forgiving-base64 decode", written from the Standard's prose over code points.
fn infra_ref(input: &[u32]) -> Option<Vec<u8>> {
    // 1. remove ASCII whitespace
    let mut data: Vec<u32> = input.iter().copied().filter(|&c| !matches!(c, 0x09 | 0x0A | 0x0C | 0x0D | 0x20)).collect();
    // 2. length divisible by 4: remove one or two trailing '='
    if data.len() % 4 == 0 {
        if data.last() == Some(&0x3D) {
            data.pop();
            if data.last() == Some(&0x3D) {
                data.pop();
            }
        }
    }
    // 3.
    if data.len() % 4 == 1 {
        return None;
    }
    // 4. + table lookup
    const ALPHABET: &[u8; 64] = b"ABCDEFGHIJKLMNOPQRSTUVWXYZabcdefghijklmnopqrstuvwxyz0123456789+/";
    let mut bits: Vec<bool> = vec![];
    let mut out = vec![];
    let mut ns = vec![];
    for &c in &data {
        let n = ALPHABET.iter().position(|&a| a as u32 == c)?;
        ns.push(n);
    }
    let to_byte = |b: &[bool]| b.iter().fold(0u8, |a, &x| (a << 1) | x as u8);
    for n in ns {
        for i in (0..6).rev() {
            bits.push((n >> i) & 1 == 1);
        }
        if bits.len() == 24 {
            out.push(to_byte(&bits[0..8]));
            out.push(to_byte(&bits[8..16]));
            out.push(to_byte(&bits[16..24]));
            bits.clear();
        }
    }
    // 9.
    if bits.len() == 12 {
        out.push(to_byte(&bits[0..8]));
    } else if bits.len() == 18 {
        out.push(to_byte(&bits[0..8]));
        out.push(to_byte(&bits[8..16]));
    }
    Some(out)
}
fn infra_ref_bytes(bs: &[u8]) -> Option<Vec<u8>> {
    infra_ref(&bs.iter().map(|&b| b as u32).collect::<Vec<_>>())
}

/// RFC 4648 section 4 encoding
fn std_encode(x: &[u8], pad: bool) -> Vec<u8> {
    const ALPHABET: &[u8; 64] = b"ABCDEFGHIJKLMNOPQRSTUVWXYZabcdefghijklmnopqrstuvwxyz0123456789+/";
    let mut o = vec![];
    for g in x.chunks(3) {
        let v = (g[0] as u32) << 16 | (*g.get(1).unwrap_or(&0) as u32) << 8 | *g.get(2).unwrap_or(&0) as u32;
        o.push(ALPHABET[(v >> 18) as usize & 63]);
        o.push(ALPHABET[(v >> 12) as usize & 63]);
        if g.len() > 1 {
            o.push(ALPHABET[(v >> 6) as usize & 63]);
        } else if pad {
            o.push(b'=');
        }
        if g.len() > 2 {
            o.push(ALPHABET[v as usize & 63]);
        } else if pad {
            o.push(b'=');
        }
    }
    o
}

/// data: URL body without base64, as the Fetch Standard composes it: drop the fragment, the URL
/// parser removes ASCII tab / newline, percent-decode.
fn plain_body_ref(body: &[u8]) -> (Vec<u8>, Option<Vec<u8>>) {
    let (main, frag) = match body.iter().position(|&b| b == b'#') {
        Some(p) => (&body[..p], Some(body[p + 1..].to_vec())),
        None => (body, None),
    };
    let hv = |c: u8| (c as char).to_digit(16);
    let mut o = vec![];
    let mut i = 0;
    // an escape is '%' and two hex digits contiguous in the text as given (the crate's documented
    // reading: "string percent-decode while also ignoring ASCII tab or newlines")
    while i < main.len() {
        let b = main[i];
        if matches!(b, b'\t' | b'\n' | b'\r') {
            i += 1;
        } else if b == b'%' && i + 2 < main.len() && hv(main[i + 1]).is_some() && hv(main[i + 2]).is_some() {
            o.push((hv(main[i + 1]).unwrap() * 16 + hv(main[i + 2]).unwrap()) as u8);
            i += 3;
        } else {
            o.push(b);
            i += 1;
        }
    }
    (o, frag)
}

// ---------------------------------------------------------------- generators
const B64_CLASSES: [u8; 8] = [b'A', b'/', b'Q', b'=', b' ', 0x0C, b'!', 0x80];
const BODY_CLASSES: [u8; 8] = [b'%', b'4', b'A', b'#', b'\t', b'Q', b'=', b'g'];
const WS: [u8; 5] = [b' ', b'\t', b'\n', b'\r', 0x0C];
const B64_ALPHABET: &[u8; 64] = b"ABCDEFGHIJKLMNOPQRSTUVWXYZabcdefghijklmnopqrstuvwxyz0123456789+/";

fn random_payload(rng: &mut Rng, maxlen: usize) -> Vec<u8> {
    let n = rng.below(maxlen + 1);
    (0..n).map(|_| match rng.below(4) { 0 => 0xFF, 1 => 0, _ => rng.below(256) as u8 }).collect()
}
fn sprinkle_ws(rng: &mut Rng, s: &[u8], density: usize) -> Vec<u8> {
    let mut o = vec![];
    for &b in s {
        while rng.chance(density, 10) {
            o.push(*rng.pick(&WS));
        }
        o.push(b);
    }
    while rng.chance(density, 10) {
        o.push(*rng.pick(&WS));
    }
    o
}
fn valid_b64(rng: &mut Rng) -> Vec<u8> {
    let x = random_payload(rng, 20);
    let e = std_encode(&x, rng.chance(1, 2));
    let d = rng.below(4);
    sprinkle_ws(rng, &e, d)
}
fn mutate(rng: &mut Rng, s: &mut Vec<u8>) {
    let n = 1 + rng.below(2);
    for _ in 0..n {
        let pos = rng.below(s.len() + 1);
        let b = match rng.below(8) {
            0 | 1 => b'=',
            2 => *rng.pick(&WS),
            3 => *rng.pick(B64_ALPHABET),
            4 => *rng.pick(b"-_.,*@[`{\x7f\x00\x0b\x1f\x3c\x3e"),
            5 => 0x80 + rng.below(0x80) as u8,
            _ => rng.below(256) as u8,
        };
        match rng.below(3) {
            0 => s.insert(pos, b),
            1 if !s.is_empty() => { s.remove(pos.min(s.len() - 1)); }
            _ if !s.is_empty() => { let p = pos.min(s.len() - 1); s[p] = b; }
            _ => s.push(b),
        }
    }
}
fn long_padding(rng: &mut Rng) -> Vec<u8> {
    // 2 or 3 (or 0, 1, 4) symbols then a run of '=' around the u8 wrap points
    let nsym = *rng.pick(&[2usize, 3, 2, 3, 0, 1, 4, 6, 7]);
    let mut s: Vec<u8> = (0..nsym).map(|_| *rng.pick(B64_ALPHABET)).collect();
    let base = *rng.pick(&[254usize, 255, 256, 257, 258, 259, 510, 511, 512, 513, 514, 515, 768, 770, 1026]);
    let n = base + rng.below(3) - 1;
    s.extend(std::iter::repeat(b'=').take(n));
    if rng.chance(1, 4) {
        let d = 1;
        s = sprinkle_ws(rng, &s, d);
    }
    s
}
fn random_cut(rng: &mut Rng, s: &[u8]) -> Vec<Vec<u8>> {
    let n = 1 + rng.below(4);
    let mut cuts: Vec<usize> = (0..n - 1).map(|_| rng.below(s.len() + 1)).collect();
    cuts.sort();
    let mut out = vec![];
    let mut prev = 0;
    for c in cuts {
        out.push(s[prev..c].to_vec());
        prev = c;
    }
    out.push(s[prev..].to_vec());
    out
}
fn random_k(rng: &mut Rng, maxcalls: usize) -> Option<usize> {
    if rng.chance(1, 3) { None } else { Some(1 + rng.below(maxcalls + 2)) }
}
fn run_req(k: Option<usize>, chunks: &[Vec<u8>]) -> String {
    format!("run {} {}", show_k(k), chunks.iter().map(|c| hexb(c)).collect::<Vec<_>>().join(" ")).trim_end().to_string()
}
fn random_body(rng: &mut Rng, base64ish: bool) -> Vec<u8> {
    let atoms: [&[u8]; 24] = [
        b"%41", b"%4", b"%", b"%zz", b"%4g", b"%%41", b"#", b"\t", b"\n", b"\r", b"a", b"QUJD", b"Zg", b"=", b"%3D", b"%20", b"%0A", b"%09",
        "\u{e9}".as_bytes(), b" ", b"%2B", b"%2F", b"+", b"/",
    ];
    let n = rng.below(9);
    let mut s = vec![];
    for _ in 0..n {
        if base64ish && rng.chance(1, 2) {
            let x = random_payload(rng, 5);
            s.extend(std_encode(&x, rng.chance(1, 2)));
        } else {
            let a: &[u8] = atoms[rng.below(atoms.len())]; s.extend_from_slice(a);
        }
    }
    if rng.chance(1, 6) {
        s.extend_from_slice(b"#frag\t %41<");
    }
    while s.last().map_or(false, |&b| b <= b' ') {
        s.pop();
    }
    s
}
fn random_bytes(rng: &mut Rng, maxlen: usize) -> Vec<u8> {
    let n = rng.below(maxlen + 1);
    (0..n)
        .map(|_| match rng.below(8) {
            0 => b'=',
            1 => *rng.pick(&WS),
            2 => rng.below(256) as u8,
            3 => *rng.pick(b"-_!\x0b\x00\x7f"),
            _ => *rng.pick(B64_ALPHABET),
        })
        .collect()
}

/// every request of the generated streams, in order (shared by corr and search)
fn for_each_generated<F: FnMut(&str, String)>(args: &Args, search: bool, mut f: F) {
    let thorough = args.tier == "thorough";
    let mut rng = Rng::new(if search { args.seed ^ 0x5EA4C4 } else { args.seed });

    // the table through behaviour: every byte alone before / after an alphabet symbol
    for b in 0u32..256 {
        f("exh-table", format!("dec {:x}.41", b));
        f("exh-table", format!("dec 41.{:x}", b));
        f("exh-table", format!("dec 2f.2f.2f.{:x}", b));
    }
    // exhaustive small scope
    let dec_len = if search { 5 } else if thorough { 7 } else { 6 };
    for_all_strings(&B64_CLASSES, dec_len, |s| f("exh-dec-classes", format!("dec {}", hexb(s))));
    let ncut = if thorough { 3 } else { 2 };
    for_all_strings(&B64_CLASSES, if search { 4 } else { 5 }, |s| f("exh-cuts-classes", format!("cuts {} {}", ncut, hexb(s))));
    let body_len = if search { 4 } else if thorough { 6 } else { 5 };
    for_all_strings(&BODY_CLASSES, body_len, |s| {
        if s.last().map_or(true, |&b| b > b' ') || s.is_empty() {
            f("exh-body-classes", format!("bodyk 0 {}", hexb(s)));
            f("exh-body-classes", format!("bodyk 1 {}", hexb(s)));
        }
    });

    // random, structured mostly valid
    let n = if thorough { 400_000 } else if search { 60_000 } else { 20_000 };
    for _ in 0..n {
        let s = valid_b64(&mut rng);
        let cs = random_cut(&mut rng, &s);
        let k = random_k(&mut rng, s.len() / 4 + 1);
        f("rnd-valid", run_req(k, &cs));
        f("rnd-valid", format!("dec {}", hexb(&s)));
        // near-valid
        let mut m = valid_b64(&mut rng);
        mutate(&mut rng, &mut m);
        let cs = random_cut(&mut rng, &m);
        let k = random_k(&mut rng, m.len() / 4 + 1);
        f("rnd-near-valid", run_req(k, &cs));
        f("rnd-near-valid", format!("dec {}", hexb(&m)));
    }
    for _ in 0..n / 20 {
        let s = long_padding(&mut rng);
        f("rnd-long-padding", format!("dec {}", hexb(&s)));
        let cs = random_cut(&mut rng, &s);
        f("rnd-long-padding", run_req(random_k(&mut rng, 2), &cs));
    }
    for _ in 0..n {
        let b64 = rng.chance(1, 2);
        let body = random_body(&mut rng, b64);
        if rng.chance(1, 4) {
            f("rnd-body", format!("bodyk {} {}", b64 as u8, hexb(&body)));
        } else {
            let k = random_k(&mut rng, body.len() / 2 + 1);
            f("rnd-body", format!("body {} {} {}", b64 as u8, show_k(k), hexb(&body)));
        }
    }
    // malformed
    for _ in 0..n {
        let s = random_bytes(&mut rng, 24);
        f("rnd-malformed", format!("dec {}", hexb(&s)));
        let cs = random_cut(&mut rng, &s);
        f("rnd-malformed", run_req(random_k(&mut rng, s.len() / 4 + 1), &cs));
    }
}

fn run_corr(args: &Args) -> Report {
    let mut rep = Report::new();
    let mut drv = Driver::spawn(&args.driver);
    let thorough = args.tier == "thorough";

    // corpus: minimised past cases, then the vendored WPT vectors
    if let Ok(txt) = std::fs::read_to_string(format!("{}/C18/cases.txt", args.file)) {
        for l in txt.lines().filter(|l| !l.is_empty() && !l.starts_with('#')) {
            compare(&mut drv, &mut rep, "corpus", l);
        }
    }
    match std::fs::read_to_string(format!("{}/C18/base64.json", args.file)).ok().and_then(|t| serde_json::from_str::<Vec<(String, Option<Vec<u8>>)>>(&t).ok()) {
        Some(vectors) => {
            for (input, expected) in &vectors {
                // the specification model against the expected value of the WPT vector (code points)
                let req = format!("spec {}", hexs(input));
                let want = match expected { Some(v) => format!("ok:{}", hexb(v)), None => "fail".into() };
                let got = drv.ask(&req);
                rep.case("wpt-spec-model", &req, &got, &want, true, &format!("wpt:{}", if expected.is_some() { "ok" } else { "fail" }));
                // the Rust reference used by the search against the same vector
                rep.case("wpt-spec-ref", &req, &impl_request(&req), &want, true, "wpt-ref");
                // model vs implementation on the UTF-8 bytes
                compare(&mut drv, &mut rep, "wpt-dec", &format!("dec {}", hexb(input.as_bytes())));
            }
            rep.notes.push(format!("{} WPT base64.json vectors: specification model, reference oracle and implementation", vectors.len()));
        }
        None => rep.notes.push("corpus/C18/base64.json not readable: WPT validation of the specification model skipped".into()),
    }

    for_each_generated(args, false, |stream, req| compare(&mut drv, &mut rep, stream, &req));

    // the two oracles against each other (validation of Spec/Infra.v and of infra_ref; independent of /repo)
    for_all_strings(&B64_CLASSES, if thorough { 6 } else { 5 }, |s| {
        compare(&mut drv, &mut rep, "exh-spec-vs-ref", &format!("spec {}", hexb(s)));
    });

    let dec_len = if thorough { 7 } else { 6 };
    rep.exhaustive.push(format!(
        "dec: all strings of length <= {} over {{A,/,Q,=,space,FF,!,0x80}}; all {}-cuts of all strings of length <= 5 over the same alphabet x sink failing at call k in {{never,1,2,3}}; DataUrl::decode (plain and base64): all bodies of length <= {} over {{%,4,A,#,TAB,Q,=,g}} not ending in TAB x every k in {{never,1..calls+1}}; every byte value before/after alphabet symbols",
        dec_len, if thorough { 3 } else { 2 }, if thorough { 6 } else { 5 }
    ));
    rep
}

// ---------------------------------------------------------------- property evaluated on the implementation
fn split_result(r: &str) -> (Vec<String>, usize, String) {
    let p: Vec<&str> = r.split(' ').collect();
    if p.len() != 3 {
        return (vec![], 0, r.to_string());
    }
    let calls = if p[0] == "~" { vec![] } else { p[0].split('|').map(|s| s.to_string()).collect() };
    (calls, p[1].parse().unwrap_or(0), p[2].to_string())
}

/// sink clause: with the sink failing at call k, exactly the first k-1 fault-free calls, then the write error
fn check_sink<F: Fn(Option<usize>) -> String>(what: &str, runk: F) -> Option<String> {
    let free = runk(None);
    let (calls, n, verdict) = split_result(&free);
    if n != calls.len() {
        return Some(format!("{}: fault-free run made {} calls but delivered {}", what, n, calls.len()));
    }
    for k in 1..=n + 1 {
        let r = runk(Some(k));
        let (ck, _, vk) = split_result(&r);
        if k <= n {
            if ck != calls[..k - 1] || vk != "werr" {
                return Some(format!("{}: sink fails at call {}: delivered [{}] verdict {} (fault-free: [{}] {})", what, k, ck.join("|"), vk, calls.join("|"), verdict));
            }
        } else if r != free {
            return Some(format!("{}: sink would fail at call {} (never reached) but the run differs: {} vs {}", what, k, r, free));
        }
    }
    None
}

fn property_b64(s: &[u8], given_cut: Option<&[Vec<u8>]>) -> Option<String> {
    // Infra equality
    let want = match infra_ref_bytes(s) { Some(v) => format!("ok:{}", hexb(&v)), None => "fail".to_string() };
    let got = impl_dec(s);
    let got_n = if got.starts_with("err:") { "fail".to_string() } else { got.clone() };
    if got_n != want {
        return Some(format!("decode_to_vec gives {} but Infra forgiving-base64 decode gives {}", got, want));
    }
    // streaming, one chunk, fault-free = decode_to_vec
    let one = impl_run(None, &[s.to_vec()]);
    let (calls, _, verdict) = split_result(&one);
    let cat: Vec<u8> = calls.iter().flat_map(|c| unhexb(c)).collect();
    let streamed = if verdict == "ok" { format!("ok:{}", hexb(&cat)) } else { format!("err:{}", verdict) };
    if streamed != got {
        return Some(format!("Decoder in one chunk gives {} but decode_to_vec gives {}", streamed, got));
    }
    // chunking independence (calls and verdict)
    let mut cuts: Vec<Vec<Vec<u8>>> = vec![];
    if let Some(c) = given_cut {
        cuts.push(c.to_vec());
    }
    if s.len() <= 8 {
        cuts.extend(cuttings(s, 2));
        if s.len() <= 5 {
            cuts.extend(cuttings(s, 3));
        }
    } else {
        for i in [1, s.len() / 2, s.len() - 1] {
            cuts.push(vec![s[..i].to_vec(), s[i..].to_vec()]);
        }
        cuts.push(s.iter().map(|&b| vec![b]).collect());
    }
    for c in &cuts {
        let r = impl_run(None, c);
        if r != one {
            return Some(format!("chunking [{}] gives {} but a single chunk gives {}", c.iter().map(|x| hexb(x)).collect::<Vec<_>>().join(" "), r, one));
        }
    }
    // sink failure
    for c in cuts.iter().take(3).chain(std::iter::once(&vec![s.to_vec()])) {
        if let Some(w) = check_sink("Decoder", |k| impl_run(k, c)) {
            return Some(w);
        }
    }
    // round trip: if s is (whitespace-sprinkled) standard encoding of x then decode gives x - covered by Infra equality;
    // stated directly on the decoded value: re-encoding and decoding again is the identity
    if let Ok(v) = forgiving_base64::decode_to_vec(s) {
        for pad in [true, false] {
            let e = std_encode(&v, pad);
            let mut spaced = vec![b'\n'];
            for &b in &e {
                spaced.push(b);
                spaced.push(b' ');
            }
            for input in [&e, &spaced] {
                match forgiving_base64::decode_to_vec(input) {
                    Ok(ref w) if *w == v => {}
                    other => return Some(format!("round trip: decode(standard_encode({}), pad={}) = {:?}", hexb(&v), pad, other.map(|w| hexb(&w)).map_err(|e| e.to_string()))),
                }
            }
        }
    }
    None
}

fn property_body(b64: bool, body: &[u8]) -> Option<String> {
    if body_url(b64, body).is_none() {
        return None;
    }
    let free = impl_body(b64, None, body);
    let (calls, _, verdict) = split_result(&free);
    let cat: Vec<u8> = calls.iter().flat_map(|c| unhexb(c)).collect();
    let (plain, frag) = plain_body_ref(body);
    let frag_s = match &frag { Some(f) => format!("ok:{}", frag_canon(f)), None => "ok:~".into() };
    if !b64 {
        if cat != plain || verdict != frag_s {
            return Some(format!("plain body: delivered {} {} but percent-decoding gives {} {}", hexb(&cat), verdict, hexb(&plain), frag_s));
        }
    } else {
        let want = match infra_ref_bytes(&plain) { Some(v) => format!("{} {}", hexb(&v), frag_s), None => "fail".into() };
        let got = if verdict.starts_with("ok") { format!("{} {}", hexb(&cat), verdict) } else { "fail".into() };
        if got != want {
            return Some(format!("base64 body: got {} ({}) but forgiving-base64 decode of the percent-decoded body gives {}", got, verdict, want));
        }
    }
    check_sink(if b64 { "decode_with_base64" } else { "decode_without_base64" }, |k| impl_body(b64, k, body))
}

fn property_of_request(req: &str) -> Option<String> {
    let w: Vec<&str> = req.split(' ').collect();
    let r = std::panic::catch_unwind(|| match w[0] {
        "dec" => property_b64(&unhexb(w[1]), None),
        "run" => {
            let cs: Vec<Vec<u8>> = w[2..].iter().map(|c| unhexb(c)).collect();
            property_b64(&cs.concat(), Some(&cs))
        }
        "cuts" => property_b64(&unhexb(w[2]), None),
        "body" => property_body(w[1] == "1", &unhexb(w[3])),
        "bodyk" => property_body(w[1] == "1", &unhexb(w[2])),
        _ => None,
    });
    match r {
        Ok(x) => x,
        Err(_) => Some("panic".into()),
    }
}

fn run_search(args: &Args) -> Report {
    let mut rep = Report::new();
    let try_req = |rep: &mut Report, req: String| {
        if rep.failures.len() >= 20 {
            return;
        }
        rep.evaluations += 1;
        if let Some(w) = property_of_request(&req) {
            rep.failures.push((req, w));
        }
    };
    // (b) the differing cases
    if let Ok(txt) = std::fs::read_to_string(&args.file) {
        for l in txt.lines().filter(|l| !l.is_empty()) {
            try_req(&mut rep, l.to_string());
        }
    }
    // (c) the generator streams, property-directed
    for_each_generated(args, true, |_, req| try_req(&mut rep, req));
    // shrink: prefer the shortest failing request
    rep.failures.sort_by_key(|(c, _)| c.len());
    rep
}

fn run_known(_args: &Args) -> Report {
    // no known findings for C18
    Report::new()
}

fn run_replay(args: &Args) -> Report {
    let mut rep = Report::new();
    let txt = std::fs::read_to_string(&args.file).unwrap_or_default();
    let req = txt
        .split("\"request\":")
        .nth(1)
        .and_then(|s| s.split('"').nth(1))
        .unwrap_or("")
        .to_string();
    if req.is_empty() {
        rep.notes.push("replay file has no request (no-failing-input-found replay): nothing to re-run".into());
        return rep;
    }
    let imp = impl_request(&req);
    rep.notes.push(format!("request: {}", req));
    rep.notes.push(format!("implementation: {}", imp));
    if !args.driver.is_empty() {
        let mut drv = Driver::spawn(&args.driver);
        let model = model_request(&mut drv, &req);
        rep.notes.push(format!("model: {}", model));
    }
    rep.evaluations = 1;
    if let Some(w) = property_of_request(&req) {
        rep.failures.push((req, w));
    }
    rep
}

fn main() {
    quiet_panics();
    let args = parse_args();
    let rep = match args.mode.as_str() {
        "corr" => run_corr(&args),
        "search" => run_search(&args),
        "known" => run_known(&args),
        "replay" => run_replay(&args),
        m => panic!("unknown mode {}", m),
    };
    finish(&args, &rep);
}
