//! C08 - reference resolution laws: correspondence model <-> url crate for Url::join on a
//! reference-focused stream and for Url::make_relative on (base, target) pairs; search = the C08 laws
//! evaluated on the implementation; known findings; replay.
use url::{Position, Url};
use verif_harness::urlops::start_pool;
use verif_harness::urlprops::{prop_c08, prop_c08_abs};
use verif_harness::urlrec::*;
use verif_harness::*;

// ------------------------------------------------------------------ implementation side
fn impl_join(base: &Url, input: &str) -> String {
    let r = std::panic::catch_unwind(std::panic::AssertUnwindSafe(|| base.join(input)));
    match r {
        Ok(r) => parse_result_token(&r),
        Err(_) => "panic".to_string(),
    }
}

fn impl_mkrel(base: &Url, target: &Url) -> String {
    match std::panic::catch_unwind(std::panic::AssertUnwindSafe(|| base.make_relative(target))) {
        Ok(Some(s)) => hexb(s.as_bytes()),
        Ok(None) => "~".to_string(),
        Err(_) => "panic".to_string(),
    }
}

// ------------------------------------------------------------------ MR_ok (Rust twin of Model/KnownC08.v)
fn is_wdl_seg(s: &str) -> bool {
    let b = s.as_bytes();
    // parser.rs starts_with_windows_drive_letter on the segment text ('\\' can be inside a non-special segment)
    b.len() >= 2 && b[0].is_ascii_alphabetic() && (b[1] == b':' || b[1] == b'|') && (b.len() == 2 || matches!(b[2], b'/' | b'\\' | b'?' | b'#'))
}
/// extract_path_filename, then split the directory part
fn dirs_file(path: &str) -> (Vec<&str>, &str) {
    let i = path.rfind('/').unwrap_or(0);
    let (p, f) = path.split_at(i);
    let f = if f.is_empty() { "" } else { &f[1..] };
    (p.split('/').collect(), f)
}
fn is_dotty(s: &str) -> bool {
    let l = s.to_ascii_lowercase().replace("%2e", ".");
    l == "." || l == ".."
}

fn ref_has_scheme(r: &str) -> bool {
    let t: Vec<char> = r.chars().collect();
    if !t.first().map_or(false, |c| c.is_ascii_alphabetic()) {
        return false;
    }
    for &c in &t {
        if c.is_ascii_alphanumeric() || c == '+' || c == '-' || c == '.' {
            continue;
        }
        return c == ':';
    }
    false
}

/// None = (base, target) is inside the positive domain MR_ok; Some(class) = excluded class
fn mr_excluded(b: &Url, t: &Url) -> Option<&'static str> {
    if b.cannot_be_a_base() || t.cannot_be_a_base() {
        return Some("K0-cannot-be-a-base");
    }
    // scheme, credentials, host text, port text, '/.' marker: everything in front of the path
    if b[..Position::BeforePath] != t[..Position::BeforePath] {
        return Some("K3-text-before-path-differs");
    }
    let (bp, tp) = (b.path(), t.path());
    if !bp.starts_with('/') || !tp.starts_with('/') {
        return Some("K4c-empty-path");
    }
    let (bd, bf) = dirs_file(bp);
    let (td, tf) = dirs_file(tp);
    // bd[0] = td[0] = "" (text in front of the leading '/')
    if bd[1..].iter().any(|s| s.is_empty()) || td[1..].iter().any(|s| s.is_empty()) {
        return Some("K4c-empty-segment");
    }
    if td[1..].iter().chain(std::iter::once(&tf)).any(|s| is_dotty(s)) {
        return Some("K4f-dot-segment-in-target");
    }
    let k = bd.iter().zip(td.iter()).take_while(|(x, y)| x == y).count();
    // a drive-letter-shaped segment is never popped by '..' (last_slash_can_be_removed, any scheme): for a file
    // base such a segment anywhere in either path is excluded, otherwise only among the base's directory
    // segments behind the common prefix - the ones the reference's '..' steps have to pop
    let wdl = if b.scheme() == "file" {
        bd.iter().chain(td.iter()).chain([bf, tf].iter()).any(|s| is_wdl_seg(s))
    } else {
        bd[k..].iter().any(|s| is_wdl_seg(s))
    };
    if wdl {
        return Some("K4e-drive-letter-segment");
    }
    let ups = bd.len() - k;
    let rest: Vec<&str> = td[k..].to_vec();
    let part_empty = ups == 0 && rest.is_empty() && bf == tf;
    if ups == 0 && rest.is_empty() && bf != tf && tf.is_empty() && bd.len() > 1 {
        return Some("K4c-reference-is-slash");
    }
    if ups == 0 {
        let first = if let Some(s) = rest.first() { s } else if part_empty { "" } else { tf };
        if first.contains(':') && ref_has_scheme(first) {
            return Some("K4b-colon-in-first-segment");
        }
    }
    if part_empty && t.query().is_none() && b.query().is_some() {
        return Some("K4a-base-query-kept");
    }
    None
}

/// the make_relative law on the implementation: Some(description) = violated outside the known classes
fn law_relative(b: &Url, t: &Url) -> Option<String> {
    let r = std::panic::catch_unwind(std::panic::AssertUnwindSafe(|| b.make_relative(t)));
    match r {
        Err(_) => Some(format!("make_relative({:?}, {:?}) panics", b.as_str(), t.as_str())),
        Ok(None) => None,
        Ok(Some(rel)) => {
            if mr_excluded(b, t).is_some() {
                return None;
            }
            match std::panic::catch_unwind(std::panic::AssertUnwindSafe(|| b.join(&rel))) {
                Ok(Ok(u)) if u.as_str() == t.as_str() => None,
                Ok(other) => Some(format!(
                    "make_relative({:?}, {:?}) = {:?} which joins to {:?}",
                    b.as_str(),
                    t.as_str(),
                    rel,
                    other.map(|u| u.to_string())
                )),
                Err(_) => Some(format!("joining make_relative's result {:?} to {:?} panics", rel, b.as_str())),
            }
        }
    }
}

/// a make_relative that answers Some(..) although scheme, host or port differ is a violation by itself
fn law_relative_guard(b: &Url, t: &Url) -> Option<String> {
    let r = std::panic::catch_unwind(std::panic::AssertUnwindSafe(|| b.make_relative(t))).ok()??;
    if b.scheme() != t.scheme() || b.host() != t.host() || b.port() != t.port() || t.cannot_be_a_base() || b.cannot_be_a_base() {
        return Some(format!(
            "make_relative({:?}, {:?}) = Some({:?}) although scheme, host or port differ or one of them cannot be a base",
            b.as_str(),
            t.as_str(),
            r
        ));
    }
    None
}

// ------------------------------------------------------------------ generators
fn pk<'a>(rng: &mut Rng, xs: &[&'a str]) -> &'a str {
    xs[rng.below(xs.len())]
}
const REFS: [&str; 40] = [
    "", "#f", "?q", "?q#f", "/p", "p", "./p", "../p", "..", ".", "//h/p", "\\\\h", "\\p", "/\\h", "///h", "x:y", "http:p", "http:/p",
    "HTTP://h", "%2e%2e/x", "c:", "C|/x", "#", "?", "?#", "../..", "../../x/", "./", "p/", "/", "//", "\\", "\\/h", "file:p", "a:p", "p?q#f",
    "/c:/x", "d|", ".%2E/", "/.//x",
];
const REF_CLASS: [char; 13] = ['a', '/', '\\', '?', '#', ':', '.', '%', '2', 'e', '@', ' ', '\t'];

fn gen_reference(rng: &mut Rng) -> String {
    let atoms = ["a", "b", "..", ".", "%2e", "%2E%2e", "c:", "C|", "x y", "\u{e9}", "", "p;q", "@", ":", "x:y", "%41", "f.txt"];
    let mut s = String::new();
    match rng.below(4) {
        0 => s.push_str(pk(rng, &REFS)),
        1 => {
            s.push_str(pk(rng, &["", "/", "./", "../", "../../", "//h", "\\", "/\\", "\\\\", "///", "?", "#", "x:", "http:", "file:", "HTTP:/"]));
            for i in 0..rng.below(4) {
                if i > 0 {
                    s.push_str(pk(rng, &["/", "/", "\\", "//"]));
                }
                s.push_str(pk(rng, &atoms));
            }
            if rng.chance(1, 3) {
                s.push_str(pk(rng, &["/", "?", "?q", "#", "#f", "?q#f", "/.", "/.."]));
            }
        }
        2 => {
            let n = rng.below(7);
            s = (0..n).map(|_| *rng.pick(&REF_CLASS)).collect();
        }
        _ => {
            s.push_str(pk(rng, &REFS));
            s.push_str(pk(rng, &REFS));
        }
    }
    // surrounding C0/space, embedded tab / newline
    if rng.chance(1, 4) {
        s.insert_str(0, pk(rng, &[" ", "\t", "\n", "\u{0}", "\u{1f} ", "  "]));
    }
    if rng.chance(1, 4) {
        s.push_str(pk(rng, &[" ", "\t", "\n", "\u{0}", " \r", "  "]));
    }
    if rng.chance(1, 4) {
        let cs: Vec<char> = s.chars().collect();
        let pos = rng.below(cs.len() + 1);
        let mut o: String = cs[..pos].iter().collect();
        o.push(*rng.pick(&['\t', '\n', '\r']));
        o.extend(cs[pos..].iter());
        s = o;
    }
    s
}

const SEGS: [&str; 22] = [
    "a", "b", "c", "dir", "", "c:", "x:y", "C|", "d:", "a b", "\u{e9}", ";p", "@", "x%41", "f.txt", "%2e", "..", ".", "%2E%2e", ":", "a:", "1",
];

/// a (base, target) pair of URL strings sharing scheme / authority / a path prefix most of the time
fn gen_pair(rng: &mut Rng) -> (String, String) {
    let scheme = pk(rng, &["http", "https", "ws", "ftp", "file", "a", "non-spec", "web+demo"]);
    let special = matches!(scheme, "http" | "https" | "ws" | "ftp");
    let auth = |rng: &mut Rng| -> String {
        if scheme == "file" {
            pk(rng, &["//", "//", "//host", "//localhost", "//h.example"]).to_string()
        } else if special {
            format!(
                "//{}{}{}",
                pk(rng, &["", "", "", "u@", "u:p@", ":p@", "u2@"]),
                pk(rng, &["h", "h", "example.com", "[::1]", "1.2.3.4", "H"]),
                pk(rng, &["", "", "", ":81", ":80", ":443", ":8080"])
            )
        } else {
            match rng.below(8) {
                0 => String::new(),
                1 => "//".to_string(),
                _ => format!(
                    "//{}{}{}",
                    pk(rng, &["", "", "", "u@", "u:p@", ":p@"]),
                    pk(rng, &["h", "h", "example.com", "[::1]", "1.2.3.4", "H"]),
                    pk(rng, &["", "", "", ":81", ":80"])
                ),
            }
        }
    };
    let seg = |rng: &mut Rng| -> &'static str {
        if rng.chance(3, 4) {
            SEGS[rng.below(4)]
        } else {
            pk(rng, &SEGS)
        }
    };
    let a1 = auth(rng);
    let a2 = if rng.chance(5, 6) { a1.clone() } else { auth(rng) };
    let prefix: Vec<&str> = (0..rng.below(4)).map(|_| seg(rng)).collect();
    let mut mk = |rng: &mut Rng, a: &str| -> String {
        let mut s = format!("{}:{}", scheme, a);
        let mut segs = prefix.clone();
        if rng.chance(1, 6) && !segs.is_empty() {
            segs.pop();
        }
        for _ in 0..rng.below(3) {
            segs.push(seg(rng));
        }
        if !(segs.is_empty() && rng.chance(1, 8) && !a.is_empty()) {
            s.push('/');
        }
        s.push_str(&segs.join("/"));
        if !segs.is_empty() && rng.chance(1, 3) {
            s.push('/');
        }
        if rng.chance(1, 3) {
            s.push('?');
            s.push_str(pk(rng, &["", "q", "a=b&c", "x:y", "q/r"]));
        }
        if rng.chance(1, 3) {
            s.push('#');
            s.push_str(pk(rng, &["", "f", "a:b", "f/g", "?"]));
        }
        s
    };
    let b = mk(rng, &a1);
    let t = if rng.chance(1, 12) {
        pk(rng, &["web+demo:opaque", "mailto:x@y", "data:,x", "a:b", "non-spec:o?q"]).to_string()
    } else {
        mk(rng, &a2)
    };
    (b, t)
}

// ------------------------------------------------------------------ the check
struct Ctx {
    drv: Driver,
    rep: Report,
    dbg: &'static str,
    search: bool,
}

fn join_case(b: &Url, input: &str) -> String {
    format!("join08 {} {}", hexs(b.as_str()), hexs(input))
}
fn rel_case(b: &Url, t: &Url) -> String {
    format!("rel08 {} {}", hexs(b.as_str()), hexs(t.as_str()))
}

fn base_kind(b: &Url) -> &'static str {
    if b.cannot_be_a_base() {
        "opaquebase"
    } else if b.scheme() == "file" {
        "filebase"
    } else if b.is_special() {
        "specialbase"
    } else if b.has_authority() {
        "otherbase"
    } else {
        "noauthbase"
    }
}

fn ref_kind(input: &str, special: bool) -> String {
    let t: Vec<char> = input.trim_matches(|c: char| c <= ' ').chars().filter(|c| !matches!(c, '\t' | '\n' | '\r')).collect();
    let sl = |c: char| c == '/' || (c == '\\' && special);
    let has_scheme = t.first().map_or(false, |c| c.is_ascii_alphabetic())
        && t.iter().position(|&c| c == ':').map_or(false, |p| t[..p].iter().all(|c| c.is_ascii_alphanumeric() || "+-.".contains(*c)));
    let k = if t.is_empty() {
        "empty"
    } else if has_scheme {
        "scheme"
    } else if t[0] == '#' {
        "frag"
    } else if t[0] == '?' {
        "query"
    } else if t.len() >= 2 && sl(t[0]) && sl(t[1]) {
        "netpath"
    } else if sl(t[0]) {
        "abspath"
    } else {
        "relpath"
    };
    let dots = if t.windows(2).any(|w| w == ['.', '.']) || input.to_ascii_lowercase().contains("%2e") { "+dots" } else { "" };
    let ws = if t.len() != input.chars().count() { "+ws" } else { "" };
    format!("{}{}{}", k, dots, ws)
}

impl Ctx {
    fn join(&mut self, stream: &str, base: &Url, input: &str) {
        let req = format!("parse {} 0 {} {}", self.dbg, url_token(base), hexs(input));
        let model = self.drv.ask_with(&req, url_oracle);
        let imp = impl_join(base, input);
        let out = if imp.starts_with("ok") { "ok" } else { imp.as_str() };
        let sig = format!("join:{}:{}:{}", out, base_kind(base), ref_kind(input, base.is_special()));
        self.rep.case(stream, &req, &model, &imp, true, &sig);
        // the Coq and the Rust version of the containment premise must agree
        if !base.cannot_be_a_base() {
            let kreq = format!("cpre {} {}", url_token(base), hexs(input));
            let km = self.drv.ask_with(&kreq, url_oracle);
            let ki = if contain_pre(base, input) { "1" } else { "0" };
            if km != ki {
                self.rep.case("known-predicate", &kreq, &km, ki, true, "cpre");
            }
        }
        if self.search {
            self.laws_join(base, input);
        }
    }

    fn laws_join(&mut self, base: &Url, input: &str) {
        if self.rep.failures.len() >= 20 {
            return;
        }
        // known F-C04-7: a file base with a drive-letter-shaped segment trips debug_assert parser.rs (pop of a
        // drive letter) on dot-segment references; the model predicts the same panic, C08 says nothing about it
        if base.scheme() == "file" && base.path().split('/').any(is_wdl_seg) && impl_join(base, input) == "panic" {
            self.rep.bump("known-panic:F-C04-7");
            return;
        }
        if let Some(w) = prop_c08(base, input) {
            // prop_c08 compares the text in front of the path; for a base without authority the '/.' marker
            // (inserted or removed by with_query_and_fragment) is part of that text although it carries no
            // credentials, host or port: there the law is "scheme kept, still no authority" (C08_contain)
            let marker_only = w.contains("changed the authority")
                && !base.has_authority()
                && matches!(std::panic::catch_unwind(std::panic::AssertUnwindSafe(|| base.join(input))),
                            Ok(Ok(u)) if u.scheme() == base.scheme() && !u.has_authority() && u.host().is_none() && u.port().is_none() && u.username().is_empty() && u.password().is_none());
            if !marker_only {
                self.rep.failures.push((join_case(base, input), w));
                return;
            }
        }
        // '?q' without '#': the result has no fragment (query and fragment come from the reference only);
        // '?q#f' / '#f': the fragment is the reference's
        if !base.cannot_be_a_base() {
            let t: String = input.trim_matches(|c: char| c <= ' ').chars().filter(|c| !matches!(c, '\t' | '\n' | '\r')).collect();
            if t.starts_with('?') || t.is_empty() {
                if let Ok(Ok(u)) = std::panic::catch_unwind(std::panic::AssertUnwindSafe(|| base.join(input))) {
                    if !t.contains('#') && u.fragment().is_some() {
                        self.rep.failures.push((join_case(base, input), format!("reference {:?} without '#' gives a URL with fragment {:?}", input, u.fragment())));
                        return;
                    }
                    if t.is_empty() && u.query() != base.query() {
                        self.rep.failures.push((join_case(base, input), format!("the empty reference changed the query to {:?}", u.query())));
                        return;
                    }
                }
            }
        }
        if base.cannot_be_a_base() {
            // the only reference a cannot-be-a-base URL accepts: '#f' replaces only the fragment
            let t = input.trim_matches(|c: char| c <= ' ');
            if t.starts_with('#') {
                match std::panic::catch_unwind(std::panic::AssertUnwindSafe(|| base.join(input))) {
                    Ok(Ok(u)) if u[..Position::AfterQuery] == base[..Position::AfterQuery] => {}
                    other => self.rep.failures.push((
                        join_case(base, input),
                        format!("'#' reference against a cannot-be-a-base URL gives {:?}", other.map(|r| r.map(|u| u.to_string()))),
                    )),
                }
            }
        }
    }

    fn mkrel(&mut self, stream: &str, base: &Url, target: &Url) {
        let req = format!("mkrel {} {} {}", self.dbg, url_token(base), url_token(target));
        let model = self.drv.ask_with(&req, url_oracle);
        let imp = impl_mkrel(base, target);
        let ex = mr_excluded(base, target);
        let sig = format!(
            "mkrel:{}:{}:{}",
            if imp == "~" { "none" } else if imp == "panic" { "panic" } else if imp == "-" { "some-empty" } else { "some" },
            base_kind(base),
            ex.unwrap_or("MR_ok")
        );
        self.rep.case(stream, &req, &model, &imp, true, &sig);
        let kreq = format!("mrok {} {}", url_token(base), url_token(target));
        let km = self.drv.ask_with(&kreq, url_oracle);
        let ki = match ex.map(|k| k.split('-').next().unwrap_or("")) {
            None => "0",
            Some("K0") => "1",
            Some("K3") => "3",
            Some("K4a") => "41",
            Some("K4b") => "42",
            Some("K4c") => "43",
            Some("K4e") => "45",
            Some("K4f") => "46",
            Some(_) => "?",
        }
        .to_string();
        if km != ki {
            self.rep.case("known-predicate", &kreq, &km, &ki, true, "mrok");
        }
        if self.search {
            self.laws_rel(base, target);
        }
    }

    fn laws_rel(&mut self, base: &Url, target: &Url) {
        if self.rep.failures.len() >= 20 {
            return;
        }
        let w = law_relative_guard(base, target).or_else(|| law_relative(base, target)).or_else(|| prop_c08_abs(base, target));
        if let Some(w) = w {
            self.rep.failures.push((rel_case(base, target), w));
        }
    }
}

/// Rust twin of Model/KnownC08.v contain_pre: after whitespace stripping the reference has no scheme and does
/// not start with two slash characters ('\' counting only for special schemes)
fn contain_pre(base: &Url, input: &str) -> bool {
    let t: Vec<char> = input.trim_matches(|c: char| c <= ' ').chars().filter(|c| !matches!(c, '\t' | '\n' | '\r')).collect();
    let has_scheme = t.first().map_or(false, |c| c.is_ascii_alphabetic()) && {
        let mut ok = false;
        for &c in &t {
            if c.is_ascii_alphanumeric() || c == '+' || c == '-' || c == '.' {
                continue;
            }
            ok = c == ':';
            break;
        }
        ok
    };
    let sl = |c: char| c == '/' || (c == '\\' && base.is_special());
    let two = t.len() >= 2 && sl(t[0]) && sl(t[1]);
    !has_scheme && !two
}

fn exh_bases() -> Vec<Url> {
    [
        "http://example.org/foo/bar",
        "http://user:pass@h:8080/a/b/c?q#f",
        "https://h",
        "file:///tmp/mock/path",
        "file:///c:/dir/file",
        "file://host/share/f",
        "non-spec://good.example/dir/file",
        "non-spec://u:p@h:99/a//b?q#f",
        "non-spec:/path/only",
        "non-spec:/.//double",
        "a://h",
        "a:///x",
    ]
    .iter()
    .map(|s| Url::parse(s).expect("exh base"))
    .collect()
}

fn token_to_url(tok: &str) -> Option<Url> {
    let ser = tok.split(',').next()?;
    let s = String::from_utf8(unhexb(ser)).ok()?;
    let u = Url::parse(&s).ok()?;
    if u.as_str() == s {
        Some(u)
    } else {
        None
    }
}

fn run_streams(args: &Args, search: bool) -> Report {
    let dbg = if cfg!(debug_assertions) { "1" } else { "0" };
    let mut cx = Ctx { drv: Driver::spawn(&args.driver), rep: Report::new(), dbg, search };
    let thorough = args.tier == "thorough";
    let mut rng = Rng::new(args.seed);
    let pool = start_pool();

    // search: first the requests on which model and implementation differed
    if search {
        if let Ok(txt) = std::fs::read_to_string(&args.file) {
            for l in txt.lines() {
                let w: Vec<&str> = l.split(' ').collect();
                if w.len() == 5 && w[0] == "parse" {
                    if let Some(b) = token_to_url(w[3]) {
                        cx.laws_join(&b, &unhexs(w[4]));
                    }
                } else if w.len() == 4 && w[0] == "mkrel" {
                    if let (Some(b), Some(t)) = (token_to_url(w[2]), token_to_url(w[3])) {
                        cx.laws_rel(&b, &t);
                    }
                }
            }
        }
    }

    // a failing input among the differing requests is enough
    if search && !cx.rep.failures.is_empty() {
        cx.rep.failures.sort_by_key(|(c, _)| c.len());
        return cx.rep;
    }
    // corpus: "join <base hex> <reference hex>" | "rel <base hex> <target hex>"
    let corpus_dir = if search { "corpus".to_string() } else { args.file.clone() };
    if let Ok(txt) = std::fs::read_to_string(format!("{}/C08/cases.txt", corpus_dir)) {
        for l in txt.lines().filter(|l| !l.is_empty() && !l.starts_with('#')) {
            let w: Vec<&str> = l.split(' ').collect();
            if w.len() != 3 {
                continue;
            }
            let b = match Url::parse(&unhexs(w[1])) {
                Ok(b) => b,
                Err(_) => continue,
            };
            match w[0] {
                "join" => cx.join("corpus", &b, &unhexs(w[2])),
                "rel" => {
                    if let Ok(t) = Url::parse(&unhexs(w[2])) {
                        cx.mkrel("corpus", &b, &t)
                    }
                }
                _ => {}
            }
        }
    }

    // (a1) every reference of the fixed list, plain and decorated, against every pool URL
    for b in &pool {
        for r in REFS.iter() {
            cx.join("refs-x-pool", b, r);
            cx.join("refs-x-pool", b, &format!(" \t{}\n ", r));
            if r.len() >= 2 {
                let cs: Vec<char> = r.chars().collect();
                let d: String = cs[..1].iter().chain(['\t', '\n'].iter()).chain(cs[1..].iter()).collect();
                cx.join("refs-x-pool", b, &d);
            }
        }
    }
    // (a2) an absolute URL's own serialization against every base
    for b in &pool {
        for t in &pool {
            cx.join("absolute-x-pool", b, t.as_str());
        }
    }
    // (a3) exhaustive small scope
    let k = if thorough { 4 } else { 3 };
    let eb = exh_bases();
    for b in &eb {
        for_all_strings(&REF_CLASS, k, |s| {
            let st: String = s.iter().collect();
            cx.join("exh-class", b, &st);
        });
    }
    cx.rep.exhaustive.push(format!(
        "join: all strings of length <= {} over the 13-character reference class alphabet x {} bases; {} fixed references (plain, space/tab/newline-decorated) x {} pool URLs; every pool URL's serialization against every pool URL; make_relative: all {} x {} pool pairs",
        k,
        eb.len(),
        REFS.len(),
        pool.len(),
        pool.len(),
        pool.len()
    ));
    // (b1) make_relative on all pool pairs
    for b in &pool {
        for t in &pool {
            cx.mkrel("mkrel-pool-pairs", b, t);
        }
    }
    // (a4) + (b2) random
    let n = if thorough { 400_000 } else if search { 120_000 } else { 30_000 };
    for i in 0..n {
        if search && cx.rep.failures.len() >= 5 {
            break;
        }
        let (bs, ts) = gen_pair(&mut rng);
        let (b, t) = match (Url::parse(&bs), Url::parse(&ts)) {
            (Ok(b), Ok(t)) => (b, t),
            (Ok(b), Err(_)) => {
                let r = gen_reference(&mut rng);
                cx.join("random-ref", &b, &r);
                continue;
            }
            _ => continue,
        };
        cx.mkrel("mkrel-random", &b, &t);
        if i % 2 == 0 {
            let r = gen_reference(&mut rng);
            cx.join("random-ref", &b, &r);
        }
        if i % 7 == 0 {
            cx.join("absolute-random", &b, t.as_str());
        }
        if i % 5 == 0 {
            // the reference make_relative produced, joined back (model <-> implementation on that reference)
            if let Ok(Some(rel)) = std::panic::catch_unwind(std::panic::AssertUnwindSafe(|| b.make_relative(&t))) {
                cx.join("join-of-make-relative", &b, &rel);
            }
        }
        if i % 11 == 0 {
            let s = random_url_string(&mut rng);
            if let Ok(u) = Url::parse(&s) {
                let r = gen_reference(&mut rng);
                cx.join("random-base", &u, &r);
                cx.mkrel("mkrel-random-base", &u, &t);
                cx.mkrel("mkrel-random-base", &b, &u);
            }
        }
    }
    cx.rep.failures.sort_by_key(|(c, _)| c.len());
    cx.rep
}

/// calibration of MR_ok against the implementation (development aid, not part of ./check):
/// counts, per excluded class, the pairs on which the inverse law fails / holds, and lists counterexamples
/// inside MR_ok
fn run_calib(args: &Args) -> Report {
    let mut rep = Report::new();
    let mut rng = Rng::new(args.seed);
    let n: usize = args.extra.first().and_then(|s| s.parse().ok()).unwrap_or(1_000_000);
    let pool = start_pool();
    let mut pairs = 0u64;
    let mut check = |rep: &mut Report, b: &Url, t: &Url| {
        let rel = match std::panic::catch_unwind(std::panic::AssertUnwindSafe(|| b.make_relative(t))) {
            Ok(Some(r)) => r,
            Ok(None) => return,
            Err(_) => {
                rep.failures.push((rel_case(b, t), "panic".into()));
                return;
            }
        };
        let ok = matches!(std::panic::catch_unwind(std::panic::AssertUnwindSafe(|| b.join(&rel))), Ok(Ok(u)) if u.as_str() == t.as_str());
        let cls = mr_excluded(b, t).unwrap_or("MR_ok");
        rep.bump(&format!("{}:{}", cls, if ok { "law-holds" } else { "law-fails" }));
        rep.evaluations += 1;
        if !ok && cls == "MR_ok" && rep.failures.len() < 40 {
            rep.failures.push((format!("{} | {} | rel={:?}", b.as_str(), t.as_str(), rel), format!("joins to {:?}", b.join(&rel).map(|u| u.to_string()))));
        }
        if !ok && cls != "MR_ok" {
            let key = format!("witness:{}", cls);
            if !rep.histogram.contains_key(&key) {
                rep.bump(&key);
                rep.notes.push(format!("{}: {} | {} | rel={:?} joins to {:?}", cls, b.as_str(), t.as_str(), rel, b.join(&rel).map(|u| u.to_string())));
            }
        }
    };
    for b in &pool {
        for t in &pool {
            check(&mut rep, b, t);
        }
    }
    while (pairs as usize) < n {
        let (bs, ts) = gen_pair(&mut rng);
        if let (Ok(b), Ok(t)) = (Url::parse(&bs), Url::parse(&ts)) {
            pairs += 1;
            check(&mut rep, &b, &t);
            if pairs % 13 == 0 {
                if let Ok(u) = Url::parse(&random_url_string(&mut rng)) {
                    check(&mut rep, &u, &t);
                    check(&mut rep, &b, &u);
                }
            }
        }
    }
    rep
}

// ------------------------------------------------------------------ known findings
fn run_known(_args: &Args) -> Report {
    let mut rep = Report::new();
    let j = |base: &str, input: &str| -> String {
        let b = Url::parse(base).unwrap();
        match std::panic::catch_unwind(std::panic::AssertUnwindSafe(|| b.join(input))) {
            Ok(Ok(u)) => u.to_string(),
            Ok(Err(e)) => format!("Err({:?})", e),
            Err(_) => "PANIC".into(),
        }
    };
    // containment
    let got = j("file://host/path", "/c:/foo/bar");
    rep.known.push(("F-C01-1".into(), got == "file:///c:/foo/bar", format!("join(file://host/path, /c:/foo/bar) = {}", got)));
    rep.known.push(("F-C08-1".into(), got == "file:///c:/foo/bar", format!("join(file://host/path, /c:/foo/bar) = {}", got)));
    // fixed: reproduce = the old behaviour is back
    let got = j("non-spec://good.example/dir/file", "\\\\evil.example/x");
    rep.known.push(("F-C01-4".into(), got == "non-spec://evil.example/x", format!("join(non-spec://good.example/dir/file, \\\\evil.example/x) = {}", got)));
    rep.known.push(("F-C08-5".into(), got == "non-spec://evil.example/x", format!("join(non-spec://good.example/dir/file, \\\\evil.example/x) = {}", got)));
    // the absolute law on a record produced by quirks::set_host (F-C07-8 seen from C08: C08_absolute_statement2_refuted):
    // reproduces when the record's own serialization does not resolve to itself
    {
        let mut u = Url::parse("a://:pw@h/p").unwrap();
        let _ = url::quirks::set_host(&mut u, "");
        let s = u.as_str().to_string();
        let got = j("a://:pw@h/p", &s);
        rep.known.push(("F-C07-8".into(), got != s, format!("a://:pw@h/p .host = \"\" gives {}; join(a://:pw@h/p, that) = {}", s, got)));
    }
    // make_relative: (id, base, target, fixed?) - reproduces when make_relative answers Some(r) and join(base, r) != target
    let table: [(&str, &str, &str); 8] = [
        ("F-C08-2", "web+demo:/", "web+demo:'<C|"),
        ("F-C08-3", "https://-@h/", "https://h/"),
        ("F-C08-4a", "http://h/?q", "http://h/"),
        ("F-C08-4b", "non-spec:/", "non-spec:/c:"),
        ("F-C08-4c", "http://h/a/f", "http://h/a/"),
        ("F-C08-4c2", "http://h/a//b/f", "http://h/a/f"),
        ("F-C08-4d", "a:/x", "a:///x"),
        ("F-C08-4e", "file:///c:/a/b", "file:///d:/x"),
    ];
    for (id, b, t) in table.iter() {
        let (bu, tu) = (Url::parse(b).unwrap(), Url::parse(t).unwrap());
        let r = std::panic::catch_unwind(std::panic::AssertUnwindSafe(|| bu.make_relative(&tu)));
        let (reproduces, obs) = match r {
            Err(_) => (true, "PANIC".to_string()),
            Ok(None) => (false, "None".to_string()),
            Ok(Some(rel)) => {
                let back = j(b, &rel);
                (back != *t, format!("Some({:?}) which joins to {}", rel, back))
            }
        };
        rep.known.push((id.to_string(), reproduces, format!("make_relative({}, {}) = {}", b, t, obs)));
    }
    rep
}

// ------------------------------------------------------------------ replay
fn run_replay(args: &Args) -> Report {
    let dbg = if cfg!(debug_assertions) { "1" } else { "0" };
    let mut cx = Ctx { drv: Driver::spawn(&args.driver), rep: Report::new(), dbg, search: false };
    let txt = std::fs::read_to_string(&args.file).unwrap_or_default();
    let req = txt.split("\"request\":").nth(1).and_then(|s| s.split('"').nth(1)).unwrap_or("").to_string();
    let w: Vec<&str> = req.split(' ').collect();
    if w.len() != 3 || !(w[0] == "join08" || w[0] == "rel08") {
        cx.rep.notes.push("replay file has no join08/rel08 request (no-failing-input-found replay): nothing to re-run".into());
        return cx.rep;
    }
    let base = match Url::parse(&unhexs(w[1])) {
        Ok(b) => b,
        Err(e) => {
            cx.rep.notes.push(format!("base does not parse: {:?}", e));
            return cx.rep;
        }
    };
    cx.rep.evaluations = 1;
    if w[0] == "join08" {
        let input = unhexs(w[2]);
        cx.rep.notes.push(format!("base {:?} reference {:?}", base.as_str(), input));
        cx.rep.notes.push(format!("implementation: {}", impl_join(&base, &input)));
        let mreq = format!("parse {} 0 {} {}", dbg, url_token(&base), hexs(&input));
        let m = cx.drv.ask_with(&mreq, url_oracle);
        cx.rep.notes.push(format!("model of the unchanged code: {}", m));
        cx.laws_join(&base, &input);
    } else if let Ok(t) = Url::parse(&unhexs(w[2])) {
        cx.rep.notes.push(format!("base {:?} target {:?}", base.as_str(), t.as_str()));
        cx.rep.notes.push(format!("implementation make_relative: {}", impl_mkrel(&base, &t)));
        let mreq = format!("mkrel {} {} {}", dbg, url_token(&base), url_token(&t));
        let m = cx.drv.ask_with(&mreq, url_oracle);
        cx.rep.notes.push(format!("model of the unchanged code: {}", m));
        cx.laws_rel(&base, &t);
    }
    cx.rep
}

fn main() {
    quiet_panics();
    let args = parse_args();
    let rep = match args.mode.as_str() {
        "corr" => run_streams(&args, false),
        "search" => run_streams(&args, true),
        "known" => run_known(&args),
        "replay" => run_replay(&args),
        "calib" => run_calib(&args),
        m => panic!("unknown mode {}", m),
    };
    finish(&args, &rep);
}
