//! C14 - percent-encoding: correspondence model <-> percent_encoding crate, property search, replay.
use percent_encoding::{percent_decode, percent_encode, AsciiSet, CONTROLS, NON_ALPHANUMERIC};
use std::borrow::Cow;
use verif_harness::*;

fn mk_set(members: &[u8]) -> Option<&'static AsciiSet> {
    let r = std::panic::catch_unwind(|| {
        let mut s = AsciiSet::EMPTY;
        for &m in members {
            s = s.add(m);
        }
        s
    });
    r.ok().map(|s| &*Box::leak(Box::new(s)))
}

fn show_strict(r: Result<&str, std::str::Utf8Error>) -> String {
    match r {
        Ok(s) => format!("ok:{}", hexs(s)),
        Err(e) => format!("err:{:x}:{}", e.valid_up_to(), opt(&e.error_len(), |l| format!("{:x}", l))),
    }
}

// ---------------------------------------------------------------- implementation side of each request
fn impl_enc(members: &[u8], bs: &[u8]) -> String {
    let set = match mk_set(members) {
        Some(s) => s,
        None => return "PANIC".into(),
    };
    let bs = bs.to_vec();
    guarded(move || {
        let it = percent_encode(&bs, set);
        let hint = it.size_hint();
        let chunks: Vec<String> = it.clone().map(|c| hexs(c)).collect();
        let display = format!("{}", it.clone());
        let collected: String = it.clone().collect();
        let cow: Cow<str> = it.clone().into();
        let kind = match &cow {
            Cow::Owned(_) => "OW",
            Cow::Borrowed(s) => {
                let p = s.as_ptr() as usize;
                let lo = bs.as_ptr() as usize;
                if !s.is_empty() && p >= lo && p < lo + bs.len() { "BI" } else { "BS" }
            }
        };
        format!(
            "{} {} {:x} {} {} {} {}",
            if chunks.is_empty() { "-".to_string() } else { chunks.join("|") },
            hexs(&display),
            hint.0,
            opt(&hint.1, |h| format!("{:x}", h)),
            kind,
            hexs(&cow),
            hexs(&collected)
        )
    })
}

fn impl_next(members: &[u8], bs: &[u8]) -> String {
    let set = match mk_set(members) {
        Some(s) => s,
        None => return "PANIC".into(),
    };
    let bs = bs.to_vec();
    guarded(move || {
        let mut it = percent_encode(&bs, set);
        match it.next() {
            None => "~".to_string(),
            Some(c) => {
                // remaining bytes: PercentEncode implements PartialEq on (bytes, set), so the
                // suffix the iterator still holds is the one that compares equal
                let consumed = (0..=bs.len()).find(|&k| it == percent_encode(&bs[k..], set)).unwrap_or(usize::MAX);
                format!("{} {}", hexs(c), hexb(&bs[consumed..]))
            }
        }
    })
}

fn impl_dec(bs: &[u8]) -> String {
    let bs = bs.to_vec();
    guarded(move || {
        let it = percent_decode(&bs);
        let hint = it.size_hint();
        let d: Vec<u8> = it.clone().collect();
        let cow: Cow<[u8]> = it.clone().into();
        let kind = match &cow {
            Cow::Owned(_) => "OW",
            Cow::Borrowed(_) => "BI",
        };
        let strict = match it.clone().decode_utf8() {
            Ok(s) => format!("ok:{}", hexs(&s)),
            Err(e) => format!("err:{:x}:{}", e.valid_up_to(), opt(&e.error_len(), |l| format!("{:x}", l))),
        };
        let lossy = it.clone().decode_utf8_lossy();
        format!(
            "{} {:x} {} {} {} {} {}",
            hexb(&d),
            hint.0,
            opt(&hint.1, |h| format!("{:x}", h)),
            kind,
            hexb(&cow),
            strict,
            hexs(&lossy)
        )
    })
}

fn membership(s: &AsciiSet) -> String {
    // contains() is crate-private: observe it through should_percent_encode on one byte
    (0u8..128)
        .map(|b| {
            let x = [b];
            let mut it = percent_encode(&x, unsafe { &*(s as *const AsciiSet) });
            if it.next().map(|c| c.len()) == Some(3) { '1' } else { '0' }
        })
        .collect()
}

fn impl_set(ops: &[&str]) -> String {
    let ops: Vec<String> = ops.iter().map(|s| s.to_string()).collect();
    guarded(move || {
        let mut s = AsciiSet::EMPTY;
        for op in &ops {
            let (tag, arg) = op.split_at(1);
            match tag {
                "a" => s = s.add(u32::from_str_radix(arg, 16).unwrap() as u8),
                "r" => s = s.remove(u32::from_str_radix(arg, 16).unwrap() as u8),
                "u" => {
                    let mut o = AsciiSet::EMPTY;
                    for m in unhexb(arg) {
                        o = o.add(m);
                    }
                    // alternate between the method and the operator
                    s = if arg.len() % 2 == 0 { s.union(o) } else { s + o };
                }
                "c" => s = if ops.len() % 2 == 0 { s.complement() } else { !s },
                _ => panic!("bad op"),
            }
        }
        let leaked: &'static AsciiSet = Box::leak(Box::new(s));
        membership(leaked)
    })
}

fn impl_utf8(bs: &[u8]) -> String {
    format!("{} {}", show_strict(std::str::from_utf8(bs)), hexs(&String::from_utf8_lossy(bs)))
}

fn impl_request(req: &str) -> String {
    let w: Vec<&str> = req.split(' ').collect();
    match w[0] {
        "enc" => impl_enc(&unhexb(w[1]), &unhexb(w[2])),
        "next" => impl_next(&unhexb(w[1]), &unhexb(w[2])),
        "dec" => impl_dec(&unhexb(w[1])),
        "set" => impl_set(&w[1..]),
        "encbyte" => {
            let b = u32::from_str_radix(w[1], 16).unwrap() as u8;
            hexs(percent_encoding::percent_encode_byte(b))
        }
        "utf8" => impl_utf8(&unhexb(w[1])),
        _ => "?".into(),
    }
}

fn signature(req: &str, out: &str) -> (bool, String) {
    let w: Vec<&str> = req.split(' ').collect();
    let o: Vec<&str> = out.split(' ').collect();
    match w[0] {
        "enc" if o.len() >= 7 => {
            let nchunks = if o[0] == "-" { 0 } else { o[0].split('|').count().min(4) };
            let grew = o[1] != w[2];
            (w[2] != "-", format!("enc:c{}:{}:{}", nchunks, o[4], if grew { "changed" } else { "same" }))
        }
        "dec" if o.len() >= 7 => {
            let st = if o[5].starts_with("ok") { "ok".to_string() } else { format!("err{}", o[5].rsplit(':').next().unwrap_or("")) };
            (w[1] != "-", format!("dec:{}:{}:{}", o[3], st, if o[0] == w[1] { "same" } else { "changed" }))
        }
        "set" => (w.len() > 1, format!("set:{}:{}", if out == "P" || out == "PANIC" { "panic" } else { "ok" }, w.iter().skip(1).map(|x| &x[..1]).collect::<Vec<_>>().join("").chars().take(3).collect::<String>())),
        "next" => (w[2] != "-", format!("next:{}", if out == "~" { "none" } else { "some" })),
        "utf8" => (w[1] != "-", format!("utf8:{}", if o[0].starts_with("ok") { "ok".to_string() } else { format!("err{}", o[0].rsplit(':').next().unwrap_or("")) })),
        other => (true, other.to_string()),
    }
}

fn canon_model(req: &str, model: String) -> String {
    // the model reports a panic of the set builder as "P"; the implementation as "PANIC"
    if req.starts_with("set") && model == "P" { "PANIC".into() } else { model }
}

fn compare(drv: &mut Driver, rep: &mut Report, stream: &str, req: &str) {
    let model = canon_model(req, drv.ask(req));
    let imp = impl_request(req);
    let (nt, sig) = signature(req, &imp);
    rep.case(stream, req, &model, &imp, nt, &sig);
}

// ---------------------------------------------------------------- generators
const ENC_CLASSES: [u8; 8] = [b'a', b' ', b'%', b'4', b'F', b'~', 0xC3, 0xFF];
const DEC_CLASSES: [u8; 8] = [b'%', b'4', b'a', b'F', b'g', b' ', 0xC3, 0xA9];

fn set_pool() -> Vec<Vec<u8>> {
    let controls: Vec<u8> = (0u8..32).chain(std::iter::once(0x7f)).collect();
    let mut path = controls.clone();
    path.extend_from_slice(b" \"<>`#?{}");
    let mut pseg = path.clone();
    pseg.extend_from_slice(b"/%");
    let nonalnum: Vec<u8> = (0u8..128).filter(|b| !b.is_ascii_alphanumeric()).collect();
    vec![vec![], vec![b'%'], controls, path, pseg, nonalnum, (0u8..128).collect(), vec![b'a', b'4', b'F']]
}

fn random_bytes(rng: &mut Rng, maxlen: usize) -> Vec<u8> {
    let n = rng.below(maxlen + 1);
    (0..n)
        .map(|_| match rng.below(10) {
            0 => b'%',
            1 => *rng.pick(b"0123456789abcdefABCDEF"),
            2 => *rng.pick(b"gGxz %/?#"),
            3 => 0x80 + rng.below(0x80) as u8,
            4 => rng.below(0x20) as u8,
            5 => *rng.pick(&[0xC3u8, 0xA9, 0xE2, 0x82, 0xAC, 0xF0, 0x9F, 0x92, 0x96, 0xED, 0xA0, 0x80]),
            _ => 0x20 + rng.below(0x5f) as u8,
        })
        .collect()
}

fn random_set(rng: &mut Rng) -> Vec<u8> {
    match rng.below(4) {
        0 => set_pool()[rng.below(8)].clone(),
        1 => (0..rng.below(12)).map(|_| rng.below(128) as u8).collect(),
        2 => {
            let mut v: Vec<u8> = (0..rng.below(40)).map(|_| rng.below(128) as u8).collect();
            v.push(b'%');
            v
        }
        _ => (0u8..128).filter(|_| rng.chance(1, 2)).collect(),
    }
}

fn run_corr(args: &Args) -> Report {
    let mut rep = Report::new();
    let mut drv = Driver::spawn(&args.driver);
    let thorough = args.tier == "thorough";
    let mut rng = Rng::new(args.seed);

    // corpus first
    if let Ok(txt) = std::fs::read_to_string(format!("{}/C14/cases.txt", args.file)) {
        for l in txt.lines().filter(|l| !l.is_empty() && !l.starts_with('#')) {
            compare(&mut drv, &mut rep, "corpus", l);
        }
    }

    // exhaustive: the table, every byte x every pool set
    for b in 0u32..256 {
        compare(&mut drv, &mut rep, "exh-encbyte", &format!("encbyte {:x}", b));
    }
    for set in set_pool() {
        for b in 0u32..256 {
            compare(&mut drv, &mut rep, "exh-byte-x-set", &format!("enc {} {:x}", hexb(&set), b));
        }
    }
    rep.exhaustive.push("encbyte: all 256 bytes; enc: all single bytes x 8 pool sets".into());

    // exhaustive small scope over class alphabets
    let enc_len = if thorough { 5 } else { 4 };
    let pool = set_pool();
    for set in [&pool[3], &pool[1], &pool[0]] {
        let sh = hexb(set);
        for_all_strings(&ENC_CLASSES, enc_len, |s| {
            compare(&mut drv, &mut rep, "exh-enc-classes", &format!("enc {} {}", sh, hexb(s)));
        });
    }
    for_all_strings(&ENC_CLASSES, 3, |s| {
        compare(&mut drv, &mut rep, "exh-next-classes", &format!("next {} {}", hexb(&pool[4]), hexb(s)));
    });
    let dec_len = if thorough { 6 } else { 5 };
    for_all_strings(&DEC_CLASSES, dec_len, |s| {
        compare(&mut drv, &mut rep, "exh-dec-classes", &format!("dec {}", hexb(s)));
    });
    rep.exhaustive.push(format!(
        "enc: all strings of length <= {} over {{a,space,%,4,F,~,0xC3,0xFF}} x 3 sets; dec: all strings of length <= {} over {{%,4,a,F,g,space,0xC3,0xA9}}",
        enc_len, dec_len
    ));

    // utf8 model vs std: all strings up to length 4 over lead/continuation classes
    let u8c: [u8; 12] = [0x41, 0x80, 0xBF, 0xC1, 0xC2, 0xE0, 0xA0, 0xED, 0x9F, 0xF0, 0x90, 0xF4];
    for_all_strings(&u8c, if thorough { 5 } else { 4 }, |s| {
        compare(&mut drv, &mut rep, "exh-utf8", &format!("utf8 {}", hexb(s)));
    });

    // random
    let n = if thorough { 400_000 } else { 30_000 };
    for _ in 0..n {
        let set = random_set(&mut rng);
        let bs = random_bytes(&mut rng, 24);
        compare(&mut drv, &mut rep, "rnd-enc", &format!("enc {} {}", hexb(&set), hexb(&bs)));
        let bs = random_bytes(&mut rng, 24);
        compare(&mut drv, &mut rep, "rnd-dec", &format!("dec {}", hexb(&bs)));
    }
    // decode of encoder output (valid escapes dominate)
    for _ in 0..n / 4 {
        let set = random_set(&mut rng);
        let bs = random_bytes(&mut rng, 16);
        if let Some(s) = mk_set(&set) {
            let e: String = percent_encode(&bs, s).collect();
            compare(&mut drv, &mut rep, "rnd-dec-of-enc", &format!("dec {}", hexb(e.as_bytes())));
        }
    }
    // set algebra
    for _ in 0..n / 10 {
        let k = 1 + rng.below(6);
        let ops: Vec<String> = (0..k)
            .map(|_| match rng.below(12) {
                0..=4 => format!("a{:x}", rng.below(128)),
                5..=7 => format!("r{:x}", rng.below(128)),
                8 => format!("u{}", hexb(&random_set(&mut rng))),
                9 => "c".to_string(),
                10 => format!("a{:x}", 120 + rng.below(136)),
                _ => format!("r{:x}", 120 + rng.below(136)),
            })
            .collect();
        compare(&mut drv, &mut rep, "rnd-set", &format!("set {}", ops.join(" ")));
    }
    for x in 0u32..256 {
        compare(&mut drv, &mut rep, "exh-set-add", &format!("set a{:x}", x));
        compare(&mut drv, &mut rep, "exh-set-remove", &format!("set c r{:x}", x));
    }

    // the named constants: model tables (regenerated from source) vs the crate's exported constants
    let named = drv.ask("named");
    let parts: Vec<&str> = named.split(' ').collect();
    let imp_controls = membership(CONTROLS);
    let imp_nonalnum = membership(NON_ALPHANUMERIC);
    rep.case("named", "named CONTROLS", parts.first().copied().unwrap_or(""), &imp_controls, true, "named");
    rep.case("named", "named NON_ALPHANUMERIC", parts.get(1).copied().unwrap_or(""), &imp_nonalnum, true, "named");
    rep
}

// ---------------------------------------------------------------- property evaluated on the implementation
fn reference_encode(members: &[u8], bs: &[u8]) -> Vec<u8> {
    let mut o = Vec::new();
    for &b in bs {
        if b >= 0x80 || members.contains(&b) {
            o.extend_from_slice(format!("%{:02X}", b).as_bytes());
        } else {
            o.push(b);
        }
    }
    o
}
fn reference_decode(bs: &[u8]) -> Vec<u8> {
    let mut o = Vec::new();
    let mut i = 0;
    let hv = |c: u8| (c as char).to_digit(16);
    while i < bs.len() {
        if bs[i] == b'%' && i + 2 < bs.len() {
            if let (Some(h), Some(l)) = (hv(bs[i + 1]), hv(bs[i + 2])) {
                o.push((h * 16 + l) as u8);
                i += 3;
                continue;
            }
        }
        o.push(bs[i]);
        i += 1;
    }
    o
}

/// the C14 statement on one (set, bytes, split point); None = holds
fn property_enc(members: &[u8], bs: &[u8], cut: usize) -> Option<String> {
    if members.iter().any(|&m| m >= 128) {
        return None;
    }
    let set = mk_set(members)?;
    let (m2, b2) = (members.to_vec(), bs.to_vec());
    let r = std::panic::catch_unwind(move || -> Option<String> {
        let members = &m2;
        let bs = &b2;
        let it = percent_encode(bs, set);
        let collected: String = it.clone().collect();
        let expect = reference_encode(members, bs);
        if collected.as_bytes() != &expect[..] {
            return Some(format!("form: encode gives {:?}, per-byte rule gives {:?}", collected, String::from_utf8_lossy(&expect)));
        }
        if !collected.is_ascii() {
            return Some("form: output not ASCII".into());
        }
        if members.contains(&b'%') {
            let d: Vec<u8> = percent_decode(collected.as_bytes()).collect();
            if &d != bs {
                return Some(format!("round trip: decode(encode(b)) = {:?}", d));
            }
        }
        let display = format!("{}", it.clone());
        let cow: Cow<str> = it.clone().into();
        if display != collected || cow != collected {
            return Some("views: Display / Cow / collect disagree".into());
        }
        let n = it.clone().count();
        let h = it.size_hint();
        if n < h.0 || h.1.map_or(false, |hi| n > hi) {
            return Some(format!("views: size_hint {:?} but {} items", h, n));
        }
        if it.clone().any(|c| c.is_empty()) {
            return Some("views: empty chunk".into());
        }
        let borrowed_input = match &cow {
            Cow::Borrowed(s) => {
                let p = s.as_ptr() as usize;
                let lo = bs.as_ptr() as usize;
                s.is_empty() || (p >= lo && p < lo + bs.len())
            }
            Cow::Owned(_) => false,
        };
        let unchanged = collected.as_bytes() == &bs[..];
        if borrowed_input != unchanged && !(bs.len() == 1 && !unchanged) {
            return Some(format!("borrow: borrows input = {}, unchanged = {}", borrowed_input, unchanged));
        }
        let cut = cut.min(bs.len());
        let a: String = percent_encode(&bs[..cut], set).collect();
        let b: String = percent_encode(&bs[cut..], set).collect();
        if format!("{}{}", a, b) != collected {
            return Some(format!("homomorphism: encode(x)+encode(y) != encode(x+y) at cut {}", cut));
        }
        None
    });
    match r {
        Ok(x) => x,
        Err(_) => Some("panic".into()),
    }
}

fn property_dec(bs: &[u8], cut: usize) -> Option<String> {
    let b2 = bs.to_vec();
    let r = std::panic::catch_unwind(move || -> Option<String> {
        let bs = &b2;
        let it = percent_decode(bs);
        let d: Vec<u8> = it.clone().collect();
        if d != reference_decode(bs) {
            return Some(format!("decode gives {:?}, reference {:?}", d, reference_decode(bs)));
        }
        let cow: Cow<[u8]> = it.clone().into();
        if &cow[..] != &d[..] {
            return Some("views: Cow != iterator".into());
        }
        let borrowed = matches!(cow, Cow::Borrowed(_));
        if borrowed != (&d == bs) {
            return Some(format!("borrow: borrowed = {}, unchanged = {}", borrowed, &d == bs));
        }
        let h = it.size_hint();
        if d.len() < h.0 || h.1.map_or(false, |hi| d.len() > hi) {
            return Some(format!("views: size_hint {:?} but {} items", h, d.len()));
        }
        match (it.clone().decode_utf8(), std::str::from_utf8(&d)) {
            (Ok(a), Ok(b)) if a == b => {}
            (Err(a), Err(b)) if a == b => {}
            _ => return Some("views: decode_utf8 != from_utf8(decode)".into()),
        }
        if it.clone().decode_utf8_lossy() != String::from_utf8_lossy(&d) {
            return Some("views: decode_utf8_lossy != from_utf8_lossy(decode)".into());
        }
        let cut = cut.min(bs.len());
        let x = &bs[..cut];
        let tail_has_pct = x.iter().rev().take(2).any(|&c| c == b'%');
        if !tail_has_pct {
            let mut a: Vec<u8> = percent_decode(x).collect();
            a.extend(percent_decode(&bs[cut..]));
            if a != d {
                return Some(format!("split: decode(x)+decode(y) != decode(x+y) at cut {}", cut));
            }
        }
        None
    });
    match r {
        Ok(x) => x,
        Err(_) => Some("panic".into()),
    }
}

fn property_set(ops: &[&str]) -> Option<String> {
    // reference: a plain 128-bit membership vector
    let mut m = [false; 128];
    for op in ops {
        let (tag, arg) = op.split_at(1);
        match tag {
            "a" | "r" => {
                let v = u32::from_str_radix(arg, 16).unwrap();
                if v >= 128 {
                    return None; // known finding F-C04-4: non-ASCII add/remove panics
                }
                m[v as usize] = tag == "a";
            }
            "u" => {
                for x in unhexb(arg) {
                    if x >= 128 {
                        return None;
                    }
                    m[x as usize] = true;
                }
            }
            "c" => {
                for x in m.iter_mut() {
                    *x = !*x;
                }
            }
            _ => {}
        }
    }
    let expect: String = m.iter().map(|&b| if b { '1' } else { '0' }).collect();
    let got = impl_set(ops);
    if got != expect {
        Some(format!("set algebra: membership {} expected {}", got, expect))
    } else {
        None
    }
}

fn property_of_request(req: &str) -> Option<String> {
    let w: Vec<&str> = req.split(' ').collect();
    match w[0] {
        "enc" | "next" => {
            let (m, b) = (unhexb(w[1]), unhexb(w[2]));
            (0..=b.len()).find_map(|cut| property_enc(&m, &b, cut))
        }
        "dec" => {
            let b = unhexb(w[1]);
            (0..=b.len()).find_map(|cut| property_dec(&b, cut))
        }
        "set" => property_set(&w[1..]),
        "encbyte" => {
            let b = u32::from_str_radix(w[1], 16).unwrap() as u8;
            let got = percent_encoding::percent_encode_byte(b);
            if got != format!("%{:02X}", b) { Some(format!("percent_encode_byte({}) = {}", b, got)) } else { None }
        }
        _ => None,
    }
}

fn run_search(args: &Args) -> Report {
    let mut rep = Report::new();
    let mut rng = Rng::new(args.seed ^ 0x5EA4C4);
    let mut try_req = |rep: &mut Report, req: String| {
        rep.evaluations += 1;
        if let Some(w) = property_of_request(&req) {
            if rep.failures.len() < 20 {
                rep.failures.push((req, w));
            }
        }
    };
    // (b) the differing cases and their neighbours
    if let Ok(txt) = std::fs::read_to_string(&args.file) {
        for l in txt.lines().filter(|l| !l.is_empty()) {
            try_req(&mut rep, l.to_string());
        }
    }
    // (a)/(c) the generator streams, property-directed
    for b in 0u32..256 {
        try_req(&mut rep, format!("encbyte {:x}", b));
    }
    for set in set_pool() {
        for b in 0u32..256 {
            try_req(&mut rep, format!("enc {} {:x}", hexb(&set), b));
        }
        let sh = hexb(&set);
        for_all_strings(&ENC_CLASSES, 4, |s| try_req(&mut rep, format!("enc {} {}", sh, hexb(s))));
    }
    for_all_strings(&DEC_CLASSES, 5, |s| try_req(&mut rep, format!("dec {}", hexb(s))));
    for x in 0u32..128 {
        try_req(&mut rep, format!("set a{:x}", x));
        try_req(&mut rep, format!("set c r{:x}", x));
        try_req(&mut rep, format!("set a{:x} r{:x}", x, x));
        try_req(&mut rep, format!("set a{:x} c c", x));
    }
    for _ in 0..200_000 {
        if rep.failures.len() >= 20 {
            break;
        }
        let set = random_set(&mut rng);
        let bs = random_bytes(&mut rng, 24);
        try_req(&mut rep, format!("enc {} {}", hexb(&set), hexb(&bs)));
        let bs = random_bytes(&mut rng, 24);
        try_req(&mut rep, format!("dec {}", hexb(&bs)));
    }
    // shrink: prefer the shortest failing request
    rep.failures.sort_by_key(|(c, _)| c.len());
    rep
}

fn run_known(_args: &Args) -> Report {
    let mut rep = Report::new();
    // F-C04-4 / F-C14-1: AsciiSet::add / remove with a byte >= 0x80 panics (index out of bounds)
    let r = guarded(|| {
        let _ = AsciiSet::EMPTY.add(0x80);
        "no panic".to_string()
    });
    rep.known.push(("F-C14-1".into(), r == "PANIC", format!("AsciiSet::EMPTY.add(0x80): {}", r)));
    rep
}

fn run_replay(args: &Args) -> Report {
    let mut rep = Report::new();
    let req = replay_request(&args.file);
    if req.is_empty() {
        rep.notes.push("replay file has no request (no-failing-input-found replay): nothing to re-run".into());
        return rep;
    }
    let imp = impl_request(&req);
    rep.notes.push(format!("request: {}", req));
    rep.notes.push(format!("implementation: {}", imp));
    if !args.driver.is_empty() {
        let mut drv = Driver::spawn(&args.driver);
        let model = canon_model(&req, drv.ask(&req));
        rep.notes.push(format!("model: {}", model));
    }
    rep.evaluations = 1;
    if let Some(w) = property_of_request(&req) {
        rep.failures.push((req, w));
    }
    rep
}

fn main() {
    quiet_panics();
    let args = parse_args();
    let rep = match args.mode.as_str() {
        "corr" => run_corr(&args),
        "search" => run_search(&args),
        "known" => run_known(&args),
        "replay" => run_replay(&args),
        m => panic!("unknown mode {}", m),
    };
    finish(&args, &rep);
}
