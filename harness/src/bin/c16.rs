//! C16 - Origins: correspondence model <-> url::Origin / Url::origin, property search, replay.
//!
//! Recorded requests (strings are dot-separated hex of code points, "-" = empty):
//!   urls <dbg> <input>+            each input is parsed with Url::parse; origins are computed in order
//!   oval <scheme> <host> <port>    an Origin::Tuple value built by hand (the enum is public)
//!   oeq <s1> <h1> <p1> <s2> <h2> <p2>   derived PartialEq on two Tuple values
//!   threads <n> <k> <via>          n threads create k opaque origins each, concurrently
//!                                  (via 0 = Origin::new_opaque(), 1 = Url::parse("data:x").origin())
//! The model driver is asked `orig <dbg> <url record>+` (the records of the parsed inputs), `oval`, `oeq`
//! and, for `threads`, `conc <c0> <schedule>` with the schedule reconstructed from the observed identities
//! (with fetch_add the order of the identities IS the order of the atomic steps).
//! Opaque identities are compared up to injective renaming: O<rank of first appearance in the request>.
use std::collections::HashMap;
use std::sync::{Arc, Barrier};
use url::{Host, Origin, Url};
use verif_harness::urlrec::*;
use verif_harness::*;

const DBG: bool = cfg!(debug_assertions);

// ---------------------------------------------------------------- tokens
/// host token with the domain given by its UTF-8 bytes (the model's strings are byte lists)
fn host_tok_bytes(h: &Host<String>) -> String {
    match h {
        Host::Domain(d) => format!("d{}", hexb(d.as_bytes())),
        Host::Ipv4(a) => format!("4{:x}", u32::from(*a)),
        Host::Ipv6(a) => format!("6{}", hexl(a.segments().iter().map(|&s| s as u32))),
    }
}
fn host_from_tok_bytes(t: &str) -> Host<String> {
    let (tag, arg) = t.split_at(1);
    match tag {
        "d" => Host::Domain(String::from_utf8_lossy(&unhexb(arg)).into_owned()),
        _ => host_from_token(t),
    }
}

fn opaque_id(o: &Origin) -> Option<u64> {
    // OpaqueOrigin's field is private; Debug prints Opaque(OpaqueOrigin(<id>))
    let d = format!("{:?}", o);
    let digits: String = d.chars().filter(|c| c.is_ascii_digit()).collect();
    if o.is_tuple() { None } else { digits.parse().ok() }
}

fn origin_item(o: &Origin, ranks: &mut Vec<u64>, quirks: Option<String>) -> String {
    let a = o.ascii_serialization();
    let a = match quirks {
        Some(q) if q != a => format!("QUIRKS-DIFFERS:{}", q),
        _ => a,
    };
    let a = hexb(a.as_bytes());
    let u = hexb(o.unicode_serialization().as_bytes());
    let t = if o.is_tuple() { "1" } else { "0" };
    match o {
        Origin::Tuple(s, h, p) => format!("T:{}:{}:{:x}:{}:{}:{}", hexb(s.as_bytes()), host_tok_bytes(h), p, a, u, t),
        Origin::Opaque(_) => {
            let id = opaque_id(o).unwrap_or(u64::MAX);
            let r = match ranks.iter().position(|&x| x == id) {
                Some(r) => r,
                None => {
                    ranks.push(id);
                    ranks.len() - 1
                }
            };
            format!("O{}:{}:{}:{}", r, a, u, t)
        }
    }
}

fn parse_inputs(w: &[&str]) -> Result<Vec<Url>, usize> {
    let mut us = vec![];
    for (i, h) in w.iter().enumerate() {
        match Url::parse(&unhexs(h)) {
            Ok(u) => us.push(u),
            Err(_) => return Err(i),
        }
    }
    Ok(us)
}

/// implementation side of `urls`
fn impl_urls(us: &[Url]) -> String {
    let us: Vec<Url> = us.to_vec();
    guarded(move || {
        let mut ranks = vec![];
        let mut items = vec![];
        let mut os: Vec<Option<Origin>> = vec![];
        for u in &us {
            let u2 = u.clone();
            match std::panic::catch_unwind(move || u2.origin()) {
                Ok(o) => {
                    let q = if o.is_tuple() { Some(url::quirks::origin(u)) } else { None };
                    items.push(origin_item(&o, &mut ranks, q));
                    os.push(Some(o));
                }
                Err(_) => {
                    items.push("panic".to_string());
                    os.push(None);
                }
            }
        }
        let mut m = String::new();
        for i in 0..os.len() {
            for j in i..os.len() {
                m.push(match (&os[i], &os[j]) {
                    (Some(a), Some(b)) => {
                        // a value equals itself and its clone; == is symmetric
                        let e = a == b;
                        if (b == a) != e || (i == j && (a.clone() != *a)) { 'S' } else if e { '1' } else { '0' }
                    }
                    _ => 'x',
                });
            }
        }
        format!("{} | {}", items.join(" "), m)
    })
}

fn tuple_of(s: &str, h: &str, p: &str) -> Origin {
    Origin::Tuple(String::from_utf8_lossy(&unhexb(s)).into_owned(), host_from_tok_bytes(h), u16::from_str_radix(p, 16).unwrap_or(0))
}

fn c16_oracle(name: &str, arg: &str) -> String {
    match name {
        "tu" => {
            let d = String::from_utf8_lossy(&unhexb(arg)).into_owned();
            let r = std::panic::catch_unwind(move || idna::domain_to_unicode(&d).0);
            match r {
                Ok(s) => hexb(s.as_bytes()),
                Err(_) => hexb(b"PANIC"),
            }
        }
        _ => url_oracle(name, arg),
    }
}

/// run n threads creating k opaque origins each; returns (thread, id) for every creation and the id of
/// one more origin created after all threads have finished
fn run_threads(n: usize, k: usize, via: u32) -> (Vec<(u32, u64)>, u64) {
    let barrier = Arc::new(Barrier::new(n));
    let data = Url::parse("data:x").unwrap();
    let mut hs = vec![];
    for t in 0..n {
        let b = barrier.clone();
        let data = data.clone();
        hs.push(std::thread::spawn(move || {
            let mut v = Vec::with_capacity(k);
            b.wait();
            for _ in 0..k {
                let o = if via == 0 { Origin::new_opaque() } else { data.origin() };
                v.push(o);
            }
            v.iter().map(|o| (t as u32, opaque_id(o).unwrap_or(u64::MAX))).collect::<Vec<_>>()
        }));
    }
    let mut all = vec![];
    for h in hs {
        all.extend(h.join().unwrap_or_default());
    }
    let next = opaque_id(&Origin::new_opaque()).unwrap_or(u64::MAX);
    (all, next)
}

/// (driver line, implementation's canonical answer) for a `threads` request
fn threads_case(n: usize, k: usize, via: u32) -> (String, String, Vec<(u32, u64)>) {
    let (mut all, next) = run_threads(n, k, via);
    all.sort_by_key(|&(t, id)| (id, t));
    let c0 = all.first().map(|x| x.1).unwrap_or(next);
    let sched = hexl(all.iter().map(|x| x.0));
    let ids = if all.is_empty() { "-".to_string() } else { all.iter().map(|x| format!("{:x}", x.1)).collect::<Vec<_>>().join(".") };
    (format!("conc {:x} {}", c0, sched), format!("{} {:x}", ids, next), all)
}

/// model and implementation answers for one recorded request
fn both(drv: &mut Driver, req: &str) -> (String, String) {
    let w: Vec<&str> = req.split(' ').collect();
    match w[0] {
        "urls" if w.len() >= 3 => match parse_inputs(&w[2..]) {
            Err(i) => (format!("noparse:{}", i), format!("noparse:{}", i)),
            Ok(us) => {
                let line = format!("orig {} {}", w[1], us.iter().map(url_token).collect::<Vec<_>>().join(" "));
                (drv.ask_with(&line, c16_oracle), impl_urls(&us))
            }
        },
        "oval" if w.len() == 4 => {
            let o = tuple_of(w[1], w[2], w[3]);
            let imp = guarded(move || {
                format!(
                    "{} {} {}",
                    hexb(o.ascii_serialization().as_bytes()),
                    hexb(o.unicode_serialization().as_bytes()),
                    if o.is_tuple() { "1" } else { "0" }
                )
            });
            (drv.ask_with(req, c16_oracle), imp)
        }
        "oeq" if w.len() == 7 => {
            let (a, b) = (tuple_of(w[1], w[2], w[3]), tuple_of(w[4], w[5], w[6]));
            let imp = guarded(move || if a == b { "1".to_string() } else { "0".to_string() });
            (drv.ask_with(req, c16_oracle), imp)
        }
        "threads" if w.len() == 4 => {
            let (n, k, via) = (w[1].parse().unwrap_or(2), w[2].parse().unwrap_or(1), w[3].parse().unwrap_or(0));
            let (line, imp, _) = threads_case(n, k, via);
            (drv.ask(&line), imp)
        }
        _ => ("?".into(), "??".into()),
    }
}

fn signature(req: &str, out: &str) -> (bool, String) {
    let w: Vec<&str> = req.split(' ').collect();
    match w[0] {
        "urls" => {
            if out.starts_with("noparse") {
                return (false, "urls:noparse".into());
            }
            let mut parts = out.split(" | ");
            let items = parts.next().unwrap_or("");
            let matrix = parts.next().unwrap_or("");
            let kinds: Vec<String> = items
                .split(' ')
                .zip(w[2..].iter())
                .map(|(it, inp)| {
                    let s = unhexs(inp);
                    let depth = s.to_ascii_lowercase().matches("blob:").count().min(4);
                    let f: Vec<&str> = it.split(':').collect();
                    if f[0] == "T" && f.len() >= 7 {
                        let sch = String::from_utf8_lossy(&unhexb(f[1])).into_owned();
                        let hk = &f[2][..1];
                        let ascii = String::from_utf8_lossy(&unhexb(f[4])).into_owned();
                        let has_port = ascii.rsplit(']').next().unwrap_or("").matches(':').count() >= if ascii.contains('[') { 1 } else { 2 };
                        let uni = f[4] != f[5];
                        format!("T.{}.{}.{}{}.b{}", sch, hk, if has_port { "p" } else { "d" }, if uni { "u" } else { "" }, depth)
                    } else if f[0].starts_with('O') {
                        let sch: String = s.trim().chars().take_while(|&c| c != ':').collect::<String>().to_ascii_lowercase();
                        let cls = match sch.as_str() {
                            "file" => "file",
                            "blob" => "blob",
                            "data" => "data",
                            _ => "other",
                        };
                        format!("O.{}.b{}", cls, depth)
                    } else {
                        it.to_string()
                    }
                })
                .collect();
            let eqs = matrix.matches('1').count();
            (true, format!("urls:{}:eq{}", kinds.join("+"), eqs.min(4)))
        }
        "oval" => {
            let h = &w[2][..1];
            let o: Vec<&str> = out.split(' ').collect();
            (true, format!("oval:{}:{}", h, if o.len() == 3 && o[0] != o[1] { "uni" } else { "same" }))
        }
        "oeq" => (true, format!("oeq:{}", out)),
        "threads" => (true, format!("threads:{}:{}:{}", w[1], w[2], w[3])),
        _ => (false, "?".into()),
    }
}

/// the premise of C16_fuel_partial, observed on the implementation: a URL with scheme blob parsed from
/// the path p of a blob URL has a path with fewer ':' than p
fn observe_blob_shrink(rep: &mut Report, req: &str) {
    let w: Vec<&str> = req.split(' ').collect();
    if w[0] != "urls" {
        return;
    }
    for h in &w[2..] {
        let mut cur = match Url::parse(&unhexs(h)) {
            Ok(u) => u,
            Err(_) => continue,
        };
        let mut depth = 0;
        while cur.scheme() == "blob" && depth < 64 {
            let p = cur.path().to_string();
            match Url::parse(&p) {
                Ok(v) => {
                    if v.scheme() == "blob" {
                        let (a, b) = (v.path().matches(':').count(), p.matches(':').count());
                        if a < b {
                            rep.bump("blob-path-shrinks:holds");
                        } else {
                            rep.bump("blob-path-shrinks:FAILS");
                            if rep.notes.len() < 8 {
                                rep.notes.push(format!("premise of C16_fuel_partial fails on the implementation: path {:?} parses to a blob URL with path {:?}", p, v.path()));
                            }
                        }
                        if v.as_str().len() > p.len() {
                            rep.bump("blob-inner-serialization-longer-than-path");
                        }
                    }
                    cur = v;
                    depth += 1;
                }
                Err(_) => break,
            }
        }
        if depth > 0 {
            rep.bump(&format!("blob-depth:{}", depth.min(5)));
        }
    }
}

fn compare(drv: &mut Driver, rep: &mut Report, stream: &str, req: &str) {
    observe_blob_shrink(rep, req);
    let (model, imp) = both(drv, req);
    let (nt, sig) = signature(req, &imp);
    if model.contains("FUEL") {
        rep.bump("model-out-of-fuel");
    }
    rep.case(stream, req, &model, &imp, nt, &sig);
}

fn req_urls(inputs: &[&str]) -> String {
    format!("urls {} {}", if DBG { 1 } else { 0 }, inputs.iter().map(|s| hexs(s)).collect::<Vec<_>>().join(" "))
}

// ---------------------------------------------------------------- generators
const X_SCHEMES: [&str; 12] = ["http", "https", "ws", "wss", "ftp", "file", "non-spec", "data", "blob", "HTTP", "about", "wS"];
const X_HOSTS: [&str; 13] = [
    "h", "example.com", "EXAMPLE.com", "1.2.3.4", "0x7f.1", "[::1]", "[1:2::3]", "[::1.2.3.4]", "xn--4db", "\u{5d0}.com", "b\u{fc}cher.de", "", "u:p@h",
];
const X_PORTS: [&str; 9] = ["", ":80", ":443", ":21", ":8080", ":0", ":65535", ":", ":080"];
const X_PATHS: [&str; 3] = ["", "/", "/x?q#f"];

fn blob_specials() -> Vec<&'static str> {
    vec![
        "blob:garbage", "blob:", "blob:/x", "blob://h/x", "blob:blob:", "blob: https://h/", "blob:ht\ttp://h/", "blob:HTTPS://H:443/",
        "blob:https://h/\"\"\"", "blob:blob:/\"\"\"", "blob:blob:blob:blob:https://h:443/x", "blob:https://h:443/x", "blob:blob:http://a/",
        "blob:https://h/ ", "blob:https://h/?q#f", "blob:https://h#f", "blob:?https://h/", "blob:#https://h/", "blob:file:///x",
        "blob:data:x", "blob:http://", "blob:http://@/", "blob:http://h:99999/", "blob:http://h:/", "blob:ws://h:80", "blob:wss://h:80",
        "blob:ftp://h:21", "blob:http://\u{5d0}.com/", "blob:http://xn--4db/", "blob:http://[::1]:8080/", "blob:http://1.2.3.4", "blob:%68ttp://h/",
        "blob:http:\\\\h\\x", "blob:http:h", "blob:http:/h", "BLOB:http://h/", "bLoB:BlOb:http://h/", "blob:blob :http://h", "blob:\u{e9}", "blob:blob:\u{e9}",
        "blob:http://h/\u{e9}", "blob:blob:blob:", "blob:blob:x:blob:http://h/", "blob:x:http://h/",
    ]
}

/// pool for the all-pairs stream: same / different scheme, host, effective port, blob wrappers, opaque kinds
fn pair_pool() -> Vec<&'static str> {
    vec![
        "http://h/", "http://h:80/a", "http://h:81/", "http://H/", "http://g/", "https://h/", "https://h:443/", "https://h:80/", "ws://h/", "ws://h:80/",
        "wss://h/", "wss://h:443/x", "ftp://h/", "ftp://h:21/", "ftp://h:80/", "http://1.2.3.4/", "http://0x1.2.0x3.4/", "http://[::1]/", "http://[0:0::1]:80/",
        "http://xn--4db/", "http://\u{5d0}/", "http://u:p@h/", "blob:http://h/", "blob:http://h:80/x", "blob:blob:http://h/", "blob:https://h/", "blob:x",
        "blob:x", "file:///a", "file:///a", "file://h/a", "data:x", "data:x", "non-spec://h/", "non-spec://h:80/", "about:blank", "http://h:65535/", "https://h:65535/",
        "http://example.com/", "http://EXAMPLE.com:80/", "https://example.com/", "blob:https://example.com:443/uuid", "blob:ws://h", "blob:wss://h:443",
        "http://127.0.0.1/", "http://[::ffff:127.0.0.1]/", "http://[::ffff:7f00:1]/", "http://[::127.0.0.1]/", "http://2130706433/", "https://example.com:80/", "http://example.com:443/",
        "blob:https%3A//example.com/", "blob:https://example.com%2F@evil.test/1234",
    ]
}

fn exhaustive<F: FnMut(&str, String)>(thorough: bool, mut f: F) -> String {
    for sch in X_SCHEMES {
        for host in X_HOSTS {
            for port in X_PORTS {
                for path in X_PATHS {
                    for depth in 0..4usize {
                        let mut s = "blob:".repeat(depth);
                        s.push_str(&format!("{}://{}{}{}", sch, host, port, path));
                        f("exh-grid", req_urls(&[&s]));
                    }
                }
            }
        }
    }
    for s in blob_specials() {
        f("exh-blob", req_urls(&[s]));
    }
    let pool = pair_pool();
    for i in 0..pool.len() {
        for j in i..pool.len() {
            f("exh-pairs", req_urls(&[pool[i], pool[j]]));
        }
    }
    if thorough {
        for i in (0..pool.len()).step_by(3) {
            for j in (i..pool.len()).step_by(2) {
                for k in (j..pool.len()).step_by(5) {
                    f("exh-triples", req_urls(&[pool[i], pool[j], pool[k]]));
                }
            }
        }
    }
    format!(
        "urls: {} schemes x {} host kinds x {} port kinds x {} path tails x blob nesting depth 0-3; {} blob edge inputs; all {} unordered pairs of a {}-URL pool",
        X_SCHEMES.len(), X_HOSTS.len(), X_PORTS.len(), X_PATHS.len(), blob_specials().len(), pool.len() * (pool.len() + 1) / 2, pool.len()
    )
}

const V_SCHEMES: [&str; 10] = ["http", "https", "ws", "wss", "ftp", "file", "foo", "", "HTTP", "blob"];
const V_PORTS: [u16; 9] = [80, 443, 21, 0, 1, 8080, 65535, 81, 8];
const V_DOMAINS: [&str; 14] = [
    "h", "example.com", "EXAMPLE.COM", "xn--4db", "xn--bcher-kva.de", "\u{5d0}.com", "b\u{fc}cher.de", "", "xn--", "xn--a", "a..b", "a b", "1.2.3.4", "XN--4DB.xn--4db",
];

fn gen_host_tok(rng: &mut Rng) -> String {
    match rng.below(6) {
        0 => format!("4{:x}", rng.next() as u32),
        1 => format!("4{:x}", [0u32, 1, 0x7f000001, 0x01020304, 0xffffffff][rng.below(5)]),
        2 => {
            let seg = |rng: &mut Rng| [0u32, 0, 0, 1, 0xffff, 0x102, 0xabcd][rng.below(7)];
            format!("6{}", hexl((0..8).map(|_| seg(rng)).collect::<Vec<_>>()))
        }
        _ => format!("d{}", hexb(ps2(rng, &V_DOMAINS).as_bytes())),
    }
}
fn ps2<'a>(rng: &mut Rng, xs: &[&'a str]) -> &'a str {
    xs[rng.below(xs.len())]
}
fn gen_oval(rng: &mut Rng) -> (String, String, String) {
    (hexb(ps2(rng, &V_SCHEMES).as_bytes()), gen_host_tok(rng), format!("{:x}", *rng.pick(&V_PORTS)))
}

fn gen_url_input(rng: &mut Rng) -> String {
    match rng.below(8) {
        0..=2 => random_url_string(rng),
        3 => format!("blob:{}", random_url_string(rng)),
        4 => format!("blob:blob:{}", random_url_string(rng)),
        5 => {
            // mostly-valid special URL with a port and a host kind
            format!(
                "{}{}://{}{}{}",
                ps2(rng, &["", "", "blob:", "blob:blob:"]),
                ps2(rng, &X_SCHEMES),
                ps2(rng, &X_HOSTS),
                ps2(rng, &X_PORTS),
                ps2(rng, &X_PATHS)
            )
        }
        6 => {
            let b = ps2(rng, &pair_pool());
            mutate_string(rng, b)
        }
        _ => {
            let b = ps2(rng, &blob_specials());
            mutate_string(rng, b)
        }
    }
}

// ---------------------------------------------------------------- crash canary (stack overflow cannot be caught)
/// run `Url::parse(s).origin()` for every input in a child process; returns the first input that kills it
fn canary(inputs: &[&str]) -> Option<String> {
    let exe = std::env::current_exe().ok()?;
    let run = |xs: &[&str]| -> bool {
        let mut c = std::process::Command::new(&exe);
        c.arg("--mode").arg("canary");
        for x in xs {
            c.arg(hexs(x));
        }
        c.stderr(std::process::Stdio::null()).stdout(std::process::Stdio::null());
        match c.status() {
            Ok(st) => st.success(),
            Err(_) => true,
        }
    };
    if run(inputs) {
        return None;
    }
    inputs.iter().find(|x| !run(&[**x])).map(|x| x.to_string())
}
fn canary_child(args: &Args) {
    for h in &args.extra {
        if let Ok(u) = Url::parse(&unhexs(h)) {
            let _ = std::panic::catch_unwind(move || u.origin());
        }
    }
}
fn canary_inputs() -> Vec<&'static str> {
    let mut v = blob_specials();
    v.extend(["http://h/", "file:///x", "data:x", "blob:blob:blob:blob:blob:blob:blob:blob:http://h/"]);
    v
}

// ---------------------------------------------------------------- correspondence
fn run_corr(args: &Args) -> Report {
    let mut rep = Report::new();
    let mut drv = Driver::spawn(&args.driver);
    let thorough = args.tier == "thorough";
    let mut rng = Rng::new(args.seed);

    if let Some(bad) = canary(&canary_inputs()) {
        // the model terminates (C16_fuel); the implementation did not survive this input
        let req = req_urls(&[&bad]);
        let model = match parse_inputs(&[&hexs(&bad)]) {
            Ok(us) => drv.ask_with(&format!("orig {} {}", if DBG { 1 } else { 0 }, url_token(&us[0])), c16_oracle),
            Err(_) => "noparse:0".into(),
        };
        rep.case("canary", &req, &model, "CRASH (process killed: stack overflow / abort)", true, "canary:crash");
        rep.notes.push(format!("Url::origin() kills the process on {:?}; the remaining streams were not run", bad));
        return rep;
    }

    // corpus
    if let Ok(txt) = std::fs::read_to_string(format!("{}/C16/cases.txt", args.file)) {
        for l in txt.lines().filter(|l| !l.is_empty() && !l.starts_with('#')) {
            compare(&mut drv, &mut rep, "corpus", l);
        }
    }

    // exhaustive small scope
    let scope = exhaustive(thorough, |stream, req| compare(&mut drv, &mut rep, stream, &req));
    rep.exhaustive.push(scope);

    // Origin values built by hand: serializations and equality
    for s in V_SCHEMES {
        for p in V_PORTS {
            for d in ["h", "xn--4db"] {
                compare(&mut drv, &mut rep, "exh-oval", &format!("oval {} d{} {:x}", hexb(s.as_bytes()), hexb(d.as_bytes()), p));
            }
        }
    }
    rep.exhaustive.push(format!("oval: {} schemes x {} ports x 2 domains", V_SCHEMES.len(), V_PORTS.len()));

    let n = if thorough { 400_000 } else { 25_000 };
    let mut recent: Vec<String> = vec![];
    for _ in 0..n {
        let s = gen_url_input(&mut rng);
        if Url::parse(&s).is_err() {
            rep.bump("gen:unparsable");
            continue;
        }
        compare(&mut drv, &mut rep, "rnd-url", &req_urls(&[&s]));
        if !recent.is_empty() && rng.chance(1, 2) {
            let t = recent[rng.below(recent.len())].clone();
            let v = if rng.chance(1, 4) { vec![s.as_str(), t.as_str(), s.as_str()] } else { vec![s.as_str(), t.as_str()] };
            compare(&mut drv, &mut rep, "rnd-pair", &req_urls(&v));
        }
        if recent.len() < 64 {
            recent.push(s);
        } else {
            let k = rng.below(64);
            recent[k] = s;
        }
    }
    for _ in 0..n / 4 {
        let (s, h, p) = gen_oval(&mut rng);
        compare(&mut drv, &mut rep, "rnd-oval", &format!("oval {} {} {}", s, h, p));
        let (s2, h2, p2) = if rng.chance(1, 3) { (s.clone(), h.clone(), p.clone()) } else { gen_oval(&mut rng) };
        let (s2, h2, p2) = match rng.below(6) {
            0 => (s.clone(), h2, p2),
            1 => (s2, h.clone(), p.clone()),
            2 => (s.clone(), h.clone(), p2),
            _ => (s2, h2, p2),
        };
        compare(&mut drv, &mut rep, "rnd-oeq", &format!("oeq {} {} {} {} {} {}", s, h, p, s2, h2, p2));
    }

    // premise sampling: the round-trip theorems (C16_rt_parsed, C16_rt_parsed_unicode) assume that the text
    // Display / ToUnicode produce for the host of a tuple origin parses back to that host (C09, C12).  Both
    // functions are answered by the real crates in the correspondence, so model and implementation cannot
    // disagree about them; the premise itself is evaluated on the implementation for a fixed host pool
    // (hyphen shapes, A-labels, digits, underscore, IPv4 spellings, IPv6) x the five schemes.
    {
        let hosts = [
            "example.com", "r3---sn-xyz.googlevideo.com", "ab--cd.example.com", "-leading.example.com", "trailing-.example.com",
            "a-.b-.c", "--", "xn--bcher-kva.example", "xn--4db.xn--4db", "xn--a-ecp.ru", "faß.de", "b\u{fc}cher.example", "\u{5d0}.\u{5d0}",
            "a_b.example", "1.2.3.4", "0x7f.1", "[::1]", "[1:0:0:2::3]", "a.b.", "xn--", "xn--a", "x..y", "a1.9z", "0.a",
        ];
        for h in hosts {
            for (sch, port) in [("https", ""), ("http", ":8080"), ("ws", ""), ("wss", ":1"), ("ftp", "")] {
                let s = format!("{}://{}{}/p", sch, h, port);
                if let Ok(u) = Url::parse(&s) {
                    let o = u.origin();
                    let mut verdict = String::from("premise holds");
                    if o.is_tuple() {
                        for (what, text) in [("ascii", o.ascii_serialization()), ("unicode", o.unicode_serialization())] {
                            match Url::parse(&text) {
                                Ok(w) if w.origin() == o => {}
                                Ok(w) => verdict = format!("the {} serialization {:?} parses to origin {:?}", what, text, w.origin()),
                                Err(e) => verdict = format!("the {} serialization {:?} does not parse ({})", what, text, e),
                            }
                        }
                    }
                    rep.case("premise-roundtrip", &req_urls(&[&s]), "premise holds", &verdict, true, if verdict == "premise holds" { "premise:ok" } else { "premise:violated" });
                }
            }
        }
    }

    // threaded creation; the "model" side is run on the schedule reconstructed from the observation and
    // predicts consecutive, pairwise distinct identities (C16_opaque)
    let k = if thorough { 20_000 } else { 1_000 };
    let rounds = if thorough { 6 } else { 2 };
    for _ in 0..rounds {
        for n in [2usize, 4, 16] {
            for via in [0u32, 1] {
                compare(&mut drv, &mut rep, "threads", &format!("threads {} {} {}", n, k / n.max(1) * 2, via));
            }
        }
    }
    rep.notes.push("threads stream: the only place the real atomic is exercised; a passing run exhibits no duplicate, it does not establish atomicity (assumed, see trusted_base)".into());
    rep
}

// ---------------------------------------------------------------- the property, evaluated on the implementation
#[derive(Clone, PartialEq, Debug)]
enum RefOrigin {
    Opaque,
    Tuple(String, Host<String>, u16),
}

/// reference computation written from the property text (its own default-port table, its own recursion)
fn ref_origin(u: &Url, depth: usize) -> RefOrigin {
    let dp = |s: &str| match s {
        "http" | "ws" => Some(80u16),
        "https" | "wss" => Some(443),
        "ftp" => Some(21),
        _ => None,
    };
    match u.scheme() {
        "blob" => {
            if depth > 10_000 {
                return RefOrigin::Opaque;
            }
            match Url::parse(u.path()) {
                Ok(v) => ref_origin(&v, depth + 1),
                Err(_) => RefOrigin::Opaque,
            }
        }
        s @ ("ftp" | "http" | "https" | "ws" | "wss") => match (u.host(), u.port().or(dp(s))) {
            (Some(h), Some(p)) => RefOrigin::Tuple(s.to_string(), h.to_owned(), p),
            _ => RefOrigin::Opaque,
        },
        _ => RefOrigin::Opaque,
    }
}

fn ref_serialization(s: &str, h: &str, p: u16) -> String {
    let dflt = matches!((s, p), ("http", 80) | ("ws", 80) | ("https", 443) | ("wss", 443) | ("ftp", 21));
    if dflt { format!("{}://{}", s, h) } else { format!("{}://{}:{}", s, h, p) }
}

fn property_urls(us: &[Url], inputs: &[String]) -> Option<String> {
    let us2 = us.to_vec();
    let os: Vec<Origin> = match std::panic::catch_unwind(move || us2.iter().map(|u| u.origin()).collect()) {
        Ok(v) => v,
        Err(_) => return Some(format!("Url::origin() panics for one of {:?}", inputs)),
    };
    let rs: Vec<RefOrigin> = us.iter().map(|u| ref_origin(u, 0)).collect();
    for i in 0..us.len() {
        match (&os[i], &rs[i]) {
            (Origin::Tuple(s, h, p), RefOrigin::Tuple(s2, h2, p2)) => {
                if s != s2 || h != h2 || p != p2 {
                    return Some(format!("origin of {:?} is ({:?}, {:?}, {}), the property says ({:?}, {:?}, {})", inputs[i], s, h, p, s2, h2, p2));
                }
                let a = os[i].ascii_serialization();
                if a != ref_serialization(s2, &h2.to_string(), *p2) {
                    return Some(format!("ascii_serialization of the origin of {:?} is {:?}, expected {:?}", inputs[i], a, ref_serialization(s2, &h2.to_string(), *p2)));
                }
                if !os[i].is_tuple() {
                    return Some(format!("is_tuple() is false for the tuple origin of {:?}", inputs[i]));
                }
                let uh = match h2 {
                    Host::Domain(d) => idna::domain_to_unicode(d).0,
                    other => other.to_string(),
                };
                let un = os[i].unicode_serialization();
                if un != ref_serialization(s2, &uh, *p2) {
                    return Some(format!("unicode_serialization of the origin of {:?} is {:?}, expected {:?}", inputs[i], un, ref_serialization(s2, &uh, *p2)));
                }
                for (what, text) in [("ascii", a), ("unicode", os[i].unicode_serialization())] {
                    // the known IDNA classes on the domain of the origin (excluded by host_known_free in C16_rt):
                    // F-C10-1 - the domain is not a ToASCII fixed point, neither serialization parses back;
                    // F-C12-1 (F-C16-1 at this level) - the Unicode form has a label xn--..., it does not parse back
                    if let Host::Domain(d) = h2 {
                        if known_c10_long_host(d) || (what == "unicode" && known_c12_host(d)) {
                            continue;
                        }
                    }
                    match Url::parse(&text) {
                        Ok(w) => {
                            if w.origin() != os[i] {
                                return Some(format!("round trip: the {} serialization {:?} of the origin of {:?} parses to a URL with origin {:?}", what, text, inputs[i], w.origin()));
                            }
                        }
                        Err(e) => return Some(format!("round trip: the {} serialization {:?} of the origin of {:?} does not parse ({})", what, text, inputs[i], e)),
                    }
                }
            }
            (Origin::Opaque(_), RefOrigin::Opaque) => {
                if os[i].is_tuple() || os[i].ascii_serialization() != "null" || os[i].unicode_serialization() != "null" {
                    return Some(format!("opaque origin of {:?}: is_tuple / serialization is not that of an opaque origin", inputs[i]));
                }
            }
            (o, r) => return Some(format!("origin of {:?} is {:?}, the property says {:?}", inputs[i], o, r)),
        }
    }
    for i in 0..us.len() {
        if os[i] != os[i] || os[i].clone() != os[i] {
            return Some(format!("the origin of {:?} is not equal to itself", inputs[i]));
        }
        for j in i + 1..us.len() {
            let want = match (&rs[i], &rs[j]) {
                (RefOrigin::Tuple(..), RefOrigin::Tuple(..)) => rs[i] == rs[j],
                _ => false,
            };
            if (os[i] == os[j]) != want || (os[j] == os[i]) != want {
                return Some(format!(
                    "origins of {:?} and {:?} compare {} but scheme/host/effective port are {}",
                    inputs[i], inputs[j],
                    if os[i] == os[j] { "equal" } else { "unequal" },
                    if want { "equal" } else { "not all equal (or one is opaque)" }
                ));
            }
        }
    }
    None
}

fn property_threads(n: usize, k: usize, via: u32) -> Option<String> {
    let (all, next) = run_threads(n, k, via);
    let mut seen: HashMap<u64, u32> = HashMap::new();
    for (t, id) in &all {
        if let Some(t0) = seen.insert(*id, *t) {
            return Some(format!("threads {} and {} both received the opaque identity {} ({} threads x {} creations)", t0, t, id, n, k));
        }
    }
    if seen.contains_key(&next) {
        return Some(format!("an origin created afterwards received the identity {} again", next));
    }
    None
}

fn property_of_request(req: &str) -> Option<String> {
    let w: Vec<&str> = req.split(' ').collect();
    match w[0] {
        "urls" if w.len() >= 3 => {
            let inputs: Vec<String> = w[2..].iter().map(|h| unhexs(h)).collect();
            match parse_inputs(&w[2..]) {
                Err(_) => None,
                Ok(us) => property_urls(&us, &inputs),
            }
        }
        "oval" if w.len() == 4 => {
            let o = tuple_of(w[1], w[2], w[3]);
            if let Origin::Tuple(s, h, p) = &o {
                let want = ref_serialization(s, &h.to_string(), *p);
                let got = match std::panic::catch_unwind(|| o.ascii_serialization()) {
                    Ok(g) => g,
                    Err(_) => return Some(format!("ascii_serialization panics on {:?}", o)),
                };
                if got != want {
                    return Some(format!("ascii_serialization of {:?} is {:?}, expected {:?}", o, got, want));
                }
                if !o.is_tuple() {
                    return Some(format!("is_tuple() false on {:?}", o));
                }
            }
            None
        }
        "oeq" if w.len() == 7 => {
            let (a, b) = (tuple_of(w[1], w[2], w[3]), tuple_of(w[4], w[5], w[6]));
            let want = w[1] == w[4] && format!("{:?}", host_from_tok_bytes(w[2])) == format!("{:?}", host_from_tok_bytes(w[5])) && u16::from_str_radix(w[3], 16).ok() == u16::from_str_radix(w[6], 16).ok();
            if (a == b) != want {
                Some(format!("{:?} == {:?} is {}, but scheme/host/port are {}", a, b, a == b, if want { "equal" } else { "not all equal" }))
            } else {
                None
            }
        }
        "threads" if w.len() == 4 => property_threads(w[1].parse().unwrap_or(2), w[2].parse().unwrap_or(1), w[3].parse().unwrap_or(0)),
        _ => None,
    }
}

fn run_search(args: &Args) -> Report {
    let mut rep = Report::new();
    let mut rng = Rng::new(args.seed ^ 0x5EA4C4);
    let thorough = args.tier == "thorough";
    if let Some(bad) = canary(&canary_inputs()) {
        rep.evaluations += 1;
        rep.failures.push((req_urls(&[&bad]), format!("Url::origin() does not return on {:?}: the process is killed (unbounded recursion / stack overflow)", bad)));
        return rep;
    }
    let try_req = |rep: &mut Report, req: String| {
        rep.evaluations += 1;
        if rep.failures.len() < 20 {
            if let Some(w) = property_of_request(&req) {
                rep.failures.push((req, w));
            }
        }
    };
    if let Ok(txt) = std::fs::read_to_string(&args.file) {
        for l in txt.lines().filter(|l| !l.is_empty()) {
            try_req(&mut rep, l.to_string());
        }
    }
    exhaustive(false, |_, req| try_req(&mut rep, req));
    for s in V_SCHEMES {
        for p in V_PORTS {
            try_req(&mut rep, format!("oval {} d68 {:x}", hexb(s.as_bytes()), p));
            for s2 in V_SCHEMES {
                try_req(&mut rep, format!("oeq {} d68 {:x} {} d68 {:x}", hexb(s.as_bytes()), p, hexb(s2.as_bytes()), p));
            }
        }
    }
    for _ in 0..100_000 {
        if rep.failures.len() >= 20 {
            break;
        }
        let s = gen_url_input(&mut rng);
        let t = gen_url_input(&mut rng);
        if Url::parse(&s).is_ok() && Url::parse(&t).is_ok() {
            try_req(&mut rep, req_urls(&[&s, &t]));
        } else if Url::parse(&s).is_ok() {
            try_req(&mut rep, req_urls(&[&s]));
        }
        let (a, b, c) = gen_oval(&mut rng);
        try_req(&mut rep, format!("oval {} {} {}", a, b, c));
    }
    // the threaded stress: the only way to observe a lost update on the real counter
    let rounds = if thorough { 400 } else { 60 };
    for r in 0..rounds {
        if rep.failures.iter().any(|(c, _)| c.starts_with("threads")) {
            break;
        }
        for n in [16usize, 4, 2] {
            try_req(&mut rep, format!("threads {} {} {}", n, 20_000, r % 2));
        }
    }
    // prefer the shortest failing request, but keep a threads witness first if there is one
    rep.failures.sort_by_key(|(c, _)| (!c.starts_with("threads"), c.len()));
    rep
}

/// Known_C12 (F-C12-1) on the domain of an origin: some label of the text origin.rs displays begins with "xn--"
fn known_c12_host(d: &str) -> bool {
    let dd = d.to_string();
    match std::panic::catch_unwind(move || idna::domain_to_unicode(&dd).0) {
        Ok(t) => t.split('.').any(|l| l.starts_with("xn--")),
        Err(_) => false,
    }
}
/// Known_C10_long (F-C10-1) on the domain of an origin: a label xn-- followed by more than 2000 bytes
fn known_c10_long_host(d: &str) -> bool {
    d.split('.').any(|l| {
        let b = l.as_bytes();
        b.len() > 4 + 2000 && b[..4].eq_ignore_ascii_case(b"xn--")
    })
}

fn run_known(_args: &Args) -> Report {
    let mut rep = Report::new();
    // F-C16-1 (F-C12-1 at the level of origins): the Unicode serialization of the origin of
    // https://xn--xn--ss-ztda/ is https://xn--<U+02EF><U+02EF>ss, which Url::parse rejects
    {
        let r = std::panic::catch_unwind(|| {
            let u = Url::parse("https://xn--xn--ss-ztda/").map_err(|e| format!("{}", e))?;
            let o = u.origin();
            let a = o.ascii_serialization();
            let un = o.unicode_serialization();
            let host = u.host_str().unwrap_or("").to_string();
            Ok::<_, String>((
                a.clone(),
                un.clone(),
                Url::parse(&a).map(|w| w.origin() == o).map_err(|e| format!("{}", e)),
                Url::parse(&un).map(|w| w.origin() == o).map_err(|e| format!("{}", e)),
                known_c12_host(&host),
            ))
        });
        let (reproduces, observed) = match r {
            Ok(Ok((a, un, ra, ru, k))) => (
                a == "https://xn--xn--ss-ztda" && un == "https://xn--\u{2ef}\u{2ef}ss" && ra == Ok(true) && ru.is_err() && k,
                format!("ascii {:?} -> same origin: {:?}; unicode {:?} -> same origin: {:?}; in class Known_C12: {}", a, ra, un, ru, k),
            ),
            Ok(Err(e)) => (false, format!("Url::parse(https://xn--xn--ss-ztda/) = Err({})", e)),
            Err(_) => (false, "panic".into()),
        };
        rep.known.push(("F-C16-1".into(), reproduces, observed));
    }
    // F-C10-1 at the level of origins: neither serialization of the origin of http://<1000 ideographs>/ parses back
    {
        let r = std::panic::catch_unwind(|| {
            let host: String = (0..1000u32).map(|i| char::from_u32(0x4E00 + 20 * i).unwrap()).collect();
            let u = Url::parse(&format!("http://{}/", host)).map_err(|e| format!("{}", e))?;
            let o = u.origin();
            let a = o.ascii_serialization();
            let un = o.unicode_serialization();
            Ok::<_, String>((
                a.len(),
                Url::parse(&a).map(|w| w.origin() == o).map_err(|e| format!("{}", e)),
                Url::parse(&un).map(|w| w.origin() == o).map_err(|e| format!("{}", e)),
                known_c10_long_host(u.host_str().unwrap_or("")),
            ))
        });
        let (reproduces, observed) = match r {
            Ok(Ok((n, ra, ru, k))) => (
                ra.is_err() && k,
                format!("origin of http://<1000 ideographs>/: ascii serialization of {} bytes -> same origin: {:?}; unicode serialization -> same origin: {:?}; in class Known_C10_long: {}", n, ra, ru, k),
            ),
            Ok(Err(e)) => (false, format!("Url::parse(http://<1000 ideographs>/) = Err({})", e)),
            Err(_) => (false, "panic".into()),
        };
        rep.known.push(("F-C10-1".into(), reproduces, observed));
    }
    rep
}

fn run_replay(args: &Args) -> Report {
    let mut rep = Report::new();
    let txt = std::fs::read_to_string(&args.file).unwrap_or_default();
    let req = txt.split("\"request\":").nth(1).and_then(|s| s.split('"').nth(1)).unwrap_or("").to_string();
    if req.is_empty() {
        rep.notes.push("replay file has no request (no-failing-input-found replay): nothing to re-run".into());
        return rep;
    }
    rep.notes.push(format!("request: {}", req));
    let w: Vec<&str> = req.split(' ').collect();
    if w[0] == "urls" {
        let inputs: Vec<String> = w[2..].iter().map(|h| unhexs(h)).collect();
        rep.notes.push(format!("inputs: {:?}", inputs));
        let refs: Vec<&str> = inputs.iter().map(|s| s.as_str()).collect();
        if let Some(bad) = canary(&refs) {
            rep.notes.push(format!("implementation: process killed on {:?}", bad));
            rep.failures.push((req, format!("Url::origin() does not return on {:?} (stack overflow)", bad)));
            rep.evaluations = 1;
            return rep;
        }
    }
    if !args.driver.is_empty() {
        let mut drv = Driver::spawn(&args.driver);
        let (m, i) = both(&mut drv, &req);
        rep.notes.push(format!("implementation: {}", i));
        rep.notes.push(format!("model: {}", m));
    }
    rep.evaluations = 1;
    if let Some(w) = property_of_request(&req) {
        rep.failures.push((req, w));
    }
    rep
}

fn main() {
    quiet_panics();
    let args = parse_args();
    let rep = match args.mode.as_str() {
        "canary" => {
            canary_child(&args);
            return;
        }
        "corr" => run_corr(&args),
        "search" => run_search(&args),
        "known" => run_known(&args),
        "replay" => run_replay(&args),
        m => panic!("unknown mode {}", m),
    };
    finish(&args, &rep);
}
