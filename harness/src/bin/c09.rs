//! C09 - host parsing and serialization: correspondence model <-> url::Host, property search, replay.
//!
//! Requests (every string field is the dot-separated hex list of its code points, `-` = empty):
//!   parse <input>    Host::parse(input); Display of the result; Host::parse of that text
//!   opaque <input>   the same with Host::parse_opaque
//!   disp <host>      Display of a constructed Host (`6:<8 pieces>`, `4:<u32>`, `D:<text>`), then
//!                    Host::parse and Host::parse_opaque of the text
//! Canonical results: `ok:6:<pieces>` | `ok:4:<u32>` | `ok:D:<text>` | `err:<ParseError variant>` | `PANIC`.
//! The model asks `Q idna <bytes>`; the harness answers with idna::domain_to_ascii_cow(bytes, URL)
//! exactly as host.rs calls it.
use std::net::{Ipv4Addr, Ipv6Addr};
use url::Host;
use verif_harness::*;

// ---------------------------------------------------------------- canonical printing
fn show_host(h: &Host<String>) -> String {
    match h {
        Host::Domain(d) => format!("D:{}", hexs(d)),
        Host::Ipv4(a) => format!("4:{:x}", u32::from(*a)),
        Host::Ipv6(a) => format!("6:{}", hexl(a.segments().iter().map(|&x| x as u32))),
    }
}
fn show_res(r: &Result<Host<String>, url::ParseError>) -> String {
    match r {
        Ok(h) => format!("ok:{}", show_host(h)),
        Err(e) => format!("err:{:?}", e),
    }
}
fn read_host(s: &str) -> Host<String> {
    let (tag, arg) = s.split_at(2);
    match tag {
        "D:" => Host::Domain(unhexs(arg)),
        "4:" => Host::Ipv4(Ipv4Addr::from(u32::from_str_radix(arg, 16).unwrap())),
        _ => {
            let v = unhexl(arg);
            Host::Ipv6(Ipv6Addr::new(
                v[0] as u16, v[1] as u16, v[2] as u16, v[3] as u16, v[4] as u16, v[5] as u16, v[6] as u16, v[7] as u16,
            ))
        }
    }
}

/// Rust twin of known_c10_long (coq/Proofs/C09_Long.v) = Known_C10_long (coq/Proofs/Idna_C10b_Long.v), finding
/// F-C10-1: some dot-separated label starts with xn-- (any case of x and n) and has more than 2000
/// (PUNYCODE_DECODE_MAX_INPUT_LENGTH) bytes after it.  ToASCII can return such a name (a label of at most 1000
/// scalar values) and always rejects it; Host::parse then returns a Domain whose Display text it does not parse.
fn known_c10_long(d: &str) -> bool {
    d.split('.').any(|l| {
        let b = l.as_bytes();
        b.len() > 2004 && (b[0] | 0x20) == b'x' && (b[1] | 0x20) == b'n' && b[2] == b'-' && b[3] == b'-'
    })
}
/// the F-C10-1 witness at host level: one label of the 1000 ideographs U+4E00 + 20*i
fn long_host() -> String {
    (0..1000u32).map(|i| char::from_u32(0x4E00 + 20 * i).unwrap()).collect()
}

// sampling of the IdnaOK2 premise (coq/Proofs/C09_Long.v) on the real crate (reported as a note, never as a
// mismatch): every answer is lower-case ASCII outside the deny list, and - OUTSIDE the class Known_C10_long - a fixed
// point of the oracle.  IdnaOK itself (fixed point on all answers) is false of the crate: F-C10-1.  Answers inside the
// class are counted; that the crate rejects them (C10_long_rejected) is sampled too.
static IDNA_ANSWERS: std::sync::atomic::AtomicU64 = std::sync::atomic::AtomicU64::new(0);
static IDNA_NOT_OK: std::sync::atomic::AtomicU64 = std::sync::atomic::AtomicU64::new(0);
static IDNA_IN_CLASS: std::sync::atomic::AtomicU64 = std::sync::atomic::AtomicU64::new(0);
static IDNA_FIRST_BAD: std::sync::Mutex<Option<String>> = std::sync::Mutex::new(None);

fn idna_ok_sample(out: &str) {
    use std::sync::atomic::Ordering::Relaxed;
    IDNA_ANSWERS.fetch_add(1, Relaxed);
    let chars_ok = out.chars().all(|c| c.is_ascii() && !c.is_ascii_uppercase() && !spec::forbidden_domain(c));
    let again = idna::domain_to_ascii_cow(out.as_bytes(), idna::AsciiDenyList::URL);
    let in_class = known_c10_long(out);
    if in_class {
        IDNA_IN_CLASS.fetch_add(1, Relaxed);
    }
    // outside the class: a fixed point; inside: rejected
    let fixed = if in_class { again.is_err() } else { again.map(|c| c == out).unwrap_or(false) };
    if !(chars_ok && fixed) {
        IDNA_NOT_OK.fetch_add(1, Relaxed);
        let mut g = IDNA_FIRST_BAD.lock().unwrap();
        if g.is_none() {
            let shown: String = out.chars().take(80).collect();
            *g = Some(format!("{:?} (chars_ok={}, in_class={}, fixed_point_or_rejected={})", shown, chars_ok, in_class, fixed));
        }
    }
}

fn idna_oracle(name: &str, arg: &str) -> String {
    if name != "idna" {
        return "~".into();
    }
    let bytes = unhexb(arg);
    match std::panic::catch_unwind(move || idna::domain_to_ascii_cow(&bytes, idna::AsciiDenyList::URL).map(|c| c.into_owned())) {
        Ok(Ok(s)) => {
            idna_ok_sample(&s);
            hexs(&s)
        }
        _ => "~".into(),
    }
}

// ---------------------------------------------------------------- implementation side
fn impl_with_rt(opaque: bool, s: &str) -> String {
    let s = s.to_string();
    guarded(move || {
        let p = |x: &str| if opaque { Host::parse_opaque(x) } else { Host::parse(x) };
        let r = p(&s);
        match &r {
            Ok(h) => {
                let d = h.to_string();
                format!("{} {} {}", show_res(&r), hexs(&d), show_res(&p(&d)))
            }
            Err(_) => format!("{} ~ ~", show_res(&r)),
        }
    })
}
fn impl_disp(h: &str) -> String {
    let h = h.to_string();
    guarded(move || {
        let host = read_host(&h);
        let d = host.to_string();
        format!("{} {} {}", hexs(&d), show_res(&Host::parse(&d)), show_res(&Host::parse_opaque(&d)))
    })
}
fn impl_request(req: &str) -> String {
    let w: Vec<&str> = req.split(' ').collect();
    match (w[0], w.len()) {
        ("parse", 2) => impl_with_rt(false, &unhexs(w[1])),
        ("opaque", 2) => impl_with_rt(true, &unhexs(w[1])),
        ("parse_r", 2) => guarded({
            let s = unhexs(w[1]);
            move || show_res(&Host::parse(&s))
        }),
        ("opaque_r", 2) => guarded({
            let s = unhexs(w[1]);
            move || show_res(&Host::parse_opaque(&s))
        }),
        ("disp", 2) => impl_disp(w[1]),
        // the Coq specification model against the transcription in mod spec (both from the Standard's prose)
        ("mvs6", 2) | ("mvs4", 2) => "1".into(),
        ("spec6", 2) => match spec::ipv6(&unhexs(w[1])) {
            Some(a) => format!("ok:{}", hexl(a.iter().map(|&x| x as u32))),
            None => "fail".into(),
        },
        ("specser", 2) => {
            let v = unhexl(w[1]);
            let mut a = [0u16; 8];
            for i in 0..8 {
                a[i] = v[i] as u16;
            }
            hexs(&spec::ser_ipv6(&a))
        }
        ("spec4", 2) => {
            let s = unhexs(w[1]);
            format!(
                "{} {}",
                match spec::ipv4(&s) {
                    Some(a) => format!("ok:{:x}", a),
                    None => "fail".into(),
                },
                if spec::ends_in_number(&s) { "1" } else { "0" }
            )
        }
        _ => "?".into(),
    }
}

fn signature(req: &str, out: &str) -> (bool, String) {
    let w: Vec<&str> = req.split(' ').collect();
    let o: Vec<&str> = out.split(' ').collect();
    let class = |r: &str| -> String {
        if let Some(rest) = r.strip_prefix("ok:") {
            format!("ok{}", &rest[..1])
        } else {
            r.to_string()
        }
    };
    match w[0] {
        "parse" | "opaque" => {
            let s = unhexs(w[1]);
            let feat = format!(
                "{}{}{}{}{}",
                if s.starts_with('[') { "[" } else { "" },
                if s.contains("::") { "c" } else { "" },
                if s.contains('%') { "%" } else { "" },
                if s.contains('.') { format!(".{}", s.matches('.').count().min(5)) } else { String::new() },
                if s.contains("0x") || s.contains("0X") { "x" } else { "" },
            );
            let rt = if o.len() == 3 && o[2] != "~" { if o[0] == o[2] { "rt=" } else { "rt!" } } else { "" };
            (!s.is_empty(), format!("{}:{}:{}:{}", w[0], class(o[0]), feat, rt))
        }
        "disp" => {
            let kind = &w[1][..1];
            let extra = if kind == "6" {
                let v = unhexl(&w[1][2..]);
                let zeros: String = v.iter().map(|&x| if x == 0 { '0' } else { '1' }).collect();
                zeros
            } else {
                String::new()
            };
            (true, format!("disp:{}:{}:{}:{}", kind, extra, class(o.get(1).copied().unwrap_or("")), class(o.get(2).copied().unwrap_or(""))))
        }
        other => (true, other.to_string()),
    }
}

fn compare(drv: &mut Driver, rep: &mut Report, stream: &str, req: &str) {
    let model = drv.ask_with(req, idna_oracle);
    let imp = impl_request(req);
    let (nt, sig) = signature(req, &imp);
    rep.case(stream, req, &model, &imp, nt, &sig);
}

// ---------------------------------------------------------------- generators
const CORPUS: &[&str] = &[
    "", "a", "example.com", "EXAMPLE.COM", "ex%41mple.com", "%30x10", "%2e", "a%2eb", "%2E%2e", "foo.09", "foo.0x", "foo.0X",
    "1.2.3.4.5", "0x", "0X", "1.2..3", "1.2.3.", "1.2.3..", ".", "..", "a.", "a..", "1.", "1..", "09", "08", "0", "00", "000",
    "0x0", "0xg", "0x1g", "1e3", "4294967295", "4294967296", "0xffffffff", "0x100000000", "037777777777", "040000000000",
    "1.16777215", "1.16777216", "1.2.65535", "1.2.65536", "256.1", "255.1", "1.2.3.256", "1.2.3.255", "0x7f.1", "0177.1",
    "0x.0x.0x.0x", "1.2.3.4.", "1.2.3.4..", "a.1", "a.1.", "1.a", "1.2.3.04", "1.2.3.08", "1.2.3.0x", "99999999999999999999",
    "0x99999999999999999", "1.99999999999999999999", "99999999999999999999.1", "1.2.3.4294967296", "+1", "-1", "1.+2",
    "\u{ff10}", "\u{ff11}.\u{ff12}", "0\u{ff58}10", "\u{ff10}x10", "1\u{3002}2", "a\u{ad}b", "\u{ad}", "xn--", "xn--a", "xn--nxasmq6b",
    "faß.de", "ß", "σ", "ς", "ǅ", "é", "e\u{301}", "\u{200d}", "a\u{200c}b", "א.1", "1a.א", "a b", "a\tb", "a#b", "a/b", "a:b", "a<b",
    "a>b", "a?b", "a@b", "a[b", "a\\b", "a]b", "a^b", "a|b", "a%b", "a%25b", "a%00b", "a%20b", "%", "%4", "%zz", "%41", "a\u{7f}b",
    "a\u{0}b", "a\u{1}b", "a\u{1f}b", "\u{80}", "\u{9f}", "%80", "%ff", "%c3%a9", "%c3", "%e0%80", "%ed%a0%80", "%f4%90%80%80",
    "[", "]", "[]", "[:]", "[::]", "[::1]", "[1::]", "[:1]", "[1:]", "[1]", "[1:2:3:4:5:6:7:8]", "[1:2:3:4:5:6:7:8:9]", "[1:2:3:4:5:6:7]",
    "[1:2:3:4:5:6:7::]", "[::2:3:4:5:6:7:8]", "[1::3:4:5:6:7:8]", "[1:2:3:4:5:6::8]", "[1:2:3:4:5:6:7:8::]", "[::1:2:3:4:5:6:7:8]",
    "[1::2::3]", "[:::]", "[::1.2.3.4]", "[::1.2.3]", "[::1.2.3.4.5]", "[::01.2.3.4]", "[::1.2.3.256]", "[::1.2.3.255]", "[::.1.2.3]",
    "[::1..2.3]", "[::1.2.3.]", "[1:2:3:4:5:6:1.2.3.4]", "[1:2:3:4:5:6:7:1.2.3.4]", "[1:2:3:4:5:1.2.3.4]", "[1:2:3:4:5::1.2.3.4]",
    "[::ffff:1.2.3.4]", "[::FFFF:1.2.3.4]", "[1.2.3.4]", "[1.2.3.4::]", "[::1.2.3.4:5]", "[12345::]", "[0001::]", "[00001::]", "[g::]",
    "[::g]", "[ABCD::ef01]", "[::%31]", "[::1]x", "x[::1]", "[::1", "::1]", "[[::1]]", "[::1]]", "[é]", "[::é]", "[::1 ]", "[ ::1]",
    "[0:0:0:0:0:0:0:0]", "[0:0:0:0:0:0:0:1]", "[1:0:0:0:0:0:0:0]", "[1:0:0:2:0:0:0:3]", "[1:0:0:0:2:0:0:3]", "[0:0:1:0:0:1:0:0]",
    "[0:1:0:1:0:1:0:1]", "[::0.0.0.0]", "[::255.255.255.255]", "[::00.0.0.0]", "[::0.00.0.0]", "[::1.2.3.4x]", "[1:2:3:4:5:6:7:8%en0]",
    "localhost", "LOCALHOST", "a.b.c.d.e.f", "a_b", "a-b", "-", "--", "a~b", "a!b", "a$b", "a&b", "a'b", "a(b", "a)b", "a*b", "a+b",
    "a,b", "a;b", "a=b", "a\"b", "a`b", "a{b", "a}b",
];

const HOST_ALPHABET: &[&str] = &[
    "a", "A", "0", "9", "7", "8", "x", "X", "f", "g", ".", ":", "[", "]", "%", "@", " ", "/", "-", "\t", "é", "\u{ff10}", "\u{3002}",
    "\u{ad}", "\u{7f}",
];
const HOST_ALPHABET_SMALL: &[&str] = &["a", "0", "8", "x", ".", ":", "[", "]", "%", "1", "é", "\u{ff10}"];
const V6_TOKENS: &[&str] = &["0", "1", "f", "F", ":", "::", ".", "255", "256", "g"];
const V6_TOKENS_SMALL: &[&str] = &["1", ":", "::", ".", "255"];

#[derive(Clone, Copy, PartialEq)]
enum Radix {
    Dec,
    Oct,
    Hex,
    HexUpper,
}
fn spell(v: u64, r: Radix) -> String {
    match r {
        Radix::Dec => format!("{}", v),
        Radix::Oct => format!("0{:o}", v),
        Radix::Hex => format!("0x{:x}", v),
        Radix::HexUpper => format!("0X{:X}", v),
    }
}
/// the boundary values of position `pos` (0-based) of an address with `n` parts
fn boundary(n: usize, pos: usize) -> Vec<u64> {
    let max: u64 = if pos + 1 == n { if n >= 5 { 255 } else { 256u64.pow((5 - n) as u32) - 1 } } else { 255 };
    vec![0, 1, max - 1, max, max + 1]
}
fn ipv4_spellings(n: usize, pos: usize, full: bool) -> Vec<String> {
    let b = boundary(n, pos);
    let mut out = Vec::new();
    if full {
        for r in [Radix::Dec, Radix::Oct, Radix::Hex, Radix::HexUpper] {
            for &v in &b {
                out.push(spell(v, r));
            }
        }
    } else {
        out.push(spell(b[3], Radix::Dec));
        out.push(spell(b[4], Radix::Hex));
        out.push(spell(b[1], Radix::Oct));
        out.push(spell(b[0], Radix::HexUpper));
        out.push(spell(b[4], Radix::Dec));
        out.push(spell(b[3], Radix::Oct));
    }
    out
}
fn for_all_ipv4<F: FnMut(&str)>(n: usize, full: bool, f: &mut F) {
    let choices: Vec<Vec<String>> = (0..n).map(|p| ipv4_spellings(n, p, full)).collect();
    let mut idx = vec![0usize; n];
    loop {
        let parts: Vec<&str> = (0..n).map(|p| choices[p][idx[p]].as_str()).collect();
        let s = parts.join(".");
        f(&s);
        f(&format!("{}.", s));
        let mut k = n;
        loop {
            if k == 0 {
                return;
            }
            k -= 1;
            idx[k] += 1;
            if idx[k] < choices[k].len() {
                break;
            }
            idx[k] = 0;
        }
    }
}

fn zero_pattern_hosts() -> Vec<String> {
    let mut out = Vec::new();
    for pat in 0u32..256 {
        for v in [1u32, 0xabcd, 0xffff] {
            let pieces: Vec<u32> = (0..8).map(|i| if pat >> (7 - i) & 1 == 1 { v } else { 0 }).collect();
            out.push(format!("6:{}", hexl(pieces)));
        }
    }
    out
}

fn random_pieces(rng: &mut Rng) -> [u16; 8] {
    let mut p = [0u16; 8];
    let zero_bias = rng.below(4);
    for x in p.iter_mut() {
        *x = if rng.below(4) < zero_bias {
            0
        } else {
            match rng.below(5) {
                0 => rng.below(16) as u16,
                1 => rng.below(256) as u16,
                2 => rng.below(4096) as u16,
                _ => rng.next() as u16,
            }
        };
    }
    p
}
fn random_ipv4_text(rng: &mut Rng) -> String {
    let n = 1 + rng.below(5);
    let parts: Vec<String> = (0..n)
        .map(|p| {
            let v: u64 = match rng.below(6) {
                0 => *rng.pick(&boundary(n.min(4), p.min(3))),
                1 => rng.below(256) as u64,
                2 => rng.next() & 0xffff_ffff,
                3 => rng.next() >> rng.below(40),
                4 => rng.below(70000) as u64,
                _ => rng.below(10) as u64,
            };
            let mut s = spell(v, *rng.pick(&[Radix::Dec, Radix::Dec, Radix::Oct, Radix::Hex, Radix::HexUpper]));
            if rng.chance(1, 12) {
                s.insert(0, '0');
            }
            if rng.chance(1, 20) {
                s.push(*rng.pick(&['8', '9', 'a', 'g', 'x']));
            }
            s
        })
        .collect();
    let mut s = parts.join(".");
    if rng.chance(1, 4) {
        s.push('.');
    }
    if rng.chance(1, 10) {
        s = format!("{}.{}", rng.pick(&["a", "foo", "xn--a", "é"]), s);
    }
    s
}
fn random_ipv6_text(rng: &mut Rng) -> String {
    let p = random_pieces(rng);
    let mut s = match rng.below(4) {
        0 => Ipv6Addr::from(p).to_string(),
        1 => p.iter().map(|x| format!("{:x}", x)).collect::<Vec<_>>().join(":"),
        2 => p.iter().map(|x| format!("{:04X}", x)).collect::<Vec<_>>().join(":"),
        _ => Host::<String>::Ipv6(Ipv6Addr::from(p)).to_string().trim_matches(|c| c == '[' || c == ']').to_string(),
    };
    if rng.chance(1, 4) {
        // embedded IPv4 tail
        let k = rng.below(7);
        let head: Vec<String> = p.iter().take(k).map(|x| format!("{:x}", x)).collect();
        let tail = format!("{}.{}.{}.{}", rng.below(300), rng.below(256), rng.below(256), rng.below(256));
        s = if k == 6 { format!("{}:{}", head.join(":"), tail) } else { format!("{}::{}", head.join(":"), tail) };
    }
    format!("[{}]", s)
}
const ATOMS: &[&str] = &[
    "a", "b", "example", "EXAMPLE", "xn--nxasmq6b", "xn--", "faß", "é", "e\u{301}", "日本", "\u{ff10}", "\u{ff11}\u{ff12}", "\u{3002}", ".",
    "..", "-", "_", "0", "1", "08", "0x1", "0X", "255", "256", "%41", "%2e", "%2E", "%30", "%78", "%", "%c3%a9", "%ff", "%00", "%20",
    "\u{ad}", "\u{200d}", "\u{200c}", "א", "ب", " ", "\t", "#", "/", ":", "@", "[", "]", "\\", "^", "|", "<", ">", "?", "\u{7f}", "\u{0}",
];
fn random_domain(rng: &mut Rng) -> String {
    let n = 1 + rng.below(5);
    let mut s = String::new();
    for i in 0..n {
        if i > 0 && rng.chance(3, 4) {
            s.push('.');
        }
        // mostly the well-behaved atoms
        let a = if rng.chance(3, 4) { ATOMS[rng.below(34)] } else { *rng.pick(ATOMS) };
        s.push_str(a);
    }
    if rng.chance(1, 6) {
        s.push('.');
    }
    if rng.chance(1, 5) {
        s.push_str(&format!(".{}", random_ipv4_text(rng)));
    }
    s
}
fn mutate(rng: &mut Rng, s: &str) -> String {
    let mut cs: Vec<char> = s.chars().collect();
    let k = 1 + rng.below(3);
    for _ in 0..k {
        let pos = rng.below(cs.len() + 1);
        let c = *rng.pick(&[':', '.', '0', '1', 'f', 'F', 'g', 'x', 'X', '%', '[', ']', ' ', '8', '9', '2', '5', '6', 'é', '\u{ff10}', '-', '@', '/']);
        match rng.below(4) {
            0 => cs.insert(pos, c),
            1 if !cs.is_empty() => {
                cs.remove(pos.min(cs.len() - 1));
            }
            2 if !cs.is_empty() => {
                let p = pos.min(cs.len() - 1);
                let d = cs[p];
                cs.insert(p, d);
            }
            _ if !cs.is_empty() => {
                let p = pos.min(cs.len() - 1);
                cs[p] = c;
            }
            _ => cs.push(c),
        }
    }
    cs.into_iter().collect()
}

/// every generated request, in stream order: f(stream, request)
fn streams<F: FnMut(&str, String)>(args_tier: &str, seed: u64, exhaustive_notes: &mut Vec<String>, f: &mut F) {
    let thorough = args_tier == "thorough";
    let mut rng = Rng::new(seed);

    for s in CORPUS {
        f("corpus", format!("parse {}", hexs(s)));
        f("corpus", format!("opaque {}", hexs(s)));
    }

    // exhaustive: 256 zero patterns x 3 piece values through write / parse
    for h in zero_pattern_hosts() {
        f("exh-zero-patterns", format!("disp {}", h));
    }
    exhaustive_notes.push("disp: all 256 zero/non-zero patterns of the eight IPv6 groups x piece values {1, 0xabcd, 0xffff}".into());

    // exhaustive: IPv4 part counts x radix x boundary values x trailing dot
    for n in 1..=5usize {
        let full = n <= 3 || (thorough && n == 4);
        for_all_ipv4(n, full, &mut |s| f("exh-ipv4", format!("parse {}", hexs(s))));
    }
    exhaustive_notes.push(format!(
        "parse: IPv4 spellings with 1-5 parts, each part over radix {{dec, 0-octal, 0x, 0X}} x {{0, 1, max-1, max, max+1}} of its position (full cross product for <= {} parts, six spellings per part beyond), with and without trailing dot",
        if thorough { 4 } else { 3 }
    ));
    // every 32-bit boundary as a single dotted-decimal display
    for a in [0u32, 1, 255, 256, 65535, 65536, 16777215, 16777216, 0x7f000001, 0xffffffff, 0x01020304, 0x0a000001, 0x64656667] {
        f("exh-ipv4", format!("disp 4:{:x}", a));
    }

    // exhaustive: single characters and pairs over the host class alphabet
    for c in 0u32..128 {
        f("exh-single-ascii", format!("parse {:x}", c));
        f("exh-single-ascii", format!("opaque {:x}", c));
        f("exh-single-ascii", format!("parse 61.{:x}.62", c));
        f("exh-single-ascii", format!("opaque 61.{:x}.62", c));
    }
    for_all_strings(HOST_ALPHABET, 2, |s| {
        let t: String = s.concat();
        f("exh-host-classes", format!("parse {}", hexs(&t)));
        f("exh-host-classes", format!("opaque {}", hexs(&t)));
    });
    let k = if thorough { 5 } else { 4 };
    for_all_strings(HOST_ALPHABET_SMALL, k, |s| {
        let t: String = s.concat();
        f("exh-host-classes", format!("parse {}", hexs(&t)));
        if s.len() <= 3 {
            f("exh-host-classes", format!("opaque {}", hexs(&t)));
        }
    });
    exhaustive_notes.push(format!(
        "parse + opaque: all 128 single ASCII characters (alone and inside a_b); all strings of length <= 2 over a 25-symbol host class alphabet; parse: all strings of length <= {} over {{a,0,8,x,.,:,[,],%,1,e-acute,U+FF10}}",
        k
    ));

    // exhaustive: IPv6 token strings
    let k6 = if thorough { 6 } else { 5 };
    for_all_strings(V6_TOKENS, k6, |s| {
        let t: String = s.concat();
        f("exh-ipv6-tokens", format!("parse {}", hexs(&format!("[{}]", t))));
    });
    for_all_strings(V6_TOKENS_SMALL, if thorough { 8 } else { 7 }, |s| {
        if s.len() > k6 {
            let t: String = s.concat();
            f("exh-ipv6-tokens", format!("parse {}", hexs(&format!("[{}]", t))));
        }
    });
    exhaustive_notes.push(format!(
        "parse: all bracketed strings of <= {} tokens over {{0,1,f,F,:,::,.,255,256,g}} and of <= {} tokens over {{1,:,::,.,255}}",
        k6,
        if thorough { 8 } else { 7 }
    ));

    // structured random
    let n = if thorough { 300_000 } else { 12_000 };
    for _ in 0..n {
        let p = random_pieces(&mut rng);
        f("rnd-ipv6-addr", format!("disp 6:{}", hexl(p.iter().map(|&x| x as u32))));
        f("rnd-ipv4-addr", format!("disp 4:{:x}", rng.next() as u32 >> rng.below(32)));
        let t = random_ipv6_text(&mut rng);
        f("rnd-ipv6-text", format!("{} {}", if rng.chance(1, 4) { "opaque" } else { "parse" }, hexs(&t)));
        let t = random_ipv4_text(&mut rng);
        f("rnd-ipv4-text", format!("parse {}", hexs(&t)));
        let t = random_domain(&mut rng);
        f("rnd-domain", format!("parse {}", hexs(&t)));
        f("rnd-domain", format!("opaque {}", hexs(&t)));
        if rng.chance(1, 4) {
            f("rnd-domain", format!("disp D:{}", hexs(&t)));
        }
        // malformed: mutations of the above
        let base = match rng.below(3) {
            0 => random_ipv6_text(&mut rng),
            1 => random_ipv4_text(&mut rng),
            _ => random_domain(&mut rng),
        };
        let m = mutate(&mut rng, &base);
        f("mal-mutated", format!("parse {}", hexs(&m)));
        if rng.chance(1, 3) {
            f("mal-mutated", format!("opaque {}", hexs(&m)));
        }
    }
}

fn run_corr(args: &Args) -> Report {
    let mut rep = Report::new();
    let mut drv = Driver::spawn(&args.driver);
    if let Ok(txt) = std::fs::read_to_string(format!("{}/C09/cases.txt", args.file)) {
        for l in txt.lines().filter(|l| !l.is_empty() && !l.starts_with('#')) {
            compare(&mut drv, &mut rep, "corpus", l);
        }
    }
    // F-C10-1 at host level: the model (oracle = the real idna crate) and the crate agree on the witness, both
    // return a Domain whose Display text they refuse (signature rt!)
    compare(&mut drv, &mut rep, "corpus", &format!("parse {}", hexs(&long_host())));
    compare(&mut drv, &mut rep, "corpus", &format!("opaque {}", hexs(&long_host())));
    let mut notes = Vec::new();
    let mut k = 0u64;
    streams(&args.tier, args.seed, &mut notes, &mut |stream, req| {
        compare(&mut drv, &mut rep, stream, &req);
        // the specification model against its independent transcription
        if let Some(rest) = req.strip_prefix("disp 6:") {
            compare(&mut drv, &mut rep, "spec-validation", &format!("specser {}", rest));
        } else if let Some(rest) = req.strip_prefix("parse ") {
            let t = unhexs(rest);
            if t.starts_with('[') && t.ends_with(']') && t.len() >= 2 {
                compare(&mut drv, &mut rep, "spec-validation", &format!("spec6 {}", hexs(&t[1..t.len() - 1])));
                compare(&mut drv, &mut rep, "model-vs-spec", &format!("mvs6 {}", hexs(&t[1..t.len() - 1])));
            } else if !t.is_empty() && t.is_ascii() && (stream.contains("ipv4") || stream == "corpus" || stream == "exh-host-classes") {
                compare(&mut drv, &mut rep, "spec-validation", &format!("spec4 {}", rest));
                compare(&mut drv, &mut rep, "model-vs-spec", &format!("mvs4 {}", rest));
            }
        }
        // the exported result-typed entry points agree with the crate as well (sampled)
        k += 1;
        if k % 16 == 0 {
            if let Some(rest) = req.strip_prefix("parse ") {
                compare(&mut drv, &mut rep, "result-typed", &format!("parse_r {}", rest));
            } else if let Some(rest) = req.strip_prefix("opaque ") {
                compare(&mut drv, &mut rep, "result-typed", &format!("opaque_r {}", rest));
            }
        }
    });
    rep.exhaustive = notes;
    {
        use std::sync::atomic::Ordering::Relaxed;
        // the third clause of IdnaOK: dotted decimal is mapped to itself
        let mut v4_bad = 0;
        for a in [0u32, 1, 255, 256, 0x7f000001, 0xffffffff, 0x01020304, 0xc0a80001] {
            let t = Ipv4Addr::from(a).to_string();
            if idna::domain_to_ascii_cow(t.as_bytes(), idna::AsciiDenyList::URL).map(|c| c == t).unwrap_or(false) == false {
                v4_bad += 1;
            }
        }
        rep.notes.push(format!(
            "IdnaOK2 sampled on the real idna crate: {} oracle answers ({} inside the class Known_C10_long of F-C10-1), {} not (lower-case ASCII outside the deny list and: a fixed point outside the class / rejected inside it){}; dotted-decimal clause: {} of 8 samples fail",
            IDNA_ANSWERS.load(Relaxed),
            IDNA_IN_CLASS.load(Relaxed),
            IDNA_NOT_OK.load(Relaxed),
            IDNA_FIRST_BAD.lock().unwrap().as_ref().map(|s| format!(", first: {}", s)).unwrap_or_default(),
            v4_bad
        ));
    }

    // IdnaOK2 / display round trip evaluated on the implementation for the fixed host premise pool (a mismatch,
    // unlike the note above, because the pool does not depend on the seed): a domain that Host::parse returns is
    // lower-case ASCII without forbidden domain code points, and parsing its display text returns it again
    {
        let mut n = 0u64;
        for h in host_premise_pool() {
            if let Ok(Host::Domain(d)) = Host::parse(&h) {
                n += 1;
                let chars_ok = d.chars().all(|c| c.is_ascii() && !c.is_ascii_uppercase() && !spec::forbidden_domain(c));
                let back = Host::parse(&d);
                let verdict = if !chars_ok {
                    format!("domain {:?} has a non-ASCII, upper-case or forbidden domain code point", d)
                } else if known_c10_long(&d) {
                    // IdnaOK2: no fixed-point clause inside the class (F-C10-1); the class is always rejected
                    if back.is_err() { "IdnaOK".to_string() } else { format!("display text in the class Known_C10_long parses to {:?}", back) }
                } else if back != Ok(Host::Domain(d.clone())) {
                    format!("display text {:?} parses to {:?}", d, back)
                } else {
                    "IdnaOK".to_string()
                };
                rep.case("premise-idnaok", &format!("parse {}", hexs(&h)), "IdnaOK", &verdict, true, if verdict == "IdnaOK" { "premise:ok" } else { "premise:violated" });
            }
        }
        rep.exhaustive.push(format!("premise-idnaok: {} domains returned by Host::parse on the fixed host premise pool", n));
    }

    // the regenerated literal sets against the behaviour of the crate
    let t = drv.ask("tables");
    let parts: Vec<&str> = t.split(' ').collect();
    let model_forbidden_host: Vec<u32> = unhexl(parts.first().copied().unwrap_or("-"));
    let impl_forbidden_host: Vec<u32> =
        (0u32..128).filter(|&c| Host::parse_opaque(&format!("a{}", char::from_u32(c).unwrap())).is_err()).collect();
    let mut m = model_forbidden_host.clone();
    m.sort();
    rep.case("tables", "tables forbidden-host", &hexl(m), &hexl(impl_forbidden_host), true, "tables");
    let model_denied: Vec<u32> = unhexl(parts.get(1).copied().unwrap_or("-"));
    let impl_denied: Vec<u32> = (0u32..128)
        .filter(|&c| {
            let s = format!("a{}b", char::from_u32(c).unwrap());
            // upper-case letters are mapped before the deny list applies: observe them as "denied in the output"
            match idna::domain_to_ascii_cow(s.as_bytes(), idna::AsciiDenyList::URL) {
                Err(_) => true,
                Ok(o) => !o.contains(char::from_u32(c).unwrap()),
            }
        })
        .collect();
    rep.case("tables", "tables idna-denied", &hexl(model_denied), &hexl(impl_denied), true, "tables");
    rep
}

// ---------------------------------------------------------------- the Standard, transcribed independently
mod spec {
    //! WHATWG URL Standard, host parsing section, written from the prose (ported from the validated
    //! Python transcription design_notes/appendix_a_validation/whatwg.py).
    #[derive(Clone, Debug, PartialEq)]
    pub enum H {
        Domain(String),
        V4(u32),
        V6([u16; 8]),
        Opaque(String),
    }
    pub const FORBIDDEN_HOST: &[char] =
        &['\0', '\t', '\n', '\r', ' ', '#', '/', ':', '<', '>', '?', '@', '[', '\\', ']', '^', '|'];
    pub fn forbidden_domain(c: char) -> bool {
        FORBIDDEN_HOST.contains(&c) || (c as u32) <= 0x1f || c == '%' || c == '\u{7f}'
    }
    /// unbounded value, saturating far above every limit the Standard compares with
    pub fn ipv4_number(s: &str) -> Option<u128> {
        if s.is_empty() {
            return None;
        }
        let (digits, r): (&str, u32) = if s.len() >= 2 && (s.starts_with("0x") || s.starts_with("0X")) {
            (&s[2..], 16)
        } else if s.len() >= 2 && s.starts_with('0') {
            (&s[1..], 8)
        } else {
            (s, 10)
        };
        if digits.is_empty() {
            return Some(0);
        }
        let mut v: u128 = 0;
        for c in digits.chars() {
            let d = c.to_digit(r)?;
            v = v.saturating_mul(r as u128).saturating_add(d as u128);
        }
        Some(v)
    }
    pub fn ends_in_number(s: &str) -> bool {
        let mut parts: Vec<&str> = s.split('.').collect();
        if parts.last() == Some(&"") {
            if parts.len() == 1 {
                return false;
            }
            parts.pop();
        }
        let last = parts[parts.len() - 1];
        if !last.is_empty() && last.chars().all(|c| c.is_ascii_digit()) {
            return true;
        }
        ipv4_number(last).is_some()
    }
    pub fn ipv4(s: &str) -> Option<u32> {
        let mut parts: Vec<&str> = s.split('.').collect();
        if parts.last() == Some(&"") && parts.len() > 1 {
            parts.pop();
        }
        if parts.len() > 4 {
            return None;
        }
        let mut nums = Vec::new();
        for p in &parts {
            nums.push(ipv4_number(p)?);
        }
        let n = nums.len();
        if nums[..n - 1].iter().any(|&x| x > 255) {
            return None;
        }
        if nums[n - 1] >= 256u128.pow((5 - n) as u32) {
            return None;
        }
        let mut v = nums[n - 1];
        for (i, x) in nums[..n - 1].iter().enumerate() {
            v += x * 256u128.pow((3 - i) as u32);
        }
        Some(v as u32)
    }
    pub fn ipv6(s: &str) -> Option<[u16; 8]> {
        let cs: Vec<char> = s.chars().collect();
        let n = cs.len();
        let at = |i: usize| -> Option<char> { cs.get(i).copied() };
        let mut addr = [0u32; 8];
        let mut pi = 0usize;
        let mut comp: Option<usize> = None;
        let mut p = 0usize;
        if at(p) == Some(':') {
            if at(p + 1) != Some(':') {
                return None;
            }
            p += 2;
            pi += 1;
            comp = Some(pi);
        }
        while p < n {
            if pi == 8 {
                return None;
            }
            if at(p) == Some(':') {
                if comp.is_some() {
                    return None;
                }
                p += 1;
                pi += 1;
                comp = Some(pi);
                continue;
            }
            let mut value = 0u32;
            let mut length = 0;
            while length < 4 && at(p).map_or(false, |c| c.is_ascii_hexdigit()) {
                value = value * 16 + at(p).unwrap().to_digit(16).unwrap();
                p += 1;
                length += 1;
            }
            if at(p) == Some('.') {
                if length == 0 {
                    return None;
                }
                p -= length;
                if pi > 6 {
                    return None;
                }
                let mut seen = 0;
                while p < n {
                    let mut v4: Option<u32> = None;
                    if seen > 0 {
                        if at(p) == Some('.') && seen < 4 {
                            p += 1;
                        } else {
                            return None;
                        }
                    }
                    if !at(p).map_or(false, |c| c.is_ascii_digit()) {
                        return None;
                    }
                    while at(p).map_or(false, |c| c.is_ascii_digit()) {
                        let d = at(p).unwrap().to_digit(10).unwrap();
                        v4 = match v4 {
                            None => Some(d),
                            Some(0) => return None,
                            Some(v) => Some(v * 10 + d),
                        };
                        if v4.unwrap() > 255 {
                            return None;
                        }
                        p += 1;
                    }
                    addr[pi] = addr[pi] * 256 + v4.unwrap();
                    seen += 1;
                    if seen == 2 || seen == 4 {
                        pi += 1;
                    }
                }
                if seen != 4 {
                    return None;
                }
                break;
            } else if at(p) == Some(':') {
                p += 1;
                if p >= n {
                    return None;
                }
            } else if p < n {
                return None;
            }
            addr[pi] = value;
            pi += 1;
        }
        if let Some(c) = comp {
            let mut swaps = pi - c;
            pi = 7;
            while pi != 0 && swaps > 0 {
                addr.swap(pi, c + swaps - 1);
                pi -= 1;
                swaps -= 1;
            }
        } else if pi != 8 {
            return None;
        }
        let mut out = [0u16; 8];
        for i in 0..8 {
            out[i] = addr[i] as u16;
        }
        Some(out)
    }
    pub fn ser_ipv6(a: &[u16; 8]) -> String {
        // find the first longest run of zero pieces, length >= 2
        let mut best: Option<usize> = None;
        let mut best_len = 0;
        let mut i = 0;
        while i < 8 {
            if a[i] == 0 {
                let mut j = i;
                while j < 8 && a[j] == 0 {
                    j += 1;
                }
                if j - i > best_len {
                    best = Some(i);
                    best_len = j - i;
                }
                i = j;
            } else {
                i += 1;
            }
        }
        if best_len < 2 {
            best = None;
        }
        let mut out = String::new();
        let mut ignore0 = false;
        for i in 0..8 {
            if ignore0 && a[i] == 0 {
                continue;
            }
            ignore0 = false;
            if best == Some(i) {
                out.push_str(if i == 0 { "::" } else { ":" });
                ignore0 = true;
                continue;
            }
            out.push_str(&format!("{:x}", a[i]));
            if i != 7 {
                out.push(':');
            }
        }
        out
    }
    pub fn ser_ipv4(v: u32) -> String {
        format!("{}.{}.{}.{}", v >> 24, (v >> 16) & 255, (v >> 8) & 255, v & 255)
    }
    pub fn percent_decode(b: &[u8]) -> Vec<u8> {
        let mut o = Vec::new();
        let mut i = 0;
        let hv = |c: u8| (c as char).to_digit(16);
        while i < b.len() {
            if b[i] == b'%' && i + 2 < b.len() {
                if let (Some(h), Some(l)) = (hv(b[i + 1]), hv(b[i + 2])) {
                    o.push((h * 16 + l) as u8);
                    i += 3;
                    continue;
                }
            }
            o.push(b[i]);
            i += 1;
        }
        o
    }
    /// host parser; domain-to-ASCII is the idna crate WITHOUT a deny list (UseSTD3ASCIIRules=false),
    /// the forbidden-domain-code-point step is the Standard's own list
    pub fn host_parse(s: &str, opaque: bool) -> Option<H> {
        if s.starts_with('[') {
            if !s.ends_with(']') {
                return None;
            }
            return ipv6(&s[1..s.len() - 1]).map(H::V6);
        }
        if opaque {
            if s.chars().any(|c| FORBIDDEN_HOST.contains(&c)) {
                return None;
            }
            let mut o = String::new();
            for b in s.bytes() {
                if b <= 0x1f || b > 0x7e {
                    o.push_str(&format!("%{:02X}", b));
                } else {
                    o.push(b as char);
                }
            }
            return Some(H::Opaque(o));
        }
        let dom = percent_decode(s.as_bytes());
        let a = idna::domain_to_ascii_cow(&dom, idna::AsciiDenyList::EMPTY).ok()?.into_owned();
        if a.is_empty() || a.chars().any(forbidden_domain) {
            return None;
        }
        if ends_in_number(&a) {
            return ipv4(&a).map(H::V4);
        }
        Some(H::Domain(a))
    }
    pub fn ser_host(h: &H) -> String {
        match h {
            H::Domain(d) | H::Opaque(d) => d.clone(),
            H::V4(v) => ser_ipv4(*v),
            H::V6(a) => format!("[{}]", ser_ipv6(a)),
        }
    }
}

fn to_spec(h: &Host<String>, opaque: bool) -> spec::H {
    match h {
        Host::Domain(d) => if opaque { spec::H::Opaque(d.clone()) } else { spec::H::Domain(d.clone()) },
        Host::Ipv4(a) => spec::H::V4(u32::from(*a)),
        Host::Ipv6(a) => spec::H::V6(a.segments()),
    }
}

/// the C09 statement on one request, evaluated on the implementation; None = holds
fn property_of_request(req: &str) -> Option<String> {
    let w: Vec<String> = req.split(' ').map(|s| s.to_string()).collect();
    let r = std::panic::catch_unwind(move || -> Option<String> {
        match w[0].as_str() {
            "parse" | "opaque" | "parse_r" | "opaque_r" => {
                let opaque = w[0].starts_with("opaque");
                let s = unhexs(&w[1]);
                let p = |x: &str| if opaque { Host::parse_opaque(x) } else { Host::parse(x) };
                let got = p(&s);
                let want = spec::host_parse(&s, opaque);
                match (&got, &want) {
                    (Err(_), None) => None,
                    (Ok(h), None) => Some(format!("accepts {:?} as {:?}; the Standard's host parser fails", s, h)),
                    (Err(e), Some(x)) => Some(format!("rejects {:?} ({:?}); the Standard's host parser returns {:?}", s, e, x)),
                    (Ok(h), Some(x)) => {
                        if &to_spec(h, opaque) != x {
                            return Some(format!("{:?} parses to {:?}; the Standard's host parser returns {:?}", s, h, x));
                        }
                        let d = h.to_string();
                        if d != spec::ser_host(x) {
                            return Some(format!("{:?}: serializes as {:?}; the Standard's serializer gives {:?}", s, d, spec::ser_host(x)));
                        }
                        // known class F-C10-1 (Known_C10_long): a Domain of Host::parse with a label xn-- + more than
                        // 2000 bytes is not re-parsed; the search does not report it again
                        let in_known_class = !opaque && matches!(h, Host::Domain(dm) if known_c10_long(dm));
                        match p(&d) {
                            Ok(h2) if &h2 == h => {}
                            _ if in_known_class => {}
                            other => return Some(format!("{:?}: display {:?} re-parses to {:?}, not to {:?}", s, d, other, h)),
                        }
                        if let (Host::Domain(dm), false) = (h, opaque) {
                            if dm.chars().any(|c| !c.is_ascii() || c.is_ascii_uppercase() || spec::forbidden_domain(c)) {
                                return Some(format!("{:?}: domain {:?} is not lower-case ASCII free of forbidden domain code points", s, dm));
                            }
                        }
                        None
                    }
                }
            }
            "disp" => {
                let h = read_host(&w[1]);
                let d = h.to_string();
                match &h {
                    Host::Ipv6(a) => {
                        let want = format!("[{}]", spec::ser_ipv6(&a.segments()));
                        if d != want {
                            return Some(format!("{:?} serializes as {:?}; the Standard's serializer gives {:?}", a.segments(), d, want));
                        }
                        for (name, r) in [("parse", Host::parse(&d)), ("parse_opaque", Host::parse_opaque(&d))] {
                            if r.as_ref().ok() != Some(&h) {
                                return Some(format!("{}({:?}) = {:?}, not the address {:?} it was written from", name, d, r, a.segments()));
                            }
                        }
                        None
                    }
                    Host::Ipv4(a) => {
                        let want = spec::ser_ipv4(u32::from(*a));
                        if d != want {
                            return Some(format!("{:?} serializes as {:?}, expected {:?}", a, d, want));
                        }
                        let r = Host::parse(&d);
                        if r.as_ref().ok() != Some(&h) {
                            return Some(format!("parse({:?}) = {:?}, not the address it was written from", d, r));
                        }
                        None
                    }
                    Host::Domain(_) => None,
                }
            }
            _ => None,
        }
    });
    match r {
        Ok(x) => x,
        Err(_) => Some("panic".into()),
    }
}

fn run_search(args: &Args) -> Report {
    let mut rep = Report::new();
    let try_req = |rep: &mut Report, req: String| {
        rep.evaluations += 1;
        if rep.failures.len() < 40 {
            if let Some(w) = property_of_request(&req) {
                rep.failures.push((req, w));
            }
        }
    };
    // (b) the differing cases
    if let Ok(txt) = std::fs::read_to_string(&args.file) {
        for l in txt.lines().filter(|l| !l.is_empty()) {
            try_req(&mut rep, l.to_string());
        }
    }
    // (c) the generator streams, property-directed (quick scopes; fresh seed)
    let mut notes = Vec::new();
    streams("quick", args.seed ^ 0x5EA4C4, &mut notes, &mut |_, req| {
        if rep.failures.len() < 40 {
            try_req(&mut rep, req)
        }
    });
    // shrink: prefer the shortest failing request
    rep.failures.sort_by_key(|(c, _)| c.len());
    rep
}

fn run_known(_args: &Args) -> Report {
    let mut rep = Report::new();
    // F-C10-1 at host level: Host::parse accepts a label of 1000 ideographs as a Domain of 2962 bytes (xn-- + 2958,
    // inside Known_C10_long) and rejects the Display text of that Domain; the same through Url::parse
    let r = guarded(|| {
        let host = long_host();
        match Host::parse(&host) {
            Ok(Host::Domain(d)) => {
                let back = Host::parse(&d);
                let u = url::Url::parse(&format!("http://{}/", host));
                let url_part = match &u {
                    Ok(u) => format!(
                        "Url::parse(http://<1000 ideographs>/) ok host_len={} reparse={:?} Host::parse(host_str)={:?}",
                        u.host_str().map(|h| h.len()).unwrap_or(0),
                        url::Url::parse(u.as_str()).map(|v| v.as_str().len()),
                        u.host_str().map(|h| Host::parse(h).map(|_| ()))
                    ),
                    Err(e) => format!("Url::parse(http://<1000 ideographs>/) = Err({:?})", e),
                };
                format!("Host::parse(<1000 ideographs>) = Domain len={} in_class={} Host::parse(display)={:?}; {}", d.len(), known_c10_long(&d), back.map(|_| ()), url_part)
            }
            other => format!("Host::parse(<1000 ideographs>) = {:?}", other.map(|h| h.to_string().len())),
        }
    });
    let expect = "Host::parse(<1000 ideographs>) = Domain len=2962 in_class=true Host::parse(display)=Err(IdnaError); Url::parse(http://<1000 ideographs>/) ok host_len=2962 reparse=Err(IdnaError) Host::parse(host_str)=Some(Err(IdnaError))";
    rep.known.push(("F-C10-1".into(), r == expect, r));
    rep
}

fn run_replay(args: &Args) -> Report {
    let mut rep = Report::new();
    let txt = std::fs::read_to_string(&args.file).unwrap_or_default();
    let req = txt.split("\"request\":").nth(1).and_then(|s| s.split('"').nth(1)).unwrap_or("").to_string();
    if req.is_empty() {
        rep.notes.push("replay file has no request (no-failing-input-found replay): nothing to re-run".into());
        return rep;
    }
    let imp = impl_request(&req);
    rep.notes.push(format!("request: {}", req));
    let w: Vec<&str> = req.split(' ').collect();
    if w.len() == 2 && w[0] != "disp" {
        rep.notes.push(format!("input text: {:?}", unhexs(w[1])));
    }
    rep.notes.push(format!("implementation: {}", imp));
    if !args.driver.is_empty() {
        let mut drv = Driver::spawn(&args.driver);
        let model = drv.ask_with(&req, idna_oracle);
        rep.notes.push(format!("model: {}", model));
    }
    rep.evaluations = 1;
    if let Some(w) = property_of_request(&req) {
        rep.failures.push((req, w));
    }
    rep
}

fn main() {
    quiet_panics();
    let args = parse_args();
    let rep = match args.mode.as_str() {
        "corr" => run_corr(&args),
        "search" => run_search(&args),
        "known" => run_known(&args),
        "replay" => run_replay(&args),
        m => panic!("unknown mode {}", m),
    };
    finish(&args, &rep);
}
