//! The URL properties as executable predicates on the real crate (used only by the search that
//! runs after a proof obligation or the correspondence broke, and by replay).
use crate::urlops::*;
use crate::urlrec::*;
use std::collections::hash_map::DefaultHasher;
use std::hash::{Hash, Hasher};
use url::{Host, Position, Url};

fn guarded_opt<F: FnOnce() -> Option<String> + std::panic::UnwindSafe>(f: F) -> Option<String> {
    match std::panic::catch_unwind(f) {
        Ok(r) => r,
        Err(_) => Some("panic".to_string()),
    }
}

/// C02: parsing the serialization gives back the same record
pub fn prop_c02(u: &Url) -> Option<String> {
    let u = std::panic::AssertUnwindSafe(u);
    guarded_opt(move || {
        let r = match Url::parse(u.as_str()) {
            Ok(r) => r,
            Err(e) => return Some(format!("serialization {:?} does not re-parse: {:?}", u.as_str(), e)),
        };
        let (a, b) = (url_token(&u), url_token(&r));
        if a == b {
            return None;
        }
        // the documented exception: no host re-parses as empty host
        if u.host_str().is_none() && r.host_str() == Some("") {
            let strip = |t: &str| {
                let mut f: Vec<String> = t.split(',').map(|s| s.to_string()).collect();
                f[5] = "n".into();
                f.join(",")
            };
            if strip(&a) == strip(&b) {
                return None;
            }
        }
        Some(format!("{:?} re-parses to a different record: {} vs {}", u.as_str(), a, b))
    })
}

const POSITIONS: [Position; 16] = [
    Position::BeforeScheme,
    Position::AfterScheme,
    Position::BeforeUsername,
    Position::AfterUsername,
    Position::BeforePassword,
    Position::AfterPassword,
    Position::BeforeHost,
    Position::AfterHost,
    Position::BeforePort,
    Position::AfterPort,
    Position::BeforePath,
    Position::AfterPath,
    Position::BeforeQuery,
    Position::AfterQuery,
    Position::BeforeFragment,
    Position::AfterFragment,
];

/// C03: accessors re-concatenate, Position slices in bounds and monotone, views agree, round trips
pub fn prop_c03(u: &Url, other: Option<&Url>) -> Option<String> {
    let u = std::panic::AssertUnwindSafe(u);
    let other = std::panic::AssertUnwindSafe(other);
    guarded_opt(move || {
        let s = u.as_str();
        // re-concatenation
        let mut c = String::new();
        c.push_str(u.scheme());
        c.push(':');
        if u.has_authority() {
            c.push_str("//");
            c.push_str(u.username());
            if let Some(p) = u.password() {
                c.push(':');
                c.push_str(p);
            }
            if !u.username().is_empty() || u.password().is_some() {
                c.push('@');
            }
            c.push_str(u.host_str().unwrap_or(""));
            if let Some(p) = u.port() {
                c.push(':');
                c.push_str(&p.to_string());
            }
        } else if u.path().starts_with("//") {
            c.push_str("/.");
        }
        c.push_str(u.path());
        if let Some(q) = u.query() {
            c.push('?');
            c.push_str(q);
        }
        if let Some(f) = u.fragment() {
            c.push('#');
            c.push_str(f);
        }
        if c != s {
            return Some(format!("accessors re-concatenate to {:?}, serialization is {:?}", c, s));
        }
        // positions: every ordered pair is a valid slice; consecutive slices concatenate to the whole
        let mut whole = String::new();
        for i in 0..15 {
            whole.push_str(&u[POSITIONS[i]..POSITIONS[i + 1]]);
        }
        if whole != s {
            return Some(format!("the fifteen consecutive Position slices concatenate to {:?}", whole));
        }
        for i in 0..16 {
            for j in i..16 {
                let _ = &u[POSITIONS[i]..POSITIONS[j]];
            }
            if format!("{}{}", &u[..POSITIONS[i]], &u[POSITIONS[i]..]) != s {
                return Some("RangeTo + RangeFrom do not re-concatenate".into());
            }
        }
        if &u[..] != s {
            return Some("RangeFull differs".into());
        }
        // views
        if u.has_host() != u.host().is_some() || u.has_host() != u.host_str().is_some() {
            return Some("has_host / host / host_str disagree".into());
        }
        match (u.host(), u.host_str(), u.domain()) {
            (Some(Host::Domain(d)), Some(hs), dom) if d != hs || dom != Some(d) => return Some("domain views disagree".into()),
            (Some(h @ Host::Ipv4(_)), Some(hs), dom) | (Some(h @ Host::Ipv6(_)), Some(hs), dom) => {
                if h.to_string() != hs || dom.is_some() {
                    return Some(format!("IP host {:?} displays as {} but host_str is {:?}", h, h, hs));
                }
            }
            (None, _, Some(_)) => return Some("domain without host".into()),
            _ => {}
        }
        // a host whose text is an IP literal must be of the IP kind (what a receiver of the string parses)
        if let Some(Host::Domain(d)) = u.host() {
            if u.is_special() && (d.parse::<std::net::Ipv4Addr>().is_ok() || d.starts_with('[')) {
                return Some(format!("host() is Domain({:?}) but the text is an IP literal", d));
            }
        }
        if u.has_host() && u.host_str().map(|h| !s.contains(h)).unwrap_or(false) {
            return Some("host_str not in serialization".into());
        }
        if !u.has_authority() && u.has_host() {
            return Some("has_host without authority".into());
        }
        let dp = match u.scheme() {
            "http" | "ws" => Some(80),
            "https" | "wss" => Some(443),
            "ftp" => Some(21),
            _ => None,
        };
        if u.port().is_some() && u.port() == dp {
            return Some(format!("scheme-default port {:?} is stored", u.port()));
        }
        if u.port_or_known_default() != u.port().or(dp) {
            return Some("port_or_known_default disagrees".into());
        }
        if u.has_authority() != s[u.scheme().len()..].starts_with("://") {
            return Some("has_authority disagrees with serialization".into());
        }
        let auth_expect = if u.has_authority() { &u[Position::BeforeUsername..Position::AfterPort] } else { "" };
        if u.authority() != auth_expect {
            return Some(format!("authority() = {:?}, slices give {:?}", u.authority(), auth_expect));
        }
        // known finding F-C03-4: a non-special URL with authority and empty path is not cannot-be-a-base
        // but path_segments() is None
        let known_empty_path = u.has_authority() && u.path().is_empty();
        if u.cannot_be_a_base() != u.path_segments().is_none() && !known_empty_path {
            return Some("cannot_be_a_base vs path_segments disagree".into());
        }
        if let Some(h) = u.host() {
            if !matches!(h, Host::Domain(_)) {
                let want_port = u.port_or_known_default().unwrap_or(4321);
                match u.socket_addrs(|| Some(4321)) {
                    Ok(v) => {
                        let ip_ok = match (&h, v.first().map(|a| a.ip())) {
                            (Host::Ipv4(a), Some(std::net::IpAddr::V4(b))) => *a == b,
                            (Host::Ipv6(a), Some(std::net::IpAddr::V6(b))) => *a == b,
                            _ => false,
                        };
                        if v.len() != 1 || v[0].port() != want_port || !ip_ok {
                            return Some(format!("socket_addrs = {:?}", v));
                        }
                    }
                    Err(e) => return Some(format!("socket_addrs failed for IP host: {}", e)),
                }
            }
        }
        // Eq / Ord / Hash / Display / String / FromStr / TryFrom / serde
        let h = |x: &Url| {
            let mut d = DefaultHasher::new();
            x.hash(&mut d);
            d.finish()
        };
        let hs = |x: &str| {
            let mut d = DefaultHasher::new();
            x.hash(&mut d);
            d.finish()
        };
        if h(&u) != hs(s) || u.to_string() != s || String::from((*u).clone()) != s || AsRef::<str>::as_ref(&*u) != s {
            return Some("Hash / Display / Into<String> / AsRef disagree with the serialization".into());
        }
        if let Some(o) = *other {
            if (*u == o) != (s == o.as_str()) || u.cmp(o) != s.cmp(o.as_str()) || u.partial_cmp(o) != Some(s.cmp(o.as_str())) {
                return Some(format!("Eq/Ord disagree with the serialization against {:?}", o.as_str()));
            }
            if (*u == o) && h(&u) != h(o) {
                return Some("equal URLs hash differently".into());
            }
        }
        None
    })
}

/// C03, the views that are not part of the model's record: socket_addrs for IP hosts, Hash / Display / Into<String> /
/// AsRef, Eq / Ord / PartialOrd against another URL, and the serde string form all agree with the serialization
/// and with port_or_known_default (no re-parsing involved, so this is independent of C02).
pub fn prop_c03_views(u: &Url, other: Option<&Url>) -> Option<String> {
    let u = std::panic::AssertUnwindSafe(u);
    let other = std::panic::AssertUnwindSafe(other);
    guarded_opt(move || {
        let s = u.as_str();
        if let Some(h) = u.host() {
            if !matches!(h, Host::Domain(_)) {
                for fallback in [4321u16, 1080] {
                    let want_port = u.port_or_known_default().unwrap_or(fallback);
                    match u.socket_addrs(|| Some(fallback)) {
                        Ok(v) => {
                            let ip_ok = match (&h, v.first().map(|a| a.ip())) {
                                (Host::Ipv4(a), Some(std::net::IpAddr::V4(b))) => *a == b,
                                (Host::Ipv6(a), Some(std::net::IpAddr::V6(b))) => *a == b,
                                _ => false,
                            };
                            if v.len() != 1 || v[0].port() != want_port || !ip_ok {
                                return Some(format!("socket_addrs(fallback {}) = {:?}, port_or_known_default = {:?}", fallback, v, u.port_or_known_default()));
                            }
                        }
                        Err(e) => return Some(format!("socket_addrs failed for IP host: {}", e)),
                    }
                }
            }
        }
        let h = |x: &Url| {
            let mut d = DefaultHasher::new();
            x.hash(&mut d);
            d.finish()
        };
        let hs = |x: &str| {
            let mut d = DefaultHasher::new();
            x.hash(&mut d);
            d.finish()
        };
        if h(&u) != hs(s) || u.to_string() != s || String::from((*u).clone()) != s || AsRef::<str>::as_ref(&*u) != s {
            return Some("Hash / Display / Into<String> / AsRef disagree with the serialization".into());
        }
        if let Some(o) = *other {
            if (*u == o) != (s == o.as_str()) || u.cmp(o) != s.cmp(o.as_str()) || u.partial_cmp(o) != Some(s.cmp(o.as_str())) || o.cmp(&u) != o.as_str().cmp(s) {
                return Some(format!("Eq/Ord disagree with the serialization against {:?}", o.as_str()));
            }
            if (*u == o) && h(&u) != h(o) {
                return Some("equal URLs hash differently".into());
            }
        }
        match (serde_json::to_string(&*u), serde_json::to_string(s)) {
            (Ok(a), Ok(b)) if a == b => {}
            _ => return Some("serde string form is not the serialization".into()),
        }
        None
    })
}

/// URLs whose schemes are in a prefix relation or differ only behind the scheme: ordering by serialization is not
/// ordering by components
pub fn ord_pool() -> Vec<Url> {
    ["a:x", "a1:x", "a+b:x", "a-b:x", "a.b:x", "web:/p", "web+demo:/p", "coap://h/", "coap+tcp://h/", "http://h/", "https://h/", "http://h:8080/", "http://h./",
     "ws://h/", "wss://h/", "file:///p", "file://h/p", "http://u@h/", "http://h/?q", "http://h/#f", "http://h/p", "http://h//p"]
        .iter().filter_map(|s| Url::parse(s).ok()).collect()
}

/// the round-trip half of C03 (needs C02 to hold for the URL, so it is reported separately)
pub fn prop_c03_roundtrips(u: &Url) -> Option<String> {
    let u = std::panic::AssertUnwindSafe(u);
    guarded_opt(move || {
        let s = u.as_str();
        let tok = url_token(&u);
        match s.parse::<Url>() {
            Ok(r) if url_token(&r) == tok || r.as_str() == s => {}
            other => return Some(format!("FromStr(to_string) = {:?}", other.map(|x| x.to_string()))),
        }
        match Url::try_from(s) {
            Ok(r) if r.as_str() == s => {}
            _ => return Some("TryFrom<&str> round trip".into()),
        }
        let j = serde_json::to_string(&*u).ok()?;
        if j != serde_json::to_string(s).ok()? {
            return Some("serde string form is not the serialization".into());
        }
        match serde_json::from_str::<Url>(&j) {
            Ok(r) if r.as_str() == s => {}
            _ => return Some("serde round trip".into()),
        }
        None
    })
}

fn is_printable(b: u8) -> bool {
    (0x21..=0x7e).contains(&b)
}

/// C05: serialization alphabet
pub fn prop_c05(u: &Url) -> Option<String> {
    let u = std::panic::AssertUnwindSafe(u);
    guarded_opt(move || {
        let s = u.as_str();
        let opaque = u.cannot_be_a_base();
        let path_range = {
            let a = s.len() - u[Position::BeforePath..].len();
            (a, a + u.path().len())
        };
        for (i, b) in s.bytes().enumerate() {
            let ok = is_printable(b) || (b == b' ' && opaque && i >= path_range.0 && i < path_range.1);
            if !ok {
                return Some(format!("byte 0x{:02x} at offset {} of {:?}", b, i, s));
            }
        }
        let bad = |t: &str, set: &str| t.chars().find(|c| set.contains(*c));
        if let Some(c) = bad(u.username(), "/:;=@[\\]^|?# \"<>`{}") {
            return Some(format!("username contains {:?}", c));
        }
        if let Some(c) = u.password().and_then(|p| bad(p, "/:;=@[\\]^|?# \"<>`{}")) {
            return Some(format!("password contains {:?}", c));
        }
        if !opaque {
            let set = if u.is_special() { "?# \"<>`{}\\" } else { "?# \"<>`{}" };
            if let Some(c) = bad(u.path(), set) {
                return Some(format!("hierarchical path contains {:?}", c));
            }
        } else if let Some(c) = bad(u.path(), "?#") {
            return Some(format!("opaque path contains {:?}", c));
        }
        if let Some(q) = u.query() {
            let set = if u.is_special() { "# \"<>'" } else { "# \"<>" };
            if let Some(c) = bad(q, set) {
                return Some(format!("query contains {:?}", c));
            }
        }
        if let Some(f) = u.fragment() {
            if let Some(c) = bad(f, " \"<>`") {
                return Some(format!("fragment contains {:?}", c));
            }
        }
        if u.is_special() {
            if let Some(h) = u.host_str() {
                if h.chars().any(|c| c.is_ascii_uppercase()) {
                    return Some(format!("special host {:?} has upper-case letters", h));
                }
                if !h.starts_with('[') {
                    if let Some(c) = bad(h, " #/:<>?@[\\]^|%") {
                        return Some(format!("special host contains forbidden code point {:?}", c));
                    }
                }
            }
        }
        None
    })
}

fn comps(u: &Url) -> Vec<(&'static str, String)> {
    vec![
        ("scheme", u.scheme().to_string()),
        ("username", u.username().to_string()),
        ("password", format!("{:?}", u.password())),
        ("host", format!("{:?}", u.host_str())),
        ("port", format!("{:?}", u.port())),
        ("path", u.path().to_string()),
        ("query", format!("{:?}", u.query())),
        ("fragment", format!("{:?}", u.fragment())),
    ]
}

/// components an operation is allowed to change (its target plus the documented couplings)
fn touched(op: &Op, before: &Url, after: &Url) -> Vec<&'static str> {
    match op {
        Op::SetFragment(None) | Op::Quirk("hash", _) | Op::SetFragment(_) => {
            // removing the fragment of an opaque-path URL strips trailing spaces of the path
            let mut v = vec!["fragment"];
            if before.cannot_be_a_base() && after.fragment().is_none() && after.query().is_none() {
                v.push("path");
            }
            v
        }
        Op::SetQuery(_) | Op::Quirk("search", _) | Op::Qpm(..) => {
            let mut v = vec!["query"];
            if before.cannot_be_a_base() && after.fragment().is_none() && after.query().is_none() {
                v.push("path");
            }
            v
        }
        Op::SetPath(_) | Op::Psm(_) | Op::Quirk("pathname", _) => vec!["path"],
        Op::SetPort(_) | Op::Quirk("port", _) => vec!["port"],
        Op::SetHost(None) => vec!["host", "username", "password", "port"],
        Op::SetHost(_) | Op::SetIpHost(_) | Op::Quirk("hostname", _) => vec!["host"],
        Op::Quirk("host", _) => vec!["host", "port"],
        Op::SetPassword(_) | Op::Quirk("password", _) => vec!["password"],
        Op::SetUsername(_) | Op::Quirk("username", _) => vec!["username"],
        Op::SetScheme(_) | Op::Quirk("protocol", _) => vec!["scheme", "port"],
        Op::Quirk(_, _) => vec![],
        Op::Join(_) => vec!["scheme", "username", "password", "host", "port", "path", "query", "fragment"],
    }
}

/// C06: atomic failure and frame condition for one step
pub fn prop_c06(before: &Url, op: &Op, after: &Url, status: &str) -> Option<String> {
    if status != "ok" {
        if url_token(before) != url_token(after) {
            return Some(format!("failed call changed the URL: {:?} -> {:?}", before.as_str(), after.as_str()));
        }
        return None;
    }
    // quirks pathname/search/hash setters report nothing: unchanged URL counts as an ignored assignment
    let t = touched(op, before, after);
    for ((name, a), (_, b)) in comps(before).iter().zip(comps(after).iter()) {
        if a != b && !t.contains(name) {
            // documented/forced coupling: removing the host of a URL with an empty path rewrites the path to "/"
            if matches!(op, Op::SetHost(None)) && *name == "path" && a.is_empty() && b == "/" {
                continue;
            }
            return Some(format!("{} changed {} from {} to {}", op.kind(), name, a, b));
        }
    }
    get_after_set(before, op, after)
}

/// C06 get-after-set for the plain cases: the component written by a successful setter reads back as what the
/// parser produces for the same text spliced into the same position of the old serialization.  Evaluated only
/// for hierarchical URLs with an authority and a '/'-led path and for arguments free of tab/newline and of the
/// delimiters that would end the component (anything else is the business of the known classes).
fn get_after_set(before: &Url, op: &Op, after: &Url) -> Option<String> {
    if before.cannot_be_a_base() || !before.has_authority() || !before.path().starts_with('/') {
        return None;
    }
    let plain = |s: &str, extra: &str| !s.is_empty() && !s.chars().any(|c| c <= ' ' || extra.contains(c));
    let b = std::panic::AssertUnwindSafe(before);
    let a = std::panic::AssertUnwindSafe(after);
    let op = op.clone();
    guarded_opt(move || {
        let s = b.as_str();
        let pre_host = &b[..Position::BeforeHost];
        let post_host = &b[Position::AfterHost..];
        let (what, spliced, get): (&str, String, fn(&Url) -> String) = match &op {
            // (file URLs: a host in front of a drive-letter path and the host "localhost" are dropped by the
            // parser - known family, listed in url/tests/expected_failures.txt / known findings)
            Op::SetHost(Some(h)) if plain(h, "/\\?#@:[]%")
                && !(b.scheme() == "file" && (a.host_str() == Some("localhost") || {
                    let p = b.path().as_bytes();
                    p.len() >= 3 && p[1].is_ascii_alphabetic() && (p[2] == b':' || p[2] == b'|')
                })) => ("host", format!("{}{}{}", pre_host, h, post_host), |u| format!("{:?}", u.host_str())),
            Op::SetFragment(Some(f)) if plain(f, "") => ("fragment", format!("{}#{}", &b[..Position::AfterQuery], f), |u| format!("{:?}", u.fragment())),
            Op::SetQuery(Some(q)) if plain(q, "#") => ("query", format!("{}?{}{}", &b[..Position::AfterPath], q, &b[Position::AfterQuery..]), |u| format!("{:?}", u.query())),
            Op::SetUsername(n) if plain(n, "/\\?#@:") && b.password().is_none() && b.host_str().map_or(false, |h| !h.is_empty()) => {
                ("username", format!("{}{}@{}", &b[..Position::BeforeUsername], n, &b[Position::BeforeHost..]), |u| u.username().to_string())
            }
            _ => return None,
        };
        let _ = s;
        match Url::parse(&spliced) {
            Ok(p) => {
                if get(&p) != get(&a) {
                    Some(format!("{}: {} reads back as {} but the parser gives {} for {:?}", op.kind(), what, get(&a), get(&p), spliced))
                } else {
                    None
                }
            }
            Err(_) => None,
        }
    })
}

/// C15 (URL clause): a query_pairs_mut session leaves retained pairs followed by appended ones and
/// preserves everything else, the fragment included
pub fn prop_c15_url(before: &Url, op: &Op, after: &Url) -> Option<String> {
    let (fin, ops) = match op {
        Op::Qpm(f, ops) => (*f, ops),
        _ => return None,
    };
    let (before, after) = (std::panic::AssertUnwindSafe(before), std::panic::AssertUnwindSafe(after));
    let ops = ops.clone();
    guarded_opt(move || {
        let mut expect: Vec<(String, String)> = before.query_pairs().map(|(k, v)| (k.into_owned(), v.into_owned())).collect();
        for o in &ops {
            match o {
                QOp::Clear => expect.clear(),
                QOp::AppendPair(k, v) => expect.push((k.clone(), v.clone())),
                QOp::AppendKeyOnly(k) => {
                    if !k.is_empty() {
                        expect.push((k.clone(), String::new()))
                    }
                }
                QOp::ExtendPairs(l) => expect.extend(l.iter().cloned()),
            }
        }
        let got: Vec<(String, String)> = after.query_pairs().map(|(k, v)| (k.into_owned(), v.into_owned())).collect();
        if got != expect {
            return Some(format!("query_pairs after the session ({}) = {:?}, expected {:?}", if fin { "finish" } else { "drop" }, got, expect));
        }
        for ((name, a), (_, b)) in comps(&before).iter().zip(comps(&after).iter()) {
            if *name != "query" && a != b {
                return Some(format!("query_pairs_mut session ({}) changed {} from {} to {}", if fin { "finish" } else { "drop" }, name, a, b));
            }
        }
        None
    })
}

/// C08: reference-resolution laws for one (base, reference)
pub fn prop_c08(base: &Url, reference: &str) -> Option<String> {
    let base = std::panic::AssertUnwindSafe(base);
    let reference = reference.to_string();
    guarded_opt(move || {
        if base.cannot_be_a_base() {
            return None;
        }
        let r = base.join(&reference);
        let trimmed: String = reference
            .trim_matches(|c: char| c <= ' ')
            .chars()
            .filter(|c| !matches!(c, '\t' | '\n' | '\r'))
            .collect();
        if trimmed.is_empty() {
            match &r {
                Ok(u) => {
                    let mut b = (*base).clone();
                    b.set_fragment(None);
                    if u.as_str() != b.as_str() {
                        return Some(format!("empty reference gives {:?}", u.as_str()));
                    }
                }
                Err(e) => return Some(format!("empty reference fails: {:?}", e)),
            }
        }
        let has_scheme = {
            let mut it = trimmed.chars();
            match it.next() {
                Some(c) if c.is_ascii_alphabetic() => {
                    let rest: String = it.collect();
                    let end = rest.find(|c: char| !(c.is_ascii_alphanumeric() || c == '+' || c == '-' || c == '.'));
                    matches!(end.map(|i| rest.as_bytes()[i]), Some(b':'))
                }
                _ => false,
            }
        };
        if let Ok(u) = &r {
            if let Some(f) = trimmed.strip_prefix('#') {
                let _ = f;
                let strip = |x: &Url| x[..Position::AfterQuery].to_string();
                if strip(u) != strip(&base) {
                    return Some(format!("'#' reference changed more than the fragment: {:?}", u.as_str()));
                }
            } else if trimmed.starts_with('?') {
                if u[..Position::AfterPath] != base[..Position::AfterPath] {
                    return Some(format!("'?' reference changed more than query and fragment: {:?}", u.as_str()));
                }
            }
            let sl = |c: char| c == '/' || (c == '\\' && base.is_special());
            let two_slashes = {
                let mut it = trimmed.chars();
                matches!((it.next(), it.next()), (Some(a), Some(b)) if sl(a) && sl(b))
            };
            // known (expected_failures.txt): file URLs and drive letters may drop the host
            let file_drive = base.scheme() == "file";
            if !has_scheme && !two_slashes && !file_drive {
                // without authority the '/.' marker may appear or disappear in front of the path:
                // what must be kept is the scheme and the absence of an authority
                let auth = |x: &Url| if x.has_authority() { x[..Position::BeforePath].to_string() } else { format!("{}:", x.scheme()) };
                if auth(u) != auth(&base) {
                    return Some(format!("reference without scheme/authority changed the authority: {:?}", u.as_str()));
                }
            }
        }
        None
    })
}

/// C08: an absolute URL's serialization resolves to itself against any base; make_relative inverse
pub fn prop_c08_abs(base: &Url, target: &Url) -> Option<String> {
    let (base, target) = (std::panic::AssertUnwindSafe(base), std::panic::AssertUnwindSafe(target));
    guarded_opt(move || {
        match base.join(target.as_str()) {
            Ok(u) if u.as_str() == target.as_str() => {}
            other => {
                // only for targets that are themselves fixpoints of parsing (C02)
                if Url::parse(target.as_str()).map(|x| x.as_str() == target.as_str()).unwrap_or(false) {
                    return Some(format!("absolute {:?} resolves to {:?}", target.as_str(), other.map(|x| x.to_string())));
                }
            }
        }
        None
    })
}
