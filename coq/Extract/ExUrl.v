From Coq Require Import Extraction ExtrOcamlBasic.
From RU Require Import Base.Prelude Base.Utf8 Model.AsciiSet Gen.Tables Model.PercentEncoding
  Model.HostT Model.UrlRecord Model.Parser Model.Setters Model.WF Model.KnownC01 Model.Host Model.FormUrlencoded Model.QueryPairs.
Extraction Language OCaml.
Cd "../build/ocaml".
Extraction "url_model.ml"
  parse_url utf8_encode parse_error_code
  scheme has_authority cannot_be_a_base authority username password has_host host_str host_of domain
  port_or_known_default path path_segments query fragment is_special
  set_fragment set_query set_path set_port set_host set_ip_host set_password set_username set_scheme
  path_segments_session position_index index_range index_from index_to
  q_href q_protocol q_username q_password q_host q_hostname q_port q_pathname q_search q_hash
  q_set_protocol q_set_username q_set_password q_set_host q_set_hostname q_set_port q_set_pathname
  q_set_search q_set_hash strip_trailing_spaces_from_opaque_path wf_b known_c01
  host_parse host_parse_opaque host_display
  query_pairs_session query_pairs.
Cd "../../coq".
