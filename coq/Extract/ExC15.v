From Coq Require Import Extraction ExtrOcamlBasic.
From RU Require Import Base.Prelude Base.Utf8 Base.Outcome_c15 Model.AsciiSet Gen.Tables Model.PercentEncoding
  Model.FormUrlencoded.
Extraction Language OCaml.
Cd "../build/ocaml".
Extraction "c15_model.ml"
  parse parse_cow parse_next parse_into_owned_next fu_decode replace_plus
  byte_serialized_unchanged bser_next bser_chunks bser_size_hint bser extend_chunks
  ser_for_suffix ser_new ser_step ser_run ser_finish ser_session serialize_pairs
  str_get str_set str_fin ct_get ct_set ct_fin is_char_boundary utf8_encode utf8_lossy
  T_FORM_SITE_FOR_SUFFIX T_FORM_SITE_STRING T_FORM_SITE_FINISH T_FORM_SITE_CLEAR_TRUNCATE.
Cd "../../coq".
