From Coq Require Import Extraction ExtrOcamlBasic.
From RU Require Import Base.Prelude Base.Utf8 Model.AsciiSet Gen.Tables Model.PercentEncoding Model.HostT Model.Host Spec.WhatwgHost.
Extraction Language OCaml.
Cd "../build/ocaml".
Extraction "c09_model.ml"
  host_parse_x host_parse_opaque_x host_parse host_parse_opaque host_display
  utf8_encode parse_ipv6addr write_ipv6_o write_ipv6 longest_zero_sequence
  parse_ipv4number parse_ipv4addr ends_in_a_number ipv4_display
  T_HOST_INVALID_HOST_CHARS T_HOST_IDNA_DENIED
  Spec.ipv6_parse Spec.ipv6_serialize Spec.ipv4_parse Spec.ends_in_a_number Spec.ipv4_number.
Cd "../../coq".
