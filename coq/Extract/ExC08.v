From Coq Require Import Extraction ExtrOcamlBasic.
From RU Require Import Base.Prelude Base.Utf8 Model.AsciiSet Gen.Tables Model.PercentEncoding
  Model.HostT Model.UrlRecord Model.Parser Model.WF Model.MakeRelative Model.KnownC08.
Extraction Language OCaml.
Cd "../build/ocaml".
Extraction "c08_model.ml"
  parse_url utf8_encode parse_error_code
  scheme has_authority cannot_be_a_base authority username password has_host host_str host_of domain
  port_or_known_default path path_segments query fragment is_special
  wf_b make_relative mr_ok known_c08 contain_pre.
Cd "../../coq".
