From Coq Require Import Extraction ExtrOcamlBasic.
From RU Require Import Base.Prelude Base.Utf8 Base.U32_c13 Gen.Tables Model.Punycode Model.Uts46.
Extraction Language OCaml.
Cd "../build/ocaml".
Extraction "idna_model.ml"
  to_ascii to_unicode to_user_interface process process_inner verify_dns_length verify_dns_length_pub
  domain_to_ascii_cow domain_to_ascii domain_to_ascii_strict domain_to_unicode
  idna_to_ascii idna_to_unicode config_to_ascii config_to_unicode map_transitional
  deny_new DENY_EMPTY DENY_STD3 DENY_URL utf8_lossy utf8_encode utf8_valid
  is_passthrough_ascii_label has_punycode_prefix classify_for_punycode encode_internal decode_with.
Cd "../../coq".
