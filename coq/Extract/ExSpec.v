From Coq Require Import Extraction ExtrOcamlBasic.
From RU Require Import Base.Prelude Base.Utf8 Spec.Whatwg Spec.WhatwgHost Spec.WhatwgHostParse.
Extraction Language OCaml.
Cd "../build/ocaml".
Extraction "spec_model.ml"
  spec_basic_url_parse spec_basic_url_parse_override spec_url_parse spec_api_list spec_api
  spec_set spec_set_seq serialize_url spec_host_parser spec_host_serializer.
Cd "../../coq".
