From Coq Require Import Extraction ExtrOcamlBasic.
From RU Require Import Base.Prelude Base.Utf8 Model.AsciiSet Gen.Tables Model.PercentEncoding.
Extraction Language OCaml.
Cd "../build/ocaml".
Extraction "c14_model.ml"
  aset_of_list aset_contains_o aset_add_o aset_remove_o aset_union aset_complement should_encode
  enc_byte pe_next pe_chunks pe_display pe_size_hint pe_cow encode
  decode pd_size_hint pd_cow utf8_strict utf8_lossy
  T_all_sets.
Cd "../../coq".
