From Coq Require Import Extraction ExtrOcamlBasic.
From RU Require Import Base.Prelude Base.Utf8 Model.AsciiSet Gen.Tables Model.PercentEncoding
  Model.HostT Model.UrlRecord Model.Parser Model.Mime Model.Base64 Model.DataUrl Model.DataUrlTie
  Model.KnownC17 Spec.Infra Spec.MimeSniff Spec.Fetch.
Extraction Language OCaml.
Cd "../build/ocaml".
Extraction "c17_model.ml"
  process_and_decode process_and_decode_bytes fetch_view fetch_of_string parse_data_url known_c17
  parse_a_mime_type serialize_a_mime_type fetch_of_serialization percent_encode to_percent_encoded
  header_loop remove_base64_suffix utf8_encode parse_error_code.
Cd "../../coq".
