From Coq Require Import Extraction ExtrOcamlBasic.
From RU Require Import Base.Prelude Base.Utf8 Base.U32_c13 Gen.Tables Model.Punycode.
Extraction Language OCaml.
Cd "../build/ocaml".
Extraction "c13_model.ml"
  encode encode_str encode_internal decode decode_to_string decode_with adapt
  digit_u8 digit_char value_to_digit
  BASE T_MIN T_MAX SKEW DAMP INITIAL_BIAS INITIAL_N.
Cd "../../coq".
