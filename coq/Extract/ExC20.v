From Coq Require Import Extraction ExtrOcamlBasic.
From RU Require Import Base.Prelude Base.Utf8 Model.AsciiSet Gen.Tables Model.PercentEncoding
  Model.HostT Model.UrlRecord Model.Parser Model.FilePath.
Extraction Language OCaml.
Cd "../build/ocaml".
Extraction "c20_model.ml"
  parse_url parse_error_code utf8_encode
  path_components path_is_absolute path_eq path_join component_bytes
  from_file_path from_directory_path to_file_path url_join dir_join_to_path
  name_reference plain_name simple_name scheme_like drive_like
  path_segments host_of.
Cd "../../coq".
