From Coq Require Import Extraction ExtrOcamlBasic.
From RU Require Import Base.Prelude Base.Utf8 Gen.Tables Model.Mime.
Extraction Language OCaml.
Cd "../build/ocaml".
Extraction "c19_model.ml"
  parse from_str display display_value get_parameter
  split2 split_all scan_quoted params_loop parse_parameters contains valid_value
  only_http_token_code_points http_whitespace trim_matches trim_start trim_end
  T_IS_HTTP_TOKEN T_HTTP_WHITESPACE T_VALID_VALUE T_MIME_ESCAPED.
Cd "../../coq".
