From Coq Require Import Extraction ExtrOcamlBasic.
From RU Require Import Base.Prelude Base.Utf8 Model.AsciiSet Gen.Tables Model.PercentEncoding
  Model.HostT Model.UrlRecord Model.Parser Model.Setters Model.KnownC01 Model.KnownC07.
Extraction Language OCaml.
Cd "../build/ocaml".
Extraction "c07_model.ml"
  parse_url utf8_encode parse_error_code
  q_href q_protocol q_username q_password q_host q_hostname q_port q_pathname q_search q_hash
  q_set_protocol q_set_username q_set_password q_set_host q_set_hostname q_set_port q_set_pathname
  q_set_search q_set_hash known_c01 known_c07.
Cd "../../coq".
