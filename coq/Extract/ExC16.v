From Coq Require Import Extraction ExtrOcamlBasic.
From RU Require Import Base.Prelude Base.Utf8 Model.AsciiSet Gen.Tables Model.PercentEncoding
  Model.HostT Model.UrlRecord Model.Parser Model.Origin.
Extraction Language OCaml.
Cd "../build/ocaml".
Extraction "c16_model.ml"
  url_origin url_origin_fuel origin_fuel origins_of new_opaque url_parse
  ascii_serialization unicode_serialization tuple_serialization host_fmt is_tuple origin_eqb host_eqb
  run step the_counter_op decode_counter_op solo_schedule
  parse_error_code scheme path host_of port_or_known_default
  T_COUNTER_OP T_ORIGIN_TUPLE_SCHEMES T_ORIGIN_BLOB_SCHEMES.
Cd "../../coq".
