From Coq Require Import Extraction ExtrOcamlBasic.
From RU Require Import Base.Prelude Gen.Tables Model.Base64 Spec.Infra.
Extraction Language OCaml.
Cd "../build/ocaml".
Extraction "c18_model.ml"
  b64_value decode_to_vec run_chunks decode_without_base64 decode_with_base64 data_url_decode
  ksink_new kwrite
  forgiving_base64_decode std_encode.
Cd "../../coq".
