(* Proofs/C13_DecB.v - completeness of the u32 decoder: the RFC 3492 decoder over unbounded integers
   with the decoder's 32-bit checks written out (b_dec_loop); whenever it succeeds the u32 decoder of
   the model succeeds with the same answer.  The bias never exceeds 215 for deltas below 2^32; a
   variable-length integer q read from index i with i + q <= u32::MAX passes every check (the weight
   check in front of a final zero digit included). *)
From RU Require Import Base.Prelude Base.Utf8 Base.U32_c13 Gen.Tables Model.Punycode Spec.Rfc3492
  Proofs.C13_Ascii Proofs.C13_Bounds Proofs.C13_Enc Proofs.C13_Dec Proofs.C13_Vli.

(* ---- the unbounded decoder with the u32 checks of Decoder::decode made explicit ---- *)
Definition b_dec_break (loop : list N -> bool -> N -> N -> N -> N -> N -> N -> list N -> option (list N))
    (rest : list N) (oldi i n bias : N) (out : list N) : option (list N) :=
  let len1 := len out + 1 in
  if (len1 <=? U32_MAX) && (n + i / len1 <=? U32_MAX) then
    let bias := s_adapt (i - oldi) len1 (oldi =? 0) in
    let n := n + i / len1 in
    let i := i mod len1 in
    if is_usvb n then loop rest false (i + 1) 1 s_base (i + 1) n bias (s_insert_at i n out) else None
  else None.

Fixpoint b_dec_loop (dig : N -> option N) (input : list N) (mid : bool) (oldi w k i n bias : N)
    (out : list N) : option (list N) :=
  match input with
  | [] => if mid then None else Some out
  | c :: rest =>
      match dig c with
      | None => None
      | Some digit =>
          if (digit * w <=? U32_MAX) && (i + digit * w <=? U32_MAX) then
            if digit <? s_threshold k bias then
              b_dec_break (b_dec_loop dig) rest oldi (i + digit * w) n bias out
            else if w * (s_base - s_threshold k bias) <=? U32_MAX then
              b_dec_loop dig rest true oldi (w * (s_base - s_threshold k bias)) (k + s_base) (i + digit * w) n bias out
            else None
          else None
      end
  end.

Lemma b_dec_loop_cons dig c rest mid oldi w k i n bias out :
  b_dec_loop dig (c :: rest) mid oldi w k i n bias out =
  match dig c with
  | None => None
  | Some digit =>
      if (digit * w <=? U32_MAX) && (i + digit * w <=? U32_MAX) then
        if digit <? s_threshold k bias then
          b_dec_break (b_dec_loop dig) rest oldi (i + digit * w) n bias out
        else if w * (s_base - s_threshold k bias) <=? U32_MAX then
          b_dec_loop dig rest true oldi (w * (s_base - s_threshold k bias)) (k + s_base) (i + digit * w) n bias out
        else None
      else None
  end.
Proof. reflexivity. Qed.

(* ---- completeness: a successful checked run is a successful run of the model's decoder ---- *)
Lemma dec_loop_complete cfg it base input : forall mid prev w k i length cp bias ins out out',
  length = len out -> Rep it base (sort_by_key ins) 0 out ->
  b_dec_loop (inst_digit it) input mid prev w k i cp bias out = Some out' ->
  exists ins', dec_loop cfg it input mid prev w k i length cp bias ins = Ok ins'
               /\ Rep it base (sort_by_key ins') 0 out'.
Proof.
  induction input as [|byte rest IH]; intros mid prev w k i length cp bias ins out out' Hlen HR Hb.
  - cbn [b_dec_loop] in Hb. cbn [dec_loop]. destruct mid; [discriminate|]. inversion Hb. subst out'.
    exists ins. split; [reflexivity|exact HR].
  - rewrite dec_loop_cons. rewrite b_dec_loop_cons in Hb.
    destruct (inst_digit it byte) as [digit|]; [|discriminate].
    destruct ((digit * w <=? U32_MAX) && (i + digit * w <=? U32_MAX)) eqn:E1; [|discriminate].
    apply andb_true_iff in E1. destruct E1 as [E1a E1b].
    unfold checked_mul at 1. rewrite E1a. unfold checked_add at 1. rewrite E1b.
    cbv zeta. rewrite threshold_eq.
    destruct (digit <? s_threshold k bias).
    + unfold b_dec_break in Hb. cbv zeta in Hb.
      destruct ((len out + 1 <=? U32_MAX) && (cp + (i + digit * w) / (len out + 1) <=? U32_MAX)) eqn:E2; [|discriminate].
      apply andb_true_iff in E2. destruct E2 as [E2a E2b].
      subst length. unfold unchecked_add. rewrite E2a.
      rewrite adapt_ok by lia.
      unfold checked_add. rewrite E2b.
      destruct (is_usvb (cp + (i + digit * w) / (len out + 1))); [|discriminate].
      eapply IH; [| |exact Hb].
      * rewrite len_insert_at. reflexivity.
      * rewrite sort_snoc.
        -- rewrite sort_shift.
           pose proof (Rep_insert it base _ 0 out HR ((i + digit * w) mod (len out + 1))
                         (cp + (i + digit * w) / (len out + 1)) ltac:(lia)) as HI.
           rewrite N.sub_0_r in HI. apply HI.
           pose proof (N.mod_lt (i + digit * w) (len out + 1) ltac:(lia)). lia.
        -- intros y Hy. rewrite shift_ins_map in Hy. apply in_map_iff in Hy. destruct Hy as [e [Heq _]]. subst y.
           unfold shift1. cbn [fst]. destruct ((i + digit * w) mod (len out + 1) <=? fst e) eqn:E; cbn [fst]; lia.
    + change BASE with s_base.
      destruct (w * (s_base - s_threshold k bias) <=? U32_MAX) eqn:E3; [|discriminate].
      unfold checked_mul. rewrite E3.
      eapply IH; [exact Hlen|exact HR|exact Hb].
Qed.

(* the checked run computes what the unbounded decoder computes *)
Lemma b_dec_loop_sound dig input : forall mid oldi w k i n bias out out',
  b_dec_loop dig input mid oldi w k i n bias out = Some out' ->
  s_dec_loop dig input mid oldi w k i n bias out = Some out'.
Proof.
  induction input as [|c rest IH]; intros mid oldi w k i n bias out out' Hb.
  - exact Hb.
  - rewrite b_dec_loop_cons in Hb. cbn [s_dec_loop].
    destruct (dig c) as [digit|]; [|discriminate].
    destruct ((digit * w <=? U32_MAX) && (i + digit * w <=? U32_MAX)); [|discriminate].
    cbv zeta. destruct (digit <? s_threshold k bias).
    + unfold b_dec_break in Hb. cbv zeta in Hb.
      destruct ((len out + 1 <=? U32_MAX) && (n + (i + digit * w) / (len out + 1) <=? U32_MAX)); [|discriminate].
      change (N.of_nat (length out)) with (len out).
      destruct (is_usvb (n + (i + digit * w) / (len out + 1))); [|discriminate].
      apply IH. exact Hb.
    + destruct (w * (s_base - s_threshold k bias) <=? U32_MAX); [|discriminate]. apply IH. exact Hb.
Qed.

(* ---- the bias is at most 215 when the delta fits in 32 bits ---- *)
Lemma s_adapt_loop_bound j : forall fuel d k, d < 2 ^ N.of_nat fuel -> d < 456 * 35 ^ N.of_nat j ->
  fst (s_adapt_loop fuel d k) <= 455 /\ snd (s_adapt_loop fuel d k) <= k + 36 * N.of_nat j.
Proof.
  induction j as [|j IH]; intros fuel d k Hf Hd; rewrite s_adapt_loop_eq.
  - change (35 ^ N.of_nat 0) with 1 in Hd. replace (455 <? d) with false by lia. cbn [fst snd]. lia.
  - destruct (455 <? d) eqn:E; [|cbn [fst snd]; lia].
    destruct fuel as [|f]; [change (2 ^ N.of_nat 0) with 1 in Hf; lia|].
    rewrite Nat2N.inj_succ, N.pow_succ_r' in Hf, Hd.
    remember (2 ^ N.of_nat f) as P. remember (35 ^ N.of_nat j) as Q.
    specialize (IH f (d / 35) (k + 36)).
    destruct IH as [A B]; [lia|lia|]. rewrite Nat2N.inj_succ. split; [exact A|lia].
Qed.

Lemma s_adapt_le d np first : d <= U32_MAX -> s_adapt d np first <= 215.
Proof.
  intros Hd. unfold s_adapt.
  remember (d / (if first then s_damp else 2)) as d1.
  assert (H1 : d1 <= d / 2).
  { subst d1. destruct first; [|lia]. unfold s_damp. lia. }
  assert (Hq : d1 / np <= d1).
  { destruct (N.eq_dec np 0) as [->|Hnp]; [destruct d1; cbn; lia|]. apply N.div_le_upper_bound; [exact Hnp|].
    destruct np; [lia|]. nia. }
  remember (d1 + d1 / np) as d2.
  assert (H2 : d2 <= U32_MAX) by (unfold U32_MAX in *; lia).
  pose proof (s_adapt_loop_bound 5 (N.to_nat (N.size d2)) d2 0) as HB.
  destruct (s_adapt_loop (N.to_nat (N.size d2)) d2 0) as [d3 k3]. cbn [fst snd] in HB.
  destruct HB as [A B].
  - rewrite N2Nat.id. apply N.size_gt.
  - change (456 * 35 ^ N.of_nat 5) with 23949975000. unfold U32_MAX in H2. lia.
  - change (s_base - s_tmin + 1) with 36. unfold s_skew.
    assert (36 * d3 / (d3 + 38) <= 35).
    { apply N.lt_succ_r. apply N.div_lt_upper_bound; lia. }
    change (N.of_nat 5) with 5 in B. lia.
Qed.

(* ---- weights ---- *)
Definition wbound (k : N) : N :=
  if k <? 72 then 1 else if k <? 108 then 35 else if k <? 144 then 1225 else if k <? 180 then 42875
  else if k <? 216 then 1500625 else if k <? 252 then 52521875 else if k <? 288 then 1838265625 else U32_MAX.

Lemma wbound_step k w t : 36 <= k -> w <= wbound k -> 1 <= t <= 26 ->
  (252 <= k -> t = 26 /\ 26 * w <= U32_MAX) ->
  w * (36 - t) <= wbound (k + 36) /\ w * (36 - t) <= U32_MAX.
Proof.
  intros Hk Hw Ht H26.
  assert (H35 : w * (36 - t) <= w * 35) by (apply N.mul_le_mono_l; lia).
  unfold wbound, U32_MAX in *.
  destruct (k <? 72) eqn:E1; [replace (k + 36 <? 72) with false by lia; replace (k + 36 <? 108) with true by lia; lia|].
  destruct (k <? 108) eqn:E2; [replace (k + 36 <? 72) with false by lia; replace (k + 36 <? 108) with false by lia; replace (k + 36 <? 144) with true by lia; lia|].
  destruct (k <? 144) eqn:E3; [replace (k + 36 <? 72) with false by lia; replace (k + 36 <? 108) with false by lia; replace (k + 36 <? 144) with false by lia; replace (k + 36 <? 180) with true by lia; lia|].
  destruct (k <? 180) eqn:E4; [replace (k + 36 <? 72) with false by lia; replace (k + 36 <? 108) with false by lia; replace (k + 36 <? 144) with false by lia; replace (k + 36 <? 180) with false by lia; replace (k + 36 <? 216) with true by lia; lia|].
  destruct (k <? 216) eqn:E5; [replace (k + 36 <? 72) with false by lia; replace (k + 36 <? 108) with false by lia; replace (k + 36 <? 144) with false by lia; replace (k + 36 <? 180) with false by lia; replace (k + 36 <? 216) with false by lia; replace (k + 36 <? 252) with true by lia; lia|].
  destruct (k <? 252) eqn:E6; [replace (k + 36 <? 72) with false by lia; replace (k + 36 <? 108) with false by lia; replace (k + 36 <? 144) with false by lia; replace (k + 36 <? 180) with false by lia; replace (k + 36 <? 216) with false by lia; replace (k + 36 <? 252) with false by lia; replace (k + 36 <? 288) with true by lia; lia|].
  replace (k + 36 <? 72) with false by lia; replace (k + 36 <? 108) with false by lia; replace (k + 36 <? 144) with false by lia; replace (k + 36 <? 180) with false by lia; replace (k + 36 <? 216) with false by lia; replace (k + 36 <? 252) with false by lia; replace (k + 36 <? 288) with false by lia.
  destruct (H26 ltac:(lia)) as [-> Hm]. replace (36 - 26) with 10 by lia. lia.
Qed.

(* ---- a variable-length integer passes every check when i + q * w fits ---- *)
Lemma b_vli_decode dig (Hdig : forall d, d < 36 -> dig (s_digit_char d) = Some d) f :
  forall q k bias w i rest mid oldi n out, q < 2 ^ N.of_nat f ->
  36 <= k -> bias <= 215 -> 1 <= w -> w <= wbound k -> i + q * w <= U32_MAX ->
  b_dec_loop dig (s_enc_vli (S f) q k bias ++ rest) mid oldi w k i n bias out
  = b_dec_break (b_dec_loop dig) rest oldi (i + q * w) n bias out.
Proof.
  induction f as [|f IH]; intros q k bias w i rest mid oldi n out Hq Hk Hbias Hw1 Hwb Hfit.
  - change (2 ^ N.of_nat 0) with 1 in Hq. assert (q = 0) by lia. subst q.
    pose proof (s_threshold_range k bias) as Ht.
    cbn [s_enc_vli]. replace (0 <? s_threshold k bias) with true by lia.
    cbn [app]. rewrite b_dec_loop_cons. rewrite Hdig by lia.
    replace ((0 * w <=? U32_MAX) && (i + 0 * w <=? U32_MAX)) with true by lia.
    replace (0 <? s_threshold k bias) with true by lia. reflexivity.
  - remember (S f) as f1. cbn [s_enc_vli].
    pose proof (s_threshold_range k bias) as Ht.
    assert (Ht26 : 252 <= k -> s_threshold k bias = 26).
    { intros H. unfold s_threshold, s_tmax. replace (k <=? bias) with false by lia.
      replace (bias + 26 <=? k) with true by lia. reflexivity. }
    remember (s_threshold k bias) as t.
    destruct (q <? t) eqn:E.
    + cbn [app]. rewrite b_dec_loop_cons. rewrite Hdig by lia. rewrite <- Heqt.
      replace ((q * w <=? U32_MAX) && (i + q * w <=? U32_MAX)) with true by lia.
      rewrite E. reflexivity.
    + change s_base with 36.
      assert (Hm : (q - t) mod (36 - t) < 36 - t) by (apply N.mod_lt; lia).
      pose proof (N.div_mod (q - t) (36 - t) ltac:(lia)) as Hdm.
      remember ((q - t) mod (36 - t)) as r. remember ((q - t) / (36 - t)) as q'.
      assert (Hqq : q = t + ((36 - t) * q' + r)) by lia.
      assert (Hdw : (t + r) * w <= q * w) by (apply N.mul_le_mono_r; lia).
      assert (Htw : t * w <= q * w) by (apply N.mul_le_mono_r; lia).
      cbn [app]. rewrite b_dec_loop_cons. rewrite Hdig by lia. rewrite <- Heqt.
      replace (((t + r) * w <=? U32_MAX) && (i + (t + r) * w <=? U32_MAX)) with true by lia.
      replace (t + r <? t) with false by lia.
      change s_base with 36.
      destruct (wbound_step k w t Hk Hwb Ht) as [Hwb' Hwm].
      { intros H252. split; [exact (Ht26 H252)|]. rewrite (Ht26 H252) in Htw. lia. }
      replace (w * (36 - t) <=? U32_MAX) with true by lia.
      subst f1. rewrite IH.
      * f_equal. rewrite Hqq. ring.
      * rewrite Nat2N.inj_succ, N.pow_succ_r' in Hq.
        assert (Hle : (q - t) / (36 - t) <= (q - t) / 10) by (apply N.div_le_compat_l; lia).
        rewrite <- Heqq' in Hle.
        pose proof (N.div_mod (q - t) 10 ltac:(lia)) as Hd. pose proof (N.mod_lt (q - t) 10 ltac:(lia)) as Hm2.
        remember ((q - t) / 10) as q10. remember (2 ^ N.of_nat f) as P. lia.
      * lia.
      * exact Hbias.
      * assert (1 * 1 <= w * (36 - t)) by (apply N.mul_le_mono; lia). lia.
      * exact Hwb'.
      * replace (i + (t + r) * w + q' * (w * (36 - t))) with (i + q * w); [exact Hfit|].
        rewrite Hqq at 1. ring.
Qed.
