(* Proofs/C01_EqRun.v - the specification side of the C01 equivalence: a big-step reading of the
   state machine of Spec/Whatwg.v (`Runs m r`: the loop started on machine m ends with outcome r),
   its agreement with the fuelled `run`, and what the machine computes from the fragment, query,
   opaque-path, scheme-start and scheme states on ANY remaining text. *)
From RU Require Import Base.Prelude Base.Utf8 Spec.Whatwg Spec.WhatwgFuel.


Section Runs.
Variable hp : bool -> list N -> option spec_host.
Variable input : list N.
Variable base : option spec_url.

Notation stepN := (step hp input base None).
Notation runN := (run hp input base None).
Notation LEN := (Z.of_nat (length input)).

(* the loop of `run`, without fuel *)
Inductive Runs : machine -> parse_outcome -> Prop :=
| R_fail m u : stepN m = SFailure u -> Runs m (BFailure u)
| R_ret m u : stepN m = SReturn u -> Runs m (BDone u)
| R_end m m' : stepN m = SCont m' -> (LEN <= m_ptr m')%Z -> Runs m (BDone (m_url m'))
| R_next m m' r : stepN m = SCont m' -> (m_ptr m' < LEN)%Z -> Runs (inc_ptr m') r -> Runs m r.

Lemma runs_run m r : Runs m r -> forall fuel, runN fuel m <> BOutOfFuel -> runN fuel m = r.
Proof.
  induction 1 as [m u E|m u E|m m' E Hp|m m' r E Hp HR IH]; intros fuel Hf;
    (destruct fuel as [|f]; [exfalso; apply Hf; reflexivity|]); cbn [run] in *; rewrite E in *.
  - reflexivity.
  - reflexivity.
  - replace (LEN <=? m_ptr m')%Z with true by lia. reflexivity.
  - replace (LEN <=? m_ptr m')%Z with false in * by lia. apply IH. exact Hf.
Qed.

(* ---------- where the pointer is ---------- *)
Lemma substring_at pre t : input = pre ++ t -> substring_from input (Z.of_nat (length pre)) = t.
Proof.
  intros ->. unfold substring_from. replace (Z.of_nat (length pre) <? 0)%Z with false by lia.
  rewrite Nat2Z.id. rewrite skipn_app, skipn_all, Nat.sub_diag. reflexivity.
Qed.

Lemma len_split pre t : input = pre ++ t -> LEN = (Z.of_nat (length pre) + Z.of_nat (length t))%Z.
Proof. intros ->. rewrite app_length. lia. Qed.

Lemma snoc_split pre c r : input = pre ++ c :: r -> input = (pre ++ [c]) ++ r.
Proof. intros ->. rewrite <- app_assoc. reflexivity. Qed.

Lemma len_snoc pre (c : N) : Z.of_nat (length (pre ++ [c])) = (Z.of_nat (length pre) + 1)%Z.
Proof. rewrite app_length. cbn [length]. lia. Qed.

Definition at_pos (st : pstate) (pre : list N) (buf : list N) (a b pw : bool) (u : spec_url) : machine :=
  mkM st (Z.of_nat (length pre)) buf a b pw u.

(* one run of a machine that looks at c and continues with m' (pointer unchanged by the state) *)
Lemma runs_step_next st pre c r buf a b pw u st' buf' a' b' pw' u' res :
  input = pre ++ c :: r ->
  stepN (at_pos st pre buf a b pw u) = SCont (mkM st' (Z.of_nat (length pre)) buf' a' b' pw' u') ->
  Runs (at_pos st' (pre ++ [c]) buf' a' b' pw' u') res ->
  Runs (at_pos st pre buf a b pw u) res.
Proof.
  intros Hin E HR. eapply R_next; [exact E | |].
  - cbn [m_ptr]. rewrite (len_split _ _ Hin). cbn [length]. lia.
  - unfold inc_ptr, set_ptr. cbn [m_ptr m_state m_buf m_at m_br m_pw m_url].
    unfold at_pos in HR. rewrite len_snoc in HR. exact HR.
Qed.

(* a run that decreases the pointer (and is followed by the loop's increment): same position *)
Lemma runs_step_stay st pre t buf a b pw u st' buf' a' b' pw' u' res :
  input = pre ++ t -> t <> [] ->
  stepN (at_pos st pre buf a b pw u) = SCont (mkM st' (Z.of_nat (length pre) - 1)%Z buf' a' b' pw' u') ->
  Runs (at_pos st' pre buf' a' b' pw' u') res ->
  Runs (at_pos st pre buf a b pw u) res.
Proof.
  intros Hin Hne E HR. eapply R_next; [exact E | |].
  - cbn [m_ptr]. rewrite (len_split _ _ Hin). lia.
  - unfold inc_ptr, set_ptr. cbn [m_ptr m_state m_buf m_at m_br m_pw m_url].
    unfold at_pos in HR. replace (Z.of_nat (length pre) - 1 + 1)%Z with (Z.of_nat (length pre)) by lia. exact HR.
Qed.

Lemma step_unfold st pre t buf a b pw u : input = pre ++ t ->
  stepN (at_pos st pre buf a b pw u)
  = let m := at_pos st pre buf a b pw u in
    let c := hd_error t in let rem := tl t in
    match st with
    | StSchemeStart => st_scheme_start None m c
    | StScheme => st_scheme base None m c rem
    | StNoScheme => st_no_scheme base m c
    | StSpecialRelativeOrAuthority => st_special_relative_or_authority m c rem
    | StPathOrAuthority => st_path_or_authority m c
    | StRelative => st_relative base m c
    | StRelativeSlash => st_relative_slash base m c
    | StSpecialAuthoritySlashes => st_special_authority_slashes m c rem
    | StSpecialAuthorityIgnoreSlashes => st_special_authority_ignore_slashes m c
    | StAuthority => st_authority m c
    | StHost | StHostname => st_host hp None m c
    | StPort => st_port None m c
    | StFile => st_file base m c rem
    | StFileSlash => st_file_slash base m c rem
    | StFileHost => st_file_host hp None m c
    | StPathStart => st_path_start None m c
    | StPath => st_path None m c
    | StOpaquePath => st_opaque_path m c
    | StQuery => st_query None m c
    | StFragment => st_fragment m c
    end.
Proof.
  intros Hin. unfold step, at_pos. cbn [m_ptr m_state]. rewrite (substring_at _ _ Hin). reflexivity.
Qed.

(* ================= fragment state ================= *)
Definition upe := utf8_percent_encode.

Lemma upe_cons inset c r : upe inset (c :: r) = utf8_percent_encode_cp inset c ++ upe inset r.
Proof. reflexivity. Qed.
Lemma upe_app inset x y : upe inset (x ++ y) = upe inset x ++ upe inset y.
Proof. unfold upe, utf8_percent_encode. apply flat_map_app. Qed.

Lemma set_fragment_same u f : su_fragment u = Some f -> set_fragment u (Some f) = u.
Proof. destruct u. cbn. intros ->. reflexivity. Qed.

Theorem runs_fragment : forall t pre buf a b pw u f0,
  input = pre ++ t -> su_fragment u = Some f0 ->
  Runs (at_pos StFragment pre buf a b pw u)
       (BDone (set_fragment u (Some (f0 ++ upe in_fragment_set t)))).
Proof.
  induction t as [|c r IH]; intros pre buf a b pw u f0 Hin Hf.
  - cbn [upe utf8_percent_encode flat_map]. rewrite app_nil_r, (set_fragment_same _ _ Hf).
    eapply R_end with (m' := at_pos StFragment pre buf a b pw u).
    + rewrite (step_unfold _ _ _ _ _ _ _ _ Hin). reflexivity.
    + cbn [m_ptr at_pos]. rewrite (len_split _ _ Hin). cbn [length]. lia.
  - eapply runs_step_next; [exact Hin | |].
    + rewrite (step_unfold _ _ _ _ _ _ _ _ Hin). cbn zeta. cbn [hd_error]. unfold st_fragment.
      cbn [m_url at_pos]. rewrite Hf. unfold set_url. cbn [m_state m_ptr m_buf m_at m_br m_pw]. reflexivity.
    + rewrite upe_cons, app_assoc.
      pose proof (IH (pre ++ [c]) buf a b pw
                     (set_fragment u (Some (f0 ++ utf8_percent_encode_cp in_fragment_set c)))
                     (f0 ++ utf8_percent_encode_cp in_fragment_set c) (snoc_split _ _ _ Hin) eq_refl) as H.
      exact H.
Qed.

(* ================= query state ================= *)
Fixpoint before_hash (l : list N) : list N :=
  match l with [] => [] | c :: r => if c =? 35 then [] else c :: before_hash r end.
Fixpoint after_hash (l : list N) : option (list N) :=
  match l with [] => None | c :: r => if c =? 35 then Some r else after_hash r end.

Definition qset_of (u : spec_url) : N -> bool :=
  if is_special u then in_special_query_set else in_query_set.

Definition frag_opt (u : spec_url) (f : option (list N)) : spec_url :=
  match f with
  | Some tf => set_fragment u (Some (upe in_fragment_set tf))
  | None => u
  end.

(* what the query state leaves: query = q0 ++ encoded (buffer ++ text before '#'), then the fragment *)
Definition query_final (u : spec_url) (q0 buf t : list N) : spec_url :=
  frag_opt (set_query u (Some (q0 ++ upe (qset_of u) (buf ++ before_hash t)))) (after_hash t).

Theorem runs_query : forall t pre buf a b pw u q0,
  input = pre ++ t -> su_query u = Some q0 ->
  Runs (at_pos StQuery pre buf a b pw u) (BDone (query_final u q0 buf t)).
Proof.
  induction t as [|c r IH]; intros pre buf a b pw u q0 Hin Hq.
  - unfold query_final. cbn [before_hash after_hash frag_opt].
    eapply R_end with (m' := at_pos StQuery pre [] a b pw (set_query u (Some (q0 ++ upe (qset_of u) (buf ++ []))))).
    + rewrite (step_unfold _ _ _ _ _ _ _ _ Hin). cbn zeta. cbn [hd_error]. unfold st_query.
      cbn [has_ov opt_is_some negb andb orb is_eof cis m_url m_buf at_pos]. rewrite Hq, app_nil_r.
      reflexivity.
    + cbn [m_ptr at_pos]. rewrite (len_split _ _ Hin). cbn [length]. lia.
  - destruct (c =? 35) eqn:E35.
    + unfold query_final. cbn [before_hash after_hash]. rewrite E35. cbn [frag_opt]. rewrite app_nil_r.
      set (u1 := set_query u (Some (q0 ++ upe (qset_of u) buf))).
      eapply runs_step_next with (st' := StFragment) (buf' := []) (u' := set_fragment u1 (Some []));
        [exact Hin | |].
      * rewrite (step_unfold _ _ _ _ _ _ _ _ Hin). cbn zeta. cbn [hd_error]. unfold st_query.
        cbn [has_ov opt_is_some negb andb orb is_eof cis m_url m_buf at_pos]. rewrite E35, Hq.
        cbn [orb]. reflexivity.
      * pose proof (runs_fragment r (pre ++ [c]) [] a b pw (set_fragment u1 (Some [])) []
                      (snoc_split _ _ _ Hin) eq_refl) as H.
        cbn [app] in H. exact H.
    + eapply runs_step_next with (st' := StQuery) (buf' := buf ++ [c]) (u' := u); [exact Hin | |].
      * rewrite (step_unfold _ _ _ _ _ _ _ _ Hin). cbn zeta. cbn [hd_error]. unfold st_query.
        cbn [has_ov opt_is_some negb andb orb is_eof cis m_url m_buf at_pos]. rewrite E35.
        cbn [orb]. reflexivity.
      * pose proof (IH (pre ++ [c]) (buf ++ [c]) a b pw u q0 (snoc_split _ _ _ Hin) Hq) as H.
        unfold query_final in *. cbn [before_hash after_hash]. rewrite E35.
        rewrite <- app_assoc in H. exact H.
Qed.

(* ================= what follows a path: nothing, '?query', '#fragment' ================= *)
Definition is_qh (c : N) : bool := (c =? 63) || (c =? 35).

Definition tail_url (u : spec_url) (rest : list N) : spec_url :=
  match rest with
  | [] => u
  | c :: r => if c =? 63 then query_final (set_query u (Some [])) [] [] r
              else set_fragment u (Some (upe in_fragment_set r))
  end.

(* ================= opaque path state ================= *)
Fixpoint o_path (t : list N) : list N :=
  match t with [] => [] | c :: r => if is_qh c then [] else c :: o_path r end.
Fixpoint o_rest (t : list N) : list N :=
  match t with [] => [] | c :: r => if is_qh c then t else o_rest r end.

Lemma o_rest_head t : match o_rest t with [] => True | c :: _ => is_qh c = true end.
Proof. induction t as [|c r IH]; [exact I|]. cbn [o_rest]. destruct (is_qh c) eqn:E; [exact E | exact IH]. Qed.

Theorem runs_opaque_path : forall t pre a b pw u p,
  input = pre ++ t -> su_path u = SPOpaque p ->
  Runs (at_pos StOpaquePath pre [] a b pw u)
       (BDone (tail_url (set_path u (SPOpaque (p ++ upe in_c0_control_set (o_path t)))) (o_rest t))).
Proof.
  induction t as [|c r IH]; intros pre a b pw u p Hin Hp.
  - cbn [o_path o_rest upe utf8_percent_encode flat_map tail_url]. rewrite app_nil_r.
    assert (set_path u (SPOpaque p) = u) as -> by (destruct u; cbn in *; rewrite Hp; reflexivity).
    eapply R_end with (m' := at_pos StOpaquePath pre [] a b pw u).
    + rewrite (step_unfold _ _ _ _ _ _ _ _ Hin). reflexivity.
    + cbn [m_ptr at_pos]. rewrite (len_split _ _ Hin). cbn [length]. lia.
  - cbn [o_path o_rest]. unfold is_qh at 1 2. destruct (c =? 63) eqn:E63.
    + cbn [orb upe utf8_percent_encode flat_map tail_url]. rewrite E63, app_nil_r.
      assert (set_path u (SPOpaque p) = u) as -> by (destruct u; cbn in *; rewrite Hp; reflexivity).
      eapply runs_step_next with (st' := StQuery) (buf' := []) (u' := set_query u (Some [])); [exact Hin | |].
      * rewrite (step_unfold _ _ _ _ _ _ _ _ Hin). cbn zeta. cbn [hd_error]. unfold st_opaque_path.
        cbn [cis m_url at_pos]. rewrite E63. reflexivity.
      * exact (runs_query r (pre ++ [c]) [] a b pw (set_query u (Some [])) [] (snoc_split _ _ _ Hin) eq_refl).
    + destruct (c =? 35) eqn:E35.
      * cbn [orb upe utf8_percent_encode flat_map tail_url]. rewrite E63, app_nil_r.
        assert (set_path u (SPOpaque p) = u) as -> by (destruct u; cbn in *; rewrite Hp; reflexivity).
        eapply runs_step_next with (st' := StFragment) (buf' := []) (u' := set_fragment u (Some [])); [exact Hin | |].
        -- rewrite (step_unfold _ _ _ _ _ _ _ _ Hin). cbn zeta. cbn [hd_error]. unfold st_opaque_path.
           cbn [cis m_url at_pos]. rewrite E63, E35. reflexivity.
        -- exact (runs_fragment r (pre ++ [c]) [] a b pw (set_fragment u (Some [])) [] (snoc_split _ _ _ Hin) eq_refl).
      * cbn [orb].
        eapply runs_step_next with (st' := StOpaquePath) (buf' := [])
          (u' := set_path u (SPOpaque (p ++ utf8_percent_encode_cp in_c0_control_set c))); [exact Hin | |].
        -- rewrite (step_unfold _ _ _ _ _ _ _ _ Hin). cbn zeta. cbn [hd_error]. unfold st_opaque_path.
           cbn [cis m_url at_pos]. rewrite E63, E35, Hp. reflexivity.
        -- pose proof (IH (pre ++ [c]) a b pw
                         (set_path u (SPOpaque (p ++ utf8_percent_encode_cp in_c0_control_set c)))
                         (p ++ utf8_percent_encode_cp in_c0_control_set c) (snoc_split _ _ _ Hin) eq_refl) as H.
           rewrite upe_cons, app_assoc. exact H.
Qed.

(* ================= scheme start state, scheme state ================= *)
(* the Standard's scheme scan on the (tab/newline-free) text: buffer, then the text after ':' *)
Fixpoint scheme_scan (buf : list N) (t : list N) : option (list N * list N) :=
  match t with
  | [] => None
  | c :: r => if is_scheme_cp c then scheme_scan (buf ++ [to_lower c]) r
              else if c =? 58 then Some (buf, r) else None
  end.
Definition spec_scheme (t : list N) : option (list N * list N) :=
  match t with
  | c :: _ => if is_alpha c then scheme_scan [] t else None
  | [] => None
  end.

Lemma is_alpha_scheme_cp c : is_alpha c = true -> is_scheme_cp c = true.
Proof. unfold is_scheme_cp, is_alnum. intros ->. reflexivity. Qed.

Lemma runs_step_restart st pre buf a b pw u st' buf' a' b' pw' u' res :
  stepN (at_pos st pre buf a b pw u) = SCont (mkM st' (-1)%Z buf' a' b' pw' u') ->
  Runs (at_pos st' [] buf' a' b' pw' u') res ->
  Runs (at_pos st pre buf a b pw u) res.
Proof.
  intros E HR. eapply R_next; [exact E | cbn [m_ptr]; lia | exact HR].
Qed.

(* the scheme state fails: start over in the no scheme state, at the first code point *)
Lemma runs_scheme_none : forall t pre buf a b pw u res,
  input = pre ++ t -> scheme_scan buf t = None ->
  Runs (at_pos StNoScheme [] [] a b pw u) res ->
  Runs (at_pos StScheme pre buf a b pw u) res.
Proof.
  induction t as [|c r IH]; intros pre buf a b pw u res Hin Hs HR.
  - eapply runs_step_restart; [|exact HR].
    rewrite (step_unfold _ _ _ _ _ _ _ _ Hin). reflexivity.
  - cbn [scheme_scan] in Hs. destruct (is_scheme_cp c) eqn:Ec.
    + eapply runs_step_next with (st' := StScheme) (buf' := buf ++ [to_lower c]) (u' := u); [exact Hin | |].
      * rewrite (step_unfold _ _ _ _ _ _ _ _ Hin). cbn zeta. cbn [hd_error]. unfold st_scheme.
        cbn [cpred]. rewrite Ec. reflexivity.
      * exact (IH (pre ++ [c]) _ a b pw u res (snoc_split _ _ _ Hin) Hs HR).
    + destruct (c =? 58) eqn:E58; [discriminate|].
      eapply runs_step_restart; [|exact HR].
      rewrite (step_unfold _ _ _ _ _ _ _ _ Hin). cbn zeta. cbn [hd_error]. unfold st_scheme.
      cbn [cpred cis]. rewrite Ec, E58. reflexivity.
Qed.

(* the scheme state succeeds: the machine arrives at the ':' with the scheme in the buffer *)
Lemma runs_scheme_some : forall t pre buf a b pw u sch rest res,
  input = pre ++ t -> scheme_scan buf t = Some (sch, rest) ->
  exists pre', input = pre' ++ 58 :: rest
    /\ (Runs (at_pos StScheme pre' sch a b pw u) res -> Runs (at_pos StScheme pre buf a b pw u) res).
Proof.
  induction t as [|c r IH]; intros pre buf a b pw u sch rest res Hin Hs; [discriminate|].
  cbn [scheme_scan] in Hs. destruct (is_scheme_cp c) eqn:Ec.
  - destruct (IH (pre ++ [c]) _ a b pw u sch rest res (snoc_split _ _ _ Hin) Hs) as (pre' & Hin' & K).
    exists pre'. split; [exact Hin'|]. intros HR.
    eapply runs_step_next with (st' := StScheme) (buf' := buf ++ [to_lower c]) (u' := u); [exact Hin | |].
    + rewrite (step_unfold _ _ _ _ _ _ _ _ Hin). cbn zeta. cbn [hd_error]. unfold st_scheme.
      cbn [cpred]. rewrite Ec. reflexivity.
    + exact (K HR).
  - destruct (c =? 58) eqn:E58; [|discriminate]. inversion Hs; subst buf rest.
    apply N.eqb_eq in E58. subst c. exists pre. split; [exact Hin | tauto].
Qed.

Definition m0 : machine := mkM StSchemeStart 0%Z [] false false false empty_url.

Lemma m0_at : m0 = at_pos StSchemeStart [] [] false false false empty_url.
Proof. reflexivity. Qed.

(* no scheme: the no scheme state runs on the whole input *)
Theorem runs_no_scheme res : spec_scheme input = None ->
  Runs (at_pos StNoScheme [] [] false false false empty_url) res -> Runs m0 res.
Proof.
  intros Hs HR. rewrite m0_at. unfold spec_scheme in Hs.
  destruct input as [|c r] eqn:Ein.
  - eapply (runs_step_restart StSchemeStart [] [] false false false empty_url StNoScheme [] false false false empty_url);
      [|exact HR].
    rewrite (step_unfold _ [] [] _ _ _ _ _ Ein). reflexivity.
  - destruct (is_alpha c) eqn:Ea.
    + cbn [scheme_scan] in Hs. rewrite (is_alpha_scheme_cp c Ea) in Hs.
      eapply (runs_step_next StSchemeStart [] c r) with (st' := StScheme) (buf' := [] ++ [to_lower c]) (u' := empty_url);
        [exact Ein | |].
      * rewrite (step_unfold _ [] (c :: r) _ _ _ _ _ Ein). cbn zeta. cbn [hd_error]. unfold st_scheme_start.
        cbn [cpred]. rewrite Ea. reflexivity.
      * eapply (runs_scheme_none r ([] ++ [c])); [exact Ein | exact Hs | exact HR].
    + eapply (runs_step_stay StSchemeStart [] (c :: r)) with (st' := StNoScheme) (buf' := []) (u' := empty_url);
        [exact Ein | discriminate | | exact HR].
      rewrite (step_unfold _ [] (c :: r) _ _ _ _ _ Ein). cbn zeta. cbn [hd_error]. unfold st_scheme_start.
      cbn [cpred]. rewrite Ea. reflexivity.
Qed.

(* a scheme: the machine arrives at the ':' in the scheme state with the scheme in the buffer *)
Theorem runs_scheme sch rest res : spec_scheme input = Some (sch, rest) ->
  exists pre', input = pre' ++ 58 :: rest
    /\ (Runs (at_pos StScheme pre' sch false false false empty_url) res -> Runs m0 res).
Proof.
  intros Hs. rewrite m0_at. unfold spec_scheme in Hs.
  destruct input as [|c r] eqn:Ein; [discriminate|].
  destruct (is_alpha c) eqn:Ea; [|discriminate].
  cbn [scheme_scan] in Hs. rewrite (is_alpha_scheme_cp c Ea) in Hs.
  rewrite <- Ein in *.
  destruct (runs_scheme_some r ([] ++ [c]) ([] ++ [to_lower c]) false false false empty_url sch rest res)
    as (pre' & Hin' & K); [exact Ein | exact Hs |].
  exists pre'. split; [exact Hin'|]. intros HR.
  eapply (runs_step_next StSchemeStart [] c r) with (st' := StScheme) (buf' := [] ++ [to_lower c]) (u' := empty_url);
    [exact Ein | | exact (K HR)].
  rewrite (step_unfold _ [] (c :: r) _ _ _ _ _ Ein). cbn zeta. cbn [hd_error]. unfold st_scheme_start.
  cbn [cpred]. rewrite Ea. reflexivity.
Qed.

(* the run at the ':' for a non-special scheme without base-independent dispatch: opaque path *)
Theorem runs_scheme_colon_opaque pre sch rest res :
  input = pre ++ 58 :: rest -> is_special_scheme sch = false -> starts_with_cp 47 rest = false ->
  Runs (at_pos StOpaquePath (pre ++ [58]) [] false false false
               (set_path (set_scheme empty_url sch) (SPOpaque []))) res ->
  Runs (at_pos StScheme pre sch false false false empty_url) res.
Proof.
  intros Hin Hns H47 HR.
  eapply runs_step_next with (st' := StOpaquePath) (buf' := []); [exact Hin | | exact HR].
  rewrite (step_unfold _ _ _ _ _ _ _ _ Hin). cbn zeta. cbn [hd_error tl]. unfold st_scheme.
  assert (is_scheme_cp 58 = false) as E1 by reflexivity.
  cbn [cpred cis has_ov opt_is_some andb m_url m_buf at_pos]. rewrite E1.
  replace (58 =? 58) with true by reflexivity.
  unfold is_special. cbn [su_scheme set_scheme empty_url].
  assert (list_eqb sch str_file = false) as Ef.
  { destruct (list_eqb sch str_file) eqn:E; [|reflexivity]. apply list_eqb_spec in E. subst sch. discriminate. }
  rewrite Ef, Hns, H47. cbn [andb]. reflexivity.
Qed.

(* the run at the ':' for a non-special scheme followed by '/': path or authority state, after the '/' *)
Theorem runs_scheme_colon_slash pre sch rest res :
  input = pre ++ 58 :: 47 :: rest -> is_special_scheme sch = false ->
  Runs (at_pos StPathOrAuthority (pre ++ [58; 47]) [] false false false (set_scheme empty_url sch)) res ->
  Runs (at_pos StScheme pre sch false false false empty_url) res.
Proof.
  intros Hin Hns HR.
  eapply R_next with (m' := mkM StPathOrAuthority (Z.of_nat (length pre) + 1)%Z [] false false false (set_scheme empty_url sch)).
  - rewrite (step_unfold _ _ _ _ _ _ _ _ Hin). cbn zeta. cbn [hd_error tl]. unfold st_scheme.
    assert (is_scheme_cp 58 = false) as E1 by reflexivity.
    cbn [cpred cis has_ov opt_is_some andb m_url m_buf at_pos]. rewrite E1.
    replace (58 =? 58) with true by reflexivity.
    unfold is_special. cbn [su_scheme set_scheme empty_url].
    assert (list_eqb sch str_file = false) as Ef.
    { destruct (list_eqb sch str_file) eqn:E; [|reflexivity]. apply list_eqb_spec in E. subst sch. discriminate. }
    rewrite Ef, Hns. cbn [andb starts_with_cp]. replace (47 =? 47) with true by reflexivity. reflexivity.
  - cbn [m_ptr]. rewrite (len_split _ _ Hin). cbn [length]. lia.
  - unfold inc_ptr, set_ptr. cbn [m_ptr m_state m_buf m_at m_br m_pw m_url].
    unfold at_pos in HR. rewrite app_length in HR. cbn [length] in HR.
    replace (Z.of_nat (length pre) + 1 + 1)%Z with (Z.of_nat (length pre + 2)) by lia. exact HR.
Qed.

End Runs.

(* ---------- from the big-step reading back to the parser as it is invoked ---------- *)
Definition spec_clean (raw : list N) : list N :=
  filter (fun c => negb (is_ascii_tab_or_newline c))
         (strip_leading_and_trailing is_c0_control_or_space raw).

Theorem spec_parse_of_runs hp raw base r :
  Runs hp (spec_clean raw) base m0 r -> spec_basic_url_parse hp raw base = r.
Proof.
  intros HR. unfold spec_basic_url_parse. fold (spec_clean raw).
  apply (runs_run hp (spec_clean raw) base m0 r HR).
  exact (spec_basic_url_parse_never_out_of_fuel hp raw base).
Qed.
