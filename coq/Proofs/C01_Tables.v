(* Proofs/C01_Tables.v - the percent-encode sets, default ports and special schemes regenerated from
   the Rust sources are the Standard's (Spec/Whatwg.v defines its own, independently). *)
From RU Require Import Base.Prelude Model.AsciiSet Gen.Tables Model.HostT Model.UrlRecord Spec.Whatwg.

Notation set_agrees S inset := (all_below 256 (fun b => Bool.eqb (should_encode S b) (inset b))).

Lemma set_agrees_spec S inset : set_agrees S inset = true ->
  forall b, b < 256 -> should_encode S b = inset b.
Proof.
  intros H b Hb. apply Bool.eqb_prop.
  exact (all_below_spec 256 (fun x => Bool.eqb (should_encode S x) (inset x)) H b Hb).
Qed.

Lemma sets_agree_computed :
  set_agrees T_CONTROLS in_c0_control_set = true
  /\ set_agrees T_FRAGMENT in_fragment_set = true
  /\ set_agrees T_QUERY in_query_set = true
  /\ set_agrees T_SPECIAL_QUERY in_special_query_set = true
  /\ set_agrees T_PATH in_path_set = true
  /\ set_agrees T_USERINFO in_userinfo_set = true.
Proof. vm_compute. repeat split. Qed.

(* above the byte range both sides always encode: the Standard's sets contain every code point > 126,
   and every byte of the UTF-8 encoding of such a code point is >= 128 *)
Lemma spec_sets_contain_non_ascii c : 126 < c ->
  in_c0_control_set c = true /\ in_fragment_set c = true /\ in_query_set c = true
  /\ in_special_query_set c = true /\ in_path_set c = true /\ in_userinfo_set c = true.
Proof.
  intros H. assert (in_c0_control_set c = true) as H0.
  { unfold in_c0_control_set. replace (126 <? c) with true by lia. apply orb_true_r. }
  unfold in_fragment_set, in_userinfo_set, in_path_set, in_special_query_set, in_query_set.
  rewrite H0. cbn [orb]. repeat split; reflexivity.
Qed.

Theorem tables_are_the_standards : forall b, b < 256 ->
  should_encode T_CONTROLS b = in_c0_control_set b
  /\ should_encode T_FRAGMENT b = in_fragment_set b
  /\ should_encode T_QUERY b = in_query_set b
  /\ should_encode T_SPECIAL_QUERY b = in_special_query_set b
  /\ should_encode T_PATH b = in_path_set b
  /\ should_encode T_USERINFO b = in_userinfo_set b.
Proof.
  intros b Hb. destruct sets_agree_computed as (H1 & H2 & H3 & H4 & H5 & H6).
  split; [exact (set_agrees_spec T_CONTROLS in_c0_control_set H1 b Hb)|].
  split; [exact (set_agrees_spec T_FRAGMENT in_fragment_set H2 b Hb)|].
  split; [exact (set_agrees_spec T_QUERY in_query_set H3 b Hb)|].
  split; [exact (set_agrees_spec T_SPECIAL_QUERY in_special_query_set H4 b Hb)|].
  split; [exact (set_agrees_spec T_PATH in_path_set H5 b Hb)|].
  exact (set_agrees_spec T_USERINFO in_userinfo_set H6 b Hb).
Qed.

(* schemes *)
Lemma list_eqb_sym a b : list_eqb a b = list_eqb b a.
Proof.
  revert b. induction a as [|x a IH]; intros [|y b]; cbn [list_eqb]; try reflexivity.
  rewrite IH, N.eqb_sym. reflexivity.
Qed.

Ltac six_cases s :=
  destruct (list_eqb s s_ftp) eqn:E1; [apply list_eqb_spec in E1; subst; reflexivity|];
  destruct (list_eqb s s_file) eqn:E2; [apply list_eqb_spec in E2; subst; reflexivity|];
  destruct (list_eqb s s_http) eqn:E3; [apply list_eqb_spec in E3; subst; reflexivity|];
  destruct (list_eqb s s_https) eqn:E4; [apply list_eqb_spec in E4; subst; reflexivity|];
  destruct (list_eqb s s_ws) eqn:E5; [apply list_eqb_spec in E5; subst; reflexivity|];
  destruct (list_eqb s s_wss) eqn:E6; [apply list_eqb_spec in E6; subst; reflexivity|].

Ltac flip_spec_tests s :=
  rewrite (list_eqb_sym str_ftp s), (list_eqb_sym str_file s), (list_eqb_sym str_http s),
    (list_eqb_sym str_https s), (list_eqb_sym str_ws s), (list_eqb_sym str_wss s);
  change str_ftp with s_ftp; change str_file with s_file; change str_http with s_http;
  change str_https with s_https; change str_ws with s_ws; change str_wss with s_wss.

Theorem default_ports_are_the_standards : forall s, default_port s = scheme_default_port s.
Proof.
  intros s. six_cases s.
  unfold default_port, scheme_default_port, special_schemes. cbn [find fst].
  rewrite E1, E3, E4, E5, E6. cbn [orb]. flip_spec_tests s.
  rewrite E1, E2, E3, E4, E5, E6. reflexivity.
Qed.

Theorem special_schemes_are_the_standards : forall s,
  st_is_special (scheme_type_of s) = is_special_scheme s.
Proof.
  intros s. six_cases s.
  unfold scheme_type_of, is_special_scheme, special_schemes. cbn [existsb fst].
  rewrite E1, E2, E3, E4, E5, E6. cbn [orb st_is_special]. flip_spec_tests s.
  rewrite E1, E2, E3, E4, E5, E6. reflexivity.
Qed.
