(* Proofs/C02_FileOps.v - L2 on canonical file records (FileCanon) for the mutators other than the query / fragment
   setters of C02_FileSet:
     - the credential and port setters (Url::set_port / set_password / set_username, quirks username / password /
       port) refuse a file record: it is returned unchanged (file_refused);
     - Url::set_scheme / quirks protocol: a file record without a host is returned unchanged, a file record with a
       host h becomes the canonical special record  ns "://" h path [?q] [#f]  (Canon_special) or stays unchanged
       (set_scheme_File) - a file record with a host IS the authority frame auth_url "file" UNone h None (file_curl_auth);
     - Url::set_host(None): the host text is removed, the result is the canonical file record without a host
       (set_host_none_File). *)
From RU Require Import Proofs.C15_Ser.
From Coq Require Import String.
From RU Require Import Base.Prelude Base.Utf8 Base.Utf8Facts Base.Outcome_c15 Model.AsciiSet Gen.Tables
  Model.PercentEncoding Model.HostT Model.Host Model.UrlRecord Model.Parser Model.Setters Model.WF Model.FormUrlencoded
  Model.QueryPairs
  Proofs.ListN Proofs.C02_Enc Proofs.C02_Parts Proofs.C02_Opaque Proofs.C02_Path Proofs.C02_PathL1 Proofs.C02_Reach
  Proofs.C02_AuthParts Proofs.C02_Auth Proofs.C02_AuthWf Proofs.C02_PathSp Proofs.C02_AuthSp Proofs.C02_AuthMain
  Proofs.C02_Hist Proofs.C02_SetQF Proofs.C02_Canon Proofs.C02_SetPort Proofs.C02_JoinTail Proofs.C02_ReachPartial
  Proofs.C02_SetCred Proofs.C02_SetHostFrame Proofs.C02_SetHostCanon Proofs.C02_SetHostNone Proofs.C02_SetScheme
  Proofs.C02_File Proofs.C02_FileL1 Proofs.C02_FileCanon Proofs.C02_FileParse Proofs.C02_FileSet.
Open Scope N_scope.
Open Scope list_scope.

Section FileOps.
Variable dbg : bool.
Variable hp hpo : list N -> result host.
Variable hd : host -> list N.
Hypothesis HRT : HostRT hp hpo hd.

Lemma file_curl_auth h segs last q f :
  file_curl hd (Some h) (path_text segs last) q f = auth_url hd s_file UNone h None (Some (segs, last)) q f.
Proof.
  unfold file_curl, qf_url, file_pre, file_front, auth_url, auth_ser, auth_pre, auth_front.
  cbn [ui_text ui_ulen port_text fhost_text fhost_hi pth_text app].
  rewrite !app_nil_r. change (s_file ++ [58; 47; 47]) with s_file_css.
  rewrite !nlen_app. change (nlen s_file_css) with 7. change (nlen s_file) with 4. change (nlen (@nil N)) with 0.
  f_equal; lia.
Qed.

Lemma file_curl_sf_none T q f :
  file_curl hd None T q f = sf_url s_file ([58; 47; 47] ++ T) 3 3 3 HI_None None 3 q f.
Proof.
  unfold file_curl, qf_url, file_pre, file_front, sf_url. cbn [fhost_text fhost_hi]. rewrite app_nil_r.
  change s_file_css with (s_file ++ [58; 47; 47]). rewrite <- !app_assoc. reflexivity.
Qed.

Lemma file_cannot_port ho segs last q f : fhost_ok hp hd ho ->
  cannot_have_credentials_or_port (file_curl hd ho (path_text segs last) q f) = Some true.
Proof.
  intros Kh. destruct ho as [h|]; [|reflexivity].
  rewrite file_curl_auth. set (sch := s_file). set (ui := UNone). set (pt := @None N). set (p := Some (segs, last)).
  destruct Kh as (Hne & _ & Ht & _).
  unfold cannot_have_credentials_or_port, has_host. cbn [hosti auth_url].
  pose proof (auth_scheme hd sch ui h pt p q f) as Es.
  assert (hd h <> []) as Hn by (destruct Ht as (_ & Hn & _); exact Hn).
  assert (u_slice (auth_url hd sch ui h pt p q f) (nlen sch + 3 + nlen (ui_text ui)) (nlen sch + 3 + nlen (ui_text ui) + nlen (hd h))
          = Some (hd h)) as Esl.
  { unfold u_slice. cbn [auth_url ser]. rewrite auth_ser_shape.
    rewrite slice_o_some; [| lia | rewrite !nlen_app; cbn [nlen length]; rewrite !nlen_cons, !nlen_app; lia].
    replace (nlen sch + 3 + nlen (ui_text ui) + nlen (hd h) - (nlen sch + 3 + nlen (ui_text ui))) with (nlen (hd h)) by lia.
    change (sch ++ 58 :: 47 :: 47 :: ui_text ui ++ hd h ++ port_text pt ++ pth_text p ++ qf_text q f)
      with (sch ++ [58; 47; 47] ++ ui_text ui ++ hd h ++ port_text pt ++ pth_text p ++ qf_text q f).
    rewrite (app_assoc sch), (app_assoc (sch ++ [58; 47; 47])).
    replace (nlen sch + 3 + nlen (ui_text ui)) with (nlen ((sch ++ [58; 47; 47]) ++ ui_text ui))
      by (rewrite !nlen_app; reflexivity).
    rewrite nskipn_app_len, nfirstn_app_len. reflexivity. }
  destruct h as [[|c d]|a|pcs]; [contradiction| | |]; cbn [hi_of_host negb host_of hosti auth_url].
  - change (host_start (auth_url hd sch ui (HDomain (c :: d)) pt p q f)) with (nlen sch + 3 + nlen (ui_text ui)).
    change (host_end (auth_url hd sch ui (HDomain (c :: d)) pt p q f)) with (nlen sch + 3 + nlen (ui_text ui) + nlen (hd (HDomain (c :: d)))).
    rewrite Esl. cbn [bindo]. rewrite Es. cbn [bindo]. change (list_eqb sch s_file) with true. rewrite orb_true_r. reflexivity.
  - rewrite Es. cbn [bindo]. reflexivity.
  - rewrite Es. cbn [bindo]. reflexivity.
Qed.

Notation FileCanon := (FileCanon hp hd).

(* the credential and port setters refuse a file record: it is returned unchanged *)
Definition file_refused_op (o : op) : bool :=
  match o with OSetPort _ | OSetPassword _ | OSetUsername _ | OQUsername _ | OQPassword _ | OQPort _ => true | _ => false end.

Theorem file_refused u o u' : FileCanon u -> file_refused_op o = true ->
  apply_op dbg hp hpo hd u o = Some u' -> u' = u.
Proof.
  intros [ho segs last q f K] Ho. pose proof (file_cannot_port ho segs last q f (fk_host _ _ _ _ _ _ _ K)) as Hc.
  destruct o; try discriminate Ho; cbn [apply_op];
    unfold q_set_username, q_set_password, q_set_port, set_port, set_password, set_username; rewrite Hc; cbn [bindo option_map fst];
    intros E; inversion E; reflexivity.
Qed.


Lemma set_scheme_file_nohost T q f x r :
  set_scheme dbg (file_curl hd None T q f) x = Some r -> r = (file_curl hd None T q f, SErrUnit).
Proof.
  rewrite file_curl_sf_none. set (U := sf_url s_file ([58; 47; 47] ++ T) 3 3 3 HI_None None 3 q f). unfold set_scheme.
  destruct (parse_scheme CSetter (input_new_no_trim x)) as [[ns rem]|]; [|intros E; inversion E; reflexivity].
  unfold u_scheme_type. unfold U at 1. rewrite sf_scheme. cbn [bindo].
  destruct (has_authority dbg U) as [ha|]; [|discriminate]. cbn [bindo].
  change (scheme_type_of s_file) with STFile. cbn [st_is_special negb andb].
  destruct (st_is_special (scheme_type_of ns)) eqn:Esp; cbn [negb andb orb].
  - destruct (st_is_file (scheme_type_of ns) && ha); [intros E; inversion E; reflexivity|].
    change (has_host U) with false. cbn [negb andb]. rewrite orb_true_r. intros E; inversion E; reflexivity.
  - intros E; inversion E; reflexivity.
Qed.

Lemma set_port_none u : set_port dbg u None
  = (c <- cannot_have_credentials_or_port u ;; if c then Some (u, SErrUnit) else
     s <- scheme u ;; u' <- set_port_internal dbg u None ;; Some (u', SOk)).
Proof. reflexivity. Qed.

Lemma fhost_host_ok h : fhost_ok hp hd (Some h) -> host_ok hp hpo hd STSpecialNotFile h.
Proof.
  intros (Hne & _ & Ht & Hp & Ha & _). right. split; [exact Hne|]. split; [exact Ht|]. split; [exact Hp | exact Ha].
Qed.

Theorem set_scheme_file_host h segs last q f x u' s : file_ok hp hd (Some h) segs last q f ->
  set_scheme dbg (file_curl hd (Some h) (path_text segs last) q f) x = Some (u', s) -> nlen (ser u') <= U32_MAX_P ->
  u' = file_curl hd (Some h) (path_text segs last) q f
  \/ exists ns, auth_ok hp hpo hd STSpecialNotFile ns UNone h None (Some (segs, last)) q f
                /\ u' = auth_url hd ns UNone h None (Some (segs, last)) q f.
Proof.
  intros K E Hb. rewrite file_curl_auth in *. set (p := Some (segs, last)) in *.
  rewrite auth_url_sf in E. apply set_scheme_sf in E. rewrite <- !auth_url_sf in E.
  destruct E as [E | (ns & rem & ha & Ep & Eh & Esp & Efile & r' & Er & E)].
  - inversion E; subst. left. reflexivity.
  - right. rewrite <- auth_url_sf in Er. rewrite auth_has_authority in Eh. inversion Eh; subst ha. rewrite andb_true_r in Efile.
    pose proof (parse_scheme_out_g _ _ _ _ Ep) as Hcan.
    assert (scheme_type_of ns = STSpecialNotFile) as Est.
    { change (scheme_type_of s_file) with STFile in Esp. destruct (scheme_type_of ns); try discriminate; reflexivity. }
    inversion E; subst u' s. clear E.
    pose proof (fhost_host_ok h (fk_host _ _ _ _ _ _ _ K)) as Kh.
    rewrite set_port_none in Er. rewrite (auth_cannot_port_g hp hpo hd STSpecialNotFile ns UNone h None p q f Est eq_refl Kh) in Er.
    cbn [bindo] in Er.
    assert (h <> HDomain []) as Hne by (destruct (fk_host _ _ _ _ _ _ _ K) as (Hne & _); exact Hne).
    destruct (match h with HDomain [] => true | _ => false end) eqn:Ehe.
    { exfalso. apply Hne. destruct h as [[|c d]|a|pcs]; try discriminate Ehe; reflexivity. }
    rewrite auth_scheme in Er. cbn [bindo] in Er. rewrite auth_url_hp in Er. rewrite set_port_internal_frame in Er.
    cbn [bindo] in Er. rewrite <- auth_url_hp in Er. inversion Er; subst r'. cbn [fst] in *.
    exists ns. split; [|reflexivity].
    destruct K as [Kh0 Ksegs Klast Kfirst Kq Kf Kb1 Kbq Kbf].
    cbn [auth_url ser] in Hb. destruct (qf_bounds _ _ _ _ Hb) as [B1 B2].
    constructor; try assumption; try exact I.
    + intros Ee. contradiction.
    + split; [apply good_segs_sp_good; apply fsegs_ok_sp; exact Ksegs | apply good_seg_sp_good; apply fseg_ok_sp; exact Klast].
    + unfold C02_Auth.auth_ser, auth_pre in Hb. rewrite !nlen_app in Hb. lia.
Qed.

Theorem set_scheme_File u x u' s : FileCanon u ->
  set_scheme dbg u x = Some (u', s) -> nlen (ser u') <= U32_MAX_P -> u' = u \/ Canon hp hpo hd u'.
Proof.
  intros [ho segs last q f K] E Hb. destruct ho as [h|].
  - destruct (set_scheme_file_host h segs last q f x u' s K E Hb) as [-> | (ns & K' & ->)]; [left; reflexivity|].
    right. apply Canon_special; [exact K'|]. cbn [pth_ok_sp]. split.
    + apply fsegs_ok_sp. exact (fk_segs _ _ _ _ _ _ _ K).
    + apply fseg_ok_sp. exact (fk_last _ _ _ _ _ _ _ K).
  - apply set_scheme_file_nohost in E. inversion E. left. reflexivity.
Qed.

(* ---------- Url::set_host(None) ---------- *)
Lemma file_scheme ho segs last q f : scheme (file_curl hd ho (path_text segs last) q f) = Some s_file.
Proof.
  destruct ho as [h|]; [rewrite file_curl_auth; apply auth_scheme | rewrite file_curl_sf_none; apply sf_scheme].
Qed.

Lemma file_sub_qs M X q : sub_off_opt dbg (qf_qs (nlen ((s_file_css ++ M) ++ X)) q) (nlen M) = Some (qf_qs (nlen (s_file_css ++ X)) q).
Proof.
  destruct q as [x|]; cbn [qf_qs]; [|reflexivity]. unfold sub_off_opt, adjust_opt.
  rewrite adjust_ge by (rewrite !nlen_app; lia). cbn [bindo]. do 2 f_equal. rewrite !nlen_app. lia.
Qed.
Lemma file_sub_fs M X q f : sub_off_opt dbg (qf_fs (nlen ((s_file_css ++ M) ++ X)) q f) (nlen M) = Some (qf_fs (nlen (s_file_css ++ X)) q f).
Proof.
  destruct f as [y|]; cbn [qf_fs]; [|reflexivity]. unfold sub_off_opt, adjust_opt.
  rewrite adjust_ge by (rewrite !nlen_app; lia). cbn [bindo]. do 2 f_equal. rewrite !nlen_app. lia.
Qed.

Theorem set_host_none_file h segs last q f : h <> HDomain [] ->
  set_host dbg hp hpo hd (file_curl hd (Some h) (path_text segs last) q f) None
  = Some (file_curl hd None (path_text segs last) q f, SOk).
Proof.
  intros Hne. set (T := path_text segs last). set (U := file_curl hd (Some h) T q f). set (W := segs_text segs ++ last ++ qf_text q f).
  assert (ser U = (s_file_css ++ hd h) ++ 47 :: W) as Es.
  { unfold U, file_curl, qf_url, file_pre, file_front, T, path_text, W. cbn [ser fhost_text]. rewrite <- !app_assoc. cbn [app]. rewrite <- !app_assoc. reflexivity. }
  unfold set_host. unfold U at 1. rewrite file_curl_cbb. cbn [bindo].
  unfold u_scheme_type. unfold U at 1, T. rewrite file_scheme. cbn [bindo]. change (scheme_type_of s_file) with STFile.
  cbn [st_is_special st_is_file negb andb].
  assert (has_host U = true) as ->.
  { unfold has_host, U, file_curl, qf_url. cbn [hosti fhost_hi]. destruct h as [[|c d]|a|pcs]; [contradiction | reflexivity ..]. }
  rewrite Es. change (path_start U) with (nlen (s_file_css ++ hd h)). change (scheme_end U) with 4.
  change (query_start U) with (qf_qs (nlen ((s_file_css ++ hd h) ++ T)) q).
  change (fragment_start U) with (qf_fs (nlen ((s_file_css ++ hd h) ++ T)) q f).
  replace (nlen ((s_file_css ++ hd h) ++ 47 :: W) =? nlen (s_file_css ++ hd h)) with false
    by (symmetry; apply N.eqb_neq; rewrite (nlen_app _ (47 :: W)), nlen_cons; lia).
  unfold dbg_byte_is, byte_is, byte_at, set_ser. cbn [ser].
  assert (nnth ((s_file_css ++ hd h) ++ 47 :: W) 4 = Some 58) as ->.
  { unfold s_file_css, s_css. rewrite <- !app_assoc. cbn [app]. change 4 with (nlen s_file). apply nnth_app_at_loc. }
  rewrite nnth_app_at_loc. cbn [bindo]. rewrite !N.eqb_refl. cbn [assert_o].
  assert ((if dbg then Some tt else Some tt) = Some tt) as -> by (destruct dbg; reflexivity). cbn [bindo].
  replace ((4 + 3 <=? nlen (s_file_css ++ hd h)) && (nlen (s_file_css ++ hd h) <=? nlen ((s_file_css ++ hd h) ++ 47 :: W))) with true
    by (symmetry; rewrite !nlen_app; apply andb_true_iff; split; apply N.leb_le; change (nlen s_file_css) with 7; lia).
  cbn [assert_o bindo].
  replace (nlen (s_file_css ++ hd h) - (4 + 3)) with (nlen (hd h)) by (rewrite nlen_app; change (nlen s_file_css) with 7; lia).
  rewrite file_sub_qs, file_sub_fs. cbn [bindo].
  rewrite nskipn_app_len. rewrite <- (app_assoc s_file_css (hd h)). change (4 + 3) with (nlen s_file_css). rewrite nfirstn_app_len.
  unfold file_curl, qf_url, file_pre, file_front, T, path_text, W. cbn [fhost_text fhost_hi]. rewrite !app_nil_r.
  rewrite <- !app_assoc. cbn [app]. rewrite <- !app_assoc. reflexivity.
Qed.

Theorem set_host_none_File u u' s : FileCanon u ->
  set_host dbg hp hpo hd u None = Some (u', s) -> FileCanon u'.
Proof.
  intros [ho segs last q f K] E. destruct ho as [h|].
  - destruct (fk_host _ _ _ _ _ _ _ K) as (Hne & _).
    rewrite (set_host_none_file h segs last q f Hne) in E. inversion E; subst u' s. clear E.
    destruct K as [Kh Ksegs Klast Kfirst Kq Kf Kb1 Kbq Kbf].
    assert (nlen (file_pre hd None (path_text segs last)) <= nlen (file_pre hd (Some h) (path_text segs last))) as Hle.
    { unfold file_pre, file_front. cbn [fhost_text]. rewrite !nlen_app. change (nlen (@nil N)) with 0. lia. }
    apply FileCanon_intro. constructor; try assumption.
    + exact I.
    + vm_compute. discriminate.
    + exact (qf_qs_mono _ _ q _ Hle Kbq).
    + exact (qf_fs_mono _ _ q f _ Hle Kbf).
  - unfold set_host in E. rewrite file_curl_cbb in E. cbn [bindo] in E.
    unfold u_scheme_type in E. rewrite file_scheme in E. cbn [bindo] in E.
    change (has_host (file_curl hd None (path_text segs last) q f)) with false in E.
    inversion E; subst u' s. apply FileCanon_intro. exact K.
Qed.
End FileOps.
