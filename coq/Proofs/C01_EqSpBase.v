(* Proofs/C01_EqSpBase.v - C01 equivalence for scheme-less references against a `related` base with a SPECIAL
   non-file scheme (http, https, ws, wss, ftp) that has a host:
     class "special-authority"   two leading '/' or '\' (any mix, any number): relative -> relative slash ->
                                 special authority ignore slashes -> authority state on the scheme of the base;
     class "special path-absolute"  one leading '/' or '\';
     class "special path-relative"  anything else that is not '?', '#' or empty.
   Specification side: the no scheme, relative and relative slash states for a special base; then
   runs_authority_s / runs_path_s of Proofs/C01_EqSpSpec.v (generic in the base).  Model side:
   parse_relative with STSpecialNotFile: after_double_slash (model_sp of Proofs/C01_EqSp.v), resp. pop_path and
   parse_path (loop_exact_s of Proofs/C01_EqSpPath.v) and with_query_and_fragment. *)
From RU Require Import Base.Prelude Base.Utf8 Base.Utf8Facts Model.AsciiSet Gen.Tables
  Model.PercentEncoding Model.HostT Model.UrlRecord Model.Parser Model.Setters Model.WF Model.KnownC08 Spec.Whatwg
  Proofs.ListN Proofs.C14_Set Proofs.C14_Enc Proofs.C14_Views Proofs.C02_Enc Proofs.C02_Parts
  Proofs.C02_Opaque Proofs.C02_Path Proofs.C02_PathL1 Proofs.C03_WF Proofs.C01_Tables Proofs.C08_Input
  Proofs.C01_EqRun Proofs.C01_EqEnc Proofs.C01_EqApi Proofs.C01_EqOpaque Proofs.C01_EqDots Proofs.C01_EqPathSpec
  Proofs.C06_List Proofs.C06_WFI Proofs.C06_Tail Proofs.C06_Steps Proofs.C06_FragQuery Proofs.C06_PathParser Proofs.C06_Path
  Proofs.C08_Simple Proofs.C08_Contain Proofs.C08_NoAuth
  Proofs.C01_EqRef Proofs.C01_EqPath Proofs.C01_EqOverflow Proofs.C01_EqEmpty Proofs.C01_EqClasses
  Proofs.C01_EqAuthSpec Proofs.C01_EqAuthModel Proofs.C01_EqAuth Proofs.C01_EqClasses2 Proofs.C01_EqRel Proofs.C01_EqRelPath
  Proofs.C01_EqRelArms Proofs.C01_EqRelBase
  Proofs.C01_EqSpSpec Proofs.C01_EqSpPath Proofs.C01_EqSpRel Proofs.C01_EqSpModel Proofs.C01_EqSp Proofs.C01_EqAbs.

(* the special path state started on the segment list P0 (empty buffer), on the text t *)
Definition rel_path_result_s (sb : spec_url) (P0 : list (list N)) (t : list N) : spec_url :=
  tail_url (rel_keep sb (fst (spath_s t P0 []))) (snd (spath_s t P0 [])).

(* ================= specification side ================= *)
Section SpecRelS.
Variable shp : bool -> list N -> option spec_host.
Variable inp : list N.                 (* the cleaned reference *)
Variable sb : spec_url.
Hypothesis Hop : has_opaque_path sb = false.
Hypothesis Hsp : is_special_scheme (su_scheme sb) = true.
Hypothesis Hnf : list_eqb (su_scheme sb) str_file = false.

Notation RunsB := (Runs shp inp (Some sb)).
Notation u0 := (set_scheme empty_url (su_scheme sb)).

Lemma runs_to_relative_s res : spec_scheme inp = None -> inp <> [] ->
  RunsB (at_pos StRelative [] [] false false false empty_url) res -> RunsB m0 res.
Proof.
  intros Hs Hne HR. apply runs_no_scheme; [exact Hs|].
  eapply (runs_step_stay shp inp (Some sb) StNoScheme [] inp) with (st' := StRelative) (buf' := []);
    [reflexivity | exact Hne | | exact HR].
  rewrite (step_unfold shp inp (Some sb) _ [] inp) by reflexivity. cbn zeta.
  unfold st_no_scheme. rewrite Hop, Hnf. cbn [andb negb]. reflexivity.
Qed.

(* relative state on '/' or '\': the relative slash state, after it *)
Lemma runs_relative_slash_s c t res : inp = c :: t -> is_sl c = true ->
  RunsB (at_pos StRelativeSlash [c] [] false false false u0) res ->
  RunsB (at_pos StRelative [] [] false false false empty_url) res.
Proof.
  intros Hin Hc HR.
  eapply (runs_step_next shp inp (Some sb) StRelative [] c t) with (st' := StRelativeSlash) (buf' := []);
    [exact Hin | | exact HR].
  rewrite (step_unfold shp inp (Some sb) _ [] (c :: t)) by exact Hin. cbn zeta. cbn [hd_error].
  unfold st_relative, is_special. cbn [cis m_url at_pos su_scheme set_scheme empty_url]. rewrite Hsp.
  destruct (c =? 47) eqn:E47; [reflexivity|]. unfold is_sl in Hc. rewrite E47 in Hc. cbn [orb] in Hc. rewrite Hc. reflexivity.
Qed.

(* two leading slashes / backslashes, then any number more: the authority state on the rest *)
Theorem runs_rel_authority_s c1 c2 T : inp = c1 :: c2 :: T -> is_sl c1 = true -> is_sl c2 = true ->
  spec_scheme inp = None ->
  out_is shp inp (Some sb) m0 (sauth_s shp (su_scheme sb) (drop_sl T)).
Proof.
  intros Hin H1 H2 Hs.
  assert (inp = ([c1; c2] ++ take_sl T) ++ drop_sl T) as Hin3.
  { rewrite <- app_assoc, take_drop_sl. exact Hin. }
  assert (forall res, RunsB (at_pos StAuthority ([c1; c2] ++ take_sl T) [] false false false u0) res -> RunsB m0 res) as K.
  { intros res HR. apply runs_to_relative_s; [exact Hs | rewrite Hin; discriminate|].
    apply (runs_relative_slash_s c1 (c2 :: T) res Hin H1).
    assert (inp = [c1] ++ c2 :: T) as Hin1 by exact Hin.
    eapply (runs_step_next shp inp (Some sb) StRelativeSlash [c1] c2 T) with (st' := StSpecialAuthorityIgnoreSlashes) (buf' := []);
      [exact Hin1 | |].
    - rewrite (step_unfold shp inp (Some sb) _ [c1] (c2 :: T)) by exact Hin1. cbn zeta. cbn [hd_error].
      unfold st_relative_slash, is_special. cbn [m_url at_pos su_scheme set_scheme empty_url cis]. rewrite Hsp.
      change ((c2 =? 47) || (c2 =? 92)) with (is_sl c2). rewrite H2. reflexivity.
    - apply (runs_ignore_slashes shp inp (Some sb) (take_sl T) ([c1] ++ [c2]) (drop_sl T) false false false u0 res).
      + rewrite take_drop_sl. exact Hin.
      + apply take_sl_all.
      + apply drop_sl_head.
      + exact HR. }
  pose proof (runs_authority_s shp inp (Some sb) _ (drop_sl T) (su_scheme sb) Hin3 Hsp Hnf) as RA.
  destruct (sauth_s shp (su_scheme sb) (drop_sl T)) as [su|]; cbn [out_is] in *.
  - apply K. exact RA.
  - destruct RA as [uf RA]. exists uf. apply K. exact RA.
Qed.

Lemma rel_keep_special P : is_special (rel_keep sb P) = true.
Proof. unfold is_special, rel_keep. cbn [su_scheme]. exact Hsp. Qed.

(* one leading slash / backslash: relative slash state, then the path state on the rest with an empty path *)
Theorem runs_rel_abs_s c t : inp = c :: t -> is_sl c = true ->
  match t with c2 :: _ => is_sl c2 = false | [] => True end -> spec_scheme inp = None ->
  RunsB m0 (BDone (rel_path_result_s sb [] t)).
Proof.
  intros Hin Hc Ht Hs.
  apply runs_to_relative_s; [exact Hs | rewrite Hin; discriminate|].
  apply (runs_relative_slash_s c t _ Hin Hc).
  assert (inp = [c] ++ t) as Hin2 by exact Hin.
  eapply (runs_step_back shp inp (Some sb) StRelativeSlash [c] t) with (st' := StPath) (buf' := []) (u' := rel_keep sb []);
    [exact Hin2 | |].
  - rewrite (step_unfold shp inp (Some sb) _ [c] t) by exact Hin2. cbn zeta.
    unfold st_relative_slash, is_special. cbn [m_url at_pos su_scheme set_scheme empty_url]. rewrite Hsp.
    cbn [andb].
    assert (cis (hd_error t) 47 || cis (hd_error t) 92 = false) as E.
    { destruct t as [|c2 r]; [reflexivity|]. cbn [hd_error cis]. exact Ht. }
    rewrite E. apply orb_false_iff in E. destruct E as [E _]. rewrite E. reflexivity.
  - exact (runs_path_s shp inp (Some sb) t [c] [] false false false (rel_keep sb []) [] Hin2 eq_refl (rel_keep_special []) Hnf).
Qed.

(* anything else that is not '?', '#': the base's path without its last segment, then the path state *)
Theorem runs_rel_path_s c t : inp = c :: t -> spec_scheme inp = None ->
  is_sl c = false -> (c =? 63) = false -> (c =? 35) = false ->
  RunsB m0 (BDone (rel_path_result_s sb (removelast (path_segments sb)) inp)).
Proof.
  intros Hin Hs Esl E63 E35.
  apply runs_to_relative_s; [exact Hs | rewrite Hin; discriminate|].
  assert (inp = [] ++ inp) as Hin0 by reflexivity.
  assert (su_path sb = SPList (path_segments sb)) as HP.
  { unfold path_segments. unfold has_opaque_path in Hop. destruct (su_path sb); [discriminate Hop | reflexivity]. }
  unfold is_sl in Esl. apply orb_false_iff in Esl. destruct Esl as [E47 E92].
  eapply (runs_step_stay shp inp (Some sb) StRelative [] inp) with (st' := StPath) (buf' := [])
    (u' := rel_keep sb (removelast (path_segments sb))); [reflexivity | rewrite Hin; discriminate | |].
  - rewrite (step_unfold shp inp (Some sb) _ [] inp) by reflexivity. cbn zeta. rewrite Hin. cbn [hd_error].
    unfold st_relative, is_special. cbn [cis m_url at_pos su_scheme set_scheme empty_url]. rewrite Hsp, E47, E92, E63, E35.
    cbn [andb is_eof negb].
    unfold shorten_path.
    cbn [su_path su_scheme set_query set_path set_port set_host set_password set_username set_scheme empty_url].
    rewrite HP, Hnf. cbn [andb]. reflexivity.
  - exact (runs_path_s shp inp (Some sb) inp [] [] false false false (rel_keep sb (removelast (path_segments sb)))
             (removelast (path_segments sb)) Hin0 eq_refl (rel_keep_special _) Hnf).
Qed.

End SpecRelS.

(* ================= model side: from parse_url to parse_relative ================= *)
Lemma parse_url_relative_s dbg hp hpo hd ovr b input c t :
  cannot_be_a_base b = Some false -> scheme_type_of (b_scheme b) = STSpecialNotFile ->
  ntnl (input_new_trim_c0 input) = c :: t -> spec_scheme (c :: t) = None -> (c =? 35) = false ->
  parse_url dbg hp hpo hd ovr (Some b) input
  = parse_relative dbg hp hpo hd ovr CUrlParser STSpecialNotFile b (input_new_trim_c0 input).
Proof.
  intros Hcb Hst Ht Hs E35. unfold parse_url. set (l := input_new_trim_c0 input) in *.
  pose proof (scheme_state_eq l) as K. rewrite Ht, Hs in K.
  destruct (parse_scheme CUrlParser l) as [[s r]|]; [contradiction|].
  destruct (inp_next_some l c t Ht) as (r & En & _ & _).
  unfold inp_starts_with_char. rewrite En, E35, Hcb, Hst. reflexivity.
Qed.

(* the slash test of parse_relative for a special scheme is is_sl *)
Definition sl_sp (d : N) : bool := (d =? 47) || ((d =? 92) && true).

Lemma sl_sp_is_sl d : sl_sp d = is_sl d.
Proof. unfold sl_sp, is_sl. rewrite andb_true_r. reflexivity. Qed.

Lemma drop_leading_ext (f g : N -> bool) t : (forall d, f d = g d) -> drop_leading f t = drop_leading g t.
Proof. intros H. induction t as [|c r IH]; [reflexivity|]. cbn [drop_leading]. rewrite H, IH. reflexivity. Qed.

Lemma count_leading_ext (f g : N -> bool) t : (forall d, f d = g d) -> count_leading f t = count_leading g t.
Proof. intros H. induction t as [|c r IH]; [reflexivity|]. cbn [count_leading]. rewrite H, IH. reflexivity. Qed.

Lemma special_type_related dbg shs b sb : related dbg shs b sb ->
  is_special_scheme (su_scheme sb) = true -> list_eqb (su_scheme sb) str_file = false ->
  scheme_type_of (b_scheme b) = STSpecialNotFile.
Proof. intros R H1 H2. rewrite (rel_sch _ _ _ _ R). exact (special_type _ H1 H2). Qed.

(* ================= class "special-authority" ================= *)
Definition in_class_rel_authority_s (sb : spec_url) (input : list N) : bool :=
  negb (has_opaque_path sb) && is_special_scheme (su_scheme sb) && negb (list_eqb (su_scheme sb) str_file)
  && match spec_clean input with
     | c1 :: c2 :: T => is_sl c1 && is_sl c2 && sp_class_ok (drop_sl T)
     | _ => false
     end.

Definition rel_host_text_s (input : list N) : list N :=
  match spec_clean input with
  | _ :: _ :: T => sp_host_text (drop_sl T)
  | _ => []
  end.

Lemma is_sl_scheme_none c t : is_sl c = true -> spec_scheme (c :: t) = None.
Proof.
  intros H. unfold spec_scheme. assert (is_alpha c = false) as ->; [|reflexivity].
  unfold is_sl in H. unfold is_alpha, is_upper, is_lower. lia.
Qed.

Section RelAuthorityS.
Variable dbg : bool.
Variable hp hpo : list N -> result host.
Variable hd : host -> list N.
Variable shp : bool -> list N -> option spec_host.
Variable shs : spec_host -> list N.

Theorem class_rel_authority_s input b sb : usv_list input -> related dbg shs b sb ->
  scheme_canon (su_scheme sb) = true -> in_class_rel_authority_s sb input = true ->
  host_agree_sp hp hd shp shs (rel_host_text_s input) ->
  agree_rel_strict dbg shs (parse_url dbg hp hpo hd None (Some b) input) (spec_basic_url_parse shp input (Some sb)).
Proof.
  intros Hu R Hcan Hc HA. unfold in_class_rel_authority_s, rel_host_text_s in *.
  apply andb_true_iff in Hc. destruct Hc as [Hc Hok]. apply andb_true_iff in Hc. destruct Hc as [Hc Hnf].
  apply andb_true_iff in Hc. destruct Hc as [Hop Hsp]. apply negb_true_iff in Hop, Hnf.
  destruct (spec_clean input) as [|c1 [|c2 T]] eqn:Ecl; try discriminate Hok.
  apply andb_true_iff in Hok. destruct Hok as [Hok Hok3]. apply andb_true_iff in Hok. destruct Hok as [H1 H2].
  unfold sp_class_ok in Hok3.
  pose proof (is_sl_scheme_none c1 (c2 :: T) H1) as Hs.
  (* the Standard *)
  assert (out_is shp (spec_clean input) (Some sb) m0 (sauth_s shp (su_scheme sb) (drop_sl T))) as HS.
  { rewrite Ecl. apply (runs_rel_authority_s shp _ sb Hop Hsp Hnf c1 c2 T eq_refl H1 H2 Hs). }
  (* the model *)
  pose proof (special_type _ Hsp Hnf) as Hst.
  pose proof (special_type_related dbg shs b sb R Hsp Hnf) as Hstb.
  rewrite spec_clean_is_ntnl_trim in Ecl. set (l0 := input_new_trim_c0 input) in *.
  assert (usv_list l0) as Hul0 by (apply usv_trim; exact Hu).
  assert ((c1 =? 35) = false) as E35 by (unfold is_sl in H1; lia).
  assert ((c1 =? 63) = false) as E63 by (unfold is_sl in H1; lia).
  set (l := snd (inp_count_matching sl_sp l0)).
  assert (ntnl l = drop_sl T) as Hl.
  { unfold l. rewrite (proj1 (count_matching_ntnl sl_sp l0)), Ecl. rewrite (drop_leading_ext sl_sp is_sl _ sl_sp_is_sl).
    cbn [drop_leading]. rewrite H1, H2. reflexivity. }
  assert (usv_list l) as Hul by (apply count_matching_usv'; exact Hul0).
  assert (parse_url dbg hp hpo hd None (Some b) input
          = after_double_slash dbg hp hpo hd None CUrlParser STSpecialNotFile (nlen (su_scheme sb)) (su_scheme sb ++ [58]) l) as Epu.
  { rewrite (parse_url_relative_s dbg hp hpo hd None b input c1 (c2 :: T)
               (related_not_cbb dbg shs b sb R Hop) Hstb Ecl Hs E35).
    fold l0. unfold parse_relative, inp_split_first.
    destruct (inp_next_some l0 c1 (c2 :: T) Ecl) as (r1 & En & _ & _). rewrite En. rewrite E63, E35.
    cbn [st_is_special]. fold (sl_sp c1). rewrite (sl_sp_is_sl c1), H1.
    change (fun d : N => (d =? 47) || (d =? 92) && true) with sl_sp.
    destruct (inp_count_matching sl_sp l0) as [sl rem'] eqn:Ecm.
    assert (2 <= sl) as Hsl.
    { pose proof (inp_count_matching_fst sl_sp l0) as Hf. rewrite Ecm in Hf. cbn [fst] in Hf. rewrite Hf, Ecl.
      rewrite (count_leading_ext sl_sp is_sl _ sl_sp_is_sl). cbn [count_leading]. rewrite H1, H2. lia. }
    replace (2 <=? sl) with true by lia.
    destruct (related_scheme_colon dbg shs b sb R) as (E1 & E2 & E3).
    rewrite E3. replace (58 =? 58) with true by reflexivity.
    unfold dassert. cbn [negb]. rewrite andb_false_r. cbn [pbind].
    rewrite E1, E2. unfold l. try rewrite Ecm. reflexivity. }
  rewrite <- Hl in Hok3, HA.
  assert (starts_aes (sp_path_text (ntnl l)) = true -> spath_ok_s (path_text_s (sp_path_text (ntnl l))) [] [] = true) as Hok'.
  { intros K. rewrite K in Hok3. exact Hok3. }
  pose proof (model_sp dbg hp hpo hd shp shs (su_scheme sb) l Hul Hcan Hst Hok' HA) as HM. cbv zeta in HM.
  rewrite Hl in HM. rewrite Epu.
  assert (forall res, Runs shp (spec_clean input) (Some sb) m0 res ->
                      spec_basic_url_parse shp input (Some sb) = res) as Hrun
    by (intros res HR; apply spec_parse_of_runs; exact HR).
  destruct (sauth_s shp (su_scheme sb) (drop_sl T)) as [su|]; cbn [out_is] in HS.
  - rewrite (Hrun _ HS). cbn [agree_rel_strict]. destruct HM as (u & HO & Ru & Hle).
    pose proof (related_href dbg shs u su Ru) as Eh. rewrite <- Eh.
    destruct HO as [[E B]|E]; [left; split; assumption | right; exists u; split; assumption].
  - destruct HS as [uf HS]. rewrite (Hrun _ HS). cbn [agree_rel_strict]. exact HM.
Qed.

Theorem rel_authority_s_result_ok input sb su : scheme_canon (su_scheme sb) = true ->
  in_class_rel_authority_s sb input = true ->
  spec_basic_url_parse shp input (Some sb) = BDone su -> spec_base_ok su = true.
Proof.
  intros Hcan Hc HSu. unfold in_class_rel_authority_s in Hc.
  apply andb_true_iff in Hc. destruct Hc as [Hc Hok]. apply andb_true_iff in Hc. destruct Hc as [Hc Hnf].
  apply andb_true_iff in Hc. destruct Hc as [Hop Hsp]. apply negb_true_iff in Hop, Hnf.
  destruct (spec_clean input) as [|c1 [|c2 T]] eqn:Ecl; try discriminate Hok.
  apply andb_true_iff in Hok. destruct Hok as [Hok _]. apply andb_true_iff in Hok. destruct Hok as [H1 H2].
  pose proof (is_sl_scheme_none c1 (c2 :: T) H1) as Hs.
  pose proof (runs_rel_authority_s shp _ sb Hop Hsp Hnf c1 c2 T eq_refl H1 H2 Hs) as HS. rewrite <- Ecl in HS.
  destruct (sauth_s shp (su_scheme sb) (drop_sl T)) as [su'|] eqn:Esa; cbn [out_is] in HS.
  - rewrite (spec_parse_of_runs _ _ _ _ HS) in HSu. inversion HSu; subst su'.
    unfold sauth_s in Esa. revert Esa. generalize (snd (after_at_s (drop_sl T))). intros HR Esa.
    (* spec_base_ok of what the host state returns *)
    assert (scheme_canon (su_scheme (cred_of (fst (after_at_s (drop_sl T))) (set_scheme empty_url (su_scheme sb)))) = true) as Hc'.
    { destruct (fst (after_at_s (drop_sl T))) as [w|]; cbn [cred_of]; [rewrite ac_scheme|]; exact Hcan. }
    revert Esa Hc'. generalize (cred_of (fst (after_at_s (drop_sl T))) (set_scheme empty_url (su_scheme sb))). intros u1 Esa Hc'.
    unfold sauth_host_g in Esa. cbv zeta in Esa.
    destruct (is_nil ([] ++ hss_host false HR)); [discriminate Esa|].
    destruct (host_parsing shp false ([] ++ hss_host false HR)) as [sh|]; [|discriminate Esa].
    assert (forall u X, scheme_canon (su_scheme u) = true -> spec_base_ok (sauth_tail_s u X) = true) as Htail.
    { intros u X Hcu. unfold sauth_tail_s. rewrite (base_ok_same _ _ (tail_url_same _ _)).
      unfold spec_base_ok, Whatwg.path_segments. cbn [su_scheme su_path set_path]. rewrite Hcu.
      rewrite (spath_s_no_slash (path_text_s X) [] [] eq_refl eq_refl). reflexivity. }
    destruct (port_split (hss_rest false HR)) as [PR|].
    + unfold sauth_port_g in Esa. cbv zeta in Esa.
      destruct (negb (starts_aes (after_digits PR))); [discriminate Esa|].
      destruct (is_nil ([] ++ digits_of PR)).
      * inversion Esa. apply Htail. exact Hc'.
      * destruct (65535 <? decimal_value ([] ++ digits_of PR)); [discriminate Esa|].
        inversion Esa. apply Htail. exact Hc'.
    + inversion Esa. apply Htail. exact Hc'.
  - destruct HS as [uf HS]. rewrite (spec_parse_of_runs _ _ _ _ HS) in HSu. discriminate HSu.
Qed.

End RelAuthorityS.

(* ================= the two path arms ================= *)
Lemma pop_path_segments_s pre P : forallb no_slash P = true ->
  pop_path STSpecialNotFile (nlen pre) (pre ++ flat_map (fun s => 47 :: s) P)
  = POk (match P with [] => pre | _ => Bs pre (removelast P) end).
Proof.
  intros Hns. unfold pop_path.
  destruct (rev P) as [|x r] eqn:Er.
  - assert (P = []) as -> by (rewrite <- (rev_involutive P), Er; reflexivity).
    cbn [flat_map]. rewrite app_nil_r. replace (nlen pre <? nlen pre) with false by lia. reflexivity.
  - assert (P = rev r ++ [x]) as EP by (rewrite <- (rev_involutive P), Er; reflexivity).
    set (P' := rev r) in *. rewrite EP in *. rewrite removelast_last.
    rewrite forallb_app in Hns. apply andb_true_iff in Hns. destruct Hns as [_ Hx].
    cbn [forallb] in Hx. rewrite andb_true_r in Hx.
    rewrite flat_map_snoc. set (X := flat_map (fun s => 47 :: s) P').
    replace (nlen pre <? nlen (pre ++ X ++ 47 :: x)) with true by (symmetry; apply N.ltb_lt; lenl).
    rewrite nskipn_app_len. rewrite (rfind_app_last 47 X x) by exact Hx.
    cbn [st_is_file andb]. unfold truncate.
    replace (nlen pre + nlen X + 1) with (nlen ((pre ++ X) ++ [47])) by lenl.
    replace (pre ++ X ++ 47 :: x) with (((pre ++ X) ++ [47]) ++ x) by (rewrite <- !app_assoc; reflexivity).
    rewrite nfirstn_app_len. rewrite Bs_flat.
    destruct (P' ++ [x]) eqn:E; [destruct P'; discriminate E | reflexivity].
Qed.

Lemma segs_no_qh_of_flat (P : list (list N)) :
  forallb C06_WFI.no_qh (flat_map (fun s => 47 :: s) P) = true -> forallb C01_EqSpPath.no_qh P = true.
Proof.
  induction P as [|s P IH]; intros H; [reflexivity|]. cbn [flat_map] in H. cbn [app forallb] in H.
  apply andb_true_iff in H. destruct H as [_ H]. rewrite forallb_app in H. apply andb_true_iff in H. destruct H as [H1 H2].
  cbn [forallb]. rewrite (IH H2), andb_true_r. exact H1.
Qed.

Lemma loop_from_segments_s dbg pre r P0 : usv_list r -> forallb no_slash P0 = true ->
  spath_ok_s (ntnl r) P0 [] = true ->
  forallb C06_WFI.no_qh (flat_map (fun s => 47 :: s) P0) = true ->
  let P1 := fst (spath_s (ntnl r) P0 []) in
  parse_path dbg CUrlParser STSpecialNotFile true (nlen pre) (Bs pre P0) r
    = POk (pre ++ flat_map (fun s => 47 :: s) P1, true, cbb_rest r)
  /\ snd (spath_s (ntnl r) P0 []) = ntnl (cbb_rest r)
  /\ forallb C06_WFI.no_qh (flat_map (fun s => 47 :: s) P1) = true
  /\ forallb no_slash P1 = true /\ P1 <> [].
Proof.
  intros Hur Hns Hok Hqh P1.
  assert (pend_ok []) as Hp0 by (split; [constructor | reflexivity]).
  destruct (loop_exact_s pre dbg r P0 [] [] true Hur Hp0 Hns eq_refl Hok) as (segs & last & Hloop & Hfst & Hsnd).
  cbn [app rev utf8_encode flat_map encode] in Hfst, Hsnd.
  rewrite app_nil_r in Hloop.
  assert (Bs pre segs ++ last = pre ++ flat_map (fun s => 47 :: s) P1) as ES.
  { unfold P1. rewrite Hfst, path_text_flat. unfold Bs, path_text. rewrite <- !app_assoc. reflexivity. }
  split; [|split; [exact Hsnd|split; [|split]]].
  - unfold parse_path. rewrite Hloop, ES. reflexivity.
  - apply flat_no_qh. unfold P1. apply spath_s_no_qh; [exact (segs_no_qh_of_flat P0 Hqh) | reflexivity].
  - unfold P1. apply spath_s_no_slash; [exact Hns | reflexivity].
  - unfold P1. rewrite Hfst. intros K. apply app_eq_nil in K. destruct K as [_ K]. discriminate K.
Qed.

Lemma wqf_plain_s se ue hs he hi po ps s rest : se + 3 <= ps ->
  starts_with s_css (nskipn se s) = true ->
  with_query_and_fragment None CUrlParser STSpecialNotFile se ue hs he hi po ps s rest
  = (' (s2, qs, fs) <~ parse_query_and_fragment None CUrlParser STSpecialNotFile se s rest ;;
     POk (mkUrl s2 se ue hs he hi po ps qs fs)).
Proof.
  intros H Hc. unfold with_query_and_fragment.
  replace (ps =? se + 1) with false by lia.
  assert ((ps =? se + 3) && list_eqb (nfirstn (ps - se) (nskipn se s)) [58; 47; 46] = false) as ->.
  { destruct (ps =? se + 3) eqn:E; [|reflexivity]. cbn [andb]. apply N.eqb_eq in E. rewrite E.
    replace (se + 3 - se) with 3 by lia. apply starts_with_split in Hc. rewrite Hc. reflexivity. }
  cbn [pbind]. reflexivity.
Qed.

Section ArmsS.
Variable dbg : bool.
Variable shs : spec_host -> list N.

Definition arm_expr_s (b : url) (s0 r : list N) : pres url :=
  ' (s, _, rem) <~ parse_path dbg CUrlParser STSpecialNotFile true (path_start b) s0 r ;;
  with_query_and_fragment None CUrlParser STSpecialNotFile (scheme_end b) (username_end b) (host_start b) (host_end b)
                          (hosti b) (port b) (path_start b) s rem.

Theorem path_arm_related_s b sb h P0 r :
  related dbg shs b sb -> has_opaque_path sb = false -> is_special_scheme (su_scheme sb) = true ->
  list_eqb (su_scheme sb) str_file = false -> su_host sb = Some h ->
  scheme_canon (su_scheme sb) = true ->
  usv_list r -> forallb no_slash P0 = true -> forallb C06_WFI.no_qh (flat_map (fun s => 47 :: s) P0) = true ->
  spath_ok_s (ntnl r) P0 [] = true ->
  exists u, oob (U32_MAX_P < nlen (ser u)) (arm_expr_s b (Bs (nfirstn (path_start b) (ser b)) P0) r) u
            /\ related dbg shs u (rel_path_result_s sb P0 (ntnl r))
            /\ spec_base_ok (rel_path_result_s sb P0 (ntnl r)) = true.
Proof.
  intros R Hop Hsp Hnf Eh Hcan Hur Hns0 Hqh0 Hok.
  pose proof (rel_wf _ _ _ _ R) as W. pose proof (path_start_le_len b W) as Lps.
  set (pre := nfirstn (path_start b) (ser b)).
  assert (nlen pre = path_start b) as Lpre by (apply nlen_nfirstn; exact Lps).
  destruct (loop_from_segments_s dbg pre r P0 Hur Hns0 Hok Hqh0) as (Hpp & Hsnd & Hqh1 & Hns1 & Hne1).
  rewrite Lpre in Hpp.
  set (P1 := fst (spath_s (ntnl r) P0 [])) in *.
  set (T := flat_map (fun s => 47 :: s) P1) in *.
  set (rest := cbb_rest r) in *.
  set (q := pqf_q STSpecialNotFile rest). set (f := pqf_f rest).
  assert (usv_list rest) as Hurest by (apply usv_cbb_rest; exact Hur).
  assert (rel_path_result_s sb P0 (ntnl r) = rel_url sb P1 q f) as ES.
  { unfold rel_path_result_s. fold P1. rewrite Hsnd. fold rest.
    rewrite tail_url_sp; [reflexivity | unfold is_special, rel_keep; cbn [su_scheme]; exact Hsp | reflexivity | reflexivity | apply cbb_rest_head]. }
  rewrite ES.
  assert (spec_base_ok (rel_url sb P1 q f) = true) as HBok.
  { unfold spec_base_ok, rel_url. cbn [su_scheme Whatwg.path_segments su_path]. rewrite Hcan, Hns1. reflexivity. }
  assert (match ntnl rest with [] => True | c :: _ => is_qh c = true end) as Hhead.
  { pose proof (cbb_rest_head r) as Hh. fold rest in Hh. destruct rest as [|d dr]; [exact I|]. destruct Hh as [Hh1 Hh2].
    rewrite ntnl_cons by exact Hh2. exact Hh1. }
  assert (has_authority_b b = true) as Ha by (rewrite (related_host_iff dbg shs b sb R), Eh; reflexivity).
  pose proof (wf_auth_facts b W Ha) as F.
  pose proof (af_ue F) as B1. pose proof (af_hs F) as B2. pose proof (af_he F) as B3. pose proof (af_ps F) as B4.
  unfold arm_expr_s. fold pre. rewrite Hpp. cbn [pbind].
  exists (auth_path_url b T q f). split; [|split; [|exact HBok]].
  - rewrite wqf_plain_s; [|lia|].
    2:{ unfold has_authority_b in Ha. rewrite <- Ha.
        apply (pre_starts_with (path_start b)); [|change (nlen s_css) with 3; lia].
        apply agree_pre_nfirstn. exact Lps. }
    eapply oob_bind.
    { apply (pqf_oob None (U32_MAX_P < nlen (ser (auth_path_url b T q f)))); [exact Hurest | reflexivity | exact Hhead |].
      fold q f. intros Hlt. exact Hlt. }
    fold q f. right. reflexivity.
  - apply (related_auth_path_g dbg shs b sb h P1 q f R); [| exact Eh | exact Hqh1 | exact Hne1 |].
    + intros E. rewrite E in Hnf. discriminate Hnf.
    + pose proof (pqf_q_clean_s rest Hurest) as Hq. fold q in Hq. destruct q as [Q|]; [|exact I].
      exact (clean_query_no_h STSpecialNotFile Q Hq).
Qed.

End ArmsS.

(* ================= the classes ================= *)
(* recognisers on the Standard's side: base not opaque, special, not file, WITH a host (true of every
   parse result with a special scheme); exclusion, in both: a ".." that would pop a drive-letter-shaped
   segment (F-C01-9, Known_C01 class 2) - spath_ok_s runs the Standard's own special path state *)
Definition sp_base_ok (sb : spec_url) : bool :=
  negb (has_opaque_path sb) && is_special_scheme (su_scheme sb) && negb (list_eqb (su_scheme sb) str_file)
  && opt_is_some (su_host sb).

Definition in_class_rel_abs_s (sb : spec_url) (input : list N) : bool :=
  sp_base_ok sb
  && match spec_clean input with
     | c :: t => is_sl c && negb (match t with c2 :: _ => is_sl c2 | [] => false end) && spath_ok_s t [] []
     | [] => false
     end.

Definition in_class_rel_path_s (sb : spec_url) (input : list N) : bool :=
  sp_base_ok sb
  && match spec_scheme (spec_clean input) with None => true | Some _ => false end
  && match spec_clean input with
     | c :: t => negb (is_sl c) && negb (c =? 63) && negb (c =? 35)
                 && spath_ok_s (c :: t) (removelast (Whatwg.path_segments sb)) []
     | [] => false
     end.

Lemma sp_base_ok_facts sb : sp_base_ok sb = true ->
  has_opaque_path sb = false /\ is_special_scheme (su_scheme sb) = true /\ list_eqb (su_scheme sb) str_file = false
  /\ exists h, su_host sb = Some h.
Proof.
  unfold sp_base_ok. intros H. apply andb_true_iff in H. destruct H as [H H4]. apply andb_true_iff in H. destruct H as [H H3].
  apply andb_true_iff in H. destruct H as [H1 H2]. apply negb_true_iff in H1, H3.
  repeat split; try assumption. destruct (su_host sb) as [h|]; [exists h; reflexivity | discriminate H4].
Qed.

Lemma removelast_prefix_no_qh_s (P : list (list N)) :
  forallb C06_WFI.no_qh (flat_map (fun s => 47 :: s) P) = true ->
  forallb C06_WFI.no_qh (flat_map (fun s => 47 :: s) (removelast P)) = true.
Proof.
  intros H. destruct (rev P) as [|x r] eqn:Er.
  - assert (P = []) as -> by (rewrite <- (rev_involutive P), Er; reflexivity). reflexivity.
  - assert (P = rev r ++ [x]) as -> by (rewrite <- (rev_involutive P), Er; reflexivity).
    rewrite removelast_last. rewrite flat_map_snoc, forallb_app in H. apply andb_true_iff in H. tauto.
Qed.

Section RelClassesS.
Variable dbg : bool.
Variable hp hpo : list N -> result host.
Variable hd : host -> list N.
Variable shp : bool -> list N -> option spec_host.
Variable shs : spec_host -> list N.

Theorem class_rel_abs_s input b sb : usv_list input -> related dbg shs b sb ->
  scheme_canon (su_scheme sb) = true -> in_class_rel_abs_s sb input = true ->
  exists su, spec_basic_url_parse shp input (Some sb) = BDone su /\ spec_base_ok su = true
    /\ agree_rel_strict dbg shs (parse_url dbg hp hpo hd None (Some b) input) (BDone su).
Proof.
  intros Hu R Hcan Hc. unfold in_class_rel_abs_s in Hc.
  apply andb_true_iff in Hc. destruct Hc as [Hb Hok].
  destruct (sp_base_ok_facts sb Hb) as (Hop & Hsp & Hnf & h & Eh).
  destruct (spec_clean input) as [|c t] eqn:Ecl; [discriminate Hok|].
  apply andb_true_iff in Hok. destruct Hok as [Hok Hspok]. apply andb_true_iff in Hok. destruct Hok as [Hc1 Ht].
  apply negb_true_iff in Ht.
  assert (match t with c2 :: _ => is_sl c2 = false | [] => True end) as Ht' by (destruct t; [exact I | exact Ht]).
  pose proof (is_sl_scheme_none c t Hc1) as Hs.
  exists (rel_path_result_s sb [] t).
  assert (spec_basic_url_parse shp input (Some sb) = BDone (rel_path_result_s sb [] t)) as HS.
  { apply spec_parse_of_runs. rewrite Ecl. exact (runs_rel_abs_s shp _ sb Hop Hsp Hnf c t eq_refl Hc1 Ht' Hs). }
  split; [exact HS|].
  (* the model *)
  pose proof (rel_wf _ _ _ _ R) as W. pose proof (path_start_le_len b W) as Lps.
  rewrite spec_clean_is_ntnl_trim in Ecl. set (l0 := input_new_trim_c0 input) in *.
  assert (usv_list l0) as Hul0 by (apply usv_trim; exact Hu).
  destruct (inp_next_some l0 c t Ecl) as (r1 & En & Er1 & _).
  pose proof (inp_next_usv l0 c r1 Hul0 En) as Hur1.
  assert ((c =? 35) = false) as E35 by (unfold is_sl in Hc1; lia).
  assert ((c =? 63) = false) as E63 by (unfold is_sl in Hc1; lia).
  assert (parse_url dbg hp hpo hd None (Some b) input
          = arm_expr_s dbg b (Bs (nfirstn (path_start b) (ser b)) []) r1) as Epu.
  { rewrite (parse_url_relative_s dbg hp hpo hd None b input c t
               (related_not_cbb dbg shs b sb R Hop) (special_type_related dbg shs b sb R Hsp Hnf) Ecl Hs E35).
    fold l0. unfold parse_relative, inp_split_first. rewrite En. rewrite E63, E35.
    cbn [st_is_special]. fold (sl_sp c). rewrite (sl_sp_is_sl c), Hc1.
    change (fun d : N => (d =? 47) || (d =? 92) && true) with sl_sp.
    destruct (inp_count_matching sl_sp l0) as [sl rem'] eqn:Ecm.
    assert (sl < 2) as Hsl.
    { pose proof (inp_count_matching_fst sl_sp l0) as Hf. rewrite Ecm in Hf. cbn [fst] in Hf. rewrite Hf, Ecl.
      rewrite (count_leading_ext sl_sp is_sl _ sl_sp_is_sl). cbn [count_leading]. rewrite Hc1.
      destruct t as [|d t']; [cbn [count_leading]; lia|]. cbn [count_leading]. rewrite Ht. lia. }
    replace (2 <=? sl) with false by lia.
    unfold arm_expr_s. assert (Bs (nfirstn (path_start b) (ser b)) [] = nfirstn (path_start b) (ser b) ++ [47]) as ->
      by (unfold Bs; cbn [segs_text map concat]; apply app_nil_r).
    reflexivity. }
  rewrite <- Er1 in Hspok.
  destruct (path_arm_related_s dbg shs b sb h [] r1 R Hop Hsp Hnf Eh Hcan Hur1 eq_refl eq_refl Hspok) as (u & HO & Ru & Hbo).
  rewrite Er1 in Ru, Hbo. split; [exact Hbo|]. rewrite Epu. exact (oob_agree dbg shs _ u _ HO Ru).
Qed.

Theorem class_rel_path_s input b sb : usv_list input -> related dbg shs b sb ->
  spec_base_ok sb = true -> in_class_rel_path_s sb input = true ->
  exists su, spec_basic_url_parse shp input (Some sb) = BDone su /\ spec_base_ok su = true
    /\ agree_rel_strict dbg shs (parse_url dbg hp hpo hd None (Some b) input) (BDone su).
Proof.
  intros Hu R Hbok Hc. unfold in_class_rel_path_s in Hc.
  apply andb_true_iff in Hbok. destruct Hbok as [Hcan HnsP].
  apply andb_true_iff in Hc. destruct Hc as [Hc Hok]. apply andb_true_iff in Hc. destruct Hc as [Hb Hsch].
  destruct (sp_base_ok_facts sb Hb) as (Hop & Hsp & Hnf & h & Eh).
  assert (spec_scheme (spec_clean input) = None) as Hs by (destruct (spec_scheme (spec_clean input)); [discriminate | reflexivity]).
  destruct (spec_clean input) as [|c t] eqn:Ecl; [discriminate Hok|].
  apply andb_true_iff in Hok. destruct Hok as [Hok Hspok]. apply andb_true_iff in Hok. destruct Hok as [Hok E35].
  apply andb_true_iff in Hok. destruct Hok as [Esl E63]. apply negb_true_iff in Esl, E63, E35.
  set (P := Whatwg.path_segments sb) in *.
  exists (rel_path_result_s sb (removelast P) (c :: t)).
  assert (spec_basic_url_parse shp input (Some sb) = BDone (rel_path_result_s sb (removelast P) (c :: t))) as HS.
  { apply spec_parse_of_runs. rewrite Ecl.
    exact (runs_rel_path_s shp (c :: t) sb Hop Hsp Hnf c t eq_refl Hs Esl E63 E35). }
  split; [exact HS|].
  (* the model *)
  pose proof (rel_wf _ _ _ _ R) as W. pose proof (path_start_le_len b W) as Lps.
  set (pre := nfirstn (path_start b) (ser b)).
  assert (nlen pre = path_start b) as Lpre by (apply nlen_nfirstn; exact Lps).
  destruct (related_pre dbg shs b sb R) as [Ebq _]. fold pre in Ebq.
  assert (serialize_path sb = flat_map (fun s => 47 :: s) P) as EPth.
  { unfold serialize_path, P, Whatwg.path_segments. unfold has_opaque_path in Hop. destruct (su_path sb); [discriminate Hop | reflexivity]. }
  rewrite EPth in Ebq.
  assert (forallb C06_WFI.no_qh (flat_map (fun s => 47 :: s) P) = true) as HqhP.
  { pose proof (qf_facts_of b W) as (_ & _ & _ & Q4 & _).
    pose proof (before_query_path_end b W) as E. rewrite Ebq in E.
    destruct (wf_ps_le_path_end b W) as [L1 L2].
    assert (nfirstn (path_end b - path_start b) (nskipn (path_start b) (ser b)) = flat_map (fun s => 47 :: s) P) as EE.
    { rewrite <- (nfirstn_nskipn (path_start b) (nfirstn (path_end b) (ser b))) in E.
      rewrite nfirstn_nfirstn in E by lia. fold pre in E. apply app_inv_head in E. rewrite E.
      unfold nskipn, nfirstn. rewrite N2Nat.inj_sub. rewrite firstn_skipn_comm.
      replace (N.to_nat (path_start b) + (N.to_nat (path_end b) - N.to_nat (path_start b)))%nat with (N.to_nat (path_end b)) by lia.
      reflexivity. }
    rewrite EE in Q4. exact Q4. }
  rewrite spec_clean_is_ntnl_trim in Ecl. set (l0 := input_new_trim_c0 input) in *.
  assert (usv_list l0) as Hul0 by (apply usv_trim; exact Hu).
  destruct (inp_next_some l0 c t Ecl) as (r1 & En & Er1 & _).
  pose proof (special_type_related dbg shs b sb R Hsp Hnf) as Hstb.
  assert ((c =? 47) = false) as E47 by (unfold is_sl in Esl; lia).
  assert (parse_url dbg hp hpo hd None (Some b) input = arm_expr_s dbg b (Bs pre (removelast P)) l0) as Epu.
  { rewrite (parse_url_relative_s dbg hp hpo hd None b input c t
               (related_not_cbb dbg shs b sb R Hop) Hstb Ecl Hs E35).
    fold l0. unfold parse_relative, inp_split_first. rewrite En. rewrite E63, E35.
    cbn [st_is_special]. fold (sl_sp c). rewrite (sl_sp_is_sl c), Esl.
    rewrite Ebq, <- Lpre.
    rewrite (pop_path_segments_s pre P HnsP). cbn [pbind].
    rewrite Hstb. cbn [st_is_special orb]. rewrite andb_true_r.
    rewrite match47, E47. unfold arm_expr_s. rewrite <- Lpre.
    destruct P as [|p0 Pr] eqn:EP.
    - rewrite N.eqb_refl. cbn [removelast].
      assert (Bs pre [] = pre ++ [47]) as -> by (unfold Bs; cbn [segs_text map concat]; apply app_nil_r).
      reflexivity.
    - pose proof (Bs_len_ge pre (removelast (p0 :: Pr))) as Lb.
      replace (nlen (Bs pre (removelast (p0 :: Pr))) =? nlen pre) with false by lia. reflexivity. }
  rewrite <- Ecl in Hspok.
  destruct (path_arm_related_s dbg shs b sb h (removelast P) l0 R Hop Hsp Hnf Eh Hcan Hul0
              (no_slash_removelast P HnsP) (removelast_prefix_no_qh_s P HqhP) Hspok) as (u & HO & Ru & Hbo).
  fold pre in HO. rewrite Ecl in Ru, Hbo. split; [exact Hbo|]. rewrite Epu. exact (oob_agree dbg shs _ u _ HO Ru).
Qed.

End RelClassesS.

(* ====================================================================================================== *)
(* the same three arms entered from the relative state at ANY position - for references that carry the    *)
(* scheme of the base ("http:x" against an http base)                                                     *)
(* ====================================================================================================== *)
Section SpecRelG.
Variable shp : bool -> list N -> option spec_host.
Variable inp : list N.
Variable sb : spec_url.
Hypothesis Hop : has_opaque_path sb = false.
Hypothesis Hsp : is_special_scheme (su_scheme sb) = true.
Hypothesis Hnf : list_eqb (su_scheme sb) str_file = false.
Variable pre : list N.                 (* the text in front of the relative state's position *)
Variable ux : spec_url.                (* the URL the relative state starts with *)
Hypothesis Hux : set_scheme ux (su_scheme sb) = set_scheme empty_url (su_scheme sb).

Notation RunsB := (Runs shp inp (Some sb)).
Notation u0 := (set_scheme empty_url (su_scheme sb)).

Lemma runs_relative_slash_g c t res : inp = pre ++ c :: t -> is_sl c = true ->
  RunsB (at_pos StRelativeSlash (pre ++ [c]) [] false false false u0) res ->
  RunsB (at_pos StRelative pre [] false false false ux) res.
Proof.
  intros Hin Hc HR.
  eapply (runs_step_next shp inp (Some sb) StRelative pre c t) with (st' := StRelativeSlash) (buf' := []);
    [exact Hin | | exact HR].
  rewrite (step_unfold shp inp (Some sb) _ pre (c :: t)) by exact Hin. cbn zeta. cbn [hd_error].
  unfold st_relative. cbn [m_url at_pos]. rewrite Hux. unfold is_special. cbn [cis su_scheme set_scheme empty_url]. rewrite Hsp.
  destruct (c =? 47) eqn:E47; [reflexivity|]. unfold is_sl in Hc. rewrite E47 in Hc. cbn [orb] in Hc. rewrite Hc. reflexivity.
Qed.

Theorem runs_rel_authority_g c1 c2 T : inp = pre ++ c1 :: c2 :: T -> is_sl c1 = true -> is_sl c2 = true ->
  out_is shp inp (Some sb) (at_pos StRelative pre [] false false false ux) (sauth_s shp (su_scheme sb) (drop_sl T)).
Proof.
  intros Hin H1 H2.
  assert (inp = ((pre ++ [c1; c2]) ++ take_sl T) ++ drop_sl T) as Hin3.
  { rewrite <- !app_assoc. cbn [app]. rewrite take_drop_sl. exact Hin. }
  assert (forall res, RunsB (at_pos StAuthority ((pre ++ [c1; c2]) ++ take_sl T) [] false false false u0) res ->
                      RunsB (at_pos StRelative pre [] false false false ux) res) as K.
  { intros res HR.
    apply (runs_relative_slash_g c1 (c2 :: T) res Hin H1).
    assert (inp = (pre ++ [c1]) ++ c2 :: T) as Hin1 by (rewrite <- app_assoc; exact Hin).
    eapply (runs_step_next shp inp (Some sb) StRelativeSlash (pre ++ [c1]) c2 T) with (st' := StSpecialAuthorityIgnoreSlashes) (buf' := []);
      [exact Hin1 | |].
    - rewrite (step_unfold shp inp (Some sb) _ (pre ++ [c1]) (c2 :: T)) by exact Hin1. cbn zeta. cbn [hd_error].
      unfold st_relative_slash, is_special. cbn [m_url at_pos su_scheme set_scheme empty_url cis]. rewrite Hsp.
      change ((c2 =? 47) || (c2 =? 92)) with (is_sl c2). rewrite H2. reflexivity.
    - apply (runs_ignore_slashes shp inp (Some sb) (take_sl T) ((pre ++ [c1]) ++ [c2]) (drop_sl T) false false false u0 res).
      + rewrite take_drop_sl. rewrite <- !app_assoc. exact Hin.
      + apply take_sl_all.
      + apply drop_sl_head.
      + rewrite <- (app_assoc pre [c1] [c2]). exact HR. }
  pose proof (runs_authority_s shp inp (Some sb) _ (drop_sl T) (su_scheme sb) Hin3 Hsp Hnf) as RA.
  destruct (sauth_s shp (su_scheme sb) (drop_sl T)) as [su|]; cbn [out_is] in *.
  - apply K. exact RA.
  - destruct RA as [uf RA]. exists uf. apply K. exact RA.
Qed.

Theorem runs_rel_abs_g c t : inp = pre ++ c :: t -> is_sl c = true ->
  match t with c2 :: _ => is_sl c2 = false | [] => True end ->
  RunsB (at_pos StRelative pre [] false false false ux) (BDone (rel_path_result_s sb [] t)).
Proof.
  intros Hin Hc Ht.
  apply (runs_relative_slash_g c t _ Hin Hc).
  assert (inp = (pre ++ [c]) ++ t) as Hin2 by (rewrite <- app_assoc; exact Hin).
  eapply (runs_step_back shp inp (Some sb) StRelativeSlash (pre ++ [c]) t) with (st' := StPath) (buf' := []) (u' := rel_keep sb []);
    [exact Hin2 | |].
  - rewrite (step_unfold shp inp (Some sb) _ (pre ++ [c]) t) by exact Hin2. cbn zeta.
    unfold st_relative_slash, is_special. cbn [m_url at_pos su_scheme set_scheme empty_url]. rewrite Hsp.
    cbn [andb].
    assert (cis (hd_error t) 47 || cis (hd_error t) 92 = false) as E.
    { destruct t as [|c2 r]; [reflexivity|]. cbn [hd_error cis]. exact Ht. }
    rewrite E. apply orb_false_iff in E. destruct E as [E _]. rewrite E. reflexivity.
  - exact (runs_path_s shp inp (Some sb) t (pre ++ [c]) [] false false false (rel_keep sb []) [] Hin2 eq_refl
             (rel_keep_special sb Hsp []) Hnf).
Qed.

Theorem runs_rel_path_g c t : inp = pre ++ c :: t ->
  is_sl c = false -> (c =? 63) = false -> (c =? 35) = false ->
  RunsB (at_pos StRelative pre [] false false false ux)
        (BDone (rel_path_result_s sb (removelast (path_segments sb)) (c :: t))).
Proof.
  intros Hin Esl E63 E35.
  assert (su_path sb = SPList (path_segments sb)) as HP.
  { unfold path_segments. unfold has_opaque_path in Hop. destruct (su_path sb); [discriminate Hop | reflexivity]. }
  unfold is_sl in Esl. apply orb_false_iff in Esl. destruct Esl as [E47 E92].
  eapply (runs_step_stay shp inp (Some sb) StRelative pre (c :: t)) with (st' := StPath) (buf' := [])
    (u' := rel_keep sb (removelast (path_segments sb))); [exact Hin | discriminate | |].
  - rewrite (step_unfold shp inp (Some sb) _ pre (c :: t)) by exact Hin. cbn zeta. cbn [hd_error].
    unfold st_relative. cbn [m_url at_pos]. rewrite Hux. unfold is_special.
    cbn [cis su_scheme set_scheme empty_url]. rewrite Hsp, E47, E92, E63, E35.
    cbn [andb is_eof negb].
    unfold shorten_path.
    cbn [su_path su_scheme set_query set_path set_port set_host set_password set_username set_scheme empty_url].
    rewrite HP, Hnf. cbn [andb]. reflexivity.
  - exact (runs_path_s shp inp (Some sb) (c :: t) pre [] false false false (rel_keep sb (removelast (path_segments sb)))
             (removelast (path_segments sb)) Hin eq_refl (rel_keep_special sb Hsp _) Hnf).
Qed.

End SpecRelG.

(* ================= the scheme state with the scheme of a special base ================= *)
Section SameSchemeSpec.
Variable shp : bool -> list N -> option spec_host.
Variable inp : list N.
Variable sb : spec_url.
Hypothesis Hsp : is_special_scheme (su_scheme sb) = true.
Hypothesis Hnf : list_eqb (su_scheme sb) str_file = false.

Notation RunsB := (Runs shp inp (Some sb)).
Notation u0 := (set_scheme empty_url (su_scheme sb)).

(* at the ':' : special relative or authority state *)
Lemma runs_scheme_colon_same pre R res : inp = pre ++ 58 :: R ->
  RunsB (at_pos StSpecialRelativeOrAuthority (pre ++ [58]) [] false false false u0) res ->
  RunsB (at_pos StScheme pre (su_scheme sb) false false false empty_url) res.
Proof.
  intros Hin HR.
  eapply (runs_step_next shp inp (Some sb) StScheme pre 58 R) with (st' := StSpecialRelativeOrAuthority) (buf' := []);
    [exact Hin | | exact HR].
  rewrite (step_unfold shp inp (Some sb) _ pre (58 :: R)) by exact Hin. cbn zeta. cbn [hd_error tl]. unfold st_scheme.
  assert (is_scheme_cp 58 = false) as E1 by reflexivity.
  cbn [cpred cis has_ov opt_is_some andb m_url m_buf at_pos]. rewrite E1.
  replace (58 =? 58) with true by reflexivity.
  unfold is_special. cbn [su_scheme set_scheme empty_url].
  rewrite Hnf, Hsp, list_eqb_refl. cbn [andb]. reflexivity.
Qed.

(* not "//": the relative state, at the same code point *)
Lemma runs_sroa_relative pre t res : inp = pre ++ t -> cis (hd_error t) 47 && starts_with_cp 47 (tl t) = false ->
  RunsB (at_pos StRelative pre [] false false false u0) res ->
  RunsB (at_pos StSpecialRelativeOrAuthority pre [] false false false u0) res.
Proof.
  intros Hin E HR.
  eapply (runs_step_back shp inp (Some sb) StSpecialRelativeOrAuthority pre t) with (st' := StRelative) (buf' := []) (u' := u0);
    [exact Hin | | exact HR].
  rewrite (step_unfold shp inp (Some sb) _ pre t) by exact Hin. cbn zeta. unfold st_special_relative_or_authority.
  rewrite E. reflexivity.
Qed.

(* "//": both skipped, special authority ignore slashes state *)
Lemma runs_sroa_authority pre T res : inp = pre ++ 47 :: 47 :: T ->
  RunsB (at_pos StAuthority ((pre ++ [47; 47]) ++ take_sl T) [] false false false u0) res ->
  RunsB (at_pos StSpecialRelativeOrAuthority pre [] false false false u0) res.
Proof.
  intros Hin HR.
  eapply R_next with (m' := mkM StSpecialAuthorityIgnoreSlashes (Z.of_nat (length pre) + 1)%Z [] false false false u0).
  - rewrite (step_unfold shp inp (Some sb) _ pre (47 :: 47 :: T)) by exact Hin. cbn zeta. cbn [hd_error tl].
    unfold st_special_relative_or_authority. cbn [cis starts_with_cp]. replace (47 =? 47) with true by reflexivity. reflexivity.
  - cbn [m_ptr]. rewrite (len_split shp _ _ _ Hin). cbn [length]. lia.
  - unfold inc_ptr, set_ptr. cbn [m_ptr m_state m_buf m_at m_br m_pw m_url].
    replace (Z.of_nat (length pre) + 1 + 1)%Z with (Z.of_nat (length (pre ++ [47; 47]))) by (rewrite app_length; cbn [length]; lia).
    change (mkM StSpecialAuthorityIgnoreSlashes (Z.of_nat (length (pre ++ [47; 47]))) [] false false false u0)
      with (at_pos StSpecialAuthorityIgnoreSlashes (pre ++ [47; 47]) [] false false false u0).
    apply (runs_ignore_slashes shp inp (Some sb) (take_sl T) (pre ++ [47; 47]) (drop_sl T) false false false u0 res).
    + rewrite take_drop_sl. rewrite Hin, <- app_assoc. reflexivity.
    + apply take_sl_all.
    + apply drop_sl_head.
    + exact HR.
Qed.

End SameSchemeSpec.

(* ================= parse_relative on any remaining input (model side, special base) ================= *)
Section ParseRelativeS.
Variable dbg : bool.
Variable hp hpo : list N -> result host.
Variable hd : host -> list N.
Variable shs : spec_host -> list N.

Lemma parse_relative_abs_s b l c t : usv_list l -> ntnl l = c :: t -> is_sl c = true ->
  match t with c2 :: _ => is_sl c2 = false | [] => True end ->
  exists r1, ntnl r1 = t /\ usv_list r1
    /\ parse_relative dbg hp hpo hd None CUrlParser STSpecialNotFile b l
       = arm_expr_s dbg b (Bs (nfirstn (path_start b) (ser b)) []) r1.
Proof.
  intros Hul Ecl Hc1 Ht.
  destruct (inp_next_some l c t Ecl) as (r1 & En & Er1 & _).
  exists r1. split; [exact Er1|]. split; [exact (inp_next_usv l c r1 Hul En)|].
  assert ((c =? 35) = false) as E35 by (unfold is_sl in Hc1; lia).
  assert ((c =? 63) = false) as E63 by (unfold is_sl in Hc1; lia).
  unfold parse_relative, inp_split_first. rewrite En. rewrite E63, E35.
  cbn [st_is_special]. fold (sl_sp c). rewrite (sl_sp_is_sl c), Hc1.
  change (fun d : N => (d =? 47) || (d =? 92) && true) with sl_sp.
  destruct (inp_count_matching sl_sp l) as [sl rem'] eqn:Ecm.
  assert (sl < 2) as Hsl.
  { pose proof (inp_count_matching_fst sl_sp l) as Hf. rewrite Ecm in Hf. cbn [fst] in Hf. rewrite Hf, Ecl.
    rewrite (count_leading_ext sl_sp is_sl _ sl_sp_is_sl). cbn [count_leading]. rewrite Hc1.
    destruct t as [|d t']; [cbn [count_leading]; lia|]. cbn [count_leading]. rewrite Ht. lia. }
  replace (2 <=? sl) with false by lia.
  unfold arm_expr_s. assert (Bs (nfirstn (path_start b) (ser b)) [] = nfirstn (path_start b) (ser b) ++ [47]) as ->
    by (unfold Bs; cbn [segs_text map concat]; apply app_nil_r).
  reflexivity.
Qed.

Lemma parse_relative_path_s b sb l c t : related dbg shs b sb -> has_opaque_path sb = false ->
  is_special_scheme (su_scheme sb) = true -> list_eqb (su_scheme sb) str_file = false ->
  forallb no_slash (Whatwg.path_segments sb) = true ->
  ntnl l = c :: t -> is_sl c = false -> (c =? 63) = false -> (c =? 35) = false ->
  parse_relative dbg hp hpo hd None CUrlParser STSpecialNotFile b l
  = arm_expr_s dbg b (Bs (nfirstn (path_start b) (ser b)) (removelast (Whatwg.path_segments sb))) l.
Proof.
  intros R Hop Hsp Hnf HnsP Ecl Esl E63 E35.
  pose proof (rel_wf _ _ _ _ R) as W. pose proof (path_start_le_len b W) as Lps.
  set (P := Whatwg.path_segments sb) in *.
  set (pre := nfirstn (path_start b) (ser b)).
  assert (nlen pre = path_start b) as Lpre by (apply nlen_nfirstn; exact Lps).
  destruct (related_pre dbg shs b sb R) as [Ebq _]. fold pre in Ebq.
  assert (serialize_path sb = flat_map (fun s => 47 :: s) P) as EPth.
  { unfold serialize_path, P, Whatwg.path_segments. unfold has_opaque_path in Hop. destruct (su_path sb); [discriminate Hop | reflexivity]. }
  rewrite EPth in Ebq.
  destruct (inp_next_some l c t Ecl) as (r1 & En & Er1 & _).
  pose proof (special_type_related dbg shs b sb R Hsp Hnf) as Hstb.
  assert ((c =? 47) = false) as E47 by (unfold is_sl in Esl; lia).
  unfold parse_relative, inp_split_first. rewrite En. rewrite E63, E35.
  cbn [st_is_special]. fold (sl_sp c). rewrite (sl_sp_is_sl c), Esl.
  rewrite Ebq, <- Lpre.
  rewrite (pop_path_segments_s pre P HnsP). cbn [pbind].
  rewrite Hstb. cbn [st_is_special orb]. rewrite andb_true_r.
  rewrite match47, E47. unfold arm_expr_s. rewrite <- Lpre.
  destruct P as [|p0 Pr] eqn:EP.
  - rewrite N.eqb_refl. cbn [removelast].
    assert (Bs pre [] = pre ++ [47]) as -> by (unfold Bs; cbn [segs_text map concat]; apply app_nil_r).
    reflexivity.
  - pose proof (Bs_len_ge pre (removelast (p0 :: Pr))) as Lb.
    replace (nlen (Bs pre (removelast (p0 :: Pr))) =? nlen pre) with false by lia. reflexivity.
Qed.

End ParseRelativeS.

(* the path of a related base has neither '?' nor '#' *)
Lemma related_path_no_qh dbg shs b sb : related dbg shs b sb -> has_opaque_path sb = false ->
  forallb C06_WFI.no_qh (flat_map (fun s => 47 :: s) (Whatwg.path_segments sb)) = true.
Proof.
  intros R Hop. pose proof (rel_wf _ _ _ _ R) as W. pose proof (path_start_le_len b W) as Lps.
  set (P := Whatwg.path_segments sb) in *.
  set (pre := nfirstn (path_start b) (ser b)).
  destruct (related_pre dbg shs b sb R) as [Ebq _]. fold pre in Ebq.
  assert (serialize_path sb = flat_map (fun s => 47 :: s) P) as EPth.
  { unfold serialize_path, P, Whatwg.path_segments. unfold has_opaque_path in Hop. destruct (su_path sb); [discriminate Hop | reflexivity]. }
  rewrite EPth in Ebq.
  pose proof (qf_facts_of b W) as (_ & _ & _ & Q4 & _).
  pose proof (before_query_path_end b W) as E. rewrite Ebq in E.
  destruct (wf_ps_le_path_end b W) as [L1 L2].
  assert (nfirstn (path_end b - path_start b) (nskipn (path_start b) (ser b)) = flat_map (fun s => 47 :: s) P) as EE.
  { rewrite <- (nfirstn_nskipn (path_start b) (nfirstn (path_end b) (ser b))) in E.
    rewrite nfirstn_nfirstn in E by lia. fold pre in E. apply app_inv_head in E. rewrite E.
    unfold nskipn, nfirstn. rewrite N2Nat.inj_sub. rewrite firstn_skipn_comm.
    replace (N.to_nat (path_start b) + (N.to_nat (path_end b) - N.to_nat (path_start b)))%nat with (N.to_nat (path_end b)) by lia.
    reflexivity. }
  rewrite EE in Q4. exact Q4.
Qed.


(* ================= classes "same scheme": "sch:/x" and "sch:x" against a base with the scheme sch ================= *)
Lemma rel_path_result_s_scheme sb P t : su_scheme (rel_path_result_s sb P t) = su_scheme sb.
Proof.
  unfold rel_path_result_s.
  destruct (tail_url_same (rel_keep sb (fst (spath_s t P []))) (snd (spath_s t P []))) as [E _]. rewrite E. reflexivity.
Qed.

Definition in_class_same_abs_s (sb : spec_url) (input : list N) : bool :=
  sp_base_ok sb
  && match spec_scheme (spec_clean input) with
     | Some (sch, c :: t) => list_eqb sch (su_scheme sb) && is_sl c
                             && negb (match t with c2 :: _ => is_sl c2 | [] => false end) && spath_ok_s t [] []
     | _ => false
     end.

Definition in_class_same_path_s (sb : spec_url) (input : list N) : bool :=
  sp_base_ok sb
  && match spec_scheme (spec_clean input) with
     | Some (sch, c :: t) => list_eqb sch (su_scheme sb) && negb (is_sl c) && negb (c =? 63) && negb (c =? 35)
                             && spath_ok_s (c :: t) (removelast (Whatwg.path_segments sb)) []
     | _ => false
     end.

Section SameSchemeClasses.
Variable dbg : bool.
Variable hp hpo : list N -> result host.
Variable hd : host -> list N.
Variable shp : bool -> list N -> option spec_host.
Variable shs : spec_host -> list N.

(* parser.rs: fewer than two slashes after "sch:" and the scheme of the base: parse_relative on the rest *)
Lemma parse_url_same_scheme b sb input rem : related dbg shs b sb -> has_opaque_path sb = false ->
  is_special_scheme (su_scheme sb) = true -> list_eqb (su_scheme sb) str_file = false ->
  parse_scheme CUrlParser (input_new_trim_c0 input) = Some (su_scheme sb, rem) ->
  count_leading is_sl (ntnl rem) < 2 ->
  parse_url dbg hp hpo hd None (Some b) input
  = (' _ <~ to_u32 (nlen (su_scheme sb)) ;; parse_relative dbg hp hpo hd None CUrlParser STSpecialNotFile b rem).
Proof.
  intros R Hop Hsp Hnf Hps Hcnt. unfold parse_url. rewrite Hps. unfold parse_with_scheme.
  rewrite (special_type _ Hsp Hnf).
  destruct (inp_count_matching is_slash_or_bslash rem) as [sl rm] eqn:Ecm.
  pose proof (inp_count_matching_fst is_slash_or_bslash rem) as Hf. rewrite Ecm in Hf. cbn [fst] in Hf.
  change is_slash_or_bslash with is_sl in Hf.
  replace (sl <? 2) with true by (symmetry; apply N.ltb_lt; rewrite Hf; exact Hcnt).
  rewrite (rel_sch _ _ _ _ R), list_eqb_refl. cbn [andb].
  rewrite (related_not_cbb dbg shs b sb R Hop). cbn [negb passert].
  destruct (to_u32 (nlen (su_scheme sb))); cbn [pbind]; [|reflexivity | reflexivity].
  destruct dbg; reflexivity.
Qed.

Lemma same_scheme_finish (m : pres url) (sb : spec_url) u su : related dbg shs u su -> su_scheme su = su_scheme sb ->
  oob (U32_MAX_P < nlen (ser u)) m u ->
  agree_rel_strict dbg shs (' _ <~ to_u32 (nlen (su_scheme sb)) ;; m) (BDone su).
Proof.
  intros Ru Esch HO.
  apply (oob_agree dbg shs _ u su); [|exact Ru].
  eapply oob_bind; [|exact HO]. apply oob_u32. intros Hlt.
  destruct (related_scheme_colon dbg shs u su Ru) as (_ & Ese & _).
  destruct (wf_scheme_facts u (rel_wf _ _ _ _ Ru)) as (_ & _ & Hl). rewrite Ese, Esch in Hl. lia.
Qed.

Theorem class_same_abs_s input b sb : usv_list input -> related dbg shs b sb ->
  scheme_canon (su_scheme sb) = true -> in_class_same_abs_s sb input = true ->
  exists su, spec_basic_url_parse shp input (Some sb) = BDone su /\ spec_base_ok su = true
    /\ agree_rel_strict dbg shs (parse_url dbg hp hpo hd None (Some b) input) (BDone su).
Proof.
  intros Hu R Hcan Hc. unfold in_class_same_abs_s in Hc.
  apply andb_true_iff in Hc. destruct Hc as [Hb Hok].
  destruct (sp_base_ok_facts sb Hb) as (Hop & Hsp & Hnf & h & Eh).
  destruct (spec_scheme (spec_clean input)) as [[sch R0]|] eqn:Es; [|discriminate Hok].
  destruct R0 as [|c t]; [discriminate Hok|].
  apply andb_true_iff in Hok. destruct Hok as [Hok Hspok]. apply andb_true_iff in Hok. destruct Hok as [Hok Ht].
  apply andb_true_iff in Hok. destruct Hok as [Esch Hc1]. apply list_eqb_spec in Esch. subst sch.
  apply negb_true_iff in Ht.
  assert (match t with c2 :: _ => is_sl c2 = false | [] => True end) as Ht' by (destruct t; [exact I | exact Ht]).
  exists (rel_path_result_s sb [] t).
  assert (spec_basic_url_parse shp input (Some sb) = BDone (rel_path_result_s sb [] t)) as HS.
  { apply spec_parse_of_runs.
    destruct (runs_scheme shp (spec_clean input) (Some sb) (su_scheme sb) (c :: t) (BDone (rel_path_result_s sb [] t)) Es)
      as (pre & Hin & K). apply K.
    apply (runs_scheme_colon_same shp _ sb Hsp Hnf pre (c :: t) _ Hin).
    assert (spec_clean input = (pre ++ [58]) ++ c :: t) as Hin2 by (rewrite Hin, <- app_assoc; reflexivity).
    apply (runs_sroa_relative shp _ sb (pre ++ [58]) (c :: t) _ Hin2).
    { cbn [hd_error tl cis]. destruct t as [|c2 t2]; [apply andb_false_r|]. cbn [starts_with_cp].
      unfold is_sl in Ht. apply orb_false_iff in Ht. destruct Ht as [-> _]. apply andb_false_r. }
    exact (runs_rel_abs_g shp _ sb Hsp Hnf (pre ++ [58]) (set_scheme empty_url (su_scheme sb)) eq_refl c t Hin2 Hc1 Ht'). }
  split; [exact HS|].
  rewrite spec_clean_is_ntnl_trim in Es. destruct (spec_scheme_model _ _ _ Es) as (rem & Hps & Hrem).
  destruct (parse_scheme_suffix _ _ _ _ Hps) as [pre0 Hpre].
  assert (usv_list rem) as Hur.
  { pose proof (usv_trim input Hu) as Htr. rewrite Hpre in Htr. apply usv_app in Htr. tauto. }
  rewrite (parse_url_same_scheme b sb input rem R Hop Hsp Hnf Hps).
  2:{ rewrite Hrem. cbn [count_leading]. rewrite Hc1. destruct t as [|c2 t2]; [cbn [count_leading]; lia|].
      cbn [count_leading]. rewrite Ht. lia. }
  destruct (parse_relative_abs_s dbg hp hpo hd b rem c t Hur Hrem Hc1 Ht') as (r1 & Er1 & Hur1 & ->).
  rewrite <- Er1 in Hspok.
  destruct (path_arm_related_s dbg shs b sb h [] r1 R Hop Hsp Hnf Eh Hcan Hur1 eq_refl eq_refl Hspok) as (u & HO & Ru & Hbo).
  rewrite Er1 in Ru, Hbo. split; [exact Hbo|].
  exact (same_scheme_finish _ sb u _ Ru (rel_path_result_s_scheme sb [] t) HO).
Qed.

Theorem class_same_path_s input b sb : usv_list input -> related dbg shs b sb ->
  spec_base_ok sb = true -> in_class_same_path_s sb input = true ->
  exists su, spec_basic_url_parse shp input (Some sb) = BDone su /\ spec_base_ok su = true
    /\ agree_rel_strict dbg shs (parse_url dbg hp hpo hd None (Some b) input) (BDone su).
Proof.
  intros Hu R Hbok Hc. unfold in_class_same_path_s in Hc.
  apply andb_true_iff in Hbok. destruct Hbok as [Hcan HnsP].
  apply andb_true_iff in Hc. destruct Hc as [Hb Hok].
  destruct (sp_base_ok_facts sb Hb) as (Hop & Hsp & Hnf & h & Eh).
  destruct (spec_scheme (spec_clean input)) as [[sch R0]|] eqn:Es; [|discriminate Hok].
  destruct R0 as [|c t]; [discriminate Hok|].
  apply andb_true_iff in Hok. destruct Hok as [Hok Hspok]. apply andb_true_iff in Hok. destruct Hok as [Hok E35].
  apply andb_true_iff in Hok. destruct Hok as [Hok E63]. apply andb_true_iff in Hok. destruct Hok as [Esch Esl].
  apply list_eqb_spec in Esch. subst sch. apply negb_true_iff in Esl, E63, E35.
  set (P := Whatwg.path_segments sb) in *.
  exists (rel_path_result_s sb (removelast P) (c :: t)).
  assert (spec_basic_url_parse shp input (Some sb) = BDone (rel_path_result_s sb (removelast P) (c :: t))) as HS.
  { apply spec_parse_of_runs.
    destruct (runs_scheme shp (spec_clean input) (Some sb) (su_scheme sb) (c :: t)
                (BDone (rel_path_result_s sb (removelast P) (c :: t))) Es) as (pre & Hin & K). apply K.
    apply (runs_scheme_colon_same shp _ sb Hsp Hnf pre (c :: t) _ Hin).
    assert (spec_clean input = (pre ++ [58]) ++ c :: t) as Hin2 by (rewrite Hin, <- app_assoc; reflexivity).
    apply (runs_sroa_relative shp _ sb (pre ++ [58]) (c :: t) _ Hin2).
    { cbn [hd_error tl cis]. unfold is_sl in Esl. apply orb_false_iff in Esl. destruct Esl as [-> _]. reflexivity. }
    exact (runs_rel_path_g shp _ sb Hop Hsp Hnf (pre ++ [58]) (set_scheme empty_url (su_scheme sb)) eq_refl c t Hin2 Esl E63 E35). }
  split; [exact HS|].
  rewrite spec_clean_is_ntnl_trim in Es. destruct (spec_scheme_model _ _ _ Es) as (rem & Hps & Hrem).
  destruct (parse_scheme_suffix _ _ _ _ Hps) as [pre0 Hpre].
  assert (usv_list rem) as Hur.
  { pose proof (usv_trim input Hu) as Htr. rewrite Hpre in Htr. apply usv_app in Htr. tauto. }
  rewrite (parse_url_same_scheme b sb input rem R Hop Hsp Hnf Hps).
  2:{ rewrite Hrem. cbn [count_leading]. rewrite Esl. lia. }
  rewrite (parse_relative_path_s dbg hp hpo hd shs b sb rem c t R Hop Hsp Hnf HnsP Hrem Esl E63 E35). fold P.
  rewrite <- Hrem in Hspok.
  destruct (path_arm_related_s dbg shs b sb h (removelast P) rem R Hop Hsp Hnf Eh Hcan Hur
              (no_slash_removelast P HnsP) (removelast_prefix_no_qh_s P (related_path_no_qh dbg shs b sb R Hop)) Hspok)
    as (u & HO & Ru & Hbo).
  rewrite Hrem in Ru, Hbo. split; [exact Hbo|].
  exact (same_scheme_finish _ sb u _ Ru (rel_path_result_s_scheme sb _ _) HO).
Qed.

End SameSchemeClasses.

(* ================= "sch://..." with the scheme of the base: the base is ignored ================= *)
(* two leading '/' or '\' after "sch:" - the Standard reaches the special authority ignore slashes state
   (directly on "//", through the relative and relative slash states otherwise), parser.rs counts two slashes
   and calls after_double_slash: the same outcome as without base *)
Definition two_sl (R : list N) : bool := match R with c1 :: c2 :: _ => is_sl c1 && is_sl c2 | _ => false end.
Definition same_two_sl (sb : spec_url) (sch R : list N) : bool :=
  list_eqb sch (su_scheme sb) && is_special_scheme sch && negb (list_eqb sch str_file) && two_sl R.

Theorem spec_same_two_sl shp sb input sch R :
  spec_scheme (spec_clean input) = Some (sch, R) -> same_two_sl sb sch R = true ->
  outcome_eq (spec_basic_url_parse shp input (Some sb)) (spec_basic_url_parse shp input None).
Proof.
  intros Es Hc. unfold same_two_sl in Hc.
  apply andb_true_iff in Hc. destruct Hc as [Hc H2sl]. apply andb_true_iff in Hc. destruct Hc as [Hc Hnf].
  apply andb_true_iff in Hc. destruct Hc as [Esch Hsp]. apply list_eqb_spec in Esch. subst sch. apply negb_true_iff in Hnf.
  destruct R as [|c1 [|c2 T]]; try discriminate H2sl. cbn [two_sl] in H2sl.
  apply andb_true_iff in H2sl. destruct H2sl as [H1 H2].
  assert (drop_sl (c1 :: c2 :: T) = drop_sl T) as Ed by (unfold drop_sl; cbn [drop_leading]; rewrite H1, H2; reflexivity).
  apply (outcome_is_eq _ _ (sauth_s shp (su_scheme sb) (drop_sl T))).
  - set (inp := spec_clean input) in *.
    destruct (runs_scheme shp inp (Some sb) (su_scheme sb) (c1 :: c2 :: T) BOutOfFuel Es) as (pre & Hin & _).
    assert (inp = (pre ++ [58]) ++ c1 :: c2 :: T) as Hin2 by (rewrite Hin, <- app_assoc; reflexivity).
    assert (forall res, Runs shp inp (Some sb) (at_pos StSpecialRelativeOrAuthority (pre ++ [58]) [] false false false
                                                (set_scheme empty_url (su_scheme sb))) res ->
                        spec_basic_url_parse shp input (Some sb) = res) as Hrun.
    { intros res HR. apply spec_parse_of_runs. fold inp.
      destruct (runs_scheme shp inp (Some sb) (su_scheme sb) (c1 :: c2 :: T) res Es) as (pre2 & Hin' & K). apply K.
      assert (pre2 = pre) as -> by (rewrite Hin in Hin'; apply app_inv_tail in Hin'; symmetry; exact Hin').
      exact (runs_scheme_colon_same shp inp sb Hsp Hnf pre (c1 :: c2 :: T) res Hin HR). }
    assert (out_is shp inp (Some sb) (at_pos StSpecialRelativeOrAuthority (pre ++ [58]) [] false false false
                                             (set_scheme empty_url (su_scheme sb)))
                   (sauth_s shp (su_scheme sb) (drop_sl T))) as HO.
    { destruct ((c1 =? 47) && (c2 =? 47)) eqn:E47.
      - apply andb_true_iff in E47. destruct E47 as [E1 E2]. apply N.eqb_eq in E1, E2. subst c1 c2.
        assert (inp = (((pre ++ [58]) ++ [47; 47]) ++ take_sl T) ++ drop_sl T) as Hin3.
        { rewrite <- !app_assoc. cbn [app]. rewrite take_drop_sl. rewrite Hin. reflexivity. }
        pose proof (runs_authority_s shp inp (Some sb) _ (drop_sl T) (su_scheme sb) Hin3 Hsp Hnf) as RA.
        destruct (sauth_s shp (su_scheme sb) (drop_sl T)) as [su|]; cbn [out_is] in *.
        + exact (runs_sroa_authority shp inp sb (pre ++ [58]) T _ Hin2 RA).
        + destruct RA as [uf RA]. exists uf. exact (runs_sroa_authority shp inp sb (pre ++ [58]) T _ Hin2 RA).
      - pose proof (runs_rel_authority_g shp inp sb Hsp Hnf (pre ++ [58]) (set_scheme empty_url (su_scheme sb)) eq_refl
                      c1 c2 T Hin2 H1 H2) as RA.
        assert (cis (hd_error (c1 :: c2 :: T)) 47 && starts_with_cp 47 (tl (c1 :: c2 :: T)) = false) as E by exact E47.
        destruct (sauth_s shp (su_scheme sb) (drop_sl T)) as [su|]; cbn [out_is] in *.
        + exact (runs_sroa_relative shp inp sb (pre ++ [58]) _ _ Hin2 E RA).
        + destruct RA as [uf RA]. exists uf. exact (runs_sroa_relative shp inp sb (pre ++ [58]) _ _ Hin2 E RA). }
    destruct (sauth_s shp (su_scheme sb) (drop_sl T)) as [su|]; cbn [out_is outcome_is] in *.
    + apply Hrun. exact HO.
    + destruct HO as [uf HO]. exists uf. apply Hrun. exact HO.
  - pose proof (spec_special shp input (su_scheme sb) (c1 :: c2 :: T) Es Hsp Hnf) as K. rewrite Ed in K.
    destruct (sauth_s shp (su_scheme sb) (drop_sl T)); exact K.
Qed.

Theorem model_same_two_sl dbg hp hpo hd ovr b input sch R :
  spec_scheme (spec_clean input) = Some (sch, R) -> is_special_scheme sch = true -> list_eqb sch str_file = false ->
  two_sl R = true ->
  parse_url dbg hp hpo hd ovr (Some b) input = parse_url dbg hp hpo hd ovr None input.
Proof.
  intros Es Hsp Hnf H2sl. rewrite spec_clean_is_ntnl_trim in Es. destruct (spec_scheme_model _ _ _ Es) as (rem & Hps & Hrem).
  unfold parse_url. rewrite Hps. unfold parse_with_scheme. rewrite (special_type _ Hsp Hnf).
  destruct (inp_count_matching is_slash_or_bslash rem) as [sl rm] eqn:Ecm.
  pose proof (inp_count_matching_fst is_slash_or_bslash rem) as Hf. rewrite Ecm in Hf. cbn [fst] in Hf.
  change is_slash_or_bslash with is_sl in Hf. rewrite Hrem in Hf.
  destruct R as [|c1 [|c2 T]]; try discriminate H2sl. cbn [two_sl] in H2sl.
  apply andb_true_iff in H2sl. destruct H2sl as [H1 H2]. cbn [count_leading] in Hf. rewrite H1, H2 in Hf.
  replace (sl <? 2) with false by lia. reflexivity.
Qed.

(* the Standard's side of the two same-scheme path classes alone *)
Lemma same_abs_s_spec shp input sb : in_class_same_abs_s sb input = true ->
  exists t, spec_basic_url_parse shp input (Some sb) = BDone (rel_path_result_s sb [] t).
Proof.
  intros Hc. unfold in_class_same_abs_s in Hc.
  apply andb_true_iff in Hc. destruct Hc as [Hb Hok].
  destruct (sp_base_ok_facts sb Hb) as (Hop & Hsp & Hnf & h & Eh).
  destruct (spec_scheme (spec_clean input)) as [[sch R0]|] eqn:Es; [|discriminate Hok].
  destruct R0 as [|c t]; [discriminate Hok|].
  apply andb_true_iff in Hok. destruct Hok as [Hok Hspok]. apply andb_true_iff in Hok. destruct Hok as [Hok Ht].
  apply andb_true_iff in Hok. destruct Hok as [Esch Hc1]. apply list_eqb_spec in Esch. subst sch.
  apply negb_true_iff in Ht.
  assert (match t with c2 :: _ => is_sl c2 = false | [] => True end) as Ht' by (destruct t; [exact I | exact Ht]).
  exists t. apply spec_parse_of_runs.
  destruct (runs_scheme shp (spec_clean input) (Some sb) (su_scheme sb) (c :: t) (BDone (rel_path_result_s sb [] t)) Es)
    as (pre & Hin & K). apply K.
  apply (runs_scheme_colon_same shp _ sb Hsp Hnf pre (c :: t) _ Hin).
  assert (spec_clean input = (pre ++ [58]) ++ c :: t) as Hin2 by (rewrite Hin, <- app_assoc; reflexivity).
  apply (runs_sroa_relative shp _ sb (pre ++ [58]) (c :: t) _ Hin2).
  { cbn [hd_error tl cis]. destruct t as [|c2 t2]; [apply andb_false_r|]. cbn [starts_with_cp].
    unfold is_sl in Ht. apply orb_false_iff in Ht. destruct Ht as [-> _]. apply andb_false_r. }
  exact (runs_rel_abs_g shp _ sb Hsp Hnf (pre ++ [58]) (set_scheme empty_url (su_scheme sb)) eq_refl c t Hin2 Hc1 Ht').
Qed.

Lemma same_path_s_spec shp input sb : in_class_same_path_s sb input = true ->
  exists t, spec_basic_url_parse shp input (Some sb)
            = BDone (rel_path_result_s sb (removelast (Whatwg.path_segments sb)) t).
Proof.
  intros Hc. unfold in_class_same_path_s in Hc.
  apply andb_true_iff in Hc. destruct Hc as [Hb Hok].
  destruct (sp_base_ok_facts sb Hb) as (Hop & Hsp & Hnf & h & Eh).
  destruct (spec_scheme (spec_clean input)) as [[sch R0]|] eqn:Es; [|discriminate Hok].
  destruct R0 as [|c t]; [discriminate Hok|].
  apply andb_true_iff in Hok. destruct Hok as [Hok Hspok]. apply andb_true_iff in Hok. destruct Hok as [Hok E35].
  apply andb_true_iff in Hok. destruct Hok as [Hok E63]. apply andb_true_iff in Hok. destruct Hok as [Esch Esl].
  apply list_eqb_spec in Esch. subst sch. apply negb_true_iff in Esl, E63, E35.
  exists (c :: t). apply spec_parse_of_runs.
  destruct (runs_scheme shp (spec_clean input) (Some sb) (su_scheme sb) (c :: t)
              (BDone (rel_path_result_s sb (removelast (Whatwg.path_segments sb)) (c :: t))) Es) as (pre & Hin & K). apply K.
  apply (runs_scheme_colon_same shp _ sb Hsp Hnf pre (c :: t) _ Hin).
  assert (spec_clean input = (pre ++ [58]) ++ c :: t) as Hin2 by (rewrite Hin, <- app_assoc; reflexivity).
  apply (runs_sroa_relative shp _ sb (pre ++ [58]) (c :: t) _ Hin2).
  { cbn [hd_error tl cis]. unfold is_sl in Esl. apply orb_false_iff in Esl. destruct Esl as [-> _]. reflexivity. }
  exact (runs_rel_path_g shp _ sb Hop Hsp Hnf (pre ++ [58]) (set_scheme empty_url (su_scheme sb)) eq_refl c t Hin2 Esl E63 E35).
Qed.
