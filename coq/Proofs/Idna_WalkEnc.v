(* Proofs/Idna_WalkEnc.v - the unreachable!() behind the internal Punycode encoder (uts46.rs:445) cannot be reached:
   every label of domain_buffer that the marking run of process_inner leaves is a list of Unicode scalar values and is
   ASCII, or marked with U+FFFD, or at most 1000 scalar values long (the cap of check_label, uts46.rs 1607-1616), so
   C13_internal applies to every label an output walk encodes (EncOKInner of Proofs/Idna_WalkNoPanic.v).
   Adapter premise: AdapterUSV - the two normalizer functions return Unicode scalar values (true by type: they yield
   Rust `char`s; the model's code points are plain N). *)
From RU Require Import Base.Prelude Base.Utf8 Base.U32_c13 Gen.Tables Model.Punycode Model.Uts46
  Proofs.C13_Main
  Proofs.Idna_Sim Proofs.Idna_Api Proofs.Idna_Known Proofs.Idna_Hyp Proofs.Idna_Redisc
  Proofs.Idna_C10_Deny Proofs.Idna_C10_Prefix Proofs.Idna_C10_Inner Proofs.Idna_C10_Walk
  Proofs.Idna_Mark Proofs.Idna_MarkWalk Proofs.Idna_MarkFffd Proofs.Idna_WalkFun Proofs.Idna_WalkInv Proofs.Idna_WalkApi
  Proofs.Idna_WalkNoPanic.

Record AdapterUSV (A : adapter) : Prop := {
  usv_map : forall l, usv_list (map_normalize A l);
  usv_norm : forall l, usv_list (normalize_validate A l) }.

Definition capped (l : list N) : Prop := is_ascii_l l = true \/ fffd l = true \/ len l <= PUNYCODE_ENCODE_MAX_INPUT_LENGTH.
Definition capQ (l : list N) : Prop := usv_list l /\ capped l.
Definition asciiF (l : list N) : Prop := Forall (fun c => c < 128 \/ c = FFFD) l.

Lemma usv_fffd : is_usv FFFD.
Proof. unfold is_usv, FFFD, REPLACEMENT. lia. Qed.
Lemma marked_usv l l' : marked l l' -> usv_list l -> usv_list l'.
Proof.
  intros H. induction H as [|x y a b Hxy _ IH]; intros Hu; [constructor|]. inversion Hu as [|? ? Hx Ha]; subst.
  constructor; [destruct Hxy as [-> | ->]; [exact Hx|exact usv_fffd]|exact (IH Ha)].
Qed.
Lemma marked_eq_or_fffd l l' : marked l l' -> l' = l \/ fffd l' = true.
Proof.
  intros H. induction H as [|x y a b Hxy _ IH]; [left; reflexivity|].
  destruct Hxy as [-> | ->]; [|right; reflexivity].
  destruct IH as [-> |IH]; [left; reflexivity|right]. unfold fffd in *. cbn [existsb]. rewrite IH. apply orb_true_r.
Qed.
Lemma marked_capped l l' : marked l l' -> capped l -> capped l'.
Proof.
  intros HM [H|[H|H]].
  - destruct (marked_eq_or_fffd _ _ HM) as [-> |Hf]; [left; exact H|right; left; exact Hf].
  - right; left. exact (marked_fffd _ _ H HM).
  - right; right. unfold len in *. rewrite (marked_length _ _ HM). exact H.
Qed.
Lemma marked_capQ l l' : marked l l' -> capQ l -> capQ l'.
Proof. intros HM [H1 H2]. split; [exact (marked_usv _ _ HM H1)|exact (marked_capped _ _ HM H2)]. Qed.
Lemma marked_asciiF l l' : marked l l' -> asciiF l -> asciiF l'.
Proof.
  intros H. induction H as [|x y a b Hxy _ IH]; intros Hu; [constructor|]. inversion Hu as [|? ? Hx Ha]; subst.
  constructor; [destruct Hxy as [-> | ->]; [exact Hx|right; reflexivity]|exact (IH Ha)].
Qed.
Lemma asciiF_nonascii_fffd q : asciiF q -> is_ascii_l q = false -> fffd q = true.
Proof.
  unfold fffd. induction 1 as [|y q Hy _ IHq]; intros E; [discriminate|]. cbn [is_ascii_l forallb existsb] in *.
  destruct Hy as [Hy| ->]; [|reflexivity]. fold (is_ascii_l q) in E.
  replace (is_ascii_cp y) with true in E by (unfold is_ascii_cp; lia). cbn [andb] in E. rewrite (IHq E). apply orb_true_r.
Qed.
Lemma asciiF_capQ l : asciiF l -> capQ l.
Proof.
  intros H. split.
  - eapply Forall_impl; [|exact H]. intros a [Ha| ->]; [unfold is_usv; lia|exact usv_fffd].
  - destruct (is_ascii_l l) eqn:Ea; [left; exact Ea|right; left; exact (asciiF_nonascii_fffd l H Ea)].
Qed.
Lemma upper_asciiF deny l : Forall (fun b => b < 128) l -> asciiF (map (apply_upper deny) l).
Proof.
  intros H. apply Forall_forall. intros x Hx. apply in_map_iff in Hx. destruct Hx as (b & <- & Hb).
  rewrite Forall_forall in H. destruct (N.eq_dec (apply_upper deny b) FFFD) as [E|E]; [right; exact E|left].
  exact (apply_upper_ascii deny b (H b Hb) E).
Qed.
Lemma lower_usv dd l : usv_list l -> usv_list (map (apply_lower dd) l).
Proof.
  intros H. apply Forall_forall. intros x Hx. apply in_map_iff in Hx. destruct Hx as (c & <- & Hc).
  unfold usv_list in H. rewrite Forall_forall in H. specialize (H c Hc). unfold apply_lower.
  destruct (c <? 128); [|exact H]. destruct (N.land dd (N.shiftl 1 c) =? 0); [exact H|exact usv_fffd].
Qed.
Lemma split_ascii_prefix label a n : split_ascii_fast_path_prefix label = (a, n) -> Forall (fun b => b < 128) a.
Proof.
  unfold split_ascii_fast_path_prefix. destruct (position (fun b => negb (is_ascii_cp b)) label) as [[|q]|] eqn:E; intros H; inversion H; subst.
  - constructor.
  - assert (Hq : Forall (fun b => negb (is_ascii_cp b) = false) (firstn (Datatypes.S q) label)) by exact (position_some _ _ _ E).
    assert (Hsub : forall x, In x (firstn q label) -> In x (firstn (Datatypes.S q) label)).
    { clear. revert q. induction label as [|y r IH]; intros q x Hx; [destruct q; destruct Hx|].
      destruct q; [destruct Hx|]. cbn [firstn] in *. destruct Hx as [->|Hx]; [left; reflexivity|right; exact (IH q x Hx)]. }
    apply Forall_forall. intros x Hx. rewrite Forall_forall in Hq. specialize (Hq x (Hsub x Hx)). unfold is_ascii_cp in Hq. lia.
  - apply position_none in E. eapply Forall_impl; [|exact E]. cbv beta. unfold is_ascii_cp. intros b Hb. lia.
Qed.

Lemma SOk_pair_inj (a c : list N) (b e : bool) : @SOk (list N * bool) (a, b) = SOk (c, e) -> a = c /\ b = e.
Proof. intros H. inversion H. split; reflexivity. Qed.

Lemma SOk_triple_inj (a c : list N) (b e b2 e2 : bool) : @SOk (list N * bool * bool) (a, b, b2) = SOk (c, e, e2) -> a = c.
Proof. intros H. inversion H. reflexivity. Qed.

Section Enc.
Variable A : adapter.
Variable cfg : bool.
Hypothesis HU : AdapterUSV A.

Lemma check_label_capped hy lab he fcm ncj l' he' :
  check_label A cfg false hy lab he fcm ncj = SOk (l', he') -> capped l'.
Proof.
  unfold check_label. intros H.
  apply sbind_ok in H. destruct H as ([l1 h1] & _ & H). apply sbind_ok in H. destruct H as ([l2 h2] & _ & H).
  apply sbind_ok in H. destruct H as ([l3 h3] & _ & H).
  destruct (negb (is_ascii_l l3) && (PUNYCODE_ENCODE_MAX_INPUT_LENGTH <? len l3)) eqn:E.
  - destruct (len l3 <=? PUNYCODE_ENCODE_MAX_INPUT_LENGTH) eqn:E2; [discriminate|]. apply SOk_pair_inj in H. destruct H as [<- _].
    right; left. apply fffd_set_nth. unfold len in E2. lia.
  - apply SOk_pair_inj in H. destruct H as [<- _]. apply andb_false_iff in E. destruct E as [E|E].
    + left. apply negb_false_iff in E. exact E.
    + right; right. lia.
Qed.
Lemma check_label_capQ hy lab he fcm ncj l' he' : usv_list lab ->
  check_label A cfg false hy lab he fcm ncj = SOk (l', he') -> capQ l'.
Proof.
  intros Hu H. split; [|exact (check_label_capped _ _ _ _ _ _ _ H)].
  pose proof (check_label_MK A cfg hy lab he fcm ncj) as HM. rewrite H in HM. exact (marked_usv _ _ (proj1 HM) Hu).
Qed.

Lemma apd_usv dd lb he l' he' : after_punycode_decode A false dd lb he = SOk (l', he') -> usv_list l'.
Proof.
  unfold after_punycode_decode. rewrite scan_mark_fffd_id. cbn [sbind].
  pose proof (lower_usv dd _ (usv_norm A HU lb)) as HX.
  destruct (zip_mark (map (apply_lower dd) (normalize_validate A lb)) lb) as [m|] eqn:Ez; intros H; inversion H; subst.
  - exact (marked_usv _ _ (proj1 (zip_mark_some _ _ _ Ez)) HX).
  - exact HX.
Qed.

Lemma usv_split4 cur : usv_list cur -> usv_list (firstn 4 cur) /\ usv_list (skipn 4 cur).
Proof. intros H. rewrite <- (firstn_skipn 4 cur) in H. apply Forall_app in H. exact H. Qed.

Lemma end_sublabel_capQ hy dd cur he fcm ncj l' he' : usv_list cur ->
  end_sublabel A cfg false hy dd cur he fcm ncj = SOk (l', he') -> capQ l'.
Proof.
  intros Hu. unfold end_sublabel. destruct (starts_with cur XN_PREFIX); [|apply check_label_capQ; exact Hu].
  cbv zeta. intros H. apply sbind_ok in H. destruct H as ([t h1] & H1 & H).
  destruct (usv_split4 cur Hu) as [Hu4 Hus].
  assert (Hut : usv_list t).
  { pose proof (scan_mark_MK (fun c => negb (is_ascii_cp c)) (skipn 4 cur) he) as HM. rewrite H1 in HM. exact (marked_usv _ _ (proj1 HM) Hus). }
  assert (Hu1 : usv_list (firstn 4 cur ++ t)) by (apply Forall_app; split; assumption).
  destruct (last_opt (firstn 4 cur ++ t)) as [lst|]; [|discriminate].
  apply sbind_ok in H. destruct H as ([[c2 h2] p2] & H2 & H).
  assert (Hu2 : usv_list c2).
  { destruct (lst =? HYPHEN); apply SOk_triple_inj in H2; rewrite <- H2; [exact (marked_usv _ _ (marked_set_last _) Hu1)|exact Hu1]. }
  apply sbind_ok in H. destruct H as ([[c3 h3] p3] & H3 & H).
  assert (Hu3 : usv_list c3).
  { destruct (PUNYCODE_DECODE_MAX_INPUT_LENGTH <? len c2 - 4); apply SOk_triple_inj in H3; rewrite <- H3; [exact (marked_usv _ _ (marked_set_nth _ _) Hu2)|exact Hu2]. }
  destruct (negb p3).
  - destruct (decode_with cfg CharInternal (skipn 4 c3)) as [decoded| |s]; [| |discriminate].
    + apply sbind_ok in H. destruct H as ([c4 h4] & H4 & H). exact (check_label_capQ _ _ _ _ _ _ _ (apd_usv _ _ _ _ _ H4) H).
    + exact (check_label_capQ _ _ _ _ _ _ _ (marked_usv _ _ (marked_set_nth _ _) Hu3) H).
  - exact (check_label_capQ _ _ _ _ _ _ _ Hu3 H).
Qed.

Definition LabsOK (db db' : list N) : Prop :=
  exists labs, db' = db ++ join_dots labs /\ labs <> [] /\ Forall nodot labs /\ Forall capQ labs.

Lemma sublabels_cap hy deny rest : forall s db cur he ap fcm ncj db' he' ap',
  usv_list cur -> usv_list s -> Forall usv_list rest -> nodot cur -> nodot s -> Forall nodot rest ->
  sublabels A cfg false hy (N.lor deny DOT_MASK) s rest db cur he ap fcm ncj = SOk (db', he', ap') -> LabsOK db db'.
Proof.
  induction rest as [|s2 rest IH]; intros s db cur he ap fcm ncj db' he' ap' Huc Hus Hur Hnc Hns Hnr H;
    cbn [sublabels] in H; rewrite scan_mark_fffd_id in H; cbn [sbind] in H;
    apply sbind_ok in H; destruct H as ([lab h2] & H2 & H);
    pose proof (end_sublabel_capQ _ _ _ _ _ _ _ _ (proj2 (Forall_app _ _ _) (conj Huc Hus)) H2) as Hq;
    pose proof (end_sublabel_RP A cfg hy deny (cur ++ s) (he || existsb is_fffd s) fcm ncj) as HR; rewrite H2 in HR;
    destruct HR as (R1 & _); specialize (R1 (proj2 (nodot_app cur s) (conj Hnc Hns))).
  - inversion H. subst. exists [lab]. repeat split; [discriminate|constructor; [exact R1|constructor]|constructor; [exact Hq|constructor]].
  - destruct (IH s2 (db ++ lab ++ [DOT]) [] h2 (ap ++ [AalOther]) true true db' he' ap' ltac:(constructor)
                (Forall_inv Hur) (Forall_inv_tail Hur) ltac:(constructor) (Forall_inv Hnr) (Forall_inv_tail Hnr) H)
      as (labs & Hdb & Hne & Hnl & Hcl).
    exists (lab :: labs). split; [|split; [discriminate|split; constructor; assumption]].
    rewrite Hdb. destruct labs as [|x r]; [congruence|]. rewrite join_dots_cons2, <- !app_assoc. reflexivity.
Qed.

Lemma label_nonempty_cap hy deny label db he ap db' he' ap' : nodot label ->
  label_nonempty A cfg false hy deny label db he ap = SOk (db', he', ap') -> LabsOK db db'.
Proof.
  intros Hn. rewrite label_nonempty_eq. destruct (split_ascii_fast_path_prefix label) as [asc non_ascii] eqn:Es.
  pose proof (split_ascii_prefix _ _ _ Es) as Ha.
  assert (Hna : nodot asc).
  { rewrite (split_ascii_app _ _ _ Es) in Hn. exact (proj1 (proj1 (nodot_app _ _) Hn)). }
  pose proof (upper_asciiF deny asc Ha) as HaF. pose proof (map_upper_nodot deny asc Hna) as Hnu.
  assert (HF : forall na, complexF A cfg false hy deny db he ap asc na = SOk (db', he', ap') -> LabsOK db db').
  { intros na H. unfold complexF in H. rewrite scan_mark_fffd_id in H. cbn [sbind] in H.
    destruct (split1 DOT (map (apply_lower deny) (map_normalize A (utf8_lossy na)))) as [s rest] eqn:Esp.
    destruct (split1_nodot _ _ _ Esp) as [Hs Hr].
    destruct (split1_Forall is_usv DOT _ _ _ (lower_usv deny _ (usv_map A HU (utf8_lossy na))) Esp) as [Hus Hur].
    exact (sublabels_cap hy deny rest s db _ _ _ _ _ _ _ _ (proj1 (asciiF_capQ _ HaF)) Hus Hur Hnu Hs Hr H). }
  intros H. destruct non_ascii as [|na nr]; [|exact (HF _ H)].
  destruct (has_punycode_prefix asc).
  - destruct (negb match last_opt asc with Some l => l =? HYPHEN | None => false end
              && (len asc - 4 <=? PUNYCODE_DECODE_MAX_INPUT_LENGTH)); [|exact (HF _ H)].
    destruct (decode_with cfg U8Internal (skipn 4 asc)) as [decoded| |s]; [| |discriminate].
    + apply sbind_ok in H. destruct H as ([c1 h1] & H1 & H). apply sbind_ok in H. destruct H as ([c2 h2] & H2 & H).
      inversion H. subst. pose proof (apd_mark A deny decoded he) as HA. rewrite H1 in HA. destruct HA as [Hn1 _].
      pose proof (check_label_MK A cfg hy c1 h1 true true) as HM. rewrite H2 in HM.
      exists [c2]. repeat split; [discriminate|constructor; [exact (marked_nodot _ _ Hn1 (proj1 HM))|constructor]|].
      constructor; [exact (check_label_capQ _ _ _ _ _ _ _ (apd_usv _ _ _ _ _ H1) H2)|constructor].
    + inversion H. subst. exists [FFFD :: map (apply_upper deny) (tl asc)]. repeat split; [discriminate| |].
      * constructor; [|constructor]. constructor; [exact FFFD_not_dot|]. apply map_upper_nodot.
        destruct asc; [constructor|]. inversion Hna; assumption.
      * constructor; [|constructor]. apply asciiF_capQ. constructor; [right; reflexivity|]. apply upper_asciiF.
        destruct asc; [constructor|]. inversion Ha; assumption.
  - unfold complexT in H. rewrite scan_mark_fffd_id in H. cbn [sbind] in H.
    apply sbind_ok in H. destruct H as ([c2 h2] & H2 & H). inversion H. subst.
    assert (HM : marked (map (apply_upper deny) asc) c2).
    { destruct (negb (hy_is_allow hy)); [|inversion H2; apply marked_refl].
      pose proof (check_hyphens_MK (hy_is_cfl hy) (map (apply_upper deny) asc) (he || existsb is_fffd (map (apply_upper deny) asc))) as HM.
      rewrite H2 in HM. exact (proj1 HM). }
    exists [c2]. repeat split; [discriminate|constructor; [exact (marked_nodot _ _ Hnu HM)|constructor]|].
    constructor; [exact (asciiF_capQ _ (marked_asciiF _ _ HM HaF))|constructor].
Qed.

Definition CInv (s : ist) : Prop :=
  if i_inpre s then i_db s = []
  else i_seen s = true /\ exists dbl, dbl <> [] /\ i_db s = join_dots dbl /\ Forall nodot dbl /\ Forall capQ dbl.

Lemma nil_capQ : capQ [].
Proof. split; [constructor|left; reflexivity]. Qed.

Lemma label_step_CInv hy deny label s s' : nodot label -> CInv s ->
  label_step A cfg false hy deny label s = SOk s' -> CInv s'.
Proof.
  intros Hn HC H. unfold label_step in H. destruct (i_inpre s && is_passthrough_ascii_label label) eqn:Ec.
  - apply andb_true_iff in Ec. destruct Ec as [Ep _]. inversion H. subst s'. unfold CInv in *. cbn [i_inpre i_db]. rewrite Ep in HC. exact HC.
  - unfold CInv in HC. destruct (i_inpre s) eqn:Ep.
    + rewrite andb_false_r in H. rewrite HC in H. destruct label as [|b r]; [cbn in Ec; discriminate|].
      apply sbind_ok in H. destruct H as ([[db1 he1] ap1] & H1 & H). inversion H. subst s'.
      destruct (label_nonempty_cap _ _ _ _ _ _ _ _ _ Hn H1) as (labs & Hdb & Hne & Hnl & Hcl).
      unfold CInv. cbn [i_inpre i_seen i_db]. split; [reflexivity|]. exists labs. repeat split; assumption.
    + destruct HC as (Hs & dbl & Hne & Hdb & Hnd & Hcd). rewrite Hs in H. cbn [andb negb] in H.
      destruct label as [|b r].
      * inversion H. subst s'. unfold CInv. cbn [i_inpre i_seen i_db]. split; [reflexivity|]. exists (dbl ++ [[]]).
        split; [destruct dbl; discriminate|]. split; [rewrite join_dots_app by (try assumption; discriminate); rewrite Hdb; reflexivity|].
        split; [apply Forall_app; split; [exact Hnd|constructor; [constructor|constructor]]|apply Forall_app; split; [exact Hcd|constructor; [exact nil_capQ|constructor]]].
      * apply sbind_ok in H. destruct H as ([[db1 he1] ap1] & H1 & H). inversion H. subst s'.
        destruct (label_nonempty_cap _ _ _ _ _ _ _ _ _ Hn H1) as (labs & Hdb1 & Hne1 & Hnl & Hcl).
        unfold CInv. cbn [i_inpre i_seen i_db]. split; [reflexivity|]. exists (dbl ++ labs).
        split; [destruct dbl; [congruence|discriminate]|]. split; [rewrite join_dots_app by assumption; rewrite Hdb1, Hdb, <- app_assoc; reflexivity|].
        split; apply Forall_app; split; assumption.
Qed.

Lemma labels_loop_CInv hy deny labels : Forall nodot labels -> forall s s', CInv s ->
  labels_loop A cfg false hy deny labels s = SOk s' -> CInv s'.
Proof.
  induction labels as [|l r IH]; intros Hn s s' HC H; cbn [labels_loop] in H; [inversion H; subst; exact HC|].
  apply sbind_ok in H. destruct H as (s1 & H1 & H).
  exact (IH (Forall_inv_tail Hn) s1 s' (label_step_CInv hy deny l s s1 (Forall_inv Hn) HC H1) H).
Qed.

Lemma capQ_enc_ok l : capQ l -> enc_ok cfg l.
Proof.
  intros [Hu [H|[H|H]]]; [left; exact H|right; left; exact H|right; right].
  unfold PUNYCODE_ENCODE_MAX_INPUT_LENGTH in H. change T_IDNA_ENCODE_MAX with 1000 in H.
  destruct (internal_main cfg l Hu ltac:(unfold len in H; lia)) as [E1 E2]. rewrite E2 in E1. eexists. exact E1.
Qed.

Lemma process_innermost_enc hy deny d tail ptu bd he db ap :
  process_innermost A cfg false hy deny d tail = IRes ptu bd he db ap -> Forall (enc_ok cfg) (split_on DOT db).
Proof.
  unfold process_innermost.
  set (s0 := {| i_ptu := len d - len tail; i_seen := false; i_inpre := true; i_db := []; i_he := false; i_ap := [] |}).
  assert (HX : I_EXIT = IRes ptu bd he db ap -> Forall (enc_ok cfg) (split_on DOT db)).
  { intros H. inversion H. subst. constructor; [left; reflexivity|constructor]. }
  destruct (labels_loop A cfg false hy deny (split_on DOT tail) s0) as [s| |p] eqn:El; [|exact HX|discriminate].
  pose proof (labels_loop_CInv hy deny _ (split_on_nodot tail) s0 s eq_refl El) as HC. unfold CInv in HC.
  destruct (i_inpre s).
  - rewrite HC. cbn [is_bidi]. intros H. inversion H. subst. constructor; [left; reflexivity|constructor].
  - destruct HC as (_ & dbl & Hne & Hdb & Hnd & Hcd).
    destruct (is_bidi A cfg (i_db s)) as [[|]| |p]; try discriminate.
    + pose proof (bidi_labels_BLP A (split_on DOT (i_db s)) (i_he s)) as HB.
      destruct (bidi_labels A false (split_on DOT (i_db s)) (i_he s)) as [[ls he2]| |p]; [|exact HX|discriminate].
      intros H. inversion H. subst. cbn [BLP] in HB. destruct HB as [HM _].
      rewrite Hdb, (split_join dbl Hne Hnd) in HM.
      assert (Hls : ls <> []) by (intros ->; inversion HM; subst; congruence).
      rewrite (split_join ls Hls (marked_all_nodot _ _ Hnd HM)).
      clear -HM Hcd. induction HM as [|a b la lb Hab _ IH]; [constructor|]. inversion Hcd; subst.
      constructor; [apply capQ_enc_ok; exact (marked_capQ _ _ Hab ltac:(assumption))|apply IH; assumption].
    + intros H. inversion H. subst. rewrite Hdb, (split_join dbl Hne Hnd).
      eapply Forall_impl; [|exact Hcd]. exact capQ_enc_ok.
Qed.

Theorem enc_ok_inner hy deny d : EncOKInner A cfg hy deny d.
Proof.
  unfold EncOKInner, process_inner. destruct (fast_tier d d) as [tail|].
  - destruct (process_innermost A cfg false hy deny d tail) as [ptu bd he db ap|s] eqn:E; [|exact I].
    exact (process_innermost_enc _ _ _ _ _ _ _ _ _ E).
  - constructor; [left; reflexivity|constructor].
Qed.
End Enc.

(* ---- the entry points ---- *)
Theorem uts46_no_panic A cfg d deny hy dns p : C04_Uts46_Inner.AdapterNP A -> AdapterUSV A -> bytes d ->
  (forall site, to_ascii A cfg d deny hy dns <> Panic site) /\
  (Known_C11 A cfg d deny hy = false -> forall site, to_user_interface A cfg d deny hy p <> UIPanic site).
Proof.
  intros HN HU Hb. split.
  - exact (to_ascii_no_panic A cfg HN d deny hy dns Hb (enc_ok_inner A cfg HU hy deny d)).
  - intros HK. exact (to_ui_no_panic A cfg HN d deny hy p Hb (enc_ok_inner A cfg HU hy deny d) HK).
Qed.

Theorem uts46_process_no_panic A cfg ff p d deny hy w : C04_Uts46_Inner.AdapterNP A -> AdapterUSV A -> bytes d ->
  (ff = false -> Known_C11 A cfg d deny hy = false) ->
  status_fine (fst (fst (process A cfg ff p d deny hy None None w))).
Proof. intros HN HU Hb HK. exact (process_no_panic A cfg HN ff p d deny hy w Hb (enc_ok_inner A cfg HU hy deny d) HK). Qed.

(* a sanitising toy adapter: the toy adapter of Idna_Known with every non-scalar value and U+200F replaced by U+FFFD *)
Definition san (c : N) : N := if is_usvb c && negb (c =? 8207) then c else FFFD.
Definition toy_s : adapter :=
  {| map_normalize := map san; normalize_validate := map san;
     joining_type := fun _ => 0; bidi_class := toy_bc;
     is_mark := fun _ => false; is_virama := fun _ => false |}.
Lemma san_ok c : is_usv (san c) /\ C04_Uts46_Inner.okc (san c).
Proof.
  unfold san. destruct (is_usvb c && negb (c =? 8207)) eqn:E.
  - apply andb_true_iff in E. destruct E as [E1 E2]. apply is_usvb_spec in E1. split; [exact E1|].
    unfold C04_Uts46_Inner.okc, U32_MOD. unfold is_usv in E1. lia.
  - split; [exact usv_fffd|exact C04_Uts46_Inner.okc_fffd].
Qed.
Lemma toy_s_usv : AdapterUSV toy_s.
Proof. split; intros l; cbn [toy_s map_normalize normalize_validate]; apply Forall_forall; intros x Hx; apply in_map_iff in Hx; destruct Hx as (c & <- & _); exact (proj1 (san_ok c)). Qed.
Lemma toy_s_np : C04_Uts46_Inner.AdapterNP toy_s.
Proof. split; intros l; cbn [toy_s map_normalize normalize_validate]; apply Forall_forall; intros x Hx; apply in_map_iff in Hx; destruct Hx as (c & <- & _); exact (proj2 (san_ok c)). Qed.

(* the premise AdapterOK of the statement C04_no_panic_uts46_statement (Properties/C04.v) is NOT enough: the adapter
   that lower-cases ASCII letters and is the identity otherwise meets every field of AdapterOK, and the input U+200F
   fails debug_assert_ne!(c, RLM) in is_bidi (uts46.rs:1650) *)
Definition lowid : adapter :=
  {| map_normalize := map to_lower; normalize_validate := fun l => l;
     joining_type := fun _ => 0; bidi_class := toy_bc;
     is_mark := fun _ => false; is_virama := fun _ => false |}.
Lemma lowid_ok : AdapterOK lowid.
Proof.
  split; cbn [lowid map_normalize normalize_validate].
  - reflexivity.
  - intros l _. reflexivity.
  - intros l l' H. exact H.
  - intros l _ piece _. reflexivity.
  - intros l H1 H2. rewrite H1 in H2. discriminate.
Qed.
Lemma lowid_panics :
  Known_C11 lowid true [226; 128; 143] DENY_EMPTY HAllow = false /\
  to_ascii lowid true [226; 128; 143] DENY_EMPTY HAllow DIgnore = Panic 1650.
Proof. vm_compute. split; reflexivity. Qed.
