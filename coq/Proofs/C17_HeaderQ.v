(* Proofs/C17_HeaderQ.v - the header of a data: URL, byte level, when it contains '?': the part before
   the first '?' is in the URL's opaque path (C0-control percent-encode set), the '?' and what follows
   are in the URL's query (query percent-encode set: space, double quote, '<', '>' as well).  Outside K2
   (Model/KnownC17.v k17_query_space: after the '?', a space ending the header, or ';' SP+ "base64"
   ending it) parse_header still computes what steps 6, 11, 12 of the Fetch processor compute. *)
From RU Require Import Base.Prelude Base.Utf8 Model.AsciiSet Gen.Tables Model.PercentEncoding
  Model.Parser Model.Mime Model.Base64 Model.DataUrl Model.DataUrlTie Model.KnownC17
  Spec.Infra Spec.MimeSniff Spec.Fetch
  Proofs.C14_Enc Proofs.C02_Enc Proofs.C17_Tables Proofs.C17_Total Proofs.C17_Bridge Proofs.C17_Header.

Local Notation nt := C02_Enc.not_tnl.
Local Notation C := T_CONTROLS.
Local Notation Q := T_QUERY.

(* ---- the query set on bytes ---- *)
Lemma seq_sweep : all_below 256 (fun b => Bool.eqb (should_encode Q b)
  ((b <? 33) || (126 <? b) || (b =? 34) || (b =? 35) || (b =? 60) || (b =? 62))) = true.
Proof. vm_compute. reflexivity. Qed.

Lemma seq_spec b : b < 256 ->
  should_encode Q b = (b <? 33) || (126 <? b) || (b =? 34) || (b =? 35) || (b =? 60) || (b =? 62).
Proof. intros H. apply eqb_prop. exact (all_below_spec 256 _ seq_sweep b H). Qed.

Definition rencq (b : N) : list N := rev (enc1 Q b).
Definition RQ (y : list N) : list N := flat_map rencq y.

Lemma rev_encode_q x : rev (encode Q x) = RQ (rev x).
Proof. unfold encode, RQ. rewrite rev_flat_map. reflexivity. Qed.

Lemma rev_RQ y : rev (RQ y) = encode Q (rev y).
Proof. rewrite <- (rev_involutive y) at 1. rewrite <- rev_encode_q, rev_involutive. reflexivity. Qed.

Lemma RQ_cons b y : RQ (b :: y) = rencq b ++ RQ y.
Proof. reflexivity. Qed.

Lemma rencq_plain b : should_encode Q b = false -> rencq b = [b].
Proof. intros E. unfold rencq, enc1. rewrite E. reflexivity. Qed.

Lemma rencq_enc b : should_encode Q b = true -> rencq b = [hex_upper (b mod 16); hex_upper (b / 16); 37].
Proof. intros E. unfold rencq, enc1. rewrite E. reflexivity. Qed.

(* ---- list facts ---- *)
Lemma dw_app_stop (f : N -> bool) a c0 q : f c0 = false ->
  drop_while f (a ++ c0 :: q) = drop_while f a ++ c0 :: q.
Proof.
  intros Hc. induction a as [|c a IH]; cbn [app drop_while]; [rewrite Hc; reflexivity|].
  destruct (f c); [exact IH|reflexivity].
Qed.

Lemma after_qmark_first a q : ~ In 63 a -> k17_after_qmark (a ++ 63 :: q) = Some q.
Proof.
  induction a as [|c a IH]; intros Hn; [reflexivity|]. cbn [app k17_after_qmark].
  destruct (c =? 63) eqn:E; [apply N.eqb_eq in E; exfalso; apply Hn; left; exact E|].
  apply IH. intros Hin. apply Hn. right. exact Hin.
Qed.

(* ---- step B with a '?' ---- *)
Lemma slw_encode_stop a w : bytes a ->
  strip_leading_ws (encode C a ++ 63 :: w) = encode C (drop_while sp a) ++ 63 :: w.
Proof.
  induction a as [|c r IH]; intros Hb; [reflexivity|]. inversion Hb as [|? ? Hc Hr]; subst. unfold is_byte in Hc.
  rewrite encode_cons. unfold enc1. cbn [drop_while]. unfold sp. pose proof (se_spec c Hc) as Hs.
  destruct (should_encode C c) eqn:E.
  - replace (c =? 32) with false by lia. rewrite encode_cons. unfold enc1. rewrite E. reflexivity.
  - cbn [app strip_leading_ws]. unfold is_ascii_whitespace.
    destruct (c =? 32) eqn:E32.
    + rewrite !orb_true_r. exact (IH Hr).
    + replace ((c =? 9) || (c =? 10) || (c =? 12) || (c =? 13) || false) with false by lia.
      rewrite encode_cons. unfold enc1. rewrite E. reflexivity.
Qed.

Lemma slw_RQ_id y w : bytes y -> match y with c :: _ => (c =? 32) = false | [] => True end ->
  strip_leading_ws (RQ y ++ 63 :: w) = RQ y ++ 63 :: w.
Proof.
  intros Hb Hh. destruct y as [|c y]; [reflexivity|]. inversion Hb as [|? ? Hc Hr]; subst. unfold is_byte in Hc.
  rewrite RQ_cons. pose proof (seq_spec c Hc) as Hs. destruct (should_encode Q c) eqn:E.
  - rewrite (rencq_enc c E). cbn [app strip_leading_ws]. unfold is_ascii_whitespace.
    assert (Hm : c mod 16 < 16) by lia. pose proof (hex_rng _ Hm) as Hx.
    replace ((hex_upper (c mod 16) =? 9) || (hex_upper (c mod 16) =? 10) || (hex_upper (c mod 16) =? 12)
             || (hex_upper (c mod 16) =? 13) || (hex_upper (c mod 16) =? 32)) with false by lia.
    reflexivity.
  - rewrite (rencq_plain c E). cbn [app strip_leading_ws]. unfold is_ascii_whitespace.
    replace ((c =? 9) || (c =? 10) || (c =? 12) || (c =? 13) || (c =? 32)) with false by lia. reflexivity.
Qed.

Lemma strip_ws_q a q : bytes a -> bytes q ->
  match rev q with c :: _ => (c =? 32) = false | [] => True end ->
  strip_leading_and_trailing_ascii_whitespace (encode C a ++ 63 :: encode Q q)
  = encode C (drop_while sp a) ++ 63 :: encode Q q.
Proof.
  intros Ha Hq Hl. unfold strip_leading_and_trailing_ascii_whitespace.
  rewrite slw_encode_stop by exact Ha.
  rewrite rev_app_distr. cbn [rev]. rewrite <- app_assoc. cbn [app]. rewrite rev_encode_q.
  rewrite slw_RQ_id by (try apply bytes_rev; assumption).
  rewrite <- rev_encode_q. change (rev (encode Q q) ++ 63 :: rev (encode C (drop_while sp a)))
    with (rev (encode Q q) ++ [63] ++ rev (encode C (drop_while sp a))).
  rewrite app_assoc. change (rev (encode Q q) ++ [63]) with (rev (63 :: encode Q q)).
  rewrite <- rev_app_distr, rev_involutive. reflexivity.
Qed.

(* ---- step C with a '?' ---- *)
Definition lit_an (l : N) : Prop := (48 <= l /\ l <= 57) \/ (97 <= l /\ l <= 122).

Lemma lit_an_ok lit : Forall lit_an lit -> Forall lit_ok lit.
Proof. intros H. rewrite Forall_forall in *. intros l Hl. specialize (H l Hl). unfold lit_an in H. unfold lit_ok. lia. Qed.

Lemma b64_lits_an : Forall lit_an base64_reversed.
Proof. unfold base64_reversed, lit_an. repeat constructor; lia. Qed.

Lemma sc_app_stop lit : Forall lit_an lit -> forall y t,
  strip_prefix_ci lit (y ++ 63 :: t) = option_map (fun r => r ++ 63 :: t) (strip_prefix_ci lit y).
Proof.
  induction lit as [|l lit IH]; intros Hl y t; [reflexivity|].
  inversion Hl as [|? ? Hl1 Hl2]; subst. unfold lit_an in Hl1.
  destruct y as [|c y].
  - cbn [app strip_prefix_ci option_map]. change (to_lower 63) with 63. replace (63 =? l) with false by lia. reflexivity.
  - cbn [app strip_prefix_ci]. destruct (to_lower c =? l); [exact (IH Hl2 y t)|reflexivity].
Qed.

Lemma marker_tail_app_stop r t :
  marker_tail (r ++ 63 :: t) = option_map (fun r' => r' ++ 63 :: t) (marker_tail r).
Proof.
  unfold marker_tail. induction r as [|c r IH]; [reflexivity|]. cbn [app drop_spaces].
  destruct (c =? 32); [exact IH|]. destruct (c =? 59); reflexivity.
Qed.

Lemma marker_rev_app_stop y t :
  marker_rev (y ++ 63 :: t) = option_map (fun r => r ++ 63 :: t) (marker_rev y).
Proof.
  unfold marker_rev. rewrite (sc_app_stop _ b64_lits_an).
  destruct (strip_prefix_ci base64_reversed y) as [r|]; cbn [option_map]; [apply marker_tail_app_stop|reflexivity].
Qed.

Lemma strip_ci_RQ lit : Forall lit_an lit -> forall y t, bytes y ->
  match strip_prefix_ci lit y with
  | Some r => strip_prefix_ci lit (RQ y ++ 63 :: t) = Some (RQ r ++ 63 :: t)
  | None => match strip_prefix_ci lit (RQ y ++ 63 :: t) with Some r => marker_tail r = None | None => True end
  end.
Proof.
  induction lit as [|l lit IH]; intros Hl y t Hb; [reflexivity|].
  inversion Hl as [|? ? Hl1 Hl2]; subst. unfold lit_an in Hl1.
  destruct y as [|c y].
  { cbn [strip_prefix_ci RQ flat_map app]. change (to_lower 63) with 63. replace (63 =? l) with false by lia. exact I. }
  inversion Hb as [|? ? Hc Hr]; subst. unfold is_byte in Hc.
  rewrite RQ_cons. pose proof (seq_spec c Hc) as Hs. destruct (should_encode Q c) eqn:E.
  - cbn [strip_prefix_ci].
    assert (Hlow : to_lower c = c).
    { unfold to_lower, is_upper. replace ((65 <=? c) && (c <=? 90)) with false by lia. reflexivity. }
    rewrite Hlow. replace (c =? l) with false by lia.
    rewrite (rencq_enc c E). cbn [app strip_prefix_ci].
    assert (Hm : c mod 16 < 16) by lia. pose proof (hex_rng _ Hm) as Hh.
    assert (Hd : c / 16 < 16) by lia. pose proof (hex_rng _ Hd) as Hh2.
    destruct (to_lower (hex_upper (c mod 16)) =? l); [|exact I].
    destruct lit as [|l2 lit].
    { cbn [strip_prefix_ci]. unfold marker_tail. cbn [drop_spaces].
      replace (hex_upper (c / 16) =? 32) with false by lia. replace (hex_upper (c / 16) =? 59) with false by lia.
      reflexivity. }
    cbn [strip_prefix_ci]. destruct (to_lower (hex_upper (c / 16)) =? l2); [|exact I].
    destruct lit as [|l3 lit].
    { cbn [strip_prefix_ci]. unfold marker_tail. cbn [drop_spaces]. reflexivity. }
    cbn [strip_prefix_ci]. inversion Hl2 as [|? ? _ Hl3]; subst. inversion Hl3 as [|? ? Hl4 _]; subst.
    unfold lit_an in Hl4. change (to_lower 37) with 37. replace (37 =? l3) with false by lia. exact I.
  - rewrite (rencq_plain c E). cbn [app strip_prefix_ci]. destruct (to_lower c =? l); [|exact I].
    exact (IH Hl2 y t Hr).
Qed.

Lemma marker_tail_RQ r t : bytes r ->
  match r with
  | c :: r1 => (c =? 32) && match drop_spaces r1 with d :: _ => d =? 59 | [] => false end = false
  | [] => True
  end ->
  marker_tail (RQ r ++ 63 :: t) = option_map (fun r' => RQ r' ++ 63 :: t) (marker_tail r).
Proof.
  intros Hb Hk. destruct r as [|c r1]; [reflexivity|]. inversion Hb as [|? ? Hc Hr]; subst. unfold is_byte in Hc.
  rewrite RQ_cons. pose proof (seq_spec c Hc) as Hs. unfold marker_tail. destruct (should_encode Q c) eqn:E.
  - rewrite (rencq_enc c E). cbn [app drop_spaces].
    assert (Hm : c mod 16 < 16) by lia. pose proof (hex_rng _ Hm) as Hh.
    replace (hex_upper (c mod 16) =? 32) with false by lia. replace (hex_upper (c mod 16) =? 59) with false by lia.
    destruct (c =? 32) eqn:E32.
    + cbn [andb] in Hk. destruct (drop_spaces r1) as [|d r']; [reflexivity|]. rewrite Hk. reflexivity.
    + replace (c =? 59) with false by lia. reflexivity.
  - rewrite (rencq_plain c E). cbn [app drop_spaces]. replace (c =? 32) with false by lia.
    destruct (c =? 59); reflexivity.
Qed.

Lemma k17_strip_same lit : forall y, k17_strip_ci lit y = strip_prefix_ci lit y.
Proof.
  induction lit as [|l lit IH]; intros y; [reflexivity|]. destruct y as [|c y]; [reflexivity|].
  cbn [k17_strip_ci strip_prefix_ci]. rewrite IH. reflexivity.
Qed.

Lemma k17_drop_same r : k17_drop (fun x => x =? 32) r = drop_spaces r.
Proof. induction r as [|c r IH]; [reflexivity|]. cbn [k17_drop drop_spaces]. rewrite IH. reflexivity. Qed.

Lemma marker_rev_RQ y t : bytes y -> k17_spaced_base64 y = false ->
  marker_rev (RQ y ++ 63 :: t) = option_map (fun r => RQ r ++ 63 :: t) (marker_rev y).
Proof.
  intros Hb Hk. unfold marker_rev. pose proof (strip_ci_RQ base64_reversed b64_lits_an y t Hb) as H.
  unfold k17_spaced_base64 in Hk. rewrite k17_strip_same in Hk. change [52; 54; 101; 115; 97; 98] with base64_reversed in Hk.
  destruct (strip_prefix_ci base64_reversed y) as [r|] eqn:E.
  - rewrite H. apply marker_tail_RQ.
    + destruct (strip_ci_suffix _ _ _ E) as [p ->]. apply bytes_app in Hb. tauto.
    + destruct r as [|c r1]; [exact I|]. rewrite k17_drop_same in Hk. exact Hk.
  - destruct (strip_prefix_ci base64_reversed (RQ y ++ 63 :: t)) as [r|]; [exact H|reflexivity].
Qed.

(* ---- step D with a '?' ---- *)
Lemma header_loop_true t : bytes t -> ~ In 35 t -> header_loop true t = encode Q (filter nt t).
Proof.
  induction t as [|b t IH]; intros Hb Hq; [reflexivity|]. inversion Hb as [|? ? Hb1 Hb2]; subst. unfold is_byte in Hb1.
  assert (Hq' : ~ In 35 t) by (intros Hin; apply Hq; right; exact Hin).
  assert (Hb35 : (b =? 35) = false) by (destruct (b =? 35) eqn:E; [apply N.eqb_eq in E; exfalso; apply Hq; left; exact E|reflexivity]).
  cbn [header_loop filter]. rewrite is_skipped_spec. unfold C02_Enc.not_tnl. change (is_tnl b) with (tnl b).
  destruct (tnl b); cbn [negb]; [exact (IH Hb2 Hq')|].
  rewrite encode_cons. unfold enc1. pose proof (hdr_qenc_is_query b Hb1) as Hs. rewrite Hb35 in Hs. cbn [negb] in Hs.
  rewrite andb_true_r in Hs. rewrite andb_true_r.
  destruct (in_ranges b T_DU_HDR_ENC); cbn [orb] in Hs.
  - rewrite <- Hs, percent_encode_spec by exact Hb1. rewrite (IH Hb2 Hq'). reflexivity.
  - rewrite <- Hs. destruct (memb b T_DU_HDR_QENC).
    + rewrite percent_encode_spec by exact Hb1. rewrite (IH Hb2 Hq'). reflexivity.
    + change T_DU_HDR_QMARK with 63. destruct (b =? 63) eqn:E63; rewrite (IH Hb2 Hq'); [|reflexivity].
      apply N.eqb_eq in E63. subst b. reflexivity.
Qed.

Lemma header_loop_q t : bytes t -> ~ In 35 t -> forall a q, filter nt t = a ++ 63 :: q -> ~ In 63 a ->
  header_loop false t = encode C a ++ 63 :: encode Q q.
Proof.
  induction t as [|b t IH]; intros Hb Hq a q Hf Ha; [destruct a; discriminate|].
  inversion Hb as [|? ? Hb1 Hb2]; subst. unfold is_byte in Hb1.
  assert (Hq' : ~ In 35 t) by (intros Hin; apply Hq; right; exact Hin).
  cbn [header_loop]. cbn [filter] in Hf. rewrite is_skipped_spec. unfold C02_Enc.not_tnl in Hf. change (is_tnl b) with (tnl b) in Hf.
  destruct (tnl b) eqn:Et; cbn [negb] in Hf; [exact (IH Hb2 Hq' a q Hf Ha)|].
  destruct a as [|a0 a1]; cbn [app] in Hf; inversion Hf as [[E1 E2]]; subst.
  - (* the '?' *)
    change (in_ranges 63 T_DU_HDR_ENC) with false. change (memb 63 T_DU_HDR_QENC && false) with false.
    change (63 =? T_DU_HDR_QMARK) with true. cbn [encode flat_map app]. f_equal.
    fold (filter nt t). apply header_loop_true; assumption.
  - assert (Hb63 : (a0 =? 63) = false) by (destruct (a0 =? 63) eqn:E; [apply N.eqb_eq in E; exfalso; apply Ha; left; exact E|reflexivity]).
    assert (Ha' : ~ In 63 a1) by (intros Hin; apply Ha; right; exact Hin).
    rewrite encode_cons. unfold enc1. rewrite hdr_enc_is_controls by exact Hb1.
    destruct (should_encode C a0).
    + rewrite percent_encode_spec by exact Hb1. rewrite <- app_assoc. f_equal. exact (IH Hb2 Hq' a1 q E2 Ha').
    + rewrite andb_false_r. change T_DU_HDR_QMARK with 63. rewrite Hb63. cbn [app]. f_equal. exact (IH Hb2 Hq' a1 q E2 Ha').
Qed.

(* ---- step E with a '?' ---- *)
Lemma step12_q a w : bytes a ->
  fetch_step12 (encode C a ++ 63 :: w)
  = (if starts_with_byte 59 (a ++ [63]) then text_plain else []) ++ encode C a ++ 63 :: w.
Proof.
  intros Hb. destruct a as [|b a]; [reflexivity|]. inversion Hb as [|? ? Hb1 Hb2]; subst. unfold is_byte in Hb1.
  cbn [app starts_with_byte]. rewrite encode_cons. unfold enc1. pose proof (se_spec b Hb1) as Hs.
  destruct (should_encode C b).
  - unfold enc_byte_spec. cbn [app fetch_step12]. change (37 =? 59) with false. replace (b =? 59) with false by lia.
    reflexivity.
  - cbn [app fetch_step12]. destruct (b =? 59); reflexivity.
Qed.

Lemma starts_filter t : match t with b :: _ => tnl b = false | [] => True end ->
  starts_with_byte 59 t = starts_with_byte 59 (filter nt t).
Proof.
  destruct t as [|b t]; [reflexivity|]. intros Hh. cbn [filter]. unfold C02_Enc.not_tnl. change (is_tnl b) with (tnl b).
  rewrite Hh. reflexivity.
Qed.

Lemma starts_app a q : starts_with_byte 59 (a ++ 63 :: q) = starts_with_byte 59 (a ++ [63]).
Proof. destruct a; reflexivity. Qed.

(* ---- the header theorem with a '?', byte level ---- *)
Theorem header_bytes_q h a q : bytes h -> ~ In 35 h ->
  filter nt h = a ++ 63 :: q -> ~ In 63 a ->
  k17_query_space (filter nt h) = false ->
  header_of h = fetch_header (encode C a ++ 63 :: encode Q q).
Proof.
  intros Hb H35 Hx Ha Hk.
  assert (Hbx : bytes (a ++ 63 :: q)).
  { rewrite <- Hx. unfold bytes in *. rewrite Forall_forall in *. intros x Hin. apply filter_In in Hin. apply Hb. tauto. }
  apply bytes_app in Hbx. destruct Hbx as [Hba Hbq]. inversion Hbq as [|? ? _ Hbq']; subst. clear Hbq. rename Hbq' into Hbq.
  (* outside K2 *)
  unfold k17_query_space in Hk. rewrite Hx, after_qmark_first in Hk by exact Ha.
  assert (NKa : match rev q with c :: _ => (c =? 32) = false | [] => True end).
  { destruct (rev q) as [|c y]; [exact I|]. apply orb_false_iff in Hk. tauto. }
  assert (NKb : k17_spaced_base64 (rev q) = false).
  { destruct (rev q) as [|c y]; [reflexivity|]. apply orb_false_iff in Hk. tauto. }
  clear Hk.
  (* the trimmed header without tab / newline *)
  set (a' := drop_while sp a).
  assert (Hba' : bytes a') by (apply bytes_drop_while; exact Hba).
  assert (Ha' : ~ In 63 a').
  { destruct (drop_while_suffix sp a) as [p Hp]. intros Hin. apply Ha. rewrite Hp. apply in_or_app. right. exact Hin. }
  assert (Ht : filter nt (trimmed_header h) = a' ++ 63 :: q).
  { unfold trimmed_header. rewrite filter_trim_ht, Hx. rewrite dw_app_stop by reflexivity. fold a'.
    apply drop_while_end_id. rewrite rev_app_distr. cbn [rev]. rewrite <- app_assoc. cbn [app].
    destruct (rev q) as [|c y]; [reflexivity|]. exact NKa. }
  destruct (trimmed_sub h) as (p0 & q0 & Hsub).
  assert (Hbt : bytes (trimmed_header h)).
  { rewrite Hsub in Hb. apply bytes_app in Hb. destruct Hb as [_ Hb]. apply bytes_app in Hb. tauto. }
  assert (H35t : ~ In 35 (trimmed_header h)).
  { rewrite Hsub in H35. intros Hin. apply H35. apply in_or_app. right. apply in_or_app. left. exact Hin. }
  (* the Fetch side *)
  unfold header_of, fetch_header.
  rewrite strip_ws_q by assumption. fold a'.
  rewrite ewbm_rev. rewrite rev_app_distr. cbn [rev]. rewrite <- app_assoc. cbn [app]. rewrite rev_encode_q.
  rewrite marker_rev_RQ by (try apply bytes_rev; assumption).
  (* the crate side *)
  pose proof (crate_rev_marker (rev (trimmed_header h))) as Hcm.
  rewrite filter_rev', Ht, rev_app_distr in Hcm. cbn [rev] in Hcm. rewrite <- app_assoc in Hcm. cbn [app] in Hcm.
  rewrite marker_rev_app_stop in Hcm.
  destruct (crate_rev (rev (trimmed_header h))) as [bs|] eqn:Ec; cbn [option_map] in Hcm.
  - destruct (marker_rev (rev q)) as [y'|] eqn:Em; [|discriminate]. cbn [option_map] in Hcm. inversion Hcm as [Hbs]. clear Hcm.
    cbn [option_map]. f_equal.
    destruct (crate_rev_suffix _ _ Ec) as [pp Hpp].
    assert (Et : trimmed_header h = rev bs ++ rev pp) by (rewrite <- rev_app_distr, <- Hpp, rev_involutive; reflexivity).
    assert (Hbb : bytes (rev bs)) by (rewrite Et in Hbt; apply bytes_app in Hbt; tauto).
    assert (H35b : ~ In 35 (rev bs)) by (rewrite Et in H35t; exact (notin_prefix _ _ _ H35t)).
    assert (Hfb : filter nt (rev bs) = a' ++ 63 :: rev y').
    { rewrite filter_rev', <- Hbs, rev_app_distr. cbn [rev]. rewrite <- app_assoc, rev_involutive. reflexivity. }
    unfold header_string. rewrite (header_loop_q _ Hbb H35b a' (rev y') Hfb Ha').
    rewrite rev_app_distr. cbn [rev]. rewrite <- app_assoc. cbn [app]. rewrite rev_RQ, rev_involutive.
    rewrite step12_q by exact Hba'. f_equal.
    rewrite starts_filter, Hfb, starts_app; [reflexivity|].
    apply (prefix_head _ (rev pp) _ (fun b => tnl b = false) Et). exact (trimmed_head h).
  - destruct (marker_rev (rev q)) as [y'|] eqn:Em; [discriminate|]. cbn [option_map]. f_equal.
    unfold header_string. rewrite (header_loop_q _ Hbt H35t a' q Ht Ha').
    rewrite step12_q by exact Hba'. f_equal.
    rewrite starts_filter, Ht, starts_app; [reflexivity|]. exact (trimmed_head h).
Qed.
