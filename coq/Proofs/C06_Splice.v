(* Proofs/C06_Splice.v - WHOLE-URL parser agreement, part 1: the "front" of each canonical form.
   For every canonical record of C02 (opaque path / '/'-led path without authority / authority with a
   non-special scheme / authority with a special non-file scheme) the parser, run on the text of the record in
   front of the query followed by ANY text R that is empty-or-'?'/'#'-led, is the query-and-fragment state run on
   R behind that front.  With the state-level identities for a raw query / raw fragment this gives
   parse_url (old serialization with the argument spliced in) = POk (the record the setter returns). *)
From RU Require Import Base.Prelude Base.Utf8 Base.Utf8Facts Model.AsciiSet Gen.Tables
  Model.PercentEncoding Model.HostT Model.UrlRecord Model.Parser Model.Setters Model.WF
  Proofs.ListN Proofs.C14_Set Proofs.C14_Enc Proofs.C14_Views Proofs.C02_Enc Proofs.C02_Parts
  Proofs.C02_Opaque Proofs.C02_Path Proofs.C02_PathL1 Proofs.C02_Reach Proofs.C16_RT Proofs.C02_AuthParts
  Proofs.C02_Auth Proofs.C02_AuthWf Proofs.C02_PathSp Proofs.C02_AuthSp Proofs.C02_AuthMain Proofs.C02_SetQF
  Proofs.C02_Canon Proofs.C06_List Proofs.C06_AgreeUrl.
Open Scope N_scope.
Open Scope list_scope.

Ltac llia := unfold nlen in *; repeat (progress (rewrite ?app_length in *; cbn [length app] in *)); lia.

(* ---------- small facts ---------- *)
Lemma first_ok_rev_app2 (a b : list N) : b <> [] -> first_ok (rev b) -> first_ok (rev (a ++ b)).
Proof.
  intros Hn H. rewrite rev_app_distr. destruct (rev b) as [|c r] eqn:E.
  - exfalso. apply Hn. rewrite <- (rev_involutive b), E. reflexivity.
  - exact H.
Qed.

Lemma scheme_first_ok sch X : scheme_canon sch = true -> first_ok (sch ++ X).
Proof.
  unfold scheme_canon. destruct sch as [|c s]; [discriminate|]. intros H. apply andb_true_iff in H. destruct H as [Hl _].
  cbn [app first_ok]. unfold is_lower, is_c0_or_space in *. lia.
Qed.

Lemma qh_ok_head R : qh_ok R -> match R with [] => True | c :: _ => is_qh c = true /\ is_tnl c = false end.
Proof. exact (fun H => H). Qed.

Lemma query_chars_drop stop l : query_chars stop (drop_while is_tnl l) = query_chars stop l.
Proof.
  induction l as [|c r IH]; [reflexivity|]. cbn [drop_while query_chars]. destruct (is_tnl c) eqn:E; [exact IH|].
  cbn [query_chars]. rewrite E. reflexivity.
Qed.

Lemma query_chars_false l : query_chars false l = filter not_tnl l.
Proof.
  induction l as [|c r IH]; [reflexivity|]. cbn [query_chars filter]. unfold not_tnl at 1.
  destruct (is_tnl c); cbn [negb]; [exact IH|]. rewrite andb_false_r, IH. reflexivity.
Qed.

Lemma filter_drop_tnl l : filter not_tnl (drop_while is_tnl l) = filter not_tnl l.
Proof.
  induction l as [|c r IH]; [reflexivity|]. cbn [drop_while].
  destruct (is_tnl c) eqn:E; [|reflexivity]. cbn [filter]. unfold not_tnl at 2. rewrite E. exact IH.
Qed.

Lemma filter_rev_tnl l : filter not_tnl (rev l) = rev (filter not_tnl l).
Proof.
  induction l as [|c r IH]; [reflexivity|]. cbn [rev filter]. rewrite filter_app, IH. cbn [filter].
  destruct (not_tnl c); [reflexivity | apply app_nil_r].
Qed.

Lemma query_chars_trim l : query_chars false (input_new_trim_tnl l) = query_chars false l.
Proof.
  rewrite !query_chars_false. unfold input_new_trim_tnl, trim_matches.
  rewrite filter_rev_tnl, filter_drop_tnl, filter_rev_tnl, rev_involutive. apply filter_drop_tnl.
Qed.

Lemma ewb_snoc (x : list N) b : ends_with_byte b (x ++ [b]) = true.
Proof. unfold ends_with_byte. rewrite rev_app_distr. cbn [rev app]. apply N.eqb_refl. Qed.

Definition no_hash (x : list N) : bool := forallb (fun c => negb (c =? 35)) x.

(* a '#'-free text in front of a '#' (or of nothing): the query state of the parser reads what the setter's reads *)
Lemma query_chars_stop x : no_hash x = true ->
  (query_chars true x = query_chars false x /\ query_rest true x = None)
  /\ (forall y, query_chars true (x ++ 35 :: y) = query_chars false x /\ query_rest true (x ++ 35 :: y) = Some y).
Proof.
  induction x as [|c x IH]; intros H.
  - split; [split; reflexivity|]. intros y. cbn [app query_chars query_rest].
    replace (is_tnl 35) with false by reflexivity. replace ((35 =? 35) && true) with true by reflexivity. split; reflexivity.
  - cbn [no_hash forallb] in H. apply andb_true_iff in H. destruct H as [H1 H2]. apply negb_true_iff in H1.
    destruct (IH H2) as [[I1 I2] I3].
    split; [split | intros y; destruct (I3 y) as [J1 J2]; split]; cbn [app query_chars query_rest];
      destruct (is_tnl c); try assumption; rewrite H1; cbn [andb]; congruence.
Qed.

(* ---------- the query-and-fragment state on: canonical query ++ raw fragment, raw query ++ canonical fragment ---------- *)
Section PQF.
Variable st : scheme_type.
Variable se : N.

Theorem pqf_canon_raw_f pre q x : usv_list x -> opt_clean (query_set st) q ->
  nlen (pre ++ qf_text q (Some (frag_of x))) <= U32_MAX_P ->
  parse_query_and_fragment None CUrlParser st se pre (qf_qtext q ++ 35 :: x)
  = POk (pre ++ qf_text q (Some (frag_of x)), qf_qs (nlen pre) q, qf_fs (nlen pre) q (Some (frag_of x))).
Proof.
  intros Hx Hq Hb. unfold parse_query_and_fragment, qf_text in *.
  destruct q as [t|]; cbn [qf_qtext qf_ftext qf_qs qf_fs opt_clean app] in *.
  - rewrite inp_next_cons by reflexivity.
    replace (63 =? 35) with false by reflexivity. replace (63 =? 63) with true by reflexivity.
    rewrite to_u32_ok by (rewrite nlen_app in Hb; lia). cbn [pbind].
    assert (usv_list (t ++ 35 :: x)) as Hu.
    { apply usv_app. split; [apply ascii_usv; apply (clean_ascii (query_set st)); exact Hq|].
      apply usv_cons. split; [unfold is_usv; lia | exact Hx]. }
    unfold parse_query. cbn [query_enc ctx_eqb].
    rewrite parse_query_loop_spec by (try constructor; exact Hu). cbn [rev app].
    fold (query_of st (t ++ 35 :: x)).
    destruct (query_of_canon st t Hq) as (_ & _ & Hc). destruct (Hc x) as [C1 C2]. rewrite C1, C2.
    assert (nlen ((pre ++ [63]) ++ t) = nlen pre + nlen (63 :: t)) as El by (clear; llia).
    rewrite El. rewrite to_u32_ok by (clear - Hb; llia).
    cbn [pbind]. rewrite parse_fragment_spec by exact Hx. rewrite <- !app_assoc. reflexivity.
  - rewrite inp_next_cons by reflexivity. replace (35 =? 35) with true by reflexivity.
    rewrite N.add_0_r. rewrite to_u32_ok by (rewrite nlen_app in Hb; lia). cbn [pbind].
    rewrite parse_fragment_spec by exact Hx. rewrite <- !app_assoc. reflexivity.
Qed.

Theorem pqf_raw_q_canon pre x f : usv_list x -> no_hash x = true -> opt_clean T_FRAGMENT f ->
  nlen (pre ++ qf_text (Some (squery_of st x)) f) <= U32_MAX_P ->
  parse_query_and_fragment None CUrlParser st se pre (63 :: x ++ qf_ftext f)
  = POk (pre ++ qf_text (Some (squery_of st x)) f, qf_qs (nlen pre) (Some (squery_of st x)),
         qf_fs (nlen pre) (Some (squery_of st x)) f).
Proof.
  intros Hx Hh Hf Hb. unfold parse_query_and_fragment, qf_text in *. cbn [qf_qtext qf_qs] in *.
  rewrite inp_next_cons by reflexivity.
  replace (63 =? 35) with false by reflexivity. replace (63 =? 63) with true by reflexivity.
  rewrite to_u32_ok by (rewrite nlen_app in Hb; lia). cbn [pbind].
  destruct (query_chars_stop x Hh) as [[S1 S2] S3].
  unfold parse_query. cbn [query_enc ctx_eqb].
  destruct f as [y|]; cbn [qf_ftext qf_fs opt_clean] in *.
  - assert (usv_list y) as Hy by (apply ascii_usv; apply (clean_ascii T_FRAGMENT); exact Hf).
    assert (usv_list (x ++ 35 :: y)) as Hu.
    { apply usv_app. split; [exact Hx|]. apply usv_cons. split; [unfold is_usv; lia | exact Hy]. }
    rewrite parse_query_loop_spec by (try constructor; exact Hu). cbn [rev app].
    destruct (S3 y) as [C1 C2]. rewrite C1, C2. rewrite <- (query_chars_trim x). fold (squery_of st x).
    assert (nlen ((pre ++ [63]) ++ squery_of st x) = nlen pre + nlen (63 :: squery_of st x)) as El by (clear; llia).
    rewrite El. rewrite to_u32_ok by (clear - Hb; llia).
    cbn [pbind]. rewrite parse_fragment_spec by exact Hy. rewrite frag_of_canon by exact Hf.
    rewrite <- !app_assoc. reflexivity.
  - rewrite app_nil_r. rewrite parse_query_loop_spec by (try constructor; exact Hx). cbn [rev app].
    rewrite S1, S2. rewrite <- (query_chars_trim x). fold (squery_of st x).
    rewrite app_nil_r. rewrite <- !app_assoc. reflexivity.
Qed.
End PQF.

(* ---------- the front of the four canonical forms ---------- *)
Section Front.
Variable dbg : bool.
Variable hp hpo : list N -> result host.
Variable hd : host -> list N.
Hypothesis HRT : HostRT hp hpo hd.

(* parse_url on  pre ++ R : if the query-and-fragment state on R behind pre writes the canonical texts q, f,
   the parser returns the record of this shape with q, f *)
Definition qf_front (pre : list N) (st : scheme_type) (se ue hs he : N) (hi : host_internal) (pt : option N) (ps : N) : Prop :=
  forall R q f, qh_ok R -> R <> [] -> usv_list R -> first_ok (rev R) ->
    parse_query_and_fragment None CUrlParser st se pre R
      = POk (pre ++ qf_text q f, qf_qs (nlen pre) q, qf_fs (nlen pre) q f) ->
    parse_url dbg hp hpo hd None None (pre ++ R) = POk (qf_url pre se ue hs he hi pt ps q f).

Lemma front_opaque sch P q f : opaque_ok sch P q f ->
  qf_front (opaque_pre sch P) STNotSpecial (nlen sch) (nlen (sch ++ [58])) (nlen (sch ++ [58])) (nlen (sch ++ [58]))
           HI_None None (nlen (sch ++ [58])).
Proof.
  intros K R q' f' HR Hne Hu Hl Hpqf. destruct K as [Ksch Kns KP KPq KPh Kq Kf Klast Kb1 Kbq Kbf].
  assert (edge_ok (opaque_pre sch P ++ R)) as He.
  { split; [unfold opaque_pre; rewrite <- !app_assoc; apply scheme_first_ok; exact Ksch | apply first_ok_rev_app2; assumption]. }
  unfold parse_url. rewrite trim_c0_id by exact He.
  replace (opaque_pre sch P ++ R) with (sch ++ 58 :: P ++ R) by (unfold opaque_pre; rewrite <- !app_assoc; reflexivity).
  rewrite parse_scheme_canon by exact Ksch.
  unfold parse_with_scheme. rewrite Kns.
  assert (nlen sch <= U32_MAX_P) as Hb0 by (rewrite nlen_app in Kb1; lia).
  rewrite to_u32_ok by exact Hb0. cbn [pbind].
  assert (usv_list (P ++ R)) as HuPR.
  { apply usv_app. split; [apply ascii_usv; apply (clean_ascii T_CONTROLS); exact KP | exact Hu]. }
  assert (inp_split_prefix_char 47 (P ++ R) = None) as H47.
  { unfold inp_split_prefix_char. destruct P as [|c r].
    - cbn [app]. destruct R as [|c r]; [reflexivity|]. destruct HR as [Hq Ht].
      rewrite inp_next_cons by exact Ht. unfold is_qh in Hq. replace (c =? 47) with false by lia. reflexivity.
    - cbn [forallb] in KPq. apply andb_true_iff in KPq. destruct KPq as [Hc _].
      unfold not_tnl_qh, not_tnl in Hc.
      cbn [app]. rewrite inp_next_cons by (destruct (is_tnl c); [discriminate | reflexivity]).
      cbn [starts_with] in KPh. rewrite andb_true_r in KPh. rewrite N.eqb_sym, KPh. reflexivity. }
  rewrite pns_opaque_eval by assumption.
  rewrite to_u32_ok by exact Kb1. cbn [pbind].
  destruct (opaque_of_canon P R KP KPq HR) as [C1 C2]. rewrite C1, C2.
  rewrite Hpqf. reflexivity.
Qed.

Lemma front_noauth sch segs last q f : noauth_ok sch segs last q f ->
  qf_front (noauth_pre sch (path_text segs last)) STNotSpecial (nlen sch) (nlen (sch ++ [58])) (nlen (sch ++ [58]))
           (nlen (sch ++ [58])) HI_None None (nlen (sch ++ [58]) + nlen (marker_of (path_text segs last))).
Proof.
  intros K R q' f' HR Hne Hu Hl Hpqf. destruct K as [Ksch Kns Ksegs Klast Kq Kf Kb1 Kbq Kbf]. set (T := path_text segs last) in *.
  set (body := segs_text segs ++ last).
  assert (forallb above_space body = true) as Hbody.
  { unfold body. rewrite forallb_app, (segs_text_above segs Ksegs), (good_seg_above last Klast). reflexivity. }
  assert (T = 47 :: body) as ET by reflexivity.
  assert (edge_ok (noauth_pre sch T ++ R)) as He.
  { split; [unfold noauth_pre; rewrite <- !app_assoc; apply scheme_first_ok; exact Ksch | apply first_ok_rev_app2; assumption]. }
  unfold parse_url. rewrite trim_c0_id by exact He.
  replace (noauth_pre sch T ++ R) with (sch ++ 58 :: marker_of T ++ T ++ R) by (unfold noauth_pre; rewrite <- !app_assoc; reflexivity).
  rewrite parse_scheme_canon by exact Ksch.
  unfold parse_with_scheme. rewrite Kns.
  assert (nlen sch <= U32_MAX_P) as Hb0 by (rewrite nlen_app in Kb1; lia).
  rewrite to_u32_ok by exact Hb0. cbn [pbind].
  unfold parse_non_special.
  assert (forall hh, parse_path_loop dbg CUrlParser STNotSpecial (nlen (sch ++ [58])) (body ++ R)
                     ((sch ++ [58]) ++ [47]) (nlen ((sch ++ [58]) ++ [47])) [] hh
                     = POk ((sch ++ [58]) ++ T, hh, R)) as Hloop.
  { intros hh. unfold body. rewrite <- app_assoc. rewrite path_loop_canon by assumption.
    rewrite ET. unfold body. rewrite <- !app_assoc. reflexivity. }
  assert (starts_with [47] T = true) as HT1 by (rewrite ET; reflexivity).
  pose proof (wqf_noauth_eq hp hpo None sch T R HT1) as Hw. cbv zeta in Hw. rewrite Hpqf in Hw. cbn [pbind] in Hw.
  unfold marker_of in *. rewrite ET in *.
  destruct (starts_with s_ss (47 :: body)) eqn:Ess.
  - assert (exists b', body = 47 :: b') as [b' Eb].
    { unfold s_ss in Ess. cbn [starts_with] in Ess. destruct body as [|b0 b']; [discriminate|].
      apply andb_true_iff in Ess. destruct Ess as [_ Ess]. apply andb_true_iff in Ess. destruct Ess as [Ess _].
      apply N.eqb_eq in Ess. subst b0. exists b'. reflexivity. }
    cbn [app].
    unfold s_ss. cbn [inp_split_prefix_str].
    rewrite inp_next_cons by reflexivity. replace (47 =? 47) with true by reflexivity.
    rewrite inp_next_cons by reflexivity. replace (46 =? 47) with false by reflexivity.
    rewrite to_u32_ok by exact Kb1. cbn [pbind].
    unfold inp_split_prefix_char. rewrite inp_next_cons by reflexivity. replace (47 =? 47) with true by reflexivity.
    unfold parse_path. rewrite Eb. cbn [app]. rewrite (loop_marker dbg hp hpo) by apply ewb_snoc.
    change (47 :: b' ++ R) with ((47 :: b') ++ R). rewrite <- Eb.
    rewrite Hloop. cbn [pbind]. rewrite Eb in Hw. cbn [app] in Hw. rewrite <- Eb in Hw.
    rewrite Hw. reflexivity.
  - cbn [app] in *. 
    assert (inp_split_prefix_str s_ss (47 :: body ++ R) = None) as E0.
    { unfold s_ss. cbn [inp_split_prefix_str]. rewrite inp_next_cons by reflexivity. replace (47 =? 47) with true by reflexivity.
      unfold s_ss in Ess. cbn [starts_with] in Ess. replace (47 =? 47) with true in Ess by reflexivity. cbn [andb] in Ess.
      destruct body as [|b0 b'].
      - cbn [app]. destruct R as [|c r]; [reflexivity|]. destruct HR as [Hq Ht]. rewrite inp_next_cons by exact Ht.
        unfold is_qh in Hq. replace (c =? 47) with false by lia. reflexivity.
      - cbn [app]. cbn [forallb] in Hbody. apply andb_true_iff in Hbody. destruct Hbody as [Hb0' _].
        rewrite inp_next_cons by (apply above_not_tnl; exact Hb0'). rewrite andb_true_r in Ess. rewrite N.eqb_sym, Ess. reflexivity. }
    rewrite E0.
    rewrite to_u32_ok by exact Kb1. cbn [pbind].
    unfold inp_split_prefix_char. rewrite inp_next_cons by reflexivity. replace (47 =? 47) with true by reflexivity.
    unfold parse_path. rewrite Hloop. cbn [pbind].
    rewrite Hw. reflexivity.
Qed.

(* ---------- URLs with an authority: the four states on canonical text, any tail ---------- *)
Lemma hi_none_ui st sch ui h pt p q f : auth_ok hp hpo hd st sch ui h pt p q f -> hi_of_host h = HI_None -> ui = UNone.
Proof.
  intros K E. apply (ak_emp _ _ _ _ _ _ _ _ _ _ _ K). apply hi_none. rewrite E. reflexivity.
Qed.

Lemma phap_canon st sch ui h pt X : st_is_file st = false -> host_ok hp hpo hd st h -> (h = HDomain [] -> pt = None) ->
  port_ok (default_port sch) pt -> tail_ok X -> nlen (auth_front hd sch ui h pt) <= U32_MAX_P ->
  parse_host_and_port hp hpo hd CUrlParser st (nlen sch) (((sch ++ [58]) ++ [47; 47]) ++ ui_text ui) (hd h ++ port_text pt ++ X)
  = POk (auth_front hd sch ui h pt, nlen (((sch ++ [58]) ++ [47; 47]) ++ ui_text ui) + nlen (hd h), hi_of_host h, pt, X).
Proof.
  intros Hnf Kh Kemp Kpt HX Kb. pose proof (front_len hd sch ui h pt) as FL.
  rewrite phap_unfold.
  rewrite (parse_host_canon hp hpo hd HRT st Hnf h pt _ Kh Kemp HX). cbn [pbind].
  rewrite (hap_tail_canon hp hpo hd st (nlen sch) _ h pt _ Kh Kemp); [| | exact HX | clear - Kb FL; llia].
  2:{ replace (nfirstn (nlen sch) ((((sch ++ [58]) ++ [47; 47]) ++ ui_text ui) ++ hd h)) with sch; [exact Kpt|].
      rewrite <- !app_assoc. symmetry. apply nfirstn_app_len. }
  rewrite (front_eq hd). reflexivity.
Qed.

Lemma auth_pre_shape sch ui h pt p R :
  auth_pre hd sch ui h pt p ++ R = sch ++ 58 :: 47 :: 47 :: ui_text ui ++ hd h ++ port_text pt ++ pth_text p ++ R.
Proof. unfold auth_pre, auth_front. rewrite <- !app_assoc. reflexivity. Qed.

Lemma front_auth sch ui h pt p q f : auth_ok hp hpo hd STNotSpecial sch ui h pt p q f ->
  qf_front (auth_pre hd sch ui h pt p) STNotSpecial (nlen sch) (nlen sch + 3 + ui_ulen ui) (nlen sch + 3 + nlen (ui_text ui))
           (nlen sch + 3 + nlen (ui_text ui) + nlen (hd h)) (hi_of_host h) pt (nlen (auth_front hd sch ui h pt)).
Proof.
  intros K R q' f' HR Hne Hu Hl Hpqf. rewrite <- auth_url_qf. pose proof (hi_none_ui _ _ _ _ _ _ _ _ K) as Hemp.
  destruct K as [Ksch Kst Kui Kh Kemp Kpt Kp Kq Kf Kb Kbq Kbf].
  pose proof (pth_tail p _ HR) as Htail. pose proof (front_len hd sch ui h pt) as FL. pose proof (ui_ulen_le ui) as UL.
  rewrite auth_pre_shape.
  rewrite parse_url_ads_nonspecial; [| exact Ksch | exact Kst | clear - Kb FL; lia |].
  2:{ rewrite <- auth_pre_shape. split; [rewrite auth_pre_shape; apply scheme_first_ok; exact Ksch | apply first_ok_rev_app2; assumption]. }
  apply (ads_compose dbg hp hpo hd None STNotSpecial sch ui h pt p q' f' _ (hd h ++ port_text pt ++ pth_text p ++ R) (pth_text p ++ R) R true).
  - exact Kb.
  - exact Hemp.
  - apply parse_userinfo_canon; [exact Kui | | clear - Kb FL UL; llia].
    apply (auth_scan hp hpo hd HRT STNotSpecial h pt _ Kh (fun E => proj2 (Kemp E)) (port_ok_le _ _ Kpt) Htail).
  - apply phap_canon; try assumption; [reflexivity | exact (fun E => proj2 (Kemp E))].
  - apply pps_canon; assumption.
  - exact Hpqf.
Qed.

Lemma front_special sch ui h pt p q f : auth_ok hp hpo hd STSpecialNotFile sch ui h pt p q f -> pth_ok_sp p ->
  qf_front (auth_pre hd sch ui h pt p) STSpecialNotFile (nlen sch) (nlen sch + 3 + ui_ulen ui) (nlen sch + 3 + nlen (ui_text ui))
           (nlen sch + 3 + nlen (ui_text ui) + nlen (hd h)) (hi_of_host h) pt (nlen (auth_front hd sch ui h pt)).
Proof.
  intros K Kps R q' f' HR Hne Hu Hl Hpqf. rewrite <- auth_url_qf. pose proof (hi_none_ui _ _ _ _ _ _ _ _ K) as Hemp.
  destruct K as [Ksch Kst Kui Kh Kemp Kpt Kp Kq Kf Kb Kbq Kbf].
  destruct p as [[segs last]|]; [|contradiction]. destruct Kps as [Ksg Kla].
  pose proof (pth_tail (Some (segs, last)) _ HR) as Htail. pose proof (front_len hd sch ui h pt) as FL. pose proof (ui_ulen_le ui) as UL.
  rewrite auth_pre_shape.
  rewrite parse_url_ads_special; [| exact Ksch | exact Kst | clear - Kb FL; lia | | apply (rest_head hp hpo hd); assumption].
  2:{ rewrite <- auth_pre_shape. split; [rewrite auth_pre_shape; apply scheme_first_ok; exact Ksch | apply first_ok_rev_app2; assumption]. }
  apply (ads_compose dbg hp hpo hd None STSpecialNotFile sch ui h pt (Some (segs, last)) q' f' _
           (hd h ++ port_text pt ++ pth_text (Some (segs, last)) ++ R) (pth_text (Some (segs, last)) ++ R) R true).
  - exact Kb.
  - exact Hemp.
  - apply parse_userinfo_canon; [exact Kui | | clear - Kb FL UL; llia].
    apply (auth_scan hp hpo hd HRT STSpecialNotFile h pt _ Kh (fun E => proj2 (Kemp E)) (port_ok_le _ _ Kpt) Htail).
  - apply phap_canon; try assumption; [reflexivity | exact (fun E => proj2 (Kemp E))].
  - cbn [pth_text]. unfold auth_pre. cbn [pth_text]. apply pps_canon_sp; try assumption. apply (front_not_slash hp hpo hd). exact Kh.
  - exact Hpqf.
Qed.

End Front.

(* ================= the spliced texts, read off the record ================= *)
Definition frag_cut (u : url) : N := match fragment_start u with Some n => n | None => nlen (ser u) end.
Definition query_cut (u : url) : N := match query_start u with Some n => n | None => frag_cut u end.
(* the old serialization with '#' x in the fragment position / '?' x in the query position *)
Definition splice_fragment (u : url) (x : list N) : list N := nfirstn (frag_cut u) (ser u) ++ 35 :: x.
Definition splice_query (u : url) (x : list N) : list N :=
  nfirstn (query_cut u) (ser u) ++ 63 :: x ++ nskipn (frag_cut u) (ser u).

Lemma qf_frag_cut pre se ue hs he hi pt ps q f :
  nfirstn (frag_cut (qf_url pre se ue hs he hi pt ps q f)) (ser (qf_url pre se ue hs he hi pt ps q f)) = pre ++ qf_qtext q
  /\ nskipn (frag_cut (qf_url pre se ue hs he hi pt ps q f)) (ser (qf_url pre se ue hs he hi pt ps q f)) = qf_ftext f.
Proof.
  unfold frag_cut, qf_url. cbn [fragment_start ser]. unfold qf_text. destruct f as [y|]; cbn [qf_fs qf_ftext].
  - rewrite <- nlen_app, app_assoc. split; [apply nfirstn_app_len | apply nskipn_app_len].
  - rewrite app_nil_r. split; [apply nfirstn_all; lia|]. rewrite <- (app_nil_r (pre ++ qf_qtext q)) at 2. apply nskipn_app_len.
Qed.

Lemma qf_query_cut pre se ue hs he hi pt ps q f :
  nfirstn (query_cut (qf_url pre se ue hs he hi pt ps q f)) (ser (qf_url pre se ue hs he hi pt ps q f)) = pre.
Proof.
  unfold query_cut. destruct q as [t|].
  - unfold qf_url. cbn [query_start qf_qs ser]. apply nfirstn_app_len.
  - change (nfirstn (frag_cut (qf_url pre se ue hs he hi pt ps None f)) (ser (qf_url pre se ue hs he hi pt ps None f)) = pre).
    rewrite (proj1 (qf_frag_cut pre se ue hs he hi pt ps None f)). cbn [qf_qtext]. apply app_nil_r.
Qed.

Section SpliceQF.
Variable dbg : bool.
Variable hp hpo : list N -> result host.
Variable hd : host -> list N.
Hypothesis HRT : HostRT hp hpo hd.

Notation Canon := (Canon hp hpo hd).

(* every canonical record has the shape of C02_SetQF with a front the parser runs through *)
Lemma Canon_qf u : Canon u ->
  exists pre st se ue hs he hi pt ps q f,
    u = qf_url pre se ue hs he hi pt ps q f /\ qf_front dbg hp hpo hd pre st se ue hs he hi pt ps
    /\ se <= nlen pre /\ scheme_type_of (nfirstn se pre) = st
    /\ opt_clean (query_set st) q /\ opt_clean T_FRAGMENT f.
Proof.
  intros [sch P q f K | sch segs last q f K | sch ui h pt p q f K | sch ui h pt p q f K Kp].
  - destruct (opaque_pre_sch sch P) as [S1 S2].
    do 11 eexists. split; [apply opaque_url_qf|]. split; [exact (front_opaque dbg hp hpo hd sch P q f K)|].
    split; [exact S2|]. split; [rewrite S1; exact (ok_ns _ _ _ _ K)|]. split; [exact (ok_q _ _ _ _ K) | exact (ok_f _ _ _ _ K)].
  - destruct (noauth_pre_sch sch (path_text segs last)) as [S1 S2].
    do 11 eexists. split; [apply noauth_url_qf|]. split; [exact (front_noauth dbg hp hpo hd sch segs last q f K)|].
    split; [exact S2|]. split; [rewrite S1; exact (nk_ns _ _ _ _ _ K)|]. split; [exact (nk_q _ _ _ _ _ K) | exact (nk_f _ _ _ _ _ K)].
  - destruct (auth_pre_sch hd sch ui h pt p) as [S1 S2].
    do 11 eexists. split; [apply auth_url_qf|]. split; [exact (front_auth dbg hp hpo hd HRT sch ui h pt p q f K)|].
    split; [exact S2|]. split; [rewrite S1; exact (ak_st _ _ _ _ _ _ _ _ _ _ _ K)|].
    split; [exact (ak_q _ _ _ _ _ _ _ _ _ _ _ K) | exact (ak_f _ _ _ _ _ _ _ _ _ _ _ K)].
  - destruct (auth_pre_sch hd sch ui h pt p) as [S1 S2].
    do 11 eexists. split; [apply auth_url_qf|]. split; [exact (front_special dbg hp hpo hd HRT sch ui h pt p q f K Kp)|].
    split; [exact S2|]. split; [rewrite S1; exact (ak_st _ _ _ _ _ _ _ _ _ _ _ K)|].
    split; [exact (ak_q _ _ _ _ _ _ _ _ _ _ _ K) | exact (ak_f _ _ _ _ _ _ _ _ _ _ _ K)].
Qed.

Lemma qtext_usv S q : opt_clean S q -> usv_list (qf_qtext q).
Proof.
  destruct q as [t|]; [|constructor]. cbn [opt_clean qf_qtext]. intros H.
  apply usv_cons. split; [unfold is_usv; lia | apply ascii_usv; apply (clean_ascii S); exact H].
Qed.

(* WHOLE-URL agreement for set_fragment: the record the setter returns is the record the parser returns for the
   old serialization with '#' and the RAW argument in the fragment position.  The argument must not end in a C0
   control or a space (Url::parse trims them from the input; the setter encodes them) - nothing else. *)
Theorem splice_agreement_set_fragment u x u' : Canon u -> usv_list x -> first_ok (rev (35 :: x)) ->
  set_fragment dbg u (Some x) = Some u' -> nlen (ser u') <= U32_MAX_P ->
  parse_url dbg hp hpo hd None None (splice_fragment u x) = POk u'.
Proof.
  intros C Hx Hl. destruct (Canon_qf u C) as (pre & st & se & ue & hs & he & hi & pt & ps & q & f & -> & Hfront & Hse & Hst & Hq & Hf).
  rewrite set_fragment_qf_some by exact Hx. intros E Hb. inversion E; subst u'. clear E.
  unfold splice_fragment. rewrite (proj1 (qf_frag_cut pre se ue hs he hi pt ps q f)). rewrite <- app_assoc.
  apply Hfront.
  - destruct q as [t|]; cbn [qf_qtext app qh_ok]; split; reflexivity.
  - destruct q; discriminate.
  - apply usv_app. split; [exact (qtext_usv _ q Hq)|]. apply usv_cons. split; [unfold is_usv; lia | exact Hx].
  - apply first_ok_rev_app2; [discriminate | exact Hl].
  - apply pqf_canon_raw_f; [exact Hx | exact Hq | exact Hb].
Qed.

(* WHOLE-URL agreement for set_query: argument free of '#' (the parser's query state stops there, the setter
   encodes it); when the URL has no fragment the argument must not end in a C0 control or a space *)
Theorem splice_agreement_set_query u x u' : Canon u -> usv_list x -> no_hash x = true ->
  (fragment_start u = None -> first_ok (rev (63 :: x))) ->
  set_query dbg u (Some x) = Some u' -> nlen (ser u') <= U32_MAX_P ->
  parse_url dbg hp hpo hd None None (splice_query u x) = POk u'.
Proof.
  intros C Hx Hh Hl. destruct (Canon_qf u C) as (pre & st & se & ue & hs & he & hi & pt & ps & q & f & -> & Hfront & Hse & Hst & Hq & Hf).
  rewrite (set_query_qf_some dbg pre se ue hs he hi pt ps (nfirstn se pre) eq_refl Hse q f x Hx). rewrite Hst.
  intros E Hb. inversion E; subst u'. clear E.
  unfold splice_query. rewrite qf_query_cut, (proj2 (qf_frag_cut pre se ue hs he hi pt ps q f)).
  apply Hfront.
  - split; reflexivity.
  - discriminate.
  - apply usv_cons. split; [unfold is_usv; lia|]. apply usv_app. split; [exact Hx|].
    destruct f as [y|]; [|constructor]. cbn [qf_ftext]. apply usv_cons. split; [unfold is_usv; lia|].
    apply ascii_usv. apply (clean_ascii T_FRAGMENT). exact Hf.
  - destruct f as [y|]; cbn [qf_ftext].
    + change (63 :: x ++ 35 :: y) with ((63 :: x) ++ 35 :: y). apply first_ok_rev_app; [discriminate|].
      constructor; [reflexivity|]. apply forallb_above. exact (clean_forallb _ _ y kept_FRAGMENT_above Hf).
    + rewrite app_nil_r. apply Hl. reflexivity.
  - apply pqf_raw_q_canon; [exact Hx | exact Hh | exact Hf | exact Hb].
Qed.

End SpliceQF.
