(* Proofs/C09_V6.v - IPv6: hex print/parse inverse (sweep over all 65 536 values), the parser's main
   loop on rendered pieces, fuel irrelevance, parse_ipv6addr (write_ipv6 a) = a. *)
From RU Require Import Base.Prelude Base.Utf8 Model.AsciiSet Gen.Tables Model.PercentEncoding Model.HostT Model.Host.

(* ------------------------------------------------------------------ hex4 *)

Fixpoint hex_fold (h : list N) (acc : N) : option N :=
  match h with
  | [] => Some acc
  | c :: r => match hex_val c with Some d => hex_fold r (acc * 16 + d) | None => None end
  end.

Definition is_lower_hex (c : N) : bool := is_digit c || ((97 <=? c) && (c <=? 102)).

Definition no_leading_zero (v : N) (h : list N) : bool :=
  match h with
  | [] => false
  | c :: r => if c =? 48 then (v =? 0) && (match r with [] => true | _ => false end) else true
  end.

Definition hex4_ok (v : N) : bool :=
  let h := hex4 v in
  forallb is_lower_hex h && (N.of_nat (length h) <=? 4)
  && (match hex_fold h 0 with Some x => x =? v | None => false end)
  && no_leading_zero v h.

Lemma hex4_sweep : all_below 65536 hex4_ok = true.
Proof. vm_compute. reflexivity. Qed.

Lemma hex4_facts v : v < 65536 ->
  forallb is_lower_hex (hex4 v) = true /\ (length (hex4 v) <= 4)%nat
  /\ hex_fold (hex4 v) 0 = Some v /\ no_leading_zero v (hex4 v) = true.
Proof.
  intros Hv. pose proof (all_below_spec _ _ hex4_sweep v Hv) as H. unfold hex4_ok in H. cbv zeta in H.
  apply andb_true_iff in H. destruct H as [H H4].
  apply andb_true_iff in H. destruct H as [H H3].
  apply andb_true_iff in H. destruct H as [H1 H2].
  repeat split; try assumption.
  - apply N.leb_le in H2. lia.
  - destruct (hex_fold (hex4 v) 0) as [x|]; [|discriminate]. apply N.eqb_eq in H3. congruence.
Qed.

Lemma hex4_nonnil v : hex4 v <> [].
Proof. unfold hex4. destruct (v <? 16); [discriminate|]. destruct (v <? 256); [discriminate|].
  destruct (v <? 4096); discriminate. Qed.

Lemma hex4_app_nonnil v r : hex4 v ++ r <> [].
Proof. pose proof (hex4_nonnil v). destruct (hex4 v); [congruence | discriminate]. Qed.

Lemma lower_hex_val c : is_lower_hex c = true -> exists d, hex_val c = Some d.
Proof.
  unfold is_lower_hex, hex_val. intros H. destruct (is_digit c) eqn:E1; [eauto|].
  cbn [orb] in H. unfold is_digit in E1.
  destruct ((65 <=? c) && (c <=? 70)) eqn:E2; [eauto|]. rewrite H. eauto.
Qed.

Lemma lower_hex_not_sep c : is_lower_hex c = true -> c <> 58 /\ c <> 46.
Proof. unfold is_lower_hex, is_digit. lia. Qed.

Lemma hex4_head v : v < 65536 -> exists c h, hex4 v = c :: h /\ is_lower_hex c = true.
Proof.
  intros Hv. destruct (hex4_facts v Hv) as (H1 & _). pose proof (hex4_nonnil v) as Hn.
  destruct (hex4 v) as [|c h]; [congruence|]. cbn [forallb] in H1. apply andb_true_iff in H1.
  exists c, h. tauto.
Qed.

(* ------------------------------------------------------------------ read_hex *)

Lemma read_hex_len k : forall inp v n v' n' rest,
  read_hex k inp v n = (v', n', rest) -> (length rest <= length inp)%nat.
Proof.
  induction k as [|k IH]; intros inp v n v' n' rest H; cbn [read_hex] in H.
  - inversion H; subst. lia.
  - destruct inp as [|c r]; [inversion H; subst; cbn; lia|].
    destruct (hex_val c) as [d|].
    + apply IH in H. cbn [length]. lia.
    + inversion H; subst. lia.
Qed.

Definition stops (rest : list N) : Prop :=
  match rest with [] => True | c :: _ => hex_val c = None end.

Lemma read_hex_full h : forall k value n rest v',
  (length h <= k)%nat -> stops rest -> hex_fold h value = Some v' ->
  read_hex k (h ++ rest) value n = (v', n + N.of_nat (length h), rest).
Proof.
  induction h as [|c h IH]; intros k value n rest v' Hk Hs Hf.
  - cbn [hex_fold] in Hf. inversion Hf; subst. cbn [app length].
    replace (n + N.of_nat 0) with n by lia.
    destruct k as [|k]; [reflexivity|]. cbn [read_hex].
    destruct rest as [|c r]; [reflexivity|]. cbn in Hs. rewrite Hs. reflexivity.
  - cbn [hex_fold] in Hf. destruct (hex_val c) as [d|] eqn:E; [|discriminate].
    destruct k as [|k]; [cbn in Hk; lia|]. cbn [app read_hex]. rewrite E.
    rewrite (IH k _ _ rest v'); [|cbn in Hk; lia|exact Hs|exact Hf].
    f_equal. f_equal. cbn [length]. lia.
Qed.

Lemma read_hex_hex4 v n rest : v < 65536 -> stops rest ->
  read_hex 4 (hex4 v ++ rest) 0 n = (v, n + N.of_nat (length (hex4 v)), rest).
Proof.
  intros Hv Hs. destruct (hex4_facts v Hv) as (_ & H2 & H3 & _).
  apply read_hex_full; assumption.
Qed.

(* ------------------------------------------------------------------ pieces *)

Lemma upd_nth_length ps : forall i v, length (upd_nth ps i v) = length ps.
Proof. induction ps as [|x r IH]; intros [|i] v; cbn [upd_nth length]; try reflexivity. rewrite IH. reflexivity. Qed.

Lemma set_piece_ok ps i v : i < N.of_nat (length ps) -> set_piece ps i v = Some (upd_nth ps (N.to_nat i) v).
Proof. intros H. unfold set_piece. replace (i <? N.of_nat (length ps)) with true by lia. reflexivity. Qed.

(* ------------------------------------------------------------------ v6_main: unfolding, fuel *)

Lemma v6_main_nil f ps pp cp : v6_main f [] ps pp cp = XOk (V6End ps pp cp).
Proof. destruct f; reflexivity. Qed.

Lemma v6_main_step f c r ps pp cp :
  v6_main (S f) (c :: r) ps pp cp =
  if pp =? 8 then XErr InvalidIpv6Address
  else if c =? 58 then
    match cp with
    | Some _ => XErr InvalidIpv6Address
    | None => v6_main f r ps (pp + 1) (Some (pp + 1))
    end
  else
    let '(value, n, rest) := read_hex 4 (c :: r) 0 0 in
    match rest with
    | [] =>
        match set_piece ps pp value with
        | None => XPanic 401
        | Some ps' => v6_main f [] ps' (pp + 1) cp
        end
    | d :: rest' =>
        if d =? 46 then
          if n =? 0 then XErr InvalidIpv6Address
          else if 6 <? pp then XErr InvalidIpv6Address
          else XOk (V6Ipv4 (c :: r) ps pp cp)
        else if d =? 58 then
          match rest' with
          | [] => XErr InvalidIpv6Address
          | _ =>
              match set_piece ps pp value with
              | None => XPanic 401
              | Some ps' => v6_main f rest' ps' (pp + 1) cp
              end
          end
        else XErr InvalidIpv6Address
    end.
Proof. reflexivity. Qed.

Opaque v6_main.

Lemma v6_main_fuel f1 : forall f2 inp ps pp cp,
  (length inp <= f1)%nat -> (length inp <= f2)%nat ->
  v6_main f1 inp ps pp cp = v6_main f2 inp ps pp cp.
Proof.
  induction f1 as [|f1 IH]; intros f2 inp ps pp cp H1 H2.
  - destruct inp; [rewrite !v6_main_nil; reflexivity | cbn in H1; lia].
  - destruct inp as [|c r]; [rewrite !v6_main_nil; reflexivity|].
    destruct f2 as [|f2]; [cbn in H2; lia|].
    rewrite !v6_main_step. cbn [length] in H1, H2.
    destruct (pp =? 8); [reflexivity|].
    destruct (c =? 58).
    { destruct cp; [reflexivity|]. apply IH; lia. }
    destruct (read_hex 4 (c :: r) 0 0) as [[value n] rest] eqn:E.
    pose proof (read_hex_len _ _ _ _ _ _ _ E) as HL. cbn [length] in HL.
    destruct rest as [|d rest'].
    { destruct (set_piece ps pp value); [|reflexivity]. rewrite !v6_main_nil. reflexivity. }
    destruct (d =? 46); [reflexivity|].
    destruct (d =? 58); [|reflexivity].
    destruct rest' as [|e rest'']; [reflexivity|].
    destruct (set_piece ps pp value); [|reflexivity].
    cbn [length] in HL. apply IH; cbn [length]; lia.
Qed.

(* the main loop with its canonical fuel *)
Definition v6m (inp : list N) (ps : list N) (pp : N) (cp : option N) : xr v6_exit :=
  v6_main (length inp) inp ps pp cp.

Lemma v6m_nil ps pp cp : v6m [] ps pp cp = XOk (V6End ps pp cp).
Proof. reflexivity. Qed.

Lemma v6m_compress rest ps pp : pp < 8 ->
  v6m (58 :: rest) ps pp None = v6m rest ps (pp + 1) (Some (pp + 1)).
Proof.
  intros Hp. unfold v6m. cbn [length]. rewrite v6_main_step.
  replace (pp =? 8) with false by lia. replace (58 =? 58) with true by reflexivity. reflexivity.
Qed.

Lemma stops_colon r : stops (58 :: r).
Proof. reflexivity. Qed.

Lemma v6m_piece_colon v rest ps pp cp :
  v < 65536 -> rest <> [] -> pp < 8 -> length ps = 8%nat ->
  v6m (hex4 v ++ 58 :: rest) ps pp cp = v6m rest (upd_nth ps (N.to_nat pp) v) (pp + 1) cp.
Proof.
  intros Hv Hr Hp Hl. unfold v6m.
  destruct (hex4_head v Hv) as (c & h & Eh & Hc).
  destruct (lower_hex_not_sep c Hc) as [Hc1 _].
  pose proof (read_hex_hex4 v 0 (58 :: rest) Hv (stops_colon rest)) as RH.
  rewrite Eh in *. cbn [app length] in *. rewrite v6_main_step.
  replace (pp =? 8) with false by lia. replace (c =? 58) with false by lia.
  rewrite RH.
  replace (58 =? 46) with false by reflexivity. replace (58 =? 58) with true by reflexivity.
  destruct rest as [|e rest']; [congruence|].
  rewrite set_piece_ok by (rewrite Hl; lia).
  apply v6_main_fuel; [|lia]. rewrite app_length. cbn [length]. lia.
Qed.

Lemma v6m_piece_last v ps pp cp :
  v < 65536 -> pp < 8 -> length ps = 8%nat ->
  v6m (hex4 v) ps pp cp = XOk (V6End (upd_nth ps (N.to_nat pp) v) (pp + 1) cp).
Proof.
  intros Hv Hp Hl. unfold v6m.
  destruct (hex4_head v Hv) as (c & h & Eh & Hc).
  destruct (lower_hex_not_sep c Hc) as [Hc1 _].
  pose proof (read_hex_hex4 v 0 [] Hv I) as RH. rewrite app_nil_r in RH.
  rewrite Eh in *. cbn [length]. rewrite v6_main_step.
  replace (pp =? 8) with false by lia. replace (c =? 58) with false by lia.
  rewrite RH. rewrite set_piece_ok by (rewrite Hl; lia). rewrite v6_main_nil. reflexivity.
Qed.

(* ------------------------------------------------------------------ parse_ipv6addr: the two starts *)

Lemma parse_ipv6addr_cc r : parse_ipv6addr (58 :: 58 :: r) = xr_bind (v6m r v6_zero 1 (Some 1)) v6_tail.
Proof. reflexivity. Qed.

Lemma parse_ipv6addr_piece v rest : v < 65536 ->
  parse_ipv6addr (hex4 v ++ 58 :: rest) = xr_bind (v6m (hex4 v ++ 58 :: rest) v6_zero 0 None) v6_tail.
Proof.
  intros Hv. destruct (hex4_head v Hv) as (c & h & Eh & Hc).
  destruct (lower_hex_not_sep c Hc) as [Hc1 _]. rewrite Eh. unfold v6m.
  destruct h as [|c' h']; cbn [app]; unfold parse_ipv6addr; replace (c =? 58) with false by lia; reflexivity.
Qed.

(* ------------------------------------------------------------------ longest_zero_sequence depends on the zero pattern only *)

Definition nz (x : N) : N := if x =? 0 then 0 else 1.

Lemma lzs_loop_nz ps : forall i st, lzs_loop (map nz ps) i st = lzs_loop ps i st.
Proof.
  induction ps as [|p r IH]; intros i st; cbn [map lzs_loop]; [reflexivity|].
  destruct st as [[l ll] s].
  replace (nz p =? 0) with (p =? 0) by (unfold nz; destruct (p =? 0) eqn:E; lia).
  destruct (p =? 0); [apply IH|]. destruct (lzs_finish i (l, ll, s)) as [[l2 ll2] s2]. apply IH.
Qed.

Lemma lzs_nz ps : longest_zero_sequence (map nz ps) = longest_zero_sequence ps.
Proof. unfold longest_zero_sequence. rewrite lzs_loop_nz. reflexivity. Qed.

(* the eight-bit pattern number k <-> list *)
Definition bit (k i : N) : N := if N.testbit k i then 1 else 0.
Definition pat (k : N) : list N := [bit k 7; bit k 6; bit k 5; bit k 4; bit k 3; bit k 2; bit k 1; bit k 0].

Lemma nz_pat a0 a1 a2 a3 a4 a5 a6 a7 :
  exists k, k < 256 /\ map nz [a0; a1; a2; a3; a4; a5; a6; a7] = pat k.
Proof.
  exists (128 * nz a0 + 64 * nz a1 + 32 * nz a2 + 16 * nz a3 + 8 * nz a4 + 4 * nz a5 + 2 * nz a6 + nz a7).
  unfold nz. cbn [map].
  destruct (a0 =? 0), (a1 =? 0), (a2 =? 0), (a3 =? 0), (a4 =? 0), (a5 =? 0), (a6 =? 0), (a7 =? 0);
    (split; [vm_compute; reflexivity | vm_compute; reflexivity]).
Qed.

Lemma length8 (a : list N) : length a = 8%nat ->
  exists a0 a1 a2 a3 a4 a5 a6 a7, a = [a0; a1; a2; a3; a4; a5; a6; a7].
Proof.
  intros H. do 8 (destruct a as [|? a]; [discriminate|]). destruct a; [|discriminate].
  repeat eexists.
Qed.

