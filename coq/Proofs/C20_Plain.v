(* Proofs/C20_Plain.v - the reference of every plain file name passes through the URL parser unchanged:
   plain_name f -> ref_ok (name_reference f).  With Proofs/C20_Dir.dir_join_generic this gives the
   directory-join clause of C20 for the whole class plain_name. *)
From RU Require Import Base.Prelude Base.Utf8 Model.AsciiSet Gen.Tables Model.PercentEncoding
  Model.HostT Model.UrlRecord Model.Parser Model.FilePath
  Proofs.C14_Set Proofs.C14_Enc Proofs.C14_Views Proofs.ListN Proofs.C20_Path Proofs.C20_RT Proofs.C20_Join
  Proofs.C20_Dir.

(* ---------- per-byte facts about SPECIAL_PATH_SEGMENT, by finite sweep over the regenerated table ---------- *)
Definition sps_byte_facts (b : N) : bool :=
  (* what the set leaves alone is left alone by every later stage of the parser *)
  implb (negb (should_encode T_SPECIAL_PATH_SEGMENT b))
        (ref_char_ok b && negb (should_encode T_PATH b) && negb (b =? 37))
  (* scheme characters and the drive-letter characters are left alone *)
  && implb (is_alnum b || (b =? 43) || (b =? 45) || (b =? 46) || (b =? 58) || (b =? 124))
           (negb (should_encode T_SPECIAL_PATH_SEGMENT b)).

Lemma sps_byte_sweep : all_below 128 sps_byte_facts = true.
Proof. vm_compute. reflexivity. Qed.

Lemma sps_high b : 128 <= b -> should_encode T_SPECIAL_PATH_SEGMENT b = true.
Proof. intros H. unfold should_encode. replace (128 <=? b) with true by lia. reflexivity. Qed.

Lemma sps_kept_inv b : should_encode T_SPECIAL_PATH_SEGMENT b = false ->
  b < 128 /\ ref_char_ok b = true /\ should_encode T_PATH b = false /\ b <> 37.
Proof.
  intros H. assert (Hlt : b < 128).
  { destruct (N.lt_ge_cases b 128) as [Hl|Hg]; [exact Hl|]. rewrite sps_high in H by exact Hg. discriminate H. }
  pose proof (all_below_spec 128 _ sps_byte_sweep b Hlt) as Hs. unfold sps_byte_facts in Hs.
  apply andb_true_iff in Hs. destruct Hs as [Hs _]. rewrite H in Hs. cbn [negb implb] in Hs.
  apply andb_true_iff in Hs. destruct Hs as [Hs H3]. apply andb_true_iff in Hs. destruct Hs as [H1 H2].
  repeat split; try assumption; try lia.
  destruct (should_encode T_PATH b); [discriminate H2 | reflexivity].
Qed.

Lemma sps_keeps_scheme_chars b :
  (is_alnum b || (b =? 43) || (b =? 45) || (b =? 46) || (b =? 58) || (b =? 124)) = true ->
  should_encode T_SPECIAL_PATH_SEGMENT b = false.
Proof.
  intros H. assert (Hlt : b < 128).
  { unfold is_alnum, is_alpha, is_upper, is_lower, is_digit in H. lia. }
  pose proof (all_below_spec 128 _ sps_byte_sweep b Hlt) as Hs. unfold sps_byte_facts in Hs.
  apply andb_true_iff in Hs. destruct Hs as [_ Hs]. rewrite H in Hs. cbn [implb] in Hs.
  destruct (should_encode T_SPECIAL_PATH_SEGMENT b); [discriminate Hs | reflexivity].
Qed.

(* hex digits *)
Lemma hex_upper_facts d : d < 16 ->
  hex_upper d < 128 /\ ref_char_ok (hex_upper d) = true /\ should_encode T_PATH (hex_upper d) = false
  /\ hex_upper d <> 101.
Proof.
  intros H. assert (Hs : all_below 16 (fun d => (hex_upper d <? 128) && ref_char_ok (hex_upper d)
                           && negb (should_encode T_PATH (hex_upper d)) && negb (hex_upper d =? 101)) = true)
    by (vm_compute; reflexivity).
  pose proof (all_below_spec 16 _ Hs d H) as Hd. cbv beta in Hd.
  apply andb_true_iff in Hd. destruct Hd as [Hd H4]. apply andb_true_iff in Hd. destruct Hd as [Hd H3].
  apply andb_true_iff in Hd. destruct Hd as [H1 H2].
  repeat split; try assumption; try lia.
  destruct (should_encode T_PATH (hex_upper d)); [discriminate H3 | reflexivity].
Qed.

Lemma pct_facts : ref_char_ok 37 = true /\ should_encode T_PATH 37 = false
  /\ should_encode T_SPECIAL_PATH_SEGMENT 37 = true /\ should_encode T_SPECIAL_PATH_SEGMENT 46 = false.
Proof. vm_compute. repeat split. Qed.

(* ---------- every character of an encoded name ---------- *)
Lemma enc_cons b c : enc (b :: c) = enc1 T_SPECIAL_PATH_SEGMENT b ++ enc c.
Proof. unfold enc. apply encode_cons. Qed.

Lemma enc_Forall (Q : N -> Prop) c : bytes c ->
  Q 37 -> (forall d, d < 16 -> Q (hex_upper d)) ->
  (forall b, should_encode T_SPECIAL_PATH_SEGMENT b = false -> Q b) ->
  Forall Q (enc c).
Proof.
  intros Hb H37 Hhex Hkeep. induction c as [|b c IH]; [constructor|].
  inversion Hb as [|? ? Hb1 Hb2]; subst. rewrite enc_cons. apply Forall_app. split; [|exact (IH Hb2)].
  unfold enc1. destruct (should_encode T_SPECIAL_PATH_SEGMENT b) eqn:E.
  - unfold enc_byte_spec, is_byte in *.
    constructor; [exact H37|]. constructor; [apply Hhex; lia|]. constructor; [apply Hhex; lia|]. constructor.
  - constructor; [apply Hkeep; exact E | constructor].
Qed.

Lemma enc_chars_ok c : bytes c ->
  Forall (fun x => x < 128 /\ ref_char_ok x = true /\ should_encode T_PATH x = false) (enc c).
Proof.
  intros Hb. apply enc_Forall; [exact Hb | | |].
  - destruct pct_facts as [H1 [H2 _]]. split; [lia | split; [exact H1 | exact H2]].
  - intros d Hd. destruct (hex_upper_facts d Hd) as [H1 [H2 [H3 _]]]. auto.
  - intros b Hk. destruct (sps_kept_inv b Hk) as [H1 [H2 [H3 _]]]. auto.
Qed.

(* an escape written by the encoder never spells "%2e" / "%2E" *)
Lemma enc_no_pct2e c e rest : bytes c -> (e = 69 \/ e = 101) -> enc c <> 37 :: 50 :: e :: rest.
Proof.
  intros Hb He Heq. destruct c as [|b c]; [discriminate Heq|].
  inversion Hb as [|? ? Hb1 Hb2]; subst. rewrite enc_cons in Heq. unfold enc1 in Heq.
  destruct (should_encode T_SPECIAL_PATH_SEGMENT b) eqn:E.
  - unfold enc_byte_spec in Heq. cbn [app] in Heq. inversion Heq as [[H1 H2 H3]]. unfold is_byte in Hb1.
    assert (Hhi : b / 16 = 2) by (unfold hex_upper in H1; destruct (b / 16 <? 10) eqn:E1; lia).
    destruct He as [-> | ->].
    + assert (Hlo : b mod 16 = 14) by (unfold hex_upper in H2; destruct (b mod 16 <? 10) eqn:E2; lia).
      assert (b = 46) by lia. subst b. destruct pct_facts as [_ [_ [_ H46]]]. rewrite H46 in E. discriminate E.
    + destruct (hex_upper_facts (b mod 16)) as [_ [_ [_ Hn]]]; [lia|]. exact (Hn H2).
  - cbn [app] in Heq. inversion Heq as [[H1 H2]]. subst b.
    destruct pct_facts as [_ [_ [H37 _]]]. rewrite H37 in E. discriminate E.
Qed.

(* ---------- stronger inversions of the dot-segment tests ---------- *)
Lemma is_pct2e_inv a b c : is_pct2e a b c = true -> a = 37 /\ b = 50 /\ (c = 69 \/ c = 101).
Proof. unfold is_pct2e. lia. Qed.

Lemma is_single_dot_inv2 s : is_single_dot s = true ->
  s = [46] \/ exists e, (e = 69 \/ e = 101) /\ s = [37; 50; e].
Proof.
  destruct s as [|a [|b [|c [|d r]]]]; cbn [is_single_dot]; try discriminate.
  - m46 a; [left; reflexivity | discriminate].
  - m46 a; dmatch; discriminate.
  - m46 a; dmatch; intros H; apply is_pct2e_inv in H; destruct H as [H1 [H2 H3]]; try discriminate H1;
      right; eexists; (split; [exact H3|]); rewrite H1, H2; reflexivity.
  - m46 a; dmatch; discriminate.
Qed.

Lemma is_double_dot_inv2 s : is_double_dot s = true ->
  s = [46; 46] \/ exists e rest, (e = 69 \/ e = 101) /\ (s = 37 :: 50 :: e :: rest \/ s = 46 :: 37 :: 50 :: e :: rest).
Proof.
  destruct s as [|a [|b [|c [|d [|e [|f [|g r]]]]]]]; cbn [is_double_dot]; try discriminate.
  - m46 a; dmatch; discriminate.
  - m46 a; [|dmatch; discriminate]. m46 b; [left; reflexivity | dmatch; discriminate].
  - m46 a; [|dmatch; discriminate]. m46 b; dmatch; discriminate.
  - m46 a.
    + dmatch; intros H; apply is_pct2e_inv in H; destruct H as [H1 [H2 H3]]; try discriminate H1;
        right; eexists; eexists; (split; [exact H3|]); right; rewrite H1, H2; reflexivity.
    + m46 d; [|dmatch; discriminate]. dmatch. intros H. apply is_pct2e_inv in H. destruct H as [H1 [H2 H3]].
      right. eexists. eexists. split; [exact H3|]. left. rewrite H1, H2. reflexivity.
  - m46 a; [|dmatch; discriminate]. m46 b; dmatch; discriminate.
  - m46 a.
    + dmatch; intros H; apply andb_true_iff in H; destruct H as [H _]; apply is_pct2e_inv in H;
        destruct H as [H _]; discriminate H.
    + dmatch; intros H; apply andb_true_iff in H; destruct H as [H _]; apply is_pct2e_inv in H;
        destruct H as [H1 [H2 H3]]; right; eexists; eexists; (split; [exact H3|]); left; rewrite H1, H2; reflexivity.
  - m46 a; [|dmatch; discriminate]. m46 b; dmatch; discriminate.
Qed.

(* ---------- the scheme scanner on an encoded name ---------- *)
Lemma scheme_loop_enc f : bytes f -> scheme_like_tail f = false ->
  forall acc, parse_scheme_loop CUrlParser acc (enc f) = None.
Proof.
  induction f as [|c f IH]; intros Hb Hs acc; [reflexivity|].
  inversion Hb as [|? ? Hb1 Hb2]; subst. cbn [scheme_like_tail] in Hs.
  destruct (c =? 58) eqn:E58; [discriminate Hs|].
  rewrite enc_cons. unfold enc1.
  destruct (is_alnum c || (c =? 43) || (c =? 45) || (c =? 46)) eqn:Esc.
  - (* a scheme character: copied, the scan goes on *)
    assert (Hk : should_encode T_SPECIAL_PATH_SEGMENT c = false).
    { apply sps_keeps_scheme_chars. rewrite Esc. reflexivity. }
    rewrite Hk. cbn [app parse_scheme_loop].
    destruct (sps_kept_inv c Hk) as [_ [Hok _]]. apply ref_char_ok_inv in Hok. destruct Hok as [Ht _].
    rewrite Ht.
    destruct (is_lower c || is_digit c || (c =? 43) || (c =? 45) || (c =? 46)) eqn:E1; [apply IH; assumption|].
    destruct (is_upper c) eqn:E2; [apply IH; assumption|].
    exfalso. unfold is_alnum, is_alpha, is_upper, is_lower, is_digit in *. lia.
  - (* not a scheme character and not ':' : the scan stops with Err, on the byte or on its '%' *)
    destruct (should_encode T_SPECIAL_PATH_SEGMENT c) eqn:Ek.
    + unfold enc_byte_spec. cbn [app parse_scheme_loop]. reflexivity.
    + cbn [app parse_scheme_loop].
      destruct (sps_kept_inv c Ek) as [_ [Hok _]]. apply ref_char_ok_inv in Hok. destruct Hok as [Ht _].
      rewrite Ht, E58.
      replace (is_lower c || is_digit c || (c =? 43) || (c =? 45) || (c =? 46)) with false
        by (unfold is_alnum, is_alpha, is_upper, is_lower, is_digit in *; lia).
      replace (is_upper c) with false by (unfold is_alnum, is_alpha, is_upper, is_lower, is_digit in *; lia).
      reflexivity.
Qed.

Lemma parse_scheme_enc f : bytes f -> scheme_like f = false -> parse_scheme CUrlParser (enc f) = None.
Proof.
  intros Hb Hs. unfold parse_scheme.
  destruct (inp_starts_with_pred is_alpha (enc f)) eqn:Ea; [|reflexivity].
  destruct f as [|c f]; [reflexivity|].
  inversion Hb as [|? ? Hb1 Hb2]; subst. cbn [scheme_like] in Hs.
  destruct (is_alpha c) eqn:Eal.
  - cbn [andb] in Hs.
    assert (Hk : should_encode T_SPECIAL_PATH_SEGMENT c = false).
    { apply sps_keeps_scheme_chars. unfold is_alnum. rewrite Eal. reflexivity. }
    rewrite enc_cons. unfold enc1. rewrite Hk. cbn [app parse_scheme_loop].
    destruct (sps_kept_inv c Hk) as [_ [Hok _]]. apply ref_char_ok_inv in Hok. destruct Hok as [Ht _].
    rewrite Ht.
    destruct (is_lower c || is_digit c || (c =? 43) || (c =? 45) || (c =? 46)) eqn:E1; [apply scheme_loop_enc; assumption|].
    destruct (is_upper c) eqn:E2; [apply scheme_loop_enc; assumption|].
    exfalso. unfold is_alnum, is_alpha, is_upper, is_lower, is_digit in *. lia.
  - (* the first character of the reference is the byte itself or '%': not a letter *)
    exfalso. rewrite enc_cons in Ea. unfold enc1, inp_starts_with_pred in Ea.
    destruct (should_encode T_SPECIAL_PATH_SEGMENT c) eqn:Ek.
    + unfold enc_byte_spec in Ea. cbn [app] in Ea. rewrite inp_next_ok in Ea by reflexivity. discriminate Ea.
    + cbn [app] in Ea. destruct (sps_kept_inv c Ek) as [_ [Hok _]]. apply ref_char_ok_inv in Hok.
      destruct Hok as [Ht _]. rewrite inp_next_ok in Ea by exact Ht. congruence.
Qed.

(* ---------- drive-letter shapes ---------- *)
Lemma decode_two a b : a <> 37 -> b <> 37 -> decode [a; b] = [a; b].
Proof. intros Ha Hb. rewrite decode_other by exact Ha. rewrite decode_other by exact Hb. reflexivity. Qed.

Lemma enc_is_two f a b : bytes f -> enc f = [a; b] -> a <> 37 -> b <> 37 -> f = [a; b].
Proof.
  intros Hb He Ha Hb2. rewrite <- (decode_enc f Hb), He. apply decode_two; assumption.
Qed.

Lemma wdl_shape_enc f : bytes f -> drive_like f = false ->
  forall a b, enc f = [a; b] -> is_alpha a = true -> ((b =? 58) || (b =? 124)) = true -> False.
Proof.
  intros Hb Hd a b He Ha Hbb.
  assert (Hf : f = [a; b]).
  { apply enc_is_two; try assumption; [unfold is_alpha, is_upper, is_lower in Ha; lia | lia]. }
  subst f. unfold drive_like in Hd. rewrite Ha, Hbb in Hd. discriminate Hd.
Qed.

Lemma is_wdl_enc f : bytes f -> drive_like f = false -> is_wdl (enc f) = false.
Proof.
  intros Hb Hd. destruct (is_wdl (enc f)) eqn:E; [|reflexivity]. exfalso.
  unfold is_wdl in E. apply andb_true_iff in E. destruct E as [El Es].
  destruct (enc f) as [|a [|b [|c r]]] eqn:Ee; try discriminate El.
  unfold starts_with_wdl in Es. rewrite andb_true_r in Es. apply andb_true_iff in Es. destruct Es as [Ha Hbb].
  exact (wdl_shape_enc f Hb Hd a b Ee Ha Hbb).
Qed.

Lemma wdl_segment_enc f : bytes f -> drive_like f = false -> starts_with_wdl_segment (enc f) = false.
Proof.
  intros Hb Hd. pose proof (enc_chars_ok f Hb) as Hch.
  destruct (enc f) as [|a [|b [|c r]]] eqn:Ee; unfold starts_with_wdl_segment.
  - reflexivity.
  - inversion Hch as [|? ? [_ [Ha _]] _]; subst. apply ref_char_ok_inv in Ha. destruct Ha as [Ha _].
    rewrite inp_next_ok by exact Ha. reflexivity.
  - inversion Hch as [|? ? [_ [Ha _]] Hch2]; subst. inversion Hch2 as [|? ? [_ [Hb2 _]] _]; subst.
    apply ref_char_ok_inv in Ha. destruct Ha as [Ha _]. apply ref_char_ok_inv in Hb2. destruct Hb2 as [Hb2 _].
    rewrite inp_next_ok by exact Ha. rewrite inp_next_ok by exact Hb2. cbn [inp_next drop_while].
    rewrite andb_true_r.
    destruct (is_alpha a && ((b =? 58) || (b =? 124))) eqn:E; [|reflexivity]. exfalso.
    apply andb_true_iff in E. destruct E as [E1 E2]. exact (wdl_shape_enc f Hb Hd a b Ee E1 E2).
  - inversion Hch as [|? ? [_ [Ha _]] Hch2]; subst. inversion Hch2 as [|? ? [_ [Hb2 _]] Hch3]; subst.
    inversion Hch3 as [|? ? [_ [Hc _]] _]; subst.
    apply ref_char_ok_inv in Ha. destruct Ha as [Ha _]. apply ref_char_ok_inv in Hb2. destruct Hb2 as [Hb2 _].
    apply ref_char_ok_inv in Hc. destruct Hc as [Hc1 [_ [Hc2 [Hc3 [Hc4 Hc5]]]]].
    rewrite inp_next_ok by exact Ha. rewrite inp_next_ok by exact Hb2. rewrite inp_next_ok by exact Hc1.
    unfold is_path_end. replace (c =? 47) with false by lia. replace (c =? 92) with false by lia.
    replace (c =? 63) with false by lia. replace (c =? 35) with false by lia.
    cbn [orb]. apply andb_false_r.
Qed.

(* ---------- dot segments ---------- *)
Lemma enc_head_46 f rest : bytes f -> enc f = 46 :: rest -> exists f', f = 46 :: f' /\ enc f' = rest.
Proof.
  intros Hb He. destruct f as [|b f]; [discriminate He|]. rewrite enc_cons in He. unfold enc1 in He.
  destruct (should_encode T_SPECIAL_PATH_SEGMENT b).
  - unfold enc_byte_spec in He. cbn [app] in He. discriminate He.
  - cbn [app] in He. inversion He; subst. exists f. auto.
Qed.

Lemma double_dot_enc f : bytes f -> piece_is_dotdot f = false -> is_double_dot (enc f) = false.
Proof.
  intros Hb Hd. destruct (is_double_dot (enc f)) eqn:E; [|reflexivity]. exfalso.
  apply is_double_dot_inv2 in E. destruct E as [E | [e [rest [He [E | E]]]]].
  - assert (Hf : f = [46; 46]) by (apply enc_is_two; try assumption; discriminate).
    subst f. discriminate Hd.
  - exact (enc_no_pct2e f e rest Hb He E).
  - destruct (enc_head_46 f _ Hb E) as [f' [-> Hf']]. inversion Hb; subst.
    exact (enc_no_pct2e f' e rest ltac:(assumption) He Hf').
Qed.

Lemma single_dot_enc f : bytes f -> piece_is_dot f = false -> is_single_dot (enc f) = false.
Proof.
  intros Hb Hd. destruct (is_single_dot (enc f)) eqn:E; [|reflexivity]. exfalso.
  apply is_single_dot_inv2 in E. destruct E as [E | [e [He E]]].
  - assert (Hf : f = [46]).
    { rewrite <- (decode_enc f Hb), E. reflexivity. }
    subst f. discriminate Hd.
  - exact (enc_no_pct2e f e [] Hb He E).
Qed.

(* ---------- plain names ---------- *)
Lemma plain_name_inv f : plain_name f = true ->
  f <> [] /\ bytes f /\ ~ In 47 f /\ ~ In 0 f /\ piece_is_dot f = false /\ piece_is_dotdot f = false
  /\ scheme_like f = false /\ drive_like f = false.
Proof.
  unfold plain_name. intros H.
  apply andb_true_iff in H. destruct H as [H H6]. apply andb_true_iff in H. destruct H as [H H5].
  apply andb_true_iff in H. destruct H as [H H4]. apply andb_true_iff in H. destruct H as [H H3].
  apply andb_true_iff in H. destruct H as [H1 H2].
  rewrite forallb_forall in H2.
  repeat split.
  - intros ->. discriminate H1.
  - apply Forall_forall. intros b Hb. specialize (H2 b Hb). unfold is_byte. lia.
  - intros Hi. specialize (H2 47 Hi). discriminate H2.
  - intros Hi. specialize (H2 0 Hi). discriminate H2.
  - destruct (piece_is_dot f); [discriminate H3 | reflexivity].
  - destruct (piece_is_dotdot f); [discriminate H4 | reflexivity].
  - destruct (scheme_like f); [discriminate H5 | reflexivity].
  - destruct (drive_like f); [discriminate H6 | reflexivity].
Qed.

Theorem plain_name_ref f : plain_name f = true ->
  name_reference f = enc f /\ ref_ok (enc f) /\ decode (enc f) = f
  /\ keep_piece f = true /\ ~ In 47 f /\ piece_is_dotdot f = false.
Proof.
  intros H. destruct (plain_name_inv f H) as [Hne [Hb [H47 [_ [Hd [Hdd [Hs Hdl]]]]]]].
  pose proof (enc_chars_ok f Hb) as Hch.
  split; [unfold name_reference; apply pe_display_is_encode; exact Hb|].
  split.
  - constructor.
    + apply enc_nonempty. exact Hne.
    + eapply Forall_impl; [|exact Hch]. cbv beta. tauto.
    + rewrite utf8_encode_ascii by (eapply Forall_impl; [|exact Hch]; cbv beta; tauto).
      rewrite pe_display_is_encode.
      * apply encode_id_iff. eapply Forall_impl; [|exact Hch]. cbv beta. tauto.
      * eapply Forall_impl; [|exact Hch]. cbv beta. unfold is_byte. intros a Ha. lia.
    + apply parse_scheme_enc; assumption.
    + apply wdl_segment_enc; assumption.
    + apply double_dot_enc; assumption.
    + apply single_dot_enc; assumption.
    + apply is_wdl_enc; assumption.
  - split; [apply decode_enc; exact Hb|].
    split; [|split; [exact H47 | exact Hdd]].
    unfold keep_piece. rewrite Hd. destruct f; [congruence | reflexivity].
Qed.

Section Plain.
Variable dbg : bool.
Variable host_parse : list N -> result host.
Variable host_parse_opaque : list N -> result host.
Variable host_display : host -> list N.

Theorem dir_join_plain p f :
  bytes p -> path_is_absolute p = true -> plain_name f = true ->
  exists d u q,
    from_directory_path p = FOk d
    /\ url_join dbg host_parse host_parse_opaque host_display d (name_reference f) = POk u
    /\ to_file_path dbg u = FOk q
    /\ path_components q = path_components p ++ [CNormal f]
    /\ path_eq q (path_join p f) = true
    /\ dir_join_to_path dbg host_parse host_parse_opaque host_display p (name_reference f) = FOk q.
Proof.
  intros Hb Ha Hp.
  destruct (plain_name_ref f Hp) as [Href [Hok [Hdec [Hk [Hn Hdd]]]]].
  destruct (plain_name_inv f Hp) as [Hne _].
  destruct (dir_join_generic dbg host_parse host_parse_opaque host_display p (enc f) f Hb Ha Hok Hdec Hk Hn Hdd)
    as [d [u [q [H1 [H2 [_ [_ [H4 H5]]]]]]]].
  exists d, u, q. rewrite Href.
  split; [exact H1|]. split; [exact H2|]. split; [exact H4|]. split; [exact H5|].
  split.
  - unfold path_eq. rewrite H5. rewrite (components_path_join p f Ha Hne Hn Hk Hdd). apply components_eqb_refl.
  - unfold dir_join_to_path. rewrite H1, H2. exact H4.
Qed.
End Plain.
