(* Proofs/C08_RelAuth.v - the make_relative inverse law for the classes where C02 proved the canonical form
   of EVERY parse result with authority: non-special "scheme://..." (C02_L1_auth) and the special non-file
   schemes (C02_L1_special), and then for ALL parse results of non-file schemes (C02's four forms).
   Both records in C02's form auth_url.  Inside MR_ok the texts in front of the path agree; the scheme is read
   off that text, the other stored values (username_end, host_start, host_end, host kind, port) are NOT read off
   it: instead the target's path, query and fragment are put behind the BASE's front - a canonical record with
   the target's serialization, hence (both being fixpoints of re-parsing, C02's L3) the target itself.  The two
   records are then hier_url's with one front and C08_RelLaw applies. *)
From RU Require Import Base.Prelude Base.Utf8 Base.Utf8Facts Model.AsciiSet Gen.Tables Model.PercentEncoding
  Model.HostT Model.UrlRecord Model.Parser Model.Setters Model.WF Model.MakeRelative Model.KnownC08
  Proofs.ListN Proofs.C14_Enc Proofs.C02_Enc Proofs.C02_Parts Proofs.C02_Opaque Proofs.C02_Path Proofs.C02_PathL1
  Proofs.C02_Reach Proofs.C02_AuthParts Proofs.C02_Auth Proofs.C02_AuthWf Proofs.C02_PathSp Proofs.C02_AuthSp
  Proofs.C02_AuthMain
  Proofs.C08_Input Proofs.C08_Simple Proofs.C08_Contain Proofs.C08_RelEval Proofs.C08_RelPath Proofs.C08_RelJoin
  Proofs.C08_RelMr Proofs.C08_RelLaw Proofs.C08_RelCanon Proofs.C08_RelNoAuth Proofs.C08_Absolute Proofs.C08_AbsNonfile.

(* ---------- what MR_ok says about any two records ---------- *)
Lemma mr_ok_cbb b t : mr_ok b t = true -> cannot_be_a_base b = Some false /\ cannot_be_a_base t = Some false.
Proof.
  unfold mr_ok, mr_class. intros H.
  destruct (cannot_be_a_base b) as [[|]|]; try (exfalso; lia).
  destruct (cannot_be_a_base t) as [[|]|]; try (exfalso; lia). split; reflexivity.
Qed.

Lemma mr_ok_paths b t : mr_ok b t = true ->
  exists pb pt, path b = Some pb /\ path t = Some pt /\ starts_with [47] pb = true /\ starts_with [47] pt = true.
Proof.
  unfold mr_ok, mr_class. intros H.
  destruct (cannot_be_a_base b) as [[|]|]; try (exfalso; lia).
  destruct (cannot_be_a_base t) as [[|]|]; try (exfalso; lia).
  destruct (path b) as [pb|]; [|exfalso; lia]. destruct (path t) as [pt|]; [|exfalso; lia].
  destruct (negb (list_eqb (nfirstn (path_start b) (ser b)) (nfirstn (path_start t) (ser t)))); [exfalso; lia|].
  destruct (starts_with [47] pb && starts_with [47] pt) eqn:E; [|exfalso; cbn [negb] in H; lia].
  apply andb_true_iff in E. exists pb, pt. tauto.
Qed.

(* ---------- special segments ---------- *)
Lemma seg_ok_special s : good_seg_sp s = true -> seg_ok STSpecialNotFile s = true.
Proof.
  unfold good_seg_sp, seg_ok. intros H. apply andb_true_iff in H. destruct H as [H1 H2]. rewrite H1. cbn [andb].
  unfold no_byte in H2. apply (forallb_impl (fun c => negb (c =? 92))); [|exact H2].
  intros c Hc. unfold no_spec_bslash. cbn [st_is_special]. rewrite andb_true_r. exact Hc.
Qed.

Lemma segs_ok_special segs : forallb good_seg_sp segs = true -> forallb (seg_ok STSpecialNotFile) segs = true.
Proof. apply forallb_impl. exact seg_ok_special. Qed.

Section RelAuth.
Variables (dbg : bool) (hp hpo : list N -> result host) (hd : host -> list N).
Hypothesis HRT : HostRT hp hpo hd.

(* ---------- C02's record with authority as a hier_url ---------- *)
Lemma auth_is_hier sch ui h pt segs last q f :
  auth_url hd sch ui h pt (Some (segs, last)) q f
  = hier_url (auth_front hd sch ui h pt) (nlen sch) (nlen sch + 3 + ui_ulen ui) (nlen sch + 3 + nlen (ui_text ui))
             (nlen sch + 3 + nlen (ui_text ui) + nlen (hd h)) (hi_of_host h) pt segs last q f.
Proof. reflexivity. Qed.

Lemma auth_u_pre sch ui h pt p q f : u_pre (auth_url hd sch ui h pt p q f) = auth_front hd sch ui h pt.
Proof. unfold u_pre, auth_url, auth_ser, auth_pre. cbn [path_start ser]. rewrite <- app_assoc. apply nfirstn_app_len. Qed.

Lemma auth_none_path sch ui h pt q f : path (auth_url hd sch ui h pt None q f) = Some [].
Proof.
  unfold path, auth_url, auth_ser, auth_pre, u_slice, u_slice_from. cbn [query_start fragment_start ser path_start pth_text].
  rewrite app_nil_r. set (F := auth_front hd sch ui h pt).
  assert (slice_o (F ++ qf_text q f) (nlen F) (nlen F) = Some []) as Hs.
  { rewrite slice_o_some by (rewrite ?nlen_app; lia). rewrite N.sub_diag. reflexivity. }
  destruct q as [x|]; destruct f as [y|]; cbn [qf_qs qf_fs qf_qtext].
  - exact Hs.
  - exact Hs.
  - change (nlen []) with 0. rewrite N.add_0_r. exact Hs.
  - unfold qf_text. cbn [qf_qtext qf_ftext app]. rewrite app_nil_r.
    rewrite slice_from_o_some by lia. rewrite <- (app_nil_r F) at 2. rewrite nskipn_app_len. reflexivity.
Qed.

Lemma auth_path sch ui h pt p q f : path (auth_url hd sch ui h pt p q f) = Some (pth_text p).
Proof. destruct p as [[segs last]|]; [rewrite auth_is_hier; apply hier_path | apply auth_none_path]. Qed.

(* the scheme is read off the text in front of the path *)
Lemma front_scheme sch ui h pt sch' X : scheme_canon sch = true -> scheme_canon sch' = true ->
  auth_front hd sch ui h pt = sch' ++ 58 :: X -> sch' = sch /\ X = 47 :: 47 :: ui_text ui ++ hd h ++ port_text pt.
Proof.
  intros Hs Hs' E. unfold auth_front in E. rewrite <- !app_assoc in E. cbn [app] in E.
  apply (f_equal (parse_scheme CUrlParser)) in E. rewrite !parse_scheme_canon in E by assumption.
  inversion E. split; reflexivity.
Qed.

(* C02's L3 for both scheme types with authority *)
Lemma reparse_form st sch ui h pt p q f : st_is_file st = false ->
  auth_ok hp hpo hd st sch ui h pt p q f -> (st = STSpecialNotFile -> pth_ok_sp p) ->
  parse_url dbg hp hpo hd None None (auth_ser hd sch ui h pt p q f) = POk (auth_url hd sch ui h pt p q f).
Proof.
  intros Hnf K Kp. destruct st; [discriminate | |].
  - exact (reparse_special_form dbg hp hpo hd HRT sch ui h pt p q f K (Kp eq_refl)).
  - exact (reparse_auth_form dbg hp hpo hd HRT None sch ui h pt p q f K).
Qed.

(* ---------- two canonical records with authority inside MR_ok: the target IS the record with the base's front ---------- *)
Lemma auth_pair_front stb stt sch ui h pt bp bq bf sch' ui' h' pt' tp tq tf :
  st_is_file stb = false ->
  auth_ok hp hpo hd stb sch ui h pt bp bq bf ->
  auth_ok hp hpo hd stt sch' ui' h' pt' tp tq tf -> (stt = STSpecialNotFile -> pth_ok_sp tp) ->
  mr_ok (auth_url hd sch ui h pt bp bq bf) (auth_url hd sch' ui' h' pt' tp tq tf) = true ->
  exists bsegs blast tsegs tlast, bp = Some (bsegs, blast) /\ tp = Some (tsegs, tlast) /\ stt = stb
    /\ auth_url hd sch' ui' h' pt' tp tq tf = auth_url hd sch ui h pt tp tq tf
    /\ auth_ok hp hpo hd stb sch ui h pt tp tq tf.
Proof.
  intros Hnf Kb Kt Ktp Hok.
  pose proof (mr_ok_pre _ _ Hok) as Epre. rewrite !auth_u_pre in Epre.
  (* the same scheme, hence the same scheme type *)
  assert (sch' = sch) as Esch.
  { pose proof Epre as E. unfold auth_front at 2 in E. rewrite <- !app_assoc in E. cbn [app] in E.
    exact (proj1 (front_scheme sch ui h pt sch' _ (ak_sch _ _ _ _ _ _ _ _ _ _ _ Kb) (ak_sch _ _ _ _ _ _ _ _ _ _ _ Kt) E)). }
  subst sch'.
  assert (stt = stb) as Est by (rewrite <- (ak_st _ _ _ _ _ _ _ _ _ _ _ Kb), <- (ak_st _ _ _ _ _ _ _ _ _ _ _ Kt); reflexivity).
  subst stt.
  (* both paths start with '/' *)
  destruct (mr_ok_paths _ _ Hok) as (pb & pt0 & Pb & Pt & Sb & St). rewrite auth_path in Pb, Pt.
  inversion Pb; subst pb. inversion Pt; subst pt0. clear Pb Pt.
  destruct bp as [[bsegs blast]|]; [|discriminate]. destruct tp as [[tsegs tlast]|]; [|discriminate]. clear Sb St.
  exists bsegs, blast, tsegs, tlast. split; [reflexivity|]. split; [reflexivity|]. split; [reflexivity|].
  (* the target's path behind the base's front is canonical ... *)
  assert (auth_ok hp hpo hd stb sch ui h pt (Some (tsegs, tlast)) tq tf) as K'.
  { destruct Kb as [b1 b2 b3 b4 b5 b6 b7 b8 b9 b10 b11 b12]. destruct Kt as [t1 t2 t3 t4 t5 t6 t7 t8 t9 t10 t11 t12].
    unfold auth_pre in t11, t12. rewrite <- Epre in t11, t12.
    constructor; assumption. }
  split; [|exact K'].
  (* ... and has the target's serialization: it is the target *)
  pose proof (reparse_form stb sch ui h pt _ tq tf Hnf K' Ktp) as R1.
  pose proof (reparse_form stb sch ui' h' pt' _ tq tf Hnf Kt Ktp) as R2.
  assert (auth_ser hd sch ui' h' pt' (Some (tsegs, tlast)) tq tf = auth_ser hd sch ui h pt (Some (tsegs, tlast)) tq tf) as Es
    by (unfold auth_ser, auth_pre; rewrite Epre; reflexivity).
  rewrite Es, R1 in R2. congruence.
Qed.

(* ---------- the law for two canonical records with authority ---------- *)
Theorem relative_auth stb stt sch ui h pt bp bq bf sch' ui' h' pt' tp tq tf r :
  st_is_file stb = false ->
  auth_ok hp hpo hd stb sch ui h pt bp bq bf ->
  auth_ok hp hpo hd stt sch' ui' h' pt' tp tq tf -> (stt = STSpecialNotFile -> pth_ok_sp tp) ->
  mr_ok (auth_url hd sch ui h pt bp bq bf) (auth_url hd sch' ui' h' pt' tp tq tf) = true ->
  make_relative dbg (auth_url hd sch ui h pt bp bq bf) (auth_url hd sch' ui' h' pt' tp tq tf) = Some (Some r) ->
  parse_url dbg hp hpo hd None (Some (auth_url hd sch ui h pt bp bq bf)) r = POk (auth_url hd sch' ui' h' pt' tp tq tf).
Proof.
  intros Hnf Kb Kt Ktp Hok Hmr.
  destruct (auth_pair_front _ _ _ _ _ _ _ _ _ _ _ _ _ _ _ _ Hnf Kb Kt Ktp Hok)
    as (bsegs & blast & tsegs & tlast & -> & -> & -> & Et & K').
  rewrite Et in *. clear Et Kt.
  rewrite !auth_is_hier in *.
  apply relative_hier; [|exact Hok | exact Hmr].
  pose proof (front_sch hd sch ui h pt []) as Es. rewrite app_nil_r in Es.
  destruct Kb as [b1 b2 b3 b4 b5 b6 b7 b8 b9 b10 b11 b12]. destruct K' as [t1 t2 t3 t4 t5 t6 t7 t8 t9 t10 t11 t12].
  cbn [pth_ok] in b7, t7. destruct b7 as [Hbs Hbl]. destruct t7 as [Hts Htl].
  constructor; rewrite ?Es, ?b2; try assumption.
  - left. exists sch, (ui_text ui ++ hd h ++ port_text pt). split; [unfold auth_front; rewrite <- app_assoc; reflexivity | reflexivity].
  - apply good_segs_no_slash. exact Hbs.
  - destruct (good_seg_parts blast Hbl) as (_ & Hn & _). exact Hn.
  - destruct stb; [discriminate Hnf | | apply segs_ok_nonspecial; exact Hts].
    destruct (Ktp eq_refl) as [Hs _]. apply segs_ok_special. exact Hs.
  - destruct stb; [discriminate Hnf | | apply seg_ok_nonspecial; exact Htl].
    destruct (Ktp eq_refl) as [_ Hl]. apply seg_ok_special. exact Hl.
Qed.

(* ---------- records with and without authority never share the text in front of the path ---------- *)
Lemma noauth_u_pre sch T q f : u_pre (noauth_url sch T q f) = (sch ++ [58]) ++ marker_of T.
Proof.
  unfold u_pre, noauth_url, noauth_ser, noauth_pre. cbn [path_start ser]. rewrite <- nlen_app.
  replace (((sch ++ [58]) ++ marker_of T ++ T) ++ qf_text q f) with (((sch ++ [58]) ++ marker_of T) ++ T ++ qf_text q f)
    by (rewrite <- !app_assoc; reflexivity).
  apply nfirstn_app_len.
Qed.

Lemma front_mismatch sch T sch' ui h pt : scheme_canon sch = true -> scheme_canon sch' = true ->
  auth_front hd sch' ui h pt = (sch ++ [58]) ++ marker_of T -> False.
Proof.
  intros Hs Hs' E. rewrite <- app_assoc in E. cbn [app] in E.
  destruct (front_scheme sch' ui h pt sch _ Hs' Hs E) as [_ E2].
  unfold marker_of in E2. destruct (starts_with s_ss T); discriminate.
Qed.

(* ---------- the law for any two of C02's canonical forms ---------- *)
Theorem relative_forms b t r : nonfile_form hp hpo hd b -> nonfile_form hp hpo hd t ->
  mr_ok b t = true -> make_relative dbg b t = Some (Some r) ->
  parse_url dbg hp hpo hd None (Some b) r = POk t.
Proof.
  intros Fb Ft Hok Hmr. destruct (mr_ok_cbb b t Hok) as [Cb Ct]. pose proof (mr_ok_pre b t Hok) as Epre.
  destruct Fb as [schb P bq bf Kb ->|schb bsegs blast bq bf Kb ->|schb uib hb ptb bp bq bf Kb ->|schb uib hb ptb bp bq bf Kb Kbp ->].
  - rewrite (opaque_url_cbb schb P bq bf Kb) in Cb. discriminate.
  - destruct Ft as [scht P tq tf Kt ->|scht tsegs tlast tq tf Kt ->|scht uit ht ptt tp tq tf Kt ->|scht uit ht ptt tp tq tf Kt Ktp ->].
    + rewrite (opaque_url_cbb scht P tq tf Kt) in Ct. discriminate.
    + exact (relative_noauth dbg hp hpo hd schb bsegs blast bq bf scht tsegs tlast tq tf r Kb Kt Hok Hmr).
    + exfalso. rewrite noauth_u_pre, auth_u_pre in Epre. symmetry in Epre.
      exact (front_mismatch _ _ _ _ _ _ (nk_sch _ _ _ _ _ Kb) (ak_sch _ _ _ _ _ _ _ _ _ _ _ Kt) Epre).
    + exfalso. rewrite noauth_u_pre, auth_u_pre in Epre. symmetry in Epre.
      exact (front_mismatch _ _ _ _ _ _ (nk_sch _ _ _ _ _ Kb) (ak_sch _ _ _ _ _ _ _ _ _ _ _ Kt) Epre).
  - destruct Ft as [scht P tq tf Kt ->|scht tsegs tlast tq tf Kt ->|scht uit ht ptt tp tq tf Kt ->|scht uit ht ptt tp tq tf Kt Ktp ->].
    + rewrite (opaque_url_cbb scht P tq tf Kt) in Ct. discriminate.
    + exfalso. rewrite noauth_u_pre, auth_u_pre in Epre.
      exact (front_mismatch _ _ _ _ _ _ (nk_sch _ _ _ _ _ Kt) (ak_sch _ _ _ _ _ _ _ _ _ _ _ Kb) Epre).
    + apply (relative_auth STNotSpecial STNotSpecial); try assumption; [reflexivity | discriminate].
    + apply (relative_auth STNotSpecial STSpecialNotFile); try assumption; [reflexivity | intros _; exact Ktp].
  - destruct Ft as [scht P tq tf Kt ->|scht tsegs tlast tq tf Kt ->|scht uit ht ptt tp tq tf Kt ->|scht uit ht ptt tp tq tf Kt Ktp ->].
    + rewrite (opaque_url_cbb scht P tq tf Kt) in Ct. discriminate.
    + exfalso. rewrite noauth_u_pre, auth_u_pre in Epre.
      exact (front_mismatch _ _ _ _ _ _ (nk_sch _ _ _ _ _ Kt) (ak_sch _ _ _ _ _ _ _ _ _ _ _ Kb) Epre).
    + apply (relative_auth STSpecialNotFile STNotSpecial); try assumption; [reflexivity | discriminate].
    + apply (relative_auth STSpecialNotFile STSpecialNotFile); try assumption; [reflexivity | intros _; exact Ktp].
Qed.

(* ---------- ... hence for any two parse results of non-file schemes ---------- *)
Theorem relative_parsed bi ti b t r : host_above hp hpo hd -> usv_list bi -> usv_list ti ->
  nonfile_input bi = true -> nonfile_input ti = true ->
  parse_url dbg hp hpo hd None None bi = POk b -> parse_url dbg hp hpo hd None None ti = POk t ->
  mr_ok b t = true -> make_relative dbg b t = Some (Some r) ->
  parse_url dbg hp hpo hd None (Some b) r = POk t.
Proof.
  intros HAb Hub Hut Cb Ct Pb Pt Hok Hmr.
  exact (relative_forms b t r (nonfile_parse_form dbg hp hpo hd HRT bi b HAb Hub Cb Pb)
           (nonfile_parse_form dbg hp hpo hd HRT ti t HAb Hut Ct Pt) Hok Hmr).
Qed.

End RelAuth.

Theorem relative_parsed_HostOK dbg hp hpo hd bi ti b t r :
  HostOK hp hpo hd -> host_above hp hpo hd -> usv_list bi -> usv_list ti ->
  nonfile_input bi = true -> nonfile_input ti = true ->
  parse_url dbg hp hpo hd None None bi = POk b -> parse_url dbg hp hpo hd None None ti = POk t ->
  mr_ok b t = true -> make_relative dbg b t = Some (Some r) ->
  parse_url dbg hp hpo hd None (Some b) r = POk t.
Proof. intros HOK. exact (relative_parsed dbg hp hpo hd (HostOK_RT _ _ _ HOK) bi ti b t r). Qed.

(* ---------- non-vacuity (host functions ex_hp / ex_hd of C02_AuthMain.v) ---------- *)
From Coq Require Import String.
Open Scope string_scope.

(* both inputs are in the class, the pair of parse results is inside MR_ok, make_relative answers rs, and
   (what the theorem says) joining rs to the base gives the target *)
Definition ex_mr (bs ts rs : string) : bool :=
  match ex_parse bs, ex_parse ts with
  | POk b, POk t =>
      nonfile_input (B bs) && nonfile_input (B ts) && mr_ok b t
      && match make_relative true b t with
         | Some (Some r) =>
             list_eqb r (B rs)
             && match parse_url true ex_hp ex_hp ex_hd None (Some b) r with POk v => url_eqb v t | _ => false end
         | _ => false
         end
  | _, _ => false
  end.

Lemma rel_parsed_inhabited :
  ex_mr "http://u@h.x:81/a/b/c?q" "HTTP:\\u@h.x:81\a\d\.\e#f" "../d/e#f" = true
  /\ ex_mr "https://h/a/b" "https://h/a/b?x" "?x" = true
  /\ ex_mr "a://u:p@h.x:81/x/y" "a://u:p@h.x:81/x/z\w?q" "z\w?q" = true
  /\ ex_mr "a:///x/y" "a:///" "../" = true
  /\ ex_mr "a:/x/y" "a:/z" "../z" = true.
Proof. vm_compute. repeat split. Qed.

(* ---------- the same for canonical records of any origin (C02's three hierarchical forms) ---------- *)
Definition canon_hier_form (hp hpo : list N -> result host) (hd : host -> list N) (u : url) : Prop :=
  (exists sch segs last q f, noauth_ok sch segs last q f /\ u = noauth_url sch (path_text segs last) q f)
  \/ canon_auth hp hpo hd STNotSpecial u \/ canon_special hp hpo hd u.

Lemma canon_hier_nonfile hp hpo hd u : canon_hier_form hp hpo hd u -> nonfile_form hp hpo hd u.
Proof.
  intros [(sch & segs & last & q & f & K & E)|[(sch & ui & h & pt & p & q & f & K & E)|(sch & ui & h & pt & p & q & f & K & Kp & E)]].
  - exact (NF_noauth hp hpo hd u sch segs last q f K E).
  - exact (NF_auth hp hpo hd u sch ui h pt p q f K E).
  - exact (NF_special hp hpo hd u sch ui h pt p q f K Kp E).
Qed.

Theorem relative_canon_forms dbg hp hpo hd b t r : HostRT hp hpo hd ->
  canon_hier_form hp hpo hd b -> canon_hier_form hp hpo hd t ->
  mr_ok b t = true -> make_relative dbg b t = Some (Some r) ->
  parse_url dbg hp hpo hd None (Some b) r = POk t.
Proof.
  intros HRT Fb Ft. exact (relative_forms dbg hp hpo hd HRT b t r (canon_hier_nonfile _ _ _ b Fb) (canon_hier_nonfile _ _ _ t Ft)).
Qed.
