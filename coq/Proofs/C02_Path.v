(* Proofs/C02_Path.v - class (ii) of DESIGN B.5: non-special URLs without authority whose path starts
   with '/', parsed without base.  Canonical form:
     scheme ":" ["/."] "/" seg "/" ... "/" last ["?" q] ["#" f]
   every segment clean for the PATH set, without '/', and not a dot segment in any spelling; the "/."
   marker present exactly when the path starts with "//".
   L3: the path state is the identity on canonical text, and the whole form re-parses to itself. *)
From RU Require Import Base.Prelude Base.Utf8 Base.Utf8Facts Model.AsciiSet Gen.Tables
  Model.PercentEncoding Model.HostT Model.UrlRecord Model.Parser Model.WF
  Proofs.ListN Proofs.C14_Set Proofs.C14_Enc Proofs.C14_Views Proofs.C02_Enc Proofs.C02_Parts
  Proofs.C02_Opaque.

(* ---------- canonical path text ---------- *)
Definition no_slash (s : list N) : bool := forallb (fun c => negb (c =? 47)) s.
Definition good_seg (s : list N) : bool :=
  clean T_PATH s && no_slash s && negb (is_single_dot s) && negb (is_double_dot s).
Definition segs_text (segs : list (list N)) : list N := concat (map (fun s => s ++ [47]) segs).
Definition path_text (segs : list (list N)) (last : list N) : list N := 47 :: segs_text segs ++ last.

Definition seg_char (c : N) : bool := not_tnl c && negb (c =? 47) && negb (is_qh c).
Definition not_tnl_qh' (c : N) : bool := not_tnl c && negb (is_qh c).
Lemma kept_PATH_sat : kept_sat T_PATH not_tnl_qh' = true. Proof. vm_compute. reflexivity. Qed.

Lemma good_seg_parts s : good_seg s = true ->
  clean T_PATH s = true /\ no_slash s = true /\ is_single_dot s = false /\ is_double_dot s = false.
Proof.
  unfold good_seg. intros H. apply andb_true_iff in H. destruct H as [H H4].
  apply andb_true_iff in H. destruct H as [H H3]. apply andb_true_iff in H. destruct H as [H1 H2].
  apply negb_true_iff in H3, H4. tauto.
Qed.

Lemma good_seg_chars s : good_seg s = true -> forallb seg_char s = true.
Proof.
  intros H. destruct (good_seg_parts s H) as (Hc & Hs & _).
  pose proof (clean_forallb _ _ s kept_PATH_sat Hc) as Hq. unfold no_slash in Hs.
  rewrite forallb_forall in *. intros c Hin. specialize (Hq c Hin). specialize (Hs c Hin).
  unfold seg_char, not_tnl_qh' in *. apply andb_true_iff in Hq. destruct Hq as [Q1 Q2]. rewrite Q1, Hs, Q2. reflexivity.
Qed.

Lemma rest_ok_inv rest : match rest with [] => True | c :: _ => is_qh c = true /\ is_tnl c = false end ->
  rest = [] \/ exists c r, rest = c :: r /\ is_qh c = true /\ is_tnl c = false.
Proof. destruct rest as [|c r]; [left; reflexivity | intros [H1 H2]; right; exists c, r; auto]. Qed.

Lemma slice_mid a b c : slice_o (a ++ b ++ c) (nlen a) (nlen a + nlen b) = Some b.
Proof.
  rewrite slice_o_some by (rewrite ?nlen_app; lia).
  replace (nlen a + nlen b - nlen a) with (nlen b) by lia.
  rewrite nskipn_app_len, nfirstn_app_len. reflexivity.
Qed.

Section PathLoop.
Variable dbg : bool.
Variable ps : N.

Notation loop := (parse_path_loop dbg CUrlParser STNotSpecial ps).

(* ---------- one step of the loop, non-special scheme, URL parser context ---------- *)
Lemma loop_cons_plain c r ser ss pend hh : is_tnl c = false -> (c =? 47) = false -> is_qh c = false ->
  loop (c :: r) ser ss pend hh = loop r ser ss (c :: pend) hh.
Proof.
  intros Ht Hs Hq. cbn [parse_path_loop]. rewrite Ht. cbn [ctx_eqb negb st_is_special st_is_file andb].
  rewrite Hs. rewrite andb_false_r. cbn [orb]. unfold is_qh in Hq. rewrite Hq. reflexivity.
Qed.

Lemma loop_cons_tnl c r ser ss pend hh : is_tnl c = true ->
  loop (c :: r) ser ss pend hh = loop r (push_pending CUrlParser STNotSpecial ser pend) ss [] hh.
Proof. intros Ht. cbn [parse_path_loop]. rewrite Ht. reflexivity. Qed.

Lemma loop_cons_slash r ser ss pend hh :
  loop (47 :: r) ser ss pend hh
  = (' (s2, hh') <~ finish_segment dbg STNotSpecial ps (push_pending CUrlParser STNotSpecial ser pend ++ [47]) ss true hh ;;
     loop r s2 (nlen s2) [] hh').
Proof. reflexivity. Qed.

Lemma loop_end l ser ss pend hh :
  match l with [] => True | c :: _ => is_qh c = true /\ is_tnl c = false end ->
  loop l ser ss pend hh
  = (' (s2, hh') <~ finish_segment dbg STNotSpecial ps (push_pending CUrlParser STNotSpecial ser pend) ss false hh ;;
     POk (s2, hh', l)).
Proof.
  destruct l as [|c r]; [intros _; reflexivity|]. intros [Hq Ht].
  cbn [parse_path_loop]. rewrite Ht. cbn [ctx_eqb negb st_is_special st_is_file andb].
  assert ((c =? 47) = false) as Hs by (unfold is_qh in Hq; lia).
  rewrite Hs, andb_false_r. cbn [orb]. unfold is_qh in Hq. rewrite Hq. reflexivity.
Qed.

Lemma loop_pending seg : forall tail ser ss pend hh, forallb seg_char seg = true ->
  loop (seg ++ tail) ser ss pend hh = loop tail ser ss (rev seg ++ pend) hh.
Proof.
  induction seg as [|c s IH]; intros tail ser ss pend hh H; [reflexivity|].
  cbn [forallb] in H. apply andb_true_iff in H. destruct H as [Hc Hs].
  unfold seg_char, not_tnl in Hc. apply andb_true_iff in Hc. destruct Hc as [Hc H3].
  apply andb_true_iff in Hc. destruct Hc as [H1 H2].
  apply negb_true_iff in H1, H2, H3.
  cbn [app]. rewrite loop_cons_plain by assumption. rewrite IH by exact Hs.
  cbn [rev]. rewrite <- app_assoc. reflexivity.
Qed.

Lemma push_pending_eq st ser pend : usv_list pend ->
  push_pending CUrlParser st ser pend = ser ++ encode T_PATH (utf8_encode (rev pend)).
Proof.
  intros H. unfold push_pending. destruct pend as [|x y]; [cbn; rewrite app_nil_r; reflexivity|].
  unfold path_set. cbn [ctx_eqb]. apply push_encoded_eq. apply usv_rev. exact H.
Qed.

Lemma push_pending_clean st ser seg : clean T_PATH seg = true ->
  push_pending CUrlParser st ser (rev seg ++ []) = ser ++ seg.
Proof.
  intros H. rewrite app_nil_r.
  rewrite push_pending_eq by (apply usv_rev; apply ascii_usv; apply (clean_ascii T_PATH); exact H).
  rewrite rev_involutive. rewrite utf8_encode_ascii by (apply (clean_ascii T_PATH); exact H).
  rewrite encode_clean by exact H. reflexivity.
Qed.

Lemma finish_plain ser ss (ews : bool) hh seg :
  slice_o ser ss (if ews then nlen ser - 1 else nlen ser) = Some seg ->
  is_double_dot seg = false -> is_single_dot seg = false ->
  finish_segment dbg STNotSpecial ps ser ss ews hh = POk (ser, hh).
Proof.
  intros Hs Hd Hsd. unfold finish_segment. rewrite Hs. cbn [of_option pbind]. rewrite Hd, Hsd.
  cbn [st_is_file andb]. reflexivity.
Qed.

(* ---------- L3 for the path state: canonical text is pushed unchanged ---------- *)
Theorem path_loop_canon segs : forall last rest ser hh,
  forallb good_seg segs = true -> good_seg last = true ->
  match rest with [] => True | c :: _ => is_qh c = true /\ is_tnl c = false end ->
  loop (segs_text segs ++ last ++ rest) ser (nlen ser) [] hh = POk (ser ++ segs_text segs ++ last, hh, rest).
Proof.
  induction segs as [|seg segs IH]; intros last rest ser hh Hsegs Hlast Hrest.
  - cbn [segs_text map concat app].
    destruct (good_seg_parts last Hlast) as (Hc & _ & Hsd & Hdd).
    rewrite loop_pending by (apply good_seg_chars; exact Hlast).
    rewrite loop_end by exact Hrest.
    rewrite push_pending_clean by exact Hc.
    rewrite (finish_plain (ser ++ last) (nlen ser) false hh last); [reflexivity | | exact Hdd | exact Hsd].
    rewrite <- (app_nil_r (ser ++ last)) at 1. rewrite <- app_assoc. rewrite nlen_app. apply slice_mid.
  - cbn [forallb] in Hsegs. apply andb_true_iff in Hsegs. destruct Hsegs as [Hseg Hsegs].
    destruct (good_seg_parts seg Hseg) as (Hc & _ & Hsd & Hdd).
    unfold segs_text. cbn [map concat]. fold (segs_text segs). rewrite <- !app_assoc. cbn [app].
    rewrite loop_pending by (apply good_seg_chars; exact Hseg).
    rewrite loop_cons_slash. rewrite push_pending_clean by exact Hc.
    rewrite (finish_plain ((ser ++ seg) ++ [47]) (nlen ser) true hh seg); [| | exact Hdd | exact Hsd].
    + cbn [pbind]. rewrite IH by assumption. rewrite <- !app_assoc. reflexivity.
    + rewrite <- app_assoc. rewrite !nlen_app.
      replace (nlen ser + (nlen seg + nlen [47]) - 1) with (nlen ser + nlen seg) by (unfold nlen; cbn [length]; lia).
      apply slice_mid.
Qed.

End PathLoop.

(* ---------- the canonical form of the class ---------- *)
Definition marker_of (T : list N) : list N := if starts_with s_ss T then [47; 46] else [].
Definition noauth_pre (sch T : list N) : list N := (sch ++ [58]) ++ marker_of T ++ T.
Definition noauth_ser (sch T : list N) (q f : option (list N)) : list N := noauth_pre sch T ++ qf_text q f.
Definition noauth_url (sch T : list N) (q f : option (list N)) : url :=
  let a := nlen (sch ++ [58]) in
  mkUrl (noauth_ser sch T q f) (nlen sch) a a a HI_None None (a + nlen (marker_of T))
        (qf_qs (nlen (noauth_pre sch T)) q) (qf_fs (nlen (noauth_pre sch T)) q f).

Record noauth_ok (sch : list N) (segs : list (list N)) (last : list N) (q f : option (list N)) : Prop := mk_noauth_ok {
  nk_sch : scheme_canon sch = true;
  nk_ns : scheme_type_of sch = STNotSpecial;
  nk_segs : forallb good_seg segs = true;
  nk_last : good_seg last = true;
  nk_q : opt_clean T_QUERY q;
  nk_f : opt_clean T_FRAGMENT f;
  nk_b1 : nlen (sch ++ [58]) <= U32_MAX_P;
  nk_bq : opt_le (qf_qs (nlen (noauth_pre sch (path_text segs last))) q) U32_MAX_P;
  nk_bf : opt_le (qf_fs (nlen (noauth_pre sch (path_text segs last))) q f) U32_MAX_P
}.

Lemma inp_split_prefix_str_ss_cons c r : is_tnl c = false -> (c =? 47) = false ->
  inp_split_prefix_str s_ss (c :: r) = None.
Proof. intros Ht H. unfold s_ss. cbn [inp_split_prefix_str]. rewrite inp_next_cons by exact Ht. rewrite H. reflexivity. Qed.

Section NoAuth.
Variable dbg : bool.
Variable hp hpo : list N -> result host.
Variable hd : host -> list N.
Variable ovr : option (list N -> list N).

(* the tail of the non-special branch once the path state has produced  pre ++ T *)
Lemma wqf_noauth_eq sch T rest : starts_with [47] T = true ->
  let a := nlen (sch ++ [58]) in
  with_query_and_fragment ovr CUrlParser STNotSpecial (nlen sch) a a a HI_None None a ((sch ++ [58]) ++ T) rest
  = (' (s2, qs, fs) <~ parse_query_and_fragment ovr CUrlParser STNotSpecial (nlen sch) (noauth_pre sch T) rest ;;
     POk (mkUrl s2 (nlen sch) a a a HI_None None (a + nlen (marker_of T)) qs fs)).
Proof.
  intros HT a. unfold with_query_and_fragment.
  assert (a =? nlen sch + 1 = true) as E1 by (unfold a; rewrite nlen_app; unfold nlen; cbn [length]; lia).
  rewrite E1. unfold a. rewrite nskipn_app_len, nfirstn_app_len.
  destruct T as [|t0 T']; [discriminate|]. cbn [starts_with] in HT. rewrite andb_true_r in HT.
  apply N.eqb_eq in HT. subst t0.
  unfold noauth_pre, marker_of.
  destruct (starts_with s_ss (47 :: T')) eqn:Ess.
  - assert (starts_with s_css (nskipn (nlen sch) ((sch ++ [58]) ++ [47; 46] ++ 47 :: T')) = false) as E2.
    { rewrite <- !app_assoc. rewrite nskipn_app_len. reflexivity. }
    rewrite E2. cbn [negb passert pbind]. unfold nlen at 8. cbn [length].
    replace (nlen (sch ++ [58]) + N.of_nat 2) with (nlen (sch ++ [58]) + 2) by lia. reflexivity.
  - assert (starts_with s_css (nskipn (nlen sch) ((sch ++ [58]) ++ 47 :: T')) = false) as E2.
    { rewrite <- !app_assoc. rewrite nskipn_app_len. unfold s_css. cbn [app starts_with].
      replace (58 =? 58) with true by reflexivity. replace (47 =? 47) with true by reflexivity. cbn [andb].
      unfold s_ss in Ess. cbn [starts_with] in Ess.
      replace (47 =? 47) with true in Ess by reflexivity. cbn [andb] in Ess. exact Ess. }
    rewrite E2. cbn [negb passert pbind app]. rewrite N.add_0_r. reflexivity.
Qed.

Lemma wqf_noauth sch T rest s2 qs fs : starts_with [47] T = true ->
  parse_query_and_fragment ovr CUrlParser STNotSpecial (nlen sch) (noauth_pre sch T) rest = POk (s2, qs, fs) ->
  let a := nlen (sch ++ [58]) in
  with_query_and_fragment ovr CUrlParser STNotSpecial (nlen sch) a a a HI_None None a ((sch ++ [58]) ++ T) rest
  = POk (mkUrl s2 (nlen sch) a a a HI_None None (a + nlen (marker_of T)) qs fs).
Proof. intros HT Hq a. unfold a. rewrite (wqf_noauth_eq sch T rest HT). cbv zeta. rewrite Hq. reflexivity. Qed.

(* every byte of the canonical serialization is above U+0020 *)
Lemma above_not_tnl c : above_space c = true -> is_tnl c = false.
Proof. unfold above_space, is_c0_or_space, is_tnl. lia. Qed.

Lemma scheme_above sch : forallb scheme_out_char sch = true -> forallb above_space sch = true.
Proof.
  apply forallb_impl. intros c H. unfold scheme_out_char, is_lower, is_digit, above_space, is_c0_or_space in *. lia.
Qed.

Lemma good_seg_above s : good_seg s = true -> forallb above_space s = true.
Proof. intros H. destruct (good_seg_parts s H) as (Hc & _). exact (clean_forallb _ _ s kept_PATH_above Hc). Qed.

Lemma segs_text_above segs : forallb good_seg segs = true -> forallb above_space (segs_text segs) = true.
Proof.
  induction segs as [|s segs IH]; intros H; [reflexivity|].
  cbn [forallb] in H. apply andb_true_iff in H. destruct H as [H1 H2].
  unfold segs_text. cbn [map concat]. fold (segs_text segs). rewrite !forallb_app.
  rewrite (good_seg_above s H1), (IH H2). reflexivity.
Qed.

Lemma qf_text_above q f : opt_clean T_QUERY q -> opt_clean T_FRAGMENT f -> forallb above_space (qf_text q f) = true.
Proof.
  intros Hq Hf. unfold qf_text. rewrite forallb_app. apply andb_true_iff. split.
  - destruct q as [x|]; [|reflexivity]. cbn [qf_qtext forallb]. rewrite (clean_forallb _ _ x kept_QUERY_above Hq). reflexivity.
  - destruct f as [y|]; [|reflexivity]. cbn [qf_ftext forallb]. rewrite (clean_forallb _ _ y kept_FRAGMENT_above Hf). reflexivity.
Qed.

Lemma all_above_edge l : forallb above_space l = true -> edge_ok l.
Proof.
  intros H. apply forallb_above in H. split.
  - destruct l as [|c r]; [exact I|]. inversion H; assumption.
  - apply Forall_rev in H. destruct (rev l) as [|c r]; [exact I|]. inversion H; assumption.
Qed.

Lemma inp_next_above l : forallb above_space l = true -> inp_next l = match l with [] => None | c :: r => Some (c, r) end.
Proof.
  destruct l as [|c r]; [reflexivity|]. cbn [forallb]. intros H. apply andb_true_iff in H. destruct H as [H _].
  apply inp_next_cons. apply above_not_tnl. exact H.
Qed.

Lemma ends_with_byte_snoc x b : ends_with_byte b (x ++ [b]) = true.
Proof. unfold ends_with_byte. rewrite rev_app_distr. cbn [rev app]. apply N.eqb_refl. Qed.

(* the "/." marker: a single-dot segment followed by '/' leaves the state unchanged *)
Lemma loop_marker ps s0 X hh : ends_with_byte 47 s0 = true ->
  parse_path_loop dbg CUrlParser STNotSpecial ps (46 :: 47 :: X) s0 (nlen s0) [] hh
  = parse_path_loop dbg CUrlParser STNotSpecial ps X s0 (nlen s0) [] hh.
Proof.
  intros He. rewrite loop_cons_plain by reflexivity. rewrite loop_cons_slash.
  change [46] with (rev [46] ++ []). rewrite push_pending_clean by reflexivity.
  unfold finish_segment.
  assert (slice_o ((s0 ++ [46]) ++ [47]) (nlen s0) (nlen ((s0 ++ [46]) ++ [47]) - 1) = Some [46]) as Hs.
  { rewrite <- app_assoc. rewrite !nlen_app.
    replace (nlen s0 + (nlen [46] + nlen [47]) - 1) with (nlen s0 + nlen [46]) by (unfold nlen; cbn [length]; lia).
    apply slice_mid. }
  rewrite Hs. cbn [of_option pbind is_double_dot is_single_dot].
  unfold truncate. rewrite <- app_assoc. rewrite nfirstn_app_len. rewrite He. cbn [pbind]. reflexivity.
Qed.

(* L3 for the class *)
Theorem reparse_noauth_form sch segs last q f : noauth_ok sch segs last q f ->
  parse_url dbg hp hpo hd ovr None (noauth_ser sch (path_text segs last) q f)
  = POk (noauth_url sch (path_text segs last) q f).
Proof.
  intros K. destruct K. set (T := path_text segs last) in *.
  assert (match qf_text q f with [] => True | c :: _ => is_qh c = true /\ is_tnl c = false end) as Hqf.
  { unfold qf_text. destruct q; destruct f; cbn; auto. }
  pose proof nk_sch0 as Hsc. unfold scheme_canon in Hsc. apply andb_true_iff in Hsc. destruct Hsc as [_ Hall].
  set (body := segs_text segs ++ last).
  assert (forallb above_space body = true) as Hbody.
  { unfold body. rewrite forallb_app, (segs_text_above segs nk_segs0), (good_seg_above last nk_last0). reflexivity. }
  assert (T = 47 :: body) as ET by reflexivity.
  assert (forallb above_space (marker_of T ++ T ++ qf_text q f) = true) as Hrest.
  { rewrite !forallb_app. rewrite (qf_text_above q f nk_q0 nk_f0). rewrite ET. cbn [forallb]. rewrite Hbody.
    unfold marker_of. destruct (starts_with s_ss (47 :: body)); reflexivity. }
  assert (edge_ok (noauth_ser sch T q f)) as He.
  { apply all_above_edge. unfold noauth_ser, noauth_pre. rewrite <- !app_assoc. rewrite forallb_app.
    rewrite (scheme_above sch Hall). cbn [andb]. cbn [app forallb]. exact Hrest. }
  unfold parse_url. rewrite trim_c0_id by exact He.
  unfold noauth_ser, noauth_pre. rewrite <- !app_assoc. cbn [app].
  rewrite parse_scheme_canon by exact nk_sch0.
  unfold parse_with_scheme. rewrite nk_ns0.
  assert (nlen sch <= U32_MAX_P) as Hb0 by (rewrite nlen_app in nk_b2; lia).
  rewrite to_u32_ok by exact Hb0. cbn [pbind].
  unfold parse_non_special.
  (* the common tail: once the path state has produced (sch ++ [58]) ++ T *)
  assert (forall hh, parse_path_loop dbg CUrlParser STNotSpecial (nlen (sch ++ [58])) (body ++ qf_text q f)
                     ((sch ++ [58]) ++ [47]) (nlen ((sch ++ [58]) ++ [47])) [] hh
                     = POk ((sch ++ [58]) ++ T, hh, qf_text q f)) as Hloop.
  { intros hh. unfold body. rewrite <- app_assoc. rewrite path_loop_canon by assumption.
    rewrite ET. unfold body. rewrite <- !app_assoc. reflexivity. }
  assert (parse_query_and_fragment ovr CUrlParser STNotSpecial (nlen sch) (noauth_pre sch T) (qf_text q f)
          = POk (noauth_pre sch T ++ qf_text q f, qf_qs (nlen (noauth_pre sch T)) q, qf_fs (nlen (noauth_pre sch T)) q f)) as Hpqf.
  { apply pqf_canon; try assumption.
    unfold noauth_pre. rewrite <- !app_assoc. rewrite nfirstn_app_len. apply query_enc_nonspecial. exact nk_ns0. }
  assert (starts_with [47] T = true) as HT1 by (rewrite ET; reflexivity).
  pose proof (wqf_noauth sch T (qf_text q f) _ _ _ HT1 Hpqf) as Hw. cbv zeta in Hw.
  unfold marker_of in *. rewrite ET in *.
  destruct (starts_with s_ss (47 :: body)) eqn:Ess.
  - (* with marker: input "/." "/" body ... *)
    assert (exists b', body = 47 :: b') as [b' Eb].
    { unfold s_ss in Ess. cbn [starts_with] in Ess. destruct body as [|b0 b']; [discriminate|].
      apply andb_true_iff in Ess. destruct Ess as [_ Ess]. apply andb_true_iff in Ess. destruct Ess as [Ess _].
      apply N.eqb_eq in Ess. subst b0. exists b'. reflexivity. }
    cbn [app].
    unfold s_ss. cbn [inp_split_prefix_str].
    rewrite inp_next_cons by reflexivity. replace (47 =? 47) with true by reflexivity.
    rewrite inp_next_cons by reflexivity. replace (46 =? 47) with false by reflexivity.
    rewrite to_u32_ok by exact nk_b2. cbn [pbind].
    unfold inp_split_prefix_char. rewrite inp_next_cons by reflexivity. replace (47 =? 47) with true by reflexivity.
    unfold parse_path. rewrite Eb. cbn [app]. rewrite loop_marker by apply ends_with_byte_snoc.
    change (47 :: b' ++ qf_text q f) with ((47 :: b') ++ qf_text q f). rewrite <- Eb.
    rewrite Hloop. cbn [pbind]. rewrite Eb in Hw. cbn [app] in Hw. rewrite <- Eb in Hw.
    rewrite Hw. unfold noauth_url, noauth_ser, noauth_pre, marker_of. rewrite Ess. reflexivity.
  - (* no marker: input "/" body ... with body not starting with '/' *)
    cbn [app] in *. rewrite N.add_0_r in Hw.
    assert (inp_next (body ++ qf_text q f) = match body ++ qf_text q f with [] => None | c :: r => Some (c, r) end) as Hn.
    { apply inp_next_above. rewrite forallb_app, Hbody. exact (qf_text_above q f nk_q0 nk_f0). }
    assert (match body ++ qf_text q f with [] => True | c :: _ => (c =? 47) = false end) as Hh.
    { unfold s_ss in Ess. cbn [starts_with] in Ess. replace (47 =? 47) with true in Ess by reflexivity. cbn [andb] in Ess.
      destruct body as [|b0 b'].
      - cbn [app]. destruct (qf_text q f) as [|c r]; [exact I|]. destruct Hqf as [Hq _]. unfold is_qh in Hq. lia.
      - cbn [app]. rewrite andb_true_r in Ess. rewrite N.eqb_sym. exact Ess. }
    unfold s_ss. cbn [inp_split_prefix_str].
    rewrite inp_next_cons by reflexivity. replace (47 =? 47) with true by reflexivity.
    rewrite Hn.
    assert (match (match body ++ qf_text q f with [] => None | c :: r => Some (c, r) end) with
            | Some (d, r) => if d =? 47 then inp_split_prefix_str [] r else None
            | None => None end = None) as E0.
    { destruct (body ++ qf_text q f) as [|c r]; [reflexivity|]. rewrite Hh. reflexivity. }
    cbn [inp_split_prefix_str] in E0 |- *. rewrite E0.
    rewrite to_u32_ok by exact nk_b2. cbn [pbind].
    unfold inp_split_prefix_char. rewrite inp_next_cons by reflexivity. replace (47 =? 47) with true by reflexivity.
    unfold parse_path. rewrite Hloop. cbn [pbind].
    rewrite Hw. unfold noauth_url, noauth_ser, noauth_pre, marker_of. rewrite Ess. cbn [app]. rewrite N.add_0_r. reflexivity.
Qed.

End NoAuth.
