(* Proofs/C03_Reach.v - the reachability half of C03 for the parser: every record that Parser::parse_url
   returns satisfies the structural invariant wf_b (Model/WF.v) whenever the file scheme is not involved -
   with or without a base (relative references of every kind: empty, "?q", "#f", "//authority", "/path",
   "path", "http:path" against a base of the same special scheme), for every input (no scalar-value
   condition), every query encoding override, both build configurations.  Hypotheses: the base satisfies
   base_ok (wf_b, and a special base is not cannot-be-a-base: C04_ParseTotal), and the host functions satisfy
   HostWf (C03_ReachParts: a non-empty host is displayed as a non-empty text that does not start with ':' and
   does not end with '/'; the empty host as nothing). *)
From RU Require Import Base.Prelude Base.Utf8 Model.AsciiSet Gen.Tables Model.PercentEncoding
  Model.HostT Model.UrlRecord Model.Parser Model.WF
  Proofs.ListN Proofs.C06_List Proofs.C02_Parts Proofs.C02_Opaque Proofs.C03_WF Proofs.C06_WFI Proofs.C06_Tail
  Proofs.C06_Steps Proofs.C06_FragQuery Proofs.C06_PathParser
  Proofs.C04_Parse Proofs.C04_PathTotal Proofs.C04_ParseTotal Proofs.C03_ReachParts.

Ltac urec :=
  cbn [ser scheme_end username_end host_start host_end hosti port path_start query_start fragment_start] in *.

(* ---------- small list facts ---------- *)
Lemma ss_of_bytes s i : nnth s i = Some 47 -> nnth s (i + 1) = Some 47 -> starts_with s_ss (nskipn i s) = true.
Proof.
  intros H1 H2. rewrite (nskipn_cons_of_nnth _ _ _ H1), (nskipn_cons_of_nnth _ _ _ H2). reflexivity.
Qed.

Lemma three_bytes s i a b c : nnth s i = Some a -> nnth s (i + 1) = Some b -> nnth s (i + 2) = Some c ->
  nfirstn 3 (nskipn i s) = [a; b; c].
Proof.
  intros H1 H2 H3. rewrite (nskipn_cons_of_nnth _ _ _ H1), (nskipn_cons_of_nnth _ _ _ H2).
  replace (i + 2) with (i + 1 + 1) in H3 by lia. rewrite (nskipn_cons_of_nnth _ _ _ H3). reflexivity.
Qed.

Lemma nfirstn3_bytes s i a b c : nfirstn 3 (nskipn i s) = [a; b; c] ->
  nnth s i = Some a /\ nnth s (i + 1) = Some b /\ nnth s (i + 2) = Some c.
Proof.
  intros H. pose proof (nnth_nskipn s i 0) as E0. pose proof (nnth_nskipn s i 1) as E1. pose proof (nnth_nskipn s i 2) as E2.
  rewrite N.add_0_r in E0. rewrite <- E0, <- E1, <- E2.
  destruct (nskipn i s) as [|x [|y [|z t]]]; try discriminate. inversion H; subst. repeat split.
Qed.

Lemma byte_eqb_oob l i c : nlen l <= i -> byte_eqb l i c = false.
Proof.
  intros H. destruct (byte_eqb l i c) eqn:E; [|reflexivity]. apply byte_eqb_lt in E. lia.
Qed.

Lemma ends_with_byte_app b a t : t <> [] -> ends_with_byte b (a ++ t) = ends_with_byte b t.
Proof.
  intros Ht. unfold ends_with_byte. rewrite rev_app_distr. destruct (rev t) as [|x r] eqn:E; [|reflexivity].
  exfalso. apply Ht. rewrite <- (rev_involutive t), E. reflexivity.
Qed.

(* ---------- A. a record without query and fragment ---------- *)
Lemma mid_wf v : query_start v = None -> fragment_start v = None ->
  scheme_ok v -> path_start v <= nlen (ser v) -> forallb no_qh (nskipn (path_start v) (ser v)) = true ->
  (if has_authority_b v
   then auth_ok v /\ (path_start v = nlen (ser v) \/ nnth (ser v) (path_start v) = Some 47)
   else noauth_ok v) ->
  wf_b v = true.
Proof.
  intros Eq Ef S L Q A. apply wf_b_iff. split; [exact S|]. split.
  - destruct (has_authority_b v); [|exact A]. destruct A as [A P]. split; [exact A|].
    destruct P as [P|P]; [left; exact P | right; left; apply byte_eqb_true_iff; exact P].
  - unfold qf_ok, path_end. rewrite Eq, Ef. repeat split.
    rewrite nfirstn_all by (rewrite nlen_nskipn; lia). exact Q.
Qed.

(* ---------- B. the query / fragment states append to a well-formed record ---------- *)
Lemma pqf_wf ovr st se w rem s2 qs fs : wf_b w = true -> query_start w = None -> fragment_start w = None ->
  parse_query_and_fragment ovr CUrlParser st se (ser w) rem = POk (s2, qs, fs) ->
  wf_b (mkUrl s2 (scheme_end w) (username_end w) (host_start w) (host_end w) (hosti w) (port w) (path_start w) qs fs) = true.
Proof.
  intros W Eq Ef H. destruct (pqf_shape _ _ _ _ _ _ _ _ H) as (q & f & -> & -> & -> & Hq).
  set (u' := mkUrl _ _ _ _ _ _ _ _ _ _).
  pose proof (path_start_le_len w W) as L.
  assert (forallb no_qh (nskipn (path_start w) (ser w)) = true) as HP.
  { pose proof (qf_facts_of w W) as (_ & _ & _ & Q4 & _). unfold path_end in Q4. rewrite Eq, Ef in Q4.
    rewrite nfirstn_all in Q4 by (rewrite nlen_nskipn; lia). exact Q4. }
  assert (qf_ok u') as QF.
  { apply wf_qf_iff. apply (wf_qf_shape (nfirstn (path_start w) (ser w)) (nskipn (path_start w) (ser w)) q f).
    - subst u'. urec. rewrite nfirstn_nskipn. reflexivity.
    - subst u'. urec. symmetry. apply nlen_nfirstn. exact L.
    - subst u'. urec. rewrite nfirstn_nskipn. reflexivity.
    - subst u'. urec. rewrite nfirstn_nskipn. reflexivity.
    - exact HP.
    - exact Hq. }
  apply (tail_wf w u' (nlen (ser w))); try assumption.
  - repeat split.
  - subst u'. urec. apply agree_pre_app_r.
  - intros E1 E3. assert (has_authority_b w = false) as Ha.
    { destruct (has_authority_b w) eqn:Ha; [|reflexivity]. pose proof (wf_auth_facts w W Ha) as F. pose proof (af_ue F). lia. }
    pose proof (wf_marker_in_path w W Ha E3) as M. unfold path_end in M. rewrite Eq, Ef in M. exact M.
  - lia.
  - subst u'. urec. rewrite nlen_app. lia.
  - subst u'. urec. unfold qf_text. destruct q as [x|]; cbn [qf_qtext].
    + right. left. cbn [app]. apply byte_eqb_app.
    + destruct f as [y|]; cbn [qf_ftext app].
      * right. right. apply byte_eqb_app.
      * left. rewrite app_nil_r. reflexivity.
Qed.

(* ---------- C. with_query_and_fragment ---------- *)
(* what the states in front of it establish: scheme, the text in front of the path laid out either as an
   authority or as "scheme:" / "scheme:/." , and a path free of '?' / '#' *)
Definition front_ok (v : url) : Prop :=
  scheme_ok v /\ path_start v <= nlen (ser v) /\ forallb no_qh (nskipn (path_start v) (ser v)) = true
  /\ ((has_authority_b v = true /\ auth_ok v
       /\ (path_start v = nlen (ser v) \/ nnth (ser v) (path_start v) = Some 47))
      \/ (username_end v = scheme_end v + 1 /\ host_start v = scheme_end v + 1 /\ host_end v = scheme_end v + 1
          /\ hosti v = HI_None /\ port v = None
          /\ (path_start v = scheme_end v + 1
              \/ (path_start v = scheme_end v + 3 /\ nnth (ser v) (scheme_end v + 1) = Some 47
                  /\ nnth (ser v) (scheme_end v + 2) = Some 46)))).

Lemma front_noauth_wf s se ps : 1 <= se ->
  scheme_ok (mkUrl s se (se + 1) (se + 1) (se + 1) HI_None None ps None None) ->
  ps <= nlen s -> forallb no_qh (nskipn ps s) = true ->
  starts_with s_css (nskipn se s) = false ->
  (ps = se + 1 \/ (ps = se + 3 /\ nnth s (se + 1) = Some 47 /\ nnth s (se + 2) = Some 46
                   /\ starts_with s_ss (nskipn ps s) = true)) ->
  wf_b (mkUrl s se (se + 1) (se + 1) (se + 1) HI_None None ps None None) = true.
Proof.
  intros Hse S L Q Ha P. apply mid_wf; try reflexivity; try assumption.
  unfold has_authority_b. urec. rewrite Ha. unfold noauth_ok. urec.
  repeat split; try assumption.
  destruct P as [P|(P1 & P2 & P3 & P4)]; [left; exact P|]. right.
  repeat split; try assumption; apply byte_eqb_true_iff; assumption.
Qed.

Theorem wqf_wf ovr st v rem u : front_ok v -> query_start v = None -> fragment_start v = None ->
  with_query_and_fragment ovr CUrlParser st (scheme_end v) (username_end v) (host_start v) (host_end v)
    (hosti v) (port v) (path_start v) (ser v) rem = POk u ->
  wf_b u = true.
Proof.
  destruct v as [s se ue hs he hi pt ps qs0 fs0]. urec. intros (S & L & Q & F) -> ->.
  pose proof S as (S1 & (c0 & Sc & Sa) & S3 & S4). urec. apply byte_eqb_nnth in S4.
  unfold with_query_and_fragment.
  (* the last step, for a well-formed record w in front of the query *)
  assert (forall w, wf_b w = true -> query_start w = None -> fragment_start w = None ->
            scheme_end w = se -> username_end w = ue -> host_start w = hs -> host_end w = he -> hosti w = hi ->
            port w = pt ->
            (' (ser2, qs, fs) <~ parse_query_and_fragment ovr CUrlParser st se (ser w) rem ;;
             POk (mkUrl ser2 se ue hs he hi pt (path_start w) qs fs)) = POk u -> wf_b u = true) as Hlast.
  { intros w W Eq Ef E1 E2 E3 E4 E5 E6 H.
    destruct (parse_query_and_fragment ovr CUrlParser st se (ser w) rem) as [[[s2 qs] fs]| |] eqn:Ep; cbn [pbind] in H; try discriminate.
    inversion H; subst u. pose proof (pqf_wf _ _ _ _ _ _ _ _ W Eq Ef Ep) as R.
    rewrite E1, E2, E3, E4, E5, E6 in R. exact R. }
  destruct (ps =? se + 1) eqn:E1.
  - (* "scheme:" directly followed by the path *)
    apply N.eqb_eq in E1. subst ps.
    destruct F as [(_ & (A1 & A2 & A3 & A4 & _) & _)|(-> & -> & -> & -> & -> & _)]; [urec; lia|].
    destruct (starts_with s_ss (nskipn (se + 1) s)) eqn:Ess.
    + destruct (starts_with s_css (nskipn se (nfirstn (se + 1) s ++ [47; 46] ++ nskipn (se + 1) s))) eqn:Ea;
        cbn [negb passert pbind]; [discriminate|].
      assert (nlen (nfirstn (se + 1) s) = se + 1) as Lp by (apply nlen_nfirstn; exact L).
      intros H.
      apply (Hlast (mkUrl (nfirstn (se + 1) s ++ [47; 46] ++ nskipn (se + 1) s) se (se + 1) (se + 1) (se + 1) HI_None None (se + 1 + 2) None None));
        try reflexivity; [|exact H].
      apply front_noauth_wf; try assumption.
      * apply (scheme_ok_pre (se + 1) (mkUrl s se (se + 1) (se + 1) (se + 1) HI_None None (se + 1) None None));
          [urec; apply agree_pre_nfirstn; exact L | urec; lia | reflexivity | exact S].
      * rewrite !nlen_app, Lp, nlen_nskipn. change (nlen [47; 46]) with 2. lia.
      * replace (se + 1 + 2) with (nlen (nfirstn (se + 1) s ++ [47; 46])) by (rewrite nlen_app, Lp; reflexivity).
        rewrite app_assoc. rewrite nskipn_app_len. exact Q.
      * right. split; [lia|].
        split; [rewrite nnth_app_ge by lia; rewrite Lp; replace (se + 1 - (se + 1)) with 0 by lia; reflexivity|].
        split; [rewrite nnth_app_ge by lia; rewrite Lp; replace (se + 2 - (se + 1)) with 1 by lia; reflexivity|].
        replace (se + 1 + 2) with (nlen (nfirstn (se + 1) s ++ [47; 46])) by (rewrite nlen_app, Lp; reflexivity).
        rewrite app_assoc. rewrite nskipn_app_len. exact Ess.
    + destruct (starts_with s_css (nskipn se s)) eqn:Ea; cbn [negb passert pbind]; [discriminate|].
      intros H.
      apply (Hlast (mkUrl s se (se + 1) (se + 1) (se + 1) HI_None None (se + 1) None None)); try reflexivity; [|exact H].
      apply front_noauth_wf; try assumption. left. reflexivity.
  - apply N.eqb_neq in E1.
    destruct ((ps =? se + 3) && list_eqb (nfirstn (ps - se) (nskipn se s)) [58; 47; 46]) eqn:E2.
    + (* "scheme:/." in front of the path *)
      apply andb_true_iff in E2. destruct E2 as [E2 E3]. apply N.eqb_eq in E2. apply list_eqb_spec in E3. subst ps.
      replace (se + 3 - se) with 3 in E3 by lia.
      pose proof (css_dot_false _ E3) as Ha. apply nfirstn3_bytes in E3. destruct E3 as (_ & B1 & B2).
      destruct F as [(Ha' & _)|(-> & -> & -> & -> & -> & _)]; [unfold has_authority_b in Ha'; urec; congruence|].
      destruct (nnth s (se + 3)) as [b|] eqn:E47; [|cbn [passert pbind]; discriminate].
      destruct (b =? 47) eqn:Eb; cbn [passert pbind]; [|discriminate]. apply N.eqb_eq in Eb. subst b.
      rewrite match47.
      destruct (match nnth s (se + 3 + 1) with Some d => d =? 47 | None => false end) eqn:Ed.
      * rewrite Ha. cbn [negb passert pbind]. intros H.
        apply (Hlast (mkUrl s se (se + 1) (se + 1) (se + 1) HI_None None (se + 3) None None)); try reflexivity; [|exact H].
        apply front_noauth_wf; try assumption. right. split; [reflexivity|]. split; [exact B1|]. split; [exact B2|].
        apply ss_of_bytes; [exact E47|]. destruct (nnth s (se + 3 + 1)) as [d|]; [|discriminate].
        apply N.eqb_eq in Ed. subst d. reflexivity.
      * destruct (starts_with s_css (nskipn se (nfirstn se s ++ [58] ++ nskipn (se + 3) s))) eqn:Ea;
          cbn [negb passert pbind]; [discriminate|].
        assert (se <= nlen s) as Ls by lia.
        assert (nlen (nfirstn se s) = se) as Lp by (apply nlen_nfirstn; exact Ls).
        intros H.
        apply (Hlast (mkUrl (nfirstn se s ++ [58] ++ nskipn (se + 3) s) se (se + 1) (se + 1) (se + 1) HI_None None (se + 3 - 2) None None));
          try reflexivity; [|exact H].
        replace (se + 3 - 2) with (se + 1) by lia.
        apply front_noauth_wf; try assumption.
        -- unfold scheme_ok. urec. split; [exact S1|]. split; [|split].
           ++ exists c0. split; [|exact Sa]. rewrite nnth_app_lt by lia. rewrite nnth_nfirstn by lia. exact Sc.
           ++ rewrite nfirstn_app_le by lia. rewrite nfirstn_nfirstn by lia. exact S3.
           ++ pose proof (byte_eqb_app (nfirstn se s) 58 (nskipn (se + 3) s)) as B. rewrite Lp in B. exact B.
        -- rewrite !nlen_app, Lp, nlen_nskipn. change (nlen [58]) with 1. lia.
        -- replace (se + 1) with (nlen (nfirstn se s ++ [58])) by (rewrite nlen_app, Lp; reflexivity).
           rewrite app_assoc. rewrite nskipn_app_len. exact Q.
        -- left. reflexivity.
    + (* everything else: the record has an authority *)
      cbn [pbind]. intros H.
      apply (Hlast (mkUrl s se ue hs he hi pt ps None None)); try reflexivity; [|exact H].
      destruct F as [(Ha & A & P)|(-> & -> & -> & -> & -> & [P|(P1 & P2 & P3)])].
      * apply mid_wf; try reflexivity; try assumption. rewrite Ha. split; assumption.
      * contradiction.
      * exfalso. subst ps. rewrite N.eqb_refl in E2. cbn [andb] in E2.
        replace (se + 3 - se) with 3 in E2 by lia. rewrite (three_bytes s se 58 47 46 S4 P2 P3) in E2. discriminate.
Qed.
