(* Proofs/C03_Reach.v - the reachability half of C03 for the parser: every record that Parser::parse_url
   returns satisfies the structural invariant wf_b (Model/WF.v) whenever the file scheme is not involved -
   with or without a base (relative references of every kind: empty, "?q", "#f", "//authority", "/path",
   "path", "http:path" against a base of the same special scheme), for every input (no scalar-value
   condition), every query encoding override, both build configurations.  Hypotheses: the base satisfies
   base_ok (wf_b, and a special base is not cannot-be-a-base: C04_ParseTotal), and the host functions satisfy
   HostWf (C03_ReachParts: a non-empty host is displayed as a non-empty text that does not start with ':' and
   does not end with '/'; the empty host as nothing). *)
From RU Require Import Base.Prelude Base.Utf8 Model.AsciiSet Gen.Tables Model.PercentEncoding
  Model.HostT Model.UrlRecord Model.Parser Model.WF
  Proofs.ListN Proofs.C06_List Proofs.C02_Parts Proofs.C02_Opaque Proofs.C03_WF Proofs.C06_WFI Proofs.C06_Tail
  Proofs.C06_Steps Proofs.C06_Suffix Proofs.C06_FragQuery Proofs.C06_PathParser
  Proofs.C04_Parse Proofs.C04_PathTotal Proofs.C04_ParseTotal Proofs.C03_ReachParts.

Ltac urec :=
  cbn [ser scheme_end username_end host_start host_end hosti port path_start query_start fragment_start] in *.

(* ---------- small list facts ---------- *)
Lemma ss_of_bytes s i : nnth s i = Some 47 -> nnth s (i + 1) = Some 47 -> starts_with s_ss (nskipn i s) = true.
Proof.
  intros H1 H2. rewrite (nskipn_cons_of_nnth _ _ _ H1), (nskipn_cons_of_nnth _ _ _ H2). reflexivity.
Qed.

Lemma three_bytes s i a b c : nnth s i = Some a -> nnth s (i + 1) = Some b -> nnth s (i + 2) = Some c ->
  nfirstn 3 (nskipn i s) = [a; b; c].
Proof.
  intros H1 H2 H3. rewrite (nskipn_cons_of_nnth _ _ _ H1), (nskipn_cons_of_nnth _ _ _ H2).
  replace (i + 2) with (i + 1 + 1) in H3 by lia. rewrite (nskipn_cons_of_nnth _ _ _ H3). reflexivity.
Qed.

Lemma nfirstn3_bytes s i a b c : nfirstn 3 (nskipn i s) = [a; b; c] ->
  nnth s i = Some a /\ nnth s (i + 1) = Some b /\ nnth s (i + 2) = Some c.
Proof.
  intros H. pose proof (nnth_nskipn s i 0) as E0. pose proof (nnth_nskipn s i 1) as E1. pose proof (nnth_nskipn s i 2) as E2.
  rewrite N.add_0_r in E0. rewrite <- E0, <- E1, <- E2.
  destruct (nskipn i s) as [|x [|y [|z t]]]; try discriminate. inversion H; subst. repeat split.
Qed.

Lemma byte_eqb_oob l i c : nlen l <= i -> byte_eqb l i c = false.
Proof.
  intros H. destruct (byte_eqb l i c) eqn:E; [|reflexivity]. apply byte_eqb_lt in E. lia.
Qed.

Lemma ends_with_byte_app b a t : t <> [] -> ends_with_byte b (a ++ t) = ends_with_byte b t.
Proof.
  intros Ht. unfold ends_with_byte. rewrite rev_app_distr. destruct (rev t) as [|x r] eqn:E; [|reflexivity].
  exfalso. apply Ht. rewrite <- (rev_involutive t), E. reflexivity.
Qed.

(* ---------- A. a record without query and fragment ---------- *)
Lemma mid_wf v : query_start v = None -> fragment_start v = None ->
  scheme_ok v -> path_start v <= nlen (ser v) -> forallb no_qh (nskipn (path_start v) (ser v)) = true ->
  (if has_authority_b v
   then auth_ok v /\ (path_start v = nlen (ser v) \/ nnth (ser v) (path_start v) = Some 47)
   else noauth_ok v) ->
  wf_b v = true.
Proof.
  intros Eq Ef S L Q A. apply wf_b_iff. split; [exact S|]. split.
  - destruct (has_authority_b v); [|exact A]. destruct A as [A P]. split; [exact A|].
    destruct P as [P|P]; [left; exact P | right; left; apply byte_eqb_true_iff; exact P].
  - unfold qf_ok, path_end. rewrite Eq, Ef. repeat split.
    rewrite nfirstn_all by (rewrite nlen_nskipn; lia). exact Q.
Qed.

(* ---------- the host text (C06's host_text_ok) lies in front of the path ---------- *)
Lemma ht_none u : hosti u = HI_None -> host_text_ok u.
Proof. intros E Hh. unfold has_host in Hh. rewrite E in Hh. discriminate. Qed.

Lemma wf_host_range u : wf_b u = true -> host_start u < host_end u -> host_end u <= path_start u.
Proof.
  intros W Hlt. destruct (has_authority_b u) eqn:Ha.
  - exact (af_ps (wf_auth_facts u W Ha)).
  - pose proof (wf_noauth_facts u W Ha) as F. pose proof (nf_hs F). pose proof (nf_he F). lia.
Qed.

Lemma ht_pre a u u' : agree_pre a (ser u) (ser u') -> host_end u <= a ->
  host_start u' = host_start u -> host_end u' = host_end u -> hosti u' = hosti u ->
  host_text_ok u -> host_text_ok u'.
Proof.
  intros Hpre Ha E3 E4 E5 HT Hh. unfold has_host in Hh. rewrite E5 in Hh. destruct (HT Hh) as (T1 & T2 & T3).
  rewrite E3, E4. split; [exact T1|]. rewrite !(pre_byte_eqb a _ _ _ _ Hpre) by lia. split; assumption.
Qed.

(* ---------- B. the query / fragment states append to a well-formed record ---------- *)
Lemma pqf_wf ovr st se w rem s2 qs fs : wf_b w = true -> query_start w = None -> fragment_start w = None ->
  parse_query_and_fragment ovr CUrlParser st se (ser w) rem = POk (s2, qs, fs) ->
  wf_b (mkUrl s2 (scheme_end w) (username_end w) (host_start w) (host_end w) (hosti w) (port w) (path_start w) qs fs) = true.
Proof.
  intros W Eq Ef H. destruct (pqf_shape _ _ _ _ _ _ _ _ H) as (q & f & -> & -> & -> & Hq).
  set (u' := mkUrl _ _ _ _ _ _ _ _ _ _).
  pose proof (path_start_le_len w W) as L.
  assert (forallb no_qh (nskipn (path_start w) (ser w)) = true) as HP.
  { pose proof (qf_facts_of w W) as (_ & _ & _ & Q4 & _). unfold path_end in Q4. rewrite Eq, Ef in Q4.
    rewrite nfirstn_all in Q4 by (rewrite nlen_nskipn; lia). exact Q4. }
  assert (qf_ok u') as QF.
  { apply wf_qf_iff. apply (wf_qf_shape (nfirstn (path_start w) (ser w)) (nskipn (path_start w) (ser w)) q f).
    - subst u'. urec. rewrite nfirstn_nskipn. reflexivity.
    - subst u'. urec. symmetry. apply nlen_nfirstn. exact L.
    - subst u'. urec. rewrite nfirstn_nskipn. reflexivity.
    - subst u'. urec. rewrite nfirstn_nskipn. reflexivity.
    - exact HP.
    - exact Hq. }
  apply (tail_wf w u' (nlen (ser w))); try assumption.
  - repeat split.
  - subst u'. urec. apply agree_pre_app_r.
  - intros E1 E3. assert (has_authority_b w = false) as Ha.
    { destruct (has_authority_b w) eqn:Ha; [|reflexivity]. pose proof (wf_auth_facts w W Ha) as F. pose proof (af_ue F). lia. }
    pose proof (wf_marker_in_path w W Ha E3) as M. unfold path_end in M. rewrite Eq, Ef in M. exact M.
  - lia.
  - subst u'. urec. rewrite nlen_app. lia.
  - subst u'. urec. unfold qf_text. destruct q as [x|]; cbn [qf_qtext].
    + right. left. cbn [app]. apply byte_eqb_app.
    + destruct f as [y|]; cbn [qf_ftext app].
      * right. right. apply byte_eqb_app.
      * left. rewrite app_nil_r. reflexivity.
Qed.

Lemma pqf_ht ovr st se w rem s2 qs fs : wf_b w = true -> host_text_ok w ->
  parse_query_and_fragment ovr CUrlParser st se (ser w) rem = POk (s2, qs, fs) ->
  host_text_ok (mkUrl s2 (scheme_end w) (username_end w) (host_start w) (host_end w) (hosti w) (port w) (path_start w) qs fs).
Proof.
  intros W HT H. destruct (pqf_shape _ _ _ _ _ _ _ _ H) as (q & f & -> & _).
  intros Hh. pose proof (HT Hh) as (T1 & _). pose proof (wf_host_range w W T1) as R. pose proof (path_start_le_len w W) as L.
  revert Hh. apply (ht_pre (nlen (ser w)) w); try reflexivity; [apply agree_pre_app_r | lia | exact HT].
Qed.

(* ---------- C. with_query_and_fragment ---------- *)
(* what the states in front of it establish: scheme, the text in front of the path laid out either as an
   authority or as "scheme:" / "scheme:/." , and a path free of '?' / '#' *)
Definition front_ok (v : url) : Prop :=
  scheme_ok v /\ path_start v <= nlen (ser v) /\ forallb no_qh (nskipn (path_start v) (ser v)) = true
  /\ host_text_ok v
  /\ ((has_authority_b v = true /\ auth_ok v
       /\ (path_start v = nlen (ser v) \/ nnth (ser v) (path_start v) = Some 47))
      \/ (username_end v = scheme_end v + 1 /\ host_start v = scheme_end v + 1 /\ host_end v = scheme_end v + 1
          /\ hosti v = HI_None /\ port v = None
          /\ (path_start v = scheme_end v + 1
              \/ (path_start v = scheme_end v + 3 /\ nnth (ser v) (scheme_end v + 1) = Some 47
                  /\ nnth (ser v) (scheme_end v + 2) = Some 46)))).

Lemma front_noauth_wf s se ps : 1 <= se ->
  scheme_ok (mkUrl s se (se + 1) (se + 1) (se + 1) HI_None None ps None None) ->
  ps <= nlen s -> forallb no_qh (nskipn ps s) = true ->
  starts_with s_css (nskipn se s) = false ->
  (ps = se + 1 \/ (ps = se + 3 /\ nnth s (se + 1) = Some 47 /\ nnth s (se + 2) = Some 46
                   /\ starts_with s_ss (nskipn ps s) = true)) ->
  wf_b (mkUrl s se (se + 1) (se + 1) (se + 1) HI_None None ps None None) = true.
Proof.
  intros Hse S L Q Ha P. apply mid_wf; try reflexivity; try assumption.
  unfold has_authority_b. urec. rewrite Ha. unfold noauth_ok. urec.
  repeat split; try assumption.
  destruct P as [P|(P1 & P2 & P3 & P4)]; [left; exact P|]. right.
  repeat split; try assumption; apply byte_eqb_true_iff; assumption.
Qed.

Theorem wqf_wf ovr st v rem u : front_ok v -> query_start v = None -> fragment_start v = None ->
  with_query_and_fragment ovr CUrlParser st (scheme_end v) (username_end v) (host_start v) (host_end v)
    (hosti v) (port v) (path_start v) (ser v) rem = POk u ->
  wf_b u = true /\ host_text_ok u.
Proof.
  destruct v as [s se ue hs he hi pt ps qs0 fs0]. urec. intros (S & L & Q & HT & F) -> ->.
  pose proof S as (S1 & (c0 & Sc & Sa) & S3 & S4). urec. apply byte_eqb_nnth in S4.
  unfold with_query_and_fragment.
  (* the last step, for a well-formed record w in front of the query *)
  assert (forall w, wf_b w = true -> host_text_ok w -> query_start w = None -> fragment_start w = None ->
            scheme_end w = se -> username_end w = ue -> host_start w = hs -> host_end w = he -> hosti w = hi ->
            port w = pt ->
            (' (ser2, qs, fs) <~ parse_query_and_fragment ovr CUrlParser st se (ser w) rem ;;
             POk (mkUrl ser2 se ue hs he hi pt (path_start w) qs fs)) = POk u -> wf_b u = true /\ host_text_ok u) as Hlast.
  { intros w W HTw Eq Ef E1 E2 E3 E4 E5 E6 H.
    destruct (parse_query_and_fragment ovr CUrlParser st se (ser w) rem) as [[[s2 qs] fs]| |] eqn:Ep; cbn [pbind] in H; try discriminate.
    inversion H; subst u. pose proof (pqf_wf _ _ _ _ _ _ _ _ W Eq Ef Ep) as R.
    pose proof (pqf_ht _ _ _ _ _ _ _ _ W HTw Ep) as R2.
    rewrite E1, E2, E3, E4, E5, E6 in R, R2. split; [exact R | exact R2]. }
  destruct (ps =? se + 1) eqn:E1.
  - (* "scheme:" directly followed by the path *)
    apply N.eqb_eq in E1. subst ps.
    destruct F as [(_ & (A1 & A2 & A3 & A4 & _) & _)|(-> & -> & -> & -> & -> & _)]; [urec; lia|].
    destruct (starts_with s_ss (nskipn (se + 1) s)) eqn:Ess.
    + destruct (starts_with s_css (nskipn se (nfirstn (se + 1) s ++ [47; 46] ++ nskipn (se + 1) s))) eqn:Ea;
        cbn [negb passert pbind]; [discriminate|].
      assert (nlen (nfirstn (se + 1) s) = se + 1) as Lp by (apply nlen_nfirstn; exact L).
      intros H.
      apply (Hlast (mkUrl (nfirstn (se + 1) s ++ [47; 46] ++ nskipn (se + 1) s) se (se + 1) (se + 1) (se + 1) HI_None None (se + 1 + 2) None None));
        try reflexivity; [|apply ht_none; reflexivity|exact H].
      apply front_noauth_wf; try assumption.
      * apply (scheme_ok_pre (se + 1) (mkUrl s se (se + 1) (se + 1) (se + 1) HI_None None (se + 1) None None));
          [urec; apply agree_pre_nfirstn; exact L | urec; lia | reflexivity | exact S].
      * rewrite !nlen_app, Lp, nlen_nskipn. change (nlen [47; 46]) with 2. lia.
      * replace (se + 1 + 2) with (nlen (nfirstn (se + 1) s ++ [47; 46])) by (rewrite nlen_app, Lp; reflexivity).
        rewrite app_assoc. rewrite nskipn_app_len. exact Q.
      * right. split; [lia|].
        split; [rewrite nnth_app_ge by lia; rewrite Lp; replace (se + 1 - (se + 1)) with 0 by lia; reflexivity|].
        split; [rewrite nnth_app_ge by lia; rewrite Lp; replace (se + 2 - (se + 1)) with 1 by lia; reflexivity|].
        replace (se + 1 + 2) with (nlen (nfirstn (se + 1) s ++ [47; 46])) by (rewrite nlen_app, Lp; reflexivity).
        rewrite app_assoc. rewrite nskipn_app_len. exact Ess.
    + destruct (starts_with s_css (nskipn se s)) eqn:Ea; cbn [negb passert pbind]; [discriminate|].
      intros H.
      apply (Hlast (mkUrl s se (se + 1) (se + 1) (se + 1) HI_None None (se + 1) None None)); try reflexivity; [|apply ht_none; reflexivity|exact H].
      apply front_noauth_wf; try assumption. left. reflexivity.
  - apply N.eqb_neq in E1.
    destruct ((ps =? se + 3) && list_eqb (nfirstn (ps - se) (nskipn se s)) [58; 47; 46]) eqn:E2.
    + (* "scheme:/." in front of the path *)
      apply andb_true_iff in E2. destruct E2 as [E2 E3]. apply N.eqb_eq in E2. apply list_eqb_spec in E3. subst ps.
      replace (se + 3 - se) with 3 in E3 by lia.
      pose proof (css_dot_false _ E3) as Ha. apply nfirstn3_bytes in E3. destruct E3 as (_ & B1 & B2).
      destruct F as [(Ha' & _)|(-> & -> & -> & -> & -> & _)]; [unfold has_authority_b in Ha'; urec; congruence|].
      destruct (nnth s (se + 3)) as [b|] eqn:E47; [|cbn [passert pbind]; discriminate].
      destruct (b =? 47) eqn:Eb; cbn [passert pbind]; [|discriminate]. apply N.eqb_eq in Eb. subst b.
      rewrite match47.
      destruct (match nnth s (se + 3 + 1) with Some d => d =? 47 | None => false end) eqn:Ed.
      * rewrite Ha. cbn [negb passert pbind]. intros H.
        apply (Hlast (mkUrl s se (se + 1) (se + 1) (se + 1) HI_None None (se + 3) None None)); try reflexivity; [|apply ht_none; reflexivity|exact H].
        apply front_noauth_wf; try assumption. right. split; [reflexivity|]. split; [exact B1|]. split; [exact B2|].
        apply ss_of_bytes; [exact E47|]. destruct (nnth s (se + 3 + 1)) as [d|]; [|discriminate].
        apply N.eqb_eq in Ed. subst d. reflexivity.
      * destruct (starts_with s_css (nskipn se (nfirstn se s ++ [58] ++ nskipn (se + 3) s))) eqn:Ea;
          cbn [negb passert pbind]; [discriminate|].
        assert (se <= nlen s) as Ls by lia.
        assert (nlen (nfirstn se s) = se) as Lp by (apply nlen_nfirstn; exact Ls).
        intros H.
        apply (Hlast (mkUrl (nfirstn se s ++ [58] ++ nskipn (se + 3) s) se (se + 1) (se + 1) (se + 1) HI_None None (se + 3 - 2) None None));
          try reflexivity; [|apply ht_none; reflexivity|exact H].
        replace (se + 3 - 2) with (se + 1) by lia.
        apply front_noauth_wf; try assumption.
        -- unfold scheme_ok. urec. split; [exact S1|]. split; [|split].
           ++ exists c0. split; [|exact Sa]. rewrite nnth_app_lt by lia. rewrite nnth_nfirstn by lia. exact Sc.
           ++ rewrite nfirstn_app_le by lia. rewrite nfirstn_nfirstn by lia. exact S3.
           ++ pose proof (byte_eqb_app (nfirstn se s) 58 (nskipn (se + 3) s)) as B. rewrite Lp in B. exact B.
        -- rewrite !nlen_app, Lp, nlen_nskipn. change (nlen [58]) with 1. lia.
        -- replace (se + 1) with (nlen (nfirstn se s ++ [58])) by (rewrite nlen_app, Lp; reflexivity).
           rewrite app_assoc. rewrite nskipn_app_len. exact Q.
        -- left. reflexivity.
    + (* everything else: the record has an authority *)
      cbn [pbind]. intros H.
      apply (Hlast (mkUrl s se ue hs he hi pt ps None None)); try reflexivity; [|exact HT|exact H].
      destruct F as [(Ha & A & P)|(-> & -> & -> & -> & -> & [P|(P1 & P2 & P3)])].
      * apply mid_wf; try reflexivity; try assumption. rewrite Ha. split; assumption.
      * contradiction.
      * exfalso. subst ps. rewrite N.eqb_refl in E2. cbn [andb] in E2.
        replace (se + 3 - se) with 3 in E2 by lia. rewrite (three_bytes s se 58 47 46 S4 P2 P3) in E2. discriminate.
Qed.

(* ---------- D. after "//" : userinfo, host, port, path ---------- *)
(* the serialization in front of "//" is "scheme:" *)
Definition scheme_pre_ok (se : N) (ser0 : list N) : Prop :=
  1 <= se /\ (exists c, nnth ser0 0 = Some c /\ is_alpha c = true)
  /\ forallb scheme_char (nfirstn se ser0) = true /\ nnth ser0 se = Some 58 /\ nlen ser0 = se + 1.

Lemma css_of_bytes s i : nnth s i = Some 58 -> nnth s (i + 1) = Some 47 -> nnth s (i + 2) = Some 47 ->
  starts_with s_css (nskipn i s) = true.
Proof.
  intros H1 H2 H3. rewrite (nskipn_cons_of_nnth _ _ _ H1), (nskipn_cons_of_nnth _ _ _ H2).
  replace (i + 2) with (i + 1 + 1) in H3 by lia. rewrite (nskipn_cons_of_nnth _ _ _ H3). reflexivity.
Qed.

Lemma hi_none_empty h : hi_of_host h = HI_None -> h = HDomain [].
Proof. destruct h as [[|c d]|a|p]; cbn; intros H; try discriminate; reflexivity. Qed.

Section Ads.
Variable hp hpo : list N -> result host.
Variable hd : host -> list N.
Hypothesis HW : HostWf hp hpo hd.

Lemma auth_front_ok se ser0 x ue h pt s3 :
  scheme_pre_ok se ser0 ->
  let A := ser0 ++ [47; 47] in
  let ser1 := A ++ x in
  ((x = [] /\ ue = nlen A)
   \/ (nlen A <= ue /\ nnth ser1 ue = Some 58 /\ ue + 2 <= nlen ser1 /\ nnth ser1 (nlen ser1 - 1) = Some 64)
   \/ (nlen A <= ue /\ nnth ser1 ue = Some 64 /\ nlen ser1 = ue + 1)) ->
  match pt with Some p => p <= 65535 | None => True end ->
  ((h = HDomain [] /\ hd h = [] /\ pt = None) \/ host_text_wf (hd h)) ->
  let ser2 := ser1 ++ hd h ++ ptext pt in
  agree_pre (nlen ser2) ser2 s3 -> nlen ser2 <= nlen s3 ->
  (nlen s3 = nlen ser2 \/ nnth s3 (nlen ser2) = Some 47) ->
  forallb no_qh (nskipn (nlen ser2) s3) = true ->
  front_ok (mkUrl s3 se ue (nlen ser1) (nlen ser1 + nlen (hd h)) (hi_of_host h) pt (nlen ser2) None None).
Proof using HW.
  intros (S1 & (c0 & Sc & Sa) & S3 & S4 & S5) A ser1 U P Hh ser2 Hpre Hlen Hps Hq.
  assert (nlen A = se + 3) as LA by (subst A; rewrite nlen_app, S5; change (nlen [47; 47]) with 2; lia).
  assert (nlen ser1 = se + 3 + nlen x) as L1 by (subst ser1; rewrite nlen_app, LA; reflexivity).
  assert (nlen ser2 = nlen ser1 + nlen (hd h) + nlen (ptext pt)) as L2 by (subst ser2; rewrite !nlen_app; lia).
  (* bytes of the new serialization in front of the path are those of ser2 *)
  assert (forall i, i < nlen ser2 -> nnth s3 i = nnth ser2 i) as Hb by (intros i Hi; apply (pre_nnth _ _ _ _ Hpre Hi)).
  assert (forall i, i < nlen ser1 -> nnth ser2 i = nnth ser1 i) as Hb1 by (intros i Hi; subst ser2; apply nnth_app_lt; exact Hi).
  assert (forall i, i < nlen A -> nnth ser1 i = nnth A i) as HbA by (intros i Hi; subst ser1; apply nnth_app_lt; exact Hi).
  assert (forall i, i < nlen ser0 -> nnth A i = nnth ser0 i) as Hb0 by (intros i Hi; subst A; apply nnth_app_lt; exact Hi).
  assert (forall i, i < se + 1 -> nnth s3 i = nnth ser0 i) as HbS.
  { intros i Hi. rewrite Hb, Hb1, HbA, Hb0 by lia. reflexivity. }
  assert (nnth s3 (se + 1) = Some 47 /\ nnth s3 (se + 2) = Some 47) as [B1 B2].
  { rewrite !Hb, !Hb1, !HbA by lia. subst A. rewrite !nnth_app_ge by lia. rewrite S5.
    replace (se + 1 - (se + 1)) with 0 by lia. replace (se + 2 - (se + 1)) with 1 by lia. split; reflexivity. }
  assert (ue <> nlen ser1 -> ue < nlen ser1) as Hue.
  { intros Hne. destruct U as [(-> & ->)|[(U1 & U2 & U3 & U4)|(U1 & U2 & U3)]]; [|lia|lia].
    exfalso. apply Hne. subst ser1. rewrite app_nil_r. reflexivity. }
  unfold front_ok. urec. split; [|split; [exact Hlen|split; [exact Hq|split]]].
  - (* scheme *)
    unfold scheme_ok. urec. split; [exact S1|]. split; [|split].
    + exists c0. split; [|exact Sa]. rewrite HbS by lia. exact Sc.
    + rewrite (pre_firstn _ _ _ se Hpre) by lia. subst ser2 ser1 A. rewrite <- !app_assoc.
      rewrite nfirstn_app_le by lia. exact S3.
    + apply byte_eqb_true_iff. rewrite HbS by lia. exact S4.
  - (* host text *)
    intros Hhas. unfold has_host in Hhas. urec.
    destruct Hh as [(-> & _)|(Hne & H58 & H64 & _)]; [cbn in Hhas; discriminate|].
    destruct (hd h) as [|c t] eqn:Ehd; [contradiction|].
    assert (nnth s3 (nlen ser1) = Some c) as Ec.
    { rewrite Hb by (rewrite L2, nlen_cons; lia). subst ser2. rewrite nnth_app_ge by lia. rewrite N.sub_diag. reflexivity. }
    split; [rewrite nlen_cons; lia|]. cbn in H58, H64.
    split; apply byte_eqb_false_of; congruence.
  - left. split; [|split].
    + unfold has_authority_b. urec. apply css_of_bytes; [rewrite HbS by lia; exact S4 | exact B1 | exact B2].
    + unfold auth_ok. urec.
      split; [destruct U as [(_ & ->)|[(U1 & _)|(U1 & _)]]; lia|].
      split; [destruct U as [(-> & ->)|[(U1 & U2 & U3 & U4)|(U1 & U2 & U3)]]; [subst ser1; rewrite app_nil_r|..]; lia|].
      split; [lia|]. split; [lia|]. split; [exact Hlen|]. split; [|split].
      * (* userinfo *)
        unfold userinfo_ok. urec.
        destruct U as [(Ex & Eu)|[(U1 & U2 & U3 & U4)|(U1 & U2 & U3)]].
        -- left. assert (ue = nlen ser1) as E by (subst ser1 x; rewrite app_nil_r; exact Eu).
           split; [exact E|]. split; [lia|].
           destruct Hh as [(_ & Eh & ->)|(Hne & H58 & _ & _)].
           ++ assert (nlen ser2 = ue) as E2 by (rewrite L2, Eh; cbn [ptext]; rewrite nlen_nil; lia).
              rewrite E2 in Hps. destruct Hps as [Hps|Hps]; [apply byte_eqb_oob; lia|].
              apply byte_eqb_false_of. congruence.
           ++ destruct (hd h) as [|c t] eqn:Ehd; [contradiction|].
              apply byte_eqb_false_of. rewrite Hb by (rewrite L2, nlen_cons; lia).
              subst ser2. rewrite E. rewrite nnth_app_ge by lia. rewrite N.sub_diag. cbn [app].
              change (nnth (c :: t ++ ptext pt) 0) with (Some c). cbn in H58. congruence.
        -- right. left. split; [|split; [lia|]]; apply byte_eqb_true_iff.
           ++ rewrite Hb, Hb1 by lia. exact U2.
           ++ rewrite Hb, Hb1 by lia. exact U4.
        -- right. right. split; [|lia]. apply byte_eqb_true_iff. rewrite Hb, Hb1 by lia. exact U2.
      * intros Hn. apply hi_none_empty in Hn. subst h.
        destruct Hh as [(_ & Eh & _)|(Hne & _)]; [rewrite Eh, nlen_nil; lia|].
        destruct HW as (_ & _ & W3). rewrite W3 in Hne. contradiction.
      * unfold port_ok. urec. destruct pt as [p|]; cbn [ptext] in *; [|rewrite nlen_nil in L2; lia].
        rewrite nlen_cons in L2.
        assert (ser2 = ((ser1 ++ hd h) ++ [58]) ++ decimal p) as E2 by (subst ser2; rewrite <- !app_assoc; reflexivity).
        split; [|split; [lia|split; [exact P|]]].
        -- apply byte_eqb_true_iff. rewrite Hb by lia. rewrite E2, <- app_assoc. cbn [app].
           rewrite <- nlen_app. apply byte_eqb_true_iff. apply byte_eqb_app.
        -- rewrite (pre_piece _ _ _ _ _ Hpre) by lia. rewrite E2.
           replace (nlen ser1 + nlen (hd h) + 1) with (nlen ((ser1 ++ hd h) ++ [58])) by (rewrite !nlen_app; reflexivity).
           rewrite nskipn_app_len. apply nfirstn_all. rewrite <- E2, L2, !nlen_app. change (nlen [58]) with 1. lia.
    + destruct Hps as [Hps|Hps]; [left; lia | right; exact Hps].
Qed.

Theorem ads_wf dbg ovr st se ser0 l u : st_is_file st = false -> scheme_pre_ok se ser0 ->
  after_double_slash dbg hp hpo hd ovr CUrlParser st se ser0 l = POk u -> wf_b u = true /\ host_text_ok u.
Proof using HW.
  intros Hnf Hs. unfold after_double_slash.
  destruct (parse_userinfo st (ser0 ++ [47; 47]) l) as [[[ser1 ue] rm]| |] eqn:Eu; cbn [pbind]; try discriminate.
  destruct (parse_userinfo_shape _ _ _ _ _ _ Eu) as (x & -> & U).
  du32 (nlen ((ser0 ++ [47; 47]) ++ x)) hs Ehs. apply to_u32_inv in Ehs. destruct Ehs as [-> _].
  destruct (parse_host_and_port hp hpo hd CUrlParser st se ((ser0 ++ [47; 47]) ++ x) rm)
    as [[[[[ser2 he] hi] pt] rm2]| |] eqn:Eh; cbn [pbind]; try discriminate.
  destruct (phap_shape hp hpo hd HW _ _ _ _ _ _ _ _ _ Hnf Eh) as (h & -> & -> & -> & Hp & Hh).
  match goal with |- (if ?c then _ else _) = _ -> _ => destruct c; [discriminate|] end.
  du32 (nlen (((ser0 ++ [47; 47]) ++ x) ++ hd h ++ ptext pt)) ps Eps. apply to_u32_inv in Eps. destruct Eps as [-> _].
  destruct (parse_path_start dbg CUrlParser st true (((ser0 ++ [47; 47]) ++ x) ++ hd h ++ ptext pt) rm2)
    as [[[s3 hh] rm3]| |] eqn:Ep; cbn [pbind]; try discriminate.
  assert (st_is_special st = true -> ends_with_byte 47 (((ser0 ++ [47; 47]) ++ x) ++ hd h ++ ptext pt) = false) as He.
  { intros Esp. destruct Hh as [(_ & _ & _ & Hns)|(Hne & _ & _ & H47)]; [congruence|].
    destruct pt as [p|]; cbn [ptext].
    - rewrite app_assoc. apply port_text_last.
    - rewrite app_nil_r. rewrite ends_with_byte_app by exact Hne. exact H47. }
  destruct (parse_path_start_shape dbg st true _ rm2 s3 hh rm3 Hnf He Ep) as (A & B & C & D & E).
  intros H.
  apply (wqf_wf ovr st (mkUrl s3 se ue (nlen ((ser0 ++ [47; 47]) ++ x)) (nlen ((ser0 ++ [47; 47]) ++ x) + nlen (hd h))
                           (hi_of_host h) pt (nlen (((ser0 ++ [47; 47]) ++ x) ++ hd h ++ ptext pt)) None None) rm3 u);
    [|reflexivity|reflexivity|exact H].
  apply auth_front_ok; try assumption.
  destruct Hh as [(H1 & H2 & H3 & _)|Hh]; [left; repeat split; assumption | right; exact Hh].
Qed.
End Ads.

(* ---------- E. no authority: "scheme:/path" and "scheme:opaque" ---------- *)
Lemma scheme_out_is_scheme_char c : scheme_out_char c = true -> scheme_char c = true.
Proof. unfold scheme_out_char, scheme_char, is_alnum, is_alpha, is_lower, is_upper, is_digit. lia. Qed.

Lemma scheme_pre_of_canon sch : scheme_canon sch = true -> scheme_pre_ok (nlen sch) (sch ++ [58]).
Proof.
  unfold scheme_canon. intros H. apply andb_true_iff in H. destruct H as [H1 H2].
  destruct sch as [|c r]; [discriminate|]. unfold scheme_pre_ok.
  split; [rewrite nlen_cons; lia|]. split; [|split; [|split]].
  - exists c. split; [reflexivity|]. unfold is_alpha. rewrite H1. apply orb_true_r.
  - rewrite nfirstn_app_exact. apply (forallb_impl scheme_out_char scheme_char); [exact scheme_out_is_scheme_char | exact H2].
  - apply nnth_last.
  - rewrite nlen_app. reflexivity.
Qed.

Lemma noauth_front_ok se ser0 s1 : scheme_pre_ok se ser0 -> agree_pre (se + 1) ser0 s1 -> se + 1 <= nlen s1 ->
  forallb no_qh (nskipn (se + 1) s1) = true ->
  front_ok (mkUrl s1 se (se + 1) (se + 1) (se + 1) HI_None None (se + 1) None None).
Proof.
  intros (S1 & (c0 & Sc & Sa) & S3 & S4 & S5) Hpre Hl Hq. unfold front_ok. urec.
  split; [|split; [exact Hl|split; [exact Hq|split; [apply ht_none; reflexivity|]]]].
  - unfold scheme_ok. urec. split; [exact S1|]. split; [|split].
    + exists c0. split; [|exact Sa]. rewrite (pre_nnth _ _ _ 0 Hpre) by lia. exact Sc.
    + rewrite (pre_firstn _ _ _ se Hpre) by lia. exact S3.
    + apply byte_eqb_true_iff. rewrite (pre_nnth _ _ _ se Hpre) by lia. exact S4.
  - right. repeat split. left. reflexivity.
Qed.

Section Top.
Variable dbg : bool.
Variable hp hpo : list N -> result host.
Variable hd : host -> list N.
Variable ovr : option (list N -> list N).
Hypothesis HW : HostWf hp hpo hd.

Theorem parse_non_special_wf se ser0 l u : scheme_pre_ok se ser0 ->
  parse_non_special dbg hp hpo hd ovr CUrlParser STNotSpecial se ser0 l = POk u -> wf_b u = true /\ host_text_ok u.
Proof using HW.
  intros Hs. pose proof Hs as (_ & _ & _ & _ & S5). unfold parse_non_special.
  destruct (inp_split_prefix_str s_ss l) as [rm|]; [apply (ads_wf hp hpo hd HW); [reflexivity | exact Hs]|].
  du32 (nlen ser0) ps Eps. apply to_u32_inv in Eps. destruct Eps as [-> _].
  destruct (inp_split_prefix_char 47 l) as [rm|].
  - destruct (parse_path dbg CUrlParser STNotSpecial false (nlen ser0) (ser0 ++ [47]) rm) as [[[s hh] rem]| |] eqn:Ep;
      cbn [pbind]; try discriminate.
    destruct (parse_path_shape dbg STNotSpecial false (nlen ser0) (ser0 ++ [47]) rm s hh rem eq_refl
                ltac:(rewrite nlen_app; change (nlen [47]) with 1; lia) (nnth_last ser0 47)
                ltac:(rewrite nskipn_app_exact; reflexivity) Ep) as (A & B & C & D & E).
    intros H. rewrite S5 in *.
    apply (wqf_wf ovr STNotSpecial (mkUrl s se (se + 1) (se + 1) (se + 1) HI_None None (se + 1) None None) rem u);
      [|reflexivity|reflexivity|exact H].
    apply (noauth_front_ok se ser0); [exact Hs | | lia | exact D].
    eapply agree_pre_trans; [rewrite <- S5; apply agree_pre_app_r | eapply agree_pre_le; [exact A | lia]].
  - cbn [pbind]. destruct (cbb_path_shape l ser0) as (x & Ex & Hx).
    destruct (parse_cannot_be_a_base_path CUrlParser ser0 l) as [s1 rem]. cbn [fst] in Ex. subst s1.
    intros H. rewrite S5 in *.
    apply (wqf_wf ovr STNotSpecial (mkUrl (ser0 ++ x) se (se + 1) (se + 1) (se + 1) HI_None None (se + 1) None None) rem u);
      [|reflexivity|reflexivity|exact H].
    apply (noauth_front_ok se ser0); [exact Hs | rewrite <- S5; apply agree_pre_app_r | rewrite nlen_app; lia|].
    rewrite <- S5. rewrite nskipn_app_exact. exact Hx.
Qed.

(* ---------- F. relative references ---------- *)
Lemma auth_ok_pre2 a u u' : agree_pre a (ser u) (ser u') -> path_start u <= a -> a <= nlen (ser u') ->
  scheme_end u' = scheme_end u -> username_end u' = username_end u -> host_start u' = host_start u ->
  host_end u' = host_end u -> hosti u' = hosti u -> port u' = port u -> path_start u' = path_start u ->
  (username_end u < a \/ byte_eqb (ser u') (username_end u) 58 = false) ->
  auth_ok u -> auth_ok u'.
Proof using.
  intros H Hps Hlen E1 E2 E3 E4 E5 E6 E7 Hue (A1 & A2 & A3 & A4 & A5 & U & Hn & P).
  unfold auth_ok, userinfo_ok, port_ok. rewrite E1, E2, E3, E4, E5, E6, E7.
  repeat split; try assumption; try lia.
  - destruct U as [(U1 & U2 & U3)|[(U1 & U2 & U3)|(U1 & U2)]].
    + left. repeat split; try assumption. destruct Hue as [Hue|Hue]; [|exact Hue].
      rewrite (pre_byte_eqb a _ _ _ _ H) by lia. exact U3.
    + right. left. rewrite !(pre_byte_eqb a _ _ _ _ H) by lia. tauto.
    + right. right. pose proof (byte_eqb_lt _ _ _ U1). rewrite !(pre_byte_eqb a _ _ _ _ H) by lia. tauto.
  - unfold port_ok in P. destruct (port u) as [p|]; [|exact P].
    destruct P as (P1 & P2 & P3 & P4).
    assert (host_end u < a) as Hhe by (pose proof (byte_eqb_lt _ _ _ P1); lia).
    rewrite (pre_byte_eqb a _ _ _ _ H) by lia.
    rewrite (pre_piece a _ _ _ _ H) by lia. tauto.
Qed.

(* a new path behind the front of a well-formed base *)
Lemma base_front_ok b s : wf_b b = true -> host_text_ok b -> agree_pre (path_start b) (ser b) s -> nnth s (path_start b) = Some 47 ->
  forallb no_qh (nskipn (path_start b) s) = true ->
  front_ok (url_with b s None None).
Proof using.
  intros W HT Hpre H47 Hq. pose proof (wf_se_lt_ps b W) as Hse. pose proof (nnth_lt _ _ _ H47) as Hl.
  pose proof W as W0. apply wf_b_iff in W0. destruct W0 as (S & AU & _).
  unfold front_ok, url_with. urec. split; [|split; [lia|split; [exact Hq|split]]].
  - apply (scheme_ok_pre (path_start b) b); [exact Hpre | exact Hse | reflexivity | exact S].
  - intros Hh. pose proof (HT Hh) as (T1 & _). pose proof (wf_host_range b W T1) as R. revert Hh.
    apply (ht_pre (path_start b) b); try reflexivity; [exact Hpre | exact R | exact HT].
  - destruct (has_authority_b b) eqn:Ha.
    + left. destruct AU as [AU _]. pose proof (wf_auth_facts b W Ha) as F.
      pose proof (af_ue F); pose proof (af_hs F); pose proof (af_he F); pose proof (af_ps F).
      split; [|split; [|right; exact H47]].
      * rewrite <- Ha. apply (has_authority_b_pre (path_start b)); [exact Hpre | lia | reflexivity].
      * assert (username_end b < path_start b \/ byte_eqb s (username_end b) 58 = false) as Hue.
        { destruct (N.eq_dec (username_end b) (path_start b)) as [E|E]; [|left; lia].
          right. rewrite E. apply byte_eqb_false_of. congruence. }
        exact (auth_ok_pre2 (path_start b) b
                 (mkUrl s (scheme_end b) (username_end b) (host_start b) (host_end b) (hosti b) (port b) (path_start b) None None)
                 Hpre (N.le_refl _) ltac:(urec; lia) eq_refl eq_refl eq_refl eq_refl eq_refl eq_refl eq_refl Hue AU).
    + right. pose proof (wf_noauth_facts b W Ha) as F.
      split; [exact (nf_ue F)|]. split; [exact (nf_hs F)|]. split; [exact (nf_he F)|].
      split; [exact (nf_host F)|]. split; [exact (nf_port F)|].
      destruct (nf_ps F) as [P|(P1 & P2 & P3 & _)]; [left; exact P|]. right.
      apply byte_eqb_nnth in P2. apply byte_eqb_nnth in P3.
      split; [exact P1|]. rewrite !(pre_nnth _ _ _ _ Hpre) by lia. split; assumption.
Qed.

(* the base without its fragment, and without query and fragment *)
Lemma base_cut_fragment_wf b : wf_b b = true -> wf_b (url_with b (b_before_fragment b) (query_start b) None) = true
  /\ fragment_start (url_with b (b_before_fragment b) (query_start b) None) = None.
Proof using.
  intros W. split; [|reflexivity]. unfold b_before_fragment. destruct (fragment_start b) as [f|] eqn:Ef.
  - destruct (cut_fragment_step false b f W Ef) as (W' & _). exact W'.
  - destruct b as [s se ue hs he hi pt ps qs fs]. cbn in *. subst fs. exact W.
Qed.

(* a serialization that keeps everything up to the end of the path keeps the host text *)
Lemma base_ht b s qs fs : wf_b b = true -> host_text_ok b -> agree_pre (path_start b) (ser b) s ->
  host_text_ok (url_with b s qs fs).
Proof using.
  intros W HT Hpre Hh. pose proof (HT Hh) as (T1 & _). pose proof (wf_host_range b W T1) as R. revert Hh.
  apply (ht_pre (path_start b) b); try reflexivity; [exact Hpre | exact R | exact HT].
Qed.

Lemma bf_pre b : wf_b b = true -> agree_pre (path_start b) (ser b) (b_before_fragment b).
Proof using.
  intros W. unfold b_before_fragment. pose proof (wf_qf_facts b W) as QF. pose proof (qf_f QF) as Q2.
  destruct (fragment_start b) as [f|]; [|reflexivity]. apply agree_pre_nfirstn_ge. lia.
Qed.

Lemma bq_pre b : wf_b b = true -> agree_pre (path_start b) (ser b) (b_before_query b).
Proof using.
  intros W. destruct (bq_shape b W) as (-> & P1 & _). apply agree_pre_nfirstn_ge. exact P1.
Qed.

Lemma base_cut_query_wf b : wf_b b = true -> wf_b (url_with b (b_before_query b) None None) = true.
Proof using.
  intros W. destruct (bq_shape b W) as (Ebq & P1 & P2). rewrite Ebq.
  pose proof (qf_facts_of b W) as (_ & _ & _ & Q4 & _).
  apply (tail_wf b (url_with b (nfirstn (path_end b) (ser b)) None None) (path_end b)); try assumption.
  - repeat split.
  - unfold url_with. urec. apply agree_pre_trunc.
  - intros E1 E3. assert (has_authority_b b = false) as Ha.
    { destruct (has_authority_b b) eqn:Ha; [|reflexivity]. pose proof (wf_auth_facts b W Ha) as F. pose proof (af_ue F). lia. }
    exact (wf_marker_in_path b W Ha E3).
  - unfold url_with. urec. rewrite nlen_nfirstn by exact P2. lia.
  - left. unfold url_with. urec. rewrite nlen_nfirstn by exact P2. reflexivity.
  - unfold qf_ok, path_end, url_with. urec. repeat split.
    rewrite nlen_nfirstn by exact P2. fold (path_end b).
    replace (path_end b) with (path_start b + (path_end b - path_start b)) at 2 by lia.
    rewrite nskipn_nfirstn_comm. rewrite nfirstn_nfirstn by lia. exact Q4.
Qed.

Lemma fragment_only_wf b l u : wf_b b = true -> host_text_ok b -> fragment_only b l = POk u ->
  wf_b u = true /\ host_text_ok u.
Proof using.
  intros W HT. unfold fragment_only. du32 (nlen (b_before_fragment b)) fs E. apply to_u32_inv in E. destruct E as [-> _].
  intros H. inversion H; subst u. destruct (base_cut_fragment_wf b W) as [W1 F1].
  rewrite parse_fragment_text. rewrite <- app_assoc. cbn [app].
  destruct (add_fragment_step false _ (tnl_text T_FRAGMENT match inp_next l with Some (_, r) => r | None => [] end) W1 F1) as (W2 & _).
  split; [exact W2|].
  apply (base_ht b _ (query_start b) (Some (nlen (b_before_fragment b))) W HT).
  eapply agree_pre_trans; [apply (bf_pre b W)|]. apply agree_pre_app_le.
  pose proof (pre_len _ _ _ (bf_pre b W) (path_start_le_len b W)). lia.
Qed.

(* the path-relative arm: the base path without its last segment *)
Lemma pop_base_shape st b (l : list N) s1 : wf_b b = true -> st_is_file st = false ->
  nnth (ser b) (scheme_end b + 1) = Some 47 -> inp_is_empty l = false ->
  pop_path st (path_start b) (b_before_query b) = POk s1 ->
  let s2 := if (nlen s1 =? path_start b) && (st_is_special (scheme_type_of (b_scheme b)) || negb (inp_is_empty l))
            then s1 ++ [47] else s1 in
  agree_pre (path_start b) (ser b) s2 /\ path_start b + 1 <= nlen s2 /\ nnth s2 (path_start b) = Some 47
  /\ forallb no_qh (nskipn (path_start b) s2) = true.
Proof using hp hpo.
  intros W Hnf Hs He Hpop s2.
  destruct (pop_base_ok hp hpo st b l W Hnf Hs He) as (s1' & Epop & I2 & H2). cbv zeta in I2, H2.
  rewrite Hpop in Epop. inversion Epop; subst s1'. fold s2 in I2, H2.
  destruct (bq_shape b W) as (Ebq & P1 & P2). pose proof (path_start_le_len b W) as PL.
  pose proof (qf_facts_of b W) as (_ & _ & _ & Q4 & _).
  assert (nlen (nfirstn (path_start b) (ser b)) = path_start b) as Lp by (apply nlen_nfirstn; exact PL).
  assert (PInv (path_start b) (path_start b) (nfirstn (path_start b) (ser b)) (b_before_query b)) as I0.
  { rewrite Ebq. split; [apply nfirstn_nfirstn; exact P1|].
    replace (path_end b) with (path_start b + (path_end b - path_start b)) by lia.
    rewrite nskipn_nfirstn_comm. exact Q4. }
  pose proof (pinv_pop_path (path_start b) (path_start b) (nfirstn (path_start b) (ser b)) (N.le_refl _) ltac:(lia) Lp st _ _ Hpop I0) as I1.
  assert (PInv (path_start b) (path_start b) (nfirstn (path_start b) (ser b)) s2) as Is2.
  { subst s2. destruct ((nlen s1 =? path_start b) && _); [|exact I1].
    apply (pinv_app (path_start b) (path_start b) (nfirstn (path_start b) (ser b)) (N.le_refl _) ltac:(lia) Lp); [exact I1 | reflexivity]. }
  destruct Is2 as [J1 J2]. destruct I2 as (_ & K2 & _ & K4 & _).
  split; [exact J1|]. split; [lia|]. split; [exact H2 | exact J2].
Qed.

Theorem parse_relative_wf st b l u : wf_b b = true -> host_text_ok b -> st_is_file st = false ->
  nnth (ser b) (scheme_end b + 1) = Some 47 ->
  parse_relative dbg hp hpo hd ovr CUrlParser st b l = POk u -> wf_b u = true /\ host_text_ok u.
Proof using HW.
  intros W HT Hnf Hs.
  destruct (wf_scheme_facts b W) as (S1 & S2 & S3).
  pose proof (path_start_le_len b W) as PL.
  assert (nlen (nfirstn (path_start b) (ser b)) = path_start b) as La by (apply nlen_nfirstn; exact PL).
  unfold parse_relative, inp_split_first. destruct (inp_next l) as [[c r]|] eqn:En.
  2:{ intros H. inversion H; subst u. split; [apply base_cut_fragment_wf; exact W|].
      apply (base_ht b _ _ _ W HT). exact (bf_pre b W). }
  assert (inp_is_empty l = false) as He by (unfold inp_is_empty; rewrite En; reflexivity).
  destruct (c =? 63).
  { destruct (parse_query_and_fragment ovr CUrlParser st (scheme_end b) (b_before_query b) l) as [[[s qs] fs]| |] eqn:Ep;
      cbn [pbind]; try discriminate.
    intros H. inversion H; subst u. split.
    - exact (pqf_wf ovr st (scheme_end b) (url_with b (b_before_query b) None None) l s qs fs
               (base_cut_query_wf b W) eq_refl eq_refl Ep).
    - exact (pqf_ht ovr st (scheme_end b) (url_with b (b_before_query b) None None) l s qs fs
               (base_cut_query_wf b W) (base_ht b _ None None W HT (bq_pre b W)) Ep). }
  destruct (c =? 35); [apply fragment_only_wf; assumption|].
  destruct ((c =? 47) || (c =? 92) && st_is_special st).
  - destruct (inp_count_matching (fun d => (d =? 47) || (d =? 92) && st_is_special st) l) as [slashes remaining].
    destruct (2 <=? slashes).
    + destruct (dassert dbg (match nnth (ser b) (scheme_end b) with Some b0 => b0 =? 58 | None => false end)) as [[]| |];
        cbn [pbind]; try discriminate.
      assert (scheme_pre_ok (scheme_end b) (nfirstn (scheme_end b + 1) (ser b))) as Hpre.
      { pose proof (wf_b_iff b) as [Hi _]. destruct (Hi W) as ((_ & (c0 & Sc & Sa) & S4 & _) & _).
        apply byte_eqb_nnth in S2. unfold scheme_pre_ok. split; [exact S1|]. split; [|split; [|split]].
        - exists c0. split; [|exact Sa]. rewrite nnth_nfirstn by lia. exact Sc.
        - rewrite nfirstn_nfirstn by lia. exact S4.
        - rewrite nnth_nfirstn by lia. exact S2.
        - apply nlen_nfirstn. lia. }
      destruct (negb (st_is_special st)); [destruct (inp_split_prefix_str s_ss l)|];
        apply (ads_wf hp hpo hd HW); assumption.
    + destruct (parse_path dbg CUrlParser st true (path_start b) (nfirstn (path_start b) (ser b) ++ [47]) r)
        as [[[s hh] rem]| |] eqn:Ep; cbn [pbind]; try discriminate.
      set (P0 := nfirstn (path_start b) (ser b)) in *.
      assert (path_start b + 1 <= nlen (P0 ++ [47])) as G1 by (rewrite nlen_app, La; change (nlen [47]) with 1; lia).
      assert (nnth (P0 ++ [47]) (path_start b) = Some 47) as G2 by (rewrite <- La; apply nnth_last).
      assert (forallb no_qh (nskipn (path_start b) (P0 ++ [47])) = true) as G3
        by (rewrite <- La; rewrite nskipn_app_exact; reflexivity).
      destruct (parse_path_shape dbg st true (path_start b) (P0 ++ [47]) r s hh rem Hnf G1 G2 G3 Ep) as (A & B & C & D & E).
      intros H. apply (wqf_wf ovr st (url_with b s None None) rem u); [|reflexivity|reflexivity|exact H].
      apply base_front_ok; try assumption.
      eapply agree_pre_trans; [apply agree_pre_nfirstn; exact PL | eapply agree_pre_le; [exact A | lia]].
  - destruct (pop_path st (path_start b) (b_before_query b)) as [s1| |] eqn:Epop; cbn [pbind]; try discriminate.
    destruct (pop_base_shape st b l s1 W Hnf Hs He Epop) as (J1 & J2 & J3 & J4).
    set (s2 := if (nlen s1 =? path_start b) && (st_is_special (scheme_type_of (b_scheme b)) || negb (inp_is_empty l))
               then s1 ++ [47] else s1) in *.
    assert (exists X, (match c with
                       | 47 => parse_path dbg CUrlParser st true (path_start b) s2 r
                       | _ => parse_path dbg CUrlParser st true (path_start b) s2 l
                       end) = parse_path dbg CUrlParser st true (path_start b) s2 X) as [X EX].
    { destruct (N.eq_dec c 47) as [->|Hc]; [exists r; reflexivity|]. exists l.
      destruct c as [|p]; [reflexivity|]. do 6 (destruct p as [p|p|]; try reflexivity). congruence. }
    cbv beta iota. rewrite EX.
    destruct (parse_path dbg CUrlParser st true (path_start b) s2 X) as [[[s hh] rem]| |] eqn:Ep; cbn [pbind]; try discriminate.
    destruct (parse_path_shape dbg st true (path_start b) s2 X s hh rem Hnf J2 J3 J4 Ep) as (A & B & C & D & E).
    intros H. apply (wqf_wf ovr st (url_with b s None None) rem u); [|reflexivity|reflexivity|exact H].
    apply base_front_ok; try assumption.
    eapply agree_pre_trans; [exact J1 | eapply agree_pre_le; [exact A | lia]].
Qed.

(* ---------- G. top level ---------- *)
Theorem parse_with_scheme_wf base sch l u :
  match base with Some b => base_ok b = true /\ host_text_ok b | None => True end ->
  st_is_file (scheme_type_of sch) = false -> scheme_canon sch = true ->
  parse_with_scheme dbg hp hpo hd ovr base sch l = POk u -> wf_b u = true /\ host_text_ok u.
Proof using HW.
  intros Hb Hnf Hc. pose proof (scheme_pre_of_canon sch Hc) as Hpre.
  unfold parse_with_scheme. du32 (nlen sch) se E. apply to_u32_inv in E. destruct E as [-> _].
  destruct (scheme_type_of sch) eqn:Est; [discriminate Hnf | |].
  - destruct (inp_count_matching is_slash_or_bslash l) as [slashes remaining].
    destruct base as [b|]; [|apply (ads_wf hp hpo hd HW); [reflexivity | exact Hpre]].
    destruct ((slashes <? 2) && list_eqb (b_scheme b) sch) eqn:Ec; [|apply (ads_wf hp hpo hd HW); [reflexivity | exact Hpre]].
    apply andb_true_iff in Ec. destruct Ec as [_ Ec]. apply list_eqb_spec in Ec.
    destruct Hb as [Hb HT].
    unfold base_ok in Hb. apply andb_true_iff in Hb. destruct Hb as [W Hb]. rewrite Ec, Est in Hb. cbn in Hb.
    match goal with |- pbind ?e _ = _ -> _ => destruct e as [[]| |]; cbn [pbind]; try discriminate end.
    apply parse_relative_wf; [exact W | exact HT | reflexivity | apply byte_eqb_nnth; exact Hb].
  - apply parse_non_special_wf. exact Hpre.
Qed.

Theorem parse_url_wf base input u :
  match base with Some b => base_ok b = true /\ host_text_ok b | None => True end ->
  file_involved base input = false ->
  parse_url dbg hp hpo hd ovr base input = POk u -> wf_b u = true /\ host_text_ok u.
Proof using HW.
  intros Hb Hk. unfold parse_url. unfold file_involved in Hk.
  destruct (parse_scheme CUrlParser (input_new_trim_c0 input)) as [[sch rem]|] eqn:Es.
  - apply parse_with_scheme_wf; [exact Hb | exact Hk | exact (parse_scheme_out _ _ _ Es)].
  - destruct base as [b|]; [|discriminate]. destruct Hb as [Hb HT].
    unfold base_ok in Hb. apply andb_true_iff in Hb. destruct Hb as [W _].
    destruct (inp_starts_with_char 35 (input_new_trim_c0 input)); [apply fragment_only_wf; assumption|].
    rewrite (cannot_be_a_base_eval b W).
    destruct (byte_eqb (ser b) (scheme_end b + 1) 47) eqn:Eb; cbn [negb]; [|discriminate].
    rewrite (not_file_scheme _ Hk). apply parse_relative_wf; [exact W | exact HT | apply not_file_scheme; exact Hk | apply byte_eqb_nnth; exact Eb].
Qed.
End Top.
