(* Proofs/C01_EqRelArms.v - C01 equivalence for the two path arms of a scheme-less reference against a
   related base that is neither special nor opaque:
     class "path-absolute"  "/x/y?q#f"   and   class "path-relative"  "x/../y?q#f".
   The common end of both arms (parse_path on the segments kept of the base, then
   with_query_and_fragment) against the Standard's path state started on the same segments; pop_path
   against "shorten"; the class theorems with recognisers on the Standard's side. *)
From RU Require Import Base.Prelude Base.Utf8 Base.Utf8Facts Model.AsciiSet Gen.Tables
  Model.PercentEncoding Model.HostT Model.UrlRecord Model.Parser Model.Setters Model.WF Model.KnownC08 Spec.Whatwg
  Proofs.ListN Proofs.C14_Set Proofs.C14_Enc Proofs.C14_Views Proofs.C02_Enc Proofs.C02_Parts
  Proofs.C02_Opaque Proofs.C02_Path Proofs.C02_PathL1 Proofs.C03_WF Proofs.C01_Tables Proofs.C08_Input
  Proofs.C01_EqRun Proofs.C01_EqEnc Proofs.C01_EqApi Proofs.C01_EqOpaque Proofs.C01_EqDots Proofs.C01_EqPathSpec
  Proofs.C06_List Proofs.C06_WFI Proofs.C06_Tail Proofs.C06_Steps Proofs.C06_FragQuery Proofs.C06_PathParser Proofs.C06_Path
  Proofs.C08_Simple Proofs.C08_Contain Proofs.C08_NoAuth
  Proofs.C01_EqRef Proofs.C01_EqPath Proofs.C01_EqOverflow Proofs.C01_EqEmpty Proofs.C01_EqClasses
  Proofs.C01_EqAuthSpec Proofs.C01_EqAuthModel Proofs.C01_EqAuth Proofs.C01_EqClasses2 Proofs.C01_EqRel Proofs.C01_EqRelPath.

(* what the theorems need of the Standard's base record beyond `related`: the scheme is lower-case and
   no path segment contains '/' - both hold of every record the basic URL parser returns *)
Definition spec_base_ok (sb : spec_url) : bool :=
  scheme_canon (su_scheme sb) && forallb no_slash (path_segments sb).

Lemma dec_digits_nonempty fuel : forall n acc, acc <> [] -> dec_digits fuel n acc <> [].
Proof.
  induction fuel as [|k IH]; intros n acc H; [exact H|]. cbn [dec_digits].
  destruct (n <? 10); [discriminate | apply IH; discriminate].
Qed.

Lemma serialize_integer_nonempty p : serialize_integer p <> [].
Proof.
  unfold serialize_integer. cbn [dec_digits]. destruct (p <? 10); [discriminate|].
  apply dec_digits_nonempty. discriminate.
Qed.

Lemma flat_map_snoc (P : list (list N)) (x : list N) :
  flat_map (fun s => 47 :: s) (P ++ [x]) = flat_map (fun s => 47 :: s) P ++ 47 :: x.
Proof. rewrite flat_map_app. cbn [flat_map]. rewrite app_nil_r. reflexivity. Qed.

(* ================= pop_path on the serialized path of the base = "shorten" ================= *)
Lemma pop_path_segments pre P : forallb no_slash P = true ->
  pop_path STNotSpecial (nlen pre) (pre ++ flat_map (fun s => 47 :: s) P)
  = POk (match P with [] => pre | _ => Bs pre (removelast P) end).
Proof.
  intros Hns. unfold pop_path.
  destruct (rev P) as [|x r] eqn:Er.
  - assert (P = []) as -> by (rewrite <- (rev_involutive P), Er; reflexivity).
    cbn [flat_map]. rewrite app_nil_r. replace (nlen pre <? nlen pre) with false by lia. reflexivity.
  - assert (P = rev r ++ [x]) as EP by (rewrite <- (rev_involutive P), Er; reflexivity).
    set (P' := rev r) in *. rewrite EP in *. rewrite removelast_last.
    rewrite forallb_app in Hns. apply andb_true_iff in Hns. destruct Hns as [_ Hx].
    cbn [forallb] in Hx. rewrite andb_true_r in Hx.
    rewrite flat_map_snoc. set (X := flat_map (fun s => 47 :: s) P').
    replace (nlen pre <? nlen (pre ++ X ++ 47 :: x)) with true by (symmetry; apply N.ltb_lt; lenl).
    rewrite nskipn_app_len. rewrite (rfind_app_last 47 X x) by exact Hx.
    cbn [st_is_file andb]. unfold truncate.
    replace (nlen pre + nlen X + 1) with (nlen ((pre ++ X) ++ [47])) by lenl.
    replace (pre ++ X ++ 47 :: x) with (((pre ++ X) ++ [47]) ++ x) by (rewrite <- !app_assoc; reflexivity).
    rewrite nfirstn_app_len. rewrite Bs_flat.
    destruct (P' ++ [x]) eqn:E; [destruct P'; discriminate E | reflexivity].
Qed.

(* ================= the common end of the two path arms ================= *)
Section Arms.
Variable dbg : bool.
Variable hp hpo : list N -> result host.
Variable hd : host -> list N.
Variable ovr : option (list N -> list N).
Variable shp : bool -> list N -> option spec_host.
Variable shs : spec_host -> list N.

Definition arm_expr (b : url) (s0 r : list N) : pres url :=
  ' (s, _, rem) <~ parse_path dbg CUrlParser STNotSpecial true (path_start b) s0 r ;;
  with_query_and_fragment ovr CUrlParser STNotSpecial (scheme_end b) (username_end b) (host_start b) (host_end b)
                          (hosti b) (port b) (path_start b) s rem.

Theorem path_arm_related b sb P0 r :
  related dbg shs b sb -> has_opaque_path sb = false -> is_special_scheme (su_scheme sb) = false ->
  scheme_canon (su_scheme sb) = true ->
  usv_list r -> forallb no_slash P0 = true -> forallb no_qh (flat_map (fun s => 47 :: s) P0) = true ->
  spath_ok (ntnl r) P0 [] = true ->
  exists u, oob (U32_MAX_P < nlen (ser u)) (arm_expr b (Bs (nfirstn (path_start b) (ser b)) P0) r) u
            /\ related dbg shs u (rel_path_result sb P0 (ntnl r))
            /\ spec_base_ok (rel_path_result sb P0 (ntnl r)) = true.
Proof.
  intros R Hop Hnsp Hcan Hur Hns0 Hqh0 Hok.
  pose proof (rel_wf _ _ _ _ R) as W. pose proof (path_start_le_len b W) as Lps.
  set (pre := nfirstn (path_start b) (ser b)).
  assert (nlen pre = path_start b) as Lpre by (apply nlen_nfirstn; exact Lps).
  destruct (loop_from_segments dbg pre r P0 Hur Hns0 Hok Hqh0) as (Hpp & Hsnd & Hqh1 & Hns1 & Hne1).
  rewrite Lpre in Hpp.
  set (P1 := fst (spath (ntnl r) P0 [])) in *.
  set (T := flat_map (fun s => 47 :: s) P1) in *.
  set (rest := cbb_rest r) in *.
  set (q := pqf_q STNotSpecial rest). set (f := pqf_f rest).
  assert (usv_list rest) as Hurest by (apply usv_cbb_rest; exact Hur).
  pose proof (not_special_type _ Hnsp) as Hns.
  destruct (related_scheme_colon dbg shs b sb R) as (Ecol & Ese & Ec58).
  pose proof (wf_se_lt_ps b W) as Hseps.
  (* the Standard's record *)
  assert (rel_path_result sb P0 (ntnl r) = rel_url sb P1 q f) as ES.
  { unfold rel_path_result. fold P1. rewrite Hsnd. fold rest.
    rewrite tail_url_ns; [reflexivity | exact Hnsp | reflexivity | reflexivity | apply cbb_rest_head]. }
  rewrite ES.
  assert (spec_base_ok (rel_url sb P1 q f) = true) as HBok.
  { unfold spec_base_ok, rel_url. cbn [su_scheme path_segments su_path]. rewrite Hcan, Hns1. reflexivity. }
  assert (match ntnl rest with [] => True | c :: _ => is_qh c = true end) as Hhead.
  { pose proof (cbb_rest_head r) as Hh. fold rest in Hh. destruct rest as [|d dr]; [exact I|]. destruct Hh as [Hh1 Hh2].
    rewrite ntnl_cons by exact Hh2. exact Hh1. }
  assert (opt_clean T_QUERY q) as Hq by (apply pqf_q_clean; exact Hurest).
  assert (exists body, T = 47 :: body) as [body ET].
  { unfold T. destruct P1 as [|p0 Pr]; [contradiction|]. eexists. reflexivity. }
  unfold arm_expr. fold pre. rewrite Hpp. cbn [pbind].
  destruct (has_authority_b b) eqn:Ha.
  - (* the base has an authority *)
    pose proof (related_host_iff dbg shs b sb R) as Hh. rewrite Ha in Hh.
    destruct (su_host sb) as [h|] eqn:Eh; [|discriminate Hh].
    pose proof (wf_auth_facts b W Ha) as F.
    pose proof (af_ue F) as B1. pose proof (af_hs F) as B2. pose proof (af_he F) as B3. pose proof (af_ps F) as B4.
    exists (auth_path_url b T q f). split; [|split; [|exact HBok]].
    + rewrite wqf_plain; [|lia|].
      2:{ unfold has_authority_b in Ha. rewrite <- Ha.
          apply (pre_starts_with (path_start b)); [|change (nlen s_css) with 3; lia].
          apply agree_pre_nfirstn. exact Lps. }
      eapply oob_bind.
      { apply (pqf_oob ovr (U32_MAX_P < nlen (ser (auth_path_url b T q f)))); [exact Hurest | | exact Hhead |].
        - rewrite <- app_assoc. rewrite nfirstn_app_le by lia. unfold pre. rewrite nfirstn_nfirstn by lia.
          fold (b_scheme b). rewrite (rel_sch _ _ _ _ R). apply query_enc_nonspecial. exact Hns.
        - fold q f. intros Hlt. exact Hlt. }
      fold q f. right. reflexivity.
    + apply (related_auth_path dbg shs b sb h P1 q f); assumption.
  - (* no authority: the canonical authority-less record *)
    pose proof (related_host_iff dbg shs b sb R) as Hh. rewrite Ha in Hh.
    destruct (su_host sb) as [h|] eqn:Eh; [discriminate Hh|].
    pose proof (wf_noauth_facts b W Ha) as F.
    apply byte_eqb_nnth in Ec58 || idtac.
    pose proof (related_not_cbb dbg shs b sb R Hop) as Hcb.
    pose proof (noauth_cbb_byte b W Hcb) as B47. apply byte_eqb_nnth in B47.
    destruct (noauth_front_eval dbg b Ec58 B47 (nf_ue F) (nf_host F)) as (_ & Fun & Fpw & Fhs).
    (* the Standard's record has no credentials, host or port *)
    pose proof (rel_api _ _ _ _ R) as A.
    destruct (accessors_reconcatenate dbg b W)
      as (sch0 & un & pw & hs & pth & qb & fb & Es1 & Eun & Epw & Ehs & Ept & Eq & Ef & _).
    rewrite (api_by_accessors dbg b W sch0 un pw hs pth qb fb Es1 Eun Epw Ehs Ept Eq Ef) in A.
    unfold api_of_parts, spec_api_list in A. injection A as _ _ E3 E4 _ _ E7 _ _ _.
    assert (un = []) as -> by congruence. assert (pw = None) as -> by congruence.
    rewrite (nf_port F) in E7. cbn [port_text optl] in E3, E4, E7.
    assert (su_port sb = None) as Epo.
    { unfold get_port in E7. destruct (su_port sb) as [p|]; [|reflexivity].
      exfalso. apply (serialize_integer_nonempty p). symmetry. exact E7. }
    assert (rel_url sb P1 q f = spec_noauth_url (su_scheme sb) P1 q f) as ->.
    { unfold rel_url, spec_noauth_url. unfold get_username in E3. unfold get_password in E4.
      rewrite <- E3, <- E4, Eh, Epo. reflexivity. }
    set (sch := su_scheme sb) in *.
    assert (wf_b (noauth_url sch T q f) = true) as WU.
    { rewrite ET. apply noauth_url_wf2; [exact Hcan | rewrite <- ET; exact Hqh1 | exact Hq]. }
    exists (noauth_url sch T q f). split; [|split; [|exact HBok]].
    2:{ apply related_noauth; assumption. }
    (* the model *)
    rewrite (nf_ue F), (nf_hs F), (nf_he F), (nf_host F), (nf_port F), Ese.
    replace (nlen sch + 1) with (nlen (sch ++ [58])) by (rewrite nlen_app; reflexivity).
    assert (oob (U32_MAX_P < nlen (ser (noauth_url sch T q f)))
                (' (s2, qs, fs) <~ parse_query_and_fragment ovr CUrlParser STNotSpecial (nlen sch) (noauth_pre sch T) rest ;;
                 POk (mkUrl s2 (nlen sch) (nlen (sch ++ [58])) (nlen (sch ++ [58])) (nlen (sch ++ [58])) HI_None None
                            (nlen (sch ++ [58]) + nlen (marker_of T)) qs fs))
                (noauth_url sch T q f)) as Hfin.
    { eapply oob_bind.
      { apply (pqf_oob ovr (U32_MAX_P < nlen (ser (noauth_url sch T q f)))); [exact Hurest | | exact Hhead |].
        - unfold noauth_pre. rewrite <- !app_assoc. rewrite nfirstn_app_len. apply query_enc_nonspecial. exact Hns.
        - fold q f. intros Hlt. exact Hlt. }
      fold q f. right. reflexivity. }
    destruct (nf_ps F) as [Eps|(Eps & M1 & M2 & M3)].
    + (* no marker in the base *)
      assert (pre = sch ++ [58]) as -> by (unfold pre; rewrite Eps; exact Ecol).
      rewrite Eps, Ese. replace (nlen sch + 1) with (nlen (sch ++ [58])) by (rewrite nlen_app; reflexivity).
      rewrite (wqf_noauth_eq hp hpo ovr sch T rest) by (rewrite ET; reflexivity). cbv zeta. exact Hfin.
    + (* the base carries the "/." marker *)
      apply byte_eqb_nnth in M1, M2.
      assert (pre = sch ++ [58; 47; 46]) as ->.
      { unfold pre. rewrite Eps. replace (scheme_end b + 3) with (scheme_end b + 1 + 1 + 1) by lia.
        rewrite (nfirstn_succ _ (scheme_end b + 1 + 1) 46) by (replace (scheme_end b + 1 + 1) with (scheme_end b + 2) by lia; exact M2).
        rewrite (nfirstn_succ _ (scheme_end b + 1) 47 M1). rewrite Ecol. rewrite <- !app_assoc. reflexivity. }
      rewrite Eps, Ese. replace (nlen sch + 3) with (nlen (sch ++ [58]) + 2) by (rewrite nlen_app; unfold nlen at 2; cbn [length]; lia).
      rewrite ET. rewrite (wqf_noauth_marker ovr sch body rest). cbv zeta. rewrite <- ET. exact Hfin.
Qed.

End Arms.

(* ================= the classes ================= *)
(* recognisers on the Standard's side.  Exclusion, in both: a ".." that would pop a drive-letter-shaped
   segment (finding F-C01-9, Known_C01 class 2) - spath_ok runs the Standard's own path state. *)
Definition in_class_rel_abs (sb : spec_url) (input : list N) : bool :=
  negb (has_opaque_path sb) && negb (is_special_scheme (su_scheme sb))
  && match spec_clean input with
     | c :: t => (c =? 47) && negb (starts_with_cp 47 t) && spath_ok t [] []
     | [] => false
     end.

Definition in_class_rel_path (sb : spec_url) (input : list N) : bool :=
  negb (has_opaque_path sb) && negb (is_special_scheme (su_scheme sb))
  && match spec_scheme (spec_clean input) with None => true | Some _ => false end
  && match spec_clean input with
     | c :: t => negb (c =? 47) && negb (c =? 63) && negb (c =? 35)
                 && spath_ok (c :: t) (removelast (path_segments sb)) []
     | [] => false
     end.

Section RelClasses.
Variable dbg : bool.
Variable hp hpo : list N -> result host.
Variable hd : host -> list N.
Variable ovr : option (list N -> list N).
Variable shp : bool -> list N -> option spec_host.
Variable shs : spec_host -> list N.

Lemma oob_agree (m : pres url) u su : oob (U32_MAX_P < nlen (ser u)) m u -> related dbg shs u su ->
  agree_rel_strict dbg shs m (BDone su).
Proof.
  intros HO R. cbn [agree_rel_strict]. rewrite <- (related_href dbg shs u su R).
  destruct HO as [[E B]|E]; [left; split; assumption | right; exists u; split; assumption].
Qed.

(* ---------- "/x/y?q#f" ---------- *)
Theorem class_rel_abs input b sb : usv_list input -> related dbg shs b sb ->
  scheme_canon (su_scheme sb) = true -> in_class_rel_abs sb input = true ->
  exists su, spec_basic_url_parse shp input (Some sb) = BDone su /\ spec_base_ok su = true
    /\ agree_rel_strict dbg shs (parse_url dbg hp hpo hd ovr (Some b) input) (BDone su).
Proof.
  intros Hu R Hcan Hc. unfold in_class_rel_abs in Hc.
  apply andb_true_iff in Hc. destruct Hc as [Hc Hok]. apply andb_true_iff in Hc. destruct Hc as [H1 H2].
  assert (has_opaque_path sb = false) as Hop by (destruct (has_opaque_path sb); [discriminate | reflexivity]).
  assert (is_special_scheme (su_scheme sb) = false) as Hnsp
    by (destruct (is_special_scheme (su_scheme sb)); [discriminate | reflexivity]).
  destruct (spec_clean input) as [|c t] eqn:Ecl; [discriminate Hok|].
  apply andb_true_iff in Hok. destruct Hok as [Hok Hsp]. apply andb_true_iff in Hok. destruct Hok as [E47 H47].
  apply N.eqb_eq in E47. subst c. apply negb_true_iff in H47.
  exists (rel_path_result sb [] t).
  assert (spec_basic_url_parse shp input (Some sb) = BDone (rel_path_result sb [] t)) as HS.
  { apply spec_parse_of_runs. exact (runs_rel_abs shp (spec_clean input) sb Hop Hnsp t Ecl H47). }
  split; [exact HS|].
  (* the model *)
  pose proof (rel_wf _ _ _ _ R) as W. pose proof (path_start_le_len b W) as Lps.
  rewrite spec_clean_is_ntnl_trim in Ecl. set (l0 := input_new_trim_c0 input) in *.
  assert (usv_list l0) as Hul0 by (apply usv_trim; exact Hu).
  destruct (inp_next_some l0 47 t Ecl) as (r1 & En & Er1 & _).
  pose proof (inp_next_usv l0 47 r1 Hul0 En) as Hur1.
  assert (parse_url dbg hp hpo hd ovr (Some b) input
          = arm_expr dbg ovr b (Bs (nfirstn (path_start b) (ser b)) []) r1) as Epu.
  { rewrite (parse_url_relative dbg hp hpo hd ovr b input 47 t
               (related_not_cbb dbg shs b sb R Hop) (related_not_special dbg shs b sb R Hnsp) Ecl eq_refl eq_refl).
    fold l0. unfold parse_relative, inp_split_first. rewrite En.
    replace (47 =? 63) with false by reflexivity. replace (47 =? 35) with false by reflexivity.
    replace (47 =? 47) with true by reflexivity. cbn [orb st_is_special andb].
    destruct (inp_count_matching (fun d => (d =? 47) || (d =? 92) && false) l0) as [sl rem'] eqn:Ecm.
    assert (sl < 2) as Hsl.
    { pose proof (inp_count_matching_fst (fun d => (d =? 47) || (d =? 92) && false) l0) as Hf.
      rewrite Ecm in Hf. cbn [fst] in Hf. rewrite Hf, Ecl. cbn [count_leading].
      replace (47 =? 47) with true by reflexivity. cbn [orb].
      destruct t as [|d t']; [cbn [count_leading]; lia|]. cbn [count_leading starts_with_cp] in *.
      rewrite H47. rewrite andb_false_r. cbn [orb]. lia. }
    replace (2 <=? sl) with false by lia.
    unfold arm_expr. assert (Bs (nfirstn (path_start b) (ser b)) [] = nfirstn (path_start b) (ser b) ++ [47]) as ->
      by (unfold Bs; cbn [segs_text map concat]; apply app_nil_r).
    reflexivity. }
  rewrite <- Er1 in Hsp.
  destruct (path_arm_related dbg hp hpo ovr shp shs b sb [] r1 R Hop Hnsp Hcan Hur1 eq_refl eq_refl Hsp) as (u & HO & Ru & Hb).
  rewrite Er1 in Ru, Hb. split; [exact Hb|]. rewrite Epu. exact (oob_agree _ u _ HO Ru).
Qed.

(* ---------- "x/../y?q#f" ---------- *)
Lemma removelast_prefix_no_qh (P : list (list N)) :
  forallb no_qh (flat_map (fun s => 47 :: s) P) = true ->
  forallb no_qh (flat_map (fun s => 47 :: s) (removelast P)) = true.
Proof.
  intros H. destruct (rev P) as [|x r] eqn:Er.
  - assert (P = []) as -> by (rewrite <- (rev_involutive P), Er; reflexivity). reflexivity.
  - assert (P = rev r ++ [x]) as -> by (rewrite <- (rev_involutive P), Er; reflexivity).
    rewrite removelast_last. rewrite flat_map_snoc, forallb_app in H. apply andb_true_iff in H. tauto.
Qed.

Theorem class_rel_path input b sb : usv_list input -> related dbg shs b sb ->
  spec_base_ok sb = true -> in_class_rel_path sb input = true ->
  exists su, spec_basic_url_parse shp input (Some sb) = BDone su /\ spec_base_ok su = true
    /\ agree_rel_strict dbg shs (parse_url dbg hp hpo hd ovr (Some b) input) (BDone su).
Proof.
  intros Hu R Hbok Hc. unfold in_class_rel_path in Hc.
  apply andb_true_iff in Hbok. destruct Hbok as [Hcan HnsP].
  apply andb_true_iff in Hc. destruct Hc as [Hc Hok]. apply andb_true_iff in Hc. destruct Hc as [Hc Hsch].
  apply andb_true_iff in Hc. destruct Hc as [H1 H2].
  assert (has_opaque_path sb = false) as Hop by (destruct (has_opaque_path sb); [discriminate | reflexivity]).
  assert (is_special_scheme (su_scheme sb) = false) as Hnsp
    by (destruct (is_special_scheme (su_scheme sb)); [discriminate | reflexivity]).
  assert (spec_scheme (spec_clean input) = None) as Hs by (destruct (spec_scheme (spec_clean input)); [discriminate | reflexivity]).
  destruct (spec_clean input) as [|c t] eqn:Ecl; [discriminate Hok|].
  apply andb_true_iff in Hok. destruct Hok as [Hok Hsp]. apply andb_true_iff in Hok. destruct Hok as [Hok E35].
  apply andb_true_iff in Hok. destruct Hok as [E47 E63]. apply negb_true_iff in E47, E63, E35.
  set (P := path_segments sb) in *.
  exists (rel_path_result sb (removelast P) (c :: t)).
  assert (spec_basic_url_parse shp input (Some sb) = BDone (rel_path_result sb (removelast P) (c :: t))) as HS.
  { apply spec_parse_of_runs. rewrite Ecl.
    pose proof (runs_rel_path shp (c :: t) sb Hop Hnsp c t eq_refl Hs E47 E63 E35) as K. exact K. }
  split; [exact HS|].
  (* the model *)
  pose proof (rel_wf _ _ _ _ R) as W. pose proof (path_start_le_len b W) as Lps.
  set (pre := nfirstn (path_start b) (ser b)).
  assert (nlen pre = path_start b) as Lpre by (apply nlen_nfirstn; exact Lps).
  destruct (related_pre dbg shs b sb R) as [Ebq _]. fold pre in Ebq.
  assert (serialize_path sb = flat_map (fun s => 47 :: s) P) as EPth.
  { unfold serialize_path, P, path_segments. unfold has_opaque_path in Hop. destruct (su_path sb); [discriminate Hop | reflexivity]. }
  rewrite EPth in Ebq.
  assert (forallb no_qh (flat_map (fun s => 47 :: s) P) = true) as HqhP.
  { pose proof (qf_facts_of b W) as (_ & _ & _ & Q4 & _).
    pose proof (before_query_path_end b W) as E. rewrite Ebq in E.
    destruct (wf_ps_le_path_end b W) as [L1 L2].
    assert (nfirstn (path_end b - path_start b) (nskipn (path_start b) (ser b)) = flat_map (fun s => 47 :: s) P) as EE.
    { rewrite <- (nfirstn_nskipn (path_start b) (nfirstn (path_end b) (ser b))) in E.
      rewrite nfirstn_nfirstn in E by lia. fold pre in E. apply app_inv_head in E. rewrite E.
      unfold nskipn, nfirstn. rewrite N2Nat.inj_sub. rewrite firstn_skipn_comm.
      replace (N.to_nat (path_start b) + (N.to_nat (path_end b) - N.to_nat (path_start b)))%nat with (N.to_nat (path_end b)) by lia.
      reflexivity. }
    rewrite EE in Q4. exact Q4. }
  rewrite spec_clean_is_ntnl_trim in Ecl. set (l0 := input_new_trim_c0 input) in *.
  assert (usv_list l0) as Hul0 by (apply usv_trim; exact Hu).
  destruct (inp_next_some l0 c t Ecl) as (r1 & En & Er1 & _).
  assert (parse_url dbg hp hpo hd ovr (Some b) input = arm_expr dbg ovr b (Bs pre (removelast P)) l0) as Epu.
  { rewrite (parse_url_relative dbg hp hpo hd ovr b input c t
               (related_not_cbb dbg shs b sb R Hop) (related_not_special dbg shs b sb R Hnsp) Ecl Hs E35).
    fold l0. unfold parse_relative, inp_split_first. rewrite En. rewrite E63, E35, E47.
    cbn [orb st_is_special andb]. rewrite andb_false_r. rewrite Ebq, <- Lpre.
    rewrite (pop_path_segments pre P HnsP). cbn [pbind].
    rewrite (related_not_special dbg shs b sb R Hnsp). cbn [st_is_special orb].
    rewrite inp_is_empty_ntnl, Ecl. cbn [negb].
    rewrite match47, E47. unfold arm_expr. rewrite <- Lpre.
    destruct P as [|p0 Pr] eqn:EP.
    - rewrite N.eqb_refl. cbn [andb removelast].
      assert (Bs pre [] = pre ++ [47]) as -> by (unfold Bs; cbn [segs_text map concat]; apply app_nil_r).
      reflexivity.
    - pose proof (Bs_len_ge pre (removelast (p0 :: Pr))) as Lb.
      replace (nlen (Bs pre (removelast (p0 :: Pr))) =? nlen pre) with false by lia. cbn [andb]. reflexivity. }
  rewrite <- Ecl in Hsp.
  destruct (path_arm_related dbg hp hpo ovr shp shs b sb (removelast P) l0 R Hop Hnsp Hcan Hul0
              (no_slash_removelast P HnsP) (removelast_prefix_no_qh P HqhP) Hsp) as (u & HO & Ru & Hb).
  fold pre in HO. rewrite Ecl in Ru, Hb. split; [exact Hb|]. rewrite Epu. exact (oob_agree _ u _ HO Ru).
Qed.

End RelClasses.

(* ================= the Standard's side alone, as the parser is invoked ================= *)
Section SpecRelParse.
Variable shp : bool -> list N -> option spec_host.

Theorem spec_rel_abs input sb t : has_opaque_path sb = false -> is_special_scheme (su_scheme sb) = false ->
  spec_clean input = 47 :: t -> starts_with_cp 47 t = false ->
  spec_basic_url_parse shp input (Some sb) = BDone (rel_path_result sb [] t).
Proof.
  intros Hop Hnsp Ecl H47. apply spec_parse_of_runs. exact (runs_rel_abs shp (spec_clean input) sb Hop Hnsp t Ecl H47).
Qed.

Theorem spec_rel_path input sb c t : has_opaque_path sb = false -> is_special_scheme (su_scheme sb) = false ->
  spec_clean input = c :: t -> spec_scheme (c :: t) = None ->
  (c =? 47) = false -> (c =? 63) = false -> (c =? 35) = false ->
  spec_basic_url_parse shp input (Some sb) = BDone (rel_path_result sb (removelast (path_segments sb)) (c :: t)).
Proof.
  intros Hop Hnsp Ecl Hs E47 E63 E35. apply spec_parse_of_runs. rewrite Ecl.
  exact (runs_rel_path shp (c :: t) sb Hop Hnsp c t eq_refl Hs E47 E63 E35).
Qed.

End SpecRelParse.

(* containment on the Standard's side: the path arms keep scheme, credentials, host and port of the base *)
Definition spec_same_front (sb su : spec_url) : Prop :=
  su_scheme su = su_scheme sb /\ su_username su = su_username sb /\ su_password su = su_password sb
  /\ su_host su = su_host sb /\ su_port su = su_port sb.

Lemma rel_path_result_front sb P0 t : spec_same_front sb (rel_path_result sb P0 t).
Proof.
  unfold rel_path_result, tail_url, spec_same_front. destruct (snd (spath t P0 [])) as [|c r]; [repeat split|].
  destruct (c =? 63); [|repeat split; reflexivity].
  unfold query_final, frag_opt. destruct (C01_EqRun.after_hash r); repeat split; reflexivity.
Qed.

(* ================= the three classes together ================= *)
Definition in_class_relative (sb : spec_url) (input : list N) : bool :=
  in_class_rel_abs sb input || in_class_rel_path sb input || in_class_rel_authority sb input.

Theorem class_relative dbg hp hpo hd ovr shp shs input b sb : usv_list input -> related dbg shs b sb ->
  spec_base_ok sb = true -> in_class_relative sb input = true ->
  (in_class_rel_authority sb input = true -> host_agree hpo hd shp shs (rel_host_text input)) ->
  agree_rel_strict dbg shs (parse_url dbg hp hpo hd ovr (Some b) input) (spec_basic_url_parse shp input (Some sb)).
Proof.
  intros Hu R Hb Hc HH. pose proof Hb as Hb0. apply andb_true_iff in Hb0. destruct Hb0 as [Hcan _].
  unfold in_class_relative in Hc. apply orb_true_iff in Hc. destruct Hc as [Hc|Hc]; [apply orb_true_iff in Hc; destruct Hc as [Hc|Hc]|].
  - destruct (class_rel_abs dbg hp hpo hd ovr shp shs input b sb Hu R Hcan Hc) as (su & -> & _ & A). exact A.
  - destruct (class_rel_path dbg hp hpo hd ovr shp shs input b sb Hu R Hb Hc) as (su & -> & _ & A). exact A.
  - exact (class_rel_authority dbg hp hpo hd ovr shp shs input b sb Hu R Hcan Hc (HH Hc)).
Qed.
