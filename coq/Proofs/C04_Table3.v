(* Proofs/C04_Table3.v - the inventory table of Proofs/C04_Table2.v with real claims on eleven more of the rows that still
   carried the trivial one (task c04rows).
   C04_Table2.table2 leaves 33 of the 167 rows with the claim True: 27 KByType rows, 2 KDocumented, 4 KHarness.  Eleven of the
   27 KByType functions DO have a Gallina model; this file replaces their trivial claim by a statement on that model:
     - Url::port                        (UrlRecord.port): on a well-formed record (wf_b) the port is a u16;
     - Url::has_host                    (UrlRecord.has_host): false exactly when Url::host() is Some None - it never
                                        disagrees with host() / host_str() / domain(), whatever the record;
     - Origin::is_tuple                 (Origin.is_tuple): false exactly when the ASCII serialization is "null";
     - Origin::ascii_serialization      (Origin.ascii_serialization): total (format!), and ASCII whenever scheme and
                                        host text are - the decimal port is ASCII for every N;
     - SchemeType::is_special / is_file (UrlRecord.st_is_special / st_is_file over scheme_type_of = SchemeType::from):
                                        exactly the six special schemes / exactly "file"; a default port implies
                                        special-not-file;
     - parser::ascii_alpha              (Prelude.is_alpha): exactly A-Z a-z, hence ASCII;
     - parser::is_windows_drive_letter  (Parser.is_wdl): exactly the two-character texts letter + ':' or '|' - the
                                        byte indexing [0], [1] of starts_with_windows_drive_letter is behind len = 2;
     - Serializer::encoding_override    (FormUrlencoded.ser_encoding_override): the one Serializer method that has NO
                                        panic outcome, even after finish(); target and start position unchanged;
     - Decoder::new                     (Base64.decoder_new): the three counters start at 0 - inside u32 / u8 / u8 -
                                        and nothing has been written to the sink;
     - DataUrl::mime_type               (DataUrl.mime_type): on a result of DataUrl::process it is the first component
                                        of parse_header on the text between "data:" and the first comma.
   table3 is COMPUTED from table2 and the list `overrides3` as table2 is from table; kinds are those of table2 (the new
   rows get KRange).  trivial_rows3_eq lists, by name and in source order, the 22 rows that stay trivial;
   why_trivial gives the reason of each one and why_total checks that every such row has a reason. *)
From Coq Require Import String Ascii.
From RU Require Import Base.Prelude Base.Utf8 Gen.Tables Model.HostT Model.UrlRecord Model.Parser Model.WF Model.Origin.
From RU Require Base.Outcome_c15 Model.FormUrlencoded Model.Base64 Model.Mime Model.DataUrl.
From RU Require Proofs.C04_Inventory Proofs.C04_Table Proofs.C04_Table2 Proofs.C04_Utf8.

Inductive claim3_id :=
| R_old (q : C04_Table2.claim2_id)
| R_port | R_has_host | R_is_tuple | R_origin_ascii | R_scheme_type | R_alpha | R_wdl | R_ser_enc | R_decoder_new
| R_mime_type.

Definition claim3_trivial (q : claim3_id) : bool :=
  match q with R_old i => C04_Table2.claim2_trivial i | _ => false end.

Definition six_special (s : list N) : Prop :=
  s = s_http \/ s = s_https \/ s = s_ws \/ s = s_wss \/ s = s_ftp \/ s = s_file.

Definition claim3 (q : claim3_id) : Prop :=
  match q with
  | R_old i => C04_Table2.claim2 i
  | R_port =>
      (* Url::port reads the field (Option<u16>); on a well-formed record the value IS a u16, and a record without
         authority has none *)
      forall u p, wf_b u = true -> port u = Some p -> p <= 65535 /\ has_authority_b u = true
  | R_has_host =>
      (* Url::has_host = !matches!(self.host, HostInternal::None): it is false exactly when Url::host() returns None
         (host() may slice - a panic outcome or Some (Some _) otherwise, never Some None), and then host_str() and
         domain() return None as well; no premise on the record *)
      forall u, (has_host u = false <-> host_of u = Some None)
                /\ (has_host u = false -> host_str u = Some None /\ domain u = Some None)
                /\ (has_host u = true -> host_str u <> Some None)
  | R_is_tuple =>
      (* Origin::is_tuple = matches!(self, Origin::Tuple(..)): false exactly when the serialization is "null" *)
      forall (hd : host -> list N) o, is_tuple o = false <-> ascii_serialization hd o = s_null
  | R_origin_ascii =>
      (* Origin::ascii_serialization (format!: total): ASCII whenever the scheme and the host text are; the port
         written by `{}` on a u16 is ASCII for every number *)
      forall (hd : host -> list N) o,
        match o with Tuple s h _ => ascii s /\ ascii (host_fmt hd h) | Opaque _ => True end ->
        ascii (ascii_serialization hd o)
  | R_scheme_type =>
      (* SchemeType::from + is_special / is_file: exactly the six special schemes, exactly "file"; is_file implies
         is_special; a scheme with a default port is special and not file *)
      forall s, (st_is_special (scheme_type_of s) = true <-> six_special s)
                /\ (st_is_file (scheme_type_of s) = true <-> s = s_file)
                /\ (st_is_file (scheme_type_of s) = true -> st_is_special (scheme_type_of s) = true)
                /\ (default_port s <> None -> scheme_type_of s = STSpecialNotFile)
  | R_alpha =>
      (* parser::ascii_alpha = ch.is_ascii_alphabetic() *)
      forall c, is_alpha c = true <-> (65 <= c <= 90 \/ 97 <= c <= 122)
  | R_wdl =>
      (* parser::is_windows_drive_letter(segment) = segment.len() == 2 && starts_with_windows_drive_letter(segment):
         the indexing as_bytes()[0], [1] happens behind len == 2, [2] behind len != 2; exact class *)
      forall s, (is_wdl s = true <-> exists a b, s = [a; b] /\ is_alpha a = true /\ (b = 58 \/ b = 124))
                /\ (is_normalized_wdl s = true <-> exists a, s = [a; 58] /\ is_alpha a = true)
  | R_ser_enc =>
      (* Serializer::encoding_override: no panic outcome on any serializer - finished ones included, unlike every other
         method -; target and start position are kept *)
      forall (T : Type) (s : FormUrlencoded.serializer T) o,
        exists s', FormUrlencoded.ser_encoding_override T s o = Outcome_c15.Ok s'
                   /\ FormUrlencoded.ser_target s' = FormUrlencoded.ser_target s
                   /\ FormUrlencoded.ser_start s' = FormUrlencoded.ser_start s
  | R_decoder_new =>
      (* Decoder::new: bit_buffer (u32), buffer_bit_length (u8), padding_symbols (u8) start at 0; the sink is the
         argument *)
      forall (W : Type) (w : W),
        Base64.d_sink (Base64.decoder_new w) = w
        /\ Base64.d_buf (Base64.decoder_new w) = 0 /\ Base64.d_len (Base64.decoder_new w) = 0
        /\ Base64.d_pad (Base64.decoder_new w) = 0
  | R_mime_type =>
      (* DataUrl::mime_type on a result of DataUrl::process: the record it hands out is the first component of
         parse_header on the header text between "data:" and the first comma (C17_mime_type ties that one to Fetch),
         the base64 flag is the second, the body is what follows the comma *)
      forall input u, DataUrl.process input = Mime.Ok (inl u) ->
        exists after h B, DataUrl.pretend_parse_data_url (utf8_encode input) = Mime.Ok (Some after)
          /\ DataUrl.find_comma_before_fragment after = Mime.Ok (Some (h, B))
          /\ DataUrl.parse_header h = Mime.Ok (DataUrl.mime_type u, DataUrl.du_base64 u)
          /\ DataUrl.du_encoded_body_plus_fragment u = B
  end.

(* ---------------------------------------------------------------- proofs *)
Ltac split_andb :=
  repeat match goal with
         | H : (_ && _) = true |- _ => apply andb_prop in H; destruct H
         end.

Lemma port_claim u p : wf_b u = true -> port u = Some p -> p <= 65535 /\ has_authority_b u = true.
Proof.
  intros Hw Hp. unfold wf_b in Hw. apply andb_prop in Hw. destruct Hw as [Hw _].
  apply andb_prop in Hw. destruct Hw as [_ Hw].
  destruct (has_authority_b u) eqn:Ea.
  - split; [|reflexivity]. unfold wf_authority in Hw. cbv zeta in Hw.
    apply andb_prop in Hw. destruct Hw as [Hw _]. apply andb_prop in Hw. destruct Hw as [_ Hw].
    rewrite Hp in Hw. apply andb_prop in Hw. destruct Hw as [_ Hw]. lia.
  - exfalso. unfold wf_no_authority in Hw. cbv zeta in Hw.
    apply andb_prop in Hw. destruct Hw as [Hw _]. apply andb_prop in Hw. destruct Hw as [Hw _].
    apply andb_prop in Hw. destruct Hw as [_ Hw]. rewrite Hp in Hw. discriminate.
Qed.

Lemma has_host_claim u :
  (has_host u = false <-> host_of u = Some None)
  /\ (has_host u = false -> host_str u = Some None /\ domain u = Some None)
  /\ (has_host u = true -> host_str u <> Some None).
Proof.
  unfold has_host, host_of, host_str, domain, has_host. destruct (hosti u) as [| |a|p].
  - split; [split; reflexivity|]. split; [intros _; split; reflexivity | discriminate].
  - split; [|split; [discriminate|]].
    + split; [discriminate|]. destruct (u_slice u (host_start u) (host_end u)); cbn; discriminate.
    + intros _. destruct (u_slice u (host_start u) (host_end u)); cbn; discriminate.
  - split; [split; discriminate|]. split; [discriminate|].
    intros _. destruct (u_slice u (host_start u) (host_end u)); cbn; discriminate.
  - split; [split; discriminate|]. split; [discriminate|].
    intros _. destruct (u_slice u (host_start u) (host_end u)); cbn; discriminate.
Qed.

Lemma tuple_ser_colon hd s h p : In 58 (ascii_serialization hd (Tuple s h p)).
Proof.
  cbn [ascii_serialization]. unfold tuple_serialization, s_css.
  destruct (opt_eqb (default_port s) (Some p)); apply in_or_app; right; left; reflexivity.
Qed.

Lemma is_tuple_claim (hd : host -> list N) o : is_tuple o = false <-> ascii_serialization hd o = s_null.
Proof.
  destruct o as [i|s h p]; cbn [is_tuple].
  - split; reflexivity.
  - split; [discriminate|]. intros H. exfalso. pose proof (tuple_ser_colon hd s h p) as Hin. rewrite H in Hin.
    unfold s_null in Hin. cbn [In] in Hin. lia.
Qed.

Lemma decimal_ascii n : ascii (decimal n).
Proof.
  unfold decimal, ascii. apply Forall_rev. eapply Forall_impl; [|exact (C04_Utf8.decimal_rev_digits 40 n)].
  cbv beta. unfold is_ascii. intros a Ha. lia.
Qed.

Lemma origin_ascii_claim (hd : host -> list N) o :
  match o with Tuple s h _ => ascii s /\ ascii (host_fmt hd h) | Opaque _ => True end ->
  ascii (ascii_serialization hd o).
Proof.
  destruct o as [i|s h p]; cbn [ascii_serialization].
  - intros _. unfold s_null, ascii. repeat constructor.
  - intros [Hs Hh]. assert (ascii s_css) as Hc by (unfold s_css, ascii; repeat constructor).
    assert (ascii [58]) as H58 by (unfold ascii; repeat constructor).
    unfold tuple_serialization. destruct (opt_eqb (default_port s) (Some p)).
    + apply ascii_app. split; [exact Hs|]. apply ascii_app. split; assumption.
    + apply ascii_app. split; [exact Hs|]. apply ascii_app. split; [exact Hc|]. apply ascii_app. split; [exact Hh|].
      apply ascii_app. split; [exact H58 | apply decimal_ascii].
Qed.

Lemma list_eqb_false_ne a b : list_eqb a b = false -> a <> b.
Proof. intros H E. apply list_eqb_spec in E. rewrite E in H. discriminate. Qed.

Ltac st_fin :=
  repeat split;
  first [ solve [auto 10] | (intros Hst; discriminate Hst) | (intros Hst; exfalso; apply Hst; discriminate) ].

Lemma scheme_type_claim s :
  (st_is_special (scheme_type_of s) = true <-> six_special s)
  /\ (st_is_file (scheme_type_of s) = true <-> s = s_file)
  /\ (st_is_file (scheme_type_of s) = true -> st_is_special (scheme_type_of s) = true)
  /\ (default_port s <> None -> scheme_type_of s = STSpecialNotFile).
Proof.
  unfold scheme_type_of, default_port, six_special.
  destruct (list_eqb s s_http) eqn:E1; [apply list_eqb_spec in E1; subst s; vm_compute; st_fin|].
  destruct (list_eqb s s_https) eqn:E2; [apply list_eqb_spec in E2; subst s; vm_compute; st_fin|].
  destruct (list_eqb s s_ws) eqn:E3; [apply list_eqb_spec in E3; subst s; vm_compute; st_fin|].
  destruct (list_eqb s s_wss) eqn:E4; [apply list_eqb_spec in E4; subst s; vm_compute; st_fin|].
  destruct (list_eqb s s_ftp) eqn:E5; [apply list_eqb_spec in E5; subst s; vm_compute; st_fin|].
  apply list_eqb_false_ne in E1, E2, E3, E4, E5. cbn [orb].
  destruct (list_eqb s s_file) eqn:E6.
  - apply list_eqb_spec in E6. cbn [st_is_special st_is_file]. split; [|split; [|split]].
    + split; [intros _; do 5 right; exact E6 | reflexivity].
    + split; [intros _; exact E6 | reflexivity].
    + reflexivity.
    + intros H. exfalso. apply H. reflexivity.
  - apply list_eqb_false_ne in E6. cbn [st_is_special st_is_file]. split; [|split; [|split]].
    + split; [discriminate|]. intros [H|[H|[H|[H|[H|H]]]]]; contradiction.
    + split; [discriminate | intros H; contradiction].
    + discriminate.
    + intros H. exfalso. apply H. reflexivity.
Qed.

Lemma alpha_claim c : is_alpha c = true <-> (65 <= c <= 90 \/ 97 <= c <= 122).
Proof. unfold is_alpha, is_upper, is_lower. lia. Qed.

Lemma wdl_claim s :
  (is_wdl s = true <-> exists a b, s = [a; b] /\ is_alpha a = true /\ (b = 58 \/ b = 124))
  /\ (is_normalized_wdl s = true <-> exists a, s = [a; 58] /\ is_alpha a = true).
Proof.
  unfold is_normalized_wdl, is_wdl, starts_with_wdl.
  destruct s as [|a [|b [|c r]]]; cbn [length Nat.eqb andb].
  - split; (split; [discriminate|]); [intros (a & b & H & _) | intros (a & H & _)]; discriminate.
  - split; (split; [discriminate|]); [intros (a' & b & H & _) | intros (a' & H & _)]; discriminate.
  - split; split.
    + intros H. exists a, b. split; [reflexivity|]. destruct (is_alpha a); [|discriminate]. split; [reflexivity|]. lia.
    + intros (a' & b' & H & Ha & Hb). inversion H; subst. rewrite Ha. lia.
    + intros H. exists a. destruct (is_alpha a); [|discriminate]. split; [|reflexivity]. f_equal. f_equal. lia.
    + intros (a' & H & Ha). inversion H; subst. rewrite Ha. reflexivity.
  - split; (split; [discriminate|]); [intros (a' & b' & H & _) | intros (a' & H & _)]; discriminate.
Qed.

Lemma mime_type_claim input u : DataUrl.process input = Mime.Ok (inl u) ->
  exists after h B, DataUrl.pretend_parse_data_url (utf8_encode input) = Mime.Ok (Some after)
    /\ DataUrl.find_comma_before_fragment after = Mime.Ok (Some (h, B))
    /\ DataUrl.parse_header h = Mime.Ok (DataUrl.mime_type u, DataUrl.du_base64 u)
    /\ DataUrl.du_encoded_body_plus_fragment u = B.
Proof.
  unfold DataUrl.process, DataUrl.process_bytes. intros H.
  destruct (DataUrl.pretend_parse_data_url (utf8_encode input)) as [[after|]| |] eqn:E1; cbn [Mime.bind] in H;
    try discriminate H.
  destruct (DataUrl.find_comma_before_fragment after) as [[[h B]|]| |] eqn:E2; cbn [Mime.bind] in H; try discriminate H.
  destruct (DataUrl.parse_header h) as [[m b]| |] eqn:E3; cbn [Mime.bind fst snd] in H; try discriminate H.
  inversion H; subst. exists after, h, B. unfold DataUrl.mime_type.
  cbn [DataUrl.du_mime_type DataUrl.du_base64 DataUrl.du_encoded_body_plus_fragment].
  repeat split; assumption.
Qed.

Theorem claims3_hold : forall q, claim3 q.
Proof.
  destruct q; cbn [claim3].
  - apply C04_Table2.claims2_hold.
  - exact port_claim.
  - exact has_host_claim.
  - exact is_tuple_claim.
  - exact origin_ascii_claim.
  - exact scheme_type_claim.
  - exact alpha_claim.
  - exact wdl_claim.
  - intros T s o. eexists. split; [reflexivity|]. split; reflexivity.
  - intros W w. repeat split.
  - exact mime_type_claim.
Qed.

(* ---------------------------------------------------------------- the table *)
Record row3 := R3 { r3_crate : string; r3_name : string; r3_kind : C04_Table2.kind2; r3_claim : claim3_id;
                    r3_theorem : string }.

Local Open Scope string_scope.
(* (crate, name, claim, where the claim is pinned) - every entry replaces the trivial claim of a K KByType row of table2 *)
Definition overrides3 : list (string * string * claim3_id * string) := [
  ("url", "Url::has_host", R_has_host, "C04_no_panic_inventory3 (claim R_has_host)");
  ("url", "Url::port", R_port, "C04_no_panic_inventory3 (claim R_port)");
  ("url", "Origin::is_tuple", R_is_tuple, "C04_no_panic_inventory3 (claim R_is_tuple)");
  ("url", "Origin::ascii_serialization", R_origin_ascii, "C04_no_panic_inventory3 (claim R_origin_ascii)");
  ("url", "SchemeType::is_special", R_scheme_type, "C04_no_panic_inventory3 (claim R_scheme_type)");
  ("url", "SchemeType::is_file", R_scheme_type, "C04_no_panic_inventory3 (claim R_scheme_type)");
  ("url", "parser::ascii_alpha", R_alpha, "C04_no_panic_inventory3 (claim R_alpha)");
  ("url", "parser::is_windows_drive_letter", R_wdl, "C04_no_panic_inventory3 (claim R_wdl)");
  ("form_urlencoded", "Serializer::encoding_override", R_ser_enc, "C04_no_panic_inventory3 (claim R_ser_enc)");
  ("data_url", "DataUrl::mime_type", R_mime_type, "C04_no_panic_inventory3 (claim R_mime_type) + C17_mime_type");
  ("data_url", "Decoder::new", R_decoder_new, "C04_no_panic_inventory3 (claim R_decoder_new)")
].

(* the rows that stay trivial, with the reason (checked against the table below: why_total) *)
Definition why_trivial : list (string * string * string) := [
  ("url", "ParseOptions::base_url", "builder: stores the argument in a field; no model");
  ("url", "ParseOptions::encoding_override", "builder: stores the argument in a field; no model");
  ("url", "ParseOptions::syntax_violation_callback", "KHarness: callback plumbing; no model");
  ("url", "Url::options", "constructor of ParseOptions (all fields None); no model");
  ("url", "Url::as_str", "field read &self.serialization = UrlRecord.ser; nothing to state beside the record invariants of C02 / C03");
  ("url", "Url::into_string", "field move self.serialization = UrlRecord.ser; nothing to state");
  ("url", "Url::socket_addrs", "KHarness: std::net I/O; no model");
  ("url", "Url::serialize_internal", "KHarness: serde; no model");
  ("url", "Url::deserialize_internal", "KHarness: serde; no model");
  ("url", "Host::to_owned", "Host<&str> -> Host<String> clone; the model has one host type, the function is the identity on it");
  ("url", "SyntaxViolation::description", "match of a fieldless enum to string literals; no model");
  ("url", "Parser::for_setter", "constructor of Parser around a String; no model (the setters take the serialization directly)");
  ("url", "quirks::internal_components", "copies nine fields of the record into InternalComponents; no model");
  ("url", "quirks::href", "= Url::as_str (Setters.q_href u = ser u by definition); nothing to state");
  ("idna", "Idna::new", "deprecated constructor: stores the Config; no model");
  ("idna", "Config::use_std3_ascii_rules", "builder: sets one bool of Uts46.config; no model function");
  ("idna", "Config::transitional_processing", "builder: sets one bool of Uts46.config; no model function");
  ("idna", "Config::verify_dns_length", "builder: sets one bool of Uts46.config; no model function");
  ("idna", "Config::check_hyphens", "builder: sets one bool of Uts46.config; no model function");
  ("idna", "Config::use_idna_2008_rules", "KDocumented: documented panic, probed by the harness; no model");
  ("idna", "AsciiDenyList::new", "KDocumented: documented panic of a const fn, probed by the harness; no model");
  ("idna", "Uts46::new", "constructor of a unit-like struct; no model")
].
Local Close Scope string_scope.

Definition o_crate (o : string * string * claim3_id * string) : string := fst (fst (fst o)).
Definition o_name (o : string * string * claim3_id * string) : string := snd (fst (fst o)).
Definition o_claim (o : string * string * claim3_id * string) : claim3_id := snd (fst o).
Definition o_theorem (o : string * string * claim3_id * string) : string := snd o.

Definition find_override3 (crate name : string) : option (string * string * claim3_id * string) :=
  find (fun o => String.eqb crate (o_crate o) && String.eqb name (o_name o)) overrides3.

Definition upgrade3 (r : C04_Table2.row2) : row3 :=
  match find_override3 (C04_Table2.r2_crate r) (C04_Table2.r2_name r) with
  | Some o => R3 (C04_Table2.r2_crate r) (C04_Table2.r2_name r) C04_Table2.KRange (o_claim o) (o_theorem o)
  | None => R3 (C04_Table2.r2_crate r) (C04_Table2.r2_name r) (C04_Table2.r2_kind r) (R_old (C04_Table2.r2_claim r))
               (C04_Table2.r2_theorem r)
  end.

Definition table3 : list row3 := map upgrade3 C04_Table2.table2.

Definition row3_key (r : row3) : list N * list N :=
  (C04_Inventory.bytes_of_string (r3_crate r), C04_Inventory.bytes_of_string (r3_name r)).

Definition count_kind3 (k : C04_Table2.kind2) : nat :=
  length (filter (fun r => C04_Table2.kind2_eqb (r3_kind r) k) table3).

(* every regenerated public function has exactly one row, in source order *)
Theorem table3_complete : map row3_key table3 = T_C04_API.
Proof. vm_compute. reflexivity. Qed.

(* every override names exactly one row of table2, and that row was K KByType with the trivial claim; the new claim is
   not the trivial one *)
Definition overrides3_sound_b : bool :=
  forallb (fun o =>
    Nat.eqb (length (filter (fun r => String.eqb (C04_Table2.r2_crate r) (o_crate o)
                                      && String.eqb (C04_Table2.r2_name r) (o_name o)
                                      && C04_Table2.kind2_eqb (C04_Table2.r2_kind r) (C04_Table2.K C04_Table.KByType)
                                      && C04_Table2.claim2_trivial (C04_Table2.r2_claim r)) C04_Table2.table2)) 1
    && negb (claim3_trivial (o_claim o))) overrides3.
Theorem overrides3_sound : overrides3_sound_b = true.
Proof. vm_compute. reflexivity. Qed.

(* the rows that are not overridden are the rows of table2: kind and pinned theorem *)
Definition table3_keeps_b : bool :=
  forallb (fun p => match find_override3 (C04_Table2.r2_crate (fst p)) (C04_Table2.r2_name (fst p)) with
                    | Some _ => C04_Table2.kind2_eqb (r3_kind (snd p)) C04_Table2.KRange
                    | None => C04_Table2.kind2_eqb (r3_kind (snd p)) (C04_Table2.r2_kind (fst p))
                              && String.eqb (r3_theorem (snd p)) (C04_Table2.r2_theorem (fst p))
                    end) (combine C04_Table2.table2 table3).
Theorem table3_keeps : table3_keeps_b = true.
Proof. vm_compute. reflexivity. Qed.

(* exactly the rows of kind K KByType / K KDocumented / K KHarness carry the trivial claim *)
Definition kinds3_consistent_b : bool :=
  forallb (fun r => Bool.eqb (C04_Table2.trivial_kind2 (r3_kind r)) (claim3_trivial (r3_claim r))) table3.
Theorem kinds3_consistent : kinds3_consistent_b = true.
Proof. vm_compute. reflexivity. Qed.

(* the claim of every row holds *)
Theorem table3_sound : Forall (fun r => claim3 (r3_claim r)) table3.
Proof. apply Forall_forall. intros r _. apply claims3_hold. Qed.

(* rows with a claim on a model (not the trivial one) *)
Definition model_rows : nat := length (filter (fun r => negb (claim3_trivial (r3_claim r))) table3).

Theorem table3_counts :
  length table3 = 167%nat /\ length overrides3 = 11%nat /\ model_rows = 145%nat
  /\ count_kind3 (C04_Table2.K C04_Table.KTheorem) = 76%nat /\ count_kind3 (C04_Table2.K C04_Table.KExact) = 20%nat
  /\ count_kind3 (C04_Table2.K C04_Table.KOutside) = 17%nat /\ count_kind3 C04_Table2.KRange = 32%nat
  /\ count_kind3 (C04_Table2.K C04_Table.KByType) = 16%nat /\ count_kind3 (C04_Table2.K C04_Table.KDocumented) = 2%nat
  /\ count_kind3 (C04_Table2.K C04_Table.KHarness) = 4%nat.
Proof. vm_compute. repeat split. Qed.

(* the rows still carrying the trivial claim: exactly the rows of why_trivial, in source order *)
Definition trivial_rows3 : list (string * string) :=
  map (fun r => (r3_crate r, r3_name r)) (filter (fun r => claim3_trivial (r3_claim r)) table3).

Definition pair_eqb (a b : string * string) : bool := String.eqb (fst a) (fst b) && String.eqb (snd a) (snd b).
Fixpoint pairs_eqb (a b : list (string * string)) : bool :=
  match a, b with
  | [], [] => true
  | x :: a', y :: b' => pair_eqb x y && pairs_eqb a' b'
  | _, _ => false
  end.

Definition why_total_b : bool :=
  pairs_eqb trivial_rows3 (map (fun w => (fst (fst w), snd (fst w))) why_trivial)
  && Nat.eqb (length why_trivial) 22.
Theorem why_total : why_total_b = true.
Proof. vm_compute. reflexivity. Qed.
