(* Proofs/C05_Qpm.v - Url::query_pairs_mut sessions (Model/QueryPairs.v) keep the component invariant CInv, the
   byte alphabet, the two offsets scheme_end / username_end, the scheme and the host text.
   The session is C15's (C15_Url.session_shape): the record is `edited u str'` where str' keeps everything in front
   of the query, has '?' there, and the new query text consists of bytes of the form_urlencoded output alphabet
   [A-Za-z0-9*-._+%&=] and bytes of the old query - none of which is '#', space, dquote, '<', '>'. *)
From RU Require Import Proofs.C15_Table Proofs.C15_Bser Proofs.C15_Ser Proofs.C15_Url.
From RU Require Import Base.Prelude Base.Utf8 Base.Outcome_c15 Model.AsciiSet Gen.Tables Model.PercentEncoding
  Model.HostT Model.UrlRecord Model.Parser Model.Setters Model.WF Model.FormUrlencoded Model.QueryPairs
  Proofs.C03_WF Proofs.C05_Enc Proofs.C05_Parser Proofs.C05_Comp Proofs.C05_CompSteps Proofs.C05_AuthOfs
  Proofs.C06_List Proofs.C06_Suffix Proofs.C06_Main.
Open Scope N_scope.
Open Scope list_scope.

Lemma form_alpha_ok_byte c : form_alpha c = true -> ok_byte c.
Proof.
  intros H. unfold form_alpha, val_alpha, unchanged_spec in H. unfold ok_byte.
  unfold is_alnum, is_alpha, is_upper, is_lower, is_digit in H. lia.
Qed.

Lemma form_alpha_not_dq c : form_alpha c = true -> ~ In c D_QUERY.
Proof.
  intros H Hin. unfold D_QUERY in Hin. cbn [In] in Hin.
  destruct Hin as [<-|[<-|[<-|[<-|[<-|[]]]]]]; vm_compute in H; discriminate H.
Qed.

Lemma forall_split_at (P : N -> Prop) l i c : nnth l i = Some c ->
  Forall P (nfirstn i l) -> P c -> Forall P (nskipn (i + 1) l) -> Forall P l.
Proof.
  intros Hn H1 Hc H2. rewrite <- (ListN.nfirstn_nskipn i l). apply Forall_app. split; [exact H1|].
  rewrite (nskipn_cons_of_nnth l i c Hn). constructor; assumption.
Qed.

Theorem qpm_inv dbg u ops u' : CInv dbg u -> Forall ok_or_space (ser u) -> Forall op_ok ops ->
  query_pairs_session dbg u ops = Some u' ->
  CInv dbg u' /\ Forall ok_or_space (ser u') /\ sf u u' /\ scheme u' = scheme u /\ host_str u' = host_str u.
Proof.
  intros [[W HT] (A & B & C & D & E)] Hoks Hops H.
  assert (Forall (fun b => b < 128) (ser u)) as Hasc.
  { eapply Forall_impl; [|exact Hoks]. intros b Hb. unfold ok_or_space in Hb. lia. }
  destruct (session_shape dbg u W Hasc ops Hops) as (str' & H1 & F1 & F2 & F3 & _ & F5).
  rewrite H in H1. inversion H1; subst u'. clear H1.
  assert (Hns : Forall (fun c => negb (c =? 35) = true) (nskipn (path_end u + 1) str')).
  { apply (F5 (fun c => negb (c =? 35) = true) alpha_not_sharp). apply old_query_no_sharp. exact W. }
  assert (W' : wf_b (edited u str') = true) by (eapply wf_edited; eassumption).
  assert (Eu : username dbg (edited u str') = username dbg u) by (eapply username_edited; eassumption).
  assert (Ep : password dbg (edited u str') = password dbg u) by (eapply password_edited; eassumption).
  assert (Eh : host_str (edited u str') = host_str u) by (eapply host_str_edited; eassumption).
  assert (Epa : path (edited u str') = path u) by (eapply path_edited; eassumption).
  assert (Es : scheme (edited u str') = scheme u) by (eapply scheme_edited; eassumption).
  assert (Ef : fragment dbg (edited u str') = fragment dbg u) by (eapply fragment_edited; eassumption).
  assert (Eq : query dbg (edited u str') = Some (Some (nskipn (path_end u + 1) str'))) by (eapply query_edited; eassumption).
  split; [|split; [|split; [split; reflexivity | split; assumption]]].
  - split; [split; [exact W'|]|].
    + exact (host_text_ok_of_host_str u _ W W' Eh eq_refl eq_refl eq_refl HT).
    + unfold comp_ok. rewrite Eu, Ep, Epa, Ef, Eq.
      split; [exact A|]. split; [exact B|]. split; [exact C|]. split; [|exact E].
      intros q Hq. inversion Hq; subst q.
      assert (Forall (fun c => ~ In c D_QUERY) (nskipn (path_end u + 1) str')) as X.
      { apply (F5 (fun c => ~ In c D_QUERY) form_alpha_not_dq).
        rewrite <- (old_query_of_query dbg u W).
        destruct (query dbg u) as [[x|]|] eqn:Equ; [|constructor|constructor].
        apply Forall_forall. intros c Hc Hd. exact (D x eq_refl c Hd Hc). }
      intros d Hd Hin. rewrite Forall_forall in X. exact (X d Hin Hd).
  - unfold edited. cbn [ser]. apply Forall_app. split.
    + apply (forall_split_at ok_or_space str' (path_end u) 63 F3).
      * rewrite F2. apply Forall_nfirstn. exact Hoks.
      * unfold ok_or_space. lia.
      * apply (F5 ok_or_space (fun c Hc => ok_byte_or_space c (form_alpha_ok_byte c Hc))).
        unfold old_query. destruct (query_start u); [|constructor]. apply Forall_nfirstn, Forall_nskipn. exact Hoks.
    + unfold frag_tail. destruct (fragment_start u); [|constructor].
      constructor; [unfold ok_or_space; lia | apply Forall_nskipn; exact Hoks].
Qed.

(* path() is kept *)
Theorem qpm_path dbg u ops u' : wf_b u = true -> Forall ok_or_space (ser u) -> Forall op_ok ops ->
  query_pairs_session dbg u ops = Some u' -> path u' = path u.
Proof.
  intros W Hoks Hops H.
  assert (Forall (fun b => b < 128) (ser u)) as Hasc.
  { eapply Forall_impl; [|exact Hoks]. intros b Hb. unfold ok_or_space in Hb. lia. }
  destruct (session_shape dbg u W Hasc ops Hops) as (str' & H1 & F1 & F2 & F3 & _ & F5).
  rewrite H in H1. inversion H1; subst u'. eapply path_edited; eassumption.
Qed.
