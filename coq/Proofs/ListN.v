(* Proofs/ListN.v - facts about the N-indexed list helpers of Model/UrlRecord.v *)
From RU Require Import Base.Prelude Model.HostT Model.UrlRecord.

Lemma skipn_skipn_nat {A} (a b : nat) (l : list A) : skipn a (skipn b l) = skipn (a + b) l.
Proof.
  revert l. induction b as [|b IH]; intros l.
  - rewrite Nat.add_0_r. reflexivity.
  - destruct l as [|x l].
    + rewrite !skipn_nil. reflexivity.
    + rewrite Nat.add_succ_r. cbn [skipn]. apply IH.
Qed.

Lemma firstn_add_nat {A} (a b : nat) (l : list A) : firstn (a + b) l = firstn a l ++ firstn b (skipn a l).
Proof.
  revert l. induction a as [|a IH]; intros l; [reflexivity|].
  destruct l as [|x l]; [cbn [skipn]; rewrite !firstn_nil; reflexivity|].
  cbn [Nat.add firstn skipn app]. f_equal. apply IH.
Qed.

Lemma nlen_app a b : nlen (a ++ b) = nlen a + nlen b.
Proof. unfold nlen. rewrite app_length. lia. Qed.

Lemma nlen_nil : nlen [] = 0.
Proof. reflexivity. Qed.

Lemma nlen_cons x l : nlen (x :: l) = 1 + nlen l.
Proof. unfold nlen. cbn [length]. lia. Qed.

Lemma nlen_nfirstn n l : n <= nlen l -> nlen (nfirstn n l) = n.
Proof. unfold nlen, nfirstn. intros H. rewrite firstn_length. lia. Qed.

Lemma nlen_nfirstn_le n l : nlen (nfirstn n l) <= n.
Proof. unfold nlen, nfirstn. rewrite firstn_length. lia. Qed.

Lemma nlen_nskipn n l : nlen (nskipn n l) = nlen l - n.
Proof. unfold nlen, nskipn. rewrite skipn_length. lia. Qed.

Lemma nfirstn_nskipn n l : nfirstn n l ++ nskipn n l = l.
Proof. unfold nfirstn, nskipn. apply firstn_skipn. Qed.

Lemma nskipn_nskipn a b l : nskipn a (nskipn b l) = nskipn (a + b) l.
Proof. unfold nskipn. rewrite skipn_skipn_nat. f_equal. lia. Qed.

Lemma nskipn_0 l : nskipn 0 l = l.
Proof. reflexivity. Qed.

Lemma nfirstn_all n l : nlen l <= n -> nfirstn n l = l.
Proof. unfold nlen, nfirstn. intros H. apply firstn_all2. lia. Qed.

Lemma nskipn_all n l : nlen l <= n -> nskipn n l = [].
Proof. unfold nlen, nskipn. intros H. apply skipn_all2. lia. Qed.

(* consecutive pieces of one list *)
Lemma piece_app l a b c : a <= b -> b <= c ->
  nfirstn (b - a) (nskipn a l) ++ nfirstn (c - b) (nskipn b l) = nfirstn (c - a) (nskipn a l).
Proof.
  intros Hab Hbc. unfold nfirstn, nskipn.
  replace (N.to_nat b) with (N.to_nat (b - a) + N.to_nat a)%nat by lia.
  rewrite <- skipn_skipn_nat.
  set (m := skipn (N.to_nat a) l).
  replace (N.to_nat (c - a)) with (N.to_nat (b - a) + N.to_nat (c - b))%nat by lia.
  rewrite firstn_add_nat. reflexivity.
Qed.

Lemma piece_to_end l a b : a <= b ->
  nfirstn (b - a) (nskipn a l) ++ nskipn b l = nskipn a l.
Proof.
  intros Hab. unfold nfirstn, nskipn.
  replace (N.to_nat b) with (N.to_nat (b - a) + N.to_nat a)%nat by lia.
  rewrite <- skipn_skipn_nat. apply firstn_skipn.
Qed.

Lemma nnth_lt l i x : nnth l i = Some x -> i < nlen l.
Proof.
  unfold nnth, nlen. intros H.
  assert (nth_error l (N.to_nat i) <> None) as H1 by congruence.
  apply nth_error_Some in H1. lia.
Qed.

(* a one-byte piece *)
Lemma piece_one l i x : nnth l i = Some x -> nfirstn 1 (nskipn i l) = [x].
Proof.
  unfold nnth, nfirstn, nskipn. change (N.to_nat 1) with 1%nat.
  generalize (N.to_nat i). clear i. intros n. revert l.
  induction n as [|n IH]; intros l H.
  - destruct l; [discriminate|]. cbn in *. congruence.
  - destruct l; [discriminate|]. cbn [nth_error skipn] in *. apply IH. exact H.
Qed.

Lemma slice_o_some l a b : a <= b -> b <= nlen l -> slice_o l a b = Some (nfirstn (b - a) (nskipn a l)).
Proof. intros H1 H2. unfold slice_o. replace ((a <=? b) && (b <=? nlen l)) with true by lia. reflexivity. Qed.

Lemma slice_from_o_some l a : a <= nlen l -> slice_from_o l a = Some (nskipn a l).
Proof. intros H. unfold slice_from_o. replace (a <=? nlen l) with true by lia. reflexivity. Qed.

Lemma slice_to_o_some l b : b <= nlen l -> slice_to_o l b = Some (nfirstn b l).
Proof. intros H. unfold slice_to_o. replace (b <=? nlen l) with true by lia. reflexivity. Qed.

Lemma starts_with_app p l : starts_with p (p ++ l) = true.
Proof. induction p as [|x p IH]; [reflexivity|]. cbn [app starts_with]. rewrite N.eqb_refl. exact IH. Qed.

Lemma starts_with_split p l : starts_with p l = true -> l = p ++ skipn (length p) l.
Proof.
  revert l. induction p as [|x p IH]; intros l H; [reflexivity|].
  destruct l as [|y l]; [discriminate|]. cbn [starts_with] in H.
  apply andb_true_iff in H. destruct H as [H1 H2]. apply N.eqb_eq in H1. subst y.
  cbn [app length skipn]. f_equal. apply IH. exact H2.
Qed.
