(* Proofs/C04_CostPath.v - the path state is NOT linear in the cost model of Model/Cost.v.
   F-C04-8: every ".." segment resolved at the root of the path makes last_slash_can_be_removed search
   the whole serialization in front of the path for a '/', so m such segments behind a prefix of
   length L cost at least m * L steps (family "aaaa...:/../../../").
   F-C04-6: PathSegmentsMut::extend on a file: URL copies the whole path once per segment. *)
From RU Require Import Base.Prelude Base.Utf8 Base.Utf8Facts Model.AsciiSet Gen.Tables
  Model.PercentEncoding Model.HostT Model.UrlRecord Model.Parser Model.Setters Model.WF Model.Cost
  Proofs.ListN Proofs.C14_Set Proofs.C14_Enc Proofs.C14_Views Proofs.C02_Enc Proofs.C02_Parts
  Proofs.C02_Opaque Proofs.C02_Path Proofs.C02_PathL1 Proofs.C04_Cost.

(* the input "../" m times *)
Fixpoint dotdots (m : nat) : list N :=
  match m with O => [] | S k => 46 :: 46 :: 47 :: dotdots k end.

Lemma rfind_none b t : no_byte b t = true -> rfind b t = None.
Proof. intros H. unfold rfind. apply rfind_aux_none. exact H. Qed.

Section Root.
Variable pre : list N.
Variable dbg : bool.
Hypothesis pre_no_slash : no_byte 47 pre = true.
Notation ps := (nlen pre).
Notation P := (pre ++ [47]).

Lemma nlen_P : nlen P = ps + 1.
Proof. rewrite nlen_app. reflexivity. Qed.

(* finish_segment on  pre "/" ".." "/"  gives back  pre "/" *)
Lemma finish_dotdot_root hh :
  finish_segment dbg STNotSpecial ps (P ++ [46; 46] ++ [47]) (nlen P) true hh = POk (P, hh).
Proof.
  set (s1 := P ++ [46; 46] ++ [47]).
  assert (slice_o s1 (nlen P) (nlen s1 - 1) = Some [46; 46]) as Hslice.
  { assert (nlen s1 - 1 = nlen P + nlen [46; 46]) as E
      by (unfold s1; rewrite !nlen_app; unfold nlen; cbn [length]; lia).
    rewrite E. unfold s1. apply slice_mid. }
  unfold finish_segment. rewrite Hslice. cbn [of_option pbind is_double_dot].
  assert ((if dbg then match (if 1 <=? nlen P then nnth s1 (nlen P - 1) else None) with
                       | Some b => passert (b =? 47) | None => PPanic end else POk tt) = POk tt) as Hdbg.
  { destruct dbg; [|reflexivity]. rewrite nlen_P. replace (1 <=? ps + 1) with true by lia.
    replace (ps + 1 - 1) with ps by lia. unfold s1. rewrite <- app_assoc.
    change ([47] ++ [46; 46] ++ [47]) with (47 :: [46; 46; 47]).
    unfold nnth, nlen. rewrite Nat2N.id. rewrite nth_error_app2 by lia. rewrite Nat.sub_diag. reflexivity. }
  rewrite Hdbg. cbn [pbind].
  assert (truncate s1 (nlen P) = P) as Htr by (unfold truncate, s1; apply nfirstn_app_len).
  rewrite Htr. rewrite ends_with_byte_snoc. cbn [andb].
  assert (last_slash_can_be_removed P ps = false) as Hl.
  { unfold last_slash_can_be_removed. rewrite nlen_P. replace (ps + 1 - 1) with ps by lia.
    rewrite nfirstn_app_len. rewrite (rfind_none 47 pre pre_no_slash). reflexivity. }
  rewrite Hl.
  assert (shorten_path STNotSpecial ps P = POk P) as Hsh.
  { unfold shorten_path, pop_path. rewrite nlen_P.
    replace (ps + 1 =? ps) with false by lia. cbn [st_is_file andb].
    replace (ps <? ps + 1) with true by lia. rewrite nskipn_app_len.
    change (rfind 47 [47]) with (Some 0). unfold truncate.
    replace (ps + 0 + 1) with (nlen P) by (rewrite nlen_P; lia). rewrite nfirstn_all by lia. reflexivity. }
  rewrite Hsh. cbn [pbind]. rewrite ends_with_byte_snoc. reflexivity.
Qed.

Lemma finish_dotdot_root_cost :
  ps + 1 <= finish_segment_cost STNotSpecial ps (P ++ [46; 46] ++ [47]) (nlen P) true.
Proof.
  set (s1 := P ++ [46; 46] ++ [47]).
  assert (slice_o s1 (nlen P) (nlen s1 - 1) = Some [46; 46]) as Hslice.
  { assert (nlen s1 - 1 = nlen P + nlen [46; 46]) as E
      by (unfold s1; rewrite !nlen_app; unfold nlen; cbn [length]; lia).
    rewrite E. unfold s1. apply slice_mid. }
  unfold finish_segment_cost. rewrite Hslice. cbn [is_double_dot].
  assert (truncate s1 (nlen P) = P) as Htr by (unfold truncate, s1; apply nfirstn_app_len).
  rewrite Htr. rewrite ends_with_byte_snoc.
  assert (last_slash_cost P = ps + 1) as Hc.
  { unfold last_slash_cost, rcost. rewrite nlen_P. replace (ps + 1 - 1) with ps by lia.
    rewrite nfirstn_app_len. rewrite (rfind_none 47 pre pre_no_slash). lia. }
  rewrite Hc. lia.
Qed.

(* the pending ".." is written as ".." *)
Lemma push_dotdot ser : push_pending CUrlParser STNotSpecial ser [46; 46] = ser ++ [46; 46].
Proof.
  rewrite push_pending_eq by (repeat constructor; unfold is_usv; lia).
  replace (encode T_PATH (utf8_encode (rev [46; 46]))) with [46; 46] by (vm_compute; reflexivity). reflexivity.
Qed.

(* m rounds cost at least m * (L + 1), and the state is back at  pre "/"  after every round *)
Theorem dotdots_cost m hh :
  N.of_nat m * (ps + 1) <= snd (parse_path_loop_c dbg CUrlParser STNotSpecial ps (dotdots m) P (nlen P) [] hh).
Proof.
  induction m as [|k IH]; [cbn [N.of_nat]; lia|].
  cbn [dotdots parse_path_loop_c].
  replace (is_tnl 46) with false by reflexivity.
  replace (is_tnl 47) with false by reflexivity.
  cbn [ctx_eqb negb st_is_special st_is_file andb].
  replace (46 =? 47) with false by reflexivity. replace (46 =? 92) with false by reflexivity.
  replace (46 =? 63) with false by reflexivity. replace (46 =? 35) with false by reflexivity.
  replace (47 =? 47) with true by reflexivity. cbn [orb andb].
  rewrite push_dotdot. rewrite <- app_assoc. rewrite (finish_dotdot_root hh).
  pose proof finish_dotdot_root_cost as Hc.
  destruct (parse_path_loop_c dbg CUrlParser STNotSpecial ps (dotdots k) P (nlen P) [] hh) as [o n].
  cbn [fst snd] in *. rewrite Nat2N.inj_succ. lia.
Qed.
End Root.

(* no linear bound a * (|serialization so far| + |input|) + b holds for the path state *)
Theorem path_cost_not_linear : forall a b : N, exists pre l dbg hh,
  usv_list l /\
  a * (nlen (pre ++ [47]) + nlen l) + b
  < snd (parse_path_loop_c dbg CUrlParser STNotSpecial (nlen pre) l (pre ++ [47]) (nlen (pre ++ [47])) [] hh).
Proof.
  intros a b. set (K := 4 * a + b + 1).
  exists (repeat 97 (N.to_nat K - 1) ++ [58]), (dotdots (N.to_nat K)), true, false.
  assert (no_byte 47 (repeat 97 (N.to_nat K - 1) ++ [58]) = true) as Hn.
  { unfold no_byte. rewrite forallb_app. apply andb_true_iff. split; [|reflexivity].
    induction (N.to_nat K - 1)%nat as [|j IHj]; [reflexivity|]. cbn [repeat forallb]. rewrite IHj. reflexivity. }
  split.
  - assert (forall j, usv_list (dotdots j)) as G.
    { induction j as [|j IHj]; [constructor|]. cbn [dotdots].
      repeat (constructor; [unfold is_usv; lia|]). exact IHj. }
    apply G.
  - pose proof (dotdots_cost _ true Hn (N.to_nat K) false) as H.
    match goal with |- _ < ?X => set (C := X) in * end.
    assert (nlen (repeat 97 (N.to_nat K - 1) ++ [58]) = K) as HL.
    { rewrite nlen_app. unfold nlen. rewrite repeat_length. cbn [length]. unfold K. lia. }
    assert (nlen (dotdots (N.to_nat K)) = 3 * K) as HD.
    { unfold nlen. assert (forall j, length (dotdots j) = (3 * j)%nat) as G.
      { induction j as [|j IHj]; [reflexivity|]. cbn [dotdots length]. rewrite IHj. lia. }
      rewrite G. lia. }
    rewrite nlen_app, HL, HD. change (nlen [47]) with 1. rewrite HL in H. rewrite N2Nat.id in H.
    eapply N.lt_le_trans; [|exact H]. unfold K. nia.
Qed.

(* ---------------------------------------------------------------- F-C04-6: extend on file: URLs *)
Definition s_file_root : list N := s_file_css ++ [47].                        (* "file:///" *)
Definition s_http_root : list N := s_http ++ s_css ++ [104; 47].              (* "http://h/" *)
Definition pushes_cost (st : scheme_type) (ps : N) (root : list N) (n : nat) : N :=
  snd (psm_extend_loop_c true st ps root (repeat [97] n)).

(* n pushes of "a": on file:/// at least n^2 steps; on http://h/ at most 14 n + 1 *)
Lemma pushes_file_quadratic_50_100_200 :
  50 * 50 <= pushes_cost STFile 7 s_file_root 50
  /\ 100 * 100 <= pushes_cost STFile 7 s_file_root 100
  /\ 200 * 200 <= pushes_cost STFile 7 s_file_root 200
  /\ 3 * pushes_cost STFile 7 s_file_root 100 <= pushes_cost STFile 7 s_file_root 200.
Proof. vm_compute. repeat split; discriminate. Qed.

Lemma pushes_http_linear_50_100_200 :
  pushes_cost STSpecialNotFile 8 s_http_root 50 <= 14 * 50 + 1
  /\ pushes_cost STSpecialNotFile 8 s_http_root 100 <= 14 * 100 + 1
  /\ pushes_cost STSpecialNotFile 8 s_http_root 200 <= 14 * 200 + 1.
Proof. vm_compute. repeat split; discriminate. Qed.

Lemma pushes_results :
  fst (psm_extend_loop_c true STFile 7 s_file_root (repeat [97] 3)) = Some (s_file_root ++ [97; 47; 97; 47; 97])
  /\ fst (psm_extend_loop_c true STSpecialNotFile 8 s_http_root (repeat [97] 3)) = Some (s_http_root ++ [97; 47; 97; 47; 97]).
Proof. vm_compute. split; reflexivity. Qed.
