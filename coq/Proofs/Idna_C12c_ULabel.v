(* Proofs/Idna_C12c_ULabel.v - C12: the label step on the UTF-8 form of a non-ASCII buffer label.
   pres_unicode: a non-ASCII text dbl of scalar values that normalize_validate fixes, whose characters pass the deny
   list (with the dot), that passes check_label with both optional checks on and does not start with xn--, is turned
   by the fail-fast label step applied to utf8_encode dbl into the buffer label dbl with the entry AalOther.
   uts46.rs copies the ASCII prefix of the input label except its last character into the buffer and maps the rest:
   MapPrefix splits map_normalize accordingly, NvMapFix (Proofs/Idna_C12c_Stmt4.v) makes dbl a fixed point of it. *)
From RU Require Import Base.Prelude Base.Utf8 Base.Utf8Facts Base.U32_c13 Gen.Tables Model.Punycode Model.Uts46
  Proofs.Idna_Sim Proofs.Idna_Api Proofs.Idna_Known Proofs.Idna_Hyp Proofs.Idna_Redisc
  Proofs.Idna_C10_Deny Proofs.Idna_C10_Prefix Proofs.Idna_C10_Inner Proofs.Idna_C10_Walk
  Proofs.Idna_C10b_AsciiInner Proofs.Idna_C10b_AsciiWalk Proofs.Idna_C10b_Stmt Proofs.Idna_WalkInv Proofs.Idna_WalkEnc Proofs.Idna_WalkFun
  Proofs.Idna_C10c_Puny Proofs.Idna_C10c_Start Proofs.Idna_C10c_Drun Proofs.Idna_C10c_Loop Proofs.Idna_C10c_Rerun
  Proofs.Idna_C10c_Idem Proofs.Idna_Mark Proofs.Idna_C10d_CaseLabel Proofs.Idna_C10d_CaseLoop Proofs.Idna_C12c_Stmt4.

(* ---------------------------------------------------------------- UTF-8 of texts with an ASCII prefix *)
Lemma utf8_encode_ascii a : Forall (fun b => b < 128) a -> utf8_encode a = a.
Proof.
  induction 1 as [|x r Hx _ IH]; [reflexivity|]. unfold utf8_encode in *. cbn [flat_map]. rewrite IH.
  unfold utf8_encode1. replace (x <? 128) with true by lia. reflexivity.
Qed.
Lemma utf8_encode1_head c : 128 <= c -> exists b t, utf8_encode1 c = b :: t /\ 128 <= b.
Proof.
  intros H. unfold utf8_encode1. replace (c <? 128) with false by lia.
  destruct (c <? 2048); [eexists; eexists; split; [reflexivity|lia]|].
  destruct (c <? 65536); eexists; eexists; (split; [reflexivity|lia]).
Qed.
Lemma nonascii_split l : is_ascii_l l = false -> exists a c r, l = a ++ c :: r /\ Forall (fun b => b < 128) a /\ 128 <= c.
Proof.
  induction l as [|x t IH]; [discriminate|]. unfold is_ascii_l in *. cbn [forallb]. unfold is_ascii_cp at 1.
  destruct (x <? 128) eqn:E; cbn [andb]; intros H.
  - destruct (IH H) as (a & c & r & -> & Ha & Hc). exists (x :: a), c, r. split; [reflexivity|]. split; [constructor; [lia|exact Ha]|exact Hc].
  - exists [], x, t. split; [reflexivity|]. split; [constructor|lia].
Qed.
Lemma position_app_ascii a b t : Forall (fun x => x < 128) a -> 128 <= b ->
  position (fun x => negb (is_ascii_cp x)) (a ++ b :: t) = Some (length a).
Proof.
  induction 1 as [|x r Hx _ IH]; intros Hb; cbn [app position length]; unfold is_ascii_cp at 1.
  - replace (b <? 128) with false by lia. reflexivity.
  - replace (x <? 128) with true by lia. cbn [negb]. rewrite (IH Hb). reflexivity.
Qed.
Lemma snoc_cases {X} (l : list X) : l = [] \/ exists a x, l = a ++ [x].
Proof. destruct l as [|y t]; [left; reflexivity|right]. destruct (exists_last (l := y :: t) ltac:(discriminate)) as (a & x & E). exists a, x. exact E. Qed.

(* the split that label_nonempty makes of utf8_encode dbl: (asc, utf8_encode tail) with dbl = asc ++ tail *)
Lemma split_utf8 dbl : is_ascii_l dbl = false -> usv_list dbl ->
  exists asc tail, dbl = asc ++ tail /\ Forall (fun b => b < 128) asc /\ tail <> [] /\
    split_ascii_fast_path_prefix (utf8_encode dbl) = (asc, utf8_encode tail) /\ utf8_encode tail <> [] /\
    (asc <> [] -> exists x r, tail = x :: r /\ x < 128).
Proof.
  intros Hna Hu. destruct (nonascii_split dbl Hna) as (a0 & c & r & -> & Ha0 & Hc).
  destruct (utf8_encode1_head c Hc) as (b0 & t0 & Eb & Hb0).
  assert (Eenc : utf8_encode (a0 ++ c :: r) = a0 ++ b0 :: (t0 ++ utf8_encode r)).
  { rewrite utf8_encode_app, (utf8_encode_ascii a0 Ha0). unfold utf8_encode at 1. cbn [flat_map]. rewrite Eb. reflexivity. }
  assert (Ecr : utf8_encode (c :: r) = b0 :: (t0 ++ utf8_encode r)) by (unfold utf8_encode at 1; cbn [flat_map]; rewrite Eb; reflexivity).
  unfold split_ascii_fast_path_prefix. rewrite Eenc, (position_app_ascii a0 b0 _ Ha0 Hb0).
  destruct (snoc_cases a0) as [->|(a1 & x & ->)].
  - exists [], (c :: r). cbn [app length]. rewrite Ecr. repeat split; try discriminate; try constructor. intros H; contradiction H; reflexivity.
  - rewrite app_length. cbn [length]. replace (length a1 + 1)%nat with (Datatypes.S (length a1)) by lia.
    apply Forall_app in Ha0. destruct Ha0 as [Ha1 Hx]. inversion Hx as [|? ? Hx1 _]; subst.
    exists a1, (x :: c :: r). rewrite <- !app_assoc. cbn [app].
    rewrite firstn_app, firstn_all, Nat.sub_diag. cbn [firstn]. rewrite app_nil_r.
    rewrite skipn_app, skipn_all, Nat.sub_diag. cbn [skipn app].
    assert (Ex : utf8_encode (x :: c :: r) = x :: b0 :: (t0 ++ utf8_encode r)).
    { change (x :: c :: r) with ([x] ++ c :: r). rewrite utf8_encode_app, (utf8_encode_ascii [x]) by (constructor; [exact Hx1|constructor]). rewrite Ecr. reflexivity. }
    rewrite Ex. repeat split; try discriminate; try assumption. intros _. exists x, (c :: r). split; [reflexivity|exact Hx1].
Qed.

Lemma match_ne {X} (l : list N) (a b : X) : l <> [] -> match l with [] => a | _ :: _ => b end = b.
Proof. destruct l; [intros H; contradiction H; reflexivity|reflexivity]. Qed.
Lemma pres_ne A cfg deny hy l : l <> [] -> pres A cfg deny hy l = label_nonempty A cfg true hy deny l [] false [].
Proof. destruct l; [intros H; contradiction H; reflexivity|reflexivity]. Qed.

Lemma gc_apply_lower deny m c : gc (N.lor deny m) c -> apply_lower deny c = c.
Proof.
  intros H. pose proof (gc_okc deny m c H) as Ho. unfold apply_lower. destruct (c <? 128) eqn:E; [|reflexivity].
  assert (Hc : c < 128) by lia. specialize (Ho Hc). unfold deny_member in Ho. apply negb_false_iff in Ho. rewrite Ho. reflexivity.
Qed.
Lemma gc_map_lower deny m l : Forall (gc (N.lor deny m)) l -> map (apply_lower deny) l = l.
Proof. induction 1 as [|c r Hc _ IH]; [reflexivity|]. cbn [map]. rewrite IH, (gc_apply_lower deny m c Hc). reflexivity. Qed.

Section ULabel.
Variable A : adapter.
Variable cfg : bool.
Variable deny : N.
Variable hy : hyphens.
Hypothesis HU : DenyUpper deny.
Hypothesis HL : LdhFree deny.
Hypothesis HMP : MapPrefix A.
Hypothesis HMF : NvMapFix A.

Notation dd := (dd deny).

Lemma chk_nofcm x : chk A cfg hy x -> check_label A cfg true hy x false false true = SOk (x, false).
Proof.
  unfold chk, check_label. intros H. destruct (negb (hy_is_allow hy)).
  - rewrite check_hyphens_ff in *. destruct (hyphen_free (hy_is_cfl hy) x); cbn [sbind] in *; [|discriminate].
    destruct x as [|c t]; [exact H|]. destruct (is_mark A c); [discriminate|exact H].
  - cbn [sbind] in *. destruct x as [|c t]; [exact H|]. destruct (is_mark A c); [discriminate|exact H].
Qed.

Theorem pres_unicode dbl : normalize_validate A dbl = dbl -> Forall (gc dd) dbl -> chk A cfg hy dbl -> usv_list dbl ->
  is_ascii_l dbl = false -> starts_with dbl XN_PREFIX = false ->
  pres A cfg deny hy (utf8_encode dbl) = SOk (dbl, false, [AalOther]).
Proof.
  intros Hnv Hg Hchk Hu Hna Hxn.
  destruct (split_utf8 dbl Hna Hu) as (asc & tail & Hd & Hasc & Htne & Hsp & Hene & Hhead).
  assert (Hwne : utf8_encode dbl <> []).
  { intros E. rewrite E in Hsp. unfold split_ascii_fast_path_prefix in Hsp. cbn [position] in Hsp. inversion Hsp as [[E1 E2]]. symmetry in E2. contradiction. }
  rewrite (pres_ne A cfg deny hy _ Hwne), (label_nonempty_eq A cfg), Hsp. rewrite (match_ne (utf8_encode tail) _ _ Hene).
  pose proof Hg as Hg'. rewrite Hd in Hg'. apply Forall_app in Hg'. destruct Hg' as [Hga Hgt].
  pose proof Hu as Hu'. rewrite Hd in Hu'. unfold usv_list in Hu'. apply Forall_app in Hu'. destruct Hu' as [_ Hut].
  (* the ASCII prefix goes through the deny list unchanged *)
  assert (Hcl : Forall (clean deny) asc).
  { apply Forall_forall. intros c Hin. rewrite Forall_forall in Hasc, Hga. exact (gc_clean deny DOT_MASK c (Hasc c Hin) (Hga c Hin)). }
  (* map_normalize fixes the tail *)
  assert (Hmn : map_normalize A tail = tail).
  { pose proof (HMF dbl) as Hf. rewrite Hnv in Hf. specialize (Hf (proj2 (gc_map dd dbl Hg)) eq_refl).
    destruct asc as [|a0 ar]; [cbn [app] in Hd; rewrite <- Hd; exact Hf|].
    destruct (Hhead ltac:(discriminate)) as (x & r & -> & Hx).
    rewrite Hd, (HMP (a0 :: ar) x r (is_ascii_l_intro _ Hasc) Hx) in Hf.
    rewrite (Idna_WalkFun.lower_noupper (a0 :: ar)) in Hf.
    - apply app_inv_head in Hf. exact Hf.
    - eapply Forall_impl; [|exact Hcl]. intros c Hc. exact (proj1 (proj2 (clean_final deny c HU Hc))). }
  unfold complexF. fold (cmap deny asc). rewrite (cmap_clean deny asc Hcl), (scan_mark_ff is_fffd asc false), (clean_nofffd deny asc Hcl).
  cbn [sbind]. rewrite (utf8_lossy_encode tail Hut), Hmn, (gc_map_lower deny DOT_MASK tail Hgt).
  rewrite (split1_nodot_id tail (gc_all_nodot deny tail Hgt)). fold dd.
  cbn [sublabels]. rewrite (scan_mark_ff is_fffd tail false). destruct (gc_map dd tail Hgt) as [_ Hft]. unfold fffd in Hft. rewrite Hft.
  cbn [sbind]. rewrite <- Hd. unfold end_sublabel. rewrite Hxn.
  assert (Hck : check_label A cfg true hy dbl false (match asc with [] => true | _ :: _ => false end) true = SOk (dbl, false)).
  { destruct asc; [exact Hchk|exact (chk_nofcm dbl Hchk)]. }
  rewrite (match_ne (utf8_encode tail) _ _ Hene), Hck. cbn [sbind app]. reflexivity.
Qed.
End ULabel.
