(* Proofs/C09_Reject.v - hosts ending in a number; absence of panics outside the IPv6 literal branch. *)
From RU Require Import Base.Prelude Base.Utf8 Model.AsciiSet Gen.Tables Model.PercentEncoding Model.HostT Model.Host
  Spec.WhatwgHost Proofs.C09_V4 Proofs.C09_V4spec Proofs.C09_Host.

Theorem number_host_spec idna input dom : starts_with 91 input = false ->
  idna (decode (utf8_encode input)) = Some dom -> ends_in_a_number dom = true ->
  host_parse idna input =
  match Spec.ipv4_parse dom with Some a => Ok (HIpv4 a) | None => Err InvalidIpv4Address end.
Proof.
  intros Hs Hi He. unfold host_parse. rewrite (parse_number_not_domain idna input dom Hs Hi He).
  assert (dom <> []) by (intros ->; vm_compute in He; discriminate).
  rewrite parse_ipv4addr_spec by assumption. destruct (Spec.ipv4_parse dom); reflexivity.
Qed.

Definition no_panic {A} (r : xr A) : Prop :=
  match r with XOk _ | XErr _ => True | XPanic _ | XFuel => False end.

(* the full statement: no modelled entry point panics or runs out of fuel *)
Definition total_statement : Prop :=
  (forall idna input, no_panic (host_parse_x idna input)) /\ (forall input, no_panic (host_parse_opaque_x input)).

(* proved: for every input that is not a '['-led IPv6 literal *)
Theorem total_partial :
  (forall idna input, starts_with 91 input = false -> no_panic (host_parse_x idna input))
  /\ (forall input, starts_with 91 input = false -> no_panic (host_parse_opaque_x input)).
Proof.
  split.
  - intros idna input Hs. unfold host_parse_x. rewrite Hs.
    destruct (idna (decode (utf8_encode input))) as [dom|]; [|exact I].
    destruct dom as [|c dom']; [exact I|].
    destruct (ends_in_a_number (c :: dom')); [|exact I].
    rewrite parse_ipv4addr_spec by discriminate. destruct (Spec.ipv4_parse (c :: dom')); exact I.
  - intros input Hs. unfold host_parse_opaque_x. rewrite Hs.
    destruct (existsb is_invalid_host_char input); exact I.
Qed.

(* the function parse_ipv4addr itself panics on the empty string (numbers.pop().expect(..)); Host::parse
   never passes it one *)
Lemma parse_ipv4addr_empty : parse_ipv4addr [] = XPanic 314.
Proof. reflexivity. Qed.
