(* Proofs/C01_EqFile.v - C01 equivalence, class "file: ... without a file base": the text after "file:" with
   no, one or two (or more) leading '/' '\', [host], path with '/' and '\' as separators, dot segments and
   drive letters, ?query (special-query set), #fragment - parse_file / parse_file_host / parse_path
   (SchemeType::File) of parser.rs against the file, file slash, file host, path start and path states of the
   Standard (Proofs/C01_EqFileSpec.v).  The host parser is one abstract function per side, related on the one
   string it is applied to (`host_agree_file` = host_agree_sp + the two sides agree on "the host is the domain
   localhost" + the Standard's serializer gives the empty string for the empty host).
   Excluded (computable on the text, `file_class_ok`; each exclusion is a known divergence):
     - a drive letter in host position (file://C:/..., F-C01-1/11),
     - what `fpath_ok` excludes (Proofs/C01_EqFilePath.v: F-C01-5/9, F-C01-1, F-C01-7),
     - the collapse of leading slashes changes the path: the model's segment list with its leading empty
       segments dropped is not the Standard's list (F-C01-2/3, F-C01-11 behind an empty host). *)
From RU Require Import Base.Prelude Base.Utf8 Base.Utf8Facts Model.AsciiSet Gen.Tables
  Model.PercentEncoding Model.HostT Model.UrlRecord Model.Parser Model.Setters Model.WF Spec.Whatwg
  Proofs.ListN Proofs.C14_Set Proofs.C14_Enc Proofs.C14_Views Proofs.C02_Enc Proofs.C02_Parts
  Proofs.C02_Opaque Proofs.C02_Path Proofs.C02_PathL1 Proofs.C03_WF Proofs.C01_Tables Proofs.C08_Input
  Proofs.C01_EqRun Proofs.C01_EqEnc Proofs.C01_EqApi Proofs.C01_EqOpaque Proofs.C01_EqDots Proofs.C01_EqPathSpec
  Proofs.C06_List Proofs.C06_Steps Proofs.C01_EqRef Proofs.C01_EqPath Proofs.C01_EqOverflow
  Proofs.C01_EqAuthSpec Proofs.C01_EqAuthModel Proofs.C01_EqAuth Proofs.C01_EqClasses Proofs.C01_EqClasses2
  Proofs.C01_EqSpSpec Proofs.C01_EqSpPath Proofs.C01_EqSpRel Proofs.C01_EqSpModel Proofs.C01_EqSp Proofs.C01_Override
  Proofs.C01_EqFileSpec Proofs.C01_EqFilePath Proofs.C01_EqFileRel.

(* ================= small facts ================= *)
Lemma spath_f_snd t : forall P B P' B', snd (spath_f t P B) = snd (spath_f t P' B').
Proof.
  induction t as [|c r IH]; intros P B P' B'; [reflexivity|]. cbn [spath_f].
  destruct (is_sl c); [apply IH|]. destruct (is_qh c); [reflexivity | apply IH].
Qed.

Lemma norm_first_no_qh P B : no_qh B = true -> no_qh (norm_first P B) = true.
Proof.
  intros H. unfold norm_first. destruct (is_nil P && is_windows_drive_letter B); [|exact H].
  destruct B as [|a [|b r]]; try exact H. unfold no_qh in *. cbn [forallb] in *.
  apply andb_true_iff in H. destruct H as [Ha H]. apply andb_true_iff in H. destruct H as [_ Hr]. rewrite Ha, Hr. reflexivity.
Qed.

Lemma removelast_forallb {A} (f : A -> bool) P : forallb f P = true -> forallb f (removelast P) = true.
Proof.
  intros HP. rewrite forallb_forall in *. intros x Hx. apply HP. destruct P as [|p0 P]; [destruct Hx|].
  assert (p0 :: P <> []) as Hne by discriminate.
  rewrite (app_removelast_last p0 Hne). apply in_or_app. left. exact Hx.
Qed.

Lemma shorten_f_forallb (f : list N -> bool) P : forallb f P = true -> forallb f (shorten_f P) = true.
Proof.
  intros H. unfold shorten_f. destruct P as [|p0 [|p1 P']]; try (apply removelast_forallb; exact H).
  destruct (is_normalized_windows_drive_letter p0); [exact H | reflexivity].
Qed.

Lemma fin_f_forallb (f : list N -> bool) P B sep : f [] = true -> forallb f P = true -> f (norm_first P B) = true ->
  forallb f (fin_f P B sep) = true.
Proof.
  intros H0 HP HB. unfold fin_f. pose proof (shorten_f_forallb f P HP) as HR.
  destruct (is_double_dot_segment B); [destruct sep; [exact HR | rewrite forallb_app, HR; cbn [forallb]; rewrite H0; reflexivity]|].
  destruct (is_single_dot_segment B); [destruct sep; [exact HP | rewrite forallb_app, HP; cbn [forallb]; rewrite H0; reflexivity]|].
  rewrite forallb_app, HP. cbn [forallb]. rewrite HB. reflexivity.
Qed.

Lemma spath_f_no_qh t : forall P B, forallb no_qh P = true -> no_qh B = true ->
  forallb no_qh (fst (spath_f t P B)) = true.
Proof.
  induction t as [|c r IH]; intros P B HP HB; cbn [spath_f].
  - cbn [fst]. apply fin_f_forallb; [reflexivity | exact HP | apply norm_first_no_qh; exact HB].
  - destruct (is_sl c) eqn:Esl; [apply IH; [apply fin_f_forallb; [reflexivity | exact HP | apply norm_first_no_qh; exact HB] | reflexivity]|].
    destruct (is_qh c) eqn:Eq; [cbn [fst]; apply fin_f_forallb; [reflexivity | exact HP | apply norm_first_no_qh; exact HB]|].
    apply IH; [exact HP|]. unfold no_qh in *. rewrite forallb_app, HB. cbn [andb]. apply upe_cp_no_qh. exact Eq.
Qed.

Lemma spath_f_no_slash t : forall P B, forallb no_slash P = true -> no_slash B = true ->
  forallb no_slash (fst (spath_f t P B)) = true.
Proof.
  induction t as [|c r IH]; intros P B HP HB; cbn [spath_f].
  - cbn [fst]. apply fin_f_forallb; [reflexivity | exact HP | apply norm_first_no_slash; exact HB].
  - destruct (is_sl c) eqn:Esl; [apply IH; [apply fin_f_forallb; [reflexivity | exact HP | apply norm_first_no_slash; exact HB] | reflexivity]|].
    destruct (is_qh c); [cbn [fst]; apply fin_f_forallb; [reflexivity | exact HP | apply norm_first_no_slash; exact HB]|].
    apply IH; [exact HP|]. unfold no_slash in *. rewrite forallb_app, HB. cbn [andb]. apply upe_cp_no_slash.
    unfold is_sl in Esl. apply orb_false_iff in Esl. tauto.
Qed.

(* what follows the path: the model's (query, fragment) pair is the Standard's tail, special-query set *)
Lemma tail_url_f u l :
  is_special u = true -> su_query u = None -> su_fragment u = None ->
  match l with [] => True | c :: _ => C02_Parts.is_qh c = true /\ is_tnl c = false end ->
  tail_url u (ntnl l) = set_fragment (set_query u (pqf_q STFile l)) (pqf_f l).
Proof.
  intros Hsp Hq Hf Hh. unfold pqf_q, pqf_f.
  destruct l as [|c r].
  - cbn. destruct u; cbn in *. subst. reflexivity.
  - destruct Hh as [Hqh Ht]. rewrite inp_next_cons by exact Ht. rewrite ntnl_cons by exact Ht.
    cbn [tail_url]. destruct (c =? 63) eqn:E63.
    + assert ((c =? 35) = false) as E35 by lia. rewrite E35.
      unfold query_final, qset_of, is_special. cbn [su_scheme set_query app]. fold (is_special u). rewrite Hsp.
      rewrite (query_of_upe_sp STFile r eq_refl). rewrite <- after_hash_ntnl.
      destruct (query_rest true r) as [r2|]; cbn [option_map frag_opt].
      * rewrite frag_of_upe. destruct u; reflexivity.
      * destruct u; cbn in *; subst; reflexivity.
    + unfold C02_Parts.is_qh in Hqh. rewrite E63 in Hqh. cbn [orb] in Hqh. rewrite Hqh.
      rewrite frag_of_upe. destruct u; cbn in *; subst; reflexivity.
Qed.

Lemma pqf_q_clean_f l : usv_list l -> opt_clean (query_set STFile) (pqf_q STFile l).
Proof.
  intros Hu. unfold pqf_q. destruct (inp_next l) as [[c r]|] eqn:En; [|exact I].
  destruct (c =? 63); [|exact I]. cbn [opt_clean]. apply (query_of_clean STFile). exact (inp_next_usv l c r Hu En).
Qed.

Lemma Bs_flat pre segs last : Bs pre segs ++ last = pre ++ flat (segs ++ [last]).
Proof. unfold flat. rewrite path_text_flat. unfold Bs, path_text. rewrite <- !app_assoc. reflexivity. Qed.

(* equality test on segment lists *)
Fixpoint segs_eqb (a b : list (list N)) : bool :=
  match a, b with
  | [], [] => true
  | x :: a', y :: b' => list_eqb x y && segs_eqb a' b'
  | _, _ => false
  end.
Lemma segs_eqb_eq a : forall b, segs_eqb a b = true -> a = b.
Proof.
  induction a as [|x a IH]; intros [|y b] H; try discriminate H; [reflexivity|].
  cbn [segs_eqb] in H. apply andb_true_iff in H. destruct H as [H1 H2].
  apply list_eqb_spec in H1. rewrite H1, (IH b H2). reflexivity.
Qed.

(* ================= the class ================= *)
(* the model's path loop on the text tm (has_host = hh) is inside `fpath_ok`, and its segment list with the
   leading empty segments dropped is the list the Standard's path state builds on the text ts *)
Definition fp_ok (hh : bool) (tm ts : list N) : bool :=
  fpath_ok hh tm [] [] && segs_eqb (strip_f (fst (spath_f tm [] []))) (fst (spath_f ts [] [])).

(* the text R after "file:" *)
Definition file_class_ok (R : list N) : bool :=
  match R with
  | c1 :: R1 =>
      if is_sl c1 then
        match R1 with
        | c2 :: T =>
            if is_sl c2 then
              let h := as_part T in
              let X := as_rest T in
              negb (is_windows_drive_letter h)
              && fp_ok false X (path_text_s X)
              && (is_nil h || fp_ok true (path_text_s X) (path_text_s X))
            else fp_ok false R1 R1
        | [] => fp_ok false R1 R1
        end
      else fp_ok false R R
  | [] => fp_ok false R R
  end.

(* the one string the host parsers of the two sides are applied to *)
Definition file_host_of (R : list N) : list N :=
  match R with
  | c1 :: c2 :: T => if is_sl c1 && is_sl c2 then as_part T else []
  | _ => []
  end.

Definition is_localhost_m (h : host) : bool := match h with HDomain d => list_eqb d s_localhost | _ => false end.
Definition is_localhost_s (h : spec_host) : bool := match h with SDomain d => list_eqb d str_localhost | _ => false end.

(* the host hypothesis of the class *)
Definition host_agree_file (hp : list N -> result host) (hd : host -> list N)
           (shp : bool -> list N -> option spec_host) (shs : spec_host -> list N) (s : list N) : Prop :=
  shs SEmpty = []
  /\ host_agree_sp hp hd shp shs s
  /\ match hp s, host_parsing shp false s with
     | Ok h, Some sh => is_localhost_m h = is_localhost_s sh
     | _, _ => True
     end.

(* ================= the model ================= *)
Section FileModel.
Variable dbg : bool.
Variable hp hpo : list N -> result host.
Variable hd : host -> list N.
Variable shp : bool -> list N -> option spec_host.
Variable shs : spec_host -> list N.

Notation PP hh ps s l := (parse_path dbg CUrlParser STFile hh ps s l).

(* the path loop started behind "pre /" *)
Lemma file_path_loop pre l hh : usv_list l -> fpath_ok hh (ntnl l) [] [] = true ->
  PP hh (nlen pre) (pre ++ [47]) l = POk (pre ++ flat (strip_f (fst (spath_f (ntnl l) [] []))), hh, cbb_rest l)
  /\ snd (spath_f (ntnl l) [] []) = ntnl (cbb_rest l).
Proof.
  intros Hu Hok. unfold parse_path.
  assert (pend_ok []) as Hp0 by (split; [constructor | reflexivity]).
  assert (Bs pre [] = pre ++ [47]) as EB by (unfold Bs; cbn; rewrite !app_nil_r; reflexivity).
  destruct (loop_exact_f pre dbg l [] [] [] hh Hu Hp0 eq_refl eq_refl Hok) as (segs & last & Hloop & Hfst & Hsnd).
  cbn [app rev utf8_encode flat_map encode] in Hfst, Hsnd.
  rewrite app_nil_r, EB in Hloop. rewrite Hloop. split; [|exact Hsnd].
  rewrite Bs_flat. rewrite <- Hfst. rewrite fixup_flat; [reflexivity|]. apply spath_f_no_slash; reflexivity.
Qed.

(* a leading separator in front of the path: "pre" -> "pre /" *)
Lemma file_lead_sep pre l : forall c l1 hh, inp_next l = Some (c, l1) -> is_sl c = true ->
  PP hh (nlen pre) pre l = PP hh (nlen pre) (pre ++ [47]) l1.
Proof.
  unfold parse_path. induction l as [|c0 r IH]; intros c l1 hh En Hs; [discriminate En|].
  destruct (is_tnl c0) eqn:Et.
  - rewrite inp_next_tnl in En by exact Et. rewrite (loop_cons_tnl_f pre dbg c0 r _ _ [] hh Et). cbn [push_pending].
    exact (IH c l1 hh En Hs).
  - rewrite inp_next_cons in En by exact Et. inversion En; subst c0 l1.
    rewrite (loop_cons_sep_f pre dbg c r _ _ [] hh Et Hs). cbn [push_pending].
    unfold finish_segment.
    assert (slice_o (pre ++ [47]) (nlen pre) (nlen (pre ++ [47]) - 1) = Some []) as ->.
    { rewrite nlen_app. replace (nlen pre + nlen [47] - 1) with (nlen pre + nlen (@nil N)) by (unfold nlen; cbn [length]; lia).
      exact (slice_mid pre [] [47]). }
    cbn [of_option pbind is_double_dot is_single_dot st_is_file andb].
    replace (nlen pre =? nlen pre + 1) with false by lia. cbn [andb pbind]. reflexivity.
Qed.

Lemma file_host_scan_spec l : forall acc, usv_list l ->
  exists rem, file_host_scan acc l = (rev acc ++ as_part (ntnl l), rem)
              /\ ntnl rem = as_rest (ntnl l) /\ usv_list rem.
Proof.
  induction l as [|c r IH]; intros acc Hu.
  - exists []. cbn. rewrite app_nil_r. repeat split. constructor.
  - pose proof Hu as Hu0. apply usv_cons in Hu. destruct Hu as [Huc Hur]. cbn [file_host_scan].
    destruct (is_tnl c) eqn:Et.
    + rewrite ntnl_cons_tnl by exact Et. apply IH. exact Hur.
    + rewrite ntnl_cons by exact Et. cbn [as_part as_rest]. rewrite path_end_aes.
      destruct (is_aes c) eqn:Es.
      * exists (c :: r). rewrite app_nil_r. split; [reflexivity|]. split; [apply ntnl_cons; exact Et | exact Hu0].
      * destruct (IH (c :: acc) Hur) as (rem & E1 & E2 & E3). exists rem.
        rewrite E1. cbn [rev]. rewrite <- app_assoc. repeat split; assumption.
Qed.

(* parse_path_start for the file scheme behind a host text *)
Lemma file_path_start rem s hh : usv_list rem -> ends_with_byte 47 s = false ->
  exists l', parse_path_start dbg CUrlParser STFile hh s rem = PP hh (nlen s) (s ++ [47]) l'
             /\ ntnl l' = path_text_s (ntnl rem) /\ usv_list l'.
Proof.
  intros Hu He. unfold parse_path_start, inp_split_first. cbn [st_is_special]. rewrite He. cbn [negb].
  destruct (ntnl rem) as [|c t] eqn:Ent.
  - rewrite (inp_next_none rem Ent). exists rem. split; [reflexivity|]. split; [rewrite Ent; reflexivity | exact Hu].
  - destruct (inp_next_some rem c t Ent) as (r' & En & Hr' & Et). rewrite En.
    pose proof (inp_next_usv rem c r' Hu En) as Hur'. cbn [path_text_s]. rewrite is_sl_model.
    destruct (is_sl c).
    + exists r'. split; [reflexivity|]. split; [exact Hr' | exact Hur'].
    + exists rem. split; [reflexivity|]. split; [exact Ent | exact Hu].
Qed.

(* from the path on: the canonical record, related to the Standard's *)
Lemma file_common ht hi sh l ts hh : usv_list l -> fp_ok hh (ntnl l) ts = true ->
  snd (spath_f ts [] []) = snd (spath_f (ntnl l) [] []) ->
  ht = shs sh -> starts_with_cp 58 ht = false -> (hi = HI_None -> ht = []) ->
  let pre := s_file_css ++ ht in
  let Ps := fst (spath_f ts [] []) in
  let rest := cbb_rest l in
  let U := auth_url s_file [] [] ht hi None (flat Ps) (pqf_q STFile rest) (pqf_f rest) in
  PP hh (nlen pre) (pre ++ [47]) l = POk (pre ++ flat Ps, hh, rest)
  /\ related dbg shs U (file_tail (set_host (fu u_file0) (Some sh)) (spath_f ts [] []))
  /\ oob (U32_MAX_P < nlen (ser U))
         (' (s, qs, fs) <~ parse_query_and_fragment None CUrlParser STFile 4 (pre ++ flat Ps) rest ;;
          POk (file_url s 7 (nlen pre) hi qs fs)) U
  /\ 4 <= nlen (ser U).
Proof.
  intros Hu Hok Hsnd Hht Hcol Hhi pre Ps rest U.
  unfold fp_ok in Hok. apply andb_true_iff in Hok. destruct Hok as [Hok Heq]. apply segs_eqb_eq in Heq.
  destruct (file_path_loop pre l hh Hu Hok) as [Hloop Hrest]. fold rest in Hloop, Hrest. rewrite Heq in Hloop. fold Ps in Hloop.
  assert (usv_list rest) as Hurest by (apply usv_cbb_rest; exact Hu).
  assert (match ntnl rest with [] => True | c :: _ => is_qh c = true end) as Hresth.
  { pose proof (cbb_rest_head l) as Hh. fold rest in Hh. destruct rest as [|d dr]; [exact I|]. destruct Hh as [Hh1 Hh2].
    rewrite ntnl_cons by exact Hh2. exact Hh1. }
  assert (ser U = (pre ++ flat Ps) ++ qf_text (pqf_q STFile rest) (pqf_f rest)) as EU.
  { unfold U, auth_url, pre. cbn [ser cred_text port_suffix is_nil andb]. rewrite !app_nil_r. reflexivity. }
  split; [exact Hloop|]. split; [|split].
  - (* related *)
    assert (file_tail (set_host (fu u_file0) (Some sh)) (spath_f ts [] [])
            = spec_auth_url str_file [] [] sh None Ps (pqf_q STFile rest) (pqf_f rest)) as ->.
    { unfold file_tail. fold Ps. rewrite Hsnd, Hrest.
      rewrite tail_url_f; [reflexivity | reflexivity | reflexivity | reflexivity | apply cbb_rest_head]. }
    apply (related_auth_f dbg shs s_file [] [] ht hi sh None Ps (pqf_q STFile rest) (pqf_f rest)). constructor.
    + reflexivity.
    + reflexivity.
    + exact Hht.
    + exact Hcol.
    + exact Hhi.
    + reflexivity.
    + intros p Hp. discriminate Hp.
    + apply flat_no_qh. apply spath_f_no_qh; reflexivity.
    + apply pqf_q_clean_f. exact Hurest.
    + repeat split.
  - (* the model *)
    eapply oob_bind.
    { apply (pqf_oob None (U32_MAX_P < nlen (ser U))); [exact Hurest | reflexivity | exact Hresth |].
      intros Hlt. rewrite EU. exact Hlt. }
    right. unfold U, auth_url, file_url, pre. cbn [cred_text port_suffix is_nil andb]. rewrite !app_nil_r.
    change (auth_s0 s_file) with s_file_css. reflexivity.
  - rewrite EU. unfold pre. rewrite !nlen_app. change (nlen s_file_css) with 7. lia.
Qed.

(* the same without a host: "file://" + path *)
Lemma file_common_nohost l ts : usv_list l -> fp_ok false (ntnl l) ts = true ->
  snd (spath_f ts [] []) = snd (spath_f (ntnl l) [] []) -> shs SEmpty = [] ->
  let Ps := fst (spath_f ts [] []) in
  let rest := cbb_rest l in
  let U := auth_url s_file [] [] [] HI_None None (flat Ps) (pqf_q STFile rest) (pqf_f rest) in
  PP false 7 (s_file_css ++ [47]) l = POk (s_file_css ++ flat Ps, false, rest)
  /\ related dbg shs U (file_tail (fu u_file0) (spath_f ts [] []))
  /\ oob (U32_MAX_P < nlen (ser U))
         (' (s, qs, fs) <~ parse_query_and_fragment None CUrlParser STFile 4 (s_file_css ++ flat Ps) rest ;;
          POk (file_url s 7 7 HI_None qs fs)) U
  /\ 4 <= nlen (ser U).
Proof.
  intros Hu Hok Hsnd Hse.
  pose proof (file_common [] HI_None SEmpty l ts false Hu Hok Hsnd (eq_sym Hse) eq_refl (fun _ => eq_refl)) as K.
  cbv zeta in K. rewrite !app_nil_r in K. change (nlen s_file_css) with 7 in K. exact K.
Qed.

(* the direct branches of parse_file (no host state) *)
Lemma file_branch_nohost l ts : usv_list l -> fp_ok false (ntnl l) ts = true ->
  snd (spath_f ts [] []) = snd (spath_f (ntnl l) [] []) -> shs SEmpty = [] ->
  exists u, oob (U32_MAX_P < nlen (ser u))
                (' (s2, _, rem) <~ PP false 7 (s_file_css ++ [47]) l ;;
                 ' (s3, qs, fs) <~ parse_query_and_fragment None CUrlParser STFile 4 s2 rem ;;
                 POk (file_url s3 7 7 HI_None qs fs)) u
            /\ related dbg shs u (file_tail (fu u_file0) (spath_f ts [] [])) /\ 4 <= nlen (ser u).
Proof.
  intros Hu Hok Hsnd Hse. destruct (file_common_nohost l ts Hu Hok Hsnd Hse) as (E & R & O & L). cbv zeta in *.
  eexists. split; [|split; [exact R | exact L]]. rewrite E. cbn [pbind]. exact O.
Qed.

(* the branch of parse_file behind parse_file_host when that returns no host *)
Lemma file_branch_hoststate rem ts : usv_list rem -> fp_ok false (ntnl rem) ts = true ->
  snd (spath_f ts [] []) = snd (spath_f (ntnl rem) [] []) -> shs SEmpty = [] ->
  exists u, oob (U32_MAX_P < nlen (ser u))
                (host_end <~ to_u32 (nlen s_file_css) ;;
                 ' (ser2, has_host, remaining2) <~ PP (negb (hi_eqb HI_None HI_None)) (nlen s_file_css) (s_file_css ++ [47]) rem ;;
                 (let '(ser3, host_end3, hi3) :=
                    if negb has_host then (nfirstn 7 ser2 ++ nskipn host_end ser2, 7, HI_None) else (ser2, host_end, HI_None) in
                  ' (ser4, qs, fs) <~ parse_query_and_fragment None CUrlParser STFile 4 ser3 remaining2 ;;
                  POk (file_url ser4 7 host_end3 hi3 qs fs))) u
            /\ related dbg shs u (file_tail (fu u_file0) (spath_f ts [] [])) /\ 4 <= nlen (ser u).
Proof.
  intros Hu Hok Hsnd Hse. destruct (file_common_nohost rem ts Hu Hok Hsnd Hse) as (E & R & O & L). cbv zeta in *.
  eexists. split; [|split; [exact R | exact L]].
  change (to_u32 (nlen s_file_css)) with (@POk N 7). cbn [pbind hi_eqb negb]. change (nlen s_file_css) with 7.
  rewrite E. cbn [pbind negb]. rewrite nfirstn_nskipn. exact O.
Qed.

Notation PF l := (parse_file dbg hp hd None CUrlParser STFile None l).

Lemma spath_f_snd_text X : snd (spath_f (path_text_s X) [] []) = snd (spath_f X [] []).
Proof.
  destruct X as [|c r]; [reflexivity|]. cbn [path_text_s]. destruct (is_sl c) eqn:E; [|reflexivity].
  cbn [spath_f]. rewrite E. apply spath_f_snd.
Qed.

(* the text l after "file:" *)
Theorem model_file l : usv_list l -> file_class_ok (ntnl l) = true ->
  host_agree_file hp hd shp shs (file_host_of (ntnl l)) ->
  match sfile shp u_file0 (ntnl l) with
  | None => mfail (PF l)
  | Some su => exists u, oob (U32_MAX_P < nlen (ser u)) (PF l) u /\ related dbg shs u su /\ 4 <= nlen (ser u)
  end.
Proof.
  intros Hu Hc (Hse & HA & HL). unfold parse_file, inp_split_first.
  destruct (ntnl l) as [|c1 R1] eqn:ER.
  - (* nothing after "file:" *)
    rewrite (inp_next_none l ER). cbv iota beta. cbn [sfile]. cbn [file_class_ok] in Hc.
    rewrite <- ER in Hc. pose proof (file_branch_nohost l (ntnl l) Hu Hc eq_refl Hse) as K. rewrite ER in K. exact K.
  - destruct (inp_next_some l c1 R1 ER) as (l1 & En1 & Hl1 & Et1). rewrite En1. cbv iota beta.
    pose proof (inp_next_usv l c1 l1 Hu En1) as Hu1. rewrite is_sl_model.
    cbn [sfile file_class_ok file_host_of] in *.
    destruct (is_sl c1) eqn:Esl1.
    2:{ (* no leading slash *)
        rewrite <- ER in Hc. pose proof (file_branch_nohost l (ntnl l) Hu Hc eq_refl Hse) as K. rewrite ER in K. exact K. }
    destruct R1 as [|c2 T] eqn:ER1.
    + (* one slash, then nothing *)
      rewrite (inp_next_none l1 Hl1). cbv iota beta.
      assert ((if negb (starts_with_wdl_segment l1) then (s_file_css, 7, HI_None) else (s_file_css, 7, HI_None))
              = (s_file_css, 7, HI_None)) as -> by (destruct (negb (starts_with_wdl_segment l1)); reflexivity).
      change 7 with (nlen s_file_css) at 1. rewrite (file_lead_sep s_file_css l c1 l1 false En1 Esl1). change (nlen s_file_css) with 7.
      rewrite <- Hl1 in Hc. pose proof (file_branch_nohost l1 (ntnl l1) Hu1 Hc eq_refl Hse) as K. rewrite Hl1 in K. exact K.
    + destruct (inp_next_some l1 c2 T Hl1) as (l2 & En2 & Hl2 & Et2). rewrite En2. cbv iota beta.
      pose proof (inp_next_usv l1 c2 l2 Hu1 En2) as Hu2. change (is_slash_or_bslash c2) with (is_sl c2).
      destruct (is_sl c2) eqn:Esl2.
      2:{ (* one slash, then the path *)
          assert ((if negb (starts_with_wdl_segment l1) then (s_file_css, 7, HI_None) else (s_file_css, 7, HI_None))
                  = (s_file_css, 7, HI_None)) as -> by (destruct (negb (starts_with_wdl_segment l1)); reflexivity).
          change 7 with (nlen s_file_css) at 1. rewrite (file_lead_sep s_file_css l c1 l1 false En1 Esl1). change (nlen s_file_css) with 7.
          rewrite <- Hl1 in Hc. pose proof (file_branch_nohost l1 (ntnl l1) Hu1 Hc eq_refl Hse) as K. rewrite Hl1 in K. exact K. }
      (* two slashes: the file host state *)
      cbn [andb] in HA, HL.
      apply andb_true_iff in Hc. destruct Hc as [Hc Hc3]. apply andb_true_iff in Hc. destruct Hc as [Hw Hc2].
      apply negb_true_iff in Hw.
      destruct (file_host_scan_spec l2 [] Hu2) as (rem & Escan & Hrem & Hurem). cbn [rev app] in Escan. rewrite Hl2 in Escan, Hrem.
      unfold parse_file_host, file_host. rewrite Escan. rewrite is_wdl_agree, Hw.
      unfold sfile_host_g. cbv zeta. cbn [app]. rewrite Hw.
      set (h := as_part T) in *. set (X := as_rest T) in *.
      rewrite <- Hrem in Hc2 at 1.
      assert (snd (spath_f (path_text_s X) [] []) = snd (spath_f (ntnl rem) [] [])) as Hsnd2
        by (rewrite Hrem; apply spath_f_snd_text).
      destruct h as [|h0 hr].
      * (* empty host *)
        cbn [is_nil pbind]. exact (file_branch_hoststate rem (path_text_s X) Hurem Hc2 Hsnd2 Hse).
      * cbn [is_nil orb] in Hc3. cbn [is_nil]. cbv iota beta.
        unfold host_agree_sp in HA. cbv beta iota in HA.
        set (h := h0 :: hr) in *.
        destruct (hp h) as [host|e] eqn:Ehp; destruct (host_parsing shp false h) as [sh|] eqn:Eshp; try contradiction.
        2:{ cbn [of_result pbind]. exists e. reflexivity. }
        destruct HA as (Htxt & Hcol & Hne & Hne2 & Hsl).
        cbn [of_result pbind].
        assert (match host with
                | HDomain d => if list_eqb d s_localhost then POk (s_file_css, false, HI_None, rem)
                               else POk (s_file_css ++ hd host, true, hi_of_host host, rem)
                | _ => POk (s_file_css ++ hd host, true, hi_of_host host, rem)
                end
                = if is_localhost_m host then POk (s_file_css, false, HI_None, rem)
                  else POk (s_file_css ++ hd host, true, hi_of_host host, rem)) as ->.
        { unfold is_localhost_m. destruct host as [d| |]; reflexivity. }
        rewrite HL. unfold lh. fold (is_localhost_s sh).
        assert (match sh with SDomain d => if list_eqb d str_localhost then SEmpty else sh | _ => sh end
                = if is_localhost_s sh then SEmpty else sh) as -> by (destruct sh; reflexivity).
        destruct (is_localhost_s sh) eqn:Elh.
        -- (* localhost: no host *)
           cbn [pbind]. exact (file_branch_hoststate rem (path_text_s X) Hurem Hc2 Hsnd2 Hse).
        -- (* a host *)
           cbn [pbind].
           assert (ends_with_byte 47 (s_file_css ++ hd host) = false) as Hends.
           { unfold ends_with_byte in *. rewrite rev_app_distr.
             destruct (rev (hd host)) as [|x y] eqn:Er; [exfalso; apply Hne2; rewrite <- (rev_involutive (hd host)), Er; reflexivity | exact Hsl]. }
           assert (hi_eqb (hi_of_host host) HI_None = false) as Ehi.
           { destruct (hi_of_host host) eqn:E; try reflexivity. exfalso. apply Hne. apply hi_none_iff. exact E. }
           rewrite Ehi. cbn [negb].
           destruct (file_path_start rem (s_file_css ++ hd host) true Hurem Hends) as (l' & Eps & Hl' & Hul').
           rewrite Hrem in Hl'.
           assert (snd (spath_f (path_text_s X) [] []) = snd (spath_f (ntnl l') [] [])) as Hsnd3 by (rewrite Hl'; reflexivity).
           assert (hi_of_host host = HI_None -> hd host = []) as Hhi.
           { intros E. exfalso. apply Hne. apply hi_none_iff. exact E. }
           rewrite <- Hl' in Hc3 at 1.
           destruct (file_common (hd host) (hi_of_host host) sh l' (path_text_s X) true Hul' Hc3 Hsnd3 Htxt Hcol Hhi)
             as (E & R & O & L). cbv zeta in *.
           eexists. split; [|split; [exact R | exact L]].
           eapply oob_bind.
           { apply oob_u32. intros Hlt. unfold auth_url. cbn [ser cred_text port_suffix is_nil andb]. rewrite !app_nil_r.
             change (auth_s0 s_file) with s_file_css. rewrite !nlen_app in *. lia. }
           rewrite Eps, E. cbn [pbind negb]. exact O.
Qed.

End FileModel.

(* ================= the class ================= *)
Definition in_class_file (input : list N) : bool :=
  match spec_scheme (spec_clean input) with
  | Some (sch, R) => list_eqb sch str_file && file_class_ok R
  | None => false
  end.

(* the one string the host parsers of the two sides are applied to *)
Definition class_host_text_f (input : list N) : list N :=
  match spec_scheme (spec_clean input) with
  | Some (_, R) => file_host_of R
  | None => []
  end.

(* a base, if there is one, has the same scheme on the two sides *)
Definition base_sch_rel (base : option url) (sbase : option spec_url) : Prop :=
  match base, sbase with
  | None, None => True
  | Some b, Some sb => b_scheme b = su_scheme sb
  | _, _ => False
  end.

Section Class.
Variable dbg : bool.
Variable hp hpo : list N -> result host.
Variable hd : host -> list N.
Variable shp : bool -> list N -> option spec_host.
Variable shs : spec_host -> list N.

(* "file:..." with no base or against a base whose scheme is not file *)
Theorem class_file base sbase input : usv_list input -> in_class_file input = true ->
  base_sch_rel base sbase -> no_file_base sbase = true ->
  host_agree_file hp hd shp shs (class_host_text_f input) ->
  agree_rel_strict dbg shs (parse_url dbg hp hpo hd None base input) (spec_basic_url_parse shp input sbase).
Proof.
  intros Hu Hc Hb Hnf HA. unfold in_class_file, class_host_text_f in *.
  destruct (spec_scheme (spec_clean input)) as [[sch R]|] eqn:Es; [|discriminate].
  apply andb_true_iff in Hc. destruct Hc as [Hsch Hok]. apply list_eqb_spec in Hsch. subst sch.
  pose proof (spec_file_any shp sbase input R Es Hnf) as HS.
  rewrite spec_clean_is_ntnl_trim in Es.
  destruct (spec_scheme_model _ _ _ Es) as (rem & Hps & Hrem).
  destruct (parse_scheme_suffix _ _ _ _ Hps) as [pre0 Hpre].
  assert (usv_list rem) as Hur.
  { pose proof (usv_trim input Hu) as Ht. rewrite Hpre in Ht. apply usv_app in Ht. tauto. }
  rewrite <- Hrem in Hok, HA, HS.
  pose proof (model_file dbg hp hpo hd shp shs rem Hur Hok HA) as HM.
  assert (parse_url dbg hp hpo hd None base input = parse_file dbg hp hd None CUrlParser STFile None rem) as ->.
  { unfold parse_url. rewrite Hps. unfold parse_with_scheme. change (to_u32 (nlen str_file)) with (@POk N 4). cbn [pbind].
    change (scheme_type_of str_file) with STFile. cbv iota beta.
    destruct base as [b|]; [|reflexivity]. destruct sbase as [sb|]; [|contradiction Hb]. cbn [base_sch_rel] in Hb.
    rewrite Hb. unfold no_file_base in Hnf. apply negb_true_iff in Hnf. change s_file with str_file. rewrite Hnf. reflexivity. }
  destruct (sfile shp u_file0 (ntnl rem)) as [su|].
  - rewrite HS. cbn [agree_rel_strict]. destruct HM as (u & HO & Rl & Hle).
    pose proof (related_href dbg shs u su Rl) as Eh. rewrite <- Eh.
    destruct HO as [[E B]|E]; [left; split; assumption | right; exists u; split; assumption].
  - destruct HS as [uf ->]. cbn [agree_rel_strict]. exact HM.
Qed.

End Class.

(* ================= the list condition of the class, made explicit ================= *)
(* the collapse of the leading slashes leaves a segment list alone exactly when the list does not start with an
   empty segment followed by more *)
Definition strip_stable (P : list (list N)) : bool :=
  match P with [] :: _ :: _ => false | [] => false | _ => true end.

Lemma strip_f_len P : P <> [] -> (length (strip_f P) <= length P)%nat.
Proof.
  induction P as [|s r IH]; intros H; [contradiction|]. cbn [strip_f]. destruct (is_nil s); [|lia].
  destruct r as [|q r']; [cbn; lia|]. specialize (IH ltac:(discriminate)). cbn [length] in *. lia.
Qed.

Lemma strip_f_stable P : (strip_f P = P) <-> strip_stable P = true.
Proof.
  destruct P as [|s r]; [split; [discriminate | discriminate]|].
  destruct s as [|x s']; [|split; reflexivity].
  destruct r as [|q r']; [split; reflexivity|].
  cbn [strip_stable]. split; [|discriminate]. intros H. exfalso. change (strip_f (q :: r') = [] :: q :: r') in H.
  pose proof (strip_f_len (q :: r') ltac:(discriminate)) as L. rewrite H in L. cbn [length] in L. lia.
Qed.

Lemma segs_eqb_refl a : segs_eqb a a = true.
Proof. induction a as [|x a IH]; [reflexivity|]. cbn [segs_eqb]. rewrite IH, andb_true_r. apply list_eqb_spec. reflexivity. Qed.

Lemma segs_eqb_iff a b : segs_eqb a b = true <-> a = b.
Proof. split; [apply segs_eqb_eq | intros ->; apply segs_eqb_refl]. Qed.

(* the class condition when the model and the Standard enter the path loop at the same place *)
Theorem fp_ok_same hh t : fp_ok hh t t = fpath_ok hh t [] [] && strip_stable (fst (spath_f t [] [])).
Proof.
  unfold fp_ok. f_equal. set (P := fst (spath_f t [] [])).
  destruct (strip_stable P) eqn:E.
  - apply segs_eqb_iff. apply strip_f_stable. exact E.
  - destruct (segs_eqb (strip_f P) P) eqn:E2; [|reflexivity]. apply segs_eqb_iff in E2. apply strip_f_stable in E2.
    rewrite E2 in E. discriminate E.
Qed.
