(* Proofs/Idna_C12_Ascii.v - C12 on the adapter-free class AN (all-ASCII names without an xn-- label): every
   clause of the round trip, every adapter, every deny list the API can build, every hyphen mode, every display policy.
   On an accepted name of the class ToUnicode, ToASCII and to_user_interface all return the ASCII lower-casing. *)
From RU Require Import Base.Prelude Base.Utf8 Base.U32_c13 Gen.Tables Model.Punycode Model.Uts46
  Proofs.Idna_Sim Proofs.Idna_Api Proofs.Idna_Known Proofs.Idna_Hyp Proofs.Idna_C12
  Proofs.Idna_C10_Deny Proofs.Idna_C10b_AsciiInner Proofs.Idna_C10b_AsciiWalk.

Section C12AN.
Variable A : adapter.
Variable cfg : bool.

Theorem to_ui_an d deny hy pol : AN d -> DenyUpper deny -> LdhFree deny ->
  forallb (lab_acc deny hy) (split_on DOT d) = true ->
  exists b, to_user_interface A cfg d deny hy pol = UI b (map to_lower d) false.
Proof.
  intros Han HU HL Hacc. pose proof (AN_ascii d Han) as Ha.
  assert (Hb : bytes d) by (unfold bytes; eapply Forall_impl; [|exact Ha]; unfold is_byte; cbv beta; intros; lia).
  pose proof (process_an_acc A cfg false pol d deny hy Hb Han HU HL Hacc) as HP. cbv zeta in HP.
  unfold to_user_interface. destruct HP as [(s1 & -> & Hlow)| ->].
  - exists true. rewrite Hlow. reflexivity.
  - exists false. reflexivity.
Qed.

Theorem c12_an d deny hy b a : AN d -> valid_deny deny ->
  to_ascii A cfg d deny hy DIgnore = Ok (b, a) ->
  let u := ui_text (to_unicode A cfg d deny hy) in
  a = map to_lower d /\ u = a /\ ui_err (to_unicode A cfg d deny hy) = false /\
  (* u_of_a *) (ui_text (to_unicode A cfg a deny hy) = u /\ ui_err (to_unicode A cfg a deny hy) = false) /\
  (* a_of_u *) (exists b', to_ascii A cfg (utf8_encode u) deny hy DIgnore = Ok (b', a)) /\
  (* u_idem *) (ui_text (to_unicode A cfg (utf8_encode u) deny hy) = u /\ ui_err (to_unicode A cfg (utf8_encode u) deny hy) = false) /\
  (* ui     *) (forall p, exists b', to_ascii A cfg (utf8_encode (ui_text (to_user_interface A cfg d deny hy p))) deny hy DIgnore = Ok (b', a)).
Proof.
  intros Han Hv H. destruct (valid_deny_facts deny Hv) as [HU HL]. pose proof (AN_ascii d Han) as Ha.
  destruct (to_ascii_an A cfg d deny hy DIgnore Han HU HL) as (b0 & H0). rewrite H in H0.
  cbn [dns_is_ignore orb] in H0. rewrite andb_true_r in H0.
  destruct (forallb (lab_acc deny hy) (split_on DOT d)) eqn:Hacc; [|discriminate].
  inversion H0. subst b0 a. clear H0.
  destruct (to_ascii_an_idem A cfg d deny hy DIgnore b _ Han HU HL H) as (_ & Han2 & (b2 & Hidem)).
  pose proof (lower_ascii d Ha) as Ha2.
  assert (Hacc2 : forallb (lab_acc deny hy) (split_on DOT (map to_lower d)) = true)
    by (rewrite (acc_lower deny hy d HU HL Ha); exact Hacc).
  assert (Hui : forall pol, exists bb, to_user_interface A cfg d deny hy pol = UI bb (map to_lower d) false)
    by (intros pol; exact (to_ui_an d deny hy pol Han HU HL Hacc)).
  assert (Hui2 : exists bb, to_unicode A cfg (map to_lower d) deny hy = UI bb (map to_lower d) false).
  { unfold to_unicode. destruct (to_ui_an (map to_lower d) deny hy always_unicode Han2 HU HL Hacc2) as (bb & E).
    rewrite lower_lower in E. exists bb. exact E. }
  assert (Hu : exists bu, to_unicode A cfg d deny hy = UI bu (map to_lower d) false) by (unfold to_unicode; exact (Hui always_unicode)).
  destruct Hu as (bu & Eu). cbv zeta. rewrite Eu. cbn [ui_text ui_err].
  rewrite (utf8_encode_ascii _ Ha2). destruct Hui2 as (bb & E2). rewrite E2. cbn [ui_text ui_err].
  repeat split.
  - exists b2. exact Hidem.
  - intros p. destruct (Hui p) as (bp & Ep). rewrite Ep. cbn [ui_text]. rewrite (utf8_encode_ascii _ Ha2). exists b2. exact Hidem.
Qed.
End C12AN.

Example c12_an_premises_hold :
  AN [65; 45; 98; 46; 88; 110; 45; 99; 46] /\ valid_deny DENY_URL /\
  to_ascii toy true [65; 45; 98; 46; 88; 110; 45; 99; 46] DENY_URL HCheck DIgnore = Ok (false, [97; 45; 98; 46; 120; 110; 45; 99; 46]) /\
  to_unicode toy true [65; 45; 98; 46; 88; 110; 45; 99; 46] DENY_URL HCheck = UI false [97; 45; 98; 46; 120; 110; 45; 99; 46] false.
Proof.
  split; [apply ANb_spec; vm_compute; reflexivity|].
  split; [right; exists T_IDNA_URL_GLYPHLESS, T_IDNA_URL_LIST; reflexivity|].
  vm_compute. split; reflexivity.
Qed.
