(* Proofs/C06_Host.v - set_host_internal (and through it Url::set_host(Some _), set_ip_host) on a
   well-formed record.  Premises, all explicit and computable:
     - the text the host serialises to matches its kind (host_disp_ok): empty for the empty host,
       otherwise non-empty and not starting with ':' or '@' (true of Display for Host);
     - an empty host is not set on a URL that has a port (the pinned code does that: a://h:80/ ->
       a://:80/, F-C02-4);
     - a URL without authority does not carry the "/." marker (the pinned code keeps the marker
       between the new host and the path, F-C03-5). *)
From RU Require Import Base.Prelude Model.HostT Model.UrlRecord Model.Parser Model.Setters Model.WF
  Proofs.ListN Proofs.C03_WF Proofs.C06_List Proofs.C06_WFI Proofs.C06_Tail Proofs.C06_Steps Proofs.C06_Suffix
  Proofs.C06_Front Proofs.C06_Port.

Ltac splits := repeat match goal with |- _ /\ _ => split end.

Definition host_disp_ok (host_display : host -> list N) (h : host) : Prop :=
  match hi_of_host h with
  | HI_None => host_display h = []
  | _ => exists c r, host_display h = c :: r /\ c <> 58 /\ c <> 64
  end.

Definition hi_some (hi : host_internal) : bool := match hi with HI_None => false | _ => true end.

Lemma hi_match {A} hi (x y : A) : (match hi with HI_None => x | _ => y end) = if hi_some hi then y else x.
Proof. destruct hi; reflexivity. Qed.

Lemma host_disp_ok_cases hd h : host_disp_ok hd h ->
  (hi_some (hi_of_host h) = false /\ hd h = [])
  \/ (hi_some (hi_of_host h) = true /\ exists c r, hd h = c :: r /\ c <> 58 /\ c <> 64).
Proof. unfold host_disp_ok. destruct (hi_of_host h); intros H; [left | right | right | right]; split; try reflexivity; exact H. Qed.

(* ---------- a URL that already has an authority ---------- *)
Definition with_host_auth (u : url) (hi : host_internal) (d : list N) : url :=
  let b' := host_start u + nlen d in
  mkUrl (nfirstn (host_start u) (ser u) ++ d ++ nskipn (host_end u) (ser u))
        (scheme_end u) (username_end u) (host_start u) b' hi (port u) (shift (host_end u) b' (path_start u))
        (option_map (shift (host_end u) b') (query_start u)) (option_map (shift (host_end u) b') (fragment_start u)).

Section WithHostAuth.
Variables (dbg : bool) (u : url) (hi : host_internal) (d : list N).
Hypothesis W : wf_b u = true.
Hypothesis Ha : has_authority_b u = true.
Hypothesis Hd : (hi_some hi = false /\ d = [] /\ port u = None)
                \/ (hi_some hi = true /\ exists c r, d = c :: r /\ c <> 58 /\ c <> 64).

Let u' := with_host_auth u hi d.
Let a := host_start u.
Let b := host_end u.
Let b' := host_start u + nlen d.

Lemma wha_bounds : scheme_end u + 3 <= username_end u /\ username_end u <= a /\ a <= b /\ b <= path_start u
  /\ path_start u <= nlen (ser u).
Proof.
  pose proof (wf_auth_facts u W Ha) as F.
  pose proof (af_ue F); pose proof (af_hs F); pose proof (af_he F); pose proof (af_ps F); pose proof (af_len F).
  unfold a, b. lia.
Qed.

Lemma wha_ser : ser u' = nfirstn a (ser u) ++ d ++ nskipn b (ser u).
Proof. reflexivity. Qed.

Lemma wha_pre : agree_pre a (ser u) (ser u').
Proof. destruct wha_bounds as (B1 & B2 & B3 & B4 & B5). rewrite wha_ser. apply agree_pre_nfirstn. lia. Qed.

Lemma wha_suf : agree_suf b b' (ser u) (ser u').
Proof.
  destruct wha_bounds as (B1 & B2 & B3 & B4 & B5). unfold agree_suf. rewrite wha_ser, app_assoc.
  rewrite nskipn_app_ge by (rewrite nlen_app, nlen_nfirstn by lia; unfold b', a; lia).
  rewrite nlen_app, nlen_nfirstn by lia. unfold b', a. rewrite N.sub_diag. reflexivity.
Qed.

Lemma wha_len : nlen (ser u') = b' + (nlen (ser u) - b).
Proof.
  destruct wha_bounds as (B1 & B2 & B3 & B4 & B5). rewrite wha_ser, !nlen_app, nlen_nfirstn, nlen_nskipn by lia.
  unfold b', a. lia.
Qed.

Lemma wha_tail : shifted_tail b b' u u'.
Proof. repeat split. Qed.

Lemma wha_byte_hi i c : b <= i -> byte_eqb (ser u') (shift b b' i) c = byte_eqb (ser u) i c.
Proof. intros H. apply (suf_byte_eqb b b'); [apply wha_suf | exact H | reflexivity]. Qed.

(* the byte at host_start of the new serialization is not ':' and not '@'... as far as needed *)
Lemma wha_byte_at_hs : byte_eqb (ser u') a 58 = false.
Proof.
  destruct wha_bounds as (B1 & B2 & B3 & B4 & B5).
  assert (nlen (nfirstn a (ser u)) = a) as La by (apply nlen_nfirstn; lia).
  destruct Hd as [(Ehi & Ed & Ep)|(Ehi & c & r & Ed & C1 & C2)].
  - (* empty host: the next byte is the first byte of the path (or nothing) *)
    pose proof W as W0. apply wf_b_iff in W0. rewrite Ha in W0.
    destruct W0 as (_ & ((_ & _ & _ & _ & _ & _ & _ & P) & PS) & _).
    unfold port_ok in P. rewrite Ep in P.
    replace a with (shift b b' b) at 1 by (unfold shift, b', a; rewrite Ed, nlen_nil; lia).
    rewrite wha_byte_hi by lia. unfold b. rewrite <- P.
    destruct PS as [PS|[PS|[PS|PS]]].
    + apply byte_eqb_false_of. intros X. apply nnth_lt in X. lia.
    + apply (byte_eqb_excl _ _ 47 58); [lia | exact PS].
    + apply (byte_eqb_excl _ _ 63 58); [lia | exact PS].
    + apply (byte_eqb_excl _ _ 35 58); [lia | exact PS].
  - unfold byte_eqb. rewrite wha_ser, Ed. rewrite nnth_app_ge by lia. rewrite La, N.sub_diag. cbn.
    apply N.eqb_neq. exact C1.
Qed.

Lemma wha_has_authority : has_authority_b u' = true.
Proof.
  destruct wha_bounds as (B1 & B2 & B3 & B4 & B5).
  rewrite (has_authority_b_pre a u u' wha_pre) by (try lia; reflexivity). exact Ha.
Qed.

Lemma wha_wf : wf_b u' = true.
Proof.
  destruct wha_bounds as (B1 & B2 & B3 & B4 & B5). pose proof wha_len as Hl.
  pose proof W as W0. apply wf_b_iff in W0. rewrite Ha in W0. destruct W0 as (S & (AU & PS) & Q).
  apply wf_b_iff. rewrite wha_has_authority. split; [|split; [split|]].
  - apply (scheme_ok_pre a u u'); [apply wha_pre | lia | reflexivity | exact S].
  - destruct AU as (A1 & A2 & A3 & A4 & A5 & U & Hn & P).
    unfold auth_ok. change (scheme_end u') with (scheme_end u). change (username_end u') with (username_end u).
    change (host_start u') with a. change (host_end u') with b'. change (path_start u') with (shift b b' (path_start u)).
    change (hosti u') with hi.
    split; [lia|]. split; [lia|]. split; [unfold b'; lia|]. split; [unfold shift; lia|].
    split; [rewrite Hl; unfold shift; lia|]. split; [|split].
    + unfold userinfo_ok. change (scheme_end u') with (scheme_end u). change (username_end u') with (username_end u).
      change (host_start u') with a.
      destruct U as [(U1 & U2 & U3)|[(U1 & U2 & U3)|(U1 & U2)]].
      * left. splits; try assumption. rewrite U1. apply wha_byte_at_hs.
      * right. left. rewrite !(pre_byte_eqb a _ _ _ _ wha_pre) by (unfold a; lia). tauto.
      * right. right. rewrite !(pre_byte_eqb a _ _ _ _ wha_pre) by (unfold a; lia). tauto.
    + intros E. destruct Hd as [(Ehi & Ed & Ep)|(Ehi & _)]; [|rewrite E in Ehi; discriminate].
      unfold b'. rewrite Ed, nlen_nil. lia.
    + unfold port_ok in *. change (port u') with (port u). change (host_end u') with b'.
      change (path_start u') with (shift b b' (path_start u)).
      destruct (port u) as [p|].
      * destruct P as (P1 & P2 & P3 & P4). split; [|split; [|split]].
        -- replace b' with (shift b b' b) at 1 by (unfold shift; lia). rewrite wha_byte_hi by lia. exact P1.
        -- unfold shift. unfold b in *. lia.
        -- exact P3.
        -- replace (b' + 1) with (shift b b' (b + 1)) by (unfold shift; lia).
           replace (shift b b' (path_start u) - shift b b' (b + 1)) with (path_start u - (b + 1)) by (unfold shift, b in *; lia).
           rewrite (suf_piece b b' _ _ (b + 1) _ _ wha_suf) by (try lia; reflexivity). exact P4.
      * unfold shift. unfold b in *. lia.
  - apply (sfx_pathstart_ok u u' b b' W wha_suf); [lia | rewrite Hl; lia | apply wha_tail | exact PS].
  - apply (sfx_qf_ok u u' b b' W wha_suf); [lia | rewrite Hl; lia | apply wha_tail].
Qed.

Lemma wha_host_text_ok : host_text_ok u'.
Proof.
  destruct wha_bounds as (B1 & B2 & B3 & B4 & B5).
  assert (nlen (nfirstn a (ser u)) = a) as La by (apply nlen_nfirstn; lia).
  intros Hh. change (has_host u') with (hi_some hi) in Hh.
  change (host_start u') with a. change (host_end u') with b'.
  destruct Hd as [(Ehi & _)|(Ehi & c & r & Ed & C1 & C2)]; [congruence|].
  split; [unfold b'; rewrite Ed, nlen_cons; lia|].
  unfold byte_eqb. rewrite wha_ser, Ed. rewrite nnth_app_ge by lia. rewrite La, N.sub_diag. cbn.
  split; apply N.eqb_neq; assumption.
Qed.

Lemma wha_scheme : scheme u' = scheme u.
Proof.
  destruct wha_bounds as (B1 & B2 & B3 & B4 & B5).
  apply (scheme_same u u' a W wha_wf wha_pre); [reflexivity | lia].
Qed.

Lemma wha_username : username dbg u' = username dbg u.
Proof.
  destruct wha_bounds as (B1 & B2 & B3 & B4 & B5).
  apply (username_same dbg u u' a W wha_wf Ha wha_has_authority wha_pre); [reflexivity | reflexivity | lia].
Qed.

Lemma wha_password : password dbg u' = password dbg u.
Proof.
  apply (password_same dbg u u' a W wha_wf Ha wha_has_authority wha_pre); [reflexivity | reflexivity | unfold a; lia].
Qed.

Lemma wha_back : same_back dbg u u'.
Proof.
  destruct wha_bounds as (B1 & B2 & B3 & B4 & B5). pose proof wha_len as Hl.
  apply (sfx_back dbg u u' b b' W wha_wf wha_suf); [lia | rewrite Hl; lia | apply wha_tail].
Qed.

Lemma wha_host_str : host_str u' = Some (if hi_some hi then Some d else None).
Proof.
  destruct wha_bounds as (B1 & B2 & B3 & B4 & B5).
  rewrite (host_str_eval u' wha_wf). f_equal.
  change (has_host u') with (hi_some hi).
  assert (piece u' (pidx u' BeforeHost) (pidx u' AfterHost) = d) as E.
  { unfold piece. cbn [pidx]. change (host_start u') with a. change (host_end u') with b'.
    replace (b' - a) with (nlen d) by (unfold b', a; lia).
    rewrite wha_ser. rewrite nskipn_app_ge by (rewrite nlen_nfirstn; lia). rewrite nlen_nfirstn by lia.
    rewrite N.sub_diag, nskipn_0. apply nfirstn_app_exact. }
  rewrite E. reflexivity.
Qed.

End WithHostAuth.

(* ---------- a URL without authority (and without the "/." marker) whose path starts with '/' ---------- *)
Definition with_host_noauth (u : url) (hi : host_internal) (d : list N) : url :=
  let hs' := scheme_end u + 3 in
  let b' := hs' + nlen d in
  mkUrl (nfirstn (scheme_end u + 1) (ser u) ++ [47; 47] ++ d ++ nskipn (scheme_end u + 1) (ser u))
        (scheme_end u) hs' hs' b' hi None (shift (scheme_end u + 1) b' (path_start u))
        (option_map (shift (scheme_end u + 1) b') (query_start u))
        (option_map (shift (scheme_end u + 1) b') (fragment_start u)).

Section WithHostNoAuth.
Variables (dbg : bool) (u : url) (hi : host_internal) (d : list N).
Hypothesis W : wf_b u = true.
Hypothesis Ha : has_authority_b u = false.
Hypothesis Hnm : path_start u = scheme_end u + 1.
Hypothesis Hsl : byte_eqb (ser u) (scheme_end u + 1) 47 = true.
Hypothesis Hd : (hi_some hi = false /\ d = [])
                \/ (hi_some hi = true /\ exists c r, d = c :: r /\ c <> 58 /\ c <> 64).

Let u' := with_host_noauth u hi d.
Let a := scheme_end u + 1.
Let b' := scheme_end u + 3 + nlen d.

Lemma whn_bounds : 1 <= scheme_end u /\ a < nlen (ser u).
Proof. destruct (wf_scheme_facts u W) as (H1 & _ & H3). pose proof (byte_eqb_lt _ _ _ Hsl). unfold a. lia. Qed.

Lemma whn_ser : ser u' = nfirstn a (ser u) ++ [47; 47] ++ d ++ nskipn a (ser u).
Proof. reflexivity. Qed.

Lemma whn_pre : agree_pre a (ser u) (ser u').
Proof. destruct whn_bounds. rewrite whn_ser. apply agree_pre_nfirstn. lia. Qed.

Lemma whn_suf : agree_suf a b' (ser u) (ser u').
Proof.
  destruct whn_bounds. unfold agree_suf. rewrite whn_ser.
  replace (nfirstn a (ser u) ++ [47; 47] ++ d ++ nskipn a (ser u))
    with ((nfirstn a (ser u) ++ [47; 47] ++ d) ++ nskipn a (ser u)) by (rewrite <- !app_assoc; reflexivity).
  assert (nlen (nfirstn a (ser u) ++ [47; 47] ++ d) = b') as L.
  { rewrite !nlen_app, nlen_nfirstn by lia. change (nlen [47; 47]) with 2. unfold b', a. lia. }
  rewrite <- L. apply nskipn_app_exact.
Qed.

Lemma whn_len : nlen (ser u') = b' + (nlen (ser u) - a).
Proof.
  destruct whn_bounds. rewrite whn_ser, !nlen_app, nlen_nfirstn, nlen_nskipn by lia.
  change (nlen [47; 47]) with 2. unfold b', a. lia.
Qed.

Lemma whn_tail : shifted_tail a b' u u'.
Proof. repeat split. Qed.

Lemma whn_byte_hi i c : a <= i -> byte_eqb (ser u') (shift a b' i) c = byte_eqb (ser u) i c.
Proof. intros H. apply (suf_byte_eqb a b'); [apply whn_suf | exact H | reflexivity]. Qed.

Lemma whn_nnth_mid k : nnth (ser u') (a + k) = nnth ([47; 47] ++ d ++ nskipn a (ser u)) k.
Proof.
  destruct whn_bounds. rewrite whn_ser. rewrite nnth_app_ge by (rewrite nlen_nfirstn; lia).
  rewrite nlen_nfirstn by lia. f_equal. lia.
Qed.

Lemma whn_has_authority : has_authority_b u' = true.
Proof.
  destruct whn_bounds. destruct (wf_scheme_facts u W) as (_ & Hc & _).
  unfold has_authority_b. change (scheme_end u') with (scheme_end u).
  apply byte_eqb_nnth in Hc.
  assert (nnth (ser u') (scheme_end u) = Some 58) as C0.
  { rewrite (pre_nnth a _ _ _ whn_pre) by (unfold a; lia). exact Hc. }
  rewrite (nskipn_cons_of_nnth _ _ _ C0).
  assert (nnth (ser u') (scheme_end u + 1) = Some 47) as C1.
  { replace (scheme_end u + 1) with (a + 0) by (unfold a; lia). rewrite whn_nnth_mid. reflexivity. }
  rewrite (nskipn_cons_of_nnth _ _ _ C1).
  assert (nnth (ser u') (scheme_end u + 1 + 1) = Some 47) as C2.
  { replace (scheme_end u + 1 + 1) with (a + 1) by (unfold a; lia). rewrite whn_nnth_mid. reflexivity. }
  rewrite (nskipn_cons_of_nnth _ _ _ C2). reflexivity.
Qed.

Lemma whn_byte_at_hs c : c = 58 \/ c = 64 -> byte_eqb (ser u') (scheme_end u + 3) c = false.
Proof.
  intros Hc. destruct whn_bounds.
  replace (scheme_end u + 3) with (a + 2) by (unfold a; lia). unfold byte_eqb. rewrite whn_nnth_mid.
  change (nnth ([47; 47] ++ d ++ nskipn a (ser u)) 2) with (nnth (d ++ nskipn a (ser u)) 0).
  destruct Hd as [(Ehi & Ed)|(Ehi & c0 & r & Ed & C1 & C2)]; rewrite Ed.
  - cbn [app]. rewrite nnth_nskipn, N.add_0_r. unfold a.
    pose proof Hsl as Hsl'. apply byte_eqb_nnth in Hsl'. rewrite Hsl'. apply N.eqb_neq. destruct Hc; subst; lia.
  - cbn. apply N.eqb_neq. destruct Hc; subst; assumption.
Qed.

Lemma whn_wf : wf_b u' = true.
Proof.
  destruct whn_bounds as (B1 & B2). pose proof whn_len as Hl.
  pose proof (path_start_le_len u W) as Hpl.
  pose proof W as W0. apply wf_b_iff in W0. rewrite Ha in W0. destruct W0 as (S & NA & Q).
  apply wf_b_iff. rewrite whn_has_authority. split; [|split; [split|]].
  - apply (scheme_ok_pre a u u'); [apply whn_pre | unfold a; lia | reflexivity | exact S].
  - unfold auth_ok. change (scheme_end u') with (scheme_end u). change (username_end u') with (scheme_end u + 3).
    change (host_start u') with (scheme_end u + 3). change (host_end u') with b'.
    change (path_start u') with (shift a b' (path_start u)). change (hosti u') with hi.
    split; [lia|]. split; [lia|]. split; [unfold b'; lia|]. split; [unfold shift, a; lia|].
    split; [rewrite Hl; unfold shift, a; lia|]. split; [|split].
    + left. change (username_end u') with (scheme_end u + 3). change (host_start u') with (scheme_end u + 3).
      change (scheme_end u') with (scheme_end u). splits; try reflexivity. apply whn_byte_at_hs. left. reflexivity.
    + intros E. destruct Hd as [(Ehi & Ed)|(Ehi & _)]; [|rewrite E in Ehi; discriminate].
      unfold b'. rewrite Ed, nlen_nil. lia.
    + unfold port_ok. change (port u') with (@None N). change (path_start u') with (shift a b' (path_start u)).
      change (host_end u') with b'. unfold shift, a. lia.
  - unfold pathstart_ok. right. left. change (path_start u') with (shift a b' (path_start u)).
    rewrite whn_byte_hi by (unfold a; lia). rewrite Hnm. exact Hsl.
  - apply (sfx_qf_ok u u' a b' W whn_suf); [unfold a; lia | rewrite Hl; lia | apply whn_tail].
Qed.

Lemma whn_host_text_ok : host_text_ok u'.
Proof.
  intros Hh. change (has_host u') with (hi_some hi) in Hh.
  change (host_start u') with (scheme_end u + 3). change (host_end u') with b'.
  split; [|split; apply whn_byte_at_hs; [left | right]; reflexivity].
  destruct Hd as [(Ehi & _)|(Ehi & c & r & Ed & _)]; [congruence|]. unfold b'. rewrite Ed, nlen_cons. lia.
Qed.

Lemma whn_scheme : scheme u' = scheme u.
Proof. apply (scheme_same u u' a W whn_wf whn_pre); [reflexivity | unfold a; lia]. Qed.

Lemma whn_username : username dbg u' = username dbg u.
Proof.
  rewrite (username_eval dbg u' whn_wf), (username_eval dbg u W). f_equal. unfold piece. cbn [pidx].
  rewrite whn_has_authority, Ha. change (username_end u') with (scheme_end u + 3). change (scheme_end u') with (scheme_end u).
  rewrite (nf_ue (wf_noauth_facts u W Ha)). rewrite !N.sub_diag. reflexivity.
Qed.

Lemma whn_password : password dbg u' = password dbg u.
Proof.
  rewrite (password_piece dbg u' whn_wf), (password_piece dbg u W).
  assert (has_password_b u = false) as H0 by (unfold has_password_b; rewrite Ha; reflexivity).
  assert (has_password_b u' = false) as H1.
  { unfold has_password_b. change (username_end u') with (scheme_end u + 3).
    rewrite (whn_byte_at_hs 58) by (left; reflexivity). apply andb_false_r. }
  rewrite H0, H1. reflexivity.
Qed.

Lemma whn_back : same_back dbg u u'.
Proof.
  destruct whn_bounds. pose proof whn_len as Hl.
  apply (sfx_back dbg u u' a b' W whn_wf whn_suf); [unfold a; lia | rewrite Hl; lia | apply whn_tail].
Qed.

Lemma whn_host_str : host_str u' = Some (if hi_some hi then Some d else None).
Proof.
  destruct whn_bounds.
  rewrite (host_str_eval u' whn_wf). f_equal.
  change (has_host u') with (hi_some hi).
  assert (piece u' (pidx u' BeforeHost) (pidx u' AfterHost) = d) as E.
  { unfold piece. cbn [pidx]. change (host_start u') with (scheme_end u + 3). change (host_end u') with b'.
    replace (b' - (scheme_end u + 3)) with (nlen d) by (unfold b'; lia).
    rewrite whn_ser.
    replace (nfirstn a (ser u) ++ [47; 47] ++ d ++ nskipn a (ser u))
      with ((nfirstn a (ser u) ++ [47; 47]) ++ d ++ nskipn a (ser u)) by (rewrite <- !app_assoc; reflexivity).
    assert (nlen (nfirstn a (ser u) ++ [47; 47]) = scheme_end u + 3) as L.
    { rewrite nlen_app, nlen_nfirstn by lia. change (nlen [47; 47]) with 2. unfold a. lia. }
    rewrite <- L. rewrite nskipn_app_exact. apply nfirstn_app_exact. }
  rewrite E. reflexivity.
Qed.

End WithHostNoAuth.

(* ---------- evaluation of set_host_internal (no new port) ---------- *)
Lemma has_authority_trunc dbg u : wf_b u = true ->
  has_authority dbg (set_ser u (truncate (ser u) (host_start u))) = Some (has_authority_b u).
Proof.
  intros W. destruct (wf_scheme_facts u W) as (Hse & Hc & Hlt).
  assert (scheme_end u < host_start u /\ host_start u <= nlen (ser u)) as [G1 G2].
  { destruct (has_authority_b u) eqn:Ha.
    - pose proof (wf_auth_facts u W Ha) as F.
      pose proof (af_ue F); pose proof (af_hs F); pose proof (af_he F); pose proof (af_ps F); pose proof (af_len F). lia.
    - pose proof (wf_noauth_facts u W Ha) as F. rewrite (nf_hs F). lia. }
  unfold has_authority, byte_is, byte_at, u_slice_from, truncate. cbn [ser set_ser scheme_end].
  rewrite nnth_nfirstn by lia. rewrite (byte_eqb_nnth _ _ _ Hc). cbn [bindo]. rewrite N.eqb_refl. cbn [assert_o].
  rewrite slice_from_o_some by (rewrite nlen_nfirstn; lia).
  assert (starts_with s_css (nskipn (scheme_end u) (nfirstn (host_start u) (ser u))) = has_authority_b u) as E.
  { destruct (has_authority_b u) eqn:Ha.
    - pose proof (wf_auth_facts u W Ha) as F. pose proof (af_ue F); pose proof (af_hs F).
      rewrite (pre_starts_with (host_start u) (ser u) _ s_css (scheme_end u) (agree_pre_trunc _ _))
        by (change (nlen s_css) with 3; lia).
      exact Ha.
    - pose proof (wf_noauth_facts u W Ha) as F. rewrite (nf_hs F).
      rewrite nskipn_nfirstn_comm. rewrite (piece_one _ _ _ (byte_eqb_nnth _ _ _ Hc)). reflexivity. }
  destruct dbg; cbn [bindo]; rewrite E; reflexivity.
Qed.

Ltac shi_auth dbg host_display u h :=
  unfold truncate; cbn [bindo];
  let El := fresh "El" in
  assert (nlen (nfirstn (host_start u) (ser u) ++ host_display h) = host_start u + nlen (host_display h)) as El
    by (rewrite nlen_app, nlen_nfirstn by lia; reflexivity);
  rewrite El; rewrite adjust_ok by lia;
  rewrite !adjust_opt_ok by (destruct (query_start u), (fragment_start u); try exact I; lia);
  cbn [bindo];
  exists (with_host_auth u (hi_of_host h) (host_display h));
  (split; [unfold with_host_auth; rewrite <- app_assoc; reflexivity|]).

Ltac shi_noauth dbg host_display u h Ehs Eue Ehe Hc Eport :=
  unfold truncate; rewrite Ehs, Eue, Ehe;
  let E58 := fresh "E58" in
  assert (nfirstn (scheme_end u + 1 - scheme_end u) (nskipn (scheme_end u) (nfirstn (scheme_end u + 1) (ser u))) = [58]) as E58
    by (replace (scheme_end u + 1 - scheme_end u) with 1 by lia; rewrite nskipn_nfirstn_comm;
        rewrite nfirstn_nfirstn by lia; apply (piece_one _ _ _ (byte_eqb_nnth _ _ _ Hc)));
  replace (if dbg then x <- slice_o (nfirstn (scheme_end u + 1) (ser u)) (scheme_end u) (scheme_end u + 1);;
                         assert_o (list_eqb x [58]);;; assert_o (scheme_end u + 1 =? scheme_end u + 1) else Some tt)
    with (Some tt)
    by (destruct dbg; [|reflexivity]; rewrite slice_o_some by (rewrite ?nlen_nfirstn; lia); cbn [bindo];
        rewrite E58; cbn [list_eqb]; rewrite !N.eqb_refl; reflexivity);
  cbn [bindo];
  let El := fresh "El" in
  assert (nlen ((nfirstn (scheme_end u + 1) (ser u) ++ [47; 47]) ++ host_display h) = scheme_end u + 3 + nlen (host_display h)) as El
    by (rewrite !nlen_app, nlen_nfirstn by lia; change (nlen [47; 47]) with 2; lia);
  rewrite El; rewrite adjust_ok by lia;
  rewrite !adjust_opt_ok by (destruct (query_start u), (fragment_start u); try exact I; lia);
  cbn [bindo];
  exists (with_host_noauth u (hi_of_host h) (host_display h));
  (split; [unfold with_host_noauth; rewrite <- !app_assoc;
           replace (scheme_end u + 1 + 2) with (scheme_end u + 3) by lia; rewrite Eport; reflexivity|]).

Section SetHostInternal.
Variable dbg : bool.
Variable host_display : host -> list N.

Theorem set_host_internal_ok u h : wf_b u = true -> host_disp_ok host_display h ->
  (has_authority_b u = true -> hi_of_host h = HI_None -> port u = None) ->
  (has_authority_b u = false -> path_start u = scheme_end u + 1 /\ byte_eqb (ser u) (scheme_end u + 1) 47 = true) ->
  exists u', set_host_internal dbg host_display u h None = Some u'
  /\ wf_b u' = true /\ host_text_ok u' /\ scheme u' = scheme u /\ username dbg u' = username dbg u
  /\ password dbg u' = password dbg u /\ port u' = port u /\ same_back dbg u u'
  /\ host_str u' = Some (if hi_some (hi_of_host h) then Some (host_display h) else None)
  /\ hosti u' = hi_of_host h.
Proof.
  intros W Hdo Hx1 Hx2. unfold set_host_internal.
  destruct (wf_scheme_facts u W) as (Hse & Hc & Hlt).
  destruct (host_disp_ok_cases _ _ Hdo) as [(Ehi & Ed)|(Ehi & Hcr)].
  all: destruct (has_authority_b u) eqn:Ha.
  all: try (pose proof (wf_auth_facts u W Ha) as F;
            pose proof (af_ue F); pose proof (af_hs F); pose proof (af_he F); pose proof (af_ps F); pose proof (af_len F)).
  all: try (pose proof (wf_noauth_facts u W Ha) as F; pose proof (nf_ue F) as Eue; pose proof (nf_hs F) as Ehs;
            pose proof (nf_he F) as Ehe; pose proof (nf_len F); pose proof (nf_port F) as Eport; destruct (Hx2 eq_refl) as [Hnm Hsl]).
  all: destruct (wf_tail_offsets_ge u (path_start u) W ltac:(lia)) as [Gq Gf].
  all: unfold u_slice_from; rewrite slice_from_o_some by lia; cbn [bindo];
       rewrite (has_authority_trunc dbg u W); cbn [bindo]; rewrite Ha; cbn [negb].
  - shi_auth dbg host_display u h.
    assert ((hi_some (hi_of_host h) = false /\ host_display h = [] /\ port u = None)
            \/ (hi_some (hi_of_host h) = true /\ exists c r, host_display h = c :: r /\ c <> 58 /\ c <> 64)) as Hd.
    { left. splits; try assumption. apply Hx1; [reflexivity|]. destruct (hi_of_host h); [reflexivity | discriminate ..]. }
    splits.
    + apply wha_wf; assumption.
    + apply wha_host_text_ok; assumption.
    + apply wha_scheme; assumption.
    + apply wha_username; assumption.
    + apply wha_password; assumption.
    + reflexivity.
    + apply wha_back; assumption.
    + apply wha_host_str; assumption.
    + reflexivity.
  - shi_noauth dbg host_display u h Ehs Eue Ehe Hc Eport.
    assert ((hi_some (hi_of_host h) = false /\ host_display h = [])
            \/ (hi_some (hi_of_host h) = true /\ exists c r, host_display h = c :: r /\ c <> 58 /\ c <> 64)) as Hd
      by (left; split; assumption).
    splits.
    + apply whn_wf; assumption.
    + apply whn_host_text_ok; assumption.
    + apply whn_scheme; assumption.
    + apply whn_username; assumption.
    + apply whn_password; assumption.
    + symmetry. apply (nf_port F).
    + apply whn_back; assumption.
    + apply whn_host_str; assumption.
    + reflexivity.
  - shi_auth dbg host_display u h.
    assert ((hi_some (hi_of_host h) = false /\ host_display h = [] /\ port u = None)
            \/ (hi_some (hi_of_host h) = true /\ exists c r, host_display h = c :: r /\ c <> 58 /\ c <> 64)) as Hd
      by (right; split; assumption).
    splits.
    + apply wha_wf; assumption.
    + apply wha_host_text_ok; assumption.
    + apply wha_scheme; assumption.
    + apply wha_username; assumption.
    + apply wha_password; assumption.
    + reflexivity.
    + apply wha_back; assumption.
    + apply wha_host_str; assumption.
    + reflexivity.
  - shi_noauth dbg host_display u h Ehs Eue Ehe Hc Eport.
    assert ((hi_some (hi_of_host h) = false /\ host_display h = [])
            \/ (hi_some (hi_of_host h) = true /\ exists c r, host_display h = c :: r /\ c <> 58 /\ c <> 64)) as Hd
      by (right; split; assumption).
    splits.
    + apply whn_wf; assumption.
    + apply whn_host_text_ok; assumption.
    + apply whn_scheme; assumption.
    + apply whn_username; assumption.
    + apply whn_password; assumption.
    + symmetry. apply (nf_port F).
    + apply whn_back; assumption.
    + apply whn_host_str; assumption.
    + reflexivity.
Qed.

End SetHostInternal.

Section HostSetters.
Variable dbg : bool.
Variable host_parse : list N -> result host.
Variable host_parse_opaque : list N -> result host.
Variable host_display : host -> list N.

Definition host_set_post (u u' : url) (h : host) : Prop :=
  wf_b u' = true /\ host_text_ok u' /\ scheme u' = scheme u /\ username dbg u' = username dbg u
  /\ password dbg u' = password dbg u /\ port u' = port u /\ same_back dbg u u'
  /\ host_str u' = Some (if hi_some (hi_of_host h) then Some (host_display h) else None)
  /\ hosti u' = hi_of_host h.

Lemma set_host_internal_post u h u' : wf_b u = true -> host_disp_ok host_display h ->
  (has_authority_b u = true -> hi_of_host h = HI_None -> port u = None) ->
  (has_authority_b u = false -> path_start u = scheme_end u + 1) ->
  byte_eqb (ser u) (scheme_end u + 1) 47 = true ->
  set_host_internal dbg host_display u h None = Some u' -> host_set_post u u' h.
Proof.
  intros W Hd X1 X2 Hsl E.
  destruct (set_host_internal_ok dbg host_display u h W Hd X1) as (u'' & E' & R).
  - intros Ha. split; [apply X2; exact Ha | exact Hsl].
  - rewrite E in E'. inversion E'; subst u''. exact R.
Qed.

Theorem set_ip_host_ok u h u' st : wf_b u = true -> host_disp_ok host_display h ->
  (has_authority_b u = false -> path_start u = scheme_end u + 1) ->
  set_ip_host dbg host_display u h = Some (u', st) ->
  (st <> SOk -> u' = u)
  /\ (st = SOk -> (has_authority_b u = true -> hi_of_host h = HI_None -> port u = None) -> host_set_post u u' h).
Proof.
  intros W Hd X2 H. unfold set_ip_host in H. rewrite (cannot_be_a_base_eval u W) in H. cbn [bindo] in H.
  destruct (byte_eqb (ser u) (scheme_end u + 1) 47) eqn:Hsl; cbn [negb] in H.
  - destruct (set_host_internal dbg host_display u h None) as [u0|] eqn:E; cbn [bindo] in H; [|discriminate].
    inversion H; subst. split; [intros X; contradiction|]. intros _ X1.
    apply (set_host_internal_post u h u' W Hd X1 X2 Hsl E).
  - inversion H; subst. split; [reflexivity | discriminate].
Qed.

Theorem set_host_some_ok u x u' st : wf_b u = true -> (forall h, host_disp_ok host_display h) ->
  (has_authority_b u = false -> path_start u = scheme_end u + 1) ->
  set_host dbg host_parse host_parse_opaque host_display u (Some x) = Some (u', st) ->
  (st <> SOk -> u' = u)
  /\ (st = SOk -> exists h,
        (has_authority_b u = true -> hi_of_host h = HI_None -> port u = None) -> host_set_post u u' h).
Proof.
  intros W Hd X2 H. unfold set_host in H. rewrite (cannot_be_a_base_eval u W) in H. cbn [bindo] in H.
  destruct (byte_eqb (ser u) (scheme_end u + 1) 47) eqn:Hsl; cbn [negb] in H.
  2:{ inversion H; subst. split; [reflexivity | discriminate]. }
  unfold u_scheme_type in H. rewrite (scheme_eval u W) in H. cbn [bindo] in H.
  match type of H with (if ?c then _ else _) = _ => destruct c end.
  { inversion H; subst. split; [reflexivity | discriminate]. }
  match type of H with (match ?sub with Some _ => _ | None => _ end) = _ => destruct sub as [hsub|] end.
  2:{ inversion H; subst. split; [reflexivity | discriminate]. }
  match type of H with (match ?r with Ok _ => _ | Err _ => _ end) = _ => destruct r as [host|e] end.
  2:{ inversion H; subst. split; [reflexivity | discriminate]. }
  destruct (set_host_internal dbg host_display u host None) as [u0|] eqn:E; cbn [bindo] in H; [|discriminate].
  inversion H; subst. split; [intros X; contradiction|]. intros _. exists host. intros X1.
  apply (set_host_internal_post u host u' W (Hd host) X1 X2 Hsl E).
Qed.

End HostSetters.

(* ---------- the excluded classes are real: witnesses ---------- *)
Definition hs_hp (s : list N) : result host := Ok (HDomain s).
Definition hs_hd (h : host) : list N := match h with HDomain d => d | _ => [] end.

Lemma hs_hd_ok : forall h, (forall c r, h = HDomain (c :: r) -> c <> 58 /\ c <> 64) ->
  (forall a, h <> HIpv4 a) -> (forall p, h <> HIpv6 p) -> host_disp_ok hs_hd h.
Proof.
  intros h H1 H2 H3. unfold host_disp_ok. destruct h as [[|c r]|a|p]; cbn.
  - reflexivity.
  - exists c, r. split; [reflexivity|]. apply (H1 c r). reflexivity.
  - exfalso. apply (H2 a). reflexivity.
  - exfalso. apply (H3 p). reflexivity.
Qed.

(* "a://h:80/" : set_host(Some "") gives "a://:80/" - not well-formed (F-C02-4) *)
Definition hs_w1 : url := mkUrl [97; 58; 47; 47; 104; 58; 56; 48; 47] 1 4 4 5 HI_Domain (Some 80) 8 None None.
Lemma set_host_empty_with_port_refuted :
  wf_b hs_w1 = true
  /\ exists u', set_host true hs_hp hs_hp hs_hd hs_w1 (Some []) = Some (u', SOk)
     /\ ser u' = [97; 58; 47; 47; 58; 56; 48; 47] /\ wf_b u' = false.
Proof. split; [vm_compute; reflexivity|]. eexists. split; [vm_compute; reflexivity|]. split; vm_compute; reflexivity. Qed.

(* "a:/.//p" : set_host(Some "h") gives "a://h/.//p" with path_start pointing behind the marker (F-C03-5) *)
Definition hs_w2 : url := mkUrl [97; 58; 47; 46; 47; 47; 112] 1 2 2 2 HI_None None 4 None None.
Lemma set_host_marker_refuted :
  wf_b hs_w2 = true /\ has_authority_b hs_w2 = false /\ path_start hs_w2 <> scheme_end hs_w2 + 1
  /\ exists u', set_host true hs_hp hs_hp hs_hd hs_w2 (Some [104]) = Some (u', SOk)
     /\ ser u' = [97; 58; 47; 47; 104; 47; 46; 47; 47; 112] /\ wf_b u' = false.
Proof.
  split; [vm_compute; reflexivity|]. split; [vm_compute; reflexivity|]. split; [vm_compute; discriminate|].
  eexists. split; [vm_compute; reflexivity|]. split; vm_compute; reflexivity.
Qed.
