(* Proofs/C06_SegFileCls.v - path_segments_mut sessions on the canonical FILE records of C02 (FileCanon) return
   canonical file records: the exact evaluation of C06_SegFile turns the session into an operation on the canonical
   path (segments, last segment) as in C06_PushCanon; a pushed segment that is not skipped is a good segment of the
   special class, and under the computable side condition session_nd (the text written for every pushed segment does
   not begin with a letter followed by ':' or '|') it is a file segment (fseg_ok); the first segment stays non-empty. *)
From RU Require Import Base.Prelude Base.Utf8 Base.Utf8Facts Model.AsciiSet Gen.Tables
  Model.PercentEncoding Model.HostT Model.UrlRecord Model.Parser Model.Setters Model.WF
  Proofs.ListN Proofs.C03_WF Proofs.C06_List Proofs.C06_WFI Proofs.C06_Suffix Proofs.C06_PathParser Proofs.C06_Path
  Proofs.C14_Set Proofs.C14_Enc Proofs.C14_Views Proofs.C02_Enc Proofs.C02_Parts
  Proofs.C02_Opaque Proofs.C02_Path Proofs.C02_PathL1 Proofs.C02_Reach Proofs.C02_AuthParts
  Proofs.C02_Auth Proofs.C02_AuthWf Proofs.C02_PathSp Proofs.C02_AuthSp Proofs.C02_SetQF
  Proofs.C02_Canon Proofs.C02_File Proofs.C02_FileCanon
  Proofs.C06_SplicePath Proofs.C06_Segments Proofs.C06_SegPush Proofs.C06_PushCanon
  Proofs.C06_SegFile Proofs.C06_SegFileCanon.
Open Scope N_scope.
Open Scope list_scope.

(* ---------- the class of canonical file paths ---------- *)
Definition fcls (p : pth) : Prop :=
  match p with
  | Some (segs, last) => forallb fseg_ok segs = true /\ fseg_ok last = true
                         /\ match segs with [] => True | s :: _ => s <> [] end
  | None => False
  end.

Lemma fcls_ok p : fcls p -> pth_ok p.
Proof.
  destruct p as [[segs last]|]; [|contradiction]. intros (H1 & H2 & _). split.
  - apply good_segs_sp_good. apply fsegs_ok_sp. exact H1.
  - apply good_seg_sp_good. apply fseg_ok_sp. exact H2.
Qed.

Lemma fseg_ok_nil : fseg_ok [] = true.
Proof. reflexivity. Qed.

Lemma fcls_clear p : fcls p -> fcls (pth_clear p).
Proof. destruct p as [[segs last]|]; [|contradiction]. intros _. cbn [pth_clear fcls]. repeat split. Qed.

Lemma fcls_push p E : fcls p -> fseg_ok E = true -> fcls (pth_push p E).
Proof.
  destruct p as [[segs last]|]; [|contradiction]. intros (H1 & H2 & H3) G.
  destruct segs as [|s segs']; [destruct last as [|c r]|]; cbn [pth_push fcls].
  - repeat split. exact G.
  - split; [|split; [exact G|]].
    + cbn [app forallb]. rewrite H2. reflexivity.
    + cbn [app]. discriminate.
  - split; [|split; [exact G|]].
    + rewrite forallb_snoc, H1, H2. reflexivity.
    + cbn [app]. exact H3.
Qed.

Lemma first_removelast (s0 : list N) sg0 : s0 <> [] ->
  match removelast (s0 :: sg0) with [] => True | s :: _ => s <> [] end.
Proof. intros H. destruct sg0 as [|s1 r]; cbn [removelast]; [exact I | exact H]. Qed.

Lemma fcls_pop p : fcls p -> fcls (pth_pop p).
Proof.
  destruct p as [[segs last]|]; [|contradiction]. intros (H1 & H2 & H3).
  destruct segs as [|s0 sg0]; cbn [pth_pop fcls]; [repeat split|].
  destruct (forallb_removelast fseg_ok (s0 :: sg0) [] ltac:(discriminate) H1) as [G1 G2].
  split; [exact G1|]. split; [exact G2|]. apply first_removelast. exact H3.
Qed.

Lemma fcls_pop_if_empty p : fcls p -> fcls (pth_pop_if_empty p).
Proof.
  destruct p as [[segs last]|]; [|contradiction]. intros (H1 & H2 & H3).
  destruct segs as [|s0 sg0]; destruct last as [|c r]; cbn [pth_pop_if_empty fcls]; try (split; [|split]; assumption).
  destruct (forallb_removelast fseg_ok (s0 :: sg0) [] ltac:(discriminate) H1) as [G1 G2].
  split; [exact G1|]. split; [exact G2|]. apply first_removelast. exact H3.
Qed.

(* ---------- the side condition: no pushed segment is written as a drive-letter-like text ---------- *)
Definition seg_nd (seg : list N) : bool := seg_skipped (strip_tnl seg) || negb (wdl_like (seg_text STFile seg)).
Definition op_nd (o : psm_op) : bool :=
  match o with PPush s => seg_nd s | PExtend ss => forallb seg_nd ss | _ => true end.
Definition session_nd (ops : list psm_op) : bool := forallb op_nd ops.

Lemma extend_text_fcls segs : forall p, fcls p -> Forall usv_list segs -> forallb seg_nd segs = true ->
  exists p', fcls p' /\ extend_text STFile (pth_text p) segs = pth_text p'.
Proof.
  induction segs as [|seg rest IH]; intros p Hc Hu Hn; cbn [extend_text fold_left].
  - exists p. split; [exact Hc | reflexivity].
  - pose proof (Forall_inv Hu) as Hu1. pose proof (Forall_inv_tail Hu) as Hu2.
    cbn [forallb] in Hn. apply andb_true_iff in Hn. destruct Hn as [Hn1 Hn2].
    destruct (seg_skipped (strip_tnl seg)) eqn:Hk1.
    + unfold push_text at 2. rewrite Hk1. apply IH; assumption.
    + rewrite (push_text_pth STFile p seg Hk1). destruct (seg_text_good STFile seg Hu1 Hk1) as [_ Gsp].
      unfold seg_nd in Hn1. rewrite Hk1 in Hn1. cbn [orb] in Hn1.
      apply IH; [|assumption|assumption]. apply fcls_push; [exact Hc|].
      unfold fseg_ok. rewrite (Gsp eq_refl), Hn1. reflexivity.
Qed.

Lemma session_text_fcls ops : forall p, fcls p -> Forall psm_op_usv ops -> session_nd ops = true ->
  exists p', fcls p' /\ session_text STFile (pth_text p) ops = pth_text p'.
Proof.
  induction ops as [|o rest IH]; intros p Hc Hu Hn; cbn [session_text fold_left].
  - exists p. split; [exact Hc | reflexivity].
  - pose proof (Forall_inv Hu) as Hu1. pose proof (Forall_inv_tail Hu) as Hu2.
    unfold session_nd in Hn. cbn [forallb] in Hn. apply andb_true_iff in Hn. destruct Hn as [Hn1 Hn2].
    assert (exists p1, fcls p1 /\ op_text STFile (pth_text p) o = pth_text p1) as (p1 & Hc1 & E1).
    { pose proof (fcls_ok p Hc) as Hok.
      destruct o; cbn [op_text psm_op_usv op_nd] in *.
      - exists (pth_clear p). split; [apply fcls_clear; exact Hc | apply clear_text_pth].
      - exists (pth_pop_if_empty p). split; [apply fcls_pop_if_empty; exact Hc | apply pop_if_empty_text_pth; exact Hok].
      - exists (pth_pop p). split; [apply fcls_pop; exact Hc | apply pop_text_pth; exact Hok].
      - apply (extend_text_fcls [s] p Hc); [constructor; [assumption | constructor]|].
        cbn [forallb]. rewrite Hn1. reflexivity.
      - apply (extend_text_fcls ss p Hc); assumption. }
    rewrite E1. apply (IH p1 Hc1 Hu2 Hn2).
Qed.

(* ---------- a whole session on a canonical file record ---------- *)
Section FileCls.
Variable dbg : bool.
Variable hp hpo : list N -> result host.
Variable hd : host -> list N.
Hypothesis HRT : HostRT hp hpo hd.

Theorem psm_file ho segs last q f ops u' : file_ok hp hd ho segs last q f ->
  file_session_ok (path_text segs last) ops = true -> session_nd ops = true -> Forall psm_op_usv ops ->
  path_segments_session dbg (file_curl hd ho (path_text segs last) q f) ops = Some (u', SOk) ->
  exists segs' last', fcls (Some (segs', last')) /\ u' = file_curl hd ho (path_text segs' last') q f
    /\ path_text segs' last' = session_text STFile (path_text segs last) ops.
Proof.
  intros K Hok Hn Hu E.
  assert (FileCanon hp hd (file_curl hd ho (path_text segs last) q f)) as FC by (constructor; exact K).
  pose proof (psm_session_FileCanon dbg hp hpo hd HRT _ ops u' FC) as X.
  rewrite file_curl_path_bytes in X. destruct (X Hok Hu E) as (_ & X2 & _). clear X.
  assert (fcls (Some (segs, last))) as Hc.
  { destruct K as [Kh Ksegs Klast Kfirst Kq Kf Kb1 Kbq Kbf]. cbn [fcls]. split; [exact Ksegs|]. split; [exact Klast | exact Kfirst]. }
  destruct (session_text_fcls ops (Some (segs, last)) Hc Hu Hn) as (p' & Hc' & E').
  cbn [pth_text] in E'. destruct p' as [[segs' last']|]; [|contradiction].
  exists segs', last'. split; [exact Hc'|]. cbn [pth_text] in E'. split; [|symmetry; exact E'].
  rewrite X2, E'. unfold file_curl, file_pre. apply with_path_qf.
Qed.

(* the result of a session on a canonical file record is a canonical file record *)
Theorem psm_FileCanon u ops u' : FileCanon hp hd u ->
  file_session_ok (path_bytes u) ops = true -> session_nd ops = true -> Forall psm_op_usv ops ->
  path_segments_session dbg u ops = Some (u', SOk) -> nlen (ser u') <= U32_MAX_P -> FileCanon hp hd u'.
Proof.
  intros FC Hok Hn Hu E Hb. destruct FC as [ho segs last q f K]. rewrite file_curl_path_bytes in Hok.
  destruct (psm_file ho segs last q f ops u' K Hok Hn Hu E) as (segs' & last' & (H1 & H2 & H3) & -> & _).
  constructor. unfold file_curl at 1, qf_url at 1 in Hb. cbn [ser] in Hb.
  fold (file_ser hd ho (path_text segs' last') q f) in Hb.
  destruct (file_bounds_of_len hp hpo hd ho (path_text segs' last') q f Hb) as (B1 & B2 & B3).
  destruct K as [Kh Ksegs Klast Kfirst Kq Kf Kb1 Kbq Kbf].
  constructor; assumption.
Qed.
End FileCls.

(* ---------- session_nd is stronger than the side condition file_session_ok of the exact evaluation ---------- *)
Lemma nwdl_app_like A X : is_normalized_wdl A = true -> wdl_like (A ++ X) = true.
Proof.
  unfold is_normalized_wdl. intros H. apply andb_true_iff in H. destruct H as [H _].
  destruct (is_wdl_cases A H) as (a & b & -> & Ha & Hb). cbn [app wdl_like]. rewrite Ha.
  destruct Hb as [->| ->]; reflexivity.
Qed.

Lemma not_like_not_bar t : wdl_like t = false -> wdl_bar t = false.
Proof.
  destruct t as [|a [|b [|c r]]]; cbn [wdl_like wdl_bar]; try reflexivity.
  destruct (is_alpha a); [|reflexivity]. cbn [andb]. destruct (b =? 124); [|reflexivity].
  rewrite orb_true_r. discriminate.
Qed.

Lemma strip_tnl_cons c r : strip_tnl (c :: r) = if is_tnl c then strip_tnl r else c :: strip_tnl r.
Proof. destruct (is_tnl c) eqn:E; unfold strip_tnl; cbn [filter]; cbv [C06_FragQuery.not_tnl C02_Enc.not_tnl]; rewrite E; reflexivity. Qed.

Lemma flush_ok_nd l : forall acc pend, wdl_like (etext (acc ++ rev pend ++ strip_tnl l)) = false ->
  flush_ok acc pend l = true.
Proof.
  induction l as [|c r IH]; intros acc pend H; cbn [flush_ok]; [reflexivity|].
  rewrite strip_tnl_cons in H. destruct (is_tnl c) eqn:Et.
  - apply IH. cbn [rev app]. rewrite <- app_assoc. exact H.
  - apply andb_true_iff. split.
    + apply negb_true_iff. destruct (is_normalized_wdl (etext acc)) eqn:En; [|reflexivity].
      rewrite etext_app in H. rewrite (nwdl_app_like _ _ En) in H. discriminate H.
    + apply IH. cbn [rev]. rewrite <- app_assoc. exact H.
Qed.

Lemma seg_nd_push_ok P seg : seg_nd seg = true -> push_ok P seg = true.
Proof.
  unfold seg_nd, push_ok. intros H. destruct (seg_skipped (strip_tnl seg)); [reflexivity|]. cbn [orb] in *.
  apply negb_true_iff in H. apply orb_true_iff. right. unfold root_seg_ok. apply andb_true_iff. split.
  - apply flush_ok_nd. cbn [rev app]. exact H.
  - apply negb_true_iff. apply not_like_not_bar. exact H.
Qed.

Lemma nd_extend_ok segs : forall P, forallb seg_nd segs = true -> extend_ok P segs = true.
Proof.
  induction segs as [|s r IH]; intros P H; cbn [extend_ok]; [reflexivity|].
  cbn [forallb] in H. apply andb_true_iff in H. destruct H as [H1 H2].
  rewrite (seg_nd_push_ok P s H1). cbn [andb]. apply IH. exact H2.
Qed.

Lemma session_nd_ok ops : forall P, session_nd ops = true -> file_session_ok P ops = true.
Proof.
  induction ops as [|o r IH]; intros P H; cbn [file_session_ok]; [reflexivity|].
  unfold session_nd in H. cbn [forallb] in H. apply andb_true_iff in H. destruct H as [H1 H2].
  rewrite (IH _ H2). rewrite andb_true_r.
  destruct o; cbn [op_ok op_nd] in *; try reflexivity.
  - apply seg_nd_push_ok. exact H1.
  - apply nd_extend_ok. exact H1.
Qed.

Section FileClsNd.
Variable dbg : bool.
Variable hp hpo : list N -> result host.
Variable hd : host -> list N.
Hypothesis HRT : HostRT hp hpo hd.

(* the session theorem under the single side condition session_nd: the result is canonical and its text is explicit *)
Theorem psm_FileCanon_nd u ops u' : FileCanon hp hd u -> session_nd ops = true -> Forall psm_op_usv ops ->
  path_segments_session dbg u ops = Some (u', SOk) -> nlen (ser u') <= U32_MAX_P ->
  FileCanon hp hd u' /\ u' = with_path u (session_text STFile (path_bytes u) ops).
Proof.
  intros FC Hn Hu E Hb. pose proof (session_nd_ok ops (path_bytes u) Hn) as Hok. split.
  - exact (psm_FileCanon dbg hp hpo hd HRT u ops u' FC Hok Hn Hu E Hb).
  - destruct (psm_session_FileCanon dbg hp hpo hd HRT u ops u' FC Hok Hu E) as (_ & X & _). exact X.
Qed.
End FileClsNd.
