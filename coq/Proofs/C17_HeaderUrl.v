(* Proofs/C17_HeaderUrl.v - the header half of C17 for opaque-path data: URLs whose header has no '?':
   the text parse_header hands to the MIME parser and its base64 flag are what the Fetch processor
   computes (steps 4-6, 11 condition, 11.4-11.6, 12) from the URL serialization. *)
From RU Require Import Base.Prelude Base.Utf8 Base.Utf8Facts Model.AsciiSet Gen.Tables Model.PercentEncoding
  Model.HostT Model.UrlRecord Model.Parser Model.Mime Model.Base64 Model.DataUrl Model.DataUrlTie Model.KnownC17
  Spec.Infra Spec.MimeSniff Spec.Fetch
  Proofs.ListN Proofs.C14_Set Proofs.C14_Enc Proofs.C14_Views Proofs.C02_Enc Proofs.C02_Parts Proofs.C02_Opaque
  Proofs.C18_BodyRef Proofs.C17_Tables Proofs.C17_Total Proofs.C17_Decode Proofs.C17_Bridge Proofs.C17_Fragment
  Proofs.C17_Body Proofs.C17_BodyUrl Proofs.C17_Header.

(* what the serializer writes between "data:" and the first comma *)
Theorem header_serialized dbg hp ho hd s rem u h B : usv_list s ->
  parse_scheme CUrlParser (input_new_trim_c0 s) = Some (s_data, rem) -> inp_split_prefix_char 47 rem = None ->
  parse_url dbg hp ho hd None None s = POk u ->
  find_comma_before_fragment (utf8_encode rem) = Ok (Some (h, B)) ->
  ~ In 63 h ->
  exists encodedBody,
    collect_until_comma (skipn 5 (url_without_fragment u))
    = (encode T_CONTROLS (filter C02_Enc.not_tnl h), Some encodedBody).
Proof.
  intros Hs Hp H47 Hu HB Hq.
  destruct (parse_opaque_explicit dbg hp ho hd s s_data rem u Hs Hp scheme_type_of_data H47 Hu) as [Hur ->].
  rewrite opaque_url_without_fragment.
  destruct (find_comma_spec _ _ _ HB) as (Hsplit & Hn44 & Hn35).
  destruct (comma_split_chars rem h B Hur Hsplit Hn44) as (Hc & Rc & Er & Eh & EB & Hnc).
  assert (Huc : usv_list Hc /\ usv_list Rc).
  { rewrite Er in Hur. apply usv_app in Hur. destruct Hur as [U1 U2]. apply usv_cons in U2. tauto. }
  destruct Huc as [Uh Ur].
  assert (Hc63 : ~ In 63 Hc) by (intros Hin; apply Hq; rewrite Eh; apply in_utf8_ascii; [lia|exact Hin]).
  assert (Hc35 : ~ In 35 Hc) by (intros Hin; apply Hn35; rewrite Eh; apply in_utf8_ascii; [lia|exact Hin]).
  destruct (cbb_header Hc Rc Hc63 Hc35) as [C1 C2].
  unfold opaque_pre. rewrite <- !app_assoc. change (s_data ++ [58] ++ ?x) with ([100;97;116;97;58] ++ x).
  cbn [app skipn]. unfold opaque_of. rewrite Er, C1, C2.
  rewrite enc_utf8_app, utf8_cons, encode1_ascii, <- app_assoc by lia. cbn [app]. rewrite encode_cons.
  change (enc1 T_CONTROLS 44) with [44]. cbn [app].
  rewrite Eh, filter_not_tnl_utf8 by exact Uh.
  eexists. apply collect_until_comma_app. apply encode_no_comma; [apply usv_strip_k; exact Uh|].
  intros Hin. apply Hnc. unfold strip_tnl in Hin. apply filter_In in Hin. tauto.
Qed.

(* C17_header_text / C17_base64_flag *)
Theorem header_is_fetch_header dbg hp ho hd s rem u h B : usv_list s ->
  parse_scheme CUrlParser (input_new_trim_c0 s) = Some (s_data, rem) -> inp_split_prefix_char 47 rem = None ->
  parse_url dbg hp ho hd None None s = POk u ->
  find_comma_before_fragment (utf8_encode rem) = Ok (Some (h, B)) ->
  ~ In 63 h ->
  exists mimeType encodedBody,
    collect_until_comma (skipn 5 (url_without_fragment u)) = (mimeType, Some encodedBody)
    /\ header_of h = fetch_header mimeType.
Proof.
  intros Hs Hp H47 Hu HB Hq.
  destruct (header_serialized dbg hp ho hd s rem u h B Hs Hp H47 Hu HB Hq) as [eb He].
  exists (encode T_CONTROLS (filter C02_Enc.not_tnl h)), eb. split; [exact He|].
  apply header_bytes; [|exact Hq].
  destruct (find_comma_spec _ _ _ HB) as (Hsplit & _ & _).
  assert (Hb : bytes (utf8_encode rem)).
  { apply utf8_encode_bytes.
    destruct (parse_opaque_explicit dbg hp ho hd s s_data rem u Hs Hp scheme_type_of_data H47 Hu) as [Hur _]. exact Hur. }
  rewrite Hsplit in Hb. apply bytes_app in Hb. tauto.
Qed.
