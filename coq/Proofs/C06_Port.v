(* Proofs/C06_Port.v - set_port_internal / set_port / q_set_port on a well-formed record. *)
From RU Require Import Base.Prelude Model.HostT Model.UrlRecord Model.Parser Model.Setters Model.WF
  Proofs.ListN Proofs.C03_WF Proofs.C06_List Proofs.C06_WFI Proofs.C06_Tail Proofs.C06_Suffix Proofs.C06_Front.

Ltac splits := repeat match goal with |- _ /\ _ => split end.

Definition port_text (p : option N) : list N := match p with Some x => 58 :: decimal x | None => [] end.

Definition with_port (u : url) (p : option N) : url :=
  let ps' := host_end u + nlen (port_text p) in
  mkUrl (nfirstn (host_end u) (ser u) ++ port_text p ++ nskipn (path_start u) (ser u))
        (scheme_end u) (username_end u) (host_start u) (host_end u) (hosti u) p ps'
        (option_map (shift (path_start u) ps') (query_start u))
        (option_map (shift (path_start u) ps') (fragment_start u)).

Lemma option_map_shift_ext b1 b2 b3 b4 (o : option N) :
  (forall i, o = Some i -> shift b1 b2 i = shift b3 b4 i) -> option_map (shift b1 b2) o = option_map (shift b3 b4) o.
Proof. intros H. destruct o as [i|]; [|reflexivity]. cbn. f_equal. apply H. reflexivity. Qed.

Lemma set_port_internal_eval dbg u p : wf_b u = true -> has_host u = true ->
  set_port_internal dbg u p = Some (if opt_eqb (port u) p then u else with_port u p).
Proof.
  intros W Hh. pose proof (has_host_authority u W Hh) as Ha. pose proof (wf_auth_facts u W Ha) as F.
  pose proof (af_ue F); pose proof (af_hs F); pose proof (af_he F); pose proof (af_ps F); pose proof (af_len F).
  destruct (wf_tail_offsets_ge u (path_start u) W ltac:(lia)) as [Gq Gf].
  unfold set_port_internal.
  destruct (port u) as [o|] eqn:Eo; destruct p as [n|]; cbn [opt_eqb].
  - destruct (o =? n) eqn:E; [reflexivity|].
    unfold u_slice_from. rewrite slice_from_o_some by lia. cbn [bindo].
    unfold truncate.
    assert (nlen (nfirstn (host_end u) (ser u) ++ [58] ++ decimal n) = host_end u + nlen (port_text (Some n))) as El.
    { rewrite nlen_app, nlen_nfirstn by lia. cbn [port_text app]. rewrite !nlen_cons. reflexivity. }
    rewrite El.
    rewrite !adjust_opt_ok by assumption. cbn [bindo]. unfold with_port. cbn [port_text].
    rewrite <- !app_assoc. reflexivity.
  - unfold u_slice_from. rewrite slice_o_some by lia. rewrite slice_from_o_some by lia. cbn [bindo].
    replace (host_end u <=? path_start u) with true by lia. cbn [assert_o bindo].
    unfold sub_off_opt. rewrite !adjust_opt_ok.
    + cbn [bindo]. unfold with_port. cbn [port_text app]. rewrite nlen_nil, N.add_0_r, N.sub_0_r, nskipn_0.
      f_equal. f_equal; apply option_map_shift_ext; intros i Hi; unfold shift;
        [rewrite Hi in Gq | rewrite Hi in Gf]; lia.
    + destruct (fragment_start u); [lia | exact I].
    + destruct (query_start u); [lia | exact I].
  - unfold u_slice_from. rewrite slice_from_o_some by lia. cbn [bindo].
    unfold truncate.
    assert (nlen (nfirstn (host_end u) (ser u) ++ [58] ++ decimal n) = host_end u + nlen (port_text (Some n))) as El.
    { rewrite nlen_app, nlen_nfirstn by lia. cbn [port_text app]. rewrite !nlen_cons. reflexivity. }
    rewrite El. rewrite !adjust_opt_ok by assumption. cbn [bindo]. unfold with_port. cbn [port_text].
    rewrite <- !app_assoc. reflexivity.
  - reflexivity.
Qed.

Theorem with_port_ok dbg u p : wf_b u = true -> host_text_ok u -> has_host u = true ->
  (match p with Some x => x <= 65535 | None => True end) ->
  let u' := with_port u p in
  wf_b u' = true /\ host_text_ok u' /\ same_ids dbg u u' /\ port u' = p /\ same_back dbg u u'.
Proof.
  intros W HT Hh Hp u'.
  pose proof (has_host_authority u W Hh) as Ha. pose proof (wf_auth_facts u W Ha) as F.
  pose proof (af_ue F); pose proof (af_hs F); pose proof (af_he F); pose proof (af_ps F); pose proof (af_len F).
  pose proof (HT Hh) as (Hne & Hne1 & Hne2).
  set (A := nfirstn (host_end u) (ser u)). set (X := port_text p). set (B := nskipn (path_start u) (ser u)).
  assert (nlen A = host_end u) as LA by (apply nlen_nfirstn; lia).
  assert (ser u' = A ++ X ++ B) as Es by reflexivity.
  assert (agree_pre (host_end u) (ser u) (ser u')) as Hpre by (rewrite Es; apply agree_pre_nfirstn; lia).
  assert (agree_suf (path_start u) (host_end u + nlen X) (ser u) (ser u')) as Hsuf.
  { unfold agree_suf. rewrite Es, app_assoc. rewrite nskipn_app_ge by (rewrite nlen_app; lia).
    rewrite nlen_app, LA, N.sub_diag. reflexivity. }
  assert (nlen (ser u') = host_end u + nlen X + (nlen (ser u) - path_start u)) as Hl.
  { rewrite Es, !nlen_app, LA. unfold B. rewrite nlen_nskipn. lia. }
  assert (shifted_tail (path_start u) (host_end u + nlen X) u u') as Hsh.
  { split; [|split; reflexivity]. change (path_start u') with (host_end u + nlen X). unfold shift. lia. }
  pose proof W as W0. apply wf_b_iff in W0. rewrite Ha in W0. destruct W0 as (S & (AU & PS) & Q).
  assert (has_authority_b u' = true) as Ha'.
  { rewrite (has_authority_b_pre (host_end u) u u' Hpre) by (try lia; reflexivity). exact Ha. }
  assert (wf_b u' = true) as W'.
  { apply wf_b_iff. rewrite Ha'. split; [|split; [split|]].
    - apply (scheme_ok_pre (host_end u) u u'); [exact Hpre | lia | reflexivity | exact S].
    - destruct AU as (A1 & A2 & A3 & A4 & A5 & U & Hn & P).
      unfold auth_ok, userinfo_ok, port_ok.
      change (scheme_end u') with (scheme_end u). change (username_end u') with (username_end u).
      change (host_start u') with (host_start u). change (host_end u') with (host_end u).
      change (hosti u') with (hosti u). change (port u') with p.
      change (path_start u') with (host_end u + nlen X).
      splits; try lia; try assumption.
      + destruct U as [(U1 & U2 & U3)|[(U1 & U2 & U3)|(U1 & U2)]].
        * left. splits; try assumption. rewrite (pre_byte_eqb _ _ _ _ _ Hpre) by lia. exact U3.
        * right. left. rewrite !(pre_byte_eqb _ _ _ _ _ Hpre) by lia. tauto.
        * right. right. rewrite !(pre_byte_eqb _ _ _ _ _ Hpre) by lia. tauto.
      + subst X. destruct p as [x|]; cbn [port_text] in *.
        * rewrite Es. cbn [port_text].
          splits.
          -- unfold byte_eqb. rewrite nnth_app_ge by lia. rewrite LA, N.sub_diag. cbn. apply N.eqb_refl.
          -- rewrite nlen_cons. lia.
          -- exact Hp.
          -- rewrite nskipn_app_ge by lia. rewrite LA.
             replace (host_end u + 1 - host_end u) with 1 by lia.
             change (nskipn 1 ((58 :: decimal x) ++ B)) with (decimal x ++ B).
             rewrite nlen_cons. replace (host_end u + (1 + nlen (decimal x)) - (host_end u + 1)) with (nlen (decimal x)) by lia.
             apply nfirstn_app_exact.
        * rewrite nlen_nil. lia.
    - apply (sfx_pathstart_ok u u' (path_start u) (host_end u + nlen X) W Hsuf); try lia; assumption.
    - apply (sfx_qf_ok u u' (path_start u) (host_end u + nlen X) W Hsuf); try lia; assumption. }
  split; [exact W'|]. split; [|split; [|split; [reflexivity|]]].
  - intros _. change (host_start u') with (host_start u). change (host_end u') with (host_end u).
    rewrite (pre_byte_eqb _ _ _ _ 58 Hpre) by lia. rewrite (pre_byte_eqb _ _ _ _ 64 Hpre) by lia. tauto.
  - apply (fp_ids u u' (host_end u)); try assumption; try reflexivity; lia.
  - apply (sfx_back dbg u u' (path_start u) (host_end u + nlen X)); try assumption; try lia.
Qed.

Lemma same_ids_refl dbg u : same_ids dbg u u.
Proof. repeat split. Qed.
Lemma same_back_refl dbg u : same_back dbg u u.
Proof. repeat split. Qed.

Lemma opt_eqb_eq a b : opt_eqb a b = true -> a = b.
Proof. destruct a, b; cbn; intros H; try discriminate; [f_equal; lia | reflexivity]. Qed.

Theorem set_port_internal_ok dbg u p : wf_b u = true -> host_text_ok u -> has_host u = true ->
  (match p with Some x => x <= 65535 | None => True end) ->
  exists u', set_port_internal dbg u p = Some u'
  /\ wf_b u' = true /\ host_text_ok u' /\ same_ids dbg u u' /\ port u' = p /\ same_back dbg u u'.
Proof.
  intros W HT Hh Hp. rewrite (set_port_internal_eval dbg u p W Hh).
  destruct (opt_eqb (port u) p) eqn:E.
  - exists u. split; [reflexivity|]. splits; try assumption; try apply same_ids_refl; try apply same_back_refl.
    apply opt_eqb_eq. exact E.
  - exists (with_port u p). split; [reflexivity|]. apply with_port_ok; assumption.
Qed.

(* cannot_have_credentials_or_port *)
Lemma chcp_eval u : wf_b u = true -> exists c, cannot_have_credentials_or_port u = Some c
  /\ (c = false -> has_host u = true).
Proof.
  intros W. unfold cannot_have_credentials_or_port. destruct (has_host u) eqn:Hh; cbn [negb].
  - rewrite (scheme_eval u W). unfold host_of.
    pose proof (has_host_authority u W Hh) as Ha. pose proof (wf_auth_facts u W Ha) as F.
    pose proof (af_he F); pose proof (af_ps F); pose proof (af_len F).
    destruct (hosti u); cbn [bindo]; try (eexists; split; [reflexivity | intros _; reflexivity]).
    unfold u_slice. rewrite slice_o_some by lia. cbn [bindo]. eexists; split; [reflexivity | intros _; reflexivity].
  - eexists; split; [reflexivity | discriminate].
Qed.

Definition norm_port (sch : list N) (p : option N) : option N :=
  match p with Some x => if opt_eqb p (default_port sch) then None else Some x | None => None end.

(* Url::set_port: no panic; Err leaves the record; Ok stores the port normalised against the
   scheme's default, everything else reads the same *)
Theorem set_port_ok dbg u p : wf_b u = true -> host_text_ok u ->
  (match p with Some x => x <= 65535 | None => True end) ->
  exists u' st, set_port dbg u p = Some (u', st)
  /\ (st <> SOk -> u' = u)
  /\ (st = SOk ->
      wf_b u' = true /\ host_text_ok u' /\ same_ids dbg u u' /\ same_back dbg u u'
      /\ exists sch, scheme u = Some sch /\ port u' = norm_port sch p).
Proof.
  intros W HT Hp. unfold set_port. destruct (chcp_eval u W) as (c & Ec & Hc). rewrite Ec. cbn [bindo].
  destruct c.
  - exists u, SErrUnit. split; [reflexivity|]. split; [reflexivity | discriminate].
  - specialize (Hc eq_refl). rewrite (scheme_eval u W). cbn [bindo].
    set (sch := piece u (pidx u BeforeScheme) (pidx u AfterScheme)).
    fold (norm_port sch p).
    assert (match norm_port sch p with Some x => x <= 65535 | None => True end) as Hp'.
    { unfold norm_port. destruct p as [x|]; [|exact I]. destruct (opt_eqb (Some x) (default_port sch)); [exact I | exact Hp]. }
    destruct (set_port_internal_ok dbg u (norm_port sch p) W HT Hc Hp') as (u' & E & W' & HT' & I' & P' & B').
    rewrite E. cbn [bindo]. exists u', SOk. split; [reflexivity|]. split; [intros X; contradiction|].
    intros _. splits; try assumption. exists sch. split; [reflexivity | exact P'].
Qed.
