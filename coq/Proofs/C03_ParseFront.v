(* Proofs/C03_ParseFront.v - what Parser::parse_url stores in front of the path, beyond wf_b:
     FD u : (PN) the stored port is not the default port of the stored scheme;
            (HE) with a special scheme the host text does not end in '/', and a special scheme other than
                 file has a host.
   FD is an invariant of the parser: every record parse_url returns satisfies it, from a base that is
   well-formed, satisfies bk (C05_BaseOk: a special scheme is followed by ":/") and FD.  Hypotheses on the host
   functions: HostWf (C03_ReachParts).  No hypothesis on the input, the encoding override or the build.
   The arms:
     after_double_slash  - the port comes out of parse_port (never the default it is given), the host out of
                           parse_host (phap_shape: its text is the display of the host returned);
     relative references - scheme, host kind, port and the text up to path_start are those of the base;
     the file states     - "file://" + the display of a host returned by Host::parse, or the host text of
                           the (file) base, or no host; never a port.
   With wf_b: FD u <-> PN u /\ HE u (fd_pn_he). *)
From RU Require Import Base.Prelude Base.Utf8 Model.AsciiSet Gen.Tables Model.PercentEncoding
  Model.HostT Model.UrlRecord Model.Parser Model.Setters Model.WF
  Proofs.ListN Proofs.C06_List Proofs.C02_Parts Proofs.C03_WF Proofs.C06_WFI Proofs.C06_Tail Proofs.C06_Steps
  Proofs.C06_Suffix Proofs.C06_Front Proofs.C06_Main Proofs.C06_PathParser Proofs.C06_FragQuery Proofs.C04_Parse Proofs.C04_PathTotal Proofs.C04_ParseTotal
  Proofs.C03_ReachParts Proofs.C03_Reach Proofs.C03_ReachFile
  Proofs.C05_Enc Proofs.C05_Parser Proofs.C05_Frag Proofs.C05_PathClean Proofs.C05_ParseUI Proofs.C05_ParseArms Proofs.C05_ParseAll
  Proofs.C05_BaseOk Proofs.C05_AuthOfs Proofs.C05_AuthParse Proofs.C03_ReachAll Proofs.C03_Reachability Proofs.C03_PortInv Proofs.C03_AuthEnd.
Open Scope N_scope.
Open Scope list_scope.

Definition htext (u : url) : list N := piece u (host_start u) (host_end u).

Definition PNr (u : url) : Prop := forall p, port u = Some p -> default_port (b_scheme u) <> Some p.
Definition HEr (u : url) : Prop :=
  st_is_special (scheme_type_of (b_scheme u)) = true ->
    (has_host u = true -> ends_with_byte 47 (htext u) = false)
    /\ (st_is_file (scheme_type_of (b_scheme u)) = false -> has_host u = true).
(* KE = True: both halves; KE = False: the port half alone (it does not need the host half of the base) *)
Definition FDk (KE : Prop) (u : url) : Prop := PNr u /\ (KE -> HEr u).
Notation FD := (FDk True).

Lemma scheme_bs u : wf_b u = true -> scheme u = Some (b_scheme u).
Proof. intros W. rewrite (scheme_text03 u W). reflexivity. Qed.

Lemma pnr_pn u : wf_b u = true -> (PNr u <-> PN u).
Proof.
  intros W. split.
  - intros H sch p Hs Hp. rewrite (scheme_bs u W) in Hs. inversion Hs; subst sch. exact (H p Hp).
  - intros H p Hp. exact (H _ p (scheme_bs u W) Hp).
Qed.

Lemma her_he u : wf_b u = true -> (HEr u <-> HE u).
Proof.
  intros W. split.
  - intros H sch Hs Hsp. rewrite (scheme_bs u W) in Hs. inversion Hs; subst sch. destruct (H Hsp) as [H1 H2]. split.
    + intros t Et. rewrite (host_str_eval u W) in Et. destruct (has_host u) eqn:Hh; [|discriminate].
      inversion Et; subst t. exact (H1 eq_refl).
    + intros Hnf. rewrite (host_str_eval u W), (H2 Hnf). eexists. reflexivity.
  - intros H Hsp. destruct (H _ (scheme_bs u W) Hsp) as [H1 H2]. split.
    + intros Hh. apply H1. rewrite (host_str_eval u W), Hh. reflexivity.
    + intros Hnf. destruct (H2 Hnf) as (t & Et). unfold host_str in Et. destruct (has_host u); [reflexivity | discriminate].
Qed.

Theorem fd_pn_he u : wf_b u = true -> (FD u <-> PN u /\ HE u).
Proof.
  intros W. unfold FDk. pose proof (pnr_pn u W) as A. pose proof (her_he u W) as B. tauto.
Qed.

(* the same scheme, host kind, host text and port *)
Definition same_fd (b u : url) : Prop :=
  b_scheme u = b_scheme b /\ hosti u = hosti b /\ port u = port b /\ (has_host b = true -> htext u = htext b).

Lemma same_fd_FD KE b u : same_fd b u -> FDk KE b -> FDk KE u.
Proof.
  intros (Es & Eh & Ep & Et) [P H]. assert (has_host u = has_host b) as Ehh by (unfold has_host; rewrite Eh; reflexivity).
  split.
  - intros p Hp. rewrite Es. rewrite Ep in Hp. exact (P p Hp).
  - intros ke. specialize (H ke). unfold HEr. rewrite Es, Ehh. intros Hsp. destruct (H Hsp) as [H1 H2]. split; [|exact H2].
    intros Hh. rewrite (Et Hh). exact (H1 Hh).
Qed.

(* a record that keeps the fields of the base and its serialization up to path_start *)
Lemma same_fd_pre b u : wf_b b = true -> agree_pre (path_start b) (ser b) (ser u) ->
  scheme_end u = scheme_end b -> host_start u = host_start b -> host_end u = host_end b ->
  hosti u = hosti b -> port u = port b -> same_fd b u.
Proof.
  intros W Hpre E1 E3 E4 E5 E6. pose proof (wf_se_lt_ps b W) as L. split; [|split; [exact E5|split; [exact E6|]]].
  - unfold b_scheme. rewrite E1. apply (pre_firstn _ _ _ _ Hpre). lia.
  - intros Hh. pose proof (has_host_authority b W Hh) as Ha. pose proof (af_ps (wf_auth_facts b W Ha)) as Lp.
    unfold htext, piece. rewrite E3, E4. apply (pre_piece _ _ _ _ _ Hpre). exact Lp.
Qed.

(* ---------- with_query_and_fragment ---------- *)
Lemma wqf_front ovr st se ue hs he hi pt ps s rem u :
  with_query_and_fragment ovr CUrlParser st se ue hs he hi pt ps s rem = POk u ->
  scheme_end u = se /\ host_start u = hs /\ host_end u = he /\ hosti u = hi /\ port u = pt
  /\ (se + 3 <= ps -> nnth s (se + 2) = Some 47 -> agree_pre (nlen s) s (ser u)).
Proof.
  unfold with_query_and_fragment. intros H.
  pb H a Ha. destruct a as [s1 ps1]. pb H b Hb. destruct b as [[s2 qs] fs]. inversion H; subst u. clear H.
  cbn [scheme_end host_start host_end hosti port ser]. repeat (split; [reflexivity|]).
  intros L B2.
  assert (s1 = s) as ->.
  { replace (ps =? se + 1) with false in Ha by (symmetry; apply N.eqb_neq; lia).
    destruct ((ps =? se + 3) && list_eqb (nfirstn (ps - se) (nskipn se s)) [58; 47; 46]) eqn:Ec.
    - exfalso. apply andb_true_iff in Ec. destruct Ec as [E1 E2]. apply N.eqb_eq in E1. apply list_eqb_spec in E2.
      replace (ps - se) with 3 in E2 by lia. destruct (nfirstn3_bytes _ _ _ _ _ E2) as (_ & _ & X). congruence.
    - inversion Ha. reflexivity. }
  destruct (pqf_shape _ _ _ _ _ _ _ _ Hb) as (q & f & -> & _). apply agree_pre_app_r.
Qed.

Section Arms.
Variable dbg : bool.
Variable hp hpo : list N -> result host.
Variable hd : host -> list N.
Variable ovr : option (list N -> list N).
Hypothesis HW : HostWf hp hpo hd.
Variable KE : Prop.
Local Notation FD := (FDk KE).

Lemma wf_text_nonempty h : host_text_wf (hd h) -> h <> HDomain [].
Proof using HW. intros (T1 & _) ->. destruct HW as (_ & _ & W3). rewrite W3 in T1. contradiction. Qed.

(* ---------- the port of the authority state ---------- *)
Lemma phap_port st se ser l ser2 he hi p rem : se <= nlen ser ->
  parse_host_and_port hp hpo hd CUrlParser st se ser l = POk (ser2, he, hi, Some p, rem) ->
  default_port (nfirstn se ser) <> Some p.
Proof using.
  intros L. unfold parse_host_and_port. intros H. pb H a Ha. destruct a as [host remaining]. cbv zeta in H.
  pb H he' Hhe. pb H x Hx. destruct (inp_split_prefix_char 58 remaining) as [rm|].
  - pb H b Hb. destruct b as [pt rem2]. inversion H; subst. apply parse_port_pn in Hb.
    rewrite nfirstn_app_le in Hb by exact L. exact Hb.
  - inversion H.
Qed.

(* ---------- after "//" ---------- *)
Theorem ads_fd st se ser0 l u : nlen ser0 = se + 1 -> st_is_file st = false ->
  scheme_type_of (nfirstn se ser0) = st ->
  after_double_slash dbg hp hpo hd ovr CUrlParser st se ser0 l = POk u -> b_scheme u = nfirstn se ser0 /\ FD u.
Proof using HW.
  intros L0 Hnf Est H. destruct (ads_bk dbg hp hpo hd ovr st se ser0 l u L0 H) as (K1 & K2 & _).
  assert (b_scheme u = nfirstn se ser0) as Eb by (unfold b_scheme; rewrite K1; exact K2).
  split; [exact Eb|]. revert H. unfold after_double_slash. cbv zeta. intros H.
  pb H a Ha. destruct a as [[ser1 ue] rm]. destruct (parse_userinfo_shape _ _ _ _ _ _ Ha) as (x & -> & _).
  pb H hs Hhs. apply to_u32_eq in Hhs. subst hs.
  pb H b Hb. destruct b as [[[[ser2 he] hi] pt] rm2].
  assert (forall p, pt = Some p -> default_port (nfirstn se ser0) <> Some p) as Hpt.
  { intros p ->.
    assert (se <= nlen ((ser0 ++ [47; 47]) ++ x)) as Lx by (rewrite !nlen_app; lia).
    pose proof (phap_port _ _ _ _ _ _ _ _ _ Lx Hb) as X.
    rewrite <- app_assoc in X. rewrite nfirstn_app_le in X by lia. exact X. }
  destruct (phap_shape hp hpo hd HW _ _ _ _ _ _ _ _ _ Hnf Hb) as (h & -> & -> & -> & Hp & Hh).
  match type of H with (if ?c then _ else _) = _ => destruct c; [discriminate|] end.
  pb H ps Hps. apply to_u32_eq in Hps. subst ps.
  pb H c Hc. destruct c as [[s3 hh] rm3].
  destruct (parse_path_start_clean dbg CUrlParser st true _ rm2 s3 hh rm3 Hc) as (P & -> & HP).
  destruct (wqf_front _ _ _ _ _ _ _ _ _ _ _ _ H) as (_ & E3 & E4 & E5 & E6 & Hpre).
  set (ser1 := (ser0 ++ [47; 47]) ++ x) in *.
  assert (nlen ser1 = se + 3 + nlen x) as L1 by (subst ser1; rewrite !nlen_app, L0; change (nlen [47; 47]) with 2; lia).
  assert (agree_pre (nlen ((ser1 ++ hd h ++ ptext pt) ++ P)) ((ser1 ++ hd h ++ ptext pt) ++ P) (ser u)) as Hpre'.
  { apply Hpre; [rewrite !nlen_app; lia|].
    subst ser1. rewrite <- !app_assoc. rewrite nnth_app_ge by lia. replace (se + 2 - nlen ser0) with 1 by lia. reflexivity. }
  assert (htext u = hd h) as Et.
  { unfold htext, piece. rewrite E3, E4.
    rewrite (pre_piece _ _ _ _ _ Hpre') by (rewrite !nlen_app; lia).
    replace (nlen ser1 + nlen (hd h) - nlen ser1) with (nlen (hd h)) by lia.
    rewrite <- !app_assoc. rewrite nskipn_app_exact. apply nfirstn_app_exact. }
  split.
  - intros p Hp'. rewrite Eb. rewrite E6 in Hp'. exact (Hpt p Hp').
  - intros _. unfold HEr. rewrite Eb, Est. intros Hsp.
    destruct Hh as [(_ & _ & _ & Hns)|Hwf]; [congruence|].
    assert (has_host u = true) as Hh.
    { unfold has_host. rewrite E5. pose proof (hi_of_nonempty h (wf_text_nonempty h Hwf)) as X.
      destruct (hi_of_host h); [contradiction | reflexivity ..]. }
    split; [|intros _; exact Hh]. intros _. rewrite Et. exact (proj2 (proj2 (proj2 Hwf))).
Qed.

(* ---------- a new path behind the front of the base ---------- *)
Lemma base_path_fd st b s rem u : wf_b b = true -> agree_pre (path_start b) (ser b) s -> path_start b <= nlen s ->
  with_query_and_fragment ovr CUrlParser st (scheme_end b) (username_end b) (host_start b) (host_end b)
    (hosti b) (port b) (path_start b) s rem = POk u -> same_fd b u.
Proof using.
  intros W Hpre Hl H. pose proof (wf_se_lt_ps b W) as L1.
  destruct (wqf_keep _ _ _ _ _ _ _ _ _ _ _ _ H ltac:(lia) Hl) as (K1 & K2 & _).
  destruct (wqf_front _ _ _ _ _ _ _ _ _ _ _ _ H) as (_ & E3 & E4 & E5 & E6 & Hp).
  split; [|split; [exact E5|split; [exact E6|]]].
  - unfold b_scheme. rewrite K1, K2. apply (pre_firstn _ _ _ _ Hpre). lia.
  - intros Hh. pose proof (has_host_authority b W Hh) as Ha. pose proof (wf_auth_facts b W Ha) as F.
    pose proof (af_ue F); pose proof (af_hs F); pose proof (af_he F); pose proof (af_ps F).
    assert (nnth (ser b) (scheme_end b + 2) = Some 47) as B2.
    { pose proof Ha as Ha'. unfold has_authority_b in Ha'. apply css_bytes in Ha'. exact (proj2 (proj2 Ha')). }
    assert (agree_pre (path_start b) (ser b) (ser u)) as Hpre2.
    { eapply agree_pre_trans; [exact Hpre|]. eapply agree_pre_le; [apply Hp; [lia|] | exact Hl].
      rewrite (pre_nnth _ _ _ _ Hpre) by lia. exact B2. }
    unfold htext, piece. rewrite E3, E4. apply (pre_piece _ _ _ _ _ Hpre2). lia.
Qed.

Lemma cut_fragment_fd b : wf_b b = true -> same_fd b (url_with b (b_before_fragment b) (query_start b) None).
Proof using. intros W. apply (same_fd_pre b _ W); try reflexivity. cbn [ser url_with]. exact (bf_pre b W). Qed.

Lemma fragment_only_fd b l u : wf_b b = true -> fragment_only b l = POk u -> same_fd b u.
Proof using.
  intros W. unfold fragment_only. cbv zeta. intros H. pb H fs Hfs. inversion H; subst u. clear H.
  apply (same_fd_pre b _ W); try reflexivity. cbn [ser]. rewrite parse_fragment_text, <- app_assoc.
  destruct (wf_ps_le_path_end b W) as [L2 L3].
  eapply agree_pre_trans; [exact (bf_pre b W)|]. apply agree_pre_app_le.
  unfold b_before_fragment. destruct (fragment_start b) as [f|] eqn:Ef; [|lia].
  destruct (bf_len b f W Ef) as [Lf Hpe]. rewrite Lf. lia.
Qed.

Lemma query_ref_fd b st se0 l s qs fs : wf_b b = true ->
  parse_query_and_fragment ovr CUrlParser st se0 (b_before_query b) l = POk (s, qs, fs) -> same_fd b (url_with b s qs fs).
Proof using.
  intros W H. apply (same_fd_pre b _ W); try reflexivity. cbn [ser url_with].
  destruct (pqf_shape _ _ _ _ _ _ _ _ H) as (q & f & -> & _). destruct (bq_shape b W) as (Ebq & P1 & P2).
  eapply agree_pre_trans; [exact (bq_pre b W)|]. apply agree_pre_app_le. rewrite Ebq, nlen_nfirstn by exact P2. exact P1.
Qed.

(* ---------- relative references ---------- *)
Theorem parse_relative_fd st b l u : wf_b b = true -> sl1 b -> st_is_file st = false ->
  scheme_type_of (b_scheme b) = st -> FD b ->
  parse_relative dbg hp hpo hd ovr CUrlParser st b l = POk u -> b_scheme u = b_scheme b /\ FD u.
Proof using HW.
  intros W Hs Hnf Est Fb. pose proof (path_start_le_len b W) as PL.
  assert (forall v, same_fd b v -> b_scheme v = b_scheme b /\ FD v) as Hsame.
  { intros v Sv. split; [exact (proj1 Sv) | exact (same_fd_FD KE b v Sv Fb)]. }
  assert (nlen (nfirstn (path_start b) (ser b)) = path_start b) as La by (apply nlen_nfirstn; exact PL).
  destruct (wf_scheme_facts b W) as (S1 & S2 & S3).
  unfold parse_relative, inp_split_first. destruct (inp_next l) as [[c r]|] eqn:En.
  2:{ intros H. inversion H; subst u. apply Hsame. exact (cut_fragment_fd b W). }
  assert (inp_is_empty l = false) as He by (unfold inp_is_empty; rewrite En; reflexivity).
  destruct (c =? 63).
  { intros H. pb H a Ha. destruct a as [[s qs] fs]. inversion H; subst u. apply Hsame. exact (query_ref_fd b st _ l s qs fs W Ha). }
  destruct (c =? 35); [intros H; apply Hsame; exact (fragment_only_fd b l u W H)|].
  destruct ((c =? 47) || (c =? 92) && st_is_special st).
  - destruct (inp_count_matching (fun d => (d =? 47) || (d =? 92) && st_is_special st) l) as [slashes remaining].
    destruct (2 <=? slashes).
    + cbv zeta. intros H. pb H x Hx.
      assert (nlen (nfirstn (scheme_end b + 1) (ser b)) = scheme_end b + 1) as L1 by (apply nlen_nfirstn; lia).
      assert (nfirstn (scheme_end b) (nfirstn (scheme_end b + 1) (ser b)) = b_scheme b) as L2
        by (unfold b_scheme; apply nfirstn_nfirstn; lia).
      assert (forall X, after_double_slash dbg hp hpo hd ovr CUrlParser st (scheme_end b) (nfirstn (scheme_end b + 1) (ser b)) X = POk u ->
                b_scheme u = b_scheme b /\ FD u) as Hads.
      { intros X HX. rewrite <- L2. apply (ads_fd st _ _ X u L1 Hnf); [rewrite L2; exact Est | exact HX]. }
      destruct (negb (st_is_special st)); [destruct (inp_split_prefix_str s_ss l)|]; exact (Hads _ H).
    + cbv zeta. intros H. pb H a Ha. destruct a as [[s hh] rem].
      set (P0 := nfirstn (path_start b) (ser b)) in *.
      assert (path_start b + 1 <= nlen (P0 ++ [47])) as G1 by (rewrite nlen_app, La; change (nlen [47]) with 1; lia).
      assert (nnth (P0 ++ [47]) (path_start b) = Some 47) as G2 by (rewrite <- La; apply nnth_last).
      assert (forallb no_qh (nskipn (path_start b) (P0 ++ [47])) = true) as G3
        by (rewrite <- La; rewrite nskipn_app_exact; reflexivity).
      destruct (parse_path_shape dbg st true (path_start b) (P0 ++ [47]) r s hh rem Hnf G1 G2 G3 Ha) as (A & B & C & _).
      apply Hsame. apply (base_path_fd st b s rem u W); [|lia|exact H].
      eapply agree_pre_trans; [apply agree_pre_nfirstn; exact PL | eapply agree_pre_le; [exact A | lia]].
  - cbv zeta. intros H. pb H s1 Hs1.
    destruct (pop_base_shape hp hpo st b l s1 W Hnf Hs He Hs1) as (J1 & J2 & J3 & J4).
    set (s2 := if (nlen s1 =? path_start b) && (st_is_special (scheme_type_of (b_scheme b)) || negb (inp_is_empty l))
               then s1 ++ [47] else s1) in *.
    pb H a Ha. destruct a as [[s3 hh] rem].
    assert (exists X, parse_path dbg CUrlParser st true (path_start b) s2 X = POk (s3, hh, rem)) as [X EX].
    { destruct (N.eq_dec c 47) as [->|Hc]; [exists r; exact Ha|]. exists l.
      destruct c as [|p]; [exact Ha|]. do 6 (destruct p as [p|p|]; try exact Ha). congruence. }
    destruct (parse_path_shape dbg st true (path_start b) s2 X s3 hh rem Hnf J2 J3 J4 EX) as (A & B & C & _).
    apply Hsame. apply (base_path_fd st b s3 rem u W); [|lia|exact H].
    eapply agree_pre_trans; [exact J1 | eapply agree_pre_le; [exact A | lia]].
Qed.

(* ---------- the file states ---------- *)
Lemma file_url_fd s hs he hi qs fs : nfirstn 7 s = s_file_css ->
  (KE -> hi <> HI_None -> ends_with_byte 47 (nfirstn (he - hs) (nskipn hs s)) = false) ->
  FD (file_url s hs he hi qs fs).
Proof using.
  intros P7 Ht.
  assert (b_scheme (file_url s hs he hi qs fs) = s_file) as Eb.
  { unfold b_scheme, file_url. cbn [scheme_end ser]. rewrite <- (nfirstn_nfirstn 4 7 s) by lia. rewrite P7. reflexivity. }
  split.
  - intros p Hp. discriminate Hp.
  - intros ke. unfold HEr. rewrite Eb. intros _. split; [|intros X; discriminate X].
    intros Hh. unfold htext, piece, file_url. cbn [host_start host_end ser]. apply (Ht ke).
    intros E. unfold has_host, file_url in Hh. cbn [hosti] in Hh. rewrite E in Hh. discriminate.
Qed.

Lemma css_len7 s : nfirstn 7 s = s_file_css -> 7 <= nlen s.
Proof using.
  intros H. assert (nlen (nfirstn 7 s) = 7) as E by (rewrite H; reflexivity).
  unfold nlen, nfirstn in *. rewrite firstn_length in E. lia.
Qed.

Lemma file_tail_fd st s hs he hi rem s4 qs fs :
  parse_query_and_fragment ovr CUrlParser st 4 s rem = POk (s4, qs, fs) -> nfirstn 7 s = s_file_css -> he <= nlen s ->
  (KE -> hi <> HI_None -> ends_with_byte 47 (nfirstn (he - hs) (nskipn hs s)) = false) ->
  FD (file_url s4 hs he hi qs fs).
Proof using.
  intros H P7 Lh Ht. destruct (pqf_shape _ _ _ _ _ _ _ _ H) as (q & f & -> & _). pose proof (css_len7 s P7) as L7.
  apply file_url_fd.
  - rewrite nfirstn_app_le by exact L7. exact P7.
  - intros ke Hn. rewrite (pre_piece (nlen s) s _ hs he (agree_pre_app_r s _) Lh). exact (Ht ke Hn).
Qed.

Lemma file_fresh_fd st hh l u :
  (' (s2, _, rem) <~ parse_path dbg CUrlParser STFile hh 7 (s_file_css ++ [47]) l ;;
   ' (s3, qs, fs) <~ parse_query_and_fragment ovr CUrlParser st 4 s2 rem ;;
   POk (file_url s3 7 7 HI_None qs fs)) = POk u -> FD u.
Proof using.
  intros H. pb H a Ha. destruct a as [[s2 h2] rem]. pb H c Hc. destruct c as [[s3 qs] fs]. inversion H; subst u.
  assert (PInvQ 7 s_file_css (s_file_css ++ [47])) as I1.
  { apply pinvq_app; [reflexivity | exact (pinvq_start s_file_css) | reflexivity]. }
  pose proof (pinvq_parse_path dbg 7 s_file_css eq_refl _ _ _ _ _ _ _ _ Ha I1) as I2.
  apply (file_tail_fd st s2 _ _ _ rem s3 qs fs Hc (proj1 I2)).
  - exact (css_len7 s2 (proj1 I2)).
  - intros _ X. contradiction.
Qed.

Theorem parse_file_fd st base_file l u :
  match base_file with
  | Some b => wf_b b = true /\ sl1 b /\ FD b /\ scheme_type_of (b_scheme b) = STFile
  | None => True
  end ->
  parse_file dbg hp hd ovr CUrlParser st base_file l = POk u -> FD u.
Proof using HW.
  intros Hb. unfold parse_file. destruct (inp_split_first l) as [first_char after_first] eqn:Esf.
  destruct (match first_char with Some c => is_slash_or_bslash c | None => false end) eqn:Efs.
  - destruct (inp_split_first after_first) as [next_char after_next].
    destruct (match next_char with Some c => is_slash_or_bslash c | None => false end).
    + (* "//" : file host *)
      intros H. pb H a Ha. destruct a as [[[ser1 flag] hi] remaining].
      assert (exists t, ser1 = s_file_css ++ t /\ (KE -> hi <> HI_None -> ends_with_byte 47 t = false)) as (t & -> & Ht).
      { destruct (pfh_shape hp hpo hd HW _ _ _ _ _ _ Ha) as [(-> & ->)|(h & Hne & Hwf & -> & -> & _)].
        - exists []. split; [rewrite app_nil_r; reflexivity | intros _ X; contradiction].
        - exists (hd h). split; [reflexivity | intros _ _; exact (proj2 (proj2 (proj2 Hwf)))]. }
      pb H he Hhe. apply to_u32_eq in Hhe. subst he. cbv zeta in H.
      pb H b Hb2. destruct b as [[ser2 hh] rem2].
      assert (exists P, ser2 = (s_file_css ++ t) ++ P) as (P & ->).
      { destruct flag.
        - destruct (parse_path_start_clean dbg CUrlParser STFile _ _ _ _ _ _ Hb2) as (P & E & _). exists P. exact E.
        - assert (PInvQ (nlen (s_file_css ++ t)) (s_file_css ++ t) ((s_file_css ++ t) ++ [47])) as I1
            by (apply pinvq_app; [reflexivity | apply pinvq_start | reflexivity]).
          destruct (pinvq_split _ _ (pinvq_parse_path dbg _ _ eq_refl _ _ _ _ _ _ _ _ Hb2 I1)) as (P & E & _). exists P. exact E. }
      assert (nfirstn 7 ((s_file_css ++ t) ++ P) = s_file_css) as P7 by (rewrite <- app_assoc; apply file_css_pre).
      destruct (negb hh); cbv beta iota zeta in H; pb H c Hc; destruct c as [[ser4 qs] fs]; inversion H; subst u.
      * apply (file_tail_fd st _ _ _ _ rem2 ser4 qs fs Hc).
        -- rewrite P7. apply file_css_pre.
        -- rewrite nlen_app, P7. change (nlen s_file_css) with 7. lia.
        -- intros _ X. contradiction.
      * apply (file_tail_fd st _ _ _ _ rem2 ser4 qs fs Hc P7).
        -- change (nlen (s_file_css ++ t) <= nlen ((s_file_css ++ t) ++ P)). rewrite (nlen_app _ P). lia.
        -- intros ke Hn.
           change (ends_with_byte 47 (nfirstn (nlen (s_file_css ++ t) - 7) (nskipn 7 ((s_file_css ++ t) ++ P))) = false).
           rewrite nlen_app. change (nlen s_file_css) with 7.
           replace (7 + nlen t - 7) with (nlen t) by lia. rewrite <- !app_assoc.
           change 7 with (nlen s_file_css). rewrite nskipn_app_exact, nfirstn_app_exact. exact (Ht ke Hn).
    + (* a single slash *)
      set (T := if negb (starts_with_wdl_segment after_first)
                then match base_file with
                     | Some base =>
                         match base_first_segment base with
                         | Some seg =>
                             if is_normalized_wdl seg then (s_file_css ++ [47] ++ seg, 7, HI_None)
                             else match host_str base with
                                  | Some (Some hs) => (s_file_css ++ hs, nlen (s_file_css ++ hs), hosti base)
                                  | _ => (s_file_css, 7, HI_None)
                                  end
                         | None => (s_file_css, 7, HI_None)
                         end
                     | None => (s_file_css, 7, HI_None)
                     end
                else (s_file_css, 7, HI_None)).
      assert (let '(ser1, he, hi) := T in
              7 <= he /\ he <= nlen ser1 /\ nfirstn 7 ser1 = s_file_css /\ forallb pq (nskipn he ser1) = true
              /\ (KE -> hi <> HI_None -> ends_with_byte 47 (nfirstn (he - 7) (nskipn 7 ser1)) = false)) as HT.
      { assert (7 <= 7 /\ 7 <= nlen s_file_css /\ nfirstn 7 s_file_css = s_file_css /\ forallb pq (nskipn 7 s_file_css) = true
                /\ (KE -> HI_None <> HI_None -> ends_with_byte 47 (nfirstn (7 - 7) (nskipn 7 s_file_css)) = false)) as Hplain
          by (split; [lia|]; split; [vm_compute; discriminate | split; [reflexivity | split; [reflexivity | intros _ X; contradiction]]]).
        subst T. destruct (negb (starts_with_wdl_segment after_first)); [|exact Hplain].
        destruct base_file as [base|]; [|exact Hplain].
        destruct (base_first_segment base) as [seg|]; [|exact Hplain].
        destruct (is_normalized_wdl seg) eqn:Ew.
        - destruct (normalized_wdl_form seg Ew) as (a & -> & Ha).
          split; [lia|]. split; [vm_compute; discriminate|]. split; [apply file_css_pre|]. split; [|intros _ X; contradiction].
          replace 7 with (nlen s_file_css) by reflexivity. rewrite nskipn_app_exact. cbn [app forallb].
          rewrite (pq_alpha a Ha). reflexivity.
        - destruct (host_str base) as [[hs|]|] eqn:Ehs; try exact Hplain.
          split; [rewrite nlen_app; change (nlen s_file_css) with 7; lia|]. split; [lia|]. split; [apply file_css_pre|].
          split; [rewrite nskipn_all by lia; reflexivity|].
          intros ke _. destruct Hb as (Wb & _ & [_ Hhe] & Est). specialize (Hhe ke).
          rewrite nlen_app. change (nlen s_file_css) with 7. replace (7 + nlen hs - 7) with (nlen hs) by lia.
          change 7 with (nlen s_file_css). rewrite nskipn_app_exact. rewrite nfirstn_all by lia.
          unfold HEr in Hhe. rewrite Est in Hhe. destruct (Hhe eq_refl) as [H1 _].
          rewrite (host_str_eval base Wb) in Ehs. destruct (has_host base) eqn:Hh; [|discriminate].
          inversion Ehs; subst hs. exact (H1 eq_refl). }
      destruct T as [[ser1 he] hi]. destruct HT as (H7 & Hle & P7 & Hq & Ht).
      intros H. pb H a Ha. destruct a as [[ser2 hh] remaining]. pb H c Hc. destruct c as [[ser3 qs] fs]. inversion H; subst u.
      assert (nlen (nfirstn he ser1) = he) as Lp by (apply nlen_nfirstn; exact Hle).
      assert (PInvQ he (nfirstn he ser1) ser1) as I1 by (split; [reflexivity | exact Hq]).
      pose proof (pinvq_parse_path dbg he _ Lp _ _ _ _ _ _ _ _ Ha I1) as I2.
      assert (agree_pre he ser1 ser2) as Hpre by exact (proj1 I2).
      apply (file_tail_fd st ser2 _ _ _ remaining ser3 qs fs Hc).
      * apply (pinvq_file_pre he (nfirstn he ser1) ser2 H7 Lp); [|exact I2].
        rewrite nfirstn_nfirstn by exact H7. exact P7.
      * exact (pinvq_len he _ Lp ser2 I2).
      * intros ke Hn. rewrite (pre_piece he ser1 ser2 7 he Hpre (N.le_refl _)). exact (Ht ke Hn).
  - destruct base_file as [base|]; [|apply file_fresh_fd].
    destruct Hb as (Wb & Sb & Fb & Est).
    destruct first_char as [c|].
    2:{ intros H. inversion H; subst u. exact (same_fd_FD KE base _ (cut_fragment_fd base Wb) Fb). }
    destruct (c =? 63).
    { intros H. pb H a Ha. destruct a as [[s qs] fs]. inversion H; subst u.
      exact (same_fd_FD KE base _ (query_ref_fd base st _ l s qs fs Wb Ha) Fb). }
    destruct (c =? 35); [intros H; exact (same_fd_FD KE base _ (fragment_only_fd base l u Wb H) Fb)|].
    destruct (negb (starts_with_wdl_segment l)); [|apply file_fresh_fd].
    intros H. pb H s1 Hs1. pb H a Ha. destruct a as [[s2 hh] rem].
    destruct (bq_shape base Wb) as (Ebq & P1 & P2). pose proof (path_start_le_len base Wb) as PL.
    pose proof (qf_facts_of base Wb) as (_ & _ & _ & Q4 & _).
    assert (nlen (nfirstn (path_start base) (ser base)) = path_start base) as Lp by (apply nlen_nfirstn; exact PL).
    assert (PInv (path_start base) (path_start base) (nfirstn (path_start base) (ser base)) (b_before_query base)) as I0.
    { rewrite Ebq. split; [apply nfirstn_nfirstn; exact P1|].
      replace (path_end base) with (path_start base + (path_end base - path_start base)) by lia.
      rewrite nskipn_nfirstn_comm. exact Q4. }
    pose proof (pinv_shorten_path (path_start base) (path_start base) (nfirstn (path_start base) (ser base))
                  (N.le_refl _) ltac:(lia) Lp STFile _ _ Hs1 I0) as I1.
    pose proof (pinv_len _ _ _ (N.le_refl _) ltac:(lia) Lp s1 I1) as L1. destruct I1 as [J1 J2].
    destruct (parse_path_shape_file dbg true (path_start base) s1 l s2 hh rem L1 J2 Ha) as (A & B & C & _).
    apply (same_fd_FD KE base u); [|exact Fb]. apply (base_path_fd STFile base s2 rem u Wb); [|lia|exact H].
    eapply agree_pre_trans; [exact J1 | exact A].
Qed.

(* ---------- top level ---------- *)
Theorem parse_with_scheme_fd base sch l u :
  match base with Some b => wf_b b = true /\ bk b /\ FD b | None => True end ->
  parse_with_scheme dbg hp hpo hd ovr base sch l = POk u -> FD u.
Proof using HW.
  intros Hb. unfold parse_with_scheme. intros H. pb H se Hse. apply to_u32_eq in Hse. subst se. cbv zeta in H.
  assert (nlen (sch ++ [58]) = nlen sch + 1) as L0 by (rewrite nlen_app; reflexivity).
  assert (nfirstn (nlen sch) (sch ++ [58]) = sch) as L2 by apply nfirstn_app_exact.
  destruct (scheme_type_of sch) eqn:Est.
  - eapply parse_file_fd; [|exact H].
    destruct base as [b|]; [|exact I]. destruct (list_eqb (b_scheme b) s_file) eqn:Eb; [|exact I].
    apply list_eqb_spec in Eb. destruct Hb as (W & K & Fb). split; [exact W|]. split; [|split; [exact Fb|]].
    + apply K. rewrite Eb. reflexivity.
    + rewrite Eb. reflexivity.
  - destruct (inp_count_matching is_slash_or_bslash l) as [slashes remaining].
    assert (forall X, after_double_slash dbg hp hpo hd ovr CUrlParser STSpecialNotFile (nlen sch) (sch ++ [58]) X = POk u -> FD u) as Hads.
    { intros X HX. refine (proj2 (ads_fd STSpecialNotFile _ _ X u L0 eq_refl _ HX)). rewrite L2. exact Est. }
    destruct base as [b|]; [|exact (Hads _ H)].
    destruct ((slashes <? 2) && list_eqb (b_scheme b) sch) eqn:Ec; [|exact (Hads _ H)].
    apply andb_true_iff in Ec. destruct Ec as [_ Ec]. apply list_eqb_spec in Ec.
    pb H x Hx. destruct Hb as (W & K & Fb).
    refine (proj2 (parse_relative_fd STSpecialNotFile b l u W (K _) eq_refl _ Fb H)).
    + rewrite Ec, Est. reflexivity.
    + rewrite Ec. exact Est.
  - destruct (pns_bk dbg hp hpo hd ovr _ _ _ _ u L0 H) as (K1 & K2).
    assert (b_scheme u = sch) as Eb by (unfold b_scheme; rewrite K1, K2; exact L2).
    split; [|intros _; unfold HEr; rewrite Eb, Est; intros X; discriminate X].
    unfold parse_non_special in H. destruct (inp_split_prefix_str s_ss l) as [rm|].
    + refine (proj1 (proj2 (ads_fd STNotSpecial _ _ rm u L0 eq_refl _ H))). rewrite L2. exact Est.
    + pb H ps Hps. pb H a Ha. destruct a as [s1 rem].
      destruct (wqf_front _ _ _ _ _ _ _ _ _ _ _ _ H) as (_ & _ & _ & _ & E6 & _).
      intros p Hp. rewrite E6 in Hp. discriminate Hp.
Qed.

Theorem parse_url_fd base input u :
  match base with Some b => wf_b b = true /\ bk b /\ FD b | None => True end ->
  parse_url dbg hp hpo hd ovr base input = POk u -> FD u.
Proof using HW.
  intros Hb. unfold parse_url. cbv zeta.
  destruct (parse_scheme CUrlParser (input_new_trim_c0 input)) as [[sch rem]|].
  - apply parse_with_scheme_fd. exact Hb.
  - destruct base as [b|]; [|discriminate]. destruct Hb as (W & K & Fb).
    destruct (inp_starts_with_char 35 (input_new_trim_c0 input)).
    { intros H. exact (same_fd_FD KE b u (fragment_only_fd b _ u W H) Fb). }
    rewrite (cannot_be_a_base_eval b W).
    destruct (byte_eqb (ser b) (scheme_end b + 1) 47) eqn:Eb; cbn [negb]; [|discriminate].
    apply byte_eqb_nnth in Eb.
    destruct (st_is_file (scheme_type_of (b_scheme b))) eqn:Ef.
    + intros H. eapply (parse_file_fd _ (Some b)); [|exact H].
      split; [exact W|]. split; [exact Eb|]. split; [exact Fb|].
      destruct (scheme_type_of (b_scheme b)); try discriminate Ef; reflexivity.
    + intros H. exact (proj2 (parse_relative_fd _ b _ u W Eb Ef eq_refl Fb H)).
Qed.

End Arms.

(* ---------- the port half alone: no premise on the host text of the base ---------- *)
Theorem parse_url_pnr dbg hp hpo hd ovr base input u : HostWf hp hpo hd ->
  match base with Some b => wf_b b = true /\ bk b /\ PNr b | None => True end ->
  parse_url dbg hp hpo hd ovr base input = POk u -> PNr u.
Proof.
  intros HW Hb Hp. refine (proj1 (parse_url_fd dbg hp hpo hd ovr HW False base input u _ Hp)).
  destruct base as [b|]; [|exact I]. destruct Hb as (W & K & P). split; [exact W|]. split; [exact K|].
  split; [exact P | intros X; contradiction].
Qed.

(* ---------- every parse result: wf_b, host_text_ok, AS, PN, HE - from a base with the same ---------- *)
Definition inv03 (u : url) : Prop := wfh u /\ AS u /\ PN u /\ HE u.

Theorem parse_url_inv03 dbg hp hpo hd ovr base input u : HostWf hp hpo hd ->
  match base with Some b => inv03 b | None => True end ->
  parse_url dbg hp hpo hd ovr base input = POk u -> inv03 u.
Proof.
  intros HW Hb Hp.
  destruct (parse_url_as_base_ok dbg hp hpo hd ovr base input u HW) as (W & HT & A); [|exact Hp|].
  { destruct base as [b|]; [|exact I]. destruct Hb as ([Wb Tb] & Ab & _). split; [exact Wb|]. split; assumption. }
  split; [split; assumption|]. split; [exact A|]. apply (fd_pn_he u W).
  apply (parse_url_fd dbg hp hpo hd ovr HW True base input u); [|exact Hp].
  destruct base as [b|]; [|exact I]. destruct Hb as ([Wb Tb] & Ab & Pb & Eb).
  split; [exact Wb|]. split; [exact (as_bk b Wb Ab)|]. apply (fd_pn_he b Wb). split; assumption.
Qed.
