(* Proofs/C13_Bounds.v - the model's pure pieces equal the RFC 3492 transcription: thresholds, digits,
   adapt (fuel adequate, no division by zero), variable-length integers (fuel adequate, digit values
   below 36). *)
From RU Require Import Base.Prelude Base.Utf8 Base.U32_c13 Gen.Tables Model.Punycode Spec.Rfc3492 Proofs.C13_Ascii.

Lemma threshold_eq k bias : threshold k bias = s_threshold k bias.
Proof. reflexivity. Qed.

Lemma min_ge_eq n l : min_ge n l = s_min_ge n l.
Proof. reflexivity. Qed.

Lemma threshold_range k bias : 1 <= s_threshold k bias <= 26.
Proof.
  unfold s_threshold, s_tmin, s_tmax.
  destruct (k <=? bias) eqn:E1; [lia|]. destruct (bias + 26 <=? k) eqn:E2; lia.
Qed.

Lemma value_to_digit_char v : v < 36 -> value_to_digit v = Ok (s_digit_char v).
Proof.
  intros H. unfold value_to_digit. rewrite value_to_digit_table. unfold value_to_digit_spec, s_digit_char.
  destruct (v <? 26) eqn:E; [f_equal|replace (v <? 36) with true by lia; reflexivity].
Qed.

Lemma digit_u8_rfc c : digit_u8 c = s_digit_value c.
Proof. rewrite digit_u8_table. reflexivity. Qed.

(* ---- adapt ---- *)
Lemma adapt_loop_eq fuel d k :
  adapt_loop fuel d k = if 455 <? d then match fuel with O => None | Datatypes.S f => adapt_loop f (d / 35) (k + 36) end else Some (d, k).
Proof. destruct fuel; reflexivity. Qed.

Lemma s_adapt_loop_eq fuel d k :
  s_adapt_loop fuel d k = if 455 <? d then match fuel with O => (d, k) | Datatypes.S f => s_adapt_loop f (d / 35) (k + 36) end else (d, k).
Proof. destruct fuel; reflexivity. Qed.

Lemma adapt_loop_spec fuel : forall d k, d < 2 ^ N.of_nat fuel -> adapt_loop fuel d k = Some (s_adapt_loop fuel d k).
Proof.
  induction fuel as [|f IH]; intros d k H; rewrite adapt_loop_eq, s_adapt_loop_eq.
  - change (2 ^ N.of_nat 0) with 1 in H. replace (455 <? d) with false by lia. reflexivity.
  - destruct (455 <? d) eqn:E; [|reflexivity].
    apply IH. rewrite Nat2N.inj_succ, N.pow_succ_r' in H.
    pose proof (N.div_mod d 35 ltac:(lia)) as Hd. pose proof (N.mod_lt d 35 ltac:(lia)) as Hm.
    remember (d / 35) as q. remember (2 ^ N.of_nat f) as P. lia.
Qed.

Lemma adapt_ok d np first : np <> 0 -> adapt d np first = Ok (s_adapt d np first).
Proof.
  intros Hnp. unfold adapt, s_adapt.
  replace (np =? 0) with false by lia.
  change DAMP with s_damp.
  remember (d / (if first then s_damp else 2)) as d1.
  remember (d1 + d1 / np) as d2.
  rewrite adapt_loop_spec.
  - destruct (s_adapt_loop (N.to_nat (N.size d2)) d2 0) as [d3 k]. reflexivity.
  - rewrite N2Nat.id. apply N.size_gt.
Qed.

(* ---- variable-length integers ---- *)
Lemma pow2_pos n : 0 < 2 ^ n.
Proof. apply N.neq_0_lt_0. apply N.pow_nonzero. lia. Qed.

Lemma enc_vli_spec f : forall q k bias, q < 2 ^ N.of_nat f ->
  enc_vli (Datatypes.S f) q k bias = Ok (s_enc_vli (Datatypes.S f) q k bias).
Proof.
  induction f as [|f IH]; intros q k bias H.
  - change (2 ^ N.of_nat 0) with 1 in H.
    cbn [enc_vli s_enc_vli]. rewrite threshold_eq.
    pose proof (threshold_range k bias) as Ht.
    replace (q <? s_threshold k bias) with true by lia.
    rewrite value_to_digit_char by lia. reflexivity.
  - remember (Datatypes.S f) as f1.
    cbn [enc_vli s_enc_vli]. rewrite threshold_eq.
    pose proof (threshold_range k bias) as Ht. remember (s_threshold k bias) as t.
    destruct (q <? t) eqn:E.
    + rewrite value_to_digit_char by lia. reflexivity.
    + change BASE with 36. change s_base with 36.
      assert (Hm : (q - t) mod (36 - t) < 36 - t) by (apply N.mod_lt; lia).
      rewrite value_to_digit_char by lia. cbn [rbind].
      subst f1. rewrite IH.
      * reflexivity.
      * rewrite Nat2N.inj_succ, N.pow_succ_r' in H.
        assert (Hle : (q - t) / (36 - t) <= (q - t) / 10) by (apply N.div_le_compat_l; lia).
        pose proof (N.div_mod (q - t) 10 ltac:(lia)) as Hd. pose proof (N.mod_lt (q - t) 10 ltac:(lia)) as Hm2.
        remember ((q - t) / 10) as q10. remember ((q - t) / (36 - t)) as q'. remember (2 ^ N.of_nat f) as P. lia.
Qed.

Lemma enc_vli_fuel_ok q k bias : enc_vli (vli_fuel q) q k bias = Ok (s_enc_vli (s_vli_fuel q) q k bias).
Proof.
  unfold vli_fuel, s_vli_fuel. apply enc_vli_spec. rewrite N2Nat.id. apply N.size_gt.
Qed.
