(* Proofs/Idna_Mark.v - the mark-errors run (fail_fast = false) of the UTS #46 model, label level:
     - it never takes the early return;
     - every label-level function only REPLACES characters by U+FFFD (relation `marked`), and it sets had_errors
       exactly when it leaves a U+FFFD behind (transition T);
     - the functions that replace the label (after_punycode_decode, the decode branch of end_sublabel) return a
       text without dots, with had_errors' = had_errors || (the text contains U+FFFD).
   Valid for every adapter; no premise. *)
From RU Require Import Base.Prelude Base.Utf8 Base.U32_c13 Gen.Tables Model.Punycode Model.Uts46
  Proofs.Idna_Sim Proofs.Idna_Api Proofs.Idna_Known Proofs.Idna_Hyp Proofs.Idna_Redisc
  Proofs.Idna_C10_Deny Proofs.Idna_C10_Prefix Proofs.Idna_C10_Inner.

Definition fffd (l : list N) : bool := existsb is_fffd l.
Definition nodot (l : list N) : Prop := Forall (fun c => c <> DOT) l.
Definition marked (l l' : list N) : Prop := Forall2 (fun a b => b = a \/ b = FFFD) l l'.

Lemma is_fffd_FFFD : is_fffd FFFD = true.
Proof. reflexivity. Qed.
Lemma FFFD_not_dot : FFFD <> DOT.
Proof. unfold FFFD, REPLACEMENT, DOT. lia. Qed.

Lemma marked_refl l : marked l l.
Proof. induction l as [|x r IH]; constructor; [left; reflexivity|exact IH]. Qed.
Lemma marked_trans a b c : marked a b -> marked b c -> marked a c.
Proof.
  intros H. revert c. induction H as [|x y a b Hxy _ IH]; intros c Hc; inversion Hc as [|? z ? c' Hyz Hbc]; subst; constructor.
  - destruct Hyz as [-> | ->]; [exact Hxy|right; reflexivity].
  - apply IH. exact Hbc.
Qed.
Lemma marked_app a a' b b' : marked a a' -> marked b b' -> marked (a ++ b) (a' ++ b').
Proof. apply Forall2_app. Qed.
Lemma marked_cons_keep c l l' : marked l l' -> marked (c :: l) (c :: l').
Proof. intros H. constructor; [left; reflexivity|exact H]. Qed.
Lemma marked_cons_mark c l l' : marked l l' -> marked (c :: l) (FFFD :: l').
Proof. intros H. constructor; [right; reflexivity|exact H]. Qed.
Lemma marked_length l l' : marked l l' -> length l' = length l.
Proof. intros H. induction H as [|x y a b _ _ IH]; [reflexivity|]. cbn [length]. rewrite IH. reflexivity. Qed.
Lemma marked_nodot l l' : nodot l -> marked l l' -> nodot l'.
Proof.
  intros Hn H. induction H as [|x y a b Hxy _ IH]; [constructor|]. inversion Hn as [|? ? Hx Ha]; subst.
  constructor; [destruct Hxy as [-> | ->]; [exact Hx|exact FFFD_not_dot]|exact (IH Ha)].
Qed.
Lemma marked_fffd l l' : fffd l = true -> marked l l' -> fffd l' = true.
Proof.
  intros Hf H. induction H as [|x y a b Hxy _ IH]; [discriminate|]. unfold fffd in *. cbn [existsb] in *.
  apply orb_true_iff in Hf. destruct Hf as [Hf|Hf].
  - destruct Hxy as [-> | ->]; [rewrite Hf|rewrite is_fffd_FFFD]; reflexivity.
  - rewrite (IH Hf). apply orb_true_r.
Qed.
Lemma marked_set_nth l : forall n, marked l (set_nth n FFFD l).
Proof.
  induction l as [|x r IH]; intros n; [destruct n; constructor|].
  destruct n; cbn [set_nth]; [apply marked_cons_mark, marked_refl|apply marked_cons_keep, IH].
Qed.
Lemma marked_set_last l : marked l (set_last FFFD l).
Proof.
  induction l as [|x r IH]; [constructor|]. destruct r as [|y r'].
  - cbn [set_last]. apply marked_cons_mark. constructor.
  - change (set_last FFFD (x :: y :: r')) with (x :: set_last FFFD (y :: r')). apply marked_cons_keep. exact IH.
Qed.
Lemma fffd_set_nth l : forall n, (n < length l)%nat -> fffd (set_nth n FFFD l) = true.
Proof.
  induction l as [|x r IH]; intros n Hn; cbn [length] in Hn; [lia|]. destruct n; cbn [set_nth].
  - reflexivity.
  - unfold fffd in *. cbn [existsb]. rewrite (IH n ltac:(lia)). apply orb_true_r.
Qed.
Lemma fffd_set_last l : l <> [] -> fffd (set_last FFFD l) = true.
Proof.
  induction l as [|x r IH]; intros Hn; [congruence|]. destruct r as [|y r'].
  - reflexivity.
  - change (set_last FFFD (x :: y :: r')) with (x :: set_last FFFD (y :: r')). unfold fffd in *. cbn [existsb].
    rewrite IH by discriminate. apply orb_true_r.
Qed.
Lemma fffd_app a b : fffd (a ++ b) = fffd a || fffd b.
Proof. unfold fffd. apply existsb_app. Qed.
Lemma nodot_app a b : nodot (a ++ b) <-> nodot a /\ nodot b.
Proof. unfold nodot. apply Forall_app. Qed.

(* ---- the transition of a marking function ---- *)
Definition T (lab : list N) (he : bool) (l' : list N) (he' : bool) : Prop :=
  marked lab l' /\ ((l' = lab /\ he' = he) \/ (he' = true /\ fffd l' = true)).
Lemma T_refl lab he : T lab he lab he.
Proof. split; [apply marked_refl|left; split; reflexivity]. Qed.
Lemma T_mark lab he l' : marked lab l' -> fffd l' = true -> T lab he l' true.
Proof. intros H1 H2. split; [exact H1|right; split; [reflexivity|exact H2]]. Qed.
Lemma T_trans a h b h1 c h2 : T a h b h1 -> T b h1 c h2 -> T a h c h2.
Proof.
  intros [M1 D1] [M2 D2]. split; [exact (marked_trans _ _ _ M1 M2)|].
  destruct D1 as [[-> ->]|[-> F1]]; [exact D2|].
  right. destruct D2 as [[-> ->]|[-> F2]]; split; try reflexivity; assumption.
Qed.
Lemma T_he_mono lab l' he' : T lab true l' he' -> he' = true.
Proof. intros [_ [[_ ->]|[-> _]]]; reflexivity. Qed.
Lemma T_after_mark lab lab1 he l' he' : marked lab lab1 -> fffd lab1 = true -> T lab1 true l' he' -> T lab he l' he'.
Proof.
  intros M F [M2 D]. split; [exact (marked_trans _ _ _ M M2)|]. right.
  destruct D as [[-> ->]|[-> F2]]; split; try reflexivity; assumption.
Qed.
Lemma T_pre p lab he l' he' : T lab he l' he' -> T (p ++ lab) he (p ++ l') he'.
Proof.
  intros [M D]. split; [apply marked_app; [apply marked_refl|exact M]|].
  destruct D as [[-> ->]|[-> F]]; [left; split; reflexivity|right; split; [reflexivity|]].
  rewrite fffd_app, F. apply orb_true_r.
Qed.
Lemma T_suf s lab he l' he' : T lab he l' he' -> T (lab ++ s) he (l' ++ s) he'.
Proof.
  intros [M D]. split; [apply marked_app; [exact M|apply marked_refl]|].
  destruct D as [[-> ->]|[-> F]]; [left; split; reflexivity|right; split; [reflexivity|]].
  rewrite fffd_app, F. reflexivity.
Qed.
(* the consequences used at the level of the buffers *)
Lemma T_exact lab he l' he' : T lab he l' he' -> (fffd lab = true -> he = true) -> he' = he || fffd l'.
Proof.
  intros [_ [[-> ->]|[-> F]]] E.
  - destruct (fffd lab) eqn:Ef; [rewrite (E eq_refl); reflexivity|rewrite orb_false_r; reflexivity].
  - rewrite F. rewrite orb_true_r. reflexivity.
Qed.

Definition MK (lab : list N) (he : bool) (r : lstep) : Prop :=
  match r with SOk (l', he') => T lab he l' he' | SExit => False | SPanic _ => True end.
Lemma MK_bind lab he r (k : list N * bool -> lstep) :
  MK lab he r -> (forall l1 h1, T lab he l1 h1 -> MK l1 h1 (k (l1, h1))) -> MK lab he (sbind r k).
Proof.
  destruct r as [[l1 h1]| |s]; cbn [MK sbind]; intros H Hk; [|exact H|exact I].
  specialize (Hk l1 h1 H). destruct (k (l1, h1)) as [[l2 h2]| |s]; cbn [MK] in *; [|exact Hk|exact I].
  exact (T_trans _ _ _ _ _ _ H Hk).
Qed.
Lemma MK_ret lab he : MK lab he (SOk (lab, he)).
Proof. apply T_refl. Qed.
Lemma MK_after_mark lab lab1 he r : marked lab lab1 -> fffd lab1 = true -> MK lab1 true r -> MK lab he r.
Proof. intros M F. destruct r as [[l' h']| |s]; cbn [MK]; [apply T_after_mark; assumption|auto|auto]. Qed.
Lemma MK_lcons_keep c r he res : MK r he res -> MK (c :: r) he (lcons c res).
Proof. destruct res as [[l' h']| |s]; cbn [MK lcons]; [apply (T_pre [c])|auto|auto]. Qed.
Lemma MK_lcons_mark c r he res : MK r true res -> MK (c :: r) he (lcons FFFD res).
Proof.
  destruct res as [[l' h']| |s]; cbn [MK lcons]; [|auto|auto]. intros H.
  pose proof (T_he_mono _ _ _ H) as ->. apply T_mark; [apply marked_cons_mark; exact (proj1 H)|reflexivity].
Qed.

(* ---- scan_mark ---- *)
Lemma scan_mark_MK bad l : forall he, MK l he (scan_mark false bad l he).
Proof.
  induction l as [|c r IH]; intros he; cbn [scan_mark]; [apply MK_ret|].
  destruct (bad c); [apply MK_lcons_mark|apply MK_lcons_keep]; apply IH.
Qed.

(* ---- check_hyphens ---- *)
Lemma set_nth_length (v : N) l : forall n, length (set_nth n v l) = length l.
Proof. induction l as [|x r IH]; intros n; [destruct n; reflexivity|]. destruct n; cbn [set_nth length]; [reflexivity|rewrite IH; reflexivity]. Qed.
Lemma last_opt_some_ne l x : last_opt l = Some x -> l <> [].
Proof. destruct l; [discriminate|discriminate]. Qed.

Lemma check_hyphens_MK a lab he : MK lab he (check_hyphens false a lab he).
Proof.
  unfold check_hyphens. apply MK_bind.
  { destruct lab as [|f r]; [apply MK_ret|]. destruct (f =? HYPHEN); [|apply MK_ret].
    apply T_mark; [apply marked_cons_mark, marked_refl|reflexivity]. }
  intros l1 h1 _. apply MK_bind.
  { destruct (last_opt l1) as [x|] eqn:El; [|apply MK_ret]. destruct (x =? HYPHEN); [|apply MK_ret].
    apply T_mark; [apply marked_set_last|apply fffd_set_last; exact (last_opt_some_ne _ _ El)]. }
  intros l2 h2 _. destruct a; [apply MK_ret|].
  destruct ((4 <=? len l2) && (nth 2 l2 0 =? HYPHEN) && (nth 3 l2 0 =? HYPHEN)) eqn:E; [|apply MK_ret].
  apply T_mark.
  - exact (marked_trans _ _ _ (marked_set_nth l2 2) (marked_set_nth _ 3)).
  - apply fffd_set_nth. rewrite set_nth_length. apply andb_true_iff in E. destruct E as [E _].
    apply andb_true_iff in E. destruct E as [E _]. unfold len in E. lia.
Qed.

Section WithAdapter.
Variable A : adapter.
Variable cfg : bool.

(* ---- contextj ---- *)
Lemma contextj_MK rest : forall rhead he, MK (rev rhead ++ rest) he (contextj A cfg false rhead rest he).
Proof.
  induction rest as [|c tail IH]; intros rhead he; cbn [contextj].
  - rewrite app_nil_r. apply MK_ret.
  - assert (Hgo : MK (rev rhead ++ c :: tail) he (contextj A cfg false (c :: rhead) tail he)).
    { pose proof (IH (c :: rhead) he) as H. cbn [rev] in H. rewrite <- app_assoc in H. exact H. }
    assert (Hmk : MK (rev rhead ++ c :: tail) he (contextj A cfg false (FFFD :: rhead) tail true)).
    { pose proof (IH (FFFD :: rhead) true) as H. cbn [rev] in H. rewrite <- app_assoc in H. cbn [app] in H.
      eapply MK_after_mark; [| |exact H].
      - apply marked_app; [apply marked_refl|apply marked_cons_mark, marked_refl].
      - rewrite fffd_app. unfold fffd at 2. cbn [existsb]. rewrite is_fffd_FFFD. apply orb_true_r. }
    destruct (negb (in_inclusive_range32 c T_IDNA_JOINER_LO T_IDNA_JOINER_HI)); [exact Hgo|].
    destruct rhead as [|p rh]; [exact Hmk|].
    destruct (is_virama A p); [exact Hgo|].
    destruct (c =? 8205); [exact Hmk|].
    destruct (cfg && negb (c =? 8204)); [exact I|].
    destruct (negb (has_appropriately_joining_char A false (p :: rh)) || negb (has_appropriately_joining_char A true tail));
      [exact Hmk|exact Hgo].
Qed.

(* ---- check_label ---- *)
Lemma check_label_MK hy lab he fcm ncj : MK lab he (check_label A cfg false hy lab he fcm ncj).
Proof.
  unfold check_label. apply MK_bind.
  { destruct (negb (hy_is_allow hy)); [apply check_hyphens_MK|apply MK_ret]. }
  intros l1 h1 _. apply MK_bind.
  { destruct fcm; [|apply MK_ret]. destruct l1 as [|f r]; [apply MK_ret|].
    destruct (is_mark A f); [|apply MK_ret]. apply T_mark; [apply marked_cons_mark, marked_refl|reflexivity]. }
  intros l2 h2 _. apply MK_bind.
  { destruct ncj; [|apply MK_ret]. exact (contextj_MK l2 [] h2). }
  intros l3 h3 _.
  destruct (negb (is_ascii_l l3) && (PUNYCODE_ENCODE_MAX_INPUT_LENGTH <? len l3)) eqn:E; [|apply MK_ret].
  destruct (len l3 <=? PUNYCODE_ENCODE_MAX_INPUT_LENGTH) eqn:E2; [exact I|].
  apply T_mark; [apply marked_set_nth|]. apply fffd_set_nth. unfold len in E2. lia.
Qed.

(* ---- the bidi rule ---- *)
Definition MK3 (lab : list N) (he : bool) (r : step (list N * bool * nstate)) : Prop :=
  match r with SOk (l', he', _) => T lab he l' he' | SExit => False | SPanic _ => True end.
Lemma MK3_keep c r he res : MK3 r he res -> MK3 (c :: r) he (cons3 c res).
Proof. destruct res as [[[l' h'] n]| |s]; cbn [MK3 cons3]; [apply (T_pre [c])|auto|auto]. Qed.
Lemma MK3_mark c r he res : MK3 r true res -> MK3 (c :: r) he (cons3 FFFD res).
Proof.
  destruct res as [[[l' h'] n]| |s]; cbn [MK3 cons3]; [|auto|auto]. intros H.
  pose proof (T_he_mono _ _ _ H) as ->. apply T_mark; [apply marked_cons_mark; exact (proj1 H)|reflexivity].
Qed.
Lemma rtl_middle_MK3 prior : forall ns he, MK3 prior he (rtl_middle A false prior ns he).
Proof.
  induction prior as [|c r IH]; intros ns he; cbn [rtl_middle]; [apply T_refl|].
  destruct (negb (bc_mid_rtl (bidi_class A c))); [apply MK3_mark, IH|].
  destruct ns.
  - apply MK3_keep, IH.
  - destruct (bc_an (bidi_class A c)); [apply MK3_mark, IH|apply MK3_keep, IH].
  - destruct (bc_en (bidi_class A c)); [apply MK3_mark, IH|apply MK3_keep, IH].
Qed.

Lemma T_mid first prior prior' last last' nsms he he1 he2 :
  ((last' = last /\ he1 = he) \/ (last' = FFFD /\ he1 = true)) -> T prior he1 prior' he2 ->
  T (first :: prior ++ last :: nsms) he (first :: prior' ++ last' :: nsms) he2.
Proof.
  intros HL HT.
  assert (T1 : T (first :: prior ++ last :: nsms) he (first :: prior ++ last' :: nsms) he1).
  { destruct HL as [[-> ->]|[-> ->]]; [apply T_refl|].
    apply T_mark.
    - apply marked_cons_keep, marked_app; [apply marked_refl|apply marked_cons_mark, marked_refl].
    - unfold fffd. cbn [existsb]. rewrite existsb_app. cbn [existsb]. rewrite is_fffd_FFFD. rewrite !orb_true_r. reflexivity. }
  apply (T_trans _ _ _ _ _ _ T1). apply (T_pre [first]). apply T_suf. exact HT.
Qed.

Lemma bidi_label_MK label he : MK label he (bidi_label A false label he).
Proof.
  unfold bidi_label. destruct label as [|first tail]; [apply MK_ret|].
  destruct (negb (bc_first (bidi_class A first))); [apply T_mark; [apply marked_cons_mark, marked_refl|reflexivity]|].
  destruct (trim_nsm A tail) as [[[prior last] nsms]|] eqn:Et; [|apply MK_ret].
  apply trim_nsm_spec in Et. subst tail.
  set (c1 := negb (if bc_ltr (bidi_class A first) then bc_last_ltr (bidi_class A last) else bc_last_rtl (bidi_class A last))).
  assert (HL : forall last' he1, (if c1 then SOk (FFFD, true) else SOk (last, he)) = SOk (last', he1) ->
            (last' = last /\ he1 = he) \/ (last' = FFFD /\ he1 = true)).
  { intros last' he1. destruct c1; intros H; inversion H; [right|left]; split; reflexivity. }
  destruct (if c1 then SOk (FFFD, true) else SOk (last, he)) as [[last' he1]| |s] eqn:E1;
    [|destruct c1; discriminate|destruct c1; discriminate].
  specialize (HL last' he1 eq_refl). cbn [sbind].
  destruct (bc_ltr (bidi_class A first)).
  - pose proof (scan_mark_MK (fun c => negb (bc_mid_ltr (bidi_class A c))) prior he1) as HS.
    destruct (scan_mark false _ prior he1) as [[prior' he2]| |s]; cbn [MK sbind] in *; [|exact HS|exact I].
    exact (T_mid first prior prior' last last' nsms he he1 he2 HL HS).
  - pose proof (rtl_middle_MK3 prior Undecided he1) as HS.
    destruct (rtl_middle A false prior Undecided he1) as [[[prior' he2] ns]| |s]; cbn [MK3 MK sbind] in *; [|exact HS|exact I].
    destruct (match ns with European => bc_an (bidi_class A last) | Arabic => bc_en (bidi_class A last) | Undecided => false end).
    + pose proof (T_mid first prior prior' last last' nsms he he1 he2 HL HS) as T1.
      cbn [MK]. eapply T_trans; [exact T1|]. apply T_mark.
      * apply marked_cons_keep, marked_app; [apply marked_refl|apply marked_cons_mark, marked_refl].
      * unfold fffd. cbn [existsb]. rewrite existsb_app. cbn [existsb]. rewrite is_fffd_FFFD. rewrite !orb_true_r. reflexivity.
    + exact (T_mid first prior prior' last last' nsms he he1 he2 HL HS).
Qed.

(* ---- after_punycode_decode: the label is replaced ---- *)
Lemma apply_lower_dd_nodot deny c : apply_lower (N.lor deny DOT_MASK) c <> DOT.
Proof.
  unfold apply_lower. destruct (c <? 128) eqn:E1.
  - destruct (N.land (N.lor deny DOT_MASK) (N.shiftl 1 c) =? 0) eqn:E2; [|exact FFFD_not_dot].
    intros Hc. subst c. apply N.eqb_eq in E2. unfold DOT_MASK, DOT in E2.
    change T_IDNA_DOT_MASK with (N.shiftl 1 46) in E2.
    rewrite N.land_lor_distr_l in E2. apply N.lor_eq_0_iff in E2. destruct E2 as [_ E2].
    rewrite N.land_diag in E2. vm_compute in E2. discriminate.
  - intros Hc. subst c. vm_compute in E1. discriminate.
Qed.
Lemma zip_mark_some n : forall l m, zip_mark n l = Some m -> marked n m /\ fffd m = true.
Proof.
  induction n as [|x nr IH]; intros l m H; [cbn [zip_mark] in H; discriminate|].
  destruct l as [|y lr]; [cbn [zip_mark] in H; discriminate|]. cbn [zip_mark] in H. destruct (x =? y).
  - destruct (zip_mark nr lr) as [m0|] eqn:E; [|discriminate]. cbn [option_map] in H. inversion H. subst m.
    destruct (IH _ _ E) as [M F]. split; [apply marked_cons_keep; exact M|].
    unfold fffd in *. cbn [existsb]. rewrite F. apply orb_true_r.
  - inversion H. split; [apply marked_cons_mark, marked_refl|reflexivity].
Qed.

Definition APD (he : bool) (r : lstep) : Prop :=
  match r with SOk (l', he') => nodot l' /\ he' = he || fffd l' | SExit => False | SPanic _ => True end.
Lemma apd_mark deny lb he : APD he (after_punycode_decode A false (N.lor deny DOT_MASK) lb he).
Proof.
  unfold after_punycode_decode. rewrite scan_mark_fffd_id. cbn [sbind].
  set (X := map (apply_lower (N.lor deny DOT_MASK)) (normalize_validate A lb)).
  assert (HX : nodot X).
  { apply Forall_forall. intros x Hx. apply in_map_iff in Hx. destruct Hx as (c & <- & _). apply apply_lower_dd_nodot. }
  destruct (zip_mark X lb) as [m|] eqn:Ez; cbn [APD].
  - destruct (zip_mark_some _ _ _ Ez) as [M F]. split; [exact (marked_nodot _ _ HX M)|]. rewrite F, orb_true_r. reflexivity.
  - split; [exact HX|reflexivity].
Qed.

(* ---- the general postcondition of a label-level step ---- *)
Definition RP (lab : list N) (he : bool) (r : lstep) : Prop :=
  match r with
  | SOk (l', he') => (nodot lab -> nodot l') /\ (fffd lab = true -> fffd l' = true) /\
                     ((fffd lab = true -> he = true) -> he' = he || fffd l')
  | SExit => False
  | SPanic _ => True
  end.
Lemma MK_RP lab he r : MK lab he r -> RP lab he r.
Proof.
  destruct r as [[l' h']| |s]; cbn [MK RP]; auto. intros HT. split; [|split].
  - intros Hn. exact (marked_nodot _ _ Hn (proj1 HT)).
  - intros Hf. exact (marked_fffd _ _ Hf (proj1 HT)).
  - exact (T_exact _ _ _ _ HT).
Qed.

Lemma xn_no_fffd cur : starts_with cur XN_PREFIX = true ->
  existsb (fun c => negb (is_ascii_cp c)) (skipn 4 cur) = false -> fffd cur = false /\ (4 <= length cur)%nat.
Proof.
  unfold XN_PREFIX. intros Hs Hn.
  destruct cur as [|a [|b [|c [|e r]]]]; cbn [starts_with] in Hs; try discriminate;
    try (rewrite !andb_false_r in Hs; discriminate).
  apply andb_true_iff in Hs. destruct Hs as [Ha Hs]. apply andb_true_iff in Hs. destruct Hs as [Hb Hs].
  apply andb_true_iff in Hs. destruct Hs as [Hc Hs]. apply andb_true_iff in Hs. destruct Hs as [He _].
  apply N.eqb_eq in Ha, Hb, Hc, He. subst. cbn [skipn] in Hn. split; [|cbn [length]; lia].
  unfold fffd. cbn [existsb]. change (is_fffd 120) with false. change (is_fffd 110) with false. change (is_fffd 45) with false.
  cbn [orb]. destruct (existsb is_fffd r) eqn:E; [|reflexivity].
  apply existsb_exists in E. destruct E as (x & Hx & Hf).
  pose proof (existsb_false_in _ _ x Hn Hx) as Hq. cbv beta in Hq. unfold is_fffd in Hf. apply N.eqb_eq in Hf. subst x.
  vm_compute in Hq. discriminate.
Qed.

Lemma end_sublabel_RP hy deny cur he fcm ncj :
  RP cur he (end_sublabel A cfg false hy (N.lor deny DOT_MASK) cur he fcm ncj).
Proof.
  unfold end_sublabel. destruct (starts_with cur XN_PREFIX) eqn:Esw; [|apply MK_RP, check_label_MK].
  cbv zeta. remember (existsb (fun c => negb (is_ascii_cp c)) (skipn 4 cur)) as ppf1 eqn:Eppf.
  assert (Hppf : forall cur3 he3, T cur he cur3 he3 -> RP cur he (check_label A cfg false hy cur3 he3 false false)).
  { intros cur3 he3 HT. pose proof (check_label_MK hy cur3 he3 false false) as HC.
    destruct (check_label A cfg false hy cur3 he3 false false) as [[l' h']| |s]; cbn [MK] in HC; [|contradiction|exact I].
    apply (MK_RP cur he (SOk (l', h'))). cbn [MK]. exact (T_trans _ _ _ _ _ _ HT HC). }
  pose proof (scan_mark_MK (fun c => negb (is_ascii_cp c)) (skipn 4 cur) he) as HS.
  destruct (scan_mark false (fun c => negb (is_ascii_cp c)) (skipn 4 cur) he) as [[t he1]| |s] eqn:Esc;
    cbn [MK sbind] in *; [|contradiction|exact I].
  assert (T1 : T cur he (firstn 4 cur ++ t) he1).
  { rewrite <- (firstn_skipn 4 cur) at 1. apply T_pre. exact HS. }
  remember (firstn 4 cur ++ t) as cur1 eqn:Ecur1.
  destruct (last_opt cur1) as [lst|] eqn:El; [|exact I].
  destruct (lst =? HYPHEN); cbn [sbind].
  { assert (T2 : T cur he (set_last FFFD cur1) true).
    { eapply T_trans; [exact T1|]. apply T_mark; [apply marked_set_last|apply fffd_set_last; exact (last_opt_some_ne _ _ El)]. }
    destruct (PUNYCODE_DECODE_MAX_INPUT_LENGTH <? len (set_last FFFD cur1) - 4) eqn:Elen; cbn [sbind negb]; apply Hppf; [|exact T2].
    eapply T_trans; [exact T2|]. apply T_mark; [apply marked_set_nth|]. apply fffd_set_nth. unfold len in Elen. lia. }
  destruct (PUNYCODE_DECODE_MAX_INPUT_LENGTH <? len cur1 - 4) eqn:Elen; cbn [sbind].
  { cbn [negb]. apply Hppf. eapply T_trans; [exact T1|]. apply T_mark; [apply marked_set_nth|].
    apply fffd_set_nth. unfold len in Elen. lia. }
  destruct ppf1; cbn [negb]; [apply Hppf; exact T1|].
  (* nothing marked: the decode branch *)
  symmetry in Eppf. rewrite (scan_mark_none false _ _ he Eppf) in Esc. inversion Esc. subst t he1. clear Esc.
  rewrite firstn_skipn in Ecur1. subst cur1.
  destruct (xn_no_fffd cur Esw Eppf) as [Hnf Hl4].
  destruct (decode_with cfg CharInternal (skipn 4 cur)) as [decoded| |s]; [| |exact I].
  - pose proof (apd_mark deny decoded he) as HA.
    destruct (after_punycode_decode A false (N.lor deny DOT_MASK) decoded he) as [[c4 he4]| |s]; cbn [APD sbind] in *; [|contradiction|exact I].
    destruct HA as [Hn4 He4].
    pose proof (check_label_MK hy c4 he4 true true) as HC.
    destruct (check_label A cfg false hy c4 he4 true true) as [[l' h']| |s]; cbn [MK RP] in *; [|contradiction|exact I].
    split; [intros _; exact (marked_nodot _ _ Hn4 (proj1 HC))|]. split; [rewrite Hnf; discriminate|]. intros _.
    destruct HC as [_ [[-> ->]|[-> F]]]; [exact He4|rewrite F, orb_true_r; reflexivity].
  - apply Hppf. apply T_mark; [apply marked_set_nth|apply fffd_set_nth; lia].
Qed.

(* ---- sublabels ---- *)
Definition efffd (ls : list (list N)) : bool := existsb fffd ls.
Definition SP (db : list N) (cur : list N) (he : bool) (ap : list aal) (n : nat) (r : step (list N * bool * list aal)) : Prop :=
  match r with
  | SOk (db', he', ap') => exists labs, length labs = Datatypes.S n /\ db' = db ++ join_dots labs /\
                             ap' = ap ++ repeat AalOther n /\ Forall nodot labs /\ he' = he || efffd labs /\
                             (fffd cur = true -> efffd labs = true)
  | SExit => False
  | SPanic _ => True
  end.

Lemma join_dots_cons2 l x r : join_dots (l :: x :: r) = l ++ DOT :: join_dots (x :: r).
Proof. reflexivity. Qed.

Lemma sublabels_SP hy deny rest : forall s db cur he ap fcm ncj,
  nodot cur -> nodot s -> Forall nodot rest -> (fffd cur = true -> he = true) ->
  SP db cur he ap (length rest) (sublabels A cfg false hy (N.lor deny DOT_MASK) s rest db cur he ap fcm ncj).
Proof.
  induction rest as [|s2 rest IH]; intros s db cur he ap fcm ncj Hnc Hns Hnr HE; cbn [sublabels];
    rewrite scan_mark_fffd_id; cbn [sbind];
    pose proof (end_sublabel_RP hy deny (cur ++ s) (he || existsb is_fffd s) fcm ncj) as HR;
    destruct (end_sublabel A cfg false hy (N.lor deny DOT_MASK) (cur ++ s) (he || existsb is_fffd s) fcm ncj) as [[lab he2]| |p];
    cbn [RP sbind] in *; try contradiction; try exact I;
    destruct HR as (R1 & R2 & R3);
    specialize (R1 (proj2 (nodot_app cur s) (conj Hnc Hns)));
    assert (Hhe2 : he2 = he || fffd lab)
      by (rewrite R3;
          [ destruct (existsb is_fffd s) eqn:Es;
            [ rewrite (R2 ltac:(rewrite fffd_app; unfold fffd at 2; rewrite Es; apply orb_true_r)); rewrite !orb_true_r; reflexivity
            | rewrite orb_false_r; reflexivity ]
          | rewrite fffd_app; intros Hf; apply orb_true_iff in Hf; destruct Hf as [Hf|Hf];
            [ rewrite (HE Hf); reflexivity | unfold fffd in Hf; rewrite Hf; apply orb_true_r ] ]);
    assert (Hcl : fffd cur = true -> fffd lab = true)
      by (intros Hf; apply R2; rewrite fffd_app, Hf; reflexivity).
  - exists [lab]. cbn [length repeat join_dots efffd existsb]. rewrite app_nil_r, orb_false_r.
    repeat split; try assumption; try reflexivity. constructor; [exact R1|constructor].
  - pose proof (Forall_inv Hnr) as Hs2. pose proof (Forall_inv_tail Hnr) as Hr.
    pose proof (IH s2 (db ++ lab ++ [DOT]) [] he2 (ap ++ [AalOther]) true true ltac:(constructor) Hs2 Hr ltac:(discriminate)) as HI.
    destruct (sublabels A cfg false hy (N.lor deny DOT_MASK) s2 rest (db ++ lab ++ [DOT]) [] he2 (ap ++ [AalOther]) true true)
      as [[[db' he'] ap']| |p]; cbn [SP] in *; [|contradiction|exact I].
    destruct HI as (labs & Hlen & Hdb & Hap & Hnl & Hhe & _).
    exists (lab :: labs). cbn [length repeat efffd existsb]. split; [rewrite Hlen; reflexivity|]. split.
    { rewrite Hdb. destruct labs as [|x r]; [discriminate|]. rewrite join_dots_cons2. rewrite <- !app_assoc. reflexivity. }
    split; [rewrite Hap, <- app_assoc; reflexivity|]. split; [constructor; assumption|]. split.
    { rewrite Hhe, Hhe2. unfold efffd. rewrite orb_assoc. reflexivity. }
    intros Hf. rewrite (Hcl Hf). reflexivity.
Qed.

(* ---- one non-empty input label ---- *)
Definition es_shape (label : list N) (es : list aal) (he' : bool) : Prop :=
  (es = [MixedCaseAscii label] /\ he' = false) \/ es = [MixedCasePunycode label] \/ exists k, es = AalOther :: repeat AalOther k.
Definition LN (label db : list N) (he : bool) (ap : list aal) (r : step (list N * bool * list aal)) : Prop :=
  match r with
  | SOk (db', he', ap') => exists labs es, length es = length labs /\ labs <> [] /\ db' = db ++ join_dots labs /\
       ap' = ap ++ es /\ Forall nodot labs /\ he' = he || efffd labs /\ es_shape label es he'
  | SExit => False
  | SPanic _ => True
  end.

Lemma apply_upper_nodot deny b : b <> DOT -> apply_upper deny b <> DOT.
Proof.
  intros Hb. unfold apply_upper. destruct (N.land deny (N.shiftl 1 b) =? 0); [exact Hb|].
  destruct (in_inclusive_range8 b 65 90) eqn:E; [|exact FFFD_not_dot].
  intros Hq. unfold DOT in *. assert (b = 14) by lia. subst b. vm_compute in E. discriminate.
Qed.
Lemma map_upper_nodot deny l : nodot l -> nodot (map (apply_upper deny) l).
Proof.
  intros H. apply Forall_forall. intros x Hx. apply in_map_iff in Hx. destruct Hx as (b & <- & Hb).
  unfold nodot in H. rewrite Forall_forall in H. apply apply_upper_nodot. exact (H b Hb).
Qed.
Lemma split1_nodot l : forall h t, split1 DOT l = (h, t) -> nodot h /\ Forall nodot t.
Proof.
  induction l as [|x r IH]; intros h t H; cbn [split1] in H.
  - inversion H. split; constructor.
  - destruct (split1 DOT r) as [h0 t0]. destruct (IH _ _ eq_refl) as [I1 I2]. destruct (x =? DOT) eqn:E; inversion H; subst.
    + split; [constructor|constructor; assumption].
    + split; [constructor; [apply N.eqb_neq; exact E|exact I1]|exact I2].
Qed.
Lemma split_on_nodot l : Forall nodot (split_on DOT l).
Proof. unfold split_on. destruct (split1 DOT l) as [h t] eqn:E. destruct (split1_nodot _ _ _ E). constructor; assumption. Qed.

Lemma complexT_LN hy deny label db he ap ascii : nodot ascii ->
  LN label db he ap (complexT false hy deny label db he ap ascii).
Proof.
  intros Hn. unfold complexT. rewrite scan_mark_fffd_id. cbn [sbind].
  set (cur := map (apply_upper deny) ascii). fold (fffd cur).
  pose proof (map_upper_nodot deny ascii Hn) as Hnc. fold cur in Hnc.
  match goal with |- LN _ _ _ _ (sbind ?r _) =>
    assert (HH : MK cur (he || fffd cur) r) by (destruct (negb (hy_is_allow hy)); [apply check_hyphens_MK|apply MK_ret]);
    destruct r as [[cur0 he0]| |p]; cbn [MK sbind LN] in *; [|contradiction|exact I] end.
  exists [cur0], [if he0 then AalOther else MixedCaseAscii label]. cbn [length join_dots efffd existsb].
  assert (Hhe : he0 = he || fffd cur0).
  { rewrite (T_exact _ _ _ _ HH) by (intros Hf; rewrite Hf; apply orb_true_r).
    destruct (fffd cur) eqn:Ef; [rewrite (marked_fffd _ _ Ef (proj1 HH)), !orb_true_r; reflexivity|rewrite orb_false_r; reflexivity]. }
  repeat split; try reflexivity; try discriminate.
  - constructor; [exact (marked_nodot _ _ Hnc (proj1 HH))|constructor].
  - rewrite orb_false_r. exact Hhe.
  - destruct he0; [right; right; exists 0%nat; reflexivity|left; split; reflexivity].
Qed.

Lemma complexF_LN hy deny label db he ap ascii non_ascii : nodot ascii ->
  LN label db he ap (complexF A cfg false hy deny db he ap ascii non_ascii).
Proof.
  intros Hn. unfold complexF. rewrite scan_mark_fffd_id. cbn [sbind].
  set (cur := map (apply_upper deny) ascii). fold (fffd cur).
  pose proof (map_upper_nodot deny ascii Hn) as Hnc. fold cur in Hnc.
  destruct (split1 DOT (map (apply_lower deny) (map_normalize A (utf8_lossy non_ascii)))) as [s rest] eqn:Es.
  destruct (split1_nodot _ _ _ Es) as [Hs Hr].
  pose proof (sublabels_SP hy deny rest s db cur (he || fffd cur) (ap ++ [AalOther])
                match ascii with [] => true | _ :: _ => false end match non_ascii with [] => false | _ :: _ => true end
                Hnc Hs Hr ltac:(intros Hf; rewrite Hf; apply orb_true_r)) as HS.
  destruct (sublabels A cfg false hy (N.lor deny DOT_MASK) s rest db cur (he || fffd cur) (ap ++ [AalOther]) _ _)
    as [[[db' he'] ap']| |p]; cbn [SP LN] in *; [|contradiction|exact I].
  destruct HS as (labs & Hlen & Hdb & Hap & Hnl & Hhe & Hc).
  exists labs, (AalOther :: repeat AalOther (length rest)). cbn [length]. rewrite repeat_length.
  split; [symmetry; exact Hlen|]. split; [destruct labs; [discriminate|discriminate]|]. split; [exact Hdb|].
  split; [rewrite Hap, <- app_assoc; reflexivity|]. split; [exact Hnl|]. split.
  - rewrite Hhe. destruct (fffd cur) eqn:Ef; [rewrite (Hc eq_refl), !orb_true_r; reflexivity|rewrite orb_false_r; reflexivity].
  - right; right. exists (length rest). reflexivity.
Qed.

Lemma label_nonempty_LN hy deny label db he ap : nodot label ->
  LN label db he ap (label_nonempty A cfg false hy deny label db he ap).
Proof.
  intros Hn. rewrite label_nonempty_eq. destruct (split_ascii_fast_path_prefix label) as [ascii non_ascii] eqn:Es.
  assert (Hna : nodot ascii).
  { rewrite (split_ascii_app _ _ _ Es) in Hn. exact (proj1 (proj1 (nodot_app _ _) Hn)). }
  destruct non_ascii as [|na nr]; [|apply complexF_LN; exact Hna].
  destruct (has_punycode_prefix ascii); [|apply complexT_LN; exact Hna].
  destruct (negb match last_opt ascii with Some l => l =? HYPHEN | None => false end
            && (len ascii - 4 <=? PUNYCODE_DECODE_MAX_INPUT_LENGTH)); [|apply complexF_LN; exact Hna].
  destruct (decode_with cfg U8Internal (skipn 4 ascii)) as [decoded| |p]; [| |exact I].
  - pose proof (apd_mark deny decoded he) as HA.
    destruct (after_punycode_decode A false (N.lor deny DOT_MASK) decoded he) as [[c1 he1]| |p]; cbn [APD sbind] in *; [|contradiction|exact I].
    destruct HA as [Hn1 He1].
    pose proof (check_label_MK hy c1 he1 true true) as HC.
    destruct (check_label A cfg false hy c1 he1 true true) as [[c2 he2']| |p]; cbn [MK sbind LN] in *; [|contradiction|exact I].
    exists [c2], [MixedCasePunycode label]. cbn [length join_dots efffd existsb]. rewrite orb_false_r.
    repeat split; try reflexivity; try discriminate.
    + constructor; [exact (marked_nodot _ _ Hn1 (proj1 HC))|constructor].
    + destruct HC as [_ [[-> ->]|[-> F]]]; [exact He1|rewrite F, orb_true_r; reflexivity].
    + right; left; reflexivity.
  - cbn [LN]. exists [FFFD :: map (apply_upper deny) (tl ascii)], [MixedCasePunycode label].
    cbn [length join_dots efffd existsb fffd]. rewrite is_fffd_FFFD. cbn [orb]. rewrite orb_true_r.
    repeat split; try reflexivity; try discriminate.
    + constructor; [|constructor]. constructor; [exact FFFD_not_dot|]. apply map_upper_nodot.
      destruct ascii; [constructor|]. inversion Hna; assumption.
    + right; left; reflexivity.
Qed.
End WithAdapter.

(* ---- which input labels the entries of already_punycode stand for ---- *)
Inductive cover : list aal -> list (list N) -> Prop :=
| cv_nil : cover [] []
| cv_a l ap ls : cover ap ls -> cover (MixedCaseAscii l :: ap) (l :: ls)
| cv_p l ap ls : l <> [] -> cover ap ls -> cover (MixedCasePunycode l :: ap) (l :: ls)
| cv_o k l ap ls : l <> [] -> cover ap ls -> cover (AalOther :: repeat AalOther k ++ ap) (l :: ls).

Lemma cover_app ap ls : cover ap ls -> forall es ms, cover es ms -> cover (ap ++ es) (ls ++ ms).
Proof.
  induction 1 as [|l ap ls _ IH|l ap ls Hl _ IH|k l ap ls Hl _ IH]; intros es ms Hc; cbn [app].
  - exact Hc.
  - constructor. apply IH. exact Hc.
  - constructor; [exact Hl|]. apply IH. exact Hc.
  - rewrite <- app_assoc. constructor; [exact Hl|]. apply IH. exact Hc.
Qed.
Lemma cover_nil_r ap : cover ap [] -> ap = [].
Proof. intros H. inversion H. reflexivity. Qed.

Definition pre_ok (dbl : list (list N)) (ap : list aal) : Prop :=
  Forall2 (fun lab e => match e with MixedCaseAscii _ => fffd lab = false | _ => True end) dbl ap.
Lemma pre_ok_others labs : forall k, length (repeat AalOther k) = length labs -> pre_ok labs (repeat AalOther k).
Proof.
  induction labs as [|l r IH]; intros k H; destruct k; cbn [repeat length] in *; try discriminate; constructor; [exact I|].
  apply IH. lia.
Qed.
Lemma LN_facts label labs es he he' : es_shape label es he' -> length es = length labs -> he' = he || efffd labs ->
  pre_ok labs es /\ (label <> [] -> cover es [label]).
Proof.
  intros [[-> ->]|[->|(k & ->)]] Hl Hh.
  - destruct labs as [|lab [|x r]]; try discriminate. cbn [efffd existsb] in Hh. split.
    + constructor; [|constructor]. destruct (fffd lab); [rewrite orb_true_r in Hh; discriminate|reflexivity].
    + intros _. constructor. constructor.
  - destruct labs as [|lab [|x r]]; try discriminate. split.
    + constructor; [exact I|constructor].
    + intros Hn. constructor; [exact Hn|constructor].
  - split.
    + apply (pre_ok_others labs (Datatypes.S k)). exact Hl.
    + intros Hn. replace (AalOther :: repeat AalOther k) with (AalOther :: repeat AalOther k ++ []) by (rewrite app_nil_r; reflexivity).
      constructor; [exact Hn|constructor].
Qed.

Lemma join_dots_app dbl labs : dbl <> [] -> labs <> [] -> join_dots (dbl ++ labs) = join_dots dbl ++ DOT :: join_dots labs.
Proof.
  intros Hd Hl. induction dbl as [|x r IH]; [congruence|]. destruct r as [|y r'].
  - cbn [app]. destruct labs; [congruence|]. reflexivity.
  - change ((x :: y :: r') ++ labs) with (x :: (y :: r') ++ labs). cbn [app]. rewrite !join_dots_cons2.
    change (y :: r' ++ labs) with ((y :: r') ++ labs). rewrite IH by discriminate. rewrite <- app_assoc. reflexivity.
Qed.
Lemma efffd_app a b : efffd (a ++ b) = efffd a || efffd b.
Proof. unfold efffd. apply existsb_app. Qed.
Lemma fffd_join ls : fffd (join_dots ls) = efffd ls.
Proof.
  induction ls as [|l r IH]; [reflexivity|]. destruct r as [|x r'].
  - cbn [join_dots efffd existsb]. rewrite orb_false_r. reflexivity.
  - rewrite join_dots_cons2. rewrite fffd_app. unfold fffd at 2. cbn [existsb]. change (is_fffd DOT) with false. cbn [orb].
    fold (fffd (join_dots (x :: r'))). rewrite IH. reflexivity.
Qed.

(* ---- the label loop: state invariant of the marking run ---- *)
Section Loop.
Variable A : adapter.
Variable cfg : bool.
Variable d : list N.

Definition SInv (s : ist) (todo : list (list N)) : Prop :=
  exists P, len P = i_ptu s /\
  if i_inpre s then i_db s = [] /\ i_ap s = [] /\ i_he s = false /\ d = P ++ tailtext (i_seen s) todo
  else i_seen s = true /\ i_ptu s < len d /\ exists dbl done, dbl <> [] /\ i_db s = join_dots dbl /\ Forall nodot dbl /\
       pre_ok dbl (i_ap s) /\ i_he s = efffd dbl /\ d = P ++ join_dots (done ++ todo) /\ cover (i_ap s) done.

Definition SPost (todo : list (list N)) (r : step ist) : Prop :=
  match r with SOk s' => SInv s' todo | SExit => False | SPanic _ => True end.

Lemma label_step_SInv hy deny label s todo : nodot label -> SInv s (label :: todo) ->
  SPost todo (label_step A cfg false hy deny label s).
Proof.
  intros Hn (P & HP & H). unfold label_step.
  destruct (i_inpre s && is_passthrough_ascii_label label) eqn:Ec.
  - apply andb_true_iff in Ec. destruct Ec as [Epre _]. rewrite Epre in H. destruct H as (Hdb & Hap & Hhe & Hd).
    cbn [SPost]. unfold SInv. cbn [i_db i_ap i_ptu i_inpre i_seen i_he].
    exists (P ++ (if i_seen s then [DOT] else []) ++ label). split.
    + rewrite !len_app, HP. destruct (i_seen s); unfold len; cbn [length]; lia.
    + repeat split; try assumption. rewrite tailtext_cons in Hd. rewrite <- !app_assoc. exact Hd.
  - destruct (i_inpre s) eqn:Epre.
    + (* the first label that is not passed through *)
      cbn [andb] in Ec. destruct H as (Hdb & Hap & Hhe & Hd). rewrite andb_true_r, andb_false_r.
      destruct label as [|b r]; [discriminate|].
      rewrite tailtext_cons in Hd.
      set (P' := P ++ (if i_seen s then [DOT] else [])).
      assert (HP' : len P' = (if i_seen s then i_ptu s + 1 else i_ptu s)).
      { unfold P'. rewrite len_app, HP. destruct (i_seen s); unfold len; cbn [length]; lia. }
      assert (Hd' : d = P' ++ (b :: r) ++ tailtext true todo).
      { unfold P'. rewrite <- app_assoc. exact Hd. }
      pose proof (label_nonempty_LN A cfg hy deny (b :: r) (i_db s) (i_he s) (i_ap s) Hn) as HL.
      destruct (label_nonempty A cfg false hy deny (b :: r) (i_db s) (i_he s) (i_ap s)) as [[[db1 he1] ap1]| |p];
        cbn [LN sbind SPost] in *; [|contradiction|exact I].
      destruct HL as (labs & es & Hlen & Hne & Hdb1 & Hap1 & Hnl & Hhe1 & Hsh).
      destruct (LN_facts _ _ _ _ _ Hsh Hlen Hhe1) as [Hpo Hcv].
      unfold SInv. cbn [i_db i_ap i_ptu i_inpre i_seen i_he]. exists P'. split; [exact HP'|].
      split; [reflexivity|]. split.
      { rewrite Hd'. rewrite !len_app. rewrite HP'. assert (Hbr : len (b :: r) = len r + 1) by (unfold len; cbn [length]; lia).
        rewrite Hbr. destruct (i_seen s); lia. }
      exists labs, [b :: r]. rewrite Hdb in Hdb1. rewrite Hap in Hap1. rewrite Hhe in Hhe1. cbn [app orb] in *.
      repeat split; try assumption.
      * rewrite Hap1. exact Hpo.
      * rewrite join_dots_cons. exact Hd'.
      * rewrite Hap1. apply Hcv. discriminate.
    + (* inside the processed part *)
      destruct H as (Hseen & Hlt & dbl & done & Hdn & Hdb & Hnd & Hpo & Hhe & Hd & Hcv).
      rewrite Hseen. cbn [andb negb].
      destruct label as [|b r].
      * cbn [SPost]. unfold SInv. cbn [i_db i_ap i_ptu i_inpre i_seen i_he]. exists P. split; [exact HP|].
        split; [reflexivity|]. split; [exact Hlt|]. exists (dbl ++ [[]]), (done ++ [[]]).
        split; [destruct dbl; discriminate|]. split.
        { rewrite join_dots_app by (try assumption; discriminate). rewrite Hdb. reflexivity. }
        split; [apply Forall_app; split; [exact Hnd|constructor; [constructor|constructor]]|]. split.
        { apply Forall2_app; [exact Hpo|]. constructor; [reflexivity|constructor]. }
        split; [rewrite efffd_app, Hhe; cbn [efffd existsb fffd]; rewrite !orb_false_r; reflexivity|]. split.
        { rewrite <- app_assoc. exact Hd. }
        apply cover_app; [exact Hcv|]. constructor. constructor.
      * pose proof (label_nonempty_LN A cfg hy deny (b :: r) (i_db s ++ [DOT]) (i_he s) (i_ap s) Hn) as HL.
        destruct (label_nonempty A cfg false hy deny (b :: r) (i_db s ++ [DOT]) (i_he s) (i_ap s)) as [[[db1 he1] ap1]| |p];
          cbn [LN sbind SPost] in *; [|contradiction|exact I].
        destruct HL as (labs & es & Hlen & Hne & Hdb1 & Hap1 & Hnl & Hhe1 & Hsh).
        destruct (LN_facts _ _ _ _ _ Hsh Hlen Hhe1) as [Hpo1 Hcv1].
        unfold SInv. cbn [i_db i_ap i_ptu i_inpre i_seen i_he]. exists P. split; [exact HP|].
        split; [reflexivity|]. split; [exact Hlt|]. exists (dbl ++ labs), (done ++ [b :: r]).
        split; [destruct dbl; [congruence|discriminate]|]. split.
        { rewrite join_dots_app by assumption. rewrite Hdb1, Hdb, <- app_assoc. reflexivity. }
        split; [apply Forall_app; split; assumption|]. split.
        { rewrite Hap1. apply Forall2_app; assumption. }
        split; [rewrite efffd_app, <- Hhe; exact Hhe1|]. split.
        { rewrite <- app_assoc. exact Hd. }
        rewrite Hap1. apply cover_app; [exact Hcv|]. apply Hcv1. discriminate.
Qed.

Lemma labels_loop_SInv hy deny labels : Forall nodot labels -> forall s, SInv s labels ->
  SPost [] (labels_loop A cfg false hy deny labels s).
Proof.
  induction labels as [|l r IH]; intros Hn s HS; cbn [labels_loop]; [exact HS|].
  pose proof (label_step_SInv hy deny l s r (Forall_inv Hn) HS) as H1.
  destruct (label_step A cfg false hy deny l s) as [s1| |p]; cbn [SPost sbind] in *; [|contradiction|exact I].
  exact (IH (Forall_inv_tail Hn) s1 H1).
Qed.
End Loop.

(* ---- split_on / join_dots on dot-free labels ---- *)
Lemma split1_nodot_id l : nodot l -> split1 DOT l = (l, []).
Proof.
  induction l as [|x r IH]; intros H; cbn [split1]; [reflexivity|]. inversion H as [|? ? Hx Hr]; subst.
  rewrite (IH Hr). replace (x =? DOT) with false by (symmetry; apply N.eqb_neq; exact Hx). reflexivity.
Qed.
Lemma split1_app_dot l r : nodot l -> split1 DOT (l ++ DOT :: r) = (l, fst (split1 DOT r) :: snd (split1 DOT r)).
Proof.
  induction l as [|x l' IH]; intros H; cbn [app split1].
  - destruct (split1 DOT r) as [h t]. rewrite N.eqb_refl. reflexivity.
  - inversion H as [|? ? Hx Hr]; subst. rewrite (IH Hr).
    replace (x =? DOT) with false by (symmetry; apply N.eqb_neq; exact Hx). reflexivity.
Qed.
Lemma split_join ls : ls <> [] -> Forall nodot ls -> split_on DOT (join_dots ls) = ls.
Proof.
  induction ls as [|l r IH]; [congruence|]. intros _ H. inversion H as [|? ? Hl Hr]; subst. destruct r as [|x r'].
  - cbn [join_dots]. unfold split_on. rewrite (split1_nodot_id l Hl). reflexivity.
  - rewrite join_dots_cons2. unfold split_on. rewrite (split1_app_dot l _ Hl).
    specialize (IH ltac:(discriminate) Hr). unfold split_on in IH.
    destruct (split1 DOT (join_dots (x :: r'))) as [h t]. cbn [fst snd]. rewrite IH. reflexivity.
Qed.
Lemma fast_tier_suffix iter : forall mrls t, fast_tier iter mrls = Some t -> t = mrls \/ exists pre, iter = pre ++ t.
Proof.
  induction iter as [|b r IH]; intros mrls t H; [discriminate|]. cbn [fast_tier] in H.
  destruct (in_inclusive_range8 b 97 122).
  - destruct (IH mrls t H) as [->|(pre & ->)]; [left; reflexivity|right; exists (b :: pre); reflexivity].
  - destruct (b =? DOT); [|inversion H; left; reflexivity].
    right. destruct (IH r t H) as [->|(pre & ->)]; [exists [b]; reflexivity|exists (b :: pre); reflexivity].
Qed.

(* ---- the bidi pass and the result of process_inner ---- *)
Section Final.
Variable A : adapter.
Variable cfg : bool.

Definition BLP (labels : list (list N)) (he : bool) (r : step (list (list N) * bool)) : Prop :=
  match r with
  | SOk (ls, he') => Forall2 marked labels ls /\ ((efffd labels = true -> he = true) -> he' = he || efffd ls)
  | SExit => False
  | SPanic _ => True
  end.
Lemma bidi_labels_BLP labels : forall he, BLP labels he (bidi_labels A false labels he).
Proof.
  induction labels as [|l r IH]; intros he; cbn [bidi_labels].
  - cbn [BLP]. split; [constructor|]. intros _. cbn [efffd existsb]. rewrite orb_false_r. reflexivity.
  - pose proof (bidi_label_MK A l he) as HM.
    destruct (bidi_label A false l he) as [[l' he1]| |p]; cbn [MK sbind BLP] in *; [|contradiction|exact I].
    pose proof (IH he1) as HI.
    destruct (bidi_labels A false r he1) as [[r' he2x]| |p]; cbn [sbind BLP] in *; [|contradiction|exact I].
    destruct HI as [HI1 HI2]. split; [constructor; [exact (proj1 HM)|exact HI1]|]. intros E. cbn [efffd existsb] in *.
    assert (H1 : he1 = he || fffd l').
    { apply (T_exact _ _ _ _ HM). intros Hf. apply E. apply orb_true_iff; left; exact Hf. }
    rewrite HI2.
    + rewrite H1. rewrite orb_assoc. reflexivity.
    + intros Hf. rewrite H1. rewrite E by (apply orb_true_iff; right; exact Hf). reflexivity.
Qed.

Lemma marked_all_nodot ls ls' : Forall nodot ls -> Forall2 marked ls ls' -> Forall nodot ls'.
Proof.
  intros Hn H. induction H as [|a b ls ls' Hab _ IH]; [constructor|].
  constructor; [exact (marked_nodot _ _ (Forall_inv Hn) Hab)|exact (IH (Forall_inv_tail Hn))].
Qed.
Lemma marked_all_fffd ls ls' : Forall2 marked ls ls' -> efffd ls = true -> efffd ls' = true.
Proof.
  intros H. induction H as [|a b ls ls' Hab _ IH]; [discriminate|]. cbn [efffd existsb]. intros Hf.
  apply orb_true_iff in Hf. destruct Hf as [Hf|Hf]; [rewrite (marked_fffd _ _ Hf Hab); reflexivity|].
  unfold efffd in IH. rewrite (IH Hf). apply orb_true_r.
Qed.
Lemma Forall2_len {X Y} (R : X -> Y -> Prop) a b : Forall2 R a b -> length a = length b.
Proof. induction 1; cbn [length]; [reflexivity|f_equal; assumption]. Qed.

(* what the marking run of process_inner returns *)
Definition FInv (d : list N) (r : inner_res) : Prop :=
  match r with
  | IPanic _ => True
  | IRes ptu bidi he db ap =>
      (ptu = len d /\ he = false) \/
      (ptu < len d /\ exists dbl, dbl <> [] /\ split_on DOT db = dbl /\ Forall nodot dbl /\ he = efffd dbl /\ he = fffd db /\
         length dbl = length ap /\ (bidi = false -> pre_ok dbl ap) /\
         exists P rl, d = P ++ join_dots rl /\ len P = ptu /\ cover ap rl)
  end.

Lemma process_innermost_FInv hy deny d pre tail : d = pre ++ tail ->
  FInv d (process_innermost A cfg false hy deny d tail).
Proof.
  intros Hd. unfold process_innermost.
  set (s0 := {| i_ptu := len d - len tail; i_seen := false; i_inpre := true; i_db := []; i_he := false; i_ap := [] |}).
  assert (H0 : SInv d s0 (split_on DOT tail)).
  { exists pre. unfold s0. cbn [i_db i_ap i_ptu i_inpre i_seen i_he]. split; [rewrite Hd, len_app; lia|].
    repeat split. cbn [tailtext]. rewrite join_split. exact Hd. }
  pose proof (labels_loop_SInv A cfg d hy deny (split_on DOT tail) (split_on_nodot tail) s0 H0) as HL.
  destruct (labels_loop A cfg false hy deny (split_on DOT tail) s0) as [s| |p]; cbn [SPost] in HL; [|contradiction|exact I].
  destruct HL as (P & HP & H). destruct (i_inpre s).
  - destruct H as (Hdb & Hap & Hhe & Hdd). rewrite Hdb. cbn [is_bidi]. cbn [FInv]. left.
    split; [|exact Hhe]. rewrite Hdd, <- HP. destruct (i_seen s); cbn [tailtext]; rewrite app_nil_r; reflexivity.
  - destruct H as (Hseen & Hlt & dbl & done & Hdn & Hdb & Hnd & Hpo & Hhe & Hdd & Hcv).
    rewrite app_nil_r in Hdd.
    destruct (is_bidi A cfg (i_db s)) as [[|]| |p]; try exact I.
    + pose proof (bidi_labels_BLP (split_on DOT (i_db s)) (i_he s)) as HB.
      destruct (bidi_labels A false (split_on DOT (i_db s)) (i_he s)) as [[ls he']| |p]; cbn [BLP] in HB; [|contradiction|exact I].
      rewrite Hdb, (split_join dbl Hdn Hnd) in HB. destruct HB as [HM HE].
      assert (Hls : ls <> []) by (intros ->; inversion HM; subst; congruence).
      pose proof (marked_all_nodot _ _ Hnd HM) as Hnl.
      cbn [FInv]. right. split; [exact Hlt|]. exists ls.
      assert (Hhe' : he' = efffd ls).
      { rewrite HE by (intros Hq; rewrite Hhe; exact Hq). rewrite Hhe.
        destruct (efffd dbl) eqn:Ed; [rewrite (marked_all_fffd _ _ HM Ed); reflexivity|reflexivity]. }
      split; [exact Hls|]. split; [exact (split_join ls Hls Hnl)|]. split; [exact Hnl|]. split; [exact Hhe'|].
      split; [rewrite fffd_join; exact Hhe'|]. split; [rewrite <- (Forall2_len _ _ _ HM); exact (Forall2_len _ _ _ Hpo)|].
      split; [discriminate|]. exists P, done. repeat split; assumption.
    + cbn [FInv]. right. split; [exact Hlt|]. exists dbl.
      split; [exact Hdn|]. split; [rewrite Hdb; exact (split_join dbl Hdn Hnd)|]. split; [exact Hnd|]. split; [exact Hhe|].
      split; [rewrite Hdb, fffd_join; exact Hhe|]. split; [exact (Forall2_len _ _ _ Hpo)|].
      split; [intros _; exact Hpo|]. exists P, done. repeat split; assumption.
Qed.

Theorem process_inner_FInv hy deny d : FInv d (process_inner A cfg false hy deny d).
Proof.
  unfold process_inner. destruct (fast_tier d d) as [tail|] eqn:Ef.
  - destruct (fast_tier_suffix d d tail Ef) as [->|(pre & Hd)].
    + apply (process_innermost_FInv hy deny d [] d). reflexivity.
    + apply (process_innermost_FInv hy deny d pre tail). exact Hd.
  - cbn [FInv]. left. split; reflexivity.
Qed.

(* consequence: the debug assertion of line 789 (had_errors == domain_buffer contains U+FFFD) cannot fire *)
Corollary mark_he_exact hy deny d ptu bd he db ap :
  process_inner A cfg false hy deny d = IRes ptu bd he db ap -> ptu <> len d -> he = existsb is_fffd db.
Proof.
  intros H Hn. pose proof (process_inner_FInv hy deny d) as HF. rewrite H in HF. cbn [FInv] in HF.
  destruct HF as [[E _]|(_ & dbl & _ & _ & _ & _ & Hx & _)]; [contradiction|exact Hx].
Qed.
End Final.
