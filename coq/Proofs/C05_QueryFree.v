(* Proofs/C05_QueryFree.v - the chain of Proofs/C05_Query.v with the weaker predicate `free D_QUERY`
   (no byte-range part) for the stored query: the form a base that only satisfies the component
   clauses (CInv) provides, so that the query clause chains along joins from such a base. *)
From RU Require Import Base.Prelude Base.Utf8 Model.AsciiSet Gen.Tables Model.PercentEncoding
  Model.HostT Model.UrlRecord Model.Parser Model.Setters Proofs.ListN Proofs.C05_Enc Proofs.C05_Parser
  Proofs.C05_Setters Proofs.C05_Frag Proofs.C05_Query Proofs.C05_History Proofs.C05_Sharp Proofs.C05_Comp.

Lemma query_piece_free st xs : free D_QUERY (pe_display (query_set st) xs).
Proof. apply comp_clean_free. apply query_piece_clean. Qed.

Lemma parse_query_loop_cleanF st enc iup l : forall sr pr,
  exists t, fst (parse_query_loop (query_set st) enc iup sr pr l) = sr ++ t /\ free D_QUERY t.
Proof.
  induction l as [|c r IH]; intros sr pr; cbn [parse_query_loop].
  - cbn [fst]. destruct pr; [exists []; rewrite app_nil_r; split; [reflexivity | apply free_nil]|].
    unfold flush_part. eexists; split; [reflexivity | apply query_piece_free].
  - destruct (is_tnl c).
    { destruct (IH (flush_part (query_set st) enc sr pr) []) as [t [Ht Hok]]. rewrite Ht. unfold flush_part.
      rewrite <- app_assoc. eexists; split; [reflexivity|].
      apply free_app; [apply query_piece_free | exact Hok]. }
    destruct ((c =? 35) && iup); [|apply IH].
    cbn [fst]. unfold flush_part. eexists; split; [reflexivity | apply query_piece_free].
Qed.

(* s = X ++ "?" ++ tq ++ rest, query_start = |X|, tq clean, and rest is empty (no fragment) or begins
   at fragment_start *)
Definition query_okF (s : list N) (qs fs : option N) : Prop :=
  match qs with
  | Some q => exists X tq rest, s = X ++ [63] ++ tq ++ rest /\ q = nlen X /\ free D_QUERY tq
              /\ match fs with Some f => f = nlen X + 1 + nlen tq | None => rest = [] end
  | None => True
  end.
Definition query_okuF (u : url) : Prop := query_okF (ser u) (query_start u) (fragment_start u).

Lemma pqf_queryF ovr ctx st se sr l s qs fs :
  parse_query_and_fragment ovr ctx st se sr l = POk (s, qs, fs) -> query_okF s qs fs.
Proof.
  unfold parse_query_and_fragment. intros H.
  destruct (inp_next l) as [[c r]|]; [|inversion H; subst; exact I].
  destruct (c =? 35); [pb H f0 Hf0; inversion H; subst; exact I|].
  destruct (c =? 63); [|discriminate]. pb H q0 Hq0. apply to_u32_eq in Hq0. subst q0.
  unfold parse_query in H.
  destruct (parse_query_loop_cleanF st (query_enc ovr (nfirstn se (sr ++ [63]))) (ctx_eqb ctx CUrlParser) r
              (sr ++ [63]) []) as [tq [Ht Hc]].
  destruct (parse_query_loop (query_set st) (query_enc ovr (nfirstn se (sr ++ [63]))) (ctx_eqb ctx CUrlParser)
              (sr ++ [63]) [] r) as [ser1 rem]. cbn [fst] in Ht. subst ser1.
  destruct rem as [r2|].
  - pb H f0 Hf0. apply to_u32_eq in Hf0. subst f0. inversion H; subst. unfold parse_fragment.
    destruct (parse_fragment_loop_clean r2 (((sr ++ [63]) ++ tq) ++ [35]) []) as [t2 [Ht2 _]]. rewrite Ht2.
    exists sr, tq, ([35] ++ t2). split; [rewrite <- !app_assoc; reflexivity|]. split; [reflexivity|].
    split; [exact Hc|]. rewrite !nlen_app. change (nlen [63]) with 1. lia.
  - inversion H; subst. exists sr, tq, []. split; [rewrite app_nil_r, <- !app_assoc; reflexivity|].
    split; [reflexivity|]. split; [exact Hc | reflexivity].
Qed.

Lemma wqaf_queryF ovr ctx st se ue hs he hi port ps sr rem u :
  with_query_and_fragment ovr ctx st se ue hs he hi port ps sr rem = POk u -> query_okuF u.
Proof.
  unfold with_query_and_fragment. intros H. pb H a Ha. destruct a as [ser1 ps1].
  pb H b Hb. destruct b as [[ser2 qs] fs]. inversion H; subst. unfold query_okuF.
  cbn [ser query_start fragment_start]. eapply pqf_queryF. exact Hb.
Qed.

(* keeping the part of a base before its fragment *)
Lemma before_fragment_queryF b : query_okuF b -> query_okF (b_before_fragment b) (query_start b) None.
Proof.
  unfold query_okuF, query_okF, b_before_fragment. destruct (query_start b) as [q|]; [|trivial].
  intros (X & tq & rest & Hs & Hq & Hc & Hf).
  destruct (fragment_start b) as [f|].
  - exists X, tq, []. split; [|split; [exact Hq | split; [exact Hc | reflexivity]]].
    rewrite Hs, Hf. rewrite app_nil_r. unfold nfirstn, nlen.
    set (L := X ++ [63] ++ tq).
    assert (N.to_nat (N.of_nat (length X) + 1 + N.of_nat (length tq)) = (length L + 0)%nat) as El.
    { unfold L. rewrite !app_length. cbn [length]. lia. }
    rewrite El. replace (X ++ [63] ++ tq ++ rest) with (L ++ rest) by (unfold L; rewrite <- !app_assoc; reflexivity).
    rewrite firstn_app_2. cbn [firstn]. rewrite app_nil_r. reflexivity.
  - subst rest. exists X, tq, []. split; [exact Hs|]. split; [exact Hq|]. split; [exact Hc | reflexivity].
Qed.

Lemma fragment_only_queryF base l u : query_okuF base -> fragment_only base l = POk u -> query_okuF u.
Proof.
  intros Hb H. unfold fragment_only in H. cbv zeta in H. pb H f0 Hf0. apply to_u32_eq in Hf0. subst f0.
  inversion H; subst. unfold query_okuF. cbn [ser query_start fragment_start].
  pose proof (before_fragment_queryF base Hb) as Hq. unfold query_okF in *.
  destruct (query_start base) as [q|]; [|exact I].
  destruct Hq as (X & tq & rest & Hs & Hq & Hc & Hr). subst rest. rewrite app_nil_r in Hs.
  unfold parse_fragment.
  destruct (parse_fragment_loop_clean (match inp_next l with Some (_, r) => r | None => [] end)
              (b_before_fragment base ++ [35]) []) as [t [Ht _]]. rewrite Ht, Hs.
  exists X, tq, ([35] ++ t). split; [rewrite <- !app_assoc; reflexivity|]. split; [exact Hq|]. split; [exact Hc|].
  rewrite !nlen_app. change (nlen [63]) with 1. lia.
Qed.

Section WithHosts.
Variable dbg : bool.
Variable host_parse host_parse_opaque : list N -> result host.
Variable host_display : host -> list N.
Variable ovr : option (list N -> list N).

Lemma after_double_slash_queryF ctx st se sr l u :
  after_double_slash dbg host_parse host_parse_opaque host_display ovr ctx st se sr l = POk u -> query_okuF u.
Proof.
  unfold after_double_slash. cbv zeta. intros H.
  pb H a Ha. destruct a as [[ser1 ue] remaining]. pb H hs Hhs.
  pb H b Hb. destruct b as [[[[ser2 he] hi] port] remaining2].
  destruct (hi_eqb hi HI_None && negb (nlen (sr ++ [47; 47]) =? nlen ser1)); [discriminate|].
  pb H ps Hps. pb H c Hc. destruct c as [[ser3 hh] remaining3]. eapply wqaf_queryF. exact H.
Qed.

Lemma parse_non_special_queryF ctx st se sr l u :
  parse_non_special dbg host_parse host_parse_opaque host_display ovr ctx st se sr l = POk u -> query_okuF u.
Proof.
  unfold parse_non_special. intros H.
  destruct (inp_split_prefix_str s_ss l) as [rem|]; [eapply after_double_slash_queryF; exact H|].
  pb H ps Hps. pb H a Ha. destruct a as [ser1 remaining]. eapply wqaf_queryF. exact H.
Qed.

Lemma parse_relative_queryF ctx st base l u : query_okuF base ->
  parse_relative dbg host_parse host_parse_opaque host_display ovr ctx st base l = POk u -> query_okuF u.
Proof.
  unfold parse_relative. intros Hbase H.
  destruct (inp_split_first l) as [fc iaf].
  destruct fc as [c|]; [|inversion H; subst; exact (before_fragment_queryF base Hbase)].
  destruct (c =? 63).
  { pb H a Ha. destruct a as [[s qs] fs]. inversion H; subst. unfold query_okuF. cbn [ser query_start fragment_start url_with].
    eapply pqf_queryF. exact Ha. }
  destruct (c =? 35); [eapply fragment_only_queryF; eassumption|].
  destruct ((c =? 47) || (c =? 92) && st_is_special st).
  { destruct (inp_count_matching (fun d : N => (d =? 47) || (d =? 92) && st_is_special st) l) as [slashes remaining].
    destruct (2 <=? slashes).
    - cbv zeta in H. pb H u_ Hu.
      destruct (negb (st_is_special st)).
      + destruct (inp_split_prefix_str s_ss l); eapply after_double_slash_queryF; exact H.
      + eapply after_double_slash_queryF; exact H.
    - cbv zeta in H. pb H a Ha. destruct a as [[s hh] rem]. eapply wqaf_queryF. exact H. }
  cbv zeta in H. pb H s1 Hs1. pb H a Ha. destruct a as [[s3 hh] rem]. eapply wqaf_queryF. exact H.
Qed.

Lemma parse_file_queryF ctx st base_file l u :
  match base_file with Some b => query_okuF b | None => True end ->
  parse_file dbg host_parse host_display ovr ctx st base_file l = POk u -> query_okuF u.
Proof.
  unfold parse_file. intros Hbase H.
  destruct (inp_split_first l) as [fc af]. cbv zeta in H.
  destruct (match fc with Some c => is_slash_or_bslash c | None => false end).
  { destruct (inp_split_first af) as [nc an].
    destruct (match nc with Some c => is_slash_or_bslash c | None => false end).
    - pb H a Ha. destruct a as [[[ser1 flag] hi] remaining]. pb H he Hhe.
      pb H b Hb. destruct b as [[ser2 hh] remaining2].
      destruct (negb hh); cbv beta iota zeta in H; pb H c Hc; destruct c as [[ser4 qs] fs];
        inversion H; subst; unfold query_okuF; cbn [ser query_start fragment_start file_url]; eapply pqf_queryF; exact Hc.
    - match type of H with context [if negb (starts_with_wdl_segment af) then ?a else ?b] =>
        destruct (if negb (starts_with_wdl_segment af) then a else b) as [[ser1 he] hi] end.
      pb H a Ha. destruct a as [[ser2 hh] remaining]. pb H c Hc. destruct c as [[ser3 qs] fs].
      inversion H; subst. unfold query_okuF. cbn [ser query_start fragment_start file_url]. eapply pqf_queryF; exact Hc. }
  destruct base_file as [base|].
  2:{ pb H a Ha. destruct a as [[s2 hh] rem]. pb H c Hc. destruct c as [[s3 qs] fs].
      inversion H; subst. unfold query_okuF. cbn [ser query_start fragment_start file_url]. eapply pqf_queryF; exact Hc. }
  destruct fc as [c|]; [|inversion H; subst; exact (before_fragment_queryF base Hbase)].
  destruct (c =? 63).
  { pb H a Ha. destruct a as [[s qs] fs]. inversion H; subst. unfold query_okuF. cbn [ser query_start fragment_start url_with].
    eapply pqf_queryF. exact Ha. }
  destruct (c =? 35); [eapply fragment_only_queryF; eassumption|].
  destruct (negb (starts_with_wdl_segment l)).
  - pb H s1 Hs1. pb H a Ha. destruct a as [[s2 hh] rem]. eapply wqaf_queryF. exact H.
  - pb H a Ha. destruct a as [[s2 hh] rem]. pb H c0 Hc. destruct c0 as [[s3 qs] fs].
    inversion H; subst. unfold query_okuF. cbn [ser query_start fragment_start file_url]. eapply pqf_queryF; exact Hc.
Qed.

Lemma parse_with_scheme_queryF base scheme l u :
  match base with Some b => query_okuF b | None => True end ->
  parse_with_scheme dbg host_parse host_parse_opaque host_display ovr base scheme l = POk u -> query_okuF u.
Proof.
  unfold parse_with_scheme. intros Hbase H. pb H se Hse. cbv zeta in H.
  destruct (scheme_type_of scheme).
  - eapply parse_file_queryF; [|exact H].
    destruct base as [b|]; [|exact I]. destruct (list_eqb (b_scheme b) s_file); [exact Hbase | exact I].
  - destruct (inp_count_matching is_slash_or_bslash l) as [slashes remaining].
    destruct base as [b|]; [|eapply after_double_slash_queryF; exact H].
    destruct ((slashes <? 2) && list_eqb (b_scheme b) scheme); [|eapply after_double_slash_queryF; exact H].
    pb H u_ Hu. eapply parse_relative_queryF; eassumption.
  - eapply parse_non_special_queryF. exact H.
Qed.

Theorem parse_url_queryF base input u :
  match base with Some b => query_okuF b | None => True end ->
  parse_url dbg host_parse host_parse_opaque host_display ovr base input = POk u -> query_okuF u.
Proof.
  unfold parse_url. cbv zeta. intros Hbase H.
  destruct (parse_scheme CUrlParser (input_new_trim_c0 input)) as [[scheme remaining]|].
  - eapply parse_with_scheme_queryF; eassumption.
  - destruct base as [b|]; [|discriminate].
    destruct (inp_starts_with_char 35 (input_new_trim_c0 input)); [eapply fragment_only_queryF; eassumption|].
    destruct (cannot_be_a_base b) as [[|]|]; try discriminate.
    destruct (st_is_file (scheme_type_of (b_scheme b))).
    + eapply (parse_file_queryF _ _ (Some b)); [exact Hbase | exact H].
    + eapply parse_relative_queryF; eassumption.
Qed.

End WithHosts.

(* the accessor returns exactly tq *)
Lemma query_oku_queryF dbg u q : query_okuF u -> query dbg u = Some (Some q) -> free D_QUERY q.
Proof.
  unfold query_okuF, query_okF, query. destruct (query_start u) as [qs|]; [|discriminate].
  intros (X & tq & rest & Hs & Hq & Hc & Hf) H.
  assert (nskipn (nlen X + 1) (X ++ [63] ++ tq ++ rest) = tq ++ rest) as E.
  { unfold nskipn, nlen. replace (N.to_nat (N.of_nat (length X) + 1)) with (length X + 1)%nat by lia.
    rewrite skipn_app. rewrite skipn_all2 by lia. replace (length X + 1 - length X)%nat with 1%nat by lia. reflexivity. }
  destruct (fragment_start u) as [f|].
  - ob H x Hx. unfold u_slice, slice_o in H. rewrite Hs in H.
    destruct ((qs + 1 <=? f) && (f <=? nlen (X ++ [63] ++ tq ++ rest))); cbn [bindo] in H; [|discriminate].
    inversion H; subst q qs f. clear H. cbn [app] in E |- *. rewrite E.
    replace (nlen X + 1 + nlen tq - (nlen X + 1)) with (nlen tq) by lia.
    unfold nfirstn, nlen. rewrite Nat2N.id. rewrite <- (Nat.add_0_r (length tq)), firstn_app_2. cbn [firstn].
    rewrite app_nil_r. exact Hc.
  - ob H x Hx. unfold u_slice_from, slice_from_o in H. rewrite Hs in H.
    destruct (qs + 1 <=? nlen (X ++ [63] ++ tq ++ rest)); cbn [bindo] in H; [|discriminate].
    inversion H; subst q qs rest. clear H. cbn [app] in E |- *. rewrite E, app_nil_r. exact Hc.
Qed.
