(* Proofs/C06_SegPush.v - what PathSegmentsMut::push / extend write, exactly (finding F-C06-7 is FIXED).
   extend() skips a segment when its TAB/LF/CR-free text - the text parse_path will see, its input
   iterator drops TAB / LF / CR - is "." or ".." (Setters.psm_skips).  Before the repair the test was made
   on the raw argument: ".<TAB>." was not skipped, was read as ".." by parse_path and POPPED the last
   segment (F-C06-7).  Now EVERY segment that is not skipped is appended verbatim: '/' (unless the path is
   exactly "/") followed by the percent-encoding of the TAB/LF/CR-free text with the PATH_SEGMENT set of
   the scheme; '%' is in that set, so no "%2e" spelling can come out as a dot segment.
   Scheme types other than file (file adds drive-letter rewriting); file with a path longer than "/" below. *)
From RU Require Import Base.Prelude Base.Utf8 Base.Utf8Facts Model.AsciiSet Gen.Tables Model.PercentEncoding
  Model.HostT Model.UrlRecord Model.Parser Model.Setters Model.WF
  Proofs.C14_Set Proofs.C14_Enc Proofs.C14_Views Proofs.C20_Plain
  Proofs.ListN Proofs.C03_WF Proofs.C06_List Proofs.C06_WFI Proofs.C06_Tail Proofs.C06_Steps Proofs.C06_FragQuery
  Proofs.C06_Suffix Proofs.C06_Front Proofs.C06_PathParser Proofs.C06_Path Proofs.C06_Segments.

(* ---------- the class ---------- *)
Definition strip_tnl (s : list N) : list N := filter not_tnl s.
(* a text that is "." or ".."; the test of extend() is this test on the TAB/LF/CR-free segment *)
Definition seg_skipped (s : list N) : bool := list_eqb s [46] || list_eqb s [46; 46].
Lemma psm_skips_strip seg : psm_skips seg = seg_skipped (strip_tnl seg).
Proof. reflexivity. Qed.

Definition seg_set (st : scheme_type) : aset := path_set CPathSegmentSetter st.
(* the text push writes for a segment *)
Definition seg_text (st : scheme_type) (s : list N) : list N := encode (seg_set st) (utf8_encode (strip_tnl s)).

Lemma seg_set_facts st :
  should_encode (seg_set st) 37 = true /\ should_encode (seg_set st) 46 = false /\ should_encode (seg_set st) 47 = true.
Proof. unfold seg_set, path_set. cbn [ctx_eqb]. destruct (st_is_special st); vm_compute; repeat split; reflexivity. Qed.

Lemma strip_tnl_usv s : usv_list s -> usv_list (strip_tnl s).
Proof.
  unfold usv_list, strip_tnl. rewrite !Forall_forall. intros H x Hx. apply H. apply filter_In in Hx. tauto.
Qed.

Lemma strip_tnl_app a b : strip_tnl (a ++ b) = strip_tnl a ++ strip_tnl b.
Proof. apply filter_app. Qed.

(* ---------- inversion of the per-byte encoder ---------- *)
Section EncInv.
Variable S : aset.
Hypothesis H37 : should_encode S 37 = true.
Hypothesis H46 : should_encode S 46 = false.

Lemma encode_nil_inv bs : encode S bs = [] -> bs = [].
Proof.
  destruct bs as [|b r]; [reflexivity|]. rewrite encode_cons. unfold enc1, enc_byte_spec.
  destruct (should_encode S b); discriminate.
Qed.

Lemma encode_46_inv bs rest : encode S bs = 46 :: rest -> exists r, bs = 46 :: r /\ encode S r = rest.
Proof.
  destruct bs as [|b r]; [discriminate|]. rewrite encode_cons. unfold enc1, enc_byte_spec.
  destruct (should_encode S b); cbn [app]; intros H; inversion H. exists r. split; reflexivity.
Qed.

Lemma encode_37_inv bs x y rest : encode S bs = 37 :: x :: y :: rest ->
  exists b r, bs = b :: r /\ should_encode S b = true /\ x = hex_upper (b / 16) /\ y = hex_upper (b mod 16)
              /\ encode S r = rest.
Proof.
  destruct bs as [|b r]; [discriminate|]. rewrite encode_cons. unfold enc1, enc_byte_spec.
  destruct (should_encode S b) eqn:E; cbn [app]; intros H; inversion H.
  - exists b, r. repeat split; try reflexivity. exact E.
  - subst b. congruence.
Qed.

Lemma hex2e_sweep : all_below 256 (fun b =>
  negb ((hex_upper (b / 16) =? 50) && ((hex_upper (b mod 16) =? 69) || (hex_upper (b mod 16) =? 101))) || (b =? 46)) = true.
Proof. vm_compute. reflexivity. Qed.

Lemma hex2e b e : b < 256 -> hex_upper (b / 16) = 50 -> hex_upper (b mod 16) = e -> (e = 69 \/ e = 101) -> b = 46.
Proof.
  intros Hb H1 H2 He. pose proof (all_below_spec 256 _ hex2e_sweep b Hb) as Hs. cbv beta in Hs.
  rewrite H1, H2 in Hs. destruct He; subst e; cbn in Hs; lia.
Qed.

(* an escape "%2e" / "%2E" never comes out of the encoder: '.' is not in the set, '%' is *)
Lemma encode_no_pct2e bs e rest : bytes bs -> (e = 69 \/ e = 101) -> encode S bs = 37 :: 50 :: e :: rest -> False.
Proof.
  intros Hb He H. destruct (encode_37_inv _ _ _ _ H) as (b & r & -> & Eb & E1 & E2 & _).
  inversion Hb as [|? ? Hb1 _]; subst. unfold is_byte in Hb1.
  assert (b = 46) as -> by (eapply hex2e; eauto). congruence.
Qed.

Lemma encode_single_dot bs : bytes bs -> is_single_dot (encode S bs) = true -> bs = [46].
Proof.
  intros Hb H. apply is_single_dot_inv2 in H. destruct H as [H|(e & He & H)].
  - apply encode_46_inv in H. destruct H as (r & -> & Hr). apply encode_nil_inv in Hr. subst r. reflexivity.
  - exfalso. eapply encode_no_pct2e; eassumption.
Qed.

Lemma encode_double_dot bs : bytes bs -> is_double_dot (encode S bs) = true -> bs = [46; 46].
Proof.
  intros Hb H. apply is_double_dot_inv2 in H. destruct H as [H|(e & rest & He & [H|H])].
  - apply encode_46_inv in H. destruct H as (r & -> & Hr). apply encode_46_inv in Hr. destruct Hr as (r2 & -> & Hr2).
    apply encode_nil_inv in Hr2. subst r2. reflexivity.
  - exfalso. eapply encode_no_pct2e; eassumption.
  - exfalso. apply encode_46_inv in H. destruct H as (r & -> & Hr). inversion Hb; subst.
    eapply (encode_no_pct2e r); eassumption.
Qed.
End EncInv.

(* UTF-8 encoding is injective on scalar values *)
Lemma utf8_encode_inj a b : usv_list a -> usv_list b -> utf8_encode a = utf8_encode b -> a = b.
Proof. intros Ha Hb H. rewrite <- (utf8_lossy_encode a Ha), <- (utf8_lossy_encode b Hb). rewrite H. reflexivity. Qed.

Lemma seg_text_not_dots st seg : usv_list seg -> seg_skipped (strip_tnl seg) = false ->
  is_double_dot (seg_text st seg) = false /\ is_single_dot (seg_text st seg) = false.
Proof.
  intros Hu Hk. destruct (seg_set_facts st) as (F37 & F46 & _). pose proof (strip_tnl_usv seg Hu) as Hs.
  pose proof (utf8_encode_bytes _ Hs) as Hb. unfold seg_text, seg_skipped in *.
  apply orb_false_iff in Hk. destruct Hk as [K1 K2]. split.
  - destruct (is_double_dot _) eqn:E; [|reflexivity]. exfalso.
    apply (encode_double_dot _ F37 F46 _ Hb) in E.
    assert (strip_tnl seg = [46; 46]) as E2.
    { apply utf8_encode_inj; [exact Hs | repeat constructor; unfold is_usv; lia | rewrite E; reflexivity]. }
    rewrite E2 in K2. discriminate.
  - destruct (is_single_dot _) eqn:E; [|reflexivity]. exfalso.
    apply (encode_single_dot _ F37 F46 _ Hb) in E.
    assert (strip_tnl seg = [46]) as E2.
    { apply utf8_encode_inj; [exact Hs | repeat constructor; unfold is_usv; lia | rewrite E; reflexivity]. }
    rewrite E2 in K1. discriminate.
Qed.

(* ---------- parse_path in the PathSegmentSetter context, scheme type other than file ---------- *)
Lemma push_pending_enc st ser pend : usv_list (rev pend) ->
  push_pending CPathSegmentSetter st ser pend = ser ++ encode (seg_set st) (utf8_encode (rev pend)).
Proof.
  intros H. unfold push_pending. destruct pend as [|c p].
  - cbn. rewrite app_nil_r. reflexivity.
  - unfold push_encoded. fold (seg_set st). rewrite pe_display_is_encode by (apply utf8_encode_bytes; exact H). reflexivity.
Qed.

Lemma ppl_seg dbg st ps : st_is_file st = false -> forall l ser ss pend hh, usv_list (rev pend ++ l) ->
  parse_path_loop dbg CPathSegmentSetter st ps l ser ss pend hh
  = (' (s2, hh') <~ finish_segment dbg st ps (ser ++ encode (seg_set st) (utf8_encode (rev pend ++ strip_tnl l))) ss false hh ;;
     POk (s2, hh', [])).
Proof.
  intros Hf. induction l as [|c r IH]; intros ser ss pend hh Hu.
  - cbn [parse_path_loop strip_tnl filter]. rewrite app_nil_r in *. rewrite push_pending_enc by exact Hu.
    destruct (finish_segment dbg st ps _ ss false hh) as [[s2 hh']| |]; cbn [pbind]; try reflexivity.
    unfold file_path_fixup. rewrite Hf. reflexivity.
  - apply usv_list_app in Hu. destruct Hu as [Hu1 Hu2]. inversion Hu2 as [|? ? Hc Hr]; subst.
    cbn [parse_path_loop]. unfold strip_tnl. cbn [filter]. fold (strip_tnl r). unfold not_tnl at 1.
    destruct (is_tnl c) eqn:Et; cbn [negb].
    + rewrite (IH _ ss [] hh) by exact Hr. cbn [rev app]. rewrite push_pending_enc by exact Hu1.
      rewrite <- app_assoc. rewrite <- encode_app, <- utf8_encode_app. reflexivity.
    + cbn [ctx_eqb negb andb]. rewrite andb_false_r. rewrite Hf. cbn [andb].
      rewrite (IH ser ss (c :: pend) hh).
      * cbn [rev]. rewrite <- app_assoc. reflexivity.
      * cbn [rev]. rewrite <- app_assoc. apply usv_list_app. split; [exact Hu1 | constructor; assumption].
Qed.

Lemma finish_plain dbg st ps ser E hh : st_is_file st = false -> is_double_dot E = false -> is_single_dot E = false ->
  finish_segment dbg st ps (ser ++ E) (nlen ser) false hh = POk (ser ++ E, hh).
Proof.
  intros Hf Hd Hs. unfold finish_segment.
  rewrite slice_o_some by (rewrite nlen_app; lia). cbn [of_option pbind].
  rewrite nskipn_app_exact. rewrite nfirstn_all by (rewrite nlen_app; lia).
  rewrite Hd, Hs, Hf. reflexivity.
Qed.

(* one segment outside the class: appended verbatim *)
Theorem parse_path_segment_exact dbg st ps x seg : st_is_file st = false -> usv_list seg ->
  seg_skipped (strip_tnl seg) = false ->
  parse_path dbg CPathSegmentSetter st true ps x seg = POk (x ++ seg_text st seg, true, []).
Proof.
  intros Hf Hu Hk. unfold parse_path. rewrite (ppl_seg dbg st ps Hf seg x (nlen x) [] true) by exact Hu.
  cbn [rev app]. fold (seg_text st seg). destruct (seg_text_not_dots st seg Hu Hk) as [Hd Hs].
  rewrite (finish_plain dbg st ps x _ true Hf Hd Hs). reflexivity.
Qed.

(* ---------- the editor operations on the path text ---------- *)
Definition push_text (st : scheme_type) (P seg : list N) : list N :=
  if seg_skipped (strip_tnl seg) then P
  else (if (1 <? nlen P) || (nlen P =? 0) then P ++ [47] else P) ++ seg_text st seg.
Definition extend_text (st : scheme_type) (P : list N) (segs : list (list N)) : list N := fold_left (push_text st) segs P.
Definition clear_text (P : list N) : list N := nfirstn 1 P.
Definition pop_if_empty_text (P : list N) : list N :=
  if nlen P <=? 1 then P else if ends_with_byte 47 (nskipn 1 P) then nfirstn (nlen P - 1) P else P.
Definition pop_text (P : list N) : list N :=
  if nlen P <=? 1 then P
  else nfirstn (1 + match rfind 47 (nskipn 1 P) with Some i => i | None => 0 end) P.
Definition op_text (st : scheme_type) (P : list N) (o : psm_op) : list N :=
  match o with
  | PClear => clear_text P
  | PPopIfEmpty => pop_if_empty_text P
  | PPop => pop_text P
  | PPush s => push_text st P s
  | PExtend ss => extend_text st P ss
  end.
Definition session_text (st : scheme_type) (P : list N) (ops : list psm_op) : list N := fold_left (op_text st) ops P.

Section Exact.
Variables (dbg : bool) (st : scheme_type) (s0 : list N) (ps : N).
Hypothesis Hps : nlen s0 = ps.
Hypothesis Hf : st_is_file st = false.

Lemma extend_loop_exact segs : forall P, Forall usv_list segs ->
  psm_extend_loop dbg st ps (s0 ++ P) segs = Some (s0 ++ extend_text st P segs).
Proof.
  induction segs as [|seg rest IH]; intros P Hu; cbn [psm_extend_loop extend_text fold_left]; [reflexivity|].
  pose proof (Forall_inv Hu) as Hu1. pose proof (Forall_inv_tail Hu) as Hu2.
  unfold push_text at 2. rewrite psm_skips_strip. destruct (seg_skipped (strip_tnl seg)) eqn:Hk1.
  - apply IH; assumption.
  - replace ((ps + 1 <? nlen (s0 ++ P)) || (nlen (s0 ++ P) =? ps)) with ((1 <? nlen P) || (nlen P =? 0))
      by (rewrite nlen_app, Hps; lia).
    replace (if (1 <? nlen P) || (nlen P =? 0) then (s0 ++ P) ++ [47] else s0 ++ P)
      with (s0 ++ (if (1 <? nlen P) || (nlen P =? 0) then P ++ [47] else P))
      by (destruct ((1 <? nlen P) || (nlen P =? 0)); [rewrite app_assoc|]; reflexivity).
    rewrite (parse_path_segment_exact dbg st ps _ seg Hf Hu1 Hk1). cbn [unpres bindo].
    rewrite <- app_assoc. apply IH; assumption.
Qed.

Variables (u : url) (ap : list N) (op : N).
Hypothesis Hpsu : path_start u = ps.
Hypothesis Hst : forall P, u_scheme_type (set_ser u (s0 ++ P)) = Some st.

Definition psm_at (P : list N) : psm := mkPsm (set_ser u (s0 ++ P)) (ps + 1) ap op.

Lemma set_ser_set_ser (v : url) a b : set_ser (set_ser v a) b = set_ser v b.
Proof. reflexivity. Qed.

Lemma psm_with_at P x : psm_with (psm_at P) (s0 ++ x) = psm_at x.
Proof. reflexivity. Qed.

Lemma apply_exact o P : psm_op_usv o -> psm_apply dbg (psm_at P) o = Some (psm_at (op_text st P o)).
Proof.
  intros Hu. destruct o; cbn [psm_apply op_text].
  - f_equal. unfold psm_clear. cbn [psm_at psm_url ser set_ser after_first_slash]. unfold truncate.
    rewrite nfirstn_app_ge by lia. replace (ps + 1 - nlen s0) with 1 by lia. apply psm_with_at.
  - f_equal. unfold psm_pop_if_empty, pop_if_empty_text. cbn [psm_at psm_url ser set_ser after_first_slash].
    replace (nlen (s0 ++ P) <=? ps + 1) with (nlen P <=? 1) by (rewrite nlen_app; lia).
    destruct (nlen P <=? 1) eqn:E1; [reflexivity|].
    rewrite nskipn_app_ge by lia. replace (ps + 1 - nlen s0) with 1 by lia.
    destruct (ends_with_byte 47 (nskipn 1 P)); [|reflexivity].
    rewrite nfirstn_app_ge by (rewrite nlen_app; lia). replace (nlen (s0 ++ P) - 1 - nlen s0) with (nlen P - 1) by (rewrite nlen_app; lia).
    apply psm_with_at.
  - f_equal. unfold psm_pop, pop_text. cbn [psm_at psm_url ser set_ser after_first_slash].
    replace (nlen (s0 ++ P) <=? ps + 1) with (nlen P <=? 1) by (rewrite nlen_app; lia).
    destruct (nlen P <=? 1) eqn:E1; [reflexivity|].
    rewrite nskipn_app_ge by lia. replace (ps + 1 - nlen s0) with 1 by lia. unfold truncate.
    set (k := match rfind 47 (nskipn 1 P) with Some i => i | None => 0 end).
    rewrite nfirstn_app_ge by lia. replace (ps + 1 + k - nlen s0) with (1 + k) by lia. apply psm_with_at.
  - unfold psm_push, psm_extend. cbn [psm_at psm_url]. rewrite Hst. cbn [bindo path_start set_ser ser]. rewrite Hpsu.
    rewrite extend_loop_exact by (constructor; [assumption | constructor]). cbn [bindo]. reflexivity.
  - unfold psm_extend. cbn [psm_at psm_url]. rewrite Hst. cbn [bindo path_start set_ser ser]. rewrite Hpsu.
    rewrite extend_loop_exact by assumption. cbn [bindo]. reflexivity.
Qed.

Lemma run_exact ops : forall P, Forall psm_op_usv ops ->
  psm_run dbg (psm_at P) ops = Some (psm_at (session_text st P ops)).
Proof.
  induction ops as [|o rest IH]; intros P Hu; cbn [psm_run session_text fold_left]; [reflexivity|].
  rewrite apply_exact by (eapply Forall_inv; eassumption). cbn [bindo].
  apply IH; eapply Forall_inv_tail; eassumption.
Qed.
End Exact.

(* ---------- a whole session, exactly ---------- *)
Definition path_bytes (u : url) : list N := nfirstn (path_end u - path_start u) (nskipn (path_start u) (ser u)).
Definition st_of (u : url) : scheme_type := scheme_type_of (nfirstn (scheme_end u) (ser u)).

Theorem path_segments_session_exact dbg u ops u' : wf_b u = true ->
  byte_eqb (ser u) (scheme_end u + 1) 47 = true -> st_is_file (st_of u) = false ->
  Forall psm_op_usv ops -> path_segments_session dbg u ops = Some (u', SOk) ->
  u' = with_path u (session_text (st_of u) (path_bytes u) ops).
Proof.
  intros W Hsl Hnf Hops H.
  destruct (wf_ps_le_path_end u W) as [B5 B6]. pose proof (wf_se_lt_ps u W) as B0.
  destruct (wf_scheme_facts u W) as (Hse & Hc & Hlt).
  set (pe := path_end u) in *. set (ps := path_start u) in *. set (st := st_of u) in *.
  set (s0 := nfirstn ps (ser u)).
  assert (nlen s0 = ps) as Ls0 by (apply nlen_nfirstn; lia).
  set (x0 := nfirstn pe (ser u)).
  assert (nlen x0 = pe) as Lx0 by (apply nlen_nfirstn; exact B6).
  assert (x0 = s0 ++ path_bytes u) as Ex0.
  { unfold x0, s0, path_bytes. fold ps pe. rewrite <- (nskipn_0 (ser u)) at 1 2.
    replace (nfirstn pe (nskipn 0 (ser u))) with (nfirstn (pe - 0) (nskipn 0 (ser u))) by (f_equal; lia).
    replace (nfirstn ps (nskipn 0 (ser u))) with (nfirstn (ps - 0) (nskipn 0 (ser u))) by (f_equal; lia).
    symmetry. apply piece_app; lia. }
  assert (forall P, u_scheme_type (set_ser u (s0 ++ P)) = Some st) as Hst.
  { intros P. unfold u_scheme_type, scheme, u_slice_to. cbn [ser set_ser scheme_end].
    rewrite slice_to_o_some by (rewrite nlen_app; lia). cbn [bindo].
    rewrite nfirstn_app_le by lia. unfold s0. rewrite nfirstn_nfirstn by lia. reflexivity. }
  unfold path_segments_session, path_segments_mut in H.
  rewrite (cannot_be_a_base_eval u W) in H. cbn [bindo] in H.
  rewrite Hsl in H. cbn [negb] in H.
  unfold psm_new in H. rewrite (take_after_path_eval u W) in H. cbn [bindo] in H. fold pe x0 in H.
  rewrite Ex0 in H. rewrite Hst in H. cbn [bindo] in H.
  match type of H with bindo (bindo (bindo ?c _) _) _ = _ => destruct c as [[]|]; cbn [bindo] in H; [|discriminate] end.
  cbn [ser set_ser path_start] in H. fold ps in H.
  replace (nlen (s0 ++ path_bytes u)) with pe in H by (rewrite <- Ex0; symmetry; exact Lx0).
  change (mkPsm (set_ser u (s0 ++ path_bytes u)) (ps + 1) (nskipn pe (ser u)) pe)
    with (psm_at s0 ps u (nskipn pe (ser u)) pe (path_bytes u)) in H.
  rewrite (run_exact dbg st s0 ps Ls0 Hnf u (nskipn pe (ser u)) pe eq_refl Hst ops (path_bytes u) Hops) in H.
  cbn [bindo] in H.
  set (P := session_text st (path_bytes u) ops) in *.
  unfold psm_close, psm_at in H. cbn [psm_url psm_old_pos psm_after_path] in H.
  unfold restore_after_path in H. cbn [ser set_ser query_start fragment_start] in H.
  assert (match query_start u with Some i => pe <= i | None => True end) as Gq.
  { unfold pe, path_end. destruct (query_start u); [lia | exact I]. }
  assert (match fragment_start u with Some i => pe <= i | None => True end) as Gf.
  { pose proof (wf_qf_facts u W) as QF. pose proof (qf_qf QF) as Q3. pose proof (qf_f QF) as Q2. unfold pe, path_end.
    destruct (query_start u), (fragment_start u); try exact I; lia. }
  rewrite !adjust_opt_ok in H by assumption. cbn [bindo] in H.
  inversion H. unfold with_path. fold pe ps s0. rewrite nlen_app, Ls0. rewrite <- app_assoc. reflexivity.
Qed.

(* ---------- why the skip test must be made on the TAB/LF/CR-free text: parse_path does NOT append a segment
   whose TAB/LF/CR-free text is "." or ".." (this is what went wrong in F-C06-7 before the repair) ---------- *)
Lemma nlen_nfirstn_le_len n l : nlen (nfirstn n l) <= nlen l.
Proof. unfold nlen, nfirstn. rewrite firstn_length. lia. Qed.

Lemma pop_path_len st ps s s' : pop_path st ps s = POk s' -> nlen s' <= nlen s.
Proof.
  unfold pop_path. destruct (ps <? nlen s); [|intros H; inversion H; lia].
  destruct (rfind 47 (nskipn ps s)) as [sp|]; [|discriminate].
  destruct (st_is_file st && is_normalized_wdl (nskipn (ps + sp + 1) s)); intros H; inversion H; [lia|].
  unfold truncate. apply nlen_nfirstn_le_len.
Qed.

Lemma shorten_path_len st ps s s' : shorten_path st ps s = POk s' -> nlen s' <= nlen s.
Proof.
  unfold shorten_path. destruct (nlen s =? ps); [intros H; inversion H; lia|].
  destruct (st_is_file st && is_normalized_wdl (nskipn ps s)); [intros H; inversion H; lia|]. apply pop_path_len.
Qed.

Lemma finish_double_dot_len dbg st ps x hh s' hh' :
  finish_segment dbg st ps (x ++ [46; 46]) (nlen x) false hh = POk (s', hh') -> nlen s' <= nlen x.
Proof.
  unfold finish_segment. rewrite slice_o_some by (rewrite nlen_app; lia). cbn [of_option pbind].
  rewrite nskipn_app_exact. rewrite nfirstn_all by (rewrite nlen_app; lia).
  change (is_double_dot [46; 46]) with true. cbv iota.
  match goal with |- pbind ?c _ = _ -> _ => destruct c as [[]| |]; cbn [pbind]; try discriminate end.
  unfold truncate. rewrite nfirstn_app_exact. cbn [andb].
  match goal with |- pbind (shorten_path st ps ?s2) _ = _ -> _ =>
    assert (nlen s2 <= nlen x) as L2
      by (destruct (ends_with_byte 47 x && last_slash_can_be_removed x ps); [apply nlen_nfirstn_le_len | lia]);
    destruct (shorten_path st ps s2) as [s3| |] eqn:Es; cbn [pbind]; try discriminate end.
  apply shorten_path_len in Es. intros H. inversion H; subst. lia.
Qed.

Lemma finish_single_dot dbg st ps x hh :
  finish_segment dbg st ps (x ++ [46]) (nlen x) false hh = POk (if ends_with_byte 47 x then x else x ++ [47], hh).
Proof.
  unfold finish_segment. rewrite slice_o_some by (rewrite nlen_app; lia). cbn [of_option pbind].
  rewrite nskipn_app_exact. rewrite nfirstn_all by (rewrite nlen_app; lia).
  change (is_double_dot [46]) with false. change (is_single_dot [46]) with true. cbv iota.
  unfold truncate. rewrite nfirstn_app_exact. reflexivity.
Qed.

Lemma seg_text_dot st seg : strip_tnl seg = [46] -> seg_text st seg = [46].
Proof.
  intros E. unfold seg_text. rewrite E. destruct (seg_set_facts st) as (_ & F46 & _).
  change (utf8_encode [46]) with [46]. rewrite encode_cons. unfold enc1. rewrite F46. reflexivity.
Qed.
Lemma seg_text_dotdot st seg : strip_tnl seg = [46; 46] -> seg_text st seg = [46; 46].
Proof.
  intros E. unfold seg_text. rewrite E. destruct (seg_set_facts st) as (_ & F46 & _).
  change (utf8_encode [46; 46]) with [46; 46]. rewrite !encode_cons. unfold enc1. rewrite F46. reflexivity.
Qed.

Theorem parse_path_segment_class dbg st ps x seg s' hh rem : st_is_file st = false -> usv_list seg ->
  seg_skipped (strip_tnl seg) = true ->
  parse_path dbg CPathSegmentSetter st true ps x seg = POk (s', hh, rem) -> s' <> x ++ seg_text st seg.
Proof.
  intros Hf Hu Hk H. unfold parse_path in H. rewrite (ppl_seg dbg st ps Hf seg x (nlen x) [] true) in H by exact Hu.
  cbn [rev app] in H. fold (seg_text st seg) in H.
  unfold seg_skipped in Hk. apply orb_true_iff in Hk. destruct Hk as [Hk|Hk]; apply list_eqb_spec in Hk.
  - rewrite (seg_text_dot st seg Hk) in *. rewrite finish_single_dot in H. cbn [pbind] in H. inversion H; subst.
    destruct (ends_with_byte 47 x); intros E.
    + apply (f_equal nlen) in E. rewrite nlen_app in E. cbn in E. lia.
    + apply app_inv_head in E. discriminate.
  - rewrite (seg_text_dotdot st seg Hk) in *.
    destruct (finish_segment dbg st ps (x ++ [46; 46]) (nlen x) false true) as [[s2 hh2]| |] eqn:Ef; cbn [pbind] in H; try discriminate.
    apply finish_double_dot_len in Ef. inversion H; subst. intros E.
    apply (f_equal nlen) in E. rewrite nlen_app in E. cbn in E. lia.
Qed.

(* push(seg), EVERY &str segment: push_text, exactly (the former class F-C06-7 is empty) *)
Theorem push_exact dbg st s0 ps P seg s' : nlen s0 = ps -> st_is_file st = false -> usv_list seg ->
  psm_extend_loop dbg st ps (s0 ++ P) [seg] = Some s' -> s' = s0 ++ push_text st P seg.
Proof.
  intros Hps Hf Hu H. rewrite (extend_loop_exact dbg st s0 ps Hps Hf [seg] P) in H by (repeat constructor; assumption).
  inversion H. reflexivity.
Qed.

(* a segment is skipped - the path text is left alone - exactly when the parser would read it as a dot segment *)
Lemma push_text_skipped st P seg : seg_skipped (strip_tnl seg) = true -> push_text st P seg = P.
Proof. intros H. unfold push_text. rewrite H. reflexivity. Qed.

(* the old path is kept as a prefix by push / extend outside the class: no existing segment is touched *)
Lemma push_text_prefix st P seg : exists t, push_text st P seg = P ++ t.
Proof.
  unfold push_text. destruct (seg_skipped (strip_tnl seg)); [exists []; rewrite app_nil_r; reflexivity|].
  destruct ((1 <? nlen P) || (nlen P =? 0)); [rewrite <- app_assoc|]; eexists; reflexivity.
Qed.
Lemma extend_text_prefix st segs : forall P, exists t, extend_text st P segs = P ++ t.
Proof.
  induction segs as [|seg rest IH]; intros P; cbn [extend_text fold_left]; [exists []; rewrite app_nil_r; reflexivity|].
  destruct (push_text_prefix st P seg) as (t1 & ->). destruct (IH (P ++ t1)) as (t2 & E). unfold extend_text in E. rewrite E.
  rewrite <- app_assoc. eexists. reflexivity.
Qed.

(* ---------- witnesses ---------- *)
(* http://h/a/b *)
Definition w7_url : url := mkUrl [104;116;116;112;58;47;47;104;47;97;47;98] 4 7 7 8 HI_Domain None 8 None None.

(* the regression of F-C06-7: push(".<TAB>.") and push(".<LF>") are skipped like push("..") and push(".")
   (before the repair the first POPPED the segment "b" and the second appended an empty segment);
   the "%2e" spellings are appended with the '%' escaped *)
Lemma c06_7_fixed_witness :
  wf_b w7_url = true /\ psm_skips [46; 9; 46] = true /\ psm_skips [46; 10] = true /\ psm_skips [13; 46; 9; 46; 10] = true
  /\ psm_skips [46; 46] = true /\ psm_skips [46] = true /\ psm_skips [37; 50; 101; 9; 46] = false
  /\ psm_skips [46; 9; 46; 46] = false /\ psm_skips [9] = false
  /\ (forall dbg, path_segments_session dbg w7_url [PPush [46; 9; 46]] = Some (w7_url, SOk))
  /\ (forall dbg, path_segments_session dbg w7_url [PPush [46; 46]] = Some (w7_url, SOk))
  /\ (forall dbg, path_segments_session dbg w7_url [PPush [46; 10]] = Some (w7_url, SOk))
  /\ (forall dbg, path_segments_session dbg w7_url [PPush [46]] = Some (w7_url, SOk))
  /\ (forall dbg, path_segments_session dbg w7_url [PExtend [[46; 9; 46]; [120]; [10; 46]]]
                  = Some (with_path w7_url [47;97;47;98;47;120], SOk))
  /\ (forall dbg, path_segments_session dbg w7_url [PPush [37; 50; 101; 9; 46]]
                  = Some (with_path w7_url [47;97;47;98;47;37;50;53;50;101;46], SOk))
  /\ push_text (st_of w7_url) (path_bytes w7_url) [46; 9; 46] = path_bytes w7_url
  /\ path w7_url = Some [47; 97; 47; 98].
Proof.
  repeat split; try (vm_compute; reflexivity); try (intros []; vm_compute; reflexivity).
Qed.

(* the hypotheses of path_segments_session_exact are met by a non-trivial session *)
Example session_exact_example :
  wf_b w7_url = true /\ byte_eqb (ser w7_url) (scheme_end w7_url + 1) 47 = true /\ st_is_file (st_of w7_url) = false
  /\ Forall psm_op_usv [PPush [120; 9; 121]; PExtend [[46; 46]; [99; 47; 37]; []]; PPop; PPush [233]]
  /\ path_segments_session true w7_url [PPush [120; 9; 121]; PExtend [[46; 46]; [99; 47; 37]; []]; PPop; PPush [233]]
     = Some (with_path w7_url [47;97;47;98;47;120;121;47;99;37;50;70;37;50;53;47;37;67;51;37;65;57], SOk)
  /\ session_text (st_of w7_url) (path_bytes w7_url) [PPush [120; 9; 121]; PExtend [[46; 46]; [99; 47; 37]; []]; PPop; PPush [233]]
     = [47;97;47;98;47;120;121;47;99;37;50;70;37;50;53;47;37;67;51;37;65;57].
Proof.
  split; [vm_compute; reflexivity|]. split; [vm_compute; reflexivity|]. split; [vm_compute; reflexivity|].
  split; [repeat constructor; unfold is_usv; lia|].
  split; vm_compute; reflexivity.
Qed.

Lemma path_text_is_path u : wf_b u = true -> path u = Some (path_bytes u).
Proof. intros W. rewrite (path_eval u W). reflexivity. Qed.

(* ---------- the file scheme, path longer than "/" ---------- *)
(* On a file URL parse_path also (1) inserts a '/' behind a normalized drive letter that is the whole path so far,
   (2) rewrites a drive-letter first segment "C|" to "C:", (3) collapses leading slashes of the path.  None of them
   can happen when the path before the push is longer than one byte and does not start with "//" (true of every parsed
   file URL): then push is exact for every segment.  On the root path "/" the drive-letter quirks
   apply (file:/// push("C|") gives file:///C:, push("C:<TAB>x") gives file:///C:/x): not covered. *)
Definition file_path_inv (P : list N) : Prop := exists c r, P = 47 :: c :: r /\ c <> 47.

Lemma nwdl_shape l : is_normalized_wdl l = true -> exists a, l = [a; 58].
Proof.
  unfold is_normalized_wdl, is_wdl. intros H. apply andb_true_iff in H. destruct H as [H1 H2].
  apply andb_true_iff in H1. destruct H1 as [H1 _]. destruct l as [|a [|b [|c r]]]; try discriminate H1.
  apply N.eqb_eq in H2. subst b. exists a. reflexivity.
Qed.

Lemma no_nwdl_behind s0 ps P chunk : nlen s0 = ps -> 1 < nlen P ->
  is_normalized_wdl (nskipn (ps + 1) ((s0 ++ P ++ [47]) ++ chunk)) = false.
Proof.
  intros Hps HP. destruct (is_normalized_wdl _) eqn:E; [|reflexivity]. exfalso.
  apply nwdl_shape in E. destruct E as [a E].
  rewrite <- !app_assoc in E. rewrite nskipn_app_ge in E by lia. replace (ps + 1 - nlen s0) with 1 in E by lia.
  rewrite nskipn_app_le in E by lia.
  destruct P as [|p0 [|p1 P']]; try (cbn in HP; lia).
  change (nskipn 1 (p0 :: p1 :: P')) with (p1 :: P') in E. cbn [app] in E.
  inversion E as [[E1 E2]]. destruct P' as [|p2 P'']; cbn [app] in E2.
  - inversion E2.
  - inversion E2 as [[E3 E4]]. destruct P''; cbn [app] in E4; discriminate E4.
Qed.

Lemma ppl_seg_file dbg ps l : forall ser ss pend hh, usv_list (rev pend ++ l) ->
  (forall chunk, is_normalized_wdl (nskipn (ps + 1) (ser ++ chunk)) = false) ->
  parse_path_loop dbg CPathSegmentSetter STFile ps l ser ss pend hh
  = (' (s2, hh') <~ finish_segment dbg STFile ps (ser ++ encode (seg_set STFile) (utf8_encode (rev pend ++ strip_tnl l))) ss false hh ;;
     POk (file_path_fixup STFile ps s2, hh', [])).
Proof.
  induction l as [|c r IH]; intros ser ss pend hh Hu Hn.
  - cbn [parse_path_loop strip_tnl filter]. rewrite app_nil_r in *. rewrite push_pending_enc by exact Hu. reflexivity.
  - apply usv_list_app in Hu. destruct Hu as [Hu1 Hu2]. inversion Hu2 as [|? ? Hc Hr]; subst.
    cbn [parse_path_loop]. unfold strip_tnl. cbn [filter]. fold (strip_tnl r). unfold not_tnl at 1.
    destruct (is_tnl c) eqn:Et; cbn [negb].
    + rewrite (IH _ ss [] hh) by (try exact Hr; intros chunk; rewrite push_pending_enc by exact Hu1; rewrite <- app_assoc; apply Hn).
      cbn [rev app]. rewrite push_pending_enc by exact Hu1.
      rewrite <- app_assoc. rewrite <- encode_app, <- utf8_encode_app. reflexivity.
    + cbn [ctx_eqb negb andb]. rewrite andb_false_r.
      pose proof (Hn []) as Hn0. rewrite app_nil_r in Hn0. rewrite Hn0. rewrite andb_false_r.
      rewrite (IH ser ss (c :: pend) hh).
      * cbn [rev]. rewrite <- app_assoc. reflexivity.
      * cbn [rev]. rewrite <- app_assoc. apply usv_list_app. split; [exact Hu1 | constructor; assumption].
      * exact Hn.
Qed.

Lemma fixup_id_file s0 ps c r : nlen s0 = ps -> c <> 47 -> file_path_fixup STFile ps (s0 ++ 47 :: c :: r) = s0 ++ 47 :: c :: r.
Proof.
  intros Hps Hc. unfold file_path_fixup. cbn [st_is_file]. rewrite <- Hps. rewrite nfirstn_app_exact, nskipn_app_exact.
  cbn [drop_while is_slash]. change (is_slash 47) with true. cbv iota. unfold is_slash.
  replace (c =? 47) with false by (symmetry; apply N.eqb_neq; exact Hc). reflexivity.
Qed.

Theorem parse_path_segment_exact_file dbg ps s0 P seg : nlen s0 = ps -> 1 < nlen P -> file_path_inv P ->
  usv_list seg -> seg_skipped (strip_tnl seg) = false ->
  parse_path dbg CPathSegmentSetter STFile true ps (s0 ++ P ++ [47]) seg
  = POk ((s0 ++ P ++ [47]) ++ seg_text STFile seg, true, []).
Proof.
  intros Hps HP (c & r & EP & Hc) Hu Hk. unfold parse_path.
  assert (forall chunk, is_normalized_wdl (nskipn (ps + 1) ((s0 ++ P ++ [47]) ++ chunk)) = false) as Hn
    by (intros chunk; apply no_nwdl_behind; assumption).
  set (x := s0 ++ P ++ [47]) in *.
  rewrite (ppl_seg_file dbg ps seg x (nlen x) [] true Hu Hn).
  cbn [rev app]. fold (seg_text STFile seg). destruct (seg_text_not_dots STFile seg Hu Hk) as [Hd Hs].
  assert (finish_segment dbg STFile ps (x ++ seg_text STFile seg) (nlen x) false true = POk (x ++ seg_text STFile seg, true)) as Ef.
  { unfold finish_segment. rewrite slice_o_some by (rewrite nlen_app; lia). cbn [of_option pbind].
    rewrite nskipn_app_exact. rewrite nfirstn_all by (rewrite nlen_app; lia). rewrite Hd, Hs.
    replace (nlen x =? ps + 1) with false; [rewrite andb_false_r; reflexivity|].
    symmetry. apply N.eqb_neq. unfold x. rewrite !nlen_app. change (nlen [47]) with 1. lia. }
  rewrite Ef. cbn [pbind]. unfold x. rewrite EP. rewrite <- !app_assoc. cbn [app]. rewrite (fixup_id_file s0 ps c _ Hps Hc). reflexivity.
Qed.

Lemma fixup_len st ps s : nlen (file_path_fixup st ps s) <= nlen s + 1.
Proof.
  unfold file_path_fixup. destruct (st_is_file st); [|lia]. rewrite !nlen_app. change (nlen [47]) with 1.
  assert (nlen (drop_while is_slash (nskipn ps s)) <= nlen (nskipn ps s)) as L.
  { generalize (nskipn ps s). intros l. induction l as [|d t IH]; [cbn; lia|]. cbn [drop_while].
    destruct (is_slash d); [rewrite nlen_cons; lia | lia]. }
  rewrite nlen_nskipn in L. pose proof (nlen_nfirstn_le ps s). pose proof (nlen_nfirstn_le_len ps s).
  destruct (N.le_gt_cases ps (nlen s)); [rewrite nlen_nfirstn by lia; lia | lia].
Qed.

(* on a file URL whose path is longer than "/" and not "//"-led: push_text, exactly, for every &str segment *)
Theorem push_exact_file dbg s0 ps P seg s' : nlen s0 = ps -> 1 < nlen P -> file_path_inv P -> usv_list seg ->
  psm_extend_loop dbg STFile ps (s0 ++ P) [seg] = Some s' -> s' = s0 ++ push_text STFile P seg.
Proof.
  intros Hps HP Hinv Hu H. cbn [psm_extend_loop] in H. rewrite psm_skips_strip in H.
  unfold push_text. destruct (seg_skipped (strip_tnl seg)) eqn:Ek.
  - inversion H; subst. reflexivity.
  - replace ((ps + 1 <? nlen (s0 ++ P)) || (nlen (s0 ++ P) =? ps)) with true in H
      by (rewrite nlen_app, Hps; symmetry; apply orb_true_iff; left; apply N.ltb_lt; lia).
    replace ((1 <? nlen P) || (nlen P =? 0)) with true by (symmetry; apply orb_true_iff; left; apply N.ltb_lt; lia).
    rewrite <- app_assoc in H.
    rewrite (parse_path_segment_exact_file dbg ps s0 P seg Hps HP Hinv Hu Ek) in H. cbn [unpres bindo] in H.
    injection H as H1. subst s'. rewrite <- !app_assoc. reflexivity.
Qed.
