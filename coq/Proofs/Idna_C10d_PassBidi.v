(* Proofs/Idna_C10d_PassBidi.v - the premise PassBidi of C10_case_statement2 (the bidi rule accepts every pass-through
   label) follows from three facts about the bidi classes of the characters a pass-through label can contain - exactly
   what the `adapter` stream of the harness samples on the real idna_adapter as ok_pass_bidi (for every ASCII character):
     a-z : can start an LTR label (FIRST_BC_MASK, is_ltr), can end one (LAST_LTR_MASK), can be inside (MIDDLE_LTR_MASK), not NSM;
     0-9 : can end and be inside an LTR label, not NSM;      '-' : can be inside an LTR label, not NSM. *)
From RU Require Import Base.Prelude Base.Utf8 Base.U32_c13 Gen.Tables Model.Punycode Model.Uts46
  Proofs.Idna_Sim Proofs.Idna_Api Proofs.Idna_Known Proofs.Idna_Hyp Proofs.Idna_C10_Deny Proofs.Idna_C10_Inner
  Proofs.Idna_C10b_AsciiInner Proofs.Idna_C10b_Stmt Proofs.Idna_C10c_Example.

Definition PassBits (A : adapter) : Prop :=
  (forall c, 97 <= c -> c <= 122 ->
     bc_first (bidi_class A c) = true /\ bc_ltr (bidi_class A c) = true /\ bc_last_ltr (bidi_class A c) = true /\
     bc_mid_ltr (bidi_class A c) = true /\ bc_nsm (bidi_class A c) = false) /\
  (forall c, 48 <= c -> c <= 57 ->
     bc_last_ltr (bidi_class A c) = true /\ bc_mid_ltr (bidi_class A c) = true /\ bc_nsm (bidi_class A c) = false) /\
  (bc_mid_ltr (bidi_class A 45) = true /\ bc_nsm (bidi_class A 45) = false).

Definition pch (c : N) : Prop := (97 <= c /\ c <= 122) \/ (48 <= c /\ c <= 57) \/ c = 45.

Lemma last_opt_rev x (r : list N) : last_opt (rev (x :: r)) = Some x.
Proof.
  cbn [rev]. generalize (rev r). intros l. induction l as [|y l IH]; [reflexivity|].
  cbn [app]. destruct (l ++ [x]) as [|n l0] eqn:E; [destruct l; discriminate|]. exact IH.
Qed.

Theorem pass_bidi_of_bits A : PassBits A -> PassBidi A.
Proof.
  intros (HA & HD & HH1 & HH2) label he Hb Hp. unfold is_passthrough_ascii_label in Hp.
  destruct ((4 <=? len label) && (nth 2 label 0 =? HYPHEN) && (nth 3 label 0 =? HYPHEN)); [discriminate|].
  destruct label as [|first tail]; [reflexivity|].
  inversion Hb as [|? ? Hf Ht]; subst. unfold is_byte in Hf.
  destruct (in_inclusive_range8 first 97 122) eqn:E1; [|discriminate]. cbn [negb] in Hp.
  destruct (forallb (fun b => in_inclusive_range8 b 97 122 || in_inclusive_range8 b 48 57 || (b =? HYPHEN)) tail) eqn:E2; [|discriminate].
  cbn [negb] in Hp. apply negb_true_iff in Hp.
  destruct (range8_spec first 97 122 Hf ltac:(lia) ltac:(lia) E1) as [F1 F2].
  destruct (HA first F1 F2) as (B1 & B2 & B3 & B4 & B5).
  assert (Hpc : Forall pch tail).
  { apply Forall_forall. intros x Hx. rewrite forallb_forall in E2. specialize (E2 x Hx).
    unfold bytes in Ht. rewrite Forall_forall in Ht. specialize (Ht x Hx). unfold is_byte in Ht.
    apply orb_true_iff in E2. destruct E2 as [E2|E2]; [apply orb_true_iff in E2; destruct E2 as [E2|E2]|].
    - left. exact (range8_spec x 97 122 Ht ltac:(lia) ltac:(lia) E2).
    - right; left. exact (range8_spec x 48 57 Ht ltac:(lia) ltac:(lia) E2).
    - right; right. unfold HYPHEN in E2. lia. }
  assert (Hmid : forall x, pch x -> bc_mid_ltr (bidi_class A x) = true /\ bc_nsm (bidi_class A x) = false).
  { intros x [[X1 X2]|[[X1 X2]| ->]].
    - destruct (HA x X1 X2) as (_ & _ & _ & M & Nn). split; assumption.
    - destruct (HD x X1 X2) as (_ & M & Nn). split; assumption.
    - split; assumption. }
  unfold bidi_label. rewrite B1. cbn [negb]. rewrite B2. unfold trim_nsm.
  destruct (rev tail) as [|lst rprior] eqn:Er.
  { cbn [trim_nsm_rev]. reflexivity. }
  assert (Etail : tail = rev rprior ++ [lst]) by (rewrite <- (rev_involutive tail), Er; reflexivity).
  assert (Hl : pch lst) by (rewrite Forall_forall in Hpc; apply Hpc; rewrite Etail; apply in_or_app; right; left; reflexivity).
  cbn [trim_nsm_rev]. rewrite (proj2 (Hmid lst Hl)).
  assert (Hlast : last_opt (first :: tail) = Some lst).
  { rewrite Etail. change (rev rprior ++ [lst]) with (rev (lst :: rprior)).
    pose proof (last_opt_rev lst rprior) as E. destruct (rev (lst :: rprior)) eqn:E3; [discriminate|]. exact E. }
  rewrite Hlast in Hp.
  assert (Hll : bc_last_ltr (bidi_class A lst) = true).
  { destruct Hl as [[X1 X2]|[[X1 X2]| ->]]; [exact (proj1 (proj2 (proj2 (HA lst X1 X2))))|exact (proj1 (HD lst X1 X2))|].
    unfold HYPHEN in Hp. discriminate. }
  rewrite Hll. cbn [negb sbind]. rewrite scan_mark_ff.
  replace (existsb (fun c => negb (bc_mid_ltr (bidi_class A c))) (rev rprior)) with false.
  - cbn [sbind]. rewrite Etail. reflexivity.
  - symmetry. apply not_true_iff_false. intros Hx. apply existsb_exists in Hx. destruct Hx as (x & Hin & Hx).
    assert (Hpx : pch x) by (rewrite Forall_forall in Hpc; apply Hpc; rewrite Etail; apply in_or_app; left; exact Hin).
    rewrite (proj1 (Hmid x Hpx)) in Hx. discriminate.
Qed.

(* the small adapters of the development have these classes *)
Lemma toy_bc_bits : PassBits lowsan.
Proof.
  unfold PassBits. cbn [lowsan bidi_class]. split; [|split].
  - intros c H1 H2. unfold toy_bc. replace (c =? 1488) with false by lia.
    replace ((48 <=? c) && (c <=? 57)) with false by lia. replace ((97 <=? c) && (c <=? 122)) with true by lia.
    repeat split; reflexivity.
  - intros c H1 H2. unfold toy_bc. replace (c =? 1488) with false by lia.
    replace ((48 <=? c) && (c <=? 57)) with true by lia. repeat split; reflexivity.
  - split; reflexivity.
Qed.
Lemma lowsan_pass_bidi : PassBidi lowsan.
Proof. exact (pass_bidi_of_bits lowsan toy_bc_bits). Qed.

(* "A.B<u-umlaut>cher" and "a.b<u-umlaut>CHER": in the second the label "a" is passed through, in the first it is processed *)
Definition W_case3 : list N := [97; 46; 98; 195; 188; 67; 72; 69; 82].
Lemma w_case3 :
  ascii_case_variant W_idem3 W_case3 /\
  to_ascii lowsan true W_idem3 DENY_URL HCheck DVerify = Ok (false, W_idem3_A) /\
  to_ascii lowsan true W_case3 DENY_URL HCheck DVerify = Ok (false, W_idem3_A).
Proof. vm_compute. repeat split; reflexivity. Qed.
