(* Proofs/C06_AuthEnd.v - auth_end_ok (the premise of C06_frame_path: for a special non-file scheme the text in
   front of the path does not end in '/') for every record Parser::parse_url returns for an input that
   carries a scheme other than "file", parsed without a base: the four canonical classes of C02
   (special with authority, non-special with authority, '/'-led path without authority, opaque path). *)
From RU Require Import Base.Prelude Base.Utf8 Model.AsciiSet Gen.Tables Model.PercentEncoding
  Model.HostT Model.UrlRecord Model.Parser Model.Setters Model.WF
  Proofs.ListN Proofs.C06_List Proofs.C02_Parts Proofs.C02_Opaque Proofs.C02_Path Proofs.C02_PathL1 Proofs.C02_Reach
  Proofs.C02_AuthParts Proofs.C02_Auth Proofs.C02_AuthWf Proofs.C02_PathSp Proofs.C02_AuthSp Proofs.C02_AuthMain
  Proofs.C06_Path.

Lemma auth_end_nonspecial u sch : nfirstn (scheme_end u) (ser u) = sch -> scheme_type_of sch = STNotSpecial -> auth_end_ok u.
Proof. intros E Hs. unfold auth_end_ok. rewrite E, Hs. cbn. discriminate. Qed.

Theorem parse_nonfile_auth_end dbg hp hpo hd input u :
  HostRT hp hpo hd -> host_above hp hpo hd -> usv_list input -> nonfile_input input = true ->
  parse_url dbg hp hpo hd None None input = POk u -> auth_end_ok u.
Proof.
  intros HRT HAb Hu Hc Hp. unfold nonfile_input in Hc.
  destruct (parse_scheme CUrlParser (input_new_trim_c0 input)) as [[sch rem]|] eqn:Hs; [|discriminate].
  destruct (scheme_type_of sch) eqn:Hst; [discriminate| |].
  - (* special non-file *)
    assert (special_input input = true) as Hsi by (unfold special_input; rewrite Hs, Hst; reflexivity).
    destruct (L1_special dbg hp hpo hd HRT input u HAb Hu Hsi Hp) as ((sch' & ui & h & pt & p & q & f & K & _ & ->) & _).
    unfold auth_end_ok. intros _ _. unfold auth_url. cbn [ser path_start]. unfold auth_ser, auth_pre.
    rewrite <- app_assoc. rewrite nfirstn_app_exact.
    eapply front_not_slash. exact (ak_h _ _ _ _ _ _ _ _ _ _ _ K).
  - destruct (inp_split_prefix_char 47 rem) as [rem'|] eqn:E47.
    + destruct (inp_split_prefix_str s_ss rem) as [rem''|] eqn:Ess.
      * assert (auth_input input = true) as Hai by (unfold auth_input; rewrite Hs, Hst, Ess; reflexivity).
        destruct (L1_auth dbg hp hpo hd HRT None input u HAb Hu Hai Hp) as ((sch' & ui & h & pt & p & q & f & K & ->) & _).
        apply (auth_end_nonspecial _ sch'); [|exact (ak_st _ _ _ _ _ _ _ _ _ _ _ K)].
        unfold auth_url. cbn [ser scheme_end]. unfold auth_ser, auth_pre. rewrite <- app_assoc. apply front_sch.
      * destruct (parse_noauth_out dbg hp hpo hd None input sch rem rem' u Hu Hs Hst Ess E47 Hp) as (segs & last & q & f & K & ->).
        apply (auth_end_nonspecial _ sch); [|exact Hst].
        unfold noauth_url. cbn [ser scheme_end]. unfold noauth_ser, noauth_pre. rewrite <- !app_assoc. apply nfirstn_app_exact.
    + destruct (parse_opaque_out dbg hp hpo hd None input sch rem u Hu Hs Hst E47 Hp) as (P & q & f & K & ->).
      apply (auth_end_nonspecial _ sch); [|exact Hst].
      unfold opaque_url. cbn [ser scheme_end]. unfold opaque_ser, opaque_pre. rewrite <- !app_assoc. apply nfirstn_app_exact.
Qed.
