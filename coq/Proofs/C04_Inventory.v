(* Proofs/C04_Inventory.v - the tie of C04 to the SHAPE of the source tree.
   The translator (tools/tables_c04.py) regenerates, on every run, the list of all public functions
   of the five crates, of all unsafe / *_unchecked sites and of all panic-macro sites.  The lists
   below are the ones that were audited when C04 was built (every entry of modelled_api has a row in
   the harness table of harness/src/bin/c04.rs; every entry of audited_unsafe_sites has a C04_utf8_*
   theorem or statement in Properties/C04.v).  The theorems say the regenerated lists EQUAL the
   audited ones, so a new public function, a new unsafe site or a new panic macro in /repo breaks a
   theorem (the tie fails closed) until it has been looked at and added here. *)
From Coq Require Import String Ascii.
From RU Require Import Base.Prelude Gen.Tables.

Fixpoint bytes_of_string (s : string) : list N :=
  match s with
  | EmptyString => []
  | String a r => N_of_ascii a :: bytes_of_string r
  end.

Local Open Scope string_scope.

(* (crate, qualified name), source order *)
Definition modelled_api : list (string * string) := [
  ("url", "ParseOptions::base_url");
  ("url", "ParseOptions::encoding_override");
  ("url", "ParseOptions::syntax_violation_callback");
  ("url", "ParseOptions::parse");
  ("url", "Url::parse");
  ("url", "Url::parse_with_params");
  ("url", "Url::join");
  ("url", "Url::make_relative");
  ("url", "Url::options");
  ("url", "Url::as_str");
  ("url", "Url::into_string");
  ("url", "Url::check_invariants");
  ("url", "Url::origin");
  ("url", "Url::scheme");
  ("url", "Url::is_special");
  ("url", "Url::has_authority");
  ("url", "Url::authority");
  ("url", "Url::cannot_be_a_base");
  ("url", "Url::username");
  ("url", "Url::password");
  ("url", "Url::has_host");
  ("url", "Url::host_str");
  ("url", "Url::host");
  ("url", "Url::domain");
  ("url", "Url::port");
  ("url", "Url::port_or_known_default");
  ("url", "Url::socket_addrs");
  ("url", "Url::path");
  ("url", "Url::path_segments");
  ("url", "Url::query");
  ("url", "Url::query_pairs");
  ("url", "Url::fragment");
  ("url", "Url::set_fragment");
  ("url", "Url::set_query");
  ("url", "Url::query_pairs_mut");
  ("url", "Url::set_path");
  ("url", "Url::path_segments_mut");
  ("url", "Url::set_port");
  ("url", "Url::set_host");
  ("url", "Url::set_ip_host");
  ("url", "Url::set_password");
  ("url", "Url::set_username");
  ("url", "Url::set_scheme");
  ("url", "Url::from_file_path");
  ("url", "Url::from_directory_path");
  ("url", "Url::serialize_internal");
  ("url", "Url::deserialize_internal");
  ("url", "Url::to_file_path");
  ("url", "Host::to_owned");
  ("url", "Host::parse");
  ("url", "Host::parse_opaque");
  ("url", "origin::url_origin");
  ("url", "Origin::new_opaque");
  ("url", "Origin::is_tuple");
  ("url", "Origin::ascii_serialization");
  ("url", "Origin::unicode_serialization");
  ("url", "SyntaxViolation::description");
  ("url", "SchemeType::is_special");
  ("url", "SchemeType::is_file");
  ("url", "parser::default_port");
  ("url", "Input::new_no_trim");
  ("url", "Input::new_trim_tab_and_newlines");
  ("url", "Input::new_trim_c0_control_and_space");
  ("url", "Input::is_empty");
  ("url", "Input::split_prefix");
  ("url", "Parser::for_setter");
  ("url", "Parser::parse_url");
  ("url", "Parser::parse_scheme");
  ("url", "Parser::parse_host");
  ("url", "Parser::file_host");
  ("url", "Parser::parse_port");
  ("url", "Parser::parse_path_start");
  ("url", "Parser::parse_path");
  ("url", "Parser::parse_cannot_be_a_base_path");
  ("url", "Parser::parse_query");
  ("url", "Parser::parse_fragment");
  ("url", "parser::ascii_alpha");
  ("url", "parser::to_u32");
  ("url", "parser::is_windows_drive_letter");
  ("url", "path_segments::new");
  ("url", "PathSegmentsMut::clear");
  ("url", "PathSegmentsMut::pop_if_empty");
  ("url", "PathSegmentsMut::pop");
  ("url", "PathSegmentsMut::push");
  ("url", "PathSegmentsMut::extend");
  ("url", "quirks::internal_components");
  ("url", "quirks::domain_to_ascii");
  ("url", "quirks::domain_to_unicode");
  ("url", "quirks::href");
  ("url", "quirks::set_href");
  ("url", "quirks::origin");
  ("url", "quirks::protocol");
  ("url", "quirks::set_protocol");
  ("url", "quirks::username");
  ("url", "quirks::set_username");
  ("url", "quirks::password");
  ("url", "quirks::set_password");
  ("url", "quirks::host");
  ("url", "quirks::set_host");
  ("url", "quirks::hostname");
  ("url", "quirks::set_hostname");
  ("url", "quirks::port");
  ("url", "quirks::set_port");
  ("url", "quirks::pathname");
  ("url", "quirks::set_pathname");
  ("url", "quirks::search");
  ("url", "quirks::set_search");
  ("url", "quirks::hash");
  ("url", "quirks::set_hash");
  ("idna", "domain_to_ascii_cow");
  ("idna", "domain_to_ascii");
  ("idna", "domain_to_ascii_strict");
  ("idna", "domain_to_unicode");
  ("idna", "Idna::new");
  ("idna", "Idna::to_ascii");
  ("idna", "Idna::to_unicode");
  ("idna", "Config::use_std3_ascii_rules");
  ("idna", "Config::transitional_processing");
  ("idna", "Config::verify_dns_length");
  ("idna", "Config::check_hyphens");
  ("idna", "Config::use_idna_2008_rules");
  ("idna", "Config::to_ascii");
  ("idna", "Config::to_unicode");
  ("idna", "punycode::decode_to_string");
  ("idna", "punycode::decode");
  ("idna", "punycode::encode_str");
  ("idna", "punycode::encode");
  ("idna", "AsciiDenyList::new");
  ("idna", "uts46::verify_dns_length");
  ("idna", "Uts46::new");
  ("idna", "Uts46::to_ascii");
  ("idna", "Uts46::to_unicode");
  ("idna", "Uts46::to_user_interface");
  ("idna", "Uts46::process");
  ("percent_encoding", "percent_encode_byte");
  ("percent_encoding", "percent_encode");
  ("percent_encoding", "utf8_percent_encode");
  ("percent_encoding", "percent_decode_str");
  ("percent_encoding", "percent_decode");
  ("percent_encoding", "PercentDecode::decode_utf8");
  ("percent_encoding", "PercentDecode::decode_utf8_lossy");
  ("percent_encoding", "AsciiSet::add");
  ("percent_encoding", "AsciiSet::remove");
  ("percent_encoding", "AsciiSet::union");
  ("percent_encoding", "AsciiSet::complement");
  ("form_urlencoded", "parse");
  ("form_urlencoded", "Parse::into_owned");
  ("form_urlencoded", "byte_serialize");
  ("form_urlencoded", "Serializer::new");
  ("form_urlencoded", "Serializer::for_suffix");
  ("form_urlencoded", "Serializer::clear");
  ("form_urlencoded", "Serializer::encoding_override");
  ("form_urlencoded", "Serializer::append_pair");
  ("form_urlencoded", "Serializer::append_key_only");
  ("form_urlencoded", "Serializer::extend_pairs");
  ("form_urlencoded", "Serializer::extend_keys_only");
  ("form_urlencoded", "Serializer::finish");
  ("data_url", "DataUrl::process");
  ("data_url", "DataUrl::mime_type");
  ("data_url", "DataUrl::decode");
  ("data_url", "DataUrl::decode_to_vec");
  ("data_url", "FragmentIdentifier::to_percent_encoded");
  ("data_url", "forgiving_base64::decode_to_vec");
  ("data_url", "Decoder::new");
  ("data_url", "Decoder::feed");
  ("data_url", "Decoder::finish");
  ("data_url", "Mime::get_parameter")
].

(* (file, enclosing fn, what) *)
Definition audited_unsafe_sites : list (string * string * string) := [
  ("url/src/parser.rs", "fast_u16_to_str", "unsafe:from_utf8_unchecked");
  ("idna/src/uts46.rs", "Uts46::to_ascii", "unsafe:from_utf8_unchecked");
  ("idna/src/uts46.rs", "Uts46::to_user_interface", "unsafe:from_utf8_unchecked");
  ("idna/src/uts46.rs", "Uts46::process", "unsafe:from_utf8_unchecked");
  ("idna/src/uts46.rs", "Uts46::process", "unsafe:from_utf8_unchecked");
  ("idna/src/uts46.rs", "Uts46::process", "unsafe:from_utf8_unchecked");
  ("idna/src/uts46.rs", "Uts46::process", "unsafe:from_utf8_unchecked");
  ("idna/src/uts46.rs", "Uts46::process", "unsafe:from_utf8_unchecked");
  ("idna/src/uts46.rs", "Uts46::process", "unsafe:from_utf8_unchecked");
  ("idna/src/uts46.rs", "Uts46::process", "unsafe:from_utf8_unchecked");
  ("idna/src/uts46.rs", "Uts46::process", "unsafe:from_utf8_unchecked");
  ("idna/src/uts46.rs", "Uts46::process", "unsafe:from_utf8_unchecked");
  ("idna/src/uts46.rs", "Uts46::process", "unsafe:from_utf8_unchecked");
  ("idna/src/uts46.rs", "Uts46::process", "unsafe:from_utf8_unchecked");
  ("idna/src/uts46.rs", "Uts46::process", "unsafe:from_utf8_unchecked");
  ("idna/src/uts46.rs", "Uts46::process", "unsafe:from_utf8_unchecked");
  ("percent_encoding/src/lib.rs", "percent_encode_byte", "unsafe:from_utf8_unchecked");
  ("percent_encoding/src/lib.rs", "PercentEncode::next", "unsafe:from_utf8_unchecked");
  ("percent_encoding/src/lib.rs", "PercentEncode::next", "unsafe:from_utf8_unchecked");
  ("percent_encoding/src/lib.rs", "decode_utf8_lossy", "unsafe:from_utf8_unchecked");
  ("form_urlencoded/src/lib.rs", "ByteSerialize::next", "unsafe:from_utf8_unchecked");
  ("form_urlencoded/src/lib.rs", "decode_utf8_lossy", "unsafe:from_utf8_unchecked")
].

(* (file, enclosing fn, macro, number of occurrences) *)
Definition audited_panic_sites : list (string * string * string * N) := [
  ("url/src/lib.rs", "Url::check_invariants", "assert!", 13%N);
  ("url/src/lib.rs", "Url::check_invariants", "assert_eq!", 29%N);
  ("url/src/lib.rs", "Url::has_authority", "debug_assert!", 1%N);
  ("url/src/lib.rs", "Url::password", "debug_assert!", 1%N);
  ("url/src/lib.rs", "Url::query", "debug_assert!", 2%N);
  ("url/src/lib.rs", "Url::fragment", "debug_assert!", 1%N);
  ("url/src/lib.rs", "Url::set_fragment", "debug_assert!", 1%N);
  ("url/src/lib.rs", "Url::take_fragment", "debug_assert!", 1%N);
  ("url/src/lib.rs", "Url::restore_already_parsed_fragment", "assert!", 1%N);
  ("url/src/lib.rs", "Url::set_query", "debug_assert!", 1%N);
  ("url/src/lib.rs", "Url::query_pairs_mut", "debug_assert!", 1%N);
  ("url/src/lib.rs", "Url::set_host", "debug_assert!", 2%N);
  ("url/src/lib.rs", "Url::set_host_internal", "debug_assert!", 2%N);
  ("url/src/lib.rs", "Url::set_password", "debug_assert!", 1%N);
  ("url/src/lib.rs", "Url::set_username", "debug_assert!", 1%N);
  ("url/src/lib.rs", "file_url_segments_to_pathbuf", "debug_assert!", 1%N);
  ("url/src/lib.rs", "file_url_segments_to_pathbuf_windows", "debug_assert!", 2%N);
  ("url/src/parser.rs", "Parser::parse_scheme", "debug_assert!", 1%N);
  ("url/src/parser.rs", "Parser::parse_with_scheme", "debug_assert!", 1%N);
  ("url/src/parser.rs", "Parser::parse_file", "debug_assert!", 1%N);
  ("url/src/parser.rs", "Parser::parse_relative", "debug_assert!", 2%N);
  ("url/src/parser.rs", "Parser::parse_path", "debug_assert!", 1%N);
  ("url/src/parser.rs", "Parser::with_query_and_fragment", "assert!", 2%N);
  ("url/src/parser.rs", "Parser::with_query_and_fragment", "assert_eq!", 1%N);
  ("url/src/parser.rs", "Parser::parse_query_and_fragment", "panic!", 1%N);
  ("url/src/parser.rs", "Parser::fragment_only", "debug_assert!", 2%N);
  ("url/src/path_segments.rs", "new", "debug_assert!", 2%N);
  ("url/src/slicing.rs", "Url::index", "debug_assert!", 7%N);
  ("idna/src/deprecated.rs", "Idna::to_ascii", "unreachable!", 1%N);
  ("idna/src/deprecated.rs", "Idna::to_unicode", "unreachable!", 1%N);
  ("idna/src/deprecated.rs", "Config::use_idna_2008_rules", "assert!", 1%N);
  ("idna/src/punycode.rs", "char::is_ascii", "debug_assert!", 1%N);
  ("idna/src/punycode.rs", "char::char", "debug_assert!", 1%N);
  ("idna/src/punycode.rs", "value_to_digit", "panic!", 1%N);
  ("idna/src/uts46.rs", "AsciiDenyList::new", "assert!", 6%N);
  ("idna/src/uts46.rs", "ProcessingError::from", "unreachable!", 1%N);
  ("idna/src/uts46.rs", "verify_dns_length", "debug_assert!", 1%N);
  ("idna/src/uts46.rs", "Uts46::to_ascii", "unreachable!", 1%N);
  ("idna/src/uts46.rs", "Uts46::to_user_interface", "unreachable!", 1%N);
  ("idna/src/uts46.rs", "Uts46::process", "debug_assert!", 5%N);
  ("idna/src/uts46.rs", "Uts46::process", "debug_assert_eq!", 3%N);
  ("idna/src/uts46.rs", "Uts46::process", "debug_assert_ne!", 4%N);
  ("idna/src/uts46.rs", "Uts46::process_innermost", "debug_assert_eq!", 2%N);
  ("idna/src/uts46.rs", "Uts46::process_innermost", "unreachable!", 1%N);
  ("idna/src/uts46.rs", "Uts46::check_label", "debug_assert_eq!", 1%N);
  ("idna/src/uts46.rs", "Uts46::check_label", "debug_assert!", 1%N);
  ("idna/src/uts46.rs", "Uts46::is_bidi", "debug_assert_ne!", 1%N);
  ("percent_encoding/src/lib.rs", "decode_utf8_lossy", "debug_assert!", 1%N);
  ("form_urlencoded/src/lib.rs", "Serializer::for_suffix", "panic!", 1%N);
  ("form_urlencoded/src/lib.rs", "decode_utf8_lossy", "debug_assert!", 1%N)
].

Local Close Scope string_scope.

Definition api_bytes : list (list N * list N) :=
  map (fun p => (bytes_of_string (fst p), bytes_of_string (snd p))) modelled_api.
Definition unsafe_bytes : list (list N * list N * list N) :=
  map (fun p => (bytes_of_string (fst (fst p)), bytes_of_string (snd (fst p)), bytes_of_string (snd p)))
      audited_unsafe_sites.
Definition panic_bytes : list (list N * list N * list N * N) :=
  map (fun p => (bytes_of_string (fst (fst (fst p))), bytes_of_string (snd (fst (fst p))),
                 bytes_of_string (snd (fst p)), snd p)) audited_panic_sites.

Lemma inventory_api : T_C04_API = api_bytes.
Proof. vm_compute. reflexivity. Qed.

Lemma inventory_unsafe : T_C04_UNSAFE = unsafe_bytes.
Proof. vm_compute. reflexivity. Qed.

Lemma inventory_panics : T_C04_PANICS = panic_bytes.
Proof. vm_compute. reflexivity. Qed.

Lemma inventory_sizes :
  length modelled_api = 167%nat /\ length audited_unsafe_sites = 22%nat /\ length audited_panic_sites = 50%nat.
Proof. vm_compute. repeat split. Qed.
