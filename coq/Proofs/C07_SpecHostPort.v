(* Proofs/C07_SpecHostPort.v - the Standard's host attribute setter on values WITH a port part, in closed form:
   when the scan of the host state stops at a ':' outside brackets, the run with the state override "host state"
   parses the buffer as the host (empty buffer or host-parser failure: nothing changes), sets it, and continues in
   the port state with the text after the ':' - whose outcome with a state override is port_outcome of
   Proofs/C07_SpecRun.v on the leading digits: no digit or a number above 65535 = failure AFTER the host has been
   changed (the port stays), otherwise the port is set (null for the default port of the scheme).
   With Proofs/C07_SpecHost2.v (no port part) this is the host setter on every value: spec_host_closed. *)
From RU Require Import Base.Prelude Base.Utf8 Spec.Whatwg Spec.WhatwgFuel Proofs.C01_EqRun Proofs.C01_EqAuthSpec
  Proofs.C07_SpecRun Proofs.C07_SpecProto Proofs.C07_SpecHost Proofs.C07_SpecHost2.

(* the text after the ':' at which the scan of the host state stops *)
Fixpoint hrest (sp br : bool) (t : list N) : list N :=
  match t with
  | [] => []
  | c :: r => if (c =? 58) && negb br then r
              else if h_end sp c then []
              else hrest sp (br_next br c) r
  end.

Section HostPortOutcome.
Variable hp : bool -> list N -> option spec_host.

(* what the host state leaves when it has stopped at a ':' outside brackets with this buffer and this rest *)
Definition host_port_decide (u : spec_url) (buf rest : list N) : spec_url :=
  if is_nil buf then u
  else match host_parsing hp (negb (is_special u)) buf with
       | None => u
       | Some h => let u1 := set_host u (Some h) in outcome_url (port_outcome u1 (take_digits rest)) u1
       end.

Variable input : list N.
Notation runO := (run hp input None (Some StHost)).

Lemma after_port_outcome u ds : after_override (port_outcome u ds) = SetTo (outcome_url (port_outcome u ds) u).
Proof.
  unfold port_outcome. destruct ds as [|d r]; [reflexivity|].
  destruct (65535 <? decimal_value (d :: r)); reflexivity.
Qed.

Theorem run_host_ov_colon : forall t pre fuel buf a br pw u,
  input = pre ++ t -> (length t < fuel)%nat -> list_eqb (su_scheme u) str_file = false ->
  snd (hscan (is_special u) br buf t) = true ->
  after_override (runO fuel (at_pos StHost pre buf a br pw u))
  = SetTo (host_port_decide u (fst (hscan (is_special u) br buf t)) (hrest (is_special u) br t)).
Proof.
  induction t as [|c r IH]; intros pre fuel buf a br pw u Hin Hfuel Hnf Hc;
    (destruct fuel as [|fuel]; [cbn [length] in Hfuel; lia|]); cbn [run].
  - cbn [hscan snd] in Hc. discriminate Hc.
  - rewrite (step_at hp input StHost _ _ _ _ _ _ _ _ Hin). cbn zeta. cbn [hd_error]. cbn [hscan hrest] in Hc |- *.
    unfold st_host. cbn [has_ov opt_is_some andb m_url m_buf m_br at_pos cis]. rewrite Hnf. cbn [andb].
    destruct ((c =? 58) && negb br) eqn:Ecol.
    + cbn [fst]. unfold host_port_decide. rewrite list_eqb_nil_is_nil.
      destruct (is_nil buf); [reflexivity|].
      change (ov_is (Some StHost) StHostname) with false. cbn iota.
      destruct (host_parsing hp (negb (is_special u)) buf) as [h|]; [|reflexivity].
      unfold goto, set_buf, set_url. cbn [m_state m_ptr m_buf m_at m_br m_pw m_url at_pos].
      rewrite (len_split hp input pre (c :: r) Hin). cbn [length].
      replace (Z.of_nat (length pre) + Z.of_nat (S (length r)) <=? Z.of_nat (length pre))%Z with false by lia.
      rewrite (inc_at hp StPort pre c).
      rewrite (run_port_ov hp input StHost r (pre ++ [c]) fuel [] a br pw (set_host u (Some h))
                 (snoc_split input pre c r Hin)) by (cbn [length] in Hfuel; lia).
      cbn [app]. apply after_port_outcome.
    + unfold is_authority_end. cbn [is_eof cis orb].
      replace ((c =? 47) || (c =? 63) || (c =? 35) || (is_special u && (c =? 92))) with (h_end (is_special u) c) by reflexivity.
      destruct (h_end (is_special u) c) eqn:Eend; [discriminate Hc|].
      assert ((let m := at_pos StHost pre buf a br pw u in
               let m1 := if c =? 91 then set_br m true else m in
               let m2 := if c =? 93 then set_br m1 false else m1 in push_buf m2 c)
              = mkM StHost (Z.of_nat (length pre)) (buf ++ [c]) a (br_next br c) pw u) as Em.
      { unfold br_next. destruct (c =? 91) eqn:E91; destruct (c =? 93) eqn:E93; try reflexivity.
        apply N.eqb_eq in E91. subst c. discriminate E93. }
      cbn zeta in Em. rewrite Em. cbn [m_ptr].
      rewrite (len_split hp input pre (c :: r) Hin). cbn [length].
      replace (Z.of_nat (length pre) + Z.of_nat (S (length r)) <=? Z.of_nat (length pre))%Z with false by lia.
      rewrite (inc_at hp StHost pre c).
      apply (IH (pre ++ [c]) fuel (buf ++ [c]) a (br_next br c) pw u (snoc_split input pre c r Hin)); [|exact Hnf|exact Hc].
      cbn [length] in Hfuel. lia.
Qed.
End HostPortOutcome.

(* the host attribute setter on a value with a port part, for a URL whose scheme is not "file" *)
Theorem spec_host_colon shp su v : list_eqb (su_scheme su) str_file = false ->
  snd (hscan (is_special su) false [] (notnl v)) = true ->
  spec_set shp SetHost su v
  = SetTo (if has_opaque_path su then su
           else host_port_decide shp su (fst (hscan (is_special su) false [] (notnl v)))
                                 (hrest (is_special su) false (notnl v))).
Proof.
  intros Hnf Hc. cbn [spec_set]. destruct (has_opaque_path su); [reflexivity|].
  unfold spec_basic_url_parse_override. fold (notnl v).
  change (mkM StHost 0%Z [] false false false su) with (at_pos StHost [] [] false false false su).
  apply (run_host_ov_colon shp (notnl v) (notnl v) [] _ [] false false false su eq_refl (fuel_enough _) Hnf Hc).
Qed.

(* the host attribute setter in closed form on EVERY value, for a URL whose scheme is not "file" *)
Definition host_decide (shp : bool -> list N -> option spec_host) (su : spec_url) (t : list N) : spec_url :=
  let r := hscan (is_special su) false [] t in
  if snd r then host_port_decide shp su (fst r) (hrest (is_special su) false t)
  else hostname_decide shp su r.

Theorem spec_host_closed shp su v : list_eqb (su_scheme su) str_file = false ->
  spec_set shp SetHost su v = SetTo (if has_opaque_path su then su else host_decide shp su (notnl v)).
Proof.
  intros Hnf. unfold host_decide. cbv zeta.
  destruct (snd (hscan (is_special su) false [] (notnl v))) eqn:Hc.
  - exact (spec_host_colon shp su v Hnf Hc).
  - rewrite (spec_host_nocolon shp su v Hnf Hc). exact (spec_hostname_closed shp su v Hnf).
Qed.

(* the Standard's host setter keeps the invariants *)
Theorem spec_host_sane shp su v su' : empty_only shp -> list_eqb (su_scheme su) str_file = false ->
  sane su -> spec_set shp SetHost su v = SetTo su' -> sane su'.
Proof.
  intros He Hnf S H.
  destruct (snd (hscan (is_special su) false [] (notnl v))) eqn:Hc.
  2:{ rewrite (spec_host_nocolon shp su v Hnf Hc) in H. exact (spec_hostname_sane shp su v su' He Hnf S H). }
  rewrite (spec_host_colon shp su v Hnf Hc) in H. injection H as <-.
  destruct (has_opaque_path su) eqn:Hop; [exact S|].
  unfold host_port_decide.
  destruct (fst (hscan (is_special su) false [] (notnl v))) as [|b0 b1] eqn:Eb; cbn [is_nil]; [exact S|].
  destruct (host_parsing shp (negb (is_special su)) (b0 :: b1)) as [h|] eqn:Eh; [|exact S].
  assert (h <> SEmpty) as Hne by (intros ->; apply He in Eh; discriminate Eh).
  assert (sane (set_host su (Some h))) as S1.
  { destruct S as [S1 S2 S3].
    constructor; unfold cannot_have_username_password_port, is_special, includes_credentials, has_opaque_path in *;
      cbn [set_host su_scheme su_host su_port su_path su_username su_password host_is_null orb] in *.
    - rewrite Hnf, orb_false_r. intros Hem. exfalso. apply Hne. destruct h; try discriminate Hem; reflexivity.
    - intros Hs. split; [reflexivity|]. intros _. destruct h; try reflexivity. exfalso; apply Hne; reflexivity.
    - rewrite Hop. discriminate. }
  cbv zeta. unfold port_outcome.
  destruct (take_digits (hrest (is_special su) false (notnl v))) as [|d ds]; cbn [outcome_url]; [exact S1|].
  destruct (65535 <? decimal_value (d :: ds)); cbn [outcome_url]; [exact S1|].
  destruct S1 as [T1 T2 T3].
  constructor; unfold cannot_have_username_password_port, is_special, includes_credentials, has_opaque_path in *;
    cbn [set_host set_port su_scheme su_host su_port su_path su_username su_password host_is_null orb] in *.
  - rewrite Hnf, orb_false_r. intros Hem. exfalso. apply Hne. destruct h; try discriminate Hem; reflexivity.
  - exact T2.
  - exact T3.
Qed.
