(* Proofs/C13_Dec.v - the decoder: the insertion list with index shifting followed by the stable sort
   represents direct list insertion; the u32 decoder never panics on inputs shorter than 2^32 code
   units, the Decode iterator terminates, and an Ok result is the RFC 3492 result. *)
From RU Require Import Base.Prelude Base.Utf8 Base.U32_c13 Gen.Tables Model.Punycode Spec.Rfc3492
  Proofs.C13_Ascii Proofs.C13_Bounds Proofs.C13_Enc.

(* ---- sorting ---- *)
Definition shift1 (i : N) (e : N * N) : N * N := if i <=? fst e then (fst e + 1, snd e) else e.
Definition inc_key (e : N * N) : N * N := (fst e + 1, snd e).

Lemma shift_ins_map i l : shift_ins i l = map (shift1 i) l.
Proof. reflexivity. Qed.

Lemma shift_ins_all i l : (forall e, In e l -> i <= fst e) -> shift_ins i l = map inc_key l.
Proof.
  intros H. rewrite shift_ins_map. apply map_ext_in. intros e He. unfold shift1, inc_key.
  specialize (H e He). replace (i <=? fst e) with true by lia. reflexivity.
Qed.

Lemma insert_head x l : (forall e, In e l -> fst x <= fst e) -> insert_by_key x l = x :: l.
Proof.
  destruct l as [|y r]; intros H; [reflexivity|]. cbn [insert_by_key].
  specialize (H y (or_introl eq_refl)). replace (fst x <=? fst y) with true by lia. reflexivity.
Qed.

Lemma In_insert e x l : In e (insert_by_key x l) <-> e = x \/ In e l.
Proof.
  induction l as [|y r IH]; cbn [insert_by_key].
  - cbn [In]. intuition.
  - destruct (fst x <=? fst y).
    + cbn [In]. intuition.
    + cbn [In]. rewrite IH. intuition.
Qed.

Lemma insert_comm x y l : fst x <> fst y ->
  insert_by_key x (insert_by_key y l) = insert_by_key y (insert_by_key x l).
Proof.
  intros Hne. induction l as [|z r IH].
  - cbn [insert_by_key]. destruct (fst x <=? fst y) eqn:E1; destruct (fst y <=? fst x) eqn:E2; try reflexivity; lia.
  - cbn [insert_by_key].
    destruct (fst y <=? fst z) eqn:Ey; destruct (fst x <=? fst z) eqn:Ex; cbn [insert_by_key]; rewrite ?Ey, ?Ex.
    + destruct (fst x <=? fst y) eqn:E1; destruct (fst y <=? fst x) eqn:E2; try reflexivity; try lia.
    + replace (fst x <=? fst y) with false by lia. reflexivity.
    + replace (fst y <=? fst x) with false by lia. reflexivity.
    + rewrite IH. reflexivity.
Qed.

Lemma sort_snoc l x : (forall y, In y l -> fst y <> fst x) ->
  sort_by_key (l ++ [x]) = insert_by_key x (sort_by_key l).
Proof.
  unfold sort_by_key. induction l as [|y r IH]; intros H; [reflexivity|].
  cbn [app fold_right]. rewrite IH by (intros z Hz; apply H; right; exact Hz).
  apply insert_comm. apply H. left. reflexivity.
Qed.

Lemma insert_shift i x l : insert_by_key (shift1 i x) (map (shift1 i) l) = map (shift1 i) (insert_by_key x l).
Proof.
  induction l as [|y r IH]; [reflexivity|]. cbn [map insert_by_key].
  assert (Hcmp : (fst (shift1 i x) <=? fst (shift1 i y)) = (fst x <=? fst y)).
  { unfold shift1. destruct (i <=? fst x) eqn:E1; destruct (i <=? fst y) eqn:E2; cbn [fst]; lia. }
  rewrite Hcmp. destruct (fst x <=? fst y); [reflexivity|]. cbn [map]. rewrite IH. reflexivity.
Qed.

Lemma sort_shift i l : sort_by_key (shift_ins i l) = shift_ins i (sort_by_key l).
Proof.
  rewrite !shift_ins_map. unfold sort_by_key. induction l as [|y r IH]; [reflexivity|].
  cbn [map fold_right]. rewrite IH. apply insert_shift.
Qed.

(* ---- direct insertion ---- *)
Lemma s_insert_at_0 c l : s_insert_at 0 c l = c :: l.
Proof. destruct l; reflexivity. Qed.
Lemma s_insert_at_pos i c x r : i <> 0 -> s_insert_at i c (x :: r) = x :: s_insert_at (i - 1) c r.
Proof. intros H. cbn [s_insert_at]. replace (i =? 0) with false by lia. reflexivity. Qed.
Lemma len_insert_at l : forall i c, len (s_insert_at i c l) = len l + 1.
Proof.
  induction l as [|x r IH]; intros i c; cbn [s_insert_at].
  - destruct (i =? 0); rewrite len_cons, len_nil; lia.
  - destruct (i =? 0); [rewrite !len_cons; lia|]. rewrite !len_cons, IH. lia.
Qed.

(* ---- representation: base units and sorted insertions, read from position pos ---- *)
Inductive Rep (it : dec_inst) : list N -> list (N * N) -> N -> list N -> Prop :=
| Rep_nil pos : Rep it [] [] pos []
| Rep_base b base S pos out :
    (forall e, In e S -> pos < fst e) -> Rep it base S (pos + 1) out ->
    Rep it (b :: base) S pos (inst_base_char it b :: out)
| Rep_ins c base S pos out :
    Rep it base S (pos + 1) out -> Rep it base ((pos, c) :: S) pos (c :: out).

Lemma collect_eq it ins base position :
  decode_collect it ins base position =
  match ins with
  | (pos, c) :: ins' =>
      if pos =? position then rcons c (decode_collect it ins' base (position + 1))
      else match base with
           | b :: base' => rcons (inst_base_char it b) (decode_collect it ins base' (position + 1))
           | [] => Panic 284
           end
  | [] => match base with
          | b :: base' => rcons (inst_base_char it b) (decode_collect it ins base' (position + 1))
          | [] => Ok []
          end
  end.
Proof. destruct ins as [|[pos c] ins']; destruct base; reflexivity. Qed.

Lemma collect_Rep it base S pos out : Rep it base S pos out -> decode_collect it S base pos = Ok out.
Proof.
  induction 1 as [pos|b base S pos out Hk _ IH|c base S pos out _ IH]; rewrite collect_eq.
  - reflexivity.
  - destruct S as [|[p c] S'].
    + rewrite IH. reflexivity.
    + specialize (Hk (p, c) (or_introl eq_refl)). cbn [fst] in Hk.
      replace (p =? pos) with false by lia. rewrite IH. reflexivity.
  - rewrite N.eqb_refl. rewrite IH. reflexivity.
Qed.

Lemma Rep_keys it base S pos out : Rep it base S pos out -> forall e, In e S -> pos <= fst e.
Proof.
  induction 1 as [pos|b base S pos out Hk _ IH|c base S pos out _ IH]; intros e He.
  - destruct He.
  - specialize (Hk e He). lia.
  - destruct He as [He|He]; [subst e; cbn [fst]; lia|]. specialize (IH e He). lia.
Qed.

Lemma Rep_inc it base S pos out : Rep it base S pos out -> Rep it base (map inc_key S) (pos + 1) out.
Proof.
  induction 1 as [pos|b base S pos out Hk _ IH|c base S pos out _ IH].
  - constructor.
  - constructor; [|exact IH]. intros e He. apply in_map_iff in He. destruct He as [e' [Heq He']]. subst e.
    specialize (Hk e' He'). unfold inc_key. cbn [fst]. lia.
  - cbn [map]. unfold inc_key at 1. cbn [fst snd]. constructor. exact IH.
Qed.

Lemma Rep_base_only it base pos : Rep it base [] pos (map (inst_base_char it) base).
Proof.
  revert pos. induction base as [|b r IH]; intros pos; cbn [map]; constructor; [intros e []|apply IH].
Qed.

Lemma Rep_insert it base S pos out : Rep it base S pos out ->
  forall i c, pos <= i -> i <= pos + len out ->
  Rep it base (insert_by_key (i, c) (shift_ins i S)) pos (s_insert_at (i - pos) c out).
Proof.
  induction 1 as [pos|b base S pos out Hk HR IH|c0 base S pos out HR IH]; intros i c Hlo Hhi.
  - rewrite len_nil in Hhi. assert (i = pos) by lia. subst i.
    replace (pos - pos) with 0 by lia. cbn. constructor. constructor.
  - destruct (N.eq_dec i pos) as [->|Hne].
    + replace (pos - pos) with 0 by lia. rewrite s_insert_at_0.
      rewrite shift_ins_all by (intros e He; specialize (Hk e He); lia).
      rewrite insert_head.
      * constructor. constructor.
        -- intros e He. apply in_map_iff in He. destruct He as [e' [Heq He']]. subst e.
           specialize (Hk e' He'). unfold inc_key. cbn [fst]. lia.
        -- apply Rep_inc. exact HR.
      * intros e He. apply in_map_iff in He. destruct He as [e' [Heq He']]. subst e.
        specialize (Hk e' He'). unfold inc_key. cbn [fst]. lia.
    + rewrite s_insert_at_pos by lia. replace (i - pos - 1) with (i - (pos + 1)) by lia.
      rewrite len_cons in Hhi. constructor.
      * intros e He. apply In_insert in He. destruct He as [->|He]; [cbn [fst]; lia|].
        rewrite shift_ins_map in He. apply in_map_iff in He. destruct He as [e' [Heq He']]. subst e.
        specialize (Hk e' He'). unfold shift1. destruct (i <=? fst e'); cbn [fst]; lia.
      * apply IH; lia.
  - pose proof (Rep_keys _ _ _ _ _ HR) as Hk.
    destruct (N.eq_dec i pos) as [->|Hne].
    + replace (pos - pos) with 0 by lia. rewrite s_insert_at_0.
      rewrite shift_ins_all by (intros e [He|He]; [subst e; cbn [fst]; lia|specialize (Hk e He); lia]).
      cbn [map]. unfold inc_key at 1. cbn [fst snd].
      rewrite insert_head.
      * constructor. constructor. apply Rep_inc. exact HR.
      * intros e [He|He]; [subst e; cbn [fst]; lia|].
        apply in_map_iff in He. destruct He as [e' [Heq He']]. subst e.
        specialize (Hk e' He'). unfold inc_key. cbn [fst]. lia.
    + rewrite s_insert_at_pos by lia. replace (i - pos - 1) with (i - (pos + 1)) by lia.
      rewrite len_cons in Hhi.
      rewrite shift_ins_map. cbn [map]. unfold shift1 at 1. cbn [fst].
      replace (i <=? pos) with false by lia.
      cbn [insert_by_key fst]. replace (i <=? pos) with false by lia.
      constructor. rewrite <- shift_ins_map. apply IH; lia.
Qed.

(* ---- the main loop: simulation by the unbounded decoder ---- *)
Definition dec_post (it : dec_inst) (base : list N) (input : list N) (mid : bool) (prev w k i cp bias : N)
    (out : list N) (r : res (list (N * N))) : Prop :=
  match r with
  | Panic _ => False
  | Err => True
  | Ok ins' => exists out', s_dec_loop (inst_digit it) input mid prev w k i cp bias out = Some out'
                            /\ Rep it base (sort_by_key ins') 0 out'
  end.

Lemma dec_loop_cons cfg it byte rest mid previous_i weight k i length code_point bias ins :
  dec_loop cfg it (byte :: rest) mid previous_i weight k i length code_point bias ins =
  match inst_digit it byte with
  | None => Err
  | Some digit =>
    match checked_mul digit weight with
    | None => Err
    | Some product =>
      match checked_add i product with
      | None => Err
      | Some i =>
        let t := threshold k bias in
        if digit <? t then
          match unchecked_add cfg 233 length 1 with
          | Panic s => Panic s
          | Err => Err
          | Ok len1 =>
            match adapt (i - previous_i) len1 (previous_i =? 0) with
            | Panic s => Panic s
            | Err => Err
            | Ok bias =>
              match checked_add code_point (i / len1) with
              | None => Err
              | Some code_point =>
                let i := i mod len1 in
                if is_usvb code_point then
                  dec_loop cfg it rest false (i + 1) 1 BASE (i + 1) len1 code_point bias (shift_ins i ins ++ [(i, code_point)])
                else Err
              end
            end
          end
        else
          match checked_mul weight (BASE - t) with
          | None => Err
          | Some weight => dec_loop cfg it rest true previous_i weight (k + BASE) i length code_point bias ins
          end
      end
    end
  end.
Proof. reflexivity. Qed.

Lemma checked_add_some a b v : checked_add a b = Some v -> v = a + b /\ a + b <= U32_MAX.
Proof. unfold checked_add. destruct (a + b <=? U32_MAX) eqn:E; intros H; inversion H. split; [reflexivity|lia]. Qed.
Lemma checked_mul_some a b v : checked_mul a b = Some v -> v = a * b /\ a * b <= U32_MAX.
Proof. unfold checked_mul. destruct (a * b <=? U32_MAX) eqn:E; intros H; inversion H. split; [reflexivity|lia]. Qed.

Lemma dec_loop_sim cfg it base input : forall mid prev w k i length cp bias ins out,
  length = len out -> length + len input <= U32_MAX -> Rep it base (sort_by_key ins) 0 out ->
  dec_post it base input mid prev w k i cp bias out (dec_loop cfg it input mid prev w k i length cp bias ins).
Proof.
  induction input as [|byte rest IH]; intros mid prev w k i length cp bias ins out Hlen Hbound HR.
  - cbn [dec_loop]. destruct mid; cbn [dec_post]; [exact I|]. exists out. split; [reflexivity|exact HR].
  - rewrite dec_loop_cons. rewrite len_cons in Hbound.
    unfold dec_post at 1.
    cbn [s_dec_loop].
    destruct (inst_digit it byte) as [digit|]; [|exact I].
    destruct (checked_mul digit w) as [product|] eqn:Em; [|exact I].
    apply checked_mul_some in Em. destruct Em as [-> _].
    destruct (checked_add i (digit * w)) as [i1|] eqn:Ea; [|exact I].
    apply checked_add_some in Ea. destruct Ea as [-> _].
    cbv zeta. rewrite threshold_eq.
    destruct (digit <? s_threshold k bias).
    + unfold unchecked_add. replace (length + 1 <=? U32_MAX) with true by lia.
      rewrite adapt_ok by lia.
      destruct (checked_add cp ((i + digit * w) / (length + 1))) as [cp1|] eqn:Ec; [|exact I].
      apply checked_add_some in Ec. destruct Ec as [-> _].
      subst length. change (N.of_nat (List.length out)) with (len out).
      destruct (is_usvb (cp + (i + digit * w) / (len out + 1))); [|exact I].
      apply IH.
      * rewrite len_insert_at. reflexivity.
      * lia.
      * rewrite sort_snoc.
        -- rewrite sort_shift.
           pose proof (Rep_insert it base _ 0 out HR ((i + digit * w) mod (len out + 1))
                         (cp + (i + digit * w) / (len out + 1)) ltac:(lia)) as HI.
           rewrite N.sub_0_r in HI. apply HI.
           pose proof (N.mod_lt (i + digit * w) (len out + 1) ltac:(lia)). lia.
        -- intros y Hy. rewrite shift_ins_map in Hy. apply in_map_iff in Hy. destruct Hy as [e [Heq _]]. subst y.
           unfold shift1. cbn [fst]. destruct ((i + digit * w) mod (len out + 1) <=? fst e) eqn:E; cbn [fst]; lia.
    + destruct (checked_mul w (BASE - s_threshold k bias)) as [w1|] eqn:Ew; [|exact I].
      apply checked_mul_some in Ew. destruct Ew as [-> _].
      apply IH; [exact Hlen|lia|exact HR].
Qed.

(* ---- splitting at the last delimiter ---- *)
Lemma split_eq p : split_input p = s_split p.
Proof. reflexivity. Qed.

Lemma split_len p base rest : s_split p = (base, rest) -> len base + len rest <= len p.
Proof.
  unfold s_split. destruct (s_rposition p) as [pos|]; intros H;
    apply (f_equal (fun x => len (fst x) + len (snd x))) in H; cbn [fst snd] in H; rewrite <- H; clear H.
  - unfold len. destruct pos as [|pos].
    + change (0 <? 0)%nat with false. cbv iota. rewrite firstn_length. lia.
    + change (0 <? Datatypes.S pos)%nat with true. cbv iota. rewrite firstn_length, skipn_length. lia.
  - rewrite len_nil. lia.
Qed.

Lemma map_base_ext base : map (inst_base_char U8External) base = base.
Proof. induction base as [|b r IH]; [reflexivity|]. cbn [map inst_base_char]. rewrite IH. reflexivity. Qed.

(* every instantiation: no panic, the iterator terminates *)
Lemma decode_with_no_panic cfg it p : len p <= U32_MAX -> forall s, decode_with cfg it p <> Panic s.
Proof.
  intros Hp s. unfold decode_with, decoder_decode. rewrite split_eq.
  destruct (s_split p) as [base rest] eqn:Es. apply split_len in Es.
  destruct (inst_external it && negb (forallb (fun c => c <? 128) base)); [discriminate|].
  assert (Hw : u32_wrap (N.of_nat (length base)) = len base).
  { unfold u32_wrap. apply N.mod_small. unfold len, U32_MOD, U32_MAX in *. lia. }
  rewrite Hw.
  pose proof (dec_loop_sim cfg it base rest false 0 1 BASE 0 (len base) INITIAL_N INITIAL_BIAS []
                (map (inst_base_char it) base)) as Hsim.
  assert (Hl : len (map (inst_base_char it) base) = len base) by (unfold len; rewrite map_length; reflexivity).
  specialize (Hsim ltac:(symmetry; exact Hl) ltac:(lia) (Rep_base_only it base 0)).
  destruct (dec_loop cfg it rest false 0 1 BASE 0 (len base) INITIAL_N INITIAL_BIAS []) as [ins| |s'];
    cbn [dec_post] in Hsim; [|discriminate|destruct Hsim].
  destruct Hsim as [out' [_ HR]]. rewrite (collect_Rep _ _ _ _ _ HR). discriminate.
Qed.

Lemma s_dec_loop_ext d1 d2 (H : forall c, d1 c = d2 c) input : forall mid oldi w k i n bias out,
  s_dec_loop d1 input mid oldi w k i n bias out = s_dec_loop d2 input mid oldi w k i n bias out.
Proof.
  induction input as [|c rest IH]; intros mid oldi w k i n bias out; [reflexivity|].
  cbn [s_dec_loop]. rewrite H. destruct (d2 c) as [digit|]; [|reflexivity].
  cbv zeta. destruct (digit <? s_threshold k bias).
  - destruct (is_usvb _); [apply IH|reflexivity].
  - apply IH.
Qed.

(* the public decoder: an Ok result is the RFC 3492 result *)
Lemma decode_refines cfg p s : len p <= U32_MAX -> decode cfg p = Ok s -> s_decode p = Some s.
Proof.
  intros Hp. unfold decode, decode_with, decoder_decode, s_decode, s_decode_with. rewrite split_eq.
  destruct (s_split p) as [base rest] eqn:Es. apply split_len in Es.
  cbn [inst_external andb].
  destruct (forallb (fun c => c <? 128) base); cbn [negb]; [|discriminate].
  assert (Hw : u32_wrap (N.of_nat (length base)) = len base).
  { unfold u32_wrap. apply N.mod_small. unfold len, U32_MOD, U32_MAX in *. lia. }
  rewrite Hw.
  pose proof (dec_loop_sim cfg U8External base rest false 0 1 BASE 0 (len base) INITIAL_N INITIAL_BIAS [] base) as Hsim.
  pose proof (Rep_base_only U8External base 0) as HR0. rewrite map_base_ext in HR0.
  specialize (Hsim eq_refl ltac:(lia) HR0).
  destruct (dec_loop cfg U8External rest false 0 1 BASE 0 (len base) INITIAL_N INITIAL_BIAS []) as [ins| |s'];
    cbn [dec_post] in Hsim; [|discriminate|destruct Hsim].
  destruct Hsim as [out' [Hs HR]]. rewrite (collect_Rep _ _ _ _ _ HR). intros H. inversion H. subst out'.
  rewrite <- Hs. symmetry. apply s_dec_loop_ext. exact digit_u8_rfc.
Qed.
