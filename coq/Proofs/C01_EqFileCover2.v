(* Proofs/C01_EqFileCover2.v - class 1 of Known_C01 narrowed a second time (task c01file4): the two arms in which
   neither side reads a FILE base are folded into Known_C01 (Model/KnownC01.v k_file_narrow_v3; twin
   harness/src/known01.rs file_narrow):
     "file:" R against a file base, R starts with two '/' '\'          (Proofs/C01_EqFileTwo.v  class_file_two_good)
     scheme-less R that starts with two '/' '\' against a file base    (Proofs/C01_EqFileRel2.v class_file_rel2)
   each with R inside k_file_ok.  known_c01_v2 is the predicate of task c01file3 (Proofs/C01_EqFileCover.v is
   about it, literally as before).  Here: known_c01_v2 = 0 -> known_c01_v3 = 0; coverage of known_c01_v3 = 0 by
   in_proved_class5 = in_proved_class4 + the two classes; the assembled statement (statement_all5). *)
From Coq Require Import ZifyBool ZifyN.
From RU Require Import Base.Prelude Base.Utf8 Base.Utf8Facts Model.AsciiSet Gen.Tables
  Model.PercentEncoding Model.HostT Model.UrlRecord Model.Parser Model.Setters Model.WF Model.Host Model.KnownC01
  Spec.Whatwg Spec.WhatwgHost Spec.WhatwgHostParse
  Proofs.C02_Parts Proofs.C02_Path Proofs.C03_WF Proofs.C01_Tables Proofs.C08_Input Proofs.C09_Host
  Proofs.C01_EqRun Proofs.C01_EqEnc Proofs.C01_EqApi Proofs.C01_EqOpaque Proofs.C01_EqRef Proofs.C01_EqDots
  Proofs.C01_EqPathSpec Proofs.C01_EqPath Proofs.C01_EqOverflow Proofs.C01_EqEmpty
  Proofs.C01_EqClasses Proofs.C01_EqAuthSpec Proofs.C01_EqAuthModel Proofs.C01_EqAuth Proofs.C01_EqAuthHost
  Proofs.C01_EqClasses2 Proofs.C01_EqRel Proofs.C01_EqRelPath Proofs.C01_EqRelArms Proofs.C01_EqRelBase
  Proofs.C01_EqSpSpec Proofs.C01_EqSpPath Proofs.C01_EqSpModel Proofs.C01_EqSp Proofs.C01_EqSpHost
  Proofs.C01_KnownExact Proofs.C01_EqSpKnown
  Proofs.C01_EqAbs Proofs.C01_EqSpBase Proofs.C01_EqSpBare Proofs.C01_Override Proofs.C01_EqAsm Proofs.C01_EqShape
  Proofs.C01_EqCover
  Proofs.C01_EqFileSpec Proofs.C01_EqFilePath Proofs.C01_EqFileRel Proofs.C01_EqFile Proofs.C01_EqFileHost
  Proofs.C01_EqFileAsm Proofs.C01_EqFileCover Proofs.C01_EqFileTwo Proofs.C01_EqFileRel2.

(* ================= the predicate against the former ones ================= *)
Lemma narrow_v2_new base input : k_file_narrow_v2 base input = true -> k_file_narrow_v3 base input = true.
Proof.
  unfold k_file_narrow_v2, k_file_narrow_v3. cbv zeta.
  destruct (leading_scheme (cleaned input)) as [s|]; [|discriminate].
  destruct base as [b|]; [|exact (fun H => H)].
  intros H. apply andb_true_iff in H. destruct H as [H H3]. apply andb_true_iff in H. destruct H as [H1 H2].
  rewrite H1, H2, H3. reflexivity.
Qed.

Lemma known_split5 base input : known_c01_v3 base input = 0 ->
  known_c01_v1 base input = 0 \/ k_file_narrow_v3 base input = true.
Proof.
  unfold known_c01_v3. cbv zeta.
  destruct ((known_c01_v1 base input =? 1) && k_file_narrow_v3 base input) eqn:E.
  - intros _. right. apply andb_true_iff in E. exact (proj2 E).
  - intros H. left. exact H.
Qed.

(* the predicate is below the one of task c01file3 (hence below known_c01_v1): whatever was outside still is *)
Lemma known_v2_zero base input : known_c01_v2 base input = 0 -> known_c01_v3 base input = 0.
Proof.
  unfold known_c01_v2, known_c01_v3. cbv zeta.
  destruct (known_c01_v1 base input =? 1) eqn:E1; cbn [andb]; [|exact (fun H => H)].
  destruct (k_file_narrow_v2 base input) eqn:E2.
  - rewrite (narrow_v2_new base input E2). reflexivity.
  - intros H. apply N.eqb_eq in E1. rewrite E1 in H. discriminate H.
Qed.

Lemma known_v1_zero5 base input : known_c01_v1 base input = 0 -> known_c01_v3 base input = 0.
Proof. intros H. unfold known_c01_v3. cbv zeta. rewrite H. reflexivity. Qed.

(* the classes 2-4 are untouched *)
Lemma known_class_same5 base input : known_c01_v3 base input <> 0 -> known_c01_v3 base input = known_c01_v1 base input.
Proof.
  unfold known_c01_v3. cbv zeta. destruct ((known_c01_v1 base input =? 1) && k_file_narrow_v3 base input).
  - intros H. exfalso. apply H. reflexivity.
  - intros _. reflexivity.
Qed.

(* without a base nothing changed *)
Lemma known_nobase_same input : known_c01_v3 None input = known_c01_v2 None input.
Proof.
  unfold known_c01_v3, known_c01_v2, k_file_narrow_v3, k_file_narrow_v2. cbv zeta.
  destruct (leading_scheme (cleaned input)); reflexivity.
Qed.

(* ================= the classes ================= *)
Definition rel2_class (sbase : option spec_url) (input : list N) : bool :=
  match sbase with Some sb => in_class_file_rel2 sb input | None => false end.

Definition in_proved_class5 (sbase : option spec_url) (input : list N) : bool :=
  in_proved_class4 sbase input || (in_class_file input && two_sl_file input) || rel2_class sbase input.

Lemma in_proved_class5_of4 sbase input : in_proved_class4 sbase input = true -> in_proved_class5 sbase input = true.
Proof. intros H. unfold in_proved_class5. rewrite H. reflexivity. Qed.

Lemma k_two_sl_shape R : k_two_sl R = true -> exists c1 c2 T, R = c1 :: c2 :: T /\ is_sl c1 = true /\ is_sl c2 = true.
Proof.
  destruct R as [|c1 [|c2 T]]; try discriminate. cbn [k_two_sl]. change (k_sl c1) with (is_sl c1). change (k_sl c2) with (is_sl c2).
  intros H. apply andb_true_iff in H. exists c1, c2, T. split; [reflexivity | exact H].
Qed.

Section Cover5.
Variable dbg : bool.
Variable shs : spec_host -> list N.

(* a narrowed input is in one of the three file classes *)
Lemma narrow_in_class5 base sbase input : full_rel dbg shs base sbase ->
  k_file_narrow_v3 base input = true ->
  (no_file_base sbase || two_sl_file input) && in_class_file input || rel2_class sbase input = true.
Proof.
  intros Hb. unfold k_file_narrow_v3. cbv zeta. rewrite cleaned_spec_clean.
  destruct (spec_scheme (spec_clean input)) as [[sch R]|] eqn:Es.
  - destruct (spec_scheme_some_leading _ _ _ Es) as [-> ->]. intros H.
    apply andb_true_iff in H. destruct H as [H H3]. apply andb_true_iff in H. destruct H as [H1 H2].
    assert (in_class_file input = true) as Hc.
    { unfold in_class_file. rewrite Es. change s_file with str_file in H1. rewrite H1. cbn [andb]. exact (k_file_ok_class R H3). }
    rewrite Hc, andb_true_r.
    assert (no_file_base sbase || two_sl_file input = true) as ->; [|reflexivity].
    destruct base as [b|]; destruct sbase as [sb|]; cbn [full_rel] in Hb; try contradiction; [|reflexivity].
    pose proof (rel_sch _ _ _ _ (proj1 (proj1 Hb))) as Hs. unfold no_file_base. rewrite <- Hs.
    change str_file with s_file. destruct (list_eqb (b_scheme b) s_file); [|reflexivity]. cbn [negb orb] in *.
    destruct (k_two_sl_shape R H2) as (c1 & c2 & T & -> & E1 & E2).
    unfold two_sl_file. rewrite Es. change s_file with str_file in H1. rewrite H1, E1, E2. reflexivity.
  - rewrite (spec_scheme_none_leading _ Es).
    destruct base as [b|]; [|discriminate]. destruct sbase as [sb|]; cbn [full_rel] in Hb; [|contradiction].
    pose proof (proj1 (proj1 Hb)) as Rl. intros H.
    apply andb_true_iff in H. destruct H as [H H4]. apply andb_true_iff in H. destruct H as [H H3].
    apply andb_true_iff in H. destruct H as [H1 H2].
    destruct (k_two_sl_shape _ H3) as (c1 & c2 & T & Ecl & E1 & E2).
    assert (rel2_class (Some sb) input = true) as ->; [|apply orb_true_r].
    cbn [rel2_class]. unfold in_class_file_rel2.
    rewrite <- (related_cbb dbg shs b sb Rl), <- (rel_sch _ _ _ _ Rl), H2. change str_file with s_file. rewrite H1.
    cbn [andb]. rewrite Ecl in *. rewrite E1, E2. cbn [andb]. exact (k_file_ok_class _ H4).
Qed.

(* coverage: outside Known_C01 every input is in a proved class *)
Theorem all_covers5 input base sbase : full_rel dbg shs base sbase ->
  known_c01_v3 base input = 0 -> in_proved_class5 sbase input = true.
Proof.
  intros Hb Hk. destruct (known_split5 base input Hk) as [H1|Hn].
  - apply in_proved_class5_of4, in_proved_class4_of3. exact (all_covers dbg shs input base sbase Hb H1).
  - pose proof (narrow_in_class5 base sbase input Hb Hn) as H.
    unfold in_proved_class5, in_proved_class4.
    destruct (rel2_class sbase input); [apply orb_true_r|]. rewrite orb_false_r in *.
    apply andb_true_iff in H. destruct H as [H Hc]. rewrite Hc, !andb_true_r in *.
    destruct (no_file_base sbase); [rewrite orb_true_r; reflexivity|]. cbn [orb] in H. rewrite H. apply orb_true_r.
Qed.
End Cover5.

(* host_hyp3 (the one host string of the class of in_proved_class3, if any); host_agree_file on the text between
   "//" and the path for a "file:" input of the file class (no file base, or two separators); the same for a
   scheme-less reference "//T" against a file base *)
Definition host_hyp5 (hp hpo : list N -> result host) (hd : host -> list N)
           (shp : bool -> list N -> option spec_host) (shs : spec_host -> list N)
           (sbase : option spec_url) (input : list N) : Prop :=
  host_hyp3 hp hpo hd shp shs sbase input
  /\ ((no_file_base sbase || two_sl_file input) && in_class_file input = true ->
      host_agree_file hp hd shp shs (class_host_text_f input))
  /\ (rel2_class sbase input = true -> host_agree_file hp hd shp shs (file_host_of (spec_clean input))).

Section Statements5.
Variable dbg : bool.
Variable hp hpo : list N -> result host.
Variable hd : host -> list N.
Variable shp : bool -> list N -> option spec_host.
Variable shs : spec_host -> list N.

Theorem partial_equivalence_good5 input base sbase : usv_list input ->
  full_rel dbg shs base sbase -> in_proved_class5 sbase input = true ->
  host_hyp5 hp hpo hd shp shs sbase input ->
  agree_good dbg shs (parse_url dbg hp hpo hd None base input) (spec_basic_url_parse shp input sbase)
  /\ (forall su u, spec_basic_url_parse shp input sbase = BDone su -> parse_url dbg hp hpo hd None base input = POk u ->
        full_base dbg shs u su).
Proof.
  intros Hu Hb Hc (HH3 & HHf & HHr). unfold in_proved_class5 in Hc.
  destruct (in_proved_class4 sbase input) eqn:Hc4.
  - apply (partial_equivalence_good4 dbg hp hpo hd shp shs input base sbase Hu Hb Hc4). split; [exact HH3|].
    intros H. apply HHf. apply andb_true_iff in H. destruct H as [H1 H2]. rewrite H1, H2. reflexivity.
  - cbn [orb] in Hc. destruct (in_class_file input && two_sl_file input) eqn:Hc2.
    + apply andb_true_iff in Hc2. destruct Hc2 as [Hcf H2].
      apply (class_file_two_good dbg hp hpo hd shp shs base sbase input Hu Hcf H2 (full_rel_sch _ _ _ _ Hb)).
      apply HHf. rewrite Hcf, H2, orb_true_r. reflexivity.
    + cbn [orb] in Hc. destruct base as [b|]; destruct sbase as [sb|]; cbn [full_rel] in Hb; try contradiction;
        [|discriminate Hc].
      cbn [rel2_class] in Hc.
      exact (class_file_rel2 dbg hp hpo hd shp shs b sb input Hu (proj1 (proj1 Hb)) Hc (HHr Hc)).
Qed.

(* C01_statement for Known_C01 *)
Theorem statement_all5 input base sbase : usv_list input ->
  full_rel dbg shs base sbase -> known_c01_v3 base input = 0 ->
  host_hyp5 hp hpo hd shp shs sbase input ->
  agree_good dbg shs (parse_url dbg hp hpo hd None base input) (spec_basic_url_parse shp input sbase)
  /\ (forall su u, spec_basic_url_parse shp input sbase = BDone su -> parse_url dbg hp hpo hd None base input = POk u ->
        full_base dbg shs u su).
Proof.
  intros Hu Hb Hk HH.
  exact (partial_equivalence_good5 input base sbase Hu Hb (all_covers5 dbg shs input base sbase Hb Hk) HH).
Qed.

End Statements5.

Lemma file_host_of_clean_usv input : usv_list input -> usv_list (file_host_of (spec_clean input)).
Proof.
  intros Hu. pose proof (usv_spec_clean input Hu) as Hcl. unfold file_host_of.
  destruct (spec_clean input) as [|c1 [|c2 T]]; try constructor.
  destruct (is_sl c1 && is_sl c2); [|constructor].
  apply (usv_of_in _ T); [exact (as_part_in T) | apply usv_cons in Hcl; destruct Hcl as [_ Hcl]; apply usv_cons in Hcl; tauto].
Qed.

(* the host model of Model/Host.v against the Standard's host parser over the same oracle *)
Theorem host_hyp5_model idna : (forall bs d, idna bs = Some d -> Forall dom_char_ok d) ->
  forall sbase input, usv_list input ->
  host_hyp5 (host_parse idna) host_parse_opaque host_display (spec_host_parser idna) spec_host_serializer sbase input.
Proof.
  intros Hout sbase input Hu. split; [exact (host_hyp3_model idna Hout sbase input Hu)|]. split; intros _.
  - apply host_agree_file_real; [exact Hout | apply class_host_text_f_usv; exact Hu].
  - apply host_agree_file_real; [exact Hout | apply file_host_of_clean_usv; exact Hu].
Qed.

Theorem statement_all5_model dbg idna : IdnaOK idna -> forall input base sbase,
  usv_list input -> full_rel dbg spec_host_serializer base sbase -> known_c01_v3 base input = 0 ->
  agree_good dbg spec_host_serializer
    (parse_url dbg (host_parse idna) host_parse_opaque host_display None base input)
    (spec_basic_url_parse (spec_host_parser idna) input sbase)
  /\ (forall su u, spec_basic_url_parse (spec_host_parser idna) input sbase = BDone su ->
        parse_url dbg (host_parse idna) host_parse_opaque host_display None base input = POk u ->
        full_base dbg spec_host_serializer u su).
Proof.
  intros HI input base sbase Hu Hb Hk. apply statement_all5; try assumption.
  apply host_hyp5_model; [exact (idna_out idna HI) | exact Hu].
Qed.

Theorem statement_instance5 dbg idna : IdnaOK idna -> forall input base sbase,
  usv_list input -> full_rel dbg spec_host_serializer base sbase -> known_c01_v3 base input = 0 ->
  statement_shape dbg spec_host_serializer
    (parse_url dbg (host_parse idna) host_parse_opaque host_display None base input)
    (spec_basic_url_parse (spec_host_parser idna) input sbase).
Proof.
  intros HI input base sbase Hu Hb Hk. apply agree_good_shape.
  exact (proj1 (statement_all5_model dbg idna HI input base sbase Hu Hb Hk)).
Qed.

(* the same with a UTF-8 encoding override *)
Theorem statement_all5_model_utf8 dbg idna : IdnaOK idna -> forall input base sbase,
  usv_list input -> full_rel dbg spec_host_serializer base sbase -> known_c01_v3 base input = 0 ->
  agree_good dbg spec_host_serializer
    (parse_url dbg (host_parse idna) host_parse_opaque host_display (Some utf8_encode) base input)
    (spec_basic_url_parse (spec_host_parser idna) input sbase).
Proof.
  intros HI input base sbase Hu Hb Hk. rewrite parse_url_utf8_override.
  exact (proj1 (statement_all5_model dbg idna HI input base sbase Hu Hb Hk)).
Qed.

(* ================= what left class 1 now, what stays ================= *)
(* against the parse result of file://h/tmp/x :
   left class 1 (known_c01_v2 = 1, known_c01_v3 = 0; the sides agree by the theorem):  file:///C:/a/../b ;
     file://h2.x/a/../b?q ;  fIle:\\/y ;  //h2.x/a/../b?q ;  \\/y ;
   stay in class 1:  x ;  /x ;  file:/x ;  file:x ;  //h.x/C:/ (F-C01-1) ;  file:////foo (F-C01-3) ;
   outside as before:  #f ;  the empty reference *)
Definition f2_1 : list N := [102;105;108;101;58;47;47;104;50;46;120;47;97;47;46;46;47;98;63;113].
Definition f2_2 : list N := [102;73;108;101;58;92;92;47;121].
Definition f2_3 : list N := [47;47;104;50;46;120;47;97;47;46;46;47;98;63;113].
Definition f2_4 : list N := [92;92;47;121].

Theorem known_file_narrowed2 :
  match parse_url true (host_parse id_idna) host_parse_opaque host_display None None nar_1,
        parse_url true (host_parse id_idna) host_parse_opaque host_display None None file_base_text with
  | POk bh, POk bf =>
      let left i := known_c01_v2 (Some bf) i = 1 /\ known_c01_v3 (Some bf) i = 0 in
      left fnar_1 /\ left f2_1 /\ left f2_2 /\ left f2_3 /\ left f2_4
      /\ known_c01_v3 (Some bf) [120] = 1 /\ known_c01_v3 (Some bf) [47; 120] = 1
      /\ known_c01_v3 (Some bf) [102;105;108;101;58;47;120] = 1 /\ known_c01_v3 (Some bf) [102;105;108;101;58;120] = 1
      /\ known_c01_v3 (Some bf) [47;47;104;46;120;47;67;58;47] = 1 /\ known_c01_v3 (Some bf) fstay_1 = 1
      /\ known_c01_v3 (Some bf) [35; 102] = 0 /\ known_c01_v3 (Some bf) [] = 0
      (* a scheme-less "//T" against a non-file base is not a file input: as before *)
      /\ known_c01_v3 (Some bh) f2_3 = known_c01_v2 (Some bh) f2_3 /\ known_c01_v3 (Some bh) fnar_1 = 0
  | _, _ => False
  end.
Proof. vm_compute. repeat split. Qed.

(* non-vacuity of statement_all5_model on inputs that only the predicate of this file admits: file base, known_c01_v3 = 0,
   in_proved_class4 = false, both sides succeed with the same ten API strings *)
Example statement_all5_nonvacuous :
  let idna := id_idna in
  let P base i := parse_url true (host_parse idna) host_parse_opaque host_display None base i in
  let S sbase i := spec_basic_url_parse (spec_host_parser idna) i sbase in
  match P None file_base_text, S None file_base_text with
  | POk b, BDone sb =>
      let ok i := known_c01_v3 (Some b) i = 0 /\ known_c01_v2 (Some b) i = 1
                  /\ in_proved_class4 (Some sb) i = false /\ in_proved_class5 (Some sb) i = true
                  /\ match P (Some b) i, S (Some sb) i with
                     | POk u, BDone su => api_of_model true u = Some (spec_api_list spec_host_serializer su)
                     | _, _ => False end in
      ok f2_1 /\ ok f2_2 /\ ok f2_3 /\ ok f2_4
  | _, _ => False
  end.
Proof. vm_compute. repeat split. Qed.
