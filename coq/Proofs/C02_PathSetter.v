(* Proofs/C02_PathSetter.v - L1 for the path state in the SETTER context (Url::set_path): '?' and '#' do not end the
   path there, they are pending characters and come out percent-encoded.  The setter-context loop on an input l is
   the URL-parser-context loop on l with every '?' replaced by "%3F" and every '#' by "%23" (the PATH set encodes
   both and keeps '%', digits and letters), so the canonical-form lemmas of C02_PathL1 / C02_PathSp apply: whatever
   the argument, the text the path start state writes behind a serialization is a canonical path. *)
From RU Require Import Base.Prelude Base.Utf8 Base.Utf8Facts Model.AsciiSet Gen.Tables
  Model.PercentEncoding Model.HostT Model.UrlRecord Model.Parser Model.Setters Model.WF
  Proofs.ListN Proofs.C14_Set Proofs.C14_Enc Proofs.C14_Views Proofs.C02_Enc Proofs.C02_Parts
  Proofs.C02_Opaque Proofs.C02_Path Proofs.C02_PathL1 Proofs.C02_Reach Proofs.C16_RT Proofs.C02_AuthParts
  Proofs.C02_Auth Proofs.C02_AuthWf Proofs.C02_PathSp Proofs.C02_AuthSp.
Open Scope N_scope.
Open Scope list_scope.

Fixpoint qh_sub (l : list N) : list N :=
  match l with
  | [] => []
  | c :: r => if c =? 63 then 37 :: 51 :: 70 :: qh_sub r
              else if c =? 35 then 37 :: 50 :: 51 :: qh_sub r else c :: qh_sub r
  end.

Lemma usv_qh_sub l : usv_list l -> usv_list (qh_sub l).
Proof.
  induction l as [|c r IH]; intros H; [constructor|]. apply usv_cons in H. destruct H as [Hc Hr]. cbn [qh_sub].
  destruct (c =? 63); [repeat (apply usv_cons; split; [left; lia|]); exact (IH Hr)|].
  destruct (c =? 35); [repeat (apply usv_cons; split; [left; lia|]); exact (IH Hr)|].
  apply usv_cons. split; [exact Hc | exact (IH Hr)].
Qed.

Lemma enc_q : encode T_PATH (utf8_encode [63]) = [37; 51; 70] /\ encode T_PATH (utf8_encode [37; 51; 70]) = [37; 51; 70]
  /\ encode T_PATH (utf8_encode [35]) = [37; 50; 51] /\ encode T_PATH (utf8_encode [37; 50; 51]) = [37; 50; 51].
Proof. vm_compute. repeat split. Qed.

Lemma inp_next_sub l : forall c r, inp_next l = Some (c, r) -> is_qh c = false -> inp_next (qh_sub l) = Some (c, qh_sub r).
Proof.
  induction l as [|x t IH]; intros c r H Hq; [discriminate|].
  destruct (is_tnl x) eqn:Et.
  - rewrite inp_next_tnl in H by exact Et. cbn [qh_sub].
    assert ((x =? 63) = false /\ (x =? 35) = false) as [-> ->] by (unfold is_tnl in Et; lia).
    rewrite inp_next_tnl by exact Et. exact (IH c r H Hq).
  - rewrite inp_next_cons in H by exact Et. inversion H; subst x t. cbn [qh_sub]. unfold is_qh in Hq.
    assert ((c =? 63) = false /\ (c =? 35) = false) as [-> ->] by lia.
    apply inp_next_cons. exact Et.
Qed.

Lemma inp_next_none_sub l : inp_next l = None -> inp_next (qh_sub l) = None.
Proof.
  induction l as [|x t IH]; intros H; [reflexivity|].
  destruct (is_tnl x) eqn:Et.
  - rewrite inp_next_tnl in H by exact Et. cbn [qh_sub].
    assert ((x =? 63) = false /\ (x =? 35) = false) as [-> ->] by (unfold is_tnl in Et; lia).
    rewrite inp_next_tnl by exact Et. exact (IH H).
  - rewrite inp_next_cons in H by exact Et. discriminate.
Qed.
Section Reduce.
Variable dbg : bool.
Variable st : scheme_type.
Hypothesis Hnf : st_is_file st = false.
Variable ps : N.

Lemma push_pending_setter ser pend : usv_list pend ->
  push_pending CSetter st ser pend = ser ++ encode T_PATH (utf8_encode (rev pend)).
Proof.
  intros H. unfold push_pending. destruct pend as [|x y]; [cbn; rewrite app_nil_r; reflexivity|].
  unfold path_set. cbn [ctx_eqb]. apply push_encoded_eq. apply usv_rev. exact H.
Qed.

(* pending texts that encode alike *)
Definition pend_eq (a b : list N) : Prop :=
  usv_list a /\ usv_list b /\ encode T_PATH (utf8_encode (rev a)) = encode T_PATH (utf8_encode (rev b)).

Lemma pend_eq_push ser a b : pend_eq a b -> push_pending CSetter st ser a = push_pending CUrlParser st ser b.
Proof. intros (Ha & Hb & E). rewrite push_pending_setter by exact Ha. rewrite push_pending_eq by exact Hb. rewrite E. reflexivity. Qed.

Lemma pend_eq_nil : pend_eq [] [].
Proof. split; [constructor|]. split; [constructor | reflexivity]. Qed.

Lemma pend_eq_cons c a b : is_usv c -> pend_eq a b -> pend_eq (c :: a) (c :: b).
Proof.
  intros Hc (Ha & Hb & E). split; [apply usv_cons; tauto|]. split; [apply usv_cons; tauto|].
  cbn [rev]. rewrite !enc_utf8_app, E. reflexivity.
Qed.

Lemma pend_eq_sub c e1 e2 e3 a b : is_usv c -> encode T_PATH (utf8_encode [c]) = [e1; e2; e3] ->
  encode T_PATH (utf8_encode [e1; e2; e3]) = [e1; e2; e3] -> e1 < 128 -> e2 < 128 -> e3 < 128 ->
  pend_eq a b -> pend_eq (c :: a) (e3 :: e2 :: e1 :: b).
Proof.
  intros Hc E1 E2 H1 H2 H3 (Ha & Hb & E). split; [apply usv_cons; tauto|].
  split; [repeat (apply usv_cons; split; [left; lia|]); exact Hb|].
  cbn [rev]. rewrite <- !app_assoc. cbn [app]. rewrite !enc_utf8_app, E, E1, E2. reflexivity.
Qed.

Theorem loop_setter_sub l : forall ser ss a b hh, usv_list l -> pend_eq a b ->
  parse_path_loop dbg CSetter st ps l ser ss a hh = parse_path_loop dbg CUrlParser st ps (qh_sub l) ser ss b hh.
Proof.
  induction l as [|c r IH]; intros ser ss a b hh Hu Hp.
  - cbn [qh_sub parse_path_loop]. rewrite (pend_eq_push ser a b Hp). reflexivity.
  - apply usv_cons in Hu. destruct Hu as [Hc Hr]. cbn [qh_sub].
    destruct (c =? 63) eqn:E63.
    + apply N.eqb_eq in E63. subst c. cbn [parse_path_loop]. rewrite Hnf.
      cbn [is_tnl N.eqb Pos.eqb orb andb ctx_eqb negb].
      replace ((92 =? 92) && st_is_special st) with (st_is_special st) by reflexivity.
      cbn [N.eqb Pos.eqb orb andb].
      apply IH; [exact Hr|]. apply (pend_eq_sub 63 37 51 70); try lia; try (left; lia); try exact Hp;
        [exact (proj1 enc_q) | exact (proj1 (proj2 enc_q))].
    + destruct (c =? 35) eqn:E35.
      * apply N.eqb_eq in E35. subst c. cbn [parse_path_loop]. rewrite Hnf.
        cbn [is_tnl N.eqb Pos.eqb orb andb ctx_eqb negb].
        apply IH; [exact Hr|]. apply (pend_eq_sub 35 37 50 51); try lia; try (left; lia); try exact Hp;
          [exact (proj1 (proj2 (proj2 enc_q))) | exact (proj2 (proj2 (proj2 enc_q)))].
      * cbn [parse_path_loop]. rewrite Hnf. destruct (is_tnl c) eqn:Et.
        -- rewrite (pend_eq_push ser a b Hp). apply IH; [exact Hr | exact pend_eq_nil].
        -- cbn [ctx_eqb negb andb]. rewrite E63, E35. cbn [orb andb].
           destruct ((c =? 47) || (c =? 92) && st_is_special st).
           ++ rewrite (pend_eq_push ser a b Hp).
              destruct (finish_segment dbg st ps (push_pending CUrlParser st ser b ++ [47]) ss true hh) as [[s2 hh2]|e|]; cbn [pbind];
                try reflexivity.
              apply IH; [exact Hr | exact pend_eq_nil].
           ++ apply IH; [exact Hr | exact (pend_eq_cons c a b Hc Hp)].
Qed.

End Reduce.

(* ---------- the path start state in the setter context: non-special scheme ---------- *)
Section SetterNS.
Variable dbg : bool.
Notation loopU := (parse_path_loop dbg CUrlParser STNotSpecial).

Lemma loop_out_ns ser l0 s hh hh1 rm : usv_list l0 ->
  loopU (nlen ser) l0 (ser ++ [47]) (nlen (ser ++ [47])) [] hh = POk (s, hh1, rm) ->
  exists p, pth_ok p /\ s = ser ++ pth_text p.
Proof.
  intros Hu0 Hl.
  assert (ser ++ [47] = Bs ser [] ++ []) as EB by (unfold Bs; cbn; rewrite !app_nil_r; reflexivity).
  rewrite EB in Hl. rewrite app_nil_r in Hl at 2.
  apply (loop_inv ser dbg l0 [] [] [] hh s hh1 rm Hu0) in Hl; try reflexivity.
  2:{ split; [constructor | reflexivity]. }
  destruct Hl as (segs & last & -> & Hs & Hl & _ & _).
  exists (Some (segs, last)). cbn [pth_ok pth_text]. unfold Bs, path_text. rewrite <- !app_assoc.
  split; [split; assumption | reflexivity].
Qed.

Lemma loop_all_tnl ps l : forall ser hh, inp_next l = None -> loopU ps l ser (nlen ser) [] hh = POk (ser, hh, []).
Proof.
  induction l as [|c r IH]; intros ser hh H; [apply loop_nil_empty|].
  destruct (is_tnl c) eqn:Et.
  - rewrite inp_next_tnl in H by exact Et. rewrite loop_cons_tnl by exact Et. cbn [push_pending]. exact (IH ser hh H).
  - rewrite inp_next_cons in H by exact Et. discriminate.
Qed.

Theorem pps_setter_ns ser p hh s hh' rem : usv_list p ->
  parse_path_start dbg CSetter STNotSpecial hh ser p = POk (s, hh', rem) ->
  exists p', pth_ok p' /\ s = ser ++ pth_text p'.
Proof.
  intros Hu. unfold parse_path_start, inp_split_first. cbn [st_is_special].
  destruct (inp_next p) as [[c r]|] eqn:En.
  - destruct ((c =? 63) || (c =? 35)) eqn:Eq.
    + intros H. inversion H; subst. exists None. cbn [pth_ok pth_text]. rewrite app_nil_r. split; [exact I | reflexivity].
    + unfold parse_path. destruct (c =? 47) eqn:E47.
      * apply N.eqb_eq in E47. subst c.
        rewrite (loop_setter_sub dbg STNotSpecial eq_refl (nlen ser) p ser (nlen ser) [] [] hh Hu pend_eq_nil).
        rewrite (loop_first_slash dbg (nlen ser) (qh_sub p) (qh_sub r) ser hh) by (apply inp_next_sub; [exact En | reflexivity]).
        apply loop_out_ns. apply usv_qh_sub. exact (inp_next_usv p 47 r Hu En).
      * rewrite (loop_setter_sub dbg STNotSpecial eq_refl (nlen ser) p (ser ++ [47]) (nlen (ser ++ [47])) [] [] hh Hu pend_eq_nil).
        apply loop_out_ns. apply usv_qh_sub. exact Hu.
  - unfold parse_path.
    rewrite (loop_setter_sub dbg STNotSpecial eq_refl (nlen ser) p ser (nlen ser) [] [] hh Hu pend_eq_nil).
    rewrite loop_all_tnl by (apply inp_next_none_sub; exact En).
    intros H. inversion H; subst. exists None. cbn [pth_ok pth_text]. rewrite app_nil_r. split; [exact I | reflexivity].
Qed.
End SetterNS.

(* ---------- special scheme ---------- *)
Section SetterSP.
Variable dbg : bool.
Notation loopU := (parse_path_loop dbg CUrlParser STSpecialNotFile).

Lemma loop_out_sp ser l0 s hh hh1 rm : usv_list l0 ->
  loopU (nlen ser) l0 (ser ++ [47]) (nlen (ser ++ [47])) [] hh = POk (s, hh1, rm) ->
  exists segs last, forallb good_seg_sp segs = true /\ good_seg_sp last = true /\ s = ser ++ path_text segs last.
Proof.
  intros Hu0 Hl.
  assert (ser ++ [47] = Bs ser [] ++ []) as EB by (unfold Bs; cbn; rewrite !app_nil_r; reflexivity).
  rewrite EB in Hl. rewrite app_nil_r in Hl at 2.
  apply (loop_inv_sp ser dbg l0 [] [] [] hh s hh1 rm Hu0) in Hl; try reflexivity.
  2:{ apply pend_nil_ok. }
  destruct Hl as (segs & last & -> & Hs & Hl & _ & _).
  exists segs, last. unfold Bs, path_text. rewrite <- !app_assoc. repeat split; assumption.
Qed.

Theorem pps_setter_sp ser p hh s hh' rem : usv_list p -> ends_with_byte 47 ser = false ->
  parse_path_start dbg CSetter STSpecialNotFile hh ser p = POk (s, hh', rem) ->
  exists segs last, forallb good_seg_sp segs = true /\ good_seg_sp last = true /\ s = ser ++ path_text segs last.
Proof.
  intros Hu Hends. unfold parse_path_start, inp_split_first. cbn [st_is_special]. rewrite Hends. cbn [negb].
  assert (forall l0, usv_list l0 ->
            parse_path dbg CSetter STSpecialNotFile hh (nlen ser) (ser ++ [47]) l0 = POk (s, hh', rem) ->
            exists segs last, forallb good_seg_sp segs = true /\ good_seg_sp last = true /\ s = ser ++ path_text segs last) as G.
  { intros l0 Hu0. unfold parse_path.
    rewrite (loop_setter_sub dbg STSpecialNotFile eq_refl (nlen ser) l0 (ser ++ [47]) (nlen (ser ++ [47])) [] [] hh Hu0 pend_eq_nil).
    apply loop_out_sp. apply usv_qh_sub. exact Hu0. }
  destruct (inp_next p) as [[c r]|] eqn:En.
  - destruct (is_slash_or_bslash c); apply G; [exact (inp_next_usv p c r Hu En) | exact Hu].
  - apply G. exact Hu.
Qed.
End SetterSP.
