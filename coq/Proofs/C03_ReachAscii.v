(* Proofs/C03_ReachAscii.v - the serialization of every reach03a record consists of bytes 0x20..0x7E (C05's
   alphabet invariant, carried over to C02's operation type and to the file-path constructors), hence it is
   ASCII and no Position-based slice can split a character. *)
From RU Require Import Base.Prelude Base.Utf8 Model.AsciiSet Gen.Tables Model.PercentEncoding
  Model.HostT Model.UrlRecord Model.Parser Model.Setters Model.WF Model.FilePath
  Proofs.ListN Proofs.C02_Reach Proofs.C05_Enc Proofs.C05_Parser Proofs.C05_Setters Proofs.C05_History
  Proofs.C04_ParseTotal Proofs.C03_ReachAll Proofs.C03_Reachability Proofs.C20_Path Proofs.C20_RT.
Open Scope N_scope.
Open Scope list_scope.

(* C02's operations as C05's *)
Definition op5 (o : C02_Reach.op) : C05_History.op :=
  match o with
  | C02_Reach.OSetFragment f => C05_History.OSetFragment f
  | C02_Reach.OSetQuery q => C05_History.OSetQuery q
  | C02_Reach.OSetPath p => C05_History.OSetPath p
  | C02_Reach.OSetPort p => C05_History.OSetPort p
  | C02_Reach.OSetHost h => C05_History.OSetHost h
  | C02_Reach.OSetIpHost h => C05_History.OSetIpHost h
  | C02_Reach.OSetPassword p => C05_History.OSetPassword p
  | C02_Reach.OSetUsername s => C05_History.OSetUsername s
  | C02_Reach.OSetScheme s => C05_History.OSetScheme s
  | C02_Reach.OPathSegments ops => C05_History.OPathSegments ops
  | C02_Reach.OQProtocol s => C05_History.OQProtocol s
  | C02_Reach.OQUsername s => C05_History.OQUsername s
  | C02_Reach.OQPassword s => C05_History.OQPassword s
  | C02_Reach.OQHost s => C05_History.OQHost s
  | C02_Reach.OQHostname s => C05_History.OQHostname s
  | C02_Reach.OQPort s => C05_History.OQPort s
  | C02_Reach.OQPathname s => C05_History.OQPathname s
  | C02_Reach.OQSearch s => C05_History.OQSearch s
  | C02_Reach.OQHash s => C05_History.OQHash s
  end.

Lemma omf_drop (r : option (url * status)) : option_map fst r = drop_status r.
Proof. destruct r as [[u st]|]; reflexivity. Qed.

Lemma apply_op5 dbg hp hpo hd u o :
  C02_Reach.apply_op dbg hp hpo hd u o = C05_History.apply_op dbg hp hpo hd u (op5 o).
Proof. destruct o; cbn [C02_Reach.apply_op C05_History.apply_op op5]; try reflexivity; apply omf_drop. Qed.

Lemma op_valid5 o : op_args_ok o -> op_valid (op5 o).
Proof. destruct o; cbn; try (intros; exact I). destruct h; cbn; [intros [] | intros; exact I | intros; exact I]. Qed.

(* the file records *)
Lemma enc_ok c : bytes c -> Forall ok_byte (enc c).
Proof. intros Hb. unfold enc. exact (encode_ok _ c Hb T_SPECIAL_PATH_SEGMENT_ctl). Qed.

Lemma join_slash_ok cs : Forall (Forall ok_byte) cs -> Forall ok_byte (join_slash cs).
Proof.
  induction 1 as [|c cs Hc _ IH]; [constructor|]. rewrite join_slash_cons.
  constructor; [unfold ok_byte; lia|]. apply Forall_app. split; assumption.
Qed.

Lemma map_enc_ok ks : Forall bytes ks -> Forall (Forall ok_byte) (map enc ks).
Proof. induction 1 as [|k ks Hk _ IH]; cbn [map]; constructor; [exact (enc_ok k Hk) | exact IH]. Qed.

Lemma file_rec_ok P : Forall ok_byte P -> Forall ok_or_space (ser (file_rec P)).
Proof.
  intros H. cbn [file_rec ser]. apply Forall_app. split.
  - repeat constructor; unfold ok_or_space; lia.
  - eapply Forall_impl; [|exact H]. exact ok_byte_or_space.
Qed.

Lemma from_file_path_ok p u : bytes p -> from_file_path p = FOk u -> Forall ok_or_space (ser u).
Proof.
  intros Hb H. destruct (path_is_absolute p) eqn:Ha.
  - rewrite (from_file_path_spec p Hb Ha) in H. inversion H; subst u. apply file_rec_ok.
    pose proof (kept_bytes p Hb) as Hk. unfold url_path_of. destruct (kept p) as [|k ks]; [repeat constructor; unfold ok_byte; lia|].
    apply join_slash_ok, map_enc_ok. exact Hk.
  - rewrite (proj1 (from_file_path_rel p Ha)) in H. discriminate.
Qed.

Lemma from_directory_path_ok p u : bytes p -> from_directory_path p = FOk u -> Forall ok_or_space (ser u).
Proof.
  intros Hb H. destruct (path_is_absolute p) eqn:Ha.
  - rewrite (from_directory_path_spec p Hb Ha) in H. inversion H; subst u. apply file_rec_ok.
    unfold dir_path_of. apply Forall_app. split; [apply join_slash_ok, map_enc_ok, kept_bytes; exact Hb|].
    repeat constructor; unfold ok_byte; lia.
  - rewrite (proj2 (from_file_path_rel p Ha)) in H. discriminate.
Qed.

Section Ascii.
Variable dbg : bool.
Variable hp hpo : list N -> result host.
Variable hd : host -> list N.
Hypothesis HOK : HostOK hp hpo hd.
Hypothesis HIP : IpOK hd.

Theorem reach03a_alphabet u : reach03a dbg hp hpo hd u -> Forall ok_or_space (ser u).
Proof using HOK HIP.
  induction 1 as [ovr input u Hp | ovr b input u Rb IHb Hb Hp | p u Hb H | p u Hb H | u o u' R IH Ha G H].
  - exact (parse_url_okl ok_or_space ok_byte_or_space dbg hp hpo hd ovr HOK None input u (fun _ => ok_or_space_32) Hp I).
  - exact (parse_url_okl ok_or_space ok_byte_or_space dbg hp hpo hd ovr HOK (Some b) input u (fun _ => ok_or_space_32) Hp IHb).
  - exact (from_file_path_ok p u Hb H).
  - exact (from_directory_path_ok p u Hb H).
  - rewrite apply_op5 in H.
    exact (apply_op_okl dbg hp hpo hd ok_or_space ok_byte_or_space ok_or_space_32 HOK HIP u (op5 o) u' (op_valid5 o Ha) H IH).
Qed.

Theorem reach03a_ascii u : reach03a dbg hp hpo hd u -> ascii (ser u).
Proof using HOK HIP.
  intros R. eapply Forall_impl; [|exact (reach03a_alphabet u R)]. unfold ok_or_space, is_ascii. intros b Hb. lia.
Qed.
End Ascii.
