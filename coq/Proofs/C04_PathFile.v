(* Proofs/C04_PathFile.v - the path states for ANY scheme type, file included.  Two kinds of states:
   seg_inv (the byte in front of the current segment is '/') and bad_seg (after the drive-letter arm of the
   loop, which moves segment_start into the middle of "C:/": the segment then starts with ':' or with a
   letter and has at least three bytes, so it is neither a dot segment nor a drive letter and
   finish_segment leaves the serialization alone).  The refusals of pop_path / shorten_path to remove a
   drive letter are harmless: finish_segment re-appends the '/'. *)
From RU Require Import Base.Prelude Base.Utf8 Model.AsciiSet Gen.Tables Model.PercentEncoding
  Model.HostT Model.UrlRecord Model.Parser
  Proofs.ListN Proofs.C06_List Proofs.C02_Parts Proofs.C06_PathParser Proofs.C01_EqDots Proofs.C04_PathTotal Proofs.C04_ParseTotal.

Lemma not_dot_head c t : c <> 46 -> c <> 37 -> is_double_dot (c :: t) = false /\ is_single_dot (c :: t) = false.
Proof.
  intros H1 H2. rewrite is_double_dot_eq, is_single_dot_eq.
  assert ((c =? 46) = false) as E1 by (apply N.eqb_neq; exact H1).
  assert (forall x y, is_pct2e c x y = false) as E2.
  { intros x y. unfold is_pct2e. replace (c =? 37) with false by (symmetry; apply N.eqb_neq; exact H2). reflexivity. }
  split.
  - destruct t as [|b [|d [|e [|f [|g [|h r]]]]]]; cbn [is_double_dot']; rewrite ?E1, ?E2; reflexivity.
  - destruct t as [|b [|d [|e r]]]; cbn [is_single_dot']; rewrite ?E1, ?E2; reflexivity.
Qed.

Lemma nwdl_inv s : is_normalized_wdl s = true -> exists a, s = [a; 58] /\ is_alpha a = true.
Proof.
  unfold is_normalized_wdl, is_wdl, starts_with_wdl. destruct s as [|a [|b [|c r]]]; cbn; try discriminate;
    rewrite ?andb_false_r; try discriminate.
  intros H. apply andb_true_iff in H. destruct H as [H1 H2]. apply N.eqb_eq in H2. subst b.
  exists a. split; [reflexivity|]. rewrite andb_true_r in H1. apply andb_true_iff in H1. tauto.
Qed.

Section PathAny.
Variables (dbg : bool) (st : scheme_type) (ps k : N).
Hypothesis Hk : k <= ps + 1.

Definition bad_seg (ser : list N) (ss : N) : Prop :=
  ps <= ss /\ k <= ss /\ ps + 4 <= nlen ser
  /\ exists c0, nnth ser ss = Some c0 /\ c0 <> 46 /\ c0 <> 37 /\ (is_alpha c0 = true -> ss + 3 <= nlen ser).

Lemma bad_seg_app ser ss x : bad_seg ser ss -> bad_seg (ser ++ x) ss.
Proof using. clear Hk.
  intros (H1 & H2 & H3 & c0 & H4 & H5 & H6 & H7). pose proof (nnth_lt _ _ _ H4) as L.
  repeat split; try assumption; [rewrite nlen_app; lia|].
  exists c0. rewrite nnth_app_lt by exact L. repeat split; try assumption. intros Ha. rewrite nlen_app. specialize (H7 Ha). lia.
Qed.

Lemma shorten_any s2 : nlen s2 = ps \/ (exists i, ps <= i /\ nnth s2 i = Some 47) ->
  exists n, shorten_path st ps s2 = POk (nfirstn n s2) /\ (ps + 1 <= n \/ nlen s2 <= n).
Proof using. clear Hk.
  intros H. assert (exists n, POk s2 = POk (nfirstn n s2) /\ (ps + 1 <= n \/ nlen s2 <= n)) as Hsame.
  { exists (nlen s2). split; [rewrite nfirstn_all by lia; reflexivity | right; lia]. }
  unfold shorten_path. destruct (nlen s2 =? ps) eqn:E; [exact Hsame|].
  destruct (st_is_file st && is_normalized_wdl (nskipn ps s2)); [exact Hsame|].
  destruct H as [H|(i & Hi & Hn)]; [lia|].
  pose proof (nnth_lt _ _ _ Hn) as Hlt. unfold pop_path. replace (ps <? nlen s2) with true by lia.
  assert (nnth (nskipn ps s2) (i - ps) = Some 47) as Hn' by (rewrite nnth_nskipn; replace (ps + (i - ps)) with i by lia; exact Hn).
  destruct (rfind_some 47 _ _ Hn') as [sp Hsp]. rewrite Hsp.
  destruct (st_is_file st && is_normalized_wdl (nskipn (ps + sp + 1) s2)); [exact Hsame|].
  exists (ps + sp + 1). split; [reflexivity | left; lia].
Qed.

Lemma dd_any ser ss : seg_inv ps k ser ss ->
  let s1 := truncate ser ss in
  let s2 := if ends_with_byte 47 s1 && last_slash_can_be_removed s1 ps then nfirstn (nlen s1 - 1) s1 else s1 in
  exists n, shorten_path st ps s2 = POk (nfirstn n ser) /\ ps <= n /\ k <= n /\ n <= ss.
Proof using Hk.
  intros (H1 & H2 & H3 & H4 & H5). cbv zeta. unfold truncate.
  pose proof (nlen_nfirstn ss ser H4) as L.
  destruct (seg_inv_trunc ps k ser ss H1 H2 H3 H4 H5) as [_ He]. rewrite He. cbn [andb].
  destruct (last_slash_can_be_removed (nfirstn ss ser) ps) eqn:EL.
  - unfold last_slash_can_be_removed in EL. rewrite L in *.
    destruct (rfind 47 (nfirstn (ss - 1) (nfirstn ss ser))) as [p|] eqn:Ep; [|discriminate].
    apply andb_true_iff in EL. destruct EL as [EL _].
    pose proof (rfind_spec _ _ _ Ep) as Hp. pose proof (nnth_lt _ _ _ Hp) as Hpl.
    rewrite nfirstn_nfirstn in * by lia.
    assert (nlen (nfirstn (ss - 1) ser) = ss - 1) as L2 by (apply nlen_nfirstn; lia).
    destruct (shorten_any (nfirstn (ss - 1) ser)) as (n & En & Hn).
    { right. exists p. split; [lia | exact Hp]. }
    rewrite En. destruct (N.le_gt_cases n (ss - 1)) as [G|G].
    + rewrite nfirstn_nfirstn by lia. exists n. split; [reflexivity|]. lia.
    + rewrite nfirstn_all by lia. exists (ss - 1). split; [reflexivity|]. lia.
  - assert (nlen (nfirstn ss ser) = ps \/ (exists i, ps <= i /\ nnth (nfirstn ss ser) i = Some 47)) as Hpre.
    { destruct (N.eq_dec ss ps) as [E|E]; [left; lia|]. right. exists (ss - 1). split; [lia|].
      rewrite nnth_nfirstn by lia. exact H5. }
    destruct (shorten_any (nfirstn ss ser) Hpre) as (n & En & Hn). rewrite En.
    destruct (N.le_gt_cases n ss) as [G|G].
    + rewrite nfirstn_nfirstn by lia. exists n. split; [reflexivity|]. lia.
    + rewrite nfirstn_all by lia. exists ss. split; [reflexivity|]. lia.
Qed.

Lemma finish_any ser ss ews hh : seg_inv ps k ser ss ->
  (ews = true -> ss + 1 <= nlen ser /\ ends_with_byte 47 ser = true) ->
  exists s' hh', finish_segment dbg st ps ser ss ews hh = POk (s', hh') /\ agree_pre k ser s'
                 /\ (ews = true -> seg_inv ps k s' (nlen s')).
Proof using Hk.
  intros I Hews. pose proof I as (H1 & H2 & H3 & H4 & H5). unfold finish_segment.
  rewrite slice_o_some; [| destruct ews; [destruct (Hews eq_refl); lia | lia] | destruct ews; lia].
  cbn [of_option pbind].
  set (seg := nfirstn _ _). destruct (is_double_dot seg).
  - assert ((if dbg then match (if 1 <=? ss then nnth ser (ss - 1) else None) with
                         | Some b => passert (b =? 47) | None => PPanic end else POk tt) = POk tt) as Ed.
    { destruct dbg; [|reflexivity]. replace (1 <=? ss) with true by lia. rewrite H5. reflexivity. }
    rewrite Ed. cbn [pbind].
    destruct (dd_any ser ss I) as (n & En & N1 & N2 & N3). cbv zeta in En. rewrite En. cbn [pbind].
    assert (nlen (nfirstn n ser) = n) as Ln by (apply nlen_nfirstn; lia).
    destruct (ends_with_byte 47 (nfirstn n ser)) eqn:E3.
    + rewrite andb_false_r. exists (nfirstn n ser), hh. split; [reflexivity|].
      split; [apply agree_pre_nfirstn_ge; exact N2|]. intros _.
      apply ends_with_byte_nnth in E3. rewrite Ln in *. destruct E3 as [E3 E4]. repeat split; try lia. exact E4.
    + rewrite andb_true_r. destruct ews.
      * exists (nfirstn n ser ++ [47]), hh. split; [reflexivity|].
        split; [eapply agree_pre_trans; [apply agree_pre_nfirstn_ge; exact N2 | apply agree_pre_app_le; lia]|].
        intros _. apply seg_inv_snoc; lia.
      * exists (nfirstn n ser), hh. split; [reflexivity|]. split; [apply agree_pre_nfirstn_ge; exact N2 | discriminate].
  - destruct (is_single_dot seg).
    + unfold truncate. destruct (seg_inv_trunc ps k ser ss H1 H2 H3 H4 H5) as [I3 E3]. rewrite E3.
      exists (nfirstn ss ser), hh. split; [reflexivity|]. split; [apply agree_pre_nfirstn_ge; exact H2|]. intros _. exact I3.
    + destruct (st_is_file st && (ss =? ps + 1) && is_wdl seg) eqn:Ew.
      * apply andb_true_iff in Ew. destruct Ew as [_ Ew]. destruct (is_wdl_head seg Ew) as (c & r & -> & _).
        unfold truncate. assert (nlen (nfirstn ss ser) = ss) as Ls by (apply nlen_nfirstn; lia).
        eexists. exists false. split; [reflexivity|].
        split; [eapply agree_pre_trans; [apply agree_pre_nfirstn_ge; exact H2 | apply agree_pre_app_le; lia]|].
        intros ->. change ([c; 58] ++ [47]) with ([c; 58] ++ [47]). rewrite app_assoc.
        apply seg_inv_snoc; rewrite nlen_app, Ls; change (nlen [c; 58]) with 2; lia.
      * exists ser, hh. split; [reflexivity|]. split; [reflexivity|].
        intros E. destruct (Hews E) as [G1 G2]. apply ends_with_byte_nnth in G2. destruct G2 as [G2 G3].
        repeat split; try lia. exact G3.
Qed.

(* a segment that starts with a character other than '.' / '%' and, if it starts with a letter, has at
   least three bytes: nothing happens *)
Lemma finish_bad ser ss (ews : bool) hh c0 : nnth ser ss = Some c0 -> c0 <> 46 -> c0 <> 37 ->
  (if ews then ss + 2 <= nlen ser else ss + 1 <= nlen ser) ->
  (is_alpha c0 = true -> if ews then ss + 4 <= nlen ser else ss + 3 <= nlen ser) ->
  finish_segment dbg st ps ser ss ews hh = POk (ser, hh).
Proof using. clear Hk.
  intros Hn H1 H2 HL Ha. unfold finish_segment.
  rewrite slice_o_some by (destruct ews; lia). cbn [of_option pbind].
  rewrite (nskipn_cons_of_nnth _ _ _ Hn).
  set (m := (if ews then nlen ser - 1 else nlen ser) - ss).
  assert (1 <= m) as Hm by (subst m; destruct ews; lia).
  assert (nfirstn m (c0 :: nskipn (ss + 1) ser) = c0 :: nfirstn (m - 1) (nskipn (ss + 1) ser)) as Eseg.
  { replace m with (1 + (m - 1)) at 1 by lia. unfold nfirstn. rewrite N2Nat.inj_add. reflexivity. }
  rewrite Eseg.
  destruct (not_dot_head c0 (nfirstn (m - 1) (nskipn (ss + 1) ser)) H1 H2) as [D1 D2]. rewrite D1, D2.
  assert (is_wdl (c0 :: nfirstn (m - 1) (nskipn (ss + 1) ser)) = false) as Ew.
  { unfold is_wdl. destruct (is_alpha c0) eqn:Eal.
    - specialize (Ha eq_refl).
      assert (nlen (nfirstn (m - 1) (nskipn (ss + 1) ser)) = m - 1) as Lt.
      { apply nlen_nfirstn. rewrite nlen_nskipn. subst m. destruct ews; lia. }
      assert (2 <= m - 1) as Hm2 by (subst m; destruct ews; lia).
      unfold nlen in Lt. cbn [length].
      replace (S (length (nfirstn (m - 1) (nskipn (ss + 1) ser))) =? 2)%nat with false; [reflexivity|].
      symmetry. apply Nat.eqb_neq. lia.
    - unfold starts_with_wdl. destruct (nfirstn (m - 1) (nskipn (ss + 1) ser)) as [|b r]; [apply andb_false_r|].
      rewrite Eal. cbn [andb]. apply andb_false_r. }
  rewrite Ew. rewrite andb_false_r. reflexivity.
Qed.

Definition path_inv (ser : list N) (ss : N) : Prop := seg_inv ps k ser ss \/ bad_seg ser ss.

Lemma path_inv_app ser ss x : path_inv ser ss -> path_inv (ser ++ x) ss.
Proof using. clear Hk. intros [H|H]; [left; apply seg_inv_app | right; apply bad_seg_app]; exact H. Qed.

Lemma finish_inv_any base ss (ews : bool) hh : path_inv base ss ->
  let ser := if ews then base ++ [47] else base in
  exists s' hh', finish_segment dbg st ps ser ss ews hh = POk (s', hh') /\ agree_pre k ser s'
                 /\ (ews = true -> seg_inv ps k s' (nlen s')).
Proof using Hk.
  intros [I|B]; cbv zeta.
  - apply finish_any.
    + destruct ews; [apply seg_inv_app|]; exact I.
    + intros ->. destruct I as (_ & _ & _ & I4 & _).
      split; [rewrite nlen_app; change (nlen [47]) with 1; lia | apply ends_with_byte_snoc].
  - destruct B as (B1 & B2 & B3 & c0 & B4 & B5 & B6 & B7). pose proof (nnth_lt _ _ _ B4) as L.
    destruct ews.
    + assert (nnth (base ++ [47]) ss = Some c0) as Hn by (rewrite nnth_app_lt by exact L; exact B4).
      rewrite (finish_bad (base ++ [47]) ss true hh c0 Hn B5 B6).
      * exists (base ++ [47]), hh. split; [reflexivity|]. split; [reflexivity|]. intros _.
        apply seg_inv_snoc; lia.
      * rewrite nlen_app. change (nlen [47]) with 1. lia.
      * intros Ha. specialize (B7 Ha). rewrite nlen_app. change (nlen [47]) with 1. lia.
    + rewrite (finish_bad base ss false hh c0 B4 B5 B6 ltac:(cbv iota; lia) B7).
      exists base, hh. split; [reflexivity|]. split; [reflexivity | discriminate].
Qed.

Lemma path_inv_k ser ss : path_inv ser ss -> k <= nlen ser.
Proof using. clear Hk.
  intros [(_ & H2 & _ & H4 & _)|(_ & H2 & _ & c0 & H4 & _)]; [lia|]. apply nnth_lt in H4. lia.
Qed.

(* the result of the path state: the file fix-up of a serialization that keeps the first k bytes *)
Definition path_res (ser : list N) (X : pres (list N * bool * list N)) : Prop :=
  exists s2 hh' rem, X = POk (file_path_fixup st ps s2, hh', rem) /\ agree_pre k ser s2 /\ rem_ok rem.

Lemma path_res_pre ser ser0 X : agree_pre k ser0 ser -> path_res ser X -> path_res ser0 X.
Proof using. clear Hk.
  intros Ha (s2 & hh' & rem & E & Ha2 & Hr). exists s2, hh', rem. split; [exact E|]. split; [|exact Hr].
  eapply agree_pre_trans; eassumption.
Qed.

Notation loop := (parse_path_loop dbg CUrlParser st ps).

Theorem loop_any l : forall ser ss pend hh, path_inv ser ss -> path_res ser (loop l ser ss pend hh).
Proof using Hk.
  assert (forall l0 ser ss pend hh, path_inv ser ss -> rem_ok l0 ->
            path_res ser (' (s2, hh0) <~ finish_segment dbg st ps (push_pending CUrlParser st ser pend) ss false hh ;;
                          POk (file_path_fixup st ps s2, hh0, l0))) as Hend.
  { intros l0 ser ss pend hh I Hr. destruct (push_pending_app st CUrlParser pend ser) as [x Ex]. rewrite Ex.
    destruct (finish_inv_any (ser ++ x) ss false hh (path_inv_app ser ss x I)) as (s' & hh' & Ef & Ha & _).
    cbv zeta iota in Ef, Ha. rewrite Ef. cbn [pbind]. exists s', hh', l0. split; [reflexivity|].
    split; [|exact Hr]. pose proof (path_inv_k ser ss I).
    eapply agree_pre_trans; [apply agree_pre_app_le; lia | exact Ha]. }
  induction l as [|c r IH]; intros ser ss pend hh I.
  - cbn [parse_path_loop]. apply Hend; [exact I | exact rem_ok_nil].
  - cbn [parse_path_loop]. pose proof (path_inv_k ser ss I) as Lk.
    destruct (push_pending_app st CUrlParser pend ser) as [x Ex].
    destruct (is_tnl c) eqn:Et.
    { rewrite Ex. eapply path_res_pre; [apply agree_pre_app_le; exact Lk|].
      apply IH. apply path_inv_app. exact I. }
    cbn [ctx_eqb negb andb].
    destruct ((c =? 47) || (c =? 92) && st_is_special st).
    { rewrite Ex.
      destruct (finish_inv_any (ser ++ x) ss true hh (path_inv_app ser ss x I)) as (s2 & hh2 & Ef & Ha & I3).
      cbv zeta iota in Ef, Ha. rewrite Ef. cbn [pbind].
      eapply path_res_pre; [|apply IH; left; exact (I3 eq_refl)].
      eapply agree_pre_trans; [apply agree_pre_app_le; exact Lk|].
      eapply agree_pre_trans; [apply agree_pre_app_le; rewrite nlen_app; lia | exact Ha]. }
    rewrite andb_true_r. fold (is_qh c). destruct (is_qh c) eqn:Eq.
    { apply Hend; [exact I | apply rem_ok_cons; assumption]. }
    destruct (st_is_file st && (ps <? nlen ser) && is_normalized_wdl (nskipn (ps + 1) ser)) eqn:Ew; [|apply IH; exact I].
    (* the drive-letter arm: the path is exactly "/C:" *)
    apply andb_true_iff in Ew. destruct Ew as [Ew Ew3]. apply andb_true_iff in Ew. destruct Ew as [_ Ew2].
    destruct (nwdl_inv _ Ew3) as (a & Ea & Hal).
    assert (nlen ser = ps + 3) as Ls.
    { pose proof (nlen_nskipn (ps + 1) ser) as Hl. rewrite Ea in Hl. change (nlen [a; 58]) with 2 in Hl. lia. }
    assert (nnth ser (ps + 1) = Some a) as Ha1.
    { pose proof (nnth_nskipn ser (ps + 1) 0) as Hn. rewrite Ea, N.add_0_r in Hn. symmetry. exact Hn. }
    assert (nnth ser (ps + 2) = Some 58) as Ha2.
    { pose proof (nnth_nskipn ser (ps + 1) 1) as Hn. rewrite Ea in Hn. replace (ps + 1 + 1) with (ps + 2) in Hn by lia.
      symmetry. exact Hn. }
    assert (a <> 47 /\ a <> 46 /\ a <> 37) as Hane by (unfold is_alpha, is_upper, is_lower in Hal; lia).
    rewrite Ex. eapply path_res_pre; [|apply IH].
    { eapply agree_pre_trans; [apply agree_pre_app_le; exact Lk | apply agree_pre_app_le; rewrite nlen_app; lia]. }
    right. destruct I as [(I1 & I2 & I3 & I4 & I5)|(_ & _ & B3 & _)]; [|lia].
    assert (ss = ps \/ ss = ps + 1) as Hss.
    { destruct (N.eq_dec ss (ps + 2)) as [E|E]; [subst ss; replace (ps + 2 - 1) with (ps + 1) in I5 by lia; rewrite Ha1 in I5; inversion I5; lia|].
      destruct (N.eq_dec ss (ps + 3)) as [E'|E']; [subst ss; replace (ps + 3 - 1) with (ps + 2) in I5 by lia; rewrite Ha2 in I5; discriminate|].
      lia. }
    unfold bad_seg. rewrite !nlen_app. change (nlen [47]) with 1.
    split; [lia|]. split; [lia|]. split; [lia|].
    destruct Hss as [->| ->].
    + exists a. rewrite !nnth_app_lt by (rewrite ?nlen_app; lia). repeat split; try tauto. intros _. lia.
    + exists 58. replace (ps + 1 + 1) with (ps + 2) by lia. rewrite !nnth_app_lt by (rewrite ?nlen_app; lia).
      repeat split; try assumption; try lia. discriminate.
Qed.

Theorem parse_path_any hh ser l : seg_inv ps k ser (nlen ser) ->
  path_res ser (parse_path dbg CUrlParser st hh ps ser l).
Proof using Hk. intros I. unfold parse_path. apply loop_any. left. exact I. Qed.

(* the path state entered in front of a separator: the first segment is empty *)
Theorem parse_path_at_slash hh ser l c r : inp_next l = Some (c, r) ->
  ((c =? 47) || (c =? 92) && st_is_special st) = true -> ps <= nlen ser -> k <= nlen ser ->
  path_res ser (parse_path dbg CUrlParser st hh ps ser l).
Proof using Hk.
  intros En Hc H1 H2. unfold parse_path. rewrite loop_drop_tnl.
  unfold inp_next in En. destruct (drop_while is_tnl l) as [|c' r'] eqn:Ed; [discriminate|]. inversion En; subst c' r'.
  assert (is_tnl c = false) as Et.
  { destruct (is_tnl c) eqn:E; [|reflexivity]. unfold is_tnl in E. exfalso. lia. }
  cbn [parse_path_loop]. rewrite Et. cbn [ctx_eqb negb andb push_pending]. rewrite Hc.
  assert (finish_segment dbg st ps (ser ++ [47]) (nlen ser) true hh = POk (ser ++ [47], hh)) as Ef.
  { unfold finish_segment. rewrite nlen_app. change (nlen [47]) with 1. replace (nlen ser + 1 - 1) with (nlen ser) by lia.
    rewrite slice_o_some by (rewrite ?nlen_app; lia). rewrite N.sub_diag.
    cbn [of_option pbind nfirstn N.to_nat firstn is_double_dot is_single_dot].
    replace (is_wdl []) with false by reflexivity. rewrite andb_false_r. reflexivity. }
  rewrite Ef. cbn [pbind].
  eapply path_res_pre; [apply agree_pre_app_le; exact H2|].
  apply loop_any. left. apply seg_inv_snoc; lia.
Qed.

End PathAny.
