(* Proofs/C07_PathKnown.v - class 1 of Known_C07 (a drive-letter-shaped piece AND two adjacent dots in the raw pathname
   value) contains every value on which the exclusion of the path equivalence applies (spath_okO of
   Proofs/C07_PathText.v: a ".." meets a drive-letter-shaped last segment of the Standard's list):
     - no two adjacent dots in the raw value => no buffer of the path state is a double-dot segment;
     - no drive-letter-shaped piece in the raw value => no segment of the Standard's list is drive-letter-shaped
   (the percent-encoding of the path set neither makes nor hides a dot or a drive letter). *)
From Coq Require Import ZifyBool ZifyN.
From RU Require Import Base.Prelude Base.Utf8 Base.Utf8Facts Model.HostT Model.UrlRecord Model.Parser
  Model.KnownC01 Model.KnownC07 Spec.Whatwg
  Proofs.C02_Path Proofs.C08_Input Proofs.C01_EqEnc Proofs.C01_EqRun Proofs.C01_EqDots Proofs.C01_EqPathSpec Proofs.C01_EqPath
  Proofs.C01_EqSpSpec Proofs.C01_EqSpPath Proofs.C01_KnownExact Proofs.C01_EqSpKnown
  Proofs.C07_SpecPath Proofs.C07_PathText.

(* ================= two adjacent dots ================= *)
Lemma has_dotdot_suffix a : forall b, has_dotdot (a ++ b) = false -> has_dotdot b = false.
Proof.
  induction a as [|x a IH]; intros b H; [exact H|]. cbn [app has_dotdot] in H.
  apply orb_false_iff in H. destruct H as [_ H]. exact (IH b H).
Qed.

Lemma dd_cases B : is_double_dot' B = true ->
  In B [[46; 46]; [46; 37; 50; 101]; [46; 37; 50; 69]; [37; 50; 101; 46]; [37; 50; 69; 46];
        [37; 50; 101; 37; 50; 101]; [37; 50; 101; 37; 50; 69]; [37; 50; 69; 37; 50; 101]; [37; 50; 69; 37; 50; 69]].
Proof.
  intros H. destruct B as [|a [|b [|c [|d [|e [|f [|g r]]]]]]]; cbn [is_double_dot'] in H; try discriminate H;
    unfold is_pct2e in H.
  - assert (a = 46 /\ b = 46) as [-> ->] by lia. cbn; tauto.
  - assert ((a = 46 /\ b = 37 /\ c = 50 /\ (d = 101 \/ d = 69)) \/ (a = 37 /\ b = 50 /\ (c = 101 \/ c = 69) /\ d = 46)) as K by lia.
    destruct K as [(-> & -> & -> & [->| ->])|(-> & -> & [->| ->] & ->)]; cbn; tauto.
  - assert (a = 37 /\ b = 50 /\ (c = 101 \/ c = 69) /\ d = 37 /\ e = 50 /\ (f = 101 \/ f = 69)) as K by lia.
    destruct K as (-> & -> & [->| ->] & -> & -> & [->| ->]); cbn; tauto.
Qed.

Lemma double_dot_has B y : is_double_dot B = true -> has_dotdot (B ++ y) = true.
Proof.
  rewrite is_double_dot_eq. intros H. apply dd_cases in H. cbn [In] in H.
  repeat (destruct H as [<-|H]; [reflexivity|]). destruct H.
Qed.

Lemma fin_ok_nodd P Braw y : has_dotdot (Braw ++ y) = false -> fin_ok P (upe in_path_set Braw) = true.
Proof.
  intros H. unfold fin_ok. rewrite double_dot_enc.
  destruct (is_double_dot Braw) eqn:E; [|reflexivity].
  rewrite (double_dot_has Braw y E) in H. discriminate H.
Qed.

Lemma spath_okO_nodd sp x : forall Braw P, has_dotdot (Braw ++ x) = false ->
  spath_okO sp x P (upe in_path_set Braw) = true.
Proof.
  induction x as [|c r IH]; intros Braw P H; cbn [spath_okO].
  - exact (fin_ok_nodd P Braw [] H).
  - destruct (sepc sp c).
    + rewrite (fin_ok_nodd P Braw (c :: r) H). cbn [andb].
      change (@nil N) with (upe in_path_set []). apply IH. cbn [app].
      apply (has_dotdot_suffix (Braw ++ [c])). rewrite <- app_assoc. exact H.
    + rewrite upe_snoc. apply IH. rewrite <- app_assoc. exact H.
Qed.

(* ================= drive-letter-shaped pieces ================= *)
Lemma sepc_path_end sp c : sepc sp c = true -> is_path_end c = true.
Proof. unfold sepc, is_path_end. destruct sp; cbn [andb]; lia. Qed.

Lemma hds_none_some t p : has_drive_segment_from None t = false -> has_drive_segment_from (Some p) t = false.
Proof.
  destruct t as [|a [|b rest]]; try reflexivity. rewrite !hds_cons. intros H.
  apply orb_false_iff in H. destruct H as [H1 H2]. rewrite H2, orb_false_r.
  rewrite andb_true_r in H1.
  destruct (is_alpha a && ((b =? 58) || (b =? 124))); [|reflexivity]. cbn [andb] in *.
  rewrite H1, andb_false_r. reflexivity.
Qed.

(* at the end of a segment the encoded buffer is not drive-letter-shaped *)
Lemma buffer_not_wdl p Braw x : is_path_end p = true ->
  match x with [] => True | c :: _ => is_path_end c = true end ->
  has_drive_segment_from (Some p) (Braw ++ x) = false ->
  starts_with_wdl (upe in_path_set Braw ++ [47]) = false.
Proof.
  intros Hp Hx H. destruct (starts_with_wdl (upe in_path_set Braw ++ [47])) eqn:E; [|reflexivity]. exfalso.
  apply wdl_enc_raw in E. unfold k_wdl in E.
  destruct Braw as [|a [|b rest]].
  { cbn in E. discriminate E. }
  { cbn [app starts_with_wdl] in E. change ((47 =? 58) || (47 =? 124)) with false in E. rewrite andb_false_r in E. discriminate E. }
  cbn [app starts_with_wdl] in E. apply andb_true_iff in E. destruct E as [E E3]. apply andb_true_iff in E. destruct E as [E1 E2].
  cbn [app] in H. rewrite (hds_hit p a b (rest ++ x) Hp E1 E2) in H; [discriminate H|].
  destruct rest as [|z rest]; cbn [app] in *; [exact Hx | exact E3].
Qed.

Lemma spath_okO_nodrive sp x : forall p Braw P, is_path_end p = true -> nowdl P = true ->
  has_drive_segment_from (Some p) (Braw ++ x) = false ->
  spath_okO sp x P (upe in_path_set Braw) = true.
Proof.
  induction x as [|c r IH]; intros p Braw P Hp HP H; cbn [spath_okO].
  - apply nowdl_fin_ok. exact HP.
  - destruct (sepc sp c) eqn:Esep.
    + rewrite (nowdl_fin_ok P _ HP). cbn [andb].
      pose proof (sepc_path_end sp c Esep) as Ec.
      change (@nil N) with (upe in_path_set []).
      apply (IH c [] (fin P (upe in_path_set Braw) true)); [exact Ec | |].
      * apply nowdl_fin; [exact HP|]. intros _ _. exact (buffer_not_wdl p Braw (c :: r) Hp Ec H).
      * cbn [app]. exact (hds_suffix Braw (Some p) c r H).
    + rewrite upe_snoc. apply (IH p (Braw ++ [c]) P Hp HP). rewrite <- app_assoc. exact H.
Qed.

(* ================= class 1 of Known_C07 ================= *)
(* the path state starts on the text itself (the value is not led by a separator) *)
Theorem known1_okO sp t : has_drive_segment t && has_dotdot t = false -> spath_okO sp t [] [] = true.
Proof.
  intros H. change (@nil N) with (upe in_path_set []). apply andb_false_iff in H. destruct H as [H|H].
  - apply (spath_okO_nodrive sp t 47 [] []); [reflexivity | reflexivity|]. cbn [app]. apply hds_none_some. exact H.
  - apply spath_okO_nodd. exact H.
Qed.

(* the path state starts behind the leading separator of the value *)
Theorem known1_okO_tail sp c r : sepc sp c = true -> has_drive_segment (c :: r) && has_dotdot (c :: r) = false ->
  spath_okO sp r [] [] = true.
Proof.
  intros Hc H. change (@nil N) with (upe in_path_set []). apply andb_false_iff in H. destruct H as [H|H].
  - apply (spath_okO_nodrive sp r c [] []); [exact (sepc_path_end sp c Hc) | reflexivity|]. cbn [app].
    exact (hds_suffix [] None c r H).
  - apply spath_okO_nodd. cbn [app]. exact (has_dotdot_suffix [c] r H).
Qed.
