(* Proofs/C17_Fragment.v - for opaque-path data: URLs the fragment DataUrl::decode returns,
   percent-encoded with to_percent_encoded, is the URL parser's fragment.  Both are "what follows the
   first '#', ASCII tab / newlines removed, percent-encoded with the fragment set". *)
From RU Require Import Base.Prelude Base.Utf8 Base.Utf8Facts Model.AsciiSet Gen.Tables Model.PercentEncoding
  Model.HostT Model.UrlRecord Model.Parser Model.Mime Model.Base64 Model.DataUrl Model.DataUrlTie
  Proofs.ListN Proofs.C14_Set Proofs.C14_Enc Proofs.C14_Views Proofs.C02_Enc Proofs.C02_Parts Proofs.C02_Opaque
  Proofs.C18_BodyRef Proofs.C17_Tables Proofs.C17_Total Proofs.C17_Decode Proofs.C17_Bridge.

Fixpoint after_first (c : N) (l : list N) : option (list N) :=
  match l with
  | [] => None
  | x :: r => if x =? c then Some r else after_first c r
  end.

(* ---- the URL side: the record of an opaque-path URL, explicitly ---- *)
Section Opaque.
Variable dbg : bool.
Variable hp hpo : list N -> result host.
Variable hd : host -> list N.

Theorem parse_opaque_explicit input sch rem u : usv_list input ->
  parse_scheme CUrlParser (input_new_trim_c0 input) = Some (sch, rem) ->
  scheme_type_of sch = STNotSpecial -> inp_split_prefix_char 47 rem = None ->
  parse_url dbg hp hpo hd None None input = POk u ->
  usv_list rem /\
  u = opaque_url sch (opaque_of rem) (pqf_q STNotSpecial (cbb_rest rem)) (pqf_f (cbb_rest rem)).
Proof.
  intros Hu Hs Hns H47. unfold parse_url. rewrite Hs. unfold parse_with_scheme. rewrite Hns.
  destruct (to_u32 (nlen sch)) as [se| |] eqn:Eu; cbn [pbind]; try discriminate.
  apply to_u32_inv in Eu. destruct Eu as [-> Hb0].
  destruct (parse_scheme_suffix _ _ _ _ Hs) as [pre Hpre].
  assert (usv_list rem) as Hur.
  { assert (usv_list (input_new_trim_c0 input)) as Ht.
    { unfold input_new_trim_c0, Parser.trim_matches. apply usv_rev.
      destruct (drop_while_spec Parser.is_c0_or_space (rev (Parser.drop_while Parser.is_c0_or_space input))) as (a & Ha & _).
      destruct (drop_while_spec Parser.is_c0_or_space input) as (a0 & Ha0 & _).
      rewrite Ha0 in Hu. apply usv_app in Hu. destruct Hu as [_ Hu].
      apply usv_rev in Hu. rewrite Ha in Hu. apply usv_app in Hu. tauto. }
    rewrite Hpre in Ht. apply usv_app in Ht. tauto. }
  rewrite pns_opaque_eval by assumption.
  destruct (to_u32 (nlen (sch ++ [58]))) as [ps| |] eqn:Eu; cbn [pbind]; try discriminate.
  apply to_u32_inv in Eu. destruct Eu as [-> Hb1].
  destruct (parse_query_and_fragment None CUrlParser STNotSpecial (nlen sch) (opaque_pre sch (opaque_of rem)) (cbb_rest rem))
    as [[[s2 qs] fs]| |] eqn:Eq; cbn [pbind]; try discriminate.
  intros H. inversion H; subst u. clear H.
  apply pqf_out in Eq; [|apply usv_cbb_rest; exact Hur|reflexivity].
  destruct Eq as (-> & -> & -> & _). split; [exact Hur|reflexivity].
Qed.
End Opaque.

(* serialization without fragment, and fragment, of that record *)
Lemma opaque_url_fragment sch P q f : url_fragment (opaque_url sch P q f) = f.
Proof.
  unfold url_fragment, opaque_url. cbn [fragment_start ser]. unfold qf_fs.
  destruct f as [x|]; [|reflexivity]. f_equal.
  unfold opaque_ser, qf_text. cbn [qf_ftext].
  replace (nlen (opaque_pre sch P) + nlen (qf_qtext q) + 1) with (nlen ((opaque_pre sch P ++ qf_qtext q) ++ [35]))
    by (rewrite !nlen_app; unfold nlen; cbn [length]; lia).
  replace (opaque_pre sch P ++ qf_qtext q ++ 35 :: x) with (((opaque_pre sch P ++ qf_qtext q) ++ [35]) ++ x)
    by (rewrite <- !app_assoc; reflexivity).
  apply nskipn_app_len.
Qed.

Lemma opaque_url_without_fragment sch P q f :
  url_without_fragment (opaque_url sch P q f) = opaque_pre sch P ++ qf_qtext q.
Proof.
  unfold url_without_fragment, opaque_url. cbn [fragment_start ser]. unfold qf_fs.
  destruct f as [x|].
  - unfold opaque_ser, qf_text. cbn [qf_ftext].
    replace (nlen (opaque_pre sch P) + nlen (qf_qtext q)) with (nlen (opaque_pre sch P ++ qf_qtext q)) by (rewrite nlen_app; reflexivity).
    rewrite app_assoc. apply nfirstn_app_len.
  - unfold opaque_ser, qf_text. cbn [qf_ftext]. rewrite app_nil_r. reflexivity.
Qed.

(* the fragment the URL parser produces: what follows the first '#' of the text after the scheme *)
Lemma query_rest_after l : query_rest true l = after_first 35 l.
Proof.
  induction l as [|c r IH]; [reflexivity|]. cbn [query_rest after_first].
  destruct (is_tnl c) eqn:Et.
  - replace (c =? 35) with false by (unfold is_tnl in Et; lia). exact IH.
  - rewrite andb_true_r. destruct (c =? 35); [reflexivity|exact IH].
Qed.

Lemma pqf_f_after rem : pqf_f (cbb_rest rem) = option_map frag_of (after_first 35 rem).
Proof.
  induction rem as [|c r IH]; [reflexivity|]. cbn [cbb_rest after_first].
  destruct (is_tnl c) eqn:Et.
  { replace (c =? 35) with false by (unfold is_tnl in Et; lia). exact IH. }
  unfold is_qh. destruct (c =? 35) eqn:E35.
  { rewrite orb_true_r. unfold pqf_f. rewrite inp_next_cons by exact Et. rewrite E35. reflexivity. }
  destruct (c =? 63) eqn:E63; cbn [orb]; [|exact IH].
  unfold pqf_f. rewrite inp_next_cons by exact Et. rewrite E35, E63, query_rest_after. reflexivity.
Qed.

(* ---- the crate side ---- *)
Lemma body_ref_fragment : forall n b, (length b <= n)%nat -> snd (body_ref b) = after_first 35 b.
Proof.
  induction n as [|n IH]; intros b Hl.
  - destruct b; [reflexivity|cbn [length] in Hl; lia].
  - destruct b as [|x r]; [reflexivity|]. cbn [length] in Hl. cbn [body_ref after_first].
    destruct (x =? 35) eqn:E35; [reflexivity|].
    destruct ((x =? 9) || (x =? 10) || (x =? 13)); [apply IH; lia|].
    assert (Hkeep : snd (let (o, f) := body_ref r in (x :: o, f)) = after_first 35 r).
    { rewrite <- (IH r) by lia. destruct (body_ref r); reflexivity. }
    destruct (x =? 37); [|exact Hkeep].
    destruct r as [|h [|l r']]; try exact Hkeep.
    destruct (hex_val h) as [hv|] eqn:Eh; [|exact Hkeep].
    destruct (hex_val l) as [lv|] eqn:El; [|exact Hkeep].
    cbn [after_first].
    assert (Hh : (h =? 35) = false) by (unfold hex_val, is_digit in Eh; destruct (h =? 35) eqn:E; [apply N.eqb_eq in E; subst h; discriminate|reflexivity]).
    assert (Hl2 : (l =? 35) = false) by (unfold hex_val, is_digit in El; destruct (l =? 35) eqn:E; [apply N.eqb_eq in E; subst l; discriminate|reflexivity]).
    rewrite Hh, Hl2. rewrite <- (IH r') by (cbn [length] in Hl; lia). destruct (body_ref r'); reflexivity.
Qed.

Lemma fcbf_loop_spec s : forall rest pre h body, s = pre ++ rest -> ~ In 44 pre -> ~ In 35 pre ->
  fcbf_loop s (length pre) rest = Ok (Some (h, body)) ->
  s = h ++ 44 :: body /\ ~ In 44 h /\ ~ In 35 h.
Proof.
  induction rest as [|byte rest IH]; intros pre h body Hs Hc Hh; cbn [fcbf_loop]; [discriminate|].
  change T_DU_COMMA with 44. change T_DU_HASH with 35.
  destruct (byte =? 44) eqn:E1.
  - apply N.eqb_eq in E1. subst byte. unfold slice_to, slice_from.
    destruct (is_char_boundary s (length pre)); cbn [bind]; [|discriminate].
    destruct (is_char_boundary s (length pre + 1)); cbn [bind]; [|discriminate].
    intros H. inversion H; subst h body. clear H.
    assert (F : firstn (length pre) s = pre) by (rewrite Hs, firstn_app, Nat.sub_diag, firstn_all; cbn [firstn]; apply app_nil_r).
    assert (K : skipn (length pre + 1) s = rest).
    { rewrite Hs. replace (pre ++ 44 :: rest) with ((pre ++ [44]) ++ rest) by (rewrite <- app_assoc; reflexivity).
      replace (length pre + 1)%nat with (length (pre ++ [44])) by (rewrite app_length; reflexivity).
      rewrite skipn_app, skipn_all, Nat.sub_diag. reflexivity. }
    rewrite F, K. split; [exact Hs|split; assumption].
  - destruct (byte =? 35) eqn:E2; [discriminate|].
    replace (S (length pre)) with (length (pre ++ [byte])) by (rewrite app_length; cbn [length]; lia).
    apply IH.
    + rewrite <- app_assoc. exact Hs.
    + intros Hin. apply in_app_or in Hin. destruct Hin as [Hin|[Hin|[]]]; [exact (Hc Hin)|subst byte; discriminate].
    + intros Hin. apply in_app_or in Hin. destruct Hin as [Hin|[Hin|[]]]; [exact (Hh Hin)|subst byte; discriminate].
Qed.

Lemma find_comma_spec s h body : find_comma_before_fragment s = Ok (Some (h, body)) ->
  s = h ++ 44 :: body /\ ~ In 44 h /\ ~ In 35 h.
Proof. intros H. apply (fcbf_loop_spec s s [] h body eq_refl); [intros []|intros []|exact H]. Qed.

Lemma after_first_app_notin c a b : ~ In c a -> after_first c (a ++ b) = after_first c b.
Proof.
  induction a as [|x a IH]; intros H; [reflexivity|]. cbn [app after_first].
  destruct (x =? c) eqn:E; [apply N.eqb_eq in E; exfalso; apply H; left; exact E|].
  apply IH. intros Hin. apply H. right. exact Hin.
Qed.

(* bytes vs code points: the first ASCII byte c of the encoding is the first code point c *)
Lemma after_first_utf8 c s : c < 128 -> usv_list s ->
  after_first c (utf8_encode s) = option_map utf8_encode (after_first c s).
Proof.
  intros Hc. induction s as [|x r IH]; intros Hu; [reflexivity|]. inversion Hu as [|? ? Hx Hr]; subst.
  rewrite utf8_cons. cbn [after_first].
  destruct (x =? c) eqn:E.
  - apply N.eqb_eq in E. subst x. rewrite encode1_ascii by exact Hc. cbn [app after_first]. rewrite N.eqb_refl. reflexivity.
  - rewrite after_first_app_notin; [exact (IH Hr)|].
    intros Hin. apply (utf8_encode1_low x c Hin) in Hc. subst x. rewrite N.eqb_refl in E. discriminate.
Qed.

(* to_percent_encoded on the bytes of a string = the fragment state of the URL parser on the string *)
Lemma to_percent_encoded_bytes : forall bs, bytes bs ->
  to_percent_encoded bs = encode T_FRAGMENT (filter not_tnl bs).
Proof.
  induction bs as [|b r IH]; intros Hb; [reflexivity|]. inversion Hb as [|? ? Hb1 Hb2]; subst. unfold is_byte in Hb1.
  cbn [to_percent_encoded filter]. rewrite is_skipped_spec. unfold not_tnl. change (is_tnl b) with (tnl b).
  destruct (tnl b) eqn:Et; cbn [negb]; [exact (IH Hb2)|].
  rewrite encode_cons. unfold enc1. rewrite <- frag_enc_is_fragment by exact Hb1.
  destruct (in_ranges b T_DU_FRAG_ENC).
  - rewrite percent_encode_spec by exact Hb1. rewrite (IH Hb2). reflexivity.
  - rewrite (IH Hb2). reflexivity.
Qed.

Lemma filter_not_tnl_utf8 s : usv_list s -> filter not_tnl (utf8_encode s) = utf8_encode (strip_tnl s).
Proof.
  induction s as [|c r IH]; intros Hu; [reflexivity|]. inversion Hu as [|? ? Hc Hr]; subst.
  rewrite utf8_cons, filter_app, (IH Hr). unfold strip_tnl. cbn [filter].
  destruct (not_tnl c) eqn:En.
  - rewrite utf8_cons. f_equal.
    assert (Hall : forallb not_tnl (utf8_encode1 c) = true).
    { apply forallb_forall. intros b Hb. unfold not_tnl, is_tnl in *.
      destruct (N.ltb_spec b 128) as [Hlt|Hge]; [rewrite (utf8_encode1_low c b Hb Hlt); exact En|lia]. }
    clear -Hall. induction (utf8_encode1 c) as [|b l IHl]; [reflexivity|]. cbn [filter forallb] in *.
    apply andb_true_iff in Hall. destruct Hall as [H1 H2]. rewrite H1. f_equal. exact (IHl H2).
  - rewrite encode1_ascii by (unfold not_tnl, is_tnl in En; lia). cbn [filter]. rewrite En. reflexivity.
Qed.

Lemma to_percent_encoded_frag x : usv_list x -> to_percent_encoded (utf8_encode x) = frag_of x.
Proof.
  intros Hu. rewrite to_percent_encoded_bytes by (apply utf8_encode_bytes; exact Hu).
  rewrite filter_not_tnl_utf8 by exact Hu. reflexivity.
Qed.

(* ---- what process_and_decode returns, in terms of the pieces ---- *)
Lemma process_and_decode_pieces s m b body fragment :
  process_and_decode s = PdOk m b (inl body) fragment ->
  exists A h B, pretend_parse_data_url (utf8_encode s) = Ok (Some A)
    /\ find_comma_before_fragment A = Ok (Some (h, B))
    /\ parse_header h = Ok (m, b)
    /\ fragment = option_map to_percent_encoded (snd (body_ref B))
    /\ DataUrl.decode_to_vec (mk_data_url m b B) = DecOk body (snd (body_ref B)).
Proof.
  unfold process_and_decode, process_and_decode_bytes, process_bytes.
  destruct (pretend_parse_data_url (utf8_encode s)) as [[A|]| |] eqn:EA; cbn [bind]; try discriminate.
  destruct (find_comma_before_fragment A) as [[[h B]|]| |] eqn:EB; cbn [bind]; try discriminate.
  destruct (parse_header h) as [[m' b']| |] eqn:EH; cbn [bind fst snd]; try discriminate.
  destruct (DataUrl.decode_to_vec (mk_data_url m' b' B)) as [body' f'|d|] eqn:Ed; try discriminate.
  cbn [DataUrl.mime_type du_mime_type du_base64]. intros H. inversion H; subst. clear H.
  assert (Hf : f' = snd (body_ref B)).
  { rewrite decode_to_vec_ref in Ed. unfold decoded_ref in Ed. cbn [du_base64 du_encoded_body_plus_fragment] in Ed.
    destruct (body_ref B) as [out f]. cbn [snd].
    destruct b; [destruct (Model.Base64.decode_to_vec out); inversion Ed; reflexivity|inversion Ed; reflexivity]. }
  exists A, h, B. split; [reflexivity|]. split; [exact EB|]. split; [exact EH|]. split; [rewrite Hf; reflexivity|].
  rewrite Ed, Hf. reflexivity.
Qed.

Lemma scheme_type_of_data : scheme_type_of s_data = STNotSpecial.
Proof. reflexivity. Qed.

(* ---- the theorem ---- *)
Theorem fragment_is_url_fragment dbg hp ho hd s rem u : usv_list s ->
  parse_scheme CUrlParser (input_new_trim_c0 s) = Some (s_data, rem) -> inp_split_prefix_char 47 rem = None ->
  parse_url dbg hp ho hd None None s = POk u ->
  forall m b body fragment, process_and_decode s = PdOk m b (inl body) fragment ->
  fragment = url_fragment u.
Proof.
  intros Hs Hp H47 Hu m b body fragment Hpd.
  destruct (parse_opaque_explicit dbg hp ho hd s s_data rem u Hs Hp scheme_type_of_data H47 Hu) as [Hur ->].
  rewrite opaque_url_fragment, pqf_f_after.
  destruct (process_and_decode_pieces _ _ _ _ _ Hpd) as (A & h & B & HA & HB & _ & Hf & _).
  rewrite (pretend_parse_is_parse_scheme s rem Hs Hp) in HA. inversion HA; subst A. clear HA.
  destruct (find_comma_spec _ _ _ HB) as (Hsplit & _ & Hno).
  rewrite Hf, (body_ref_fragment (length B) B (Nat.le_refl _)).
  assert (E : after_first 35 B = after_first 35 (utf8_encode rem)).
  { rewrite Hsplit. rewrite after_first_app_notin by exact Hno. reflexivity. }
  rewrite E, after_first_utf8 by (try exact Hur; lia).
  destruct (after_first 35 rem) as [x|] eqn:Ex; [|reflexivity]. cbn [option_map]. f_equal.
  apply to_percent_encoded_frag.
  (* x is a suffix of rem *)
  clear -Hur Ex. revert Ex. induction rem as [|c r IH]; cbn [after_first]; [discriminate|].
  inversion Hur; subst. destruct (c =? 35); [intros H; inversion H; subst; assumption|auto].
Qed.
